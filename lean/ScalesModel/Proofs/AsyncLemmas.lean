import ScalesModel.Adapter.Async
import Mathlib.Data.List.Nodup
import Mathlib.Data.Finset.Card
import Mathlib.Data.Finset.Range
import Mathlib.Data.List.Range

namespace Scales.Async

/-- pigeonhole for index lists -/
theorem nodup_lt_length_le (l : List Nat) (n : Nat) (h : l.Nodup) (hlt : ∀ x ∈ l, x < n) :
    l.length ≤ n := by
  have hs : l.toFinset ⊆ Finset.range n := by
    intro x hx; simp at hx ⊢; exact hlt x hx
  have := Finset.card_le_card hs
  rw [List.toFinset_card_of_nodup h, Finset.card_range] at this; exact this

theorem nodup_lt_length_eq_mem (l : List Nat) (n : Nat) (h : l.Nodup) (hlt : ∀ x ∈ l, x < n)
    (hlen : l.length = n) : ∀ i, i < n → i ∈ l := by
  intro i hi
  have hs : l.toFinset ⊆ Finset.range n := by
    intro x hx; simp at hx ⊢; exact hlt x hx
  have hc : (Finset.range n).card ≤ l.toFinset.card := by
    rw [List.toFinset_card_of_nodup h, Finset.card_range, hlen]
  have := Finset.eq_of_subset_of_card_le hs hc
  have hm : i ∈ l.toFinset := by rw [this]; simp [hi]
  simpa using hm

/-- results array after successful deliveries `done` -/
def resultsOf (outs : List Out) (done : List Nat) : List (Option Nat) :=
  (List.range outs.length).map (fun i => if i ∈ done then (outs[i]?).bind valOf else none)

/-- WhenAll invariant after delivering `done` (nodup, in range) -/
def WAInv (outs : List Out) (done : List Nat) (s : WA) : Prop :=
  match (failsIn outs done).getLast? with
  | some d => s.ret = .err (errAt outs d)
  | none =>
      s.total = outs.length - done.length ∧ s.results = resultsOf outs done ∧
      s.ret = (if done.length = outs.length then .vals (resultsOf outs done) else .pending)

theorem resultsOf_nil (outs : List Out) : resultsOf outs [] = List.replicate outs.length none := by
  unfold resultsOf
  apply List.ext_getElem <;> simp

theorem WAInv_init (outs : List Out) (hn : 1 ≤ outs.length) : WAInv outs [] (WA.init outs.length) := by
  unfold WAInv failsIn WA.init
  simp [resultsOf_nil]
  omega

theorem resultsOf_snoc (outs : List Out) (done : List Nat) (d : Nat) (v : Nat)
    (hd : outs[d]? = some (.ok v)) :
    (resultsOf outs done).set d (some v) = resultsOf outs (done ++ [d]) := by
  unfold resultsOf
  apply List.ext_getElem
  · simp
  · intro i h1 h2
    simp at h1 h2
    simp [List.getElem_set]
    by_cases hid : d = i
    · subst hid; simp [hd, valOf]
    · simp [hid]
      have : ¬ i = d := fun h => hid h.symm
      simp [this]

theorem failsIn_snoc (outs : List Out) (done : List Nat) (d : Nat) :
    failsIn outs (done ++ [d]) = if isErrAt outs d then failsIn outs done ++ [d] else failsIn outs done := by
  unfold failsIn; simp [List.filter_append, List.filter_cons]
  split <;> simp

theorem WAInv_step (outs : List Out) (done : List Nat) (s : WA) (d : Nat) (o : Out)
    (hd : outs[d]? = some o) (hnd : (done ++ [d]).Nodup)
    (hlt : ∀ x ∈ done ++ [d], x < outs.length)
    (h : WAInv outs done s) : WAInv outs (done ++ [d]) (s.complete d o) := by
  have hlen := nodup_lt_length_le _ _ hnd hlt
  simp at hlen
  unfold WAInv at *
  rw [failsIn_snoc]
  cases o with
  | err e =>
    have : isErrAt outs d = true := by simp [isErrAt, hd]
    simp [this, WA.complete, errAt, hd]
  | ok v =>
    have hne : isErrAt outs d = false := by simp [isErrAt, hd]
    simp only [hne, Bool.false_eq_true, if_false]
    cases hf : (failsIn outs done).getLast? with
    | some d' =>
      simp only [hf] at h
      simp [WA.complete, h, Res.ready]
    | none =>
      simp only [hf] at h
      obtain ⟨ht, hr, hret⟩ := h
      have hlt' : done.length ≠ outs.length := by omega
      simp only [hlt', if_false] at hret
      simp only [WA.complete, hret, Res.ready, Bool.false_eq_true, if_false]
      rw [hr, resultsOf_snoc outs done d v hd, ht]
      simp only [List.length_append, List.length_singleton]
      by_cases hfull : done.length + 1 = outs.length
      · have : outs.length - done.length - 1 = 0 := by omega
        simp [this, hfull]
      · have : ¬ (outs.length - done.length - 1 = 0) := by omega
        simp [this, hfull]
        omega

theorem WAInv_run (outs : List Out) (ds : List Nat) :
    ∀ (done : List Nat) (s : WA), (done ++ ds).Nodup → (∀ x ∈ done ++ ds, x < outs.length) →
      WAInv outs done s → WAInv outs (done ++ ds) (WA.run outs s ds) := by
  induction ds with
  | nil => intro done s _ _ h; simpa [WA.run] using h
  | cons d ds ih =>
    intro done s hnd hlt h
    have hdlt : d < outs.length := hlt d (by simp)
    have hd : outs[d]? = some outs[d] := by simp [hdlt]
    simp only [WA.run, hd]
    have hnd' : (done ++ [d] ++ ds).Nodup := by simpa using hnd
    have hlt' : ∀ x ∈ done ++ [d] ++ ds, x < outs.length := by simpa using hlt
    have := ih (done ++ [d]) (s.complete d outs[d]) hnd' hlt'
      (WAInv_step outs done s d outs[d] hd (hnd'.sublist (by simp)) (fun x hx => hlt' x (by simp at hx ⊢; tauto)) h)
    simpa using this

/-- master lemma for WhenAll -/
theorem WA_master (outs : List Out) (ds : List Nat) (hn : 1 ≤ outs.length) (hnd : ds.Nodup)
    (hlt : ∀ x ∈ ds, x < outs.length) :
    WAInv outs ds (WA.run outs (WA.init outs.length) ds) := by
  have := WAInv_run outs ds [] (WA.init outs.length) (by simpa) (by simpa) (WAInv_init outs hn)
  simpa using this

theorem resultsOf_full (outs : List Out) (ds : List Nat) (hall : ∀ i, i < outs.length → i ∈ ds) :
    resultsOf outs ds = outs.map valOf := by
  unfold resultsOf
  apply List.ext_getElem
  · simp
  · intro i h1 h2
    simp at h1 h2
    simp [hall i h1, List.getElem?_eq_getElem h1]

end Scales.Async

namespace Scales.Async

/-! ### WhenAny -/

def WAnyInv (outs : List Out) (done : List Nat) : AnyRet → Prop
  | .same _ => False
  | .fresh total ret => total = outs.length - done.length ∧ ret = anyExpected outs done

theorem WAnyInv_step (outs : List Out) (done : List Nat) (s : AnyRet) (d : Nat) (o : Out)
    (hd : outs[d]? = some o) (hnd : (done ++ [d]).Nodup)
    (hlt : ∀ x ∈ done ++ [d], x < outs.length)
    (h : WAnyInv outs done s) : WAnyInv outs (done ++ [d]) (WAny.complete s o) := by
  have hlen := nodup_lt_length_le _ _ hnd hlt
  simp at hlen
  cases s with
  | same i => simp [WAnyInv] at h
  | fresh total ret =>
    obtain ⟨ht, hr⟩ := h
    have hne : done.length ≠ outs.length := by omega
    unfold WAny.complete
    simp only
    unfold WAnyInv WAny.newRet
    refine ⟨by simp [ht]; omega, ?_⟩
    unfold anyExpected at hr ⊢
    rw [List.find?_append]
    cases hf : done.find? (isOkAt outs) with
    | some d' =>
      simp only [hf] at hr
      simp [hr, Res.ready]
    | none =>
      simp only [hf, hne, if_false] at hr
      subst hr
      simp only [Res.ready, Bool.false_eq_true, if_false, Option.none_or]
      cases o with
      | ok v =>
        have : isOkAt outs d = true := by simp [isOkAt, hd]
        simp [List.find?, this, valAt, hd]
      | err e =>
        have : isOkAt outs d = false := by simp [isOkAt, hd]
        simp only [List.find?, this, List.length_append, List.length_singleton]
        by_cases hfull : done.length + 1 = outs.length
        · have h0 : total - 1 = 0 := by omega
          simp [h0, hfull, errAt, hd]
        · have h0 : ¬ (total - 1 = 0) := by omega
          simp [h0, hfull]

theorem WAnyInv_run (outs : List Out) (ds : List Nat) :
    ∀ (done : List Nat) (s : AnyRet), (done ++ ds).Nodup → (∀ x ∈ done ++ ds, x < outs.length) →
      WAnyInv outs done s → WAnyInv outs (done ++ ds) (WAny.run outs s ds) := by
  induction ds with
  | nil => intro done s _ _ h; simpa [WAny.run] using h
  | cons d ds ih =>
    intro done s hnd hlt h
    have hdlt : d < outs.length := hlt d (by simp)
    have hd : outs[d]? = some outs[d] := by simp [hdlt]
    simp only [WAny.run, hd]
    have hnd' : (done ++ [d] ++ ds).Nodup := by simpa using hnd
    have hlt' : ∀ x ∈ done ++ [d] ++ ds, x < outs.length := by simpa using hlt
    have := ih (done ++ [d]) (WAny.complete s outs[d]) hnd' hlt'
      (WAnyInv_step outs done s d outs[d] hd (hnd'.sublist (by simp)) (fun x hx => hlt' x (by simp at hx ⊢; tauto)) h)
    simpa using this

theorem WAny_master (outs : List Out) (ds : List Nat) (hnd : ds.Nodup)
    (hlt : ∀ x ∈ ds, x < outs.length) :
    WAnyInv outs ds (WAny.run outs (.fresh outs.length .pending) ds) := by
  have h0 : WAnyInv outs [] (.fresh outs.length .pending) := by
    unfold WAnyInv anyExpected; simp
  have := WAnyInv_run outs ds [] _ (by simpa) (by simpa) h0
  simpa using this

theorem WAny_alias_run (outs : List Out) (i : Nat) (ds : List Nat) :
    WAny.run outs (.same i) ds = .same i := by
  induction ds with
  | nil => rfl
  | cons d ds ih =>
    simp only [WAny.run]
    split <;> simp [WAny.complete, ih]


end Scales.Async

namespace Scales.Async

/-! ### Unwrap -/

def lvlRes : Option Lvl → Res
  | some (.fail e) => .err e
  | some (.plain v) => .val v
  | _ => .pending

theorem termIdx_spec (c : List Lvl) (h : chainWF c = true) :
    termIdx c < c.length ∧ (∀ j, j < termIdx c → c[j]? = some .inner) ∧
    c[termIdx c]? ≠ some .inner ∧ chainOutcome c = lvlRes c[termIdx c]? ∧
    (lvlRes c[termIdx c]?).ready = true := by
  induction c with
  | nil => simp [chainWF] at h
  | cons x r ih =>
    cases x with
    | inner =>
      have hr : chainWF r = true := by
        cases r with
        | nil => simp [chainWF] at h
        | cons y r' => simpa [chainWF] using h
      obtain ⟨h1, h2, h3, h4, h5⟩ := ih hr
      refine ⟨by simp [termIdx]; exact h1, ?_, by simpa [termIdx] using h3, by simpa [termIdx, chainOutcome] using h4, by simpa [termIdx] using h5⟩
      intro j hj
      cases j with
      | zero => simp
      | succ j => simp [termIdx] at hj ⊢; exact h2 j hj
    | plain v => simp [termIdx, chainOutcome, lvlRes, Res.ready]
    | fail e => simp [termIdx, chainOutcome, lvlRes, Res.ready]

/-- what `walk` returns when started at `k ≤ t` with enough fuel -/
theorem walk_spec (c : List Lvl) (ready : List Bool) (hwf : chainWF c = true) :
    ∀ (fuel k : Nat), k ≤ termIdx c → termIdx c + 1 - k ≤ fuel →
      ∀ p w r, UW.walk c ready fuel k = (p, w, r) →
        k ≤ p ∧ p ≤ termIdx c ∧ (∀ j, k ≤ j → j < p → ready.getD j false = true) ∧
        (w = true → ready.getD p false = false ∧ r = .pending) ∧
        (w = false → p = termIdx c ∧ ready.getD p false = true ∧ r = chainOutcome c) := by
  obtain ⟨ht1, ht2, ht3, ht4, _⟩ := termIdx_spec c hwf
  intro fuel
  induction fuel with
  | zero => intro k hk hf; omega
  | succ fuel ih =>
    intro k hk hf p w r hw
    unfold UW.walk at hw
    by_cases hr : ready.getD k false = true
    · simp only [hr, if_true] at hw
      by_cases hkt : k = termIdx c
      · subst hkt
        have hlt : termIdx c < c.length := ht1
        cases hc : c[termIdx c]? with
        | none => simp at hc; omega
        | some x =>
          cases x with
          | inner => exact absurd hc ht3
          | plain v =>
            simp only [hc] at hw
            obtain ⟨rfl, rfl, rfl⟩ := by simpa using hw
            refine ⟨le_refl _, le_refl _, by intros; omega, by simp, ?_⟩
            intro _; exact ⟨rfl, hr, by rw [ht4, hc]; rfl⟩
          | fail e =>
            simp only [hc] at hw
            obtain ⟨rfl, rfl, rfl⟩ := by simpa using hw
            refine ⟨le_refl _, le_refl _, by intros; omega, by simp, ?_⟩
            intro _; exact ⟨rfl, hr, by rw [ht4, hc]; rfl⟩
      · have hklt : k < termIdx c := by omega
        have hc := ht2 k hklt
        simp only [hc] at hw
        obtain ⟨h1, h2, h3, h4, h5⟩ := ih (k + 1) (by omega) (by omega) p w r hw
        refine ⟨by omega, h2, ?_, h4, h5⟩
        intro j hj1 hj2
        by_cases hjk : j = k
        · subst hjk; exact hr
        · exact h3 j (by omega) hj2
    · simp only [hr] at hw
      obtain ⟨rfl, rfl, rfl⟩ := by simpa using hw
      refine ⟨le_refl _, hk, by intros; omega, ?_, by simp⟩
      intro _; exact ⟨by simpa using hr, rfl⟩

structure UWInv (s : UW) : Prop where
  wf : chainWF s.chain = true
  rlen : s.ready.length = s.chain.length
  posle : s.pos ≤ termIdx s.chain
  below : ∀ j, j < s.pos → s.ready.getD j false = true
  wait : s.waiting = true → s.target = .pending ∧ s.sets = 0
  done : s.waiting = false →
    s.pos = termIdx s.chain ∧ s.ready.getD s.pos false = true ∧
    s.target = chainOutcome s.chain ∧ s.sets = 1

theorem settle_inv (s : UW) (k : Nat) (hwf : chainWF s.chain = true)
    (hrlen : s.ready.length = s.chain.length) (hk : k ≤ termIdx s.chain)
    (hbelow : ∀ j, j < k → s.ready.getD j false = true)
    (hfresh : s.target = .pending ∧ s.sets = 0) : UWInv (UW.settle s k) := by
  obtain ⟨ht1, _, _, ht4, ht5⟩ := termIdx_spec s.chain hwf
  unfold UW.settle
  generalize hw : UW.walk s.chain s.ready (s.chain.length + 1 - k) k = res
  obtain ⟨p, w, r⟩ := res
  obtain ⟨h1, h2, h3, h4, h5⟩ := walk_spec s.chain s.ready hwf _ k hk (by omega) p w r hw
  simp only
  cases w with
  | true =>
    simp only [if_true]
    exact ⟨hwf, hrlen, h2, fun j hj => by
      by_cases hjk : j < k
      · exact hbelow j hjk
      · exact h3 j (by omega) hj, fun _ => hfresh, by simp⟩
  | false =>
    obtain ⟨rfl, hr, rfl⟩ := h5 rfl
    have hready : (chainOutcome s.chain).ready = true := by rw [ht4]; exact ht5
    simp only [Bool.false_eq_true, if_false]
    exact ⟨hwf, hrlen, le_refl _, fun j hj => by
      by_cases hjk : j < k
      · exact hbelow j hjk
      · exact h3 j (by omega) hj, by simp, fun _ => ⟨rfl, hr, rfl, by simp [hready, hfresh.2]⟩⟩

theorem UW_init_inv (chain : List Lvl) (pre : List Bool) (hwf : chainWF chain = true) :
    UWInv (UW.init chain pre) := by
  unfold UW.init
  apply settle_inv
  · exact hwf
  · simp
  · exact Nat.zero_le _
  · intro j hj; omega
  · simp

theorem UW_setLevel_inv (s : UW) (k : Nat) (h : UWInv s) : UWInv (s.setLevel k) := by
  obtain ⟨hwf, hrlen, hpos, hbelow, hwait, hdone⟩ := h
  have hmono : ∀ j, s.ready.getD j false = true → (s.ready.set k true).getD j false = true := by
    intro j hj
    by_cases hjk : k = j
    · subst hjk
      by_cases hlt : k < s.ready.length
      · simp [List.getD_eq_getElem?_getD, hlt]
      · simp [List.getD_eq_getElem?_getD] at hj ⊢
        rw [List.getElem?_eq_none (by omega)] at hj; simp at hj
    · simpa [List.getD_eq_getElem?_getD, List.getElem?_set, hjk] using hj
  unfold UW.setLevel
  exact ⟨hwf, by simpa using hrlen, hpos, fun j hj => hmono j (hbelow j hj), hwait,
    fun hw => by
      obtain ⟨a, b, c, d⟩ := hdone hw
      exact ⟨a, hmono _ b, c, d⟩⟩

theorem UW_deliver_inv (s : UW) (h : UWInv s) : UWInv s.deliver := by
  unfold UW.deliver
  by_cases he : s.deliverEnabled = true
  · simp only [he, if_true]
    unfold UW.deliverEnabled at he
    simp at he
    obtain ⟨hwf, hrlen, hpos, hbelow, hwait, _⟩ := h
    exact settle_inv s s.pos hwf hrlen hpos hbelow (hwait he.1)
  · simp only [he]
    exact h

end Scales.Async

namespace Scales.Async

/-! ### the model's observations are accepted by the specification -/

theorem accAll_of_WAInv (outs : List Out) (ds : List Nat) (s : WA) (hnd : ds.Nodup)
    (hlt : ∀ x ∈ ds, x < outs.length) (h : WAInv outs ds s) :
    accAll outs ds s.ret = true := by
  unfold WAInv at h
  unfold accAll
  cases hf : failsIn outs ds with
  | nil =>
    simp only [hf, List.getLast?_nil] at h
    rw [h.2.2]
    by_cases hl : ds.length = outs.length
    · simp only [hl, if_true]
      rw [resultsOf_full outs ds (nodup_lt_length_eq_mem ds _ hnd hlt hl)]
      simp
    · simp [hl]
  | cons d fs =>
    simp only [hf] at h
    have hne : (d :: fs) ≠ [] := by simp
    rw [List.getLast?_eq_some_getLast hne] at h
    simp only at h
    rw [h]
    simp only [List.any_eq_true, beq_iff_eq]
    exact ⟨_, List.getLast_mem hne, rfl⟩


theorem isErr_of_not_isOk (outs : List Out) (i : Nat) (hi : i < outs.length)
    (h : isOkAt outs i = false) : isErrAt outs i = true := by
  unfold isOkAt at h; unfold isErrAt
  rw [List.getElem?_eq_getElem hi] at h ⊢
  cases ho : outs[i] with
  | ok v => simp [ho] at h
  | err e => rfl

theorem accAny_expected (outs : List Out) (pre : List Bool) (ds : List Nat) (hn : 1 ≤ outs.length)
    (hnd : ds.Nodup) (hlt : ∀ x ∈ ds, x < outs.length) :
    accAny outs pre ds (anyExpected outs ds) = true := by
  unfold anyExpected
  cases hf : ds.find? (isOkAt outs) with
  | some d => simp [accAny, hf]
  | none =>
    by_cases hl : ds.length = outs.length
    · simp only [hl, if_true]
      cases hg : ds.getLast? with
      | none =>
        rw [List.getLast?_eq_none_iff] at hg
        subst hg; simp at hl; omega
      | some d =>
        have hall := nodup_lt_length_eq_mem ds _ hnd hlt hl
        rw [List.find?_eq_none] at hf
        have hdm : d ∈ ds := List.mem_of_getLast? hg
        simp only [accAny, hg, Bool.and_eq_true, List.all_eq_true,
          List.mem_range, Bool.or_eq_true]
        refine ⟨?_, ?_⟩
        · intro i hi
          refine ⟨isErr_of_not_isOk outs i hi (by simpa using hf i (hall i hi)), Or.inr ?_⟩
          simpa using hall i hi
        · split
          · simp
          · simp only [List.any_eq_true, List.mem_range, beq_iff_eq]
            exact ⟨d, hlt d hdm, rfl⟩
    · simp [accAny, hf, hl]

theorem firstReadyOk_some (outs : List Out) (pre : List Bool) (i : Nat)
    (h : firstReadyOk outs pre = some i) :
    i < outs.length ∧ pre.getD i false = true ∧ isOkAt outs i = true := by
  unfold firstReadyOk at h
  have hsome := List.find?_some h
  have hmem := List.mem_of_find?_eq_some h
  simp at hmem hsome
  refine ⟨hmem, hsome.1, ?_⟩
  unfold isOkAt
  rw [List.getElem?_eq_getElem hmem]
  have h2 := hsome.2
  rw [List.getElem?_eq_getElem hmem] at h2
  cases ho : outs[i] with
  | ok v => rfl
  | err e => simp [ho, Out.isOk] at h2

theorem accAny_same (outs : List Out) (pre : List Bool) (ds : List Nat) (i : Nat)
    (h : firstReadyOk outs pre = some i) :
    accAny outs pre ds (WAny.view outs pre ds (.same i)) = true := by
  obtain ⟨hi, hp, hok⟩ := firstReadyOk_some outs pre i h
  unfold isOkAt at hok
  rw [List.getElem?_eq_getElem hi] at hok
  cases ho : outs[i] with
  | err e => simp [ho] at hok
  | ok v =>
    have hp' : pre[i]?.getD false = true := by simpa [List.getD_eq_getElem?_getD] using hp
    have hv : WAny.view outs pre ds (.same i) = .val v := by
      simp [WAny.view, List.getElem?_eq_getElem hi, ho, hp']
    rw [hv]
    simp only [accAny, Bool.or_eq_true, List.any_eq_true, List.mem_range, Bool.and_eq_true, beq_iff_eq]
    refine Or.inr ⟨i, hi, ⟨hp, ?_⟩, ?_⟩
    · simp [isOkAt, List.getElem?_eq_getElem hi, ho]
    · simp [valAt, List.getElem?_eq_getElem hi, ho]

/-- after a `deliver`, a helper that is still waiting waits on a level that is not complete -/
theorem settle_wait (s : UW) (k : Nat) (hwf : chainWF s.chain = true) (hk : k ≤ termIdx s.chain) :
    (UW.settle s k).waiting = true →
      (UW.settle s k).ready.getD (UW.settle s k).pos false = false := by
  unfold UW.settle
  generalize hw : UW.walk s.chain s.ready (s.chain.length + 1 - k) k = res
  obtain ⟨p, w, r⟩ := res
  obtain ⟨ht1, _⟩ := termIdx_spec s.chain hwf
  obtain ⟨_, _, _, h4, _⟩ := walk_spec s.chain s.ready hwf _ k hk (by omega) p w r hw
  simp only
  cases w with
  | true => intro _; simpa using (h4 rfl).1
  | false => simp

theorem deliver_wait (s : UW) (h : UWInv s) :
    s.deliver.waiting = true → s.deliver.ready.getD s.deliver.pos false = false := by
  unfold UW.deliver
  by_cases he : s.deliverEnabled = true
  · simp only [he, if_true]
    exact settle_wait s s.pos h.wf h.posle
  · simp only [he]
    intro hw
    unfold UW.deliverEnabled at he
    simp at he
    simpa using he hw

theorem settle_chain (s : UW) (k : Nat) : (UW.settle s k).chain = s.chain ∧ (UW.settle s k).ready = s.ready := by
  unfold UW.settle
  split
  split <;> simp

theorem deliver_chain (s : UW) : s.deliver.chain = s.chain ∧ s.deliver.ready = s.ready := by
  unfold UW.deliver
  split
  · exact settle_chain s s.pos
  · exact ⟨rfl, rfl⟩

theorem readyOf_set (pre : List Bool) (n : Nat) (sets : List Nat) (k : Nat) :
    (readyOf pre n sets).set k true = readyOf pre n (sets ++ [k]) := by
  unfold readyOf
  apply List.ext_getElem
  · simp
  · intro i h1 h2
    simp at h1 h2
    simp only [List.getElem_set, List.getElem_map, List.getElem_range]
    by_cases hik : k = i
    · subst hik; simp
    · have : ¬ i = k := fun h => hik h.symm
      simp [hik, this]

theorem allReady_of_done (s : UW) (h : UWInv s) (hw : s.waiting = false) :
    allReadyUpTo s.ready (termIdx s.chain) = true := by
  obtain ⟨hp, hr, _, _⟩ := h.done hw
  unfold allReadyUpTo
  simp only [List.all_eq_true, List.mem_range]
  intro j hj
  by_cases hjp : j < s.pos
  · exact h.below j hjp
  · have : j = s.pos := by omega
    subst this; exact hr

end Scales.Async
