/-
  Proofs/MuxTSpecLemmas.lean — the simulation step between the ThriftMux transport model and the
  accumulator of its executable specification, for every operation; consequences over whole
  histories; connection failures as shutdowns.
-/
import ScalesModel.Proofs.MuxTRaceLemmas
set_option linter.unusedSimpArgs false
set_option linter.unusedVariables false
namespace Scales.MuxT
open Scales.Transport

attribute [simp] isClose

theorem isClose_isReq (op : Op) (h : isClose op = true) : isReq op = none := by
  cases op <;> simp_all [isReq]

/-- an event in the middle of a drain, seen from the accumulator of the specification: the frames
    dispatched before it settle their requests, the `_Shutdown` fails everything else -/
theorem race_spec (s s1 : St) (a : Acc) (seen : List Nat) (rs : List (IOOut × Frame)) (pos : Pos)
    (x : Hit) (h : Rel s a seen) (hc : s.cstate ≠ .closed) (d : List (Nat × Resp)) (F : DispFacts s s1 d)
    (o : Obs) (hst : o.state = .closed)
    (hdl : o.dels = d ++ s1.tagMap.map (fun p => (p.2, Resp.cerr)))
    (hfa : isFailure (.race rs pos x) o = true → o.faults = 1) :
    specStep a (.race rs pos x) o = (.ok, nextAcc a (.race rs pos x) o [] a.abandoned) := by
  have hmap : s1.tagMap.map (fun p => (p.2, Resp.cerr)) =
      (s1.tagMap.map (·.2)).map (fun i => (i, Resp.cerr)) := by simp [List.map_map]
  have hset : settle (owedWith a (.race rs pos x)) a.abandoned o.dels = .ok ([], a.abandoned) := by
    simp only [owedWith, isReq, h.owed, hdl]
    rw [settle_append _ _ _ _ _ _ (F.settle a.abandoned), hmap]
    exact settle_all _ _ (fun _ => Resp.cerr)
  have hnf : firstUnfailed (.race rs pos x) (owedWith a (.race rs pos x)) o.dels = none := by
    simp only [firstUnfailed, owedWith, isReq, h.owed, hdl]
    rw [List.find?_eq_none]
    intro id hid
    simp only [Bool.not_eq_true, Bool.not_eq_false', List.any_append, Bool.or_eq_true]
    rcases settle_covers d _ _ _ _ (F.settle a.abandoned) id hid with h1 | h1
    · right
      obtain ⟨p, hp, he⟩ := List.mem_map.mp h1
      exact List.any_eq_true.mpr ⟨(p.2, Resp.cerr), List.mem_map_of_mem hp, by simp [he]⟩
    · left; exact h1
  have hprev : a.prev ≠ .closed := by rw [h.prev]; exact hc
  have hv : vFail a (.race rs pos x) o = .ok := by
    unfold vFail
    by_cases hfl : isFailure (.race rs pos x) o = true
    · simp [hfl, hnf, hst, hfa hfl]
    · simp [hfl]
  have hcarry : vCarry a (.race rs pos x) o = .ok := by
    cases x <;> simp [vCarry, hst]
  simp only [specStep, hset, hv, hcarry, Verdict.and]

theorem step_ok_race (s : St) (a : Acc) (seen : List Nat) (rs : List (IOOut × Frame)) (pos : Pos)
    (x : Hit) (h : Rel s a seen) (hen : enabled s seen (.race rs pos x) = true) :
    (specStep a (.race rs pos x) (obsOf (s.race rs pos x).1 (s.race rs pos x).2)).1 = .ok ∧
    Rel (s.race rs pos x).1 (specStep a (.race rs pos x) (obsOf (s.race rs pos x).1 (s.race rs pos x).2)).2
      seen := by
  simp only [enabled, Bool.and_eq_true, decide_eq_true_eq] at hen
  obtain ⟨hrl, hok⟩ := hen
  have hrl : s.rl ≠ .dead := by simpa using hrl
  have hc : s.cstate ≠ .closed := fun e => hrl (h.inv.1 e).2.1
  obtain ⟨s1, d, heq, hi1, hp1, hcs, _, hF, _, _⟩ := race_shape s rs pos x h.inv hrl hok
  have F := hF h.tags h.ids
  have hc1 : s1.cstate ≠ .closed := by rw [hcs]; exact hc
  have htf : (s1.shutdown (raceFails rs pos x)).1.cstate = .closed ∧
      (s1.shutdown (raceFails rs pos x)).1.tagMap = [] ∧ (s1.shutdown (raceFails rs pos x)).1.sendQ = [] ∧
      (s1.shutdown (raceFails rs pos x)).1.sl = .dead ∧ (s1.shutdown (raceFails rs pos x)).1.rl = .dead ∧
      (s1.shutdown (raceFails rs pos x)).1.pingWait = false := by
    rw [shutdown_eq s1 _ hc1]; exact ⟨rfl, rfl, rfl, rfl, rfl, rfl⟩
  obtain ⟨t1, t2, t3, t4, t5, t6⟩ := htf
  rw [heq]
  rw [race_spec s s1 a seen rs pos x h hc d F _ t1 rfl
    (fun hfl => by
      have hb : raceFails rs pos x = true := by simpa [isFailure] using hfl
      simp [obsOf, hb])]
  exact ⟨rfl, rel_closed _ a _ _ seen _ t1 t2 t3 t4 t5 t6 t1⟩

/-- the specification looks at the number of connect attempts only to recognise a refused connect -/
theorem specStep_conns (a : Acc) (op : Op) (o : Obs) (c : Nat) (hop : ∀ r, op ≠ .openT r) :
    specStep a op { o with conns := c } = specStep a op o := by
  cases op with
  | openT r => exact absurd rfl (hop r)
  | wr o' => cases o' <;> rfl
  | rd o' f => cases o' <;> rfl
  | _ => rfl

theorem burst_sent (s : St) (rs : List (IOOut × Frame)) : (s.burst rs).2.sent = [] := by
  simp only [St.burst]

/-- the state right after an accepted connect: handshake in progress, nothing in flight -/
theorem openT_ok_facts (s : St) (hinv : Inv0 s) (hidle : s.cstate = .idle) (hnor : s.hasOpenResult = false) :
    ∃ s1 : St, s.openT .ok = (s1, { eff := { conns := 1 } }) ∧ s1.tagMap = [] ∧ s1.cstate = .idle ∧
      s1.rl ≠ .dead ∧ qIds s1 = [] ∧ Inv0 s1 := by
  refine ⟨(s.openT .ok).1, ?_, ?_, ?_, ?_, ?_, inv0_openT s .ok hinv⟩
  · simp [St.openT, hnor, hidle]
  · simp [St.openT, hnor, hidle]
  · simp [St.openT, hnor, hidle]
  · simp [St.openT, hnor, hidle]
  · simp [St.openT, hnor, hidle, qIds_pump]; simp [qIds, qItems]

/-- the connection is accepted and the first reads are already there: the open, then the burst -/
theorem step_ok_openBurst (s : St) (a : Acc) (seen : List Nat) (rs : List (IOOut × Frame))
    (h : Rel s a seen) (hen : enabled s seen (.openBurst rs) = true) :
    (specStep a (.openBurst rs) (obsOf (s.openBurst rs).1 (s.openBurst rs).2)).1 = .ok ∧
    Rel (s.openBurst rs).1 (specStep a (.openBurst rs) (obsOf (s.openBurst rs).1 (s.openBurst rs).2)).2
      seen := by
  simp only [enabled, Bool.and_eq_true, decide_eq_true_eq, Bool.not_eq_true'] at hen
  obtain ⟨hidle, hnor⟩ := hen
  have htm : s.tagMap = [] := h.inv.2 (by rw [hidle]; simp)
  obtain ⟨s1, hop, ht1, hc1, hrl1, hq1, hi1⟩ := openT_ok_facts s h.inv hidle hnor
  have h1 : Rel s1 a seen := by
    obtain ⟨r1, r2, r3, r4, r5, r6, r7, r8, r9⟩ := h
    refine ⟨?_, ?_, ?_, r4, ?_, ?_, ?_, ?_, hi1⟩
    · rw [r1, htm, ht1]
    · rw [r2, hidle, hc1]
    · intro id hid; rw [hq1] at hid; cases hid
    · intro id hid; rw [hq1] at hid; cases hid
    · rw [hq1]; exact List.nodup_nil
    · rw [ht1]; exact List.nodup_nil
    · rw [ht1]; exact List.nodup_nil
  have hobs : obsOf (s.openBurst rs).1 (s.openBurst rs).2 =
      { obsOf (s1.burst rs).1 (s1.burst rs).2 with conns := 1 } := by
    simp only [St.openBurst, hop, obsOf, burst_sent]
  have hst : (s.openBurst rs).1 = (s1.burst rs).1 := by simp only [St.openBurst, hop]
  rw [hobs, hst, specStep_conns _ _ _ _ (by intro r; simp)]
  exact step_ok_reads s1 a seen (.openBurst rs) rs h1 hrl1 rfl rfl (fun _ => rfl) (fun _ => rfl)
    (fun _ => rfl)

theorem step_ok (s : St) (a : Acc) (seen : List Nat) (op : Op) (h : Rel s a seen)
    (hen : enabled s seen op = true) :
    (specStep a op (obsOf (stepOut s op).1 (stepOut s op).2)).1 = .ok ∧
    Rel (stepOut s op).1 (specStep a op (obsOf (stepOut s op).1 (stepOut s op).2)).2
      (seenAfter op seen) := by
  cases op with
  | look =>
    rw [specStep_quiet _ _ _ rfl rfl rfl rfl]
    refine ⟨rfl, ?_⟩
    obtain ⟨h1, h2, h3, h4, h5, h6, h7, h8, h9⟩ := h
    refine ⟨?_, ?_, ?_, ?_, ?_, ?_, ?_, ?_, ?_⟩ <;>
      simp_all [nextAcc, stepOut, obsOf, seenAfter, isReq, nextUnsent, itemId] <;> assumption
  | pingSilence =>
    have hpw : s.pingWait = true := by simpa [enabled] using hen
    have hc : s.cstate ≠ .closed := by
      intro e; have := (h.inv.1 e).2.2; rw [hpw] at this; cases this
    have := step_shutdown_ok s a seen .pingSilence true 0 h hc rfl (fun _ _ => rfl) (fun _ _ => rfl)
    simpa [stepOut, St.pingSilence, hpw, shutdown_eq s true hc, seenAfter, isReq] using this
  | close =>
    by_cases hc : s.cstate = .closed
    · have htm : s.tagMap = [] := h.inv.2 (by rw [hc]; simp)
      simp only [stepOut, St.close, shutdown_closed s false hc, seenAfter, isReq]
      rw [specStep_quiet _ _ _ rfl rfl rfl (by simp [vCarry, obsOf, hc])]
      refine ⟨rfl, ?_⟩
      obtain ⟨h1, h2, h3, h4, h5, h6, h7, h8, h9⟩ := h
      refine ⟨?_, ?_, ?_, ?_, ?_, h6, h7, h8, h9⟩ <;>
        simp_all [nextAcc, obsOf, nextUnsent, itemId]
    · have := step_shutdown_ok s a seen .close false 0 h hc rfl (fun _ hf => by simp [isFailure] at hf)
        (fun o ho => by simp [vCarry, ho])
      simpa [stepOut, St.close, shutdown_eq s false hc, seenAfter, isReq] using this
  | openT r =>
    simp only [enabled, Bool.and_eq_true, decide_eq_true_eq, Bool.not_eq_true'] at hen
    obtain ⟨hidle, hnor⟩ := hen
    have hc : s.cstate ≠ .closed := by rw [hidle]; simp
    have htm : s.tagMap = [] := h.inv.2 (by rw [hidle]; simp)
    cases r with
    | refuse =>
      let s1 : St := { s with hasOpenResult := true, openRes := .pending }
      have h1 : Rel s1 a seen := by
        obtain ⟨h1, h2, h3, h4, h5, h6, h7, h8, h9⟩ := h
        exact ⟨h1, h2, h3, h4, h5, h6, h7, h8, h9⟩
      have := step_shutdown_ok s1 a seen (.openT .refuse) true 1 h1 hc rfl (fun _ _ => rfl) (fun _ _ => rfl)
      simpa [stepOut, St.openT, hnor, hidle, shutdown_eq s1 true hc, seenAfter, isReq, s1] using this
    | ok =>
      simp only [stepOut, St.openT, hnor, hidle, seenAfter, isReq]
      simp only [Bool.false_eq_true, if_false, ne_eq, not_true_eq_false]
      rw [specStep_quiet _ _ _ rfl rfl rfl rfl]
      refine ⟨rfl, ?_⟩
      apply rel_next s _ a _ _ seen h rfl rfl
      · simp [htm]
      · simp [obsOf, hidle]
      · intro id hid; rw [qIds_pump] at hid; simp [qIds, qItems] at hid
      · rw [qIds_pump]; simp [qIds, qItems, List.filterMap_cons]
      · apply inv0_pump
        · simp [Inv0, hidle]
        · simp [hidle]
  | req id tag =>
    simp only [enabled, Bool.and_eq_true, Bool.not_eq_true', Bool.or_eq_true, decide_eq_true_eq] at hen
    obtain ⟨⟨hfresh, hnop⟩, htag⟩ := hen
    have hfresh : id ∉ seen := by simpa using hfresh
    have hno : id ∉ a.owed := fun hm => hfresh (h.seenO id hm)
    have hnq : id ∉ qIds s := fun hm => hfresh (h.seenQ id hm)
    simp only [seenAfter, isReq]
    by_cases hop : s.cstate = .opened
    · -- accepted: tag map entry, queued frame
      have htag' : 2 ≤ tag ∧ tag ∉ s.tagMap.map (·.1) := by
        rcases htag with hx | hx
        · simp [hop] at hx
        · refine ⟨hx.1, ?_⟩
          intro hm
          obtain ⟨p, hp, he⟩ := List.mem_map.mp hm
          have : (s.tagMap.any fun p => p.1 == tag) = true :=
            List.any_eq_true.mpr ⟨p, hp, by simpa using he⟩
          rw [hx.2] at this; cases this
      have hstep : stepOut s (.req id tag) =
          (({ s with tagMap := s.tagMap ++ [(tag, id)], sendQ := s.sendQ ++ [.req tag id] } : St).pump, {}) := by
        simp only [stepOut, St.request]
        rw [if_neg (by simp [hnop]), if_pos hop]
      rw [hstep]
      have hq : qIds ({ s with tagMap := s.tagMap ++ [(tag, id)],
                               sendQ := s.sendQ ++ [.req tag id] } : St).pump = qIds s ++ [id] := by
        rw [qIds_pump]; simp [qIds, qItems, List.filterMap_append, List.filterMap_cons]
      have hset : settle (owedWith a (.req id tag)) a.abandoned [] = .ok (a.owed ++ [id], a.abandoned) := by
        simp [owedWith, isReq]
      have hprev : a.prev = .opened := by rw [h.prev]; exact hop
      refine ⟨by simp [specStep, obsOf, hset, vFail, isFailure, vCarry, Verdict.and], ?_⟩
      refine ⟨?_, ?_, ?_, ?_, ?_, ?_, ?_, ?_, ?_⟩
      · simp [specStep, obsOf, hset, nextAcc, h.owed]
      · simp [specStep, obsOf, hset, nextAcc, hop]
      · intro j hj
        rw [hq] at hj
        simp only [specStep, obsOf, hset, nextAcc, nextUnsent, hprev, List.any_nil, Bool.not_false]
        rcases List.mem_append.mp hj with hj | hj
        · simpa using Or.inl (h.unsent j hj)
        · simpa using Or.inr (by simpa using hj)
      · intro j hj
        simp only [specStep, obsOf, hset, nextAcc, reduceCtorEq, if_false] at hj
        rcases List.mem_append.mp hj with hj | hj
        · exact List.mem_cons_of_mem _ (h.seenO j hj)
        · simp at hj; subst hj; simp
      · intro j hj
        rw [hq] at hj
        rcases List.mem_append.mp hj with hj | hj
        · exact List.mem_cons_of_mem _ (h.seenQ j hj)
        · simp at hj; subst hj; simp
      · rw [hq]
        rw [List.nodup_append]
        refine ⟨h.qnodup, by simp, ?_⟩
        intro x hx y hy; simp at hy; subst hy; intro e; subst e; exact hnq hx
      · simp only [pump_tagMap, List.map_append, List.map_cons, List.map_nil]
        rw [List.nodup_append]
        refine ⟨h.tags, by simp, ?_⟩
        intro x hx y hy; simp at hy; subst hy; intro e; subst e; exact htag'.2 hx
      · simp only [pump_tagMap, List.map_append, List.map_cons, List.map_nil]
        rw [List.nodup_append]
        refine ⟨h.ids, by simp, ?_⟩
        intro x hx y hy; simp at hy; subst hy; intro e; subst e
        apply hno; rw [h.owed]; exact hx
      · apply inv0_pump
        · simp only [Inv0]; rw [hop]; simp
        · simp [hop]
    · -- rejected on the spot: 'Sink not open'
      have hstep : stepOut s (.req id tag) = (s, { eff := { dels := [(id, .other)] } }) := by
        simp only [stepOut, St.request]
        rw [if_neg (by simp [hnop]), if_neg hop]
      rw [hstep]
      have hset : settle (owedWith a (.req id tag)) a.abandoned [(id, Resp.other)] =
          .ok (a.owed, a.abandoned) := by
        simp only [owedWith, isReq]
        rw [settle_cons_owed _ _ _ _ _ (by simp), erase_append_singleton_of_not_mem _ _ hno]; simp
      have hprev : a.prev ≠ .opened := by rw [h.prev]; exact hop
      refine ⟨by simp [specStep, obsOf, hset, vFail, isFailure, vCarry, Verdict.and, hprev], ?_⟩
      obtain ⟨h1, h2, h3, h4, h5, h6, h7, h8, h9⟩ := h
      refine ⟨?_, ?_, ?_, ?_, ?_, h6, h7, h8, h9⟩
      · simp [specStep, obsOf, hset, nextAcc, h1]
      · simp [specStep, obsOf, hset, nextAcc]
      · intro j hj
        simp only [specStep, obsOf, hset, nextAcc, nextUnsent, hprev, List.any_nil, Bool.not_false]
        simpa using h3 j hj
      · intro j hj
        simp only [specStep, obsOf, hset, nextAcc, reduceCtorEq, if_false] at hj
        exact List.mem_cons_of_mem _ (h4 j hj)
      · intro j hj; exact List.mem_cons_of_mem _ (h5 j hj)
  | wr o =>
    simp only [enabled, Bool.and_eq_true] at hen
    obtain ⟨hw, hneof⟩ := hen
    cases hsl : s.sl with
    | dead => simp [hsl] at hw
    | waitQ => simp [hsl] at hw
    | writing it =>
      have hc : s.cstate ≠ .closed := by
        intro e; have := (h.inv.1 e).1; rw [hsl] at this; cases this
      cases o with
      | eof => simp at hneof
      | raise =>
        have := step_shutdown_ok s a seen (.wr .raise) true 0 h hc rfl (fun _ _ => rfl) (fun _ _ => rfl)
        simpa [stepOut, St.wr, hsl, shutdown_eq s true hc, seenAfter, isReq] using this
      | ok =>
        simp only [stepOut, St.wr, hsl, seenAfter, isReq]
        have hqs : qIds s = (itemId it).toList ++ s.sendQ.filterMap itemId := by
          simp only [qIds, qItems, hsl, List.filterMap_append, List.filterMap_cons, List.filterMap_nil]
          cases itemId it <;> simp
        have hq : qIds ({ s with sl := .waitQ } : St).pump = s.sendQ.filterMap itemId := by
          rw [qIds_pump]; simp [qIds, qItems]
        have hcarry : vCarry a (.wr .ok) (obsOf ({ s with sl := .waitQ } : St).pump { sent := [it] }) = .ok := by
          simp only [vCarry, obsOf, progress, List.any_cons, List.any_nil, Bool.or_false]
          cases it with
          | ping => simp
          | req t i =>
            have : i ∈ a.unsent := h.unsent i (by rw [hqs]; simp)
            simp [this]
        rw [specStep_quiet _ _ _ rfl rfl rfl hcarry]
        refine ⟨rfl, ?_⟩
        have hnd := h.qnodup
        rw [hqs] at hnd
        apply rel_next s _ a _ _ seen h rfl rfl
        · simp
        · simp [obsOf]
        · intro id hid
          rw [hq] at hid
          refine ⟨by rw [hqs]; exact List.mem_append_right _ hid, ?_⟩
          simp only [sentHas, obsOf, List.any_cons, List.any_nil, Bool.or_false]
          cases hi : itemId it with
          | none => simp
          | some j =>
            have hne : j ≠ id := by
              intro e; subst e
              rw [hi] at hnd
              simp only [Option.toList_some, List.singleton_append, List.nodup_cons] at hnd
              exact hnd.1 hid
            simpa using hne
        · rw [hq]; exact (List.nodup_append.mp hnd).2.1
        · apply inv0_pump
          · simp only [Inv0]; exact ⟨fun e => absurd e hc, h.inv.2⟩
          · exact hc
  | rd o f =>
    have hrl : s.rl ≠ .dead := by simpa [enabled] using hen
    exact step_ok_reads s a seen (.rd o f) [(o, f)] h hrl rfl rfl (fun _ => rfl)
      (fun _ => by cases o <;> simp [isFailure]) (fun _ => rfl)
  | burst rs =>
    have hrl : s.rl ≠ .dead := by simpa [enabled] using hen
    exact step_ok_reads s a seen (.burst rs) rs h hrl rfl rfl (fun _ => rfl)
      (fun _ => rfl) (fun _ => rfl)
  | race rs pos x => exact step_ok_race s a seen rs pos x h hen
  | openBurst rs => exact step_ok_openBurst s a seen rs h hen
  | pingDue =>
    by_cases hcond : (s.pingLoop && !s.pingWait && decide (s.cstate = .opened)) = true
    · simp only [stepOut, St.pingDue, hcond, if_true, seenAfter, isReq]
      have hop : s.cstate = .opened := by
        simp only [Bool.and_eq_true, decide_eq_true_eq] at hcond; exact hcond.2
      rw [specStep_quiet _ _ _ rfl rfl rfl rfl]
      refine ⟨rfl, ?_⟩
      have hq : qIds ({ s with pingWait := true, sendQ := s.sendQ ++ [.ping] } : St).pump = qIds s := by
        rw [qIds_pump]; simp [qIds, qItems, List.filterMap_append, List.filterMap_cons]
      apply rel_next s _ a _ _ seen h rfl rfl
      · simp
      · simp [obsOf]
      · intro id hid; rw [hq] at hid; exact ⟨hid, by simp [sentHas, obsOf]⟩
      · rw [hq]; exact h.qnodup
      · apply inv0_pump
        · simp only [Inv0]; rw [hop]; simp
        · simp [hop]
    · simp only [stepOut, St.pingDue, hcond, seenAfter, isReq]
      simp only [Bool.false_eq_true, if_false]
      rw [specStep_quiet _ _ _ rfl rfl rfl rfl]
      refine ⟨rfl, ?_⟩
      apply rel_next s s a _ _ seen h rfl rfl rfl (by simp [obsOf])
      · intro id hid; exact ⟨hid, by simp [sentHas, obsOf]⟩
      · exact h.qnodup
      · exact h.inv


theorem and_eq_ok {v : Verdict} {f : Unit → Verdict} (h : v.and f = .ok) : v = .ok ∧ f () = .ok := by
  cases v with
  | ok => exact ⟨rfl, h⟩
  | fail c ps => simp [Verdict.and] at h

/-- a property of the specification alone: a history it accepts hands a request at most as many
    responses as it is owed at the start plus the number of times it is issued -/
theorem spec_count (id : Nat) : ∀ (h : List (Op × Obs)) (a : Acc), specGo a h = .ok →
    responsesTo id h ≤ a.owed.count id + a.abandoned.count id + issued id h := by
  intro h
  induction h with
  | nil => intro a _; simp [responsesTo]
  | cons p rest ih =>
    intro a hok
    obtain ⟨op, o⟩ := p
    simp only [specGo] at hok
    obtain ⟨hv, hrest⟩ := and_eq_ok hok
    have ih' := ih _ hrest
    simp only [responsesTo, issued, List.map_cons, List.sum_cons, List.countP_cons] at ih' ⊢
    unfold specStep at hv ih'
    cases hset : settle (owedWith a op) a.abandoned o.dels with
    | error e => simp [hset] at hv
    | ok pr =>
      obtain ⟨owed2, ab2⟩ := pr
      have hc := settle_count id _ _ _ _ _ hset
      simp only [hset, nextAcc] at ih'
      have hown : (owedWith a op).count id =
          a.owed.count id + (if (isReq op == some id) = true then 1 else 0) := by
        unfold owedWith
        cases hr : isReq op with
        | none => simp
        | some j =>
          by_cases e : j = id
          · subst e; simp
          · simp [e, List.count_singleton]
      rw [hown] at hc
      by_cases hcl : isClose op = true
      · have hrq := isClose_isReq op hcl
        simp only [hcl, if_true, List.count_nil, List.count_append] at ih' ⊢
        simp only [hrq] at hc ⊢
        simp at hc ⊢
        omega
      · have hcl' : isClose op = false := by simpa using hcl
        simp only [hcl', Bool.false_eq_true, if_false] at ih'
        omega


theorem spec_of_rel : ∀ (ops : List Op) (s : St) (a : Acc) (seen : List Nat), Rel s a seen →
    opsOk s seen ops = true → specGo a (comp.trace () s ops) = .ok := by
  intro ops
  induction ops with
  | nil => intros; rfl
  | cons op ops ih =>
    intro s a seen hrel hok
    simp only [opsOk, Bool.and_eq_true] at hok
    obtain ⟨hen, hrest⟩ := hok
    obtain ⟨hv, hrel'⟩ := step_ok s a seen op hrel hen
    simp only [TComp.trace, comp, step, specGo]
    exact and_ok hv (ih _ _ _ hrel' hrest)


theorem issued_cons (id : Nat) (s : St) (op : Op) (ops : List Op) :
    issued id (comp.trace () s (op :: ops)) =
      issued id (comp.trace () (stepOut s op).1 ops) + (if isReq op = some id then 1 else 0) := by
  simp only [TComp.trace, comp, step, issued, List.countP_cons]
  simp

theorem issued_le (id : Nat) : ∀ (ops : List Op) (s : St) (seen : List Nat),
    opsOk s seen ops = true →
    issued id (comp.trace () s ops) ≤ (if id ∈ seen then 0 else 1) := by
  intro ops
  induction ops with
  | nil => intros; simp [TComp.trace, issued]
  | cons op ops ih =>
    intro s seen hok
    simp only [opsOk, Bool.and_eq_true] at hok
    obtain ⟨hen, hrest⟩ := hok
    have ih' := ih _ _ hrest
    rw [issued_cons]
    cases hr : isReq op with
    | none => simpa [hr] using ih'
    | some i =>
      have hfresh : i ∉ seen := by
        cases op <;> simp [isReq] at hr
        subst hr
        simp only [enabled, Bool.and_eq_true, Bool.not_eq_true'] at hen
        simpa using hen.1.1
      simp only [hr] at ih'
      by_cases e : i = id
      · subst e; simp [hfresh] at ih' ⊢; exact ih'
      · have : id ∈ i :: seen ↔ id ∈ seen := by simp [Ne.symm e]
        simp only [this] at ih'
        simpa [e] using ih'



/-- a connection failure needs a transport that is not closed, and is a shutdown with fault -/
theorem failure_is_shutdown (s : St) (op : Op) (hinv : Inv0 s) (hf : connFailure s op = true) :
    s.cstate ≠ .closed ∧ ∃ s1 : St, s1.cstate = s.cstate ∧ s1.tagMap = s.tagMap ∧
      (stepOut s op).1 = (s1.shutdown true).1 ∧
      (stepOut s op).2.eff.faults = (s1.shutdown true).2.faults ∧
      (stepOut s op).2.eff.dels = (s1.shutdown true).2.dels := by
  cases op with
  | openT r =>
    cases r with
    | ok => simp [connFailure] at hf
    | refuse =>
      simp only [connFailure, Bool.and_eq_true, decide_eq_true_eq, Bool.not_eq_true'] at hf
      refine ⟨by rw [hf.1]; simp, { s with hasOpenResult := true, openRes := .pending }, rfl, rfl, ?_⟩
      simp [stepOut, St.openT, hf.1, hf.2]
  | wr o =>
    cases hsl : s.sl with
    | writing it =>
      have hc : s.cstate ≠ .closed := by
        intro e; have := (hinv.1 e).1; rw [hsl] at this; cases this
      cases o <;> simp [connFailure, hsl] at hf
      exact ⟨hc, s, rfl, rfl, by simp [stepOut, St.wr, hsl]⟩
    | dead => cases o <;> simp [connFailure, hsl] at hf
    | waitQ => cases o <;> simp [connFailure, hsl] at hf
  | rd o f =>
    have hrl : s.rl ≠ .dead := by cases o <;> simp_all [connFailure]
    have ho : o ≠ .ok := by intro e; subst e; simp [connFailure] at hf
    have hc : s.cstate ≠ .closed := fun e => hrl (hinv.1 e).2.1
    obtain ⟨r', _, h2⟩ := burst_fault s [(o, f)] hinv hrl ⟨(o, f), by simp, ho⟩
    refine ⟨hc, { s with rl := r', pending := [] }, rfl, rfl, ?_⟩
    show (s.burst [(o, f)]).1 = _ ∧ (s.burst [(o, f)]).2.eff.faults = _ ∧ (s.burst [(o, f)]).2.eff.dels = _
    rw [h2]; exact ⟨rfl, rfl, rfl⟩
  | burst rs =>
    simp only [connFailure, Bool.and_eq_true, decide_eq_true_eq, List.any_eq_true] at hf
    obtain ⟨hrl, r, hr, hne⟩ := hf
    have hrl : s.rl ≠ .dead := by simpa using hrl
    have hne : r.1 ≠ IOOut.ok := by simpa using hne
    have hc : s.cstate ≠ .closed := fun e => hrl (hinv.1 e).2.1
    obtain ⟨r', _, h2⟩ := burst_fault s rs hinv hrl ⟨r, hr, hne⟩
    refine ⟨hc, { s with rl := r', pending := [] }, rfl, rfl, ?_⟩
    show (s.burst rs).1 = _ ∧ (s.burst rs).2.eff.faults = _ ∧ (s.burst rs).2.eff.dels = _
    rw [h2]; exact ⟨rfl, rfl, rfl⟩
  | openBurst rs =>
    simp only [connFailure, Bool.and_eq_true, decide_eq_true_eq, Bool.not_eq_true', List.any_eq_true] at hf
    obtain ⟨⟨hidle, hnor⟩, r, hr, hne⟩ := hf
    have hne : r.1 ≠ IOOut.ok := by simpa using hne
    have htm : s.tagMap = [] := hinv.2 (by rw [hidle]; simp)
    obtain ⟨s1, hop, ht1, hc1, hrl1, _, hi1⟩ := openT_ok_facts s hinv hidle hnor
    obtain ⟨r', _, h2⟩ := burst_fault s1 rs hi1 hrl1 ⟨r, hr, hne⟩
    refine ⟨by rw [hidle]; simp, { s1 with rl := r', pending := [] }, by rw [hidle]; exact hc1,
      by rw [htm]; exact ht1, ?_⟩
    show (s.openBurst rs).1 = _ ∧ (s.openBurst rs).2.eff.faults = _ ∧ (s.openBurst rs).2.eff.dels = _
    simp only [St.openBurst, hop, h2]
    exact ⟨trivial, trivial, trivial⟩
  | race rs pos x =>
    have hrl : s.rl ≠ .dead := by
      intro e; simp [connFailure, e] at hf
    have hc : s.cstate ≠ .closed := fun e => hrl (hinv.1 e).2.1
    have hok : hitOk s rs pos x = true := by
      simp only [connFailure, Bool.and_eq_true] at hf; exact hf.1.2
    obtain ⟨s1, d, heq, _, _, hcs, _, _, hcf, _⟩ := race_shape s rs pos x hinv hrl hok
    obtain ⟨hd, htm⟩ := hcf hf
    have hb := connFailure_raceFails s rs pos x hf
    refine ⟨hc, s1, hcs, htm, ?_⟩
    have hc1 : s1.cstate ≠ .closed := by rw [hcs]; exact hc
    show (s.race rs pos x).1 = _ ∧ (s.race rs pos x).2.eff.faults = _ ∧ (s.race rs pos x).2.eff.dels = _
    rw [heq, hb, hd, shutdown_eq s1 true hc1]
    exact ⟨rfl, rfl, rfl⟩
  | pingSilence =>
    have hpw : s.pingWait = true := by simpa [connFailure] using hf
    have hc : s.cstate ≠ .closed := by
      intro e; have := (hinv.1 e).2.2; rw [hpw] at this; cases this
    exact ⟨hc, s, rfl, rfl, by simp [stepOut, St.pingSilence, hpw]⟩
  | req id tag => simp [connFailure] at hf
  | pingDue => simp [connFailure] at hf
  | close => simp [connFailure] at hf
  | look => simp [connFailure] at hf


end Scales.MuxT
