import ScalesModel.Model.Heap
import Mathlib.Data.List.Nodup
import Mathlib.Data.List.Perm.Basic
import Mathlib.Tactic.Ring

namespace Scales.Heap

/-- load at heap position `p` -/
def L (s : HS) (p : Nat) : Int := (s.at p).load

/-- node `id` sits at some heap position -/
def InHeap (s : HS) (id : Nat) : Prop := ∃ p, 1 ≤ p ∧ p ≤ s.size ∧ s.idAt p = id

/-- H1: the heap array and the nodes' `index` fields agree -/
structure WF (s : HS) : Prop where
  inStore : ∀ p, 1 ≤ p → p ≤ s.size → s.idAt p < s.nodes.length
  inj : ∀ p q, 1 ≤ p → p ≤ s.size → 1 ≤ q → q ≤ s.size → s.idAt p = s.idAt q → p = q
  idx : ∀ p, 1 ≤ p → p ≤ s.size → (s.at p).index = p
  off : ∀ id, id < s.nodes.length → ¬ InHeap s id → (s.node id).index = -1

theorem node_setNode (s : HS) (id id' : Nat) (n : Node) :
    (s.setNode id n).node id' = if id' = id ∧ id < s.nodes.length then n else s.node id' := by
  unfold HS.setNode HS.node
  simp only [List.getD_eq_getElem?_getD, List.getElem?_set]
  by_cases h : id = id'
  · subst h
    by_cases hl : id < s.nodes.length
    · simp [hl]
    · simp [hl]
  · have : ¬ id' = id := fun e => h e.symm
    simp [h, this]

@[simp] theorem setNode_heap (s : HS) (id : Nat) (n : Node) : (s.setNode id n).heap = s.heap := rfl
@[simp] theorem setNode_down (s : HS) (id : Nat) (n : Node) : (s.setNode id n).down = s.down := rfl
@[simp] theorem setNode_reqs (s : HS) (id : Nat) (n : Node) : (s.setNode id n).reqs = s.reqs := rfl
@[simp] theorem setNode_servers (s : HS) (id : Nat) (n : Node) : (s.setNode id n).servers = s.servers := rfl
@[simp] theorem setNode_len (s : HS) (id : Nat) (n : Node) : (s.setNode id n).nodes.length = s.nodes.length := by
  simp [HS.setNode]
@[simp] theorem setNode_size (s : HS) (id : Nat) (n : Node) : (s.setNode id n).size = s.size := rfl

theorem idAt_pos (s : HS) (p : Nat) (h1 : 1 ≤ p) (h2 : p ≤ s.size) :
    ∃ h : p - 1 < s.heap.length, s.idAt p = s.heap[p - 1] := by
  have hl : p - 1 < s.heap.length := by unfold HS.size at h2; omega
  refine ⟨hl, ?_⟩
  unfold HS.idAt
  have : p ≠ 0 := by omega
  simp [this, List.getD_eq_getElem?_getD, hl]

theorem idAt_mem (s : HS) (p : Nat) (h1 : 1 ≤ p) (h2 : p ≤ s.size) : s.idAt p ∈ s.heap := by
  obtain ⟨hl, he⟩ := idAt_pos s p h1 h2
  rw [he]; exact List.getElem_mem hl

theorem idAt_out (s : HS) (p : Nat) (h : p = 0 ∨ s.size < p) : s.idAt p = s.nodes.length := by
  unfold HS.idAt
  rcases h with h | h
  · simp [h]
  · have : ¬ p = 0 := by omega
    unfold HS.size at h
    simp [this, List.getD_eq_getElem?_getD]
    rw [List.getElem?_eq_none (by omega)]; rfl

theorem node_out (s : HS) (id : Nat) (h : s.nodes.length ≤ id) : s.node id = default := by
  unfold HS.node
  simp [List.getD_eq_getElem?_getD, List.getElem?_eq_none h]

/-! ### setIndex / swap -/

@[simp] theorem setIndex_heap (s : HS) (id : Nat) (ix : Int) : (s.setIndex id ix).heap = s.heap := rfl
@[simp] theorem setIndex_down (s : HS) (id : Nat) (ix : Int) : (s.setIndex id ix).down = s.down := rfl
@[simp] theorem setIndex_reqs (s : HS) (id : Nat) (ix : Int) : (s.setIndex id ix).reqs = s.reqs := rfl
@[simp] theorem setIndex_servers (s : HS) (id : Nat) (ix : Int) : (s.setIndex id ix).servers = s.servers := rfl
@[simp] theorem setIndex_len (s : HS) (id : Nat) (ix : Int) : (s.setIndex id ix).nodes.length = s.nodes.length := by
  simp [HS.setIndex]

theorem setIndex_node (s : HS) (id id' : Nat) (ix : Int) :
    ((s.setIndex id ix).node id').load = (s.node id').load ∧
    ((s.setIndex id ix).node id').ep = (s.node id').ep ∧
    ((s.setIndex id ix).node id').chan = (s.node id').chan ∧
    ((s.setIndex id ix).node id').closed = (s.node id').closed ∧
    ((s.setIndex id ix).node id').index = if id' = id ∧ id < s.nodes.length then ix else (s.node id').index := by
  unfold HS.setIndex
  rw [node_setNode]
  by_cases h : id' = id ∧ id < s.nodes.length
  · simp [h, h.1]
  · simp [h]

theorem swap_size (s : HS) (i j : Nat) : (s.swap i j).size = s.size := by
  simp [HS.swap, HS.size]

theorem swap_len (s : HS) (i j : Nat) : (s.swap i j).nodes.length = s.nodes.length := by
  simp [HS.swap]

@[simp] theorem swap_down (s : HS) (i j : Nat) : (s.swap i j).down = s.down := rfl
@[simp] theorem swap_reqs (s : HS) (i j : Nat) : (s.swap i j).reqs = s.reqs := rfl
@[simp] theorem swap_servers (s : HS) (i j : Nat) : (s.swap i j).servers = s.servers := rfl

theorem swap_heap (s : HS) (i j : Nat) :
    (s.swap i j).heap = (s.heap.set (i - 1) (s.idAt j)).set (j - 1) (s.idAt i) := by
  simp [HS.swap]

theorem swap_idAt (s : HS) (i j k : Nat) (hi1 : 1 ≤ i) (hi2 : i ≤ s.size) (hj1 : 1 ≤ j) (hj2 : j ≤ s.size) :
    (s.swap i j).idAt k = if k = j then s.idAt i else if k = i then s.idAt j else s.idAt k := by
  unfold HS.size at hi2 hj2
  have hlen : (s.swap i j).nodes.length = s.nodes.length := swap_len s i j
  simp only [HS.idAt, swap_heap, hlen, List.getD_eq_getElem?_getD, List.getElem?_set, List.length_set]
  grind

/-- a swap leaves every field of every node alone, except `index` -/
theorem swap_node_fields (s : HS) (i j id : Nat) :
    ((s.swap i j).node id).load = (s.node id).load ∧ ((s.swap i j).node id).ep = (s.node id).ep ∧
    ((s.swap i j).node id).chan = (s.node id).chan ∧ ((s.swap i j).node id).closed = (s.node id).closed := by
  unfold HS.swap
  simp only
  obtain ⟨a1, a2, a3, a4, _⟩ := setIndex_node (({ s with heap := (s.heap.set (i - 1) (s.idAt j)).set (j - 1) (s.idAt i) } : HS).setIndex (s.idAt j) i) (s.idAt i) id j
  obtain ⟨b1, b2, b3, b4, _⟩ := setIndex_node ({ s with heap := (s.heap.set (i - 1) (s.idAt j)).set (j - 1) (s.idAt i) } : HS) (s.idAt j) id i
  rw [a1, a2, a3, a4, b1, b2, b3, b4]
  exact ⟨rfl, rfl, rfl, rfl⟩

theorem swap_node_index (s : HS) (hw : WF s) (i j id : Nat) (hi1 : 1 ≤ i) (hi2 : i ≤ s.size)
    (hj1 : 1 ≤ j) (hj2 : j ≤ s.size) :
    ((s.swap i j).node id).index =
      if id = s.idAt i then (j : Int) else if id = s.idAt j then (i : Int) else (s.node id).index := by
  have ha := hw.inStore i hi1 hi2
  have hb := hw.inStore j hj1 hj2
  unfold HS.swap
  simp only
  obtain ⟨_, _, _, _, a5⟩ := setIndex_node (({ s with heap := (s.heap.set (i - 1) (s.idAt j)).set (j - 1) (s.idAt i) } : HS).setIndex (s.idAt j) i) (s.idAt i) id j
  obtain ⟨_, _, _, _, b5⟩ := setIndex_node ({ s with heap := (s.heap.set (i - 1) (s.idAt j)).set (j - 1) (s.idAt i) } : HS) (s.idAt j) id i
  rw [a5, b5]
  simp only [setIndex_len]
  have e2 : ({ s with heap := (s.heap.set (i - 1) (s.idAt j)).set (j - 1) (s.idAt i) } : HS).nodes.length = s.nodes.length := rfl
  have e1 : ({ s with heap := (s.heap.set (i - 1) (s.idAt j)).set (j - 1) (s.idAt i) } : HS).node id = s.node id := rfl
  simp only [e1, e2, ha, hb, and_true]

theorem swap_L (s : HS) (i j k : Nat) (hi1 : 1 ≤ i) (hi2 : i ≤ s.size)
    (hj1 : 1 ≤ j) (hj2 : j ≤ s.size) :
    L (s.swap i j) k = if k = j then L s i else if k = i then L s j else L s k := by
  unfold L HS.at
  rw [(swap_node_fields s i j _).1, swap_idAt s i j k hi1 hi2 hj1 hj2]
  split
  · rfl
  · split <;> rfl


theorem mem_heap_iff (s : HS) (id : Nat) : id ∈ s.heap ↔ InHeap s id := by
  constructor
  · intro h
    obtain ⟨k, hk, he⟩ := List.getElem_of_mem h
    refine ⟨k + 1, by omega, by unfold HS.size; omega, ?_⟩
    obtain ⟨hl, e⟩ := idAt_pos s (k + 1) (by omega) (by unfold HS.size; omega)
    rw [e]; simpa using he
  · rintro ⟨p, h1, h2, rfl⟩
    exact idAt_mem s p h1 h2

theorem swap_WF (s : HS) (hw : WF s) (i j : Nat) (hi1 : 1 ≤ i) (hi2 : i ≤ s.size)
    (hj1 : 1 ≤ j) (hj2 : j ≤ s.size) : WF (s.swap i j) := by
  have hsz := swap_size s i j
  have hlen := swap_len s i j
  have hid := fun k => swap_idAt s i j k hi1 hi2 hj1 hj2
  have hix := fun id => swap_node_index s hw i j id hi1 hi2 hj1 hj2
  constructor
  · intro p h1 h2
    rw [hsz] at h2; rw [hid, hlen]
    split
    · exact hw.inStore i hi1 hi2
    · split
      · exact hw.inStore j hj1 hj2
      · exact hw.inStore p h1 h2
  · intro p q hp1 hp2 hq1 hq2 h
    rw [hsz] at hp2 hq2
    have key : ∀ k, 1 ≤ k → k ≤ s.size →
        (s.swap i j).idAt k = s.idAt (if k = j then i else if k = i then j else k) ∧
        1 ≤ (if k = j then i else if k = i then j else k) ∧
        (if k = j then i else if k = i then j else k) ≤ s.size := by
      intro k k1 k2
      rw [hid]
      refine ⟨by split_ifs <;> rfl, by split_ifs <;> omega, by split_ifs <;> omega⟩
    obtain ⟨a1, a2, a3⟩ := key p hp1 hp2
    obtain ⟨b1, b2, b3⟩ := key q hq1 hq2
    rw [a1, b1] at h
    have := hw.inj _ _ a2 a3 b2 b3 h
    split_ifs at this <;> omega
  · intro p h1 h2
    rw [hsz] at h2
    unfold HS.at
    rw [hix, hid]
    by_cases e1 : p = j
    · subst e1
      by_cases e : i = p
      · subst e; simp
      · simp
    · by_cases e2 : p = i
      · subst e2
        simp only [e1, if_false, if_true]
        have n1 : ¬ s.idAt j = s.idAt p := fun h => e1 (hw.inj _ _ hj1 hj2 h1 h2 h).symm
        simp [n1]
      · simp only [e1, e2, if_false]
        have n1 : ¬ s.idAt p = s.idAt i := fun h => e2 (hw.inj _ _ h1 h2 hi1 hi2 h)
        have n2 : ¬ s.idAt p = s.idAt j := fun h => e1 (hw.inj _ _ h1 h2 hj1 hj2 h)
        simp only [n1, n2, if_false]
        exact hw.idx p h1 h2
  · intro id hlt hnot
    rw [hlen] at hlt
    rw [hix]
    have hnot' : ¬ InHeap s id := by
      rintro ⟨p, h1, h2, he⟩
      apply hnot
      by_cases e1 : p = j
      · exact ⟨i, hi1, by rw [hsz]; exact hi2, by rw [hid]; subst e1; by_cases e : i = p <;> simp [e, he]⟩
      · by_cases e2 : p = i
        · exact ⟨j, hj1, by rw [hsz]; exact hj2, by rw [hid]; subst e2; simp [he]⟩
        · exact ⟨p, h1, by rw [hsz]; exact h2, by rw [hid]; simp [e1, e2, he]⟩
    have n1 : ¬ id = s.idAt i := fun h => hnot' ⟨i, hi1, hi2, h.symm⟩
    have n2 : ¬ id = s.idAt j := fun h => hnot' ⟨j, hj1, hj2, h.symm⟩
    simp only [n1, n2, if_false]
    exact hw.off id hlt hnot'

theorem swap_inHeap (s : HS) (i j : Nat) (hi1 : 1 ≤ i) (hi2 : i ≤ s.size)
    (hj1 : 1 ≤ j) (hj2 : j ≤ s.size) (id : Nat) : InHeap (s.swap i j) id ↔ InHeap s id := by
  have hsz := swap_size s i j
  have hid := fun k => swap_idAt s i j k hi1 hi2 hj1 hj2
  constructor
  · rintro ⟨p, h1, h2, he⟩
    rw [hsz] at h2; rw [hid] at he
    by_cases e1 : p = j
    · simp only [e1, if_true] at he; exact ⟨i, hi1, hi2, he⟩
    · by_cases e2 : p = i
      · subst e2
        have : ¬ p = j := e1
        simp only [this, if_true, if_false] at he; exact ⟨j, hj1, hj2, he⟩
      · simp only [e1, e2, if_false] at he; exact ⟨p, h1, h2, he⟩
  · rintro ⟨p, h1, h2, he⟩
    by_cases e1 : p = j
    · exact ⟨i, hi1, by rw [hsz]; exact hi2, by rw [hid]; subst e1; by_cases e : i = p <;> simp [e, he]⟩
    · by_cases e2 : p = i
      · exact ⟨j, hj1, by rw [hsz]; exact hj2, by rw [hid]; subst e2; simp [he]⟩
      · exact ⟨p, h1, by rw [hsz]; exact h2, by rw [hid]; simp [e1, e2, he]⟩

end Scales.Heap
