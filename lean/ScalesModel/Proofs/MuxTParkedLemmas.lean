/-
  Proofs/MuxTParkedLemmas.lean — C08, ThriftMux transport with the callers blocked on its open
  result (`PSt`, `POp`): what the blocked callers do when they resume (`parkedGo`), the invariant
  of the combined state, and the simulation between it and the accumulator of the executable
  specification, for every operation.
-/
import ScalesModel.Proofs.MuxTRaceTheorems
set_option linter.unusedSimpArgs false
set_option linter.unusedVariables false
namespace Scales.MuxT
open Scales.Transport

/-! ### the blocked callers resume -/

theorem request_eq_step (t : St) (id tag : Nat) : t.request id tag = stepOut t (.req id tag) := rfl

theorem parkedGo_cons (p : Nat × Nat) (rest : List (Nat × Nat)) (t : St) :
    parkedGo (p :: rest) t =
      ((parkedGo rest (t.request p.1 p.2).1).1,
       (t.request p.1 p.2).2.eff.dels ++ (parkedGo rest (t.request p.1 p.2).1).2) := rfl

/-- on a transport that is not Open (and whose open is not pending any more) every blocked
    caller is handed the 'Sink not open.' error, and the transport does not change: nothing of
    the request is entered in the tag map or queued -/
theorem parkedGo_rejects : ∀ (X : List (Nat × Nat)) (t : St), t.cstate ≠ .opened → t.opening = false →
    parkedGo X t = (t, X.map (fun p => (p.1, Resp.other))) := by
  intro X
  induction X with
  | nil => intros; rfl
  | cons p rest ih =>
    intro t hc ho
    have h1 : t.request p.1 p.2 = (t, { eff := { dels := [(p.1, .other)] } }) := by
      simp [St.request, ho, hc]
    rw [parkedGo_cons, h1, ih t hc ho]
    rfl

/-- the request of a caller that goes on on an Open transport -/
theorem request_opened (t : St) (id tag : Nat) (hc : t.cstate = .opened) (ho : t.opening = false) :
    t.request id tag =
      (({ t with tagMap := t.tagMap ++ [(tag, id)], sendQ := t.sendQ ++ [.req tag id] } : St).pump, {}) := by
  simp [St.request, ho, hc]

@[simp] theorem pump_opening (s : St) : s.pump.opening = s.opening := by
  unfold St.pump; split <;> rfl
@[simp] theorem pump_hasOpenResult (s : St) : s.pump.hasOpenResult = s.hasOpenResult := by
  unfold St.pump; split <;> rfl
@[simp] theorem pump_pingLoop (s : St) : s.pump.pingLoop = s.pingLoop := by
  unfold St.pump; split <;> rfl

/-- on an Open transport the blocked callers go on in order: each is entered in the tag map
    under its tag and its frame is queued behind what was queued; nobody is answered -/
theorem parkedGo_accepts : ∀ (X : List (Nat × Nat)) (t : St), t.cstate = .opened → t.opening = false →
    (parkedGo X t).2 = [] ∧
    (parkedGo X t).1.tagMap = t.tagMap ++ X.map (fun p => (p.2, p.1)) ∧
    qItems (parkedGo X t).1 = qItems t ++ X.map (fun p => Item.req p.2 p.1) ∧
    (parkedGo X t).1.cstate = .opened ∧ (parkedGo X t).1.opening = false ∧
    (parkedGo X t).1.openRes = t.openRes ∧ (parkedGo X t).1.hasOpenResult = t.hasOpenResult ∧
    (parkedGo X t).1.rl = t.rl ∧ (parkedGo X t).1.pingWait = t.pingWait ∧
    (parkedGo X t).1.pingLoop = t.pingLoop ∧ (parkedGo X t).1.pending = t.pending := by
  intro X
  induction X with
  | nil => intro t hc ho; simp [parkedGo, hc, ho]
  | cons p rest ih =>
    intro t hc ho
    rw [parkedGo_cons, request_opened t p.1 p.2 hc ho]
    obtain ⟨h1, h2, h3, h4, h5, h6, h7, h8, h9, h10, h11⟩ :=
      ih ({ t with tagMap := t.tagMap ++ [(p.2, p.1)], sendQ := t.sendQ ++ [.req p.2 p.1] } : St).pump
        (by simp [hc]) (by simp [ho])
    refine ⟨by simp [h1], ?_, ?_, h4, h5, by simp [h6], by simp [h7], by simp [h8], by simp [h9],
      by simp [h10], by simp [h11]⟩
    · rw [h2]; simp
    · rw [h3, qItems_pump]; simp [qItems, List.append_assoc]

theorem inv_parkedGo : ∀ (X : List (Nat × Nat)) (t : St), Inv t → Inv (parkedGo X t).1 := by
  intro X
  induction X with
  | nil => intro t h; exact h
  | cons p rest ih =>
    intro t h
    rw [parkedGo_cons]
    exact ih _ (inv_step t (.req p.1 p.2) h)

theorem invO_parkedGo : ∀ (X : List (Nat × Nat)) (t : St), InvO t → InvO (parkedGo X t).1 := by
  intro X
  induction X with
  | nil => intro t h; exact h
  | cons p rest ih =>
    intro t h
    rw [parkedGo_cons]
    exact ih _ (invO_step t (.req p.1 p.2) h)

/-! ### the invariant of the transport with its blocked callers -/

/-- the transport after a `Close()` that came while the connect was in progress -/
def St.connecting0x : St := (St.connecting0.shutdown false).1

/-- the transport's own invariants; while the connect is in progress the transport is as `Open()`
    left it, or as a `Close()` left that; callers are only blocked while the open is pending -/
structure InvP (ps : PSt) : Prop where
  inv : Inv ps.t
  invO : InvO ps.t
  conn : ps.connecting = true → ps.t = St.connecting0 ∨ ps.t = St.connecting0x
  wait : ps.parked ≠ [] → ps.waiting = true

theorem invP_init : InvP PSt.init :=
  ⟨inv_init, invO_init, (by intro h; cases h), (by intro h; exact absurd rfl h)⟩

theorem inv_connecting0 : Inv St.connecting0 := by
  refine ⟨⟨?_, ?_⟩, rfl⟩ <;> simp [St.connecting0, St.init]

theorem invO_connecting0 : InvO St.connecting0 := invO_of_not_opening _ rfl

theorem connecting0x_eq : St.connecting0x =
    { cstate := .closed, hasOpenResult := false, opening := false, openRes := .failed, tagMap := [],
      sendQ := [], sl := .dead, rl := .dead, pingLoop := false, pingWait := false, pending := [] } := by
  decide

theorem with_pending_nil (t : St) (h : t.pending = []) : ({ t with pending := [] } : St) = t := by
  cases t; simp_all

/-- on a transport none of whose greenlets exists (no loop, no ping helper, no ping loop,
    `_OpenImpl` not waiting for a ping) and which is not Open, an operation of the transport
    changes nothing — or, if it is a `Close()`, shuts it down -/
theorem quiet_step (t : St) (op : Op) (h1 : t.rl = .dead) (h2 : t.sl = .dead) (h3 : t.pingLoop = false)
    (h4 : t.pingWait = false) (h5 : t.opening = false) (h6 : t.pending = [])
    (h7 : t.cstate ≠ .opened) (h8 : t.hasOpenResult = true ∨ t.cstate ≠ .idle) :
    (stepOut t op).1 = t ∨ (stepOut t op).1 = (t.shutdown false).1 := by
  have hopen : ∀ r, (t.openT r) = (t, {}) := by
    intro r
    simp only [St.openT]
    rcases h8 with h8 | h8
    · simp [h8]
    · by_cases hh : t.hasOpenResult = true
      · simp [hh]
      · simp [hh, h8]
  have hburst : ∀ rs, (t.burst rs).1 = t := by
    intro rs
    simp only [St.burst, rdMany_dead rs t h1, St.dispatch, h6, dispatchGo, with_pending_nil t h6]
  have hhit : ∀ x, (t.hit x).1 = t ∨ (t.hit x).1 = (t.shutdown false).1 := by
    intro x
    cases x with
    | rdRaise => left; simp [St.hit, h1]
    | rdEof => left; simp [St.hit, h1]
    | wr => left; simp [St.hit, h2]
    | close => right; rfl
  have hsd : ∀ b, (t.shutdown b).1.rl = .dead ∧ (t.shutdown b).1.pending = [] := by
    intro b
    by_cases hc : t.cstate = .closed
    · rw [shutdown_closed t b hc]; exact ⟨h1, h6⟩
    · rw [shutdown_eq t b hc]; exact ⟨rfl, h6⟩
  cases op with
  | look => left; rfl
  | openT r => left; simp [stepOut, hopen r]
  | openBurst rs => left; simp only [stepOut, St.openBurst, hopen .ok]; exact hburst rs
  | req id tag => left; simp [stepOut, St.request, h5, h7]
  | wr o => left; simp [stepOut, St.wr, h2]
  | rd o f => left; exact hburst _
  | burst rs => left; exact hburst rs
  | pingDue => left; simp [stepOut, St.pingDue, h3]
  | pingSilence => left; simp [stepOut, St.pingSilence, h4]
  | close => right; rfl
  | race rs pos x =>
    have hb2 : ∀ (u : St), u.rl = .dead → u.pending = [] → (u.burst rs).1 = u := by
      intro u hu hp
      simp only [St.burst, rdMany_dead rs u hu, St.dispatch, hp, dispatchGo, with_pending_nil u hp]
    cases pos with
    | first =>
      simp only [stepOut, St.race]
      rcases hhit x with e | e
      · left; rw [e]; exact hb2 t h1 h6
      · right; rw [e]; exact hb2 _ (hsd false).1 (hsd false).2
    | pre =>
      simp only [stepOut, St.race, rdMany_dead rs t h1, St.dispatch]
      rcases hhit x with e | e
      · left; rw [e, h6]; simp [dispatchGo, with_pending_nil t h6]
      · right; rw [e, (hsd false).2]; simp [dispatchGo, with_pending_nil _ (hsd false).2]
    | mid =>
      simp only [stepOut, St.race, rdMany_dead rs t h1, St.dispatchQ, h6, dispatchQGo,
        with_pending_nil t h6, St.resumeIf]
      exact hhit x

/-- while the connect is in progress no operation of the transport does anything but `Close()` -/
theorem conn_step (t : St) (op : Op) (h : t = St.connecting0 ∨ t = St.connecting0x) :
    (stepOut t op).1 = St.connecting0 ∨ (stepOut t op).1 = St.connecting0x := by
  rcases h with h | h
  · subst h
    rcases quiet_step St.connecting0 op rfl rfl rfl rfl rfl rfl (by simp [St.connecting0, St.init])
        (Or.inl rfl) with e | e
    · left; exact e
    · right; exact e
  · subst h
    have hx : (St.connecting0x.shutdown false).1 = St.connecting0x := by
      rw [shutdown_closed _ _ (by rw [connecting0x_eq])]
    rcases quiet_step St.connecting0x op (by rw [connecting0x_eq]) (by rw [connecting0x_eq])
        (by rw [connecting0x_eq]) (by rw [connecting0x_eq]) (by rw [connecting0x_eq])
        (by rw [connecting0x_eq]) (by rw [connecting0x_eq]; simp)
        (Or.inr (by rw [connecting0x_eq]; simp)) with e | e
    · right; exact e
    · right; rw [e, hx]

theorem waiting_idle (ps : PSt) (hO : InvO ps.t) (h : ps.waiting = true) : ps.t.cstate = .idle := by
  simp only [PSt.waiting, Bool.or_eq_true, Bool.and_eq_true, decide_eq_true_eq] at h
  rcases h with h | h
  · exact (hO h).2.1
  · exact h.2

theorem waiting_tagMap (ps : PSt) (hinv : Inv ps.t) (hO : InvO ps.t) (h : ps.waiting = true) :
    ps.t.tagMap = [] :=
  hinv.1.2 (by rw [waiting_idle ps hO h]; simp)

theorem finish_nil (ps : PSt) (t' : St) (c' : Bool) (o : Out) (h : ps.parked = []) :
    ps.finish t' c' o = ({ t := t', connecting := c', parked := [] }, o) := by
  simp only [PSt.finish, h, parkedGo, List.append_nil]
  split <;> rfl

/-- the end of a drain keeps the invariant -/
theorem invP_finish (ps : PSt) (t' : St) (c' : Bool) (o : Out) (h1 : Inv t') (h2 : InvO t')
    (hc : c' = true → t' = St.connecting0 ∨ t' = St.connecting0x) : InvP (ps.finish t' c' o).1 := by
  simp only [PSt.finish]
  split
  · rename_i hw
    exact ⟨h1, h2, hc, fun _ => hw⟩
  · rename_i hw
    refine ⟨inv_parkedGo _ _ h1, invO_parkedGo _ _ h2, ?_, fun h => absurd rfl h⟩
    intro hc'
    have hc'' : c' = true := hc'
    rcases hc hc'' with e | e
    · exfalso; apply hw; subst e; subst hc''; rfl
    · right
      subst e
      show (parkedGo ps.parked St.connecting0x).1 = St.connecting0x
      rw [parkedGo_rejects _ _ (by rw [connecting0x_eq]; simp) (by rw [connecting0x_eq])]

theorem invP_step (ps : PSt) (op : POp) (h : InvP ps) : InvP (stepOutP ps op).1 := by
  cases op with
  | tr op =>
    exact invP_finish ps _ _ _ (inv_step ps.t op h.inv) (invO_step ps.t op h.invO)
      (fun hc => conn_step ps.t op (h.conn hc))
  | openStart =>
    simp only [stepOutP, PSt.openStart]
    split
    · exact ⟨inv_connecting0, invO_connecting0, fun _ => Or.inl rfl, fun _ => rfl⟩
    · exact h
  | connected r rs =>
    simp only [stepOutP, PSt.connected]
    split
    · split
      · rename_i hcl
        refine ⟨h.inv, h.invO, (by intro hh; cases hh), ?_⟩
        intro hp
        have hw := h.wait hp
        have hidle := waiting_idle ps h.invO hw
        rw [hidle] at hcl; cases hcl
      · cases r with
        | refuse =>
          exact invP_finish ps _ _ _ (inv_step St.init (.openT .refuse) inv_init)
            (invO_step St.init (.openT .refuse) invO_init) (by intro hh; cases hh)
        | ok =>
          exact invP_finish ps _ _ _ (inv_step St.init (.openBurst rs) inv_init)
            (invO_step St.init (.openBurst rs) invO_init) (by intro hh; cases hh)
    · exact h
  | park id tag =>
    simp only [stepOutP, PSt.park]
    split
    · rename_i hw
      exact ⟨h.inv, h.invO, h.conn, fun _ => hw⟩
    · exact h

theorem invP_reachable (ops : List POp) : InvP (runOpsP PSt.init ops) := by
  have : ∀ ps, InvP ps → InvP (runOpsP ps ops) := by
    induction ops with
    | nil => intro ps h; exact h
    | cons op ops ih => intro ps h; exact ih _ (invP_step ps op h)
  exact this _ invP_init


end Scales.MuxT
