/-
  Proofs/MuxTParkedSpec.lean — C08, ThriftMux transport with the callers blocked on its open
  result: the simulation between the combined state (`PSt`) and the accumulator of the executable
  specification, for every operation (`POp`).
-/
import ScalesModel.Proofs.MuxTParkedLemmas
set_option linter.unusedSimpArgs false
set_option linter.unusedVariables false
namespace Scales.MuxT
open Scales.Transport

/-! ### the specification step, seen from outside -/

/-- the specification looks at the state, the fault signals, the responses, the frames sent and
    the connect attempts of an observation, and at nothing else -/
theorem specStep_congr (a : Acc) (op : Op) (o o' : Obs) (h1 : o.state = o'.state)
    (h2 : o.faults = o'.faults) (h3 : o.dels = o'.dels) (h4 : o.sent = o'.sent)
    (h5 : o.conns = o'.conns) : specStep a op o = specStep a op o' := by
  have hf : isFailure op o = isFailure op o' := by
    cases op <;> simp only [isFailure, h5]
  have hv : vFail a op o = vFail a op o' := by
    simp only [vFail, hf, h3, h1, h2]
  have hc : vCarry a op o = vCarry a op o' := by
    cases op <;> simp only [vCarry, h3, h4, h1]
  have hn : ∀ x y, nextAcc a op o x y = nextAcc a op o' x y := by
    intro x y
    simp only [nextAcc, nextUnsent, h1, h3, h4]
  simp only [specStep, h3, hv, hc, hn]

theorem isFailure_conns (op : Op) (o o' : Obs) (h : o.conns = o'.conns) :
    isFailure op o = isFailure op o' := by
  cases op <;> simp only [isFailure, h]

theorem isFailure_dels (op : Op) (o : Obs) (d : List (Nat × Resp)) :
    isFailure op { o with dels := d } = isFailure op o := by
  cases op <;> rfl

theorem vCarry_dels (a : Acc) (op : Op) (o : Obs) (d : List (Nat × Resp)) (hreq : isReq op = none) :
    vCarry a op { o with dels := d } = vCarry a op o := by
  cases op with
  | req id tag => simp [isReq] at hreq
  | wr o' => cases o' <;> rfl
  | race rs pos x => cases x <;> rfl
  | _ => rfl

theorem vCarry_owed (a : Acc) (op : Op) (o : Obs) (l : List Nat) :
    vCarry { a with owed := l } op o = vCarry a op o := by
  cases op with
  | wr o' => cases o' <;> rfl
  | race rs pos x => cases x <;> rfl
  | _ => rfl

theorem nextUnsent_noreq (a : Acc) (op : Op) (o : Obs) (hreq : isReq op = none) :
    nextUnsent a op o = a.unsent.filter (fun id => !(o.sent.any (fun it => itemId it == some id))) := by
  cases op <;> first | rfl | (simp [isReq] at hreq)

/-- the step of the specification for an operation that is not a request, when the requests owed
    a response are exactly the blocked callers `X` (nothing is in the tag map) and the operation
    hands out either nothing, or the 'not open' error to each of them -/
theorem specStep_parked (a : Acc) (op : Op) (o : Obs) (X : List Nat) (hreq : isReq op = none)
    (howed : a.owed = X)
    (h0 : (specStep { a with owed := [] } op { o with dels := [] }).1 = .ok) :
    (o.dels = [] → isFailure op o = false →
       specStep a op o = (.ok, nextAcc a op o X a.abandoned)) ∧
    (o.dels = X.map (fun i => (i, Resp.other)) →
       specStep a op o = (.ok, nextAcc a op o [] a.abandoned)) := by
  have h0' : vFail { a with owed := [] } op { o with dels := [] } = .ok ∧
      vCarry a op o = .ok := by
    simp only [specStep, owedWith, hreq, settle_nil] at h0
    obtain ⟨hv, hc⟩ := and_eq_ok h0
    rw [vCarry_owed, vCarry_dels _ _ _ _ hreq] at hc
    exact ⟨hv, hc⟩
  obtain ⟨hv0, hc⟩ := h0'
  constructor
  · intro hd hnf
    have hv : vFail a op o = .ok := by simp [vFail, hnf]
    simp [specStep, owedWith, hreq, howed, hd, hv, hc, Verdict.and]
  · intro hd
    have hset : settle X a.abandoned (X.map (fun i => (i, Resp.other))) = .ok ([], a.abandoned) :=
      settle_all X a.abandoned (fun _ => Resp.other)
    have hnf : firstUnfailed op X (X.map (fun i => (i, Resp.other))) = none :=
      firstUnfailed_none _ _ _ (firstNotFailed_all X Resp.other rfl)
    have hv : vFail a op o = .ok := by
      by_cases hfl : isFailure op o = true
      · have hfl0 : isFailure op { o with dels := [] } = true := by rw [isFailure_dels]; exact hfl
        simp only [vFail, hfl0, if_true, owedWith, hreq] at hv0
        have hnn : firstUnfailed op [] ([] : List (Nat × Resp)) = none := by
          cases op <;> simp [firstUnfailed, firstNotFailed]
        simp only [hnn] at hv0
        simp only [vFail, hfl, if_true, owedWith, hreq, howed, hd, hnf]
        exact hv0
      · simp [vFail, hfl]
    simp [specStep, owedWith, hreq, howed, hd, hset, hv, hc, Verdict.and]

/-- the relation between the transport and an accumulator only involves what is owed, the state
    last reported and the frames awaited -/
theorem rel_congr (t : St) (b b' : Acc) (seen : List Nat) (h : Rel t b seen) (h1 : b'.owed = b.owed)
    (h2 : b'.prev = b.prev) (h3 : b'.unsent = b.unsent) : Rel t b' seen := by
  obtain ⟨r1, r2, r3, r4, r5, r6, r7, r8, r9⟩ := h
  exact ⟨by rw [h1]; exact r1, by rw [h2]; exact r2, by intro id hid; rw [h3]; exact r3 id hid,
    by intro id hid; rw [h1] at hid; exact r4 id hid, r5, r6, r7, r8, r9⟩

/-- … and, on the side of the transport, the tag map, the state and the frames queued -/
theorem rel_transfer (t t2 : St) (b : Acc) (seen : List Nat) (h : Rel t b seen)
    (h1 : t2.tagMap = t.tagMap) (h2 : t2.cstate = t.cstate) (h3 : qIds t2 = qIds t) (h4 : Inv0 t2) :
    Rel t2 b seen := by
  obtain ⟨r1, r2, r3, r4, r5, r6, r7, r8, r9⟩ := h
  exact ⟨by rw [h1]; exact r1, by rw [h2]; exact r2, by rw [h3]; exact r3, r4, by rw [h3]; exact r5,
    by rw [h3]; exact r6, by rw [h1]; exact r7, by rw [h1]; exact r8, h4⟩

theorem enabled_seen (t : St) (seen seen' : List Nat) (op : Op) (hreq : isReq op = none) :
    enabled t seen op = enabled t seen' op := by
  cases op <;> first | rfl | (simp [isReq] at hreq)

/-- frames reach the peer only through the send loop's pending write -/
theorem step_sent (t : St) (op : Op) :
    (stepOut t op).2.sent = [] ∨ ∃ it, t.sl = .writing it ∧ (stepOut t op).2.sent = [it] := by
  cases op with
  | wr o =>
    cases hsl : t.sl with
    | writing it =>
      cases o with
      | ok => right; exact ⟨it, rfl, by simp [stepOut, St.wr, hsl]⟩
      | raise => left; simp [stepOut, St.wr, hsl]
      | eof => left; simp [stepOut, St.wr, hsl]
    | dead => left; simp [stepOut, St.wr, hsl]
    | waitQ => left; simp [stepOut, St.wr, hsl]
  | openT r =>
    left
    simp only [stepOut, St.openT]
    split
    · rfl
    · split
      · rfl
      · cases r <;> rfl
  | req id tag =>
    left
    simp only [stepOut, St.request]
    split
    · rfl
    · split <;> rfl
  | race rs pos x => left; cases pos <;> rfl
  | pingDue => left; simp only [stepOut, St.pingDue]; split <;> rfl
  | pingSilence => left; simp only [stepOut, St.pingSilence]; split <;> rfl
  | look => left; rfl
  | openBurst rs => left; rfl
  | rd o f => left; rfl
  | burst rs => left; rfl
  | close => left; rfl

/-- a deliberate `Close()` — alone or in the middle of a drain — leaves the transport closed -/
theorem isClose_closed (t : St) (seen : List Nat) (op : Op) (hinv : Inv t)
    (hen : enabled t seen op = true) (hcl : isClose op = true) : (stepOut t op).1.cstate = .closed := by
  cases op with
  | close =>
    by_cases hc : t.cstate = .closed
    · simp [stepOut, St.close, shutdown_closed t false hc, hc]
    · simp [stepOut, St.close, shutdown_eq t false hc]
  | race rs pos x =>
    simp only [enabled, Bool.and_eq_true, decide_eq_true_eq] at hen
    have hrl : t.rl ≠ .dead := by simpa using hen.1
    exact (race_closed_and_signalled t rs pos x hinv hrl hen.2).1
  | _ => simp at hcl

/-- what an operation of the transport that is not a request can do to the frames queued, and to
    a transport with an empty tag map: it queues nothing new, hands out nothing and enters nothing
    (read off the simulation step with a well-chosen accumulator) -/
theorem core_facts (t : St) (b : Acc) (seen : List Nat) (op : Op) (hrel : Rel t b seen)
    (hreq : isReq op = none) (hen : enabled t seen op = true) :
    (∀ id ∈ qIds (stepOut t op).1, id ∈ qIds t) ∧
    (t.tagMap = [] → (stepOut t op).2.eff.dels = [] ∧ (stepOut t op).1.tagMap = []) := by
  let a1 : Acc := { owed := t.tagMap.map (·.2), abandoned := [], prev := t.cstate, unsent := qIds t, idx := 0 }
  have hrel1 : Rel t a1 seen :=
    ⟨rfl, rfl, fun id h => h, (by intro id hid; apply hrel.seenO; rw [hrel.owed]; exact hid),
      hrel.seenQ, hrel.qnodup, hrel.tags, hrel.ids, hrel.inv⟩
  obtain ⟨hv, hr⟩ := step_ok t a1 seen op hrel1 hen
  unfold specStep at hv hr
  cases hset : settle (owedWith a1 op) a1.abandoned (obsOf (stepOut t op).1 (stepOut t op).2).dels with
  | error e => simp [hset] at hv
  | ok pr =>
    obtain ⟨owed2, ab2⟩ := pr
    simp only [hset] at hr
    constructor
    · intro id hid
      have := hr.unsent id hid
      simp only [nextAcc, nextUnsent_noreq _ _ _ hreq, List.mem_filter] at this
      exact this.1
    · intro htm
      have hown : owedWith a1 op = [] := by simp [owedWith, hreq, a1, htm]
      have hd : (stepOut t op).2.eff.dels = [] := by
        cases hdd : (stepOut t op).2.eff.dels with
        | nil => rfl
        | cons p rest =>
          have hdo : (obsOf (stepOut t op).1 (stepOut t op).2).dels = p :: rest := hdd
          rw [hown, hdo] at hset
          obtain ⟨i, r⟩ := p
          simp [settle, a1] at hset
      refine ⟨hd, ?_⟩
      have hdo : (obsOf (stepOut t op).1 (stepOut t op).2).dels = [] := hd
      rw [hown, hdo, settle_nil] at hset
      have ho2 : owed2 = [] := by
        have := congrArg (fun x => match x with | Except.ok p => p.1 | Except.error _ => []) hset
        simpa using this.symm
      have := hr.owed
      simp only [nextAcc, ho2, ite_self] at this
      exact List.map_eq_nil_iff.mp this.symm

/-! ### the simulation relation with the blocked callers -/

/-- the accumulator of the specification owes a response to the requests in the tag map and to
    the blocked callers; apart from that it is related to the transport as before.  The blocked
    callers' frames are awaited, their ids were issued, ids and tags are distinct, and none of
    them is queued. -/
structure RelP (ps : PSt) (a : Acc) (seen : List Nat) : Prop where
  core : Rel ps.t { a with owed := ps.t.tagMap.map (·.2) } seen
  owed : a.owed = ps.t.tagMap.map (·.2) ++ ps.parked.map (·.1)
  invp : InvP ps
  pUnsent : ∀ id ∈ ps.parked.map (·.1), id ∈ a.unsent
  pSeen : ∀ id ∈ ps.parked.map (·.1), id ∈ seen
  pIds : (ps.parked.map (·.1)).Nodup
  pTags : (ps.parked.map (·.2)).Nodup
  pDisj : ∀ id ∈ ps.parked.map (·.1), id ∉ qIds ps.t

theorem relP_init : RelP PSt.init {} [] :=
  ⟨rel_init, rfl, invP_init, (by intro id h; cases h), (by intro id h; cases h), List.nodup_nil,
    List.nodup_nil, (by intro id h; cases h)⟩

theorem acc_with_owed (a : Acc) (l : List Nat) (h : a.owed = l) : ({ a with owed := l } : Acc) = a := by
  cases a; simp_all

theorem not_waiting_opening (t : St) (c : Bool) (X : List (Nat × Nat))
    (h : ¬ ({ t := t, connecting := c, parked := X } : PSt).waiting = true) : t.opening = false := by
  simp only [PSt.waiting, Bool.or_eq_true, Bool.and_eq_true, decide_eq_true_eq, not_or] at h
  simpa using h.1

/-- **the end of a drain, seen from the specification.**  An operation `op` of the transport (not a
    request) is applied to the transport `t0` and the drain ends (`finish`): either the open is
    still pending and the blocked callers stay blocked, or they go on — into the tag map of an
    Open transport, or to the 'not open' error.  The specification accepts the observation, and
    the relation holds afterwards. -/
theorem finish_ok (ps : PSt) (a : Acc) (seen : List Nat) (t0 : St) (op : Op) (c' : Bool)
    (hcore : Rel t0 { a with owed := t0.tagMap.map (·.2) } seen)
    (howed : a.owed = t0.tagMap.map (·.2) ++ ps.parked.map (·.1))
    (hinv : Inv t0) (hO : InvO t0)
    (htm : ps.parked ≠ [] → t0.tagMap = [])
    (hreq : isReq op = none) (hen : enabled t0 seen op = true)
    (hconn : c' = true → (stepOut t0 op).1 = St.connecting0 ∨ (stepOut t0 op).1 = St.connecting0x)
    (pUnsent : ∀ id ∈ ps.parked.map (·.1), id ∈ a.unsent)
    (pSeen : ∀ id ∈ ps.parked.map (·.1), id ∈ seen)
    (pIds : (ps.parked.map (·.1)).Nodup) (pTags : (ps.parked.map (·.2)).Nodup)
    (pDisj : ∀ id ∈ ps.parked.map (·.1), id ∉ qIds t0) :
    (specStep a op (obsOfP (ps.finish (stepOut t0 op).1 c' (stepOut t0 op).2).1
        (ps.finish (stepOut t0 op).1 c' (stepOut t0 op).2).2)).1 = .ok ∧
    RelP (ps.finish (stepOut t0 op).1 c' (stepOut t0 op).2).1
      (specStep a op (obsOfP (ps.finish (stepOut t0 op).1 c' (stepOut t0 op).2).1
        (ps.finish (stepOut t0 op).1 c' (stepOut t0 op).2).2)).2 seen := by
  have hsa : seenAfter op seen = seen := by simp [seenAfter, hreq]
  have S := step_ok t0 _ seen op hcore hen
  rw [hsa] at S
  have CF := core_facts t0 _ seen op hcore hreq hen
  have I1 := inv_step t0 op hinv
  have I2 := invO_step t0 op hO
  have SS := step_sent t0 op
  have CL : isClose op = true → (stepOut t0 op).1.cstate = .closed :=
    fun h => isClose_closed t0 seen op hinv hen h
  generalize stepOut t0 op = r at *
  obtain ⟨t', o⟩ := r
  simp only at S CF I1 I2 SS CL hconn ⊢
  by_cases hX : ps.parked = []
  · -- nobody is blocked: the operation of the transport, as before
    rw [finish_nil ps t' c' o hX]
    have ha : ({ a with owed := t0.tagMap.map (·.2) } : Acc) = a :=
      acc_with_owed a _ (by rw [howed, hX]; simp)
    rw [ha] at S
    have hobs : obsOfP ({ t := t', connecting := c', parked := [] } : PSt) o = obsOf t' o := rfl
    rw [hobs]
    refine ⟨S.1, ?_, ?_, ⟨I1, I2, hconn, (by intro h; exact absurd rfl h)⟩, ?_, ?_, ?_, ?_, ?_⟩
    · exact rel_congr _ _ _ _ S.2 S.2.owed.symm rfl rfl
    · rw [S.2.owed]; simp
    all_goals simp
  · -- callers are blocked: the open was pending, nothing is in the tag map
    have htm0 := htm hX
    have howedX : a.owed = ps.parked.map (·.1) := by rw [howed, htm0]; simp
    obtain ⟨hd, htm'⟩ := CF.2 htm0
    have hq' := CF.1
    rw [htm0] at S
    simp only [List.map_nil] at S
    have hS1 : specStep { a with owed := [] } op (obsOf t' o) =
        ((vFail { a with owed := [] } op (obsOf t' o)).and (fun _ => vCarry { a with owed := [] } op (obsOf t' o)),
         nextAcc { a with owed := [] } op (obsOf t' o) [] a.abandoned) := by
      have hdo : (obsOf t' o).dels = [] := hd
      simp [specStep, owedWith, hreq, hdo]
    have hvf : isFailure op (obsOf t' o) = true → t'.cstate = .closed := by
      intro hfl
      have h1 : (vFail { a with owed := [] } op (obsOf t' o)).and
          (fun _ => vCarry { a with owed := [] } op (obsOf t' o)) = .ok := by
        have := S.1; rw [hS1] at this; exact this
      obtain ⟨hv, _⟩ := and_eq_ok h1
      have hnn : firstUnfailed op [] ((obsOf t' o).dels) = none := by
        have hdo : (obsOf t' o).dels = [] := hd
        rw [hdo]; cases op <;> simp [firstUnfailed, firstNotFailed]
      simp only [vFail, hfl, if_true, owedWith, hreq, hnn] at hv
      by_cases hc : (obsOf t' o).state = .closed
      · exact hc
      · simp [hc] at hv
    have hnotsent : ∀ id ∈ ps.parked.map (·.1), (o.sent.any (fun it => itemId it == some id)) = false := by
      intro id hid
      rcases SS with e | ⟨it, hsl, e⟩
      · rw [e]; rfl
      · rw [e]
        simp only [List.any_cons, List.any_nil, Bool.or_false]
        cases hi : itemId it with
        | none => simp
        | some j =>
          have hj : j ∈ qIds t0 := by
            simp only [qIds, qItems, hsl, List.filterMap_append, List.filterMap_cons, hi]
            simp
          have : j ≠ id := fun e2 => pDisj id hid (e2 ▸ hj)
          simpa using this
    have hunsent' : ∀ (oo : Obs), oo.sent = o.sent → ∀ id ∈ ps.parked.map (·.1),
        id ∈ nextUnsent a op oo := by
      intro oo hs id hid
      rw [nextUnsent_noreq _ _ _ hreq, List.mem_filter, hs]
      exact ⟨pUnsent id hid, by simp [hnotsent id hid]⟩
    by_cases hw : ({ t := t', connecting := c', parked := ps.parked } : PSt).waiting = true
    · -- the open is still pending: everybody stays blocked
      have hfin : ps.finish t' c' o = ({ t := t', connecting := c', parked := ps.parked }, o) := by
        simp [PSt.finish, hw]
      rw [hfin]
      have hidle : t'.cstate = .idle := waiting_idle _ I2 hw
      have hnf : isFailure op (obsOfP ({ t := t', connecting := c', parked := ps.parked } : PSt) o) = false := by
        cases hfl : isFailure op (obsOfP ({ t := t', connecting := c', parked := ps.parked } : PSt) o) with
        | false => rfl
        | true =>
          have hfl' : isFailure op (obsOf t' o) = true := by
            rw [← hfl]; exact isFailure_conns _ _ _ rfl
          have := hvf hfl'
          rw [hidle] at this; cases this
      have hncl : isClose op = false := by
        cases hcl : isClose op with
        | false => rfl
        | true => have := CL hcl; rw [hidle] at this; cases this
      have h0 : (specStep { a with owed := [] } op
          { obsOfP ({ t := t', connecting := c', parked := ps.parked } : PSt) o with dels := [] }).1 = .ok := by
        have := specStep_congr { a with owed := [] } op
          { obsOfP ({ t := t', connecting := c', parked := ps.parked } : PSt) o with dels := [] } (obsOf t' o)
          rfl rfl hd.symm rfl rfl
        rw [this]; exact S.1
      have hsp := (specStep_parked a op _ (ps.parked.map (·.1)) hreq howedX h0).1 hd hnf
      rw [hsp]
      refine ⟨rfl, ?_, ?_, ⟨I1, I2, hconn, fun _ => hw⟩, ?_, pSeen, pIds, pTags, ?_⟩
      · -- the transport is related to the accumulator without the blocked callers
        have hr := S.2
        rw [hS1] at hr
        refine rel_congr _ _ _ _ hr ?_ rfl ?_
        · simp only [nextAcc, ite_self, htm', List.map_nil]
        · simp only [nextAcc, nextUnsent_noreq _ _ _ hreq]; rfl
      · simp only [nextAcc, hncl, htm', Bool.false_eq_true, if_false, List.map_nil, List.nil_append]
      · intro id hid; exact hunsent' _ rfl id hid
      · intro id hid hq; exact pDisj id hid (hq' id hq)
    · -- the open result has been set: the blocked callers go on
      have hop' : t'.opening = false := not_waiting_opening t' c' ps.parked hw
      have hfin : ps.finish t' c' o =
          ({ t := (parkedGo ps.parked t').1, connecting := c', parked := [] },
           { o with eff := { o.eff with dels := o.eff.dels ++ (parkedGo ps.parked t').2 } }) := by
        simp [PSt.finish, hw]
      rw [hfin]
      have hinvp := invP_finish ps t' c' o I1 I2 hconn
      rw [hfin] at hinvp
      by_cases hopn : t'.cstate = .opened
      · -- on an Open transport: tag map, send queue
        obtain ⟨g1, g2, g3, g4, g5, _, _, _, _, _, _⟩ := parkedGo_accepts ps.parked t' hopn hop'
        have hnf : ∀ oo : Obs, oo.conns = o.eff.conns → isFailure op oo = false := by
          intro oo hc
          cases hfl : isFailure op oo with
          | false => rfl
          | true =>
            have hfl' : isFailure op (obsOf t' o) = true := by
              rw [← hfl]; exact isFailure_conns _ _ _ hc.symm
            have := hvf hfl'
            rw [hopn] at this; cases this
        have hncl : isClose op = false := by
          cases hcl : isClose op with
          | false => rfl
          | true => have := CL hcl; rw [hopn] at this; cases this
        generalize hpg : parkedGo ps.parked t' = pg at *
        obtain ⟨t'', wd⟩ := pg
        simp only at g1 g2 g3 g4 g5 hinvp ⊢
        subst g1
        have hdP : (obsOfP ({ t := t'', connecting := c', parked := [] } : PSt)
            { o with eff := { o.eff with dels := o.eff.dels ++ [] } }).dels = [] := by
          show o.eff.dels ++ [] = []
          rw [hd]; rfl
        have h0 : (specStep { a with owed := [] } op
            { obsOfP ({ t := t'', connecting := c', parked := [] } : PSt)
                { o with eff := { o.eff with dels := o.eff.dels ++ [] } } with dels := [] }).1 = .ok := by
          have := specStep_congr { a with owed := [] } op
            { obsOfP ({ t := t'', connecting := c', parked := [] } : PSt)
                { o with eff := { o.eff with dels := o.eff.dels ++ [] } } with dels := [] } (obsOf t' o)
            (by show t''.cstate = t'.cstate; rw [g4, hopn]) rfl hd.symm rfl rfl
          rw [this]; exact S.1
        have hsp := (specStep_parked a op _ (ps.parked.map (·.1)) hreq howedX h0).1 hdP (hnf _ rfl)
        rw [hsp]
        have htm'' : t''.tagMap.map (·.2) = ps.parked.map (·.1) := by
          rw [g2, htm']; simp [List.map_map]
        have hq'' : qIds t'' = qIds t' ++ ps.parked.map (·.1) := by
          simp only [qIds, g3, List.filterMap_append]
          congr 1
          induction ps.parked with
          | nil => rfl
          | cons p rest ih => simp [List.filterMap_cons, ih]
        have hr := S.2
        rw [hS1] at hr
        refine ⟨rfl, ?_, ?_, hinvp, ?_, ?_, ?_, ?_, ?_⟩
        · refine ⟨?_, ?_, ?_, ?_, ?_, ?_, ?_, ?_, (inv_parkedGo ps.parked t' I1 |> fun h => by rw [hpg] at h; exact h.1)⟩
          · simp
          · show t''.cstate = t''.cstate; rfl
          · intro id hid
            rw [hq''] at hid
            show id ∈ nextUnsent a op _
            rcases List.mem_append.mp hid with hid | hid
            · have := hr.unsent id hid
              simp only [nextAcc, nextUnsent_noreq _ _ _ hreq] at this
              rw [nextUnsent_noreq _ _ _ hreq]
              exact this
            · exact hunsent' _ rfl id hid
          · intro id hid
            simp only at hid
            rw [htm''] at hid
            exact pSeen id hid
          · intro id hid
            rw [hq''] at hid
            rcases List.mem_append.mp hid with hid | hid
            · exact hr.seenQ id hid
            · exact pSeen id hid
          · rw [hq'', List.nodup_append]
            refine ⟨hr.qnodup, pIds, ?_⟩
            intro x hx y hy e
            subst e
            exact pDisj x hy (hq' x hx)
          · have hsw : (List.map (fun p : Nat × Nat => (p.2, p.1)) ps.parked).map (·.1) = ps.parked.map (·.2) := by
              simp [List.map_map, Function.comp_def]
            rw [g2, htm', List.nil_append, hsw]; exact pTags
          · rw [htm'']; exact pIds
        · simp only [nextAcc, hncl, htm'', Bool.false_eq_true, if_false, List.map_nil, List.append_nil]
        all_goals simp
      · -- on a transport that is not Open: the 'Sink not open.' error, nothing is queued
        rw [parkedGo_rejects ps.parked t' hopn hop']
        have hdP : (obsOfP ({ t := t', connecting := c', parked := [] } : PSt)
            { o with eff := { o.eff with dels := o.eff.dels ++ ps.parked.map (fun p => (p.1, Resp.other)) } }).dels =
            (ps.parked.map (·.1)).map (fun i => (i, Resp.other)) := by
          show o.eff.dels ++ _ = _
          rw [hd]; simp [List.map_map]
        have h0 : (specStep { a with owed := [] } op
            { obsOfP ({ t := t', connecting := c', parked := [] } : PSt)
                { o with eff := { o.eff with dels := o.eff.dels ++ ps.parked.map (fun p => (p.1, Resp.other)) } }
              with dels := [] }).1 = .ok := by
          have := specStep_congr { a with owed := [] } op
            { obsOfP ({ t := t', connecting := c', parked := [] } : PSt)
                { o with eff := { o.eff with dels := o.eff.dels ++ ps.parked.map (fun p => (p.1, Resp.other)) } }
              with dels := [] } (obsOf t' o) rfl rfl hd.symm rfl rfl
          rw [this]; exact S.1
        have hsp := (specStep_parked a op _ (ps.parked.map (·.1)) hreq howedX h0).2 hdP
        rw [hsp]
        rw [parkedGo_rejects ps.parked t' hopn hop'] at hinvp
        have hr := S.2
        rw [hS1] at hr
        refine ⟨rfl, ?_, ?_, hinvp, ?_, ?_, ?_, ?_, ?_⟩
        · refine rel_congr _ _ _ _ hr ?_ rfl ?_
          · simp only [nextAcc, ite_self, htm', List.map_nil]
          · simp only [nextAcc, nextUnsent_noreq _ _ _ hreq]; rfl
        · simp only [nextAcc, htm', ite_self, List.map_nil, List.append_nil]
        all_goals simp


/-! ### every operation -/

theorem filter_not_sent_nil (l : List Nat) :
    l.filter (fun id => !(([] : List Item).any (fun it => itemId it == some id))) = l := by
  simp

/-- an operation of the transport while nobody is blocked: as before -/
theorem tr_ok_nil (ps : PSt) (a : Acc) (seen : List Nat) (op : Op) (h : RelP ps a seen)
    (hX : ps.parked = []) (hen : enabled ps.t seen op = true) :
    (specStep a op (obsOfP (stepOutP ps (.tr op)).1 (stepOutP ps (.tr op)).2)).1 = .ok ∧
    RelP (stepOutP ps (.tr op)).1 (specStep a op (obsOfP (stepOutP ps (.tr op)).1 (stepOutP ps (.tr op)).2)).2
      (seenAfter op seen) := by
  have ha : ({ a with owed := ps.t.tagMap.map (·.2) } : Acc) = a :=
    acc_with_owed a _ (by rw [h.owed, hX]; simp)
  have S := step_ok ps.t _ seen op h.core hen
  rw [ha] at S
  simp only [stepOutP]
  rw [finish_nil ps _ _ _ hX]
  have hobs : obsOfP ({ t := (stepOut ps.t op).1, connecting := ps.connecting, parked := [] } : PSt)
      (stepOut ps.t op).2 = obsOf (stepOut ps.t op).1 (stepOut ps.t op).2 := rfl
  rw [hobs]
  refine ⟨S.1, ?_, ?_, ⟨inv_step _ op h.invp.inv, invO_step _ op h.invp.invO,
    fun hc => conn_step _ op (h.invp.conn hc), (by intro hh; exact absurd rfl hh)⟩, ?_, ?_, ?_, ?_, ?_⟩
  · exact rel_congr _ _ _ _ S.2 S.2.owed.symm rfl rfl
  · rw [S.2.owed]; simp
  all_goals simp

theorem step_okP (ps : PSt) (a : Acc) (seen : List Nat) (op : POp) (h : RelP ps a seen)
    (hen : enabledP ps seen op = true) :
    (specStep a op.view (obsOfP (stepOutP ps op).1 (stepOutP ps op).2)).1 = .ok ∧
    RelP (stepOutP ps op).1 (specStep a op.view (obsOfP (stepOutP ps op).1 (stepOutP ps op).2)).2
      (seenAfter op.view seen) := by
  cases op with
  | tr op =>
    simp only [enabledP, Bool.and_eq_true, Bool.or_eq_true, Bool.not_eq_true'] at hen
    obtain ⟨hen1, hen2⟩ := hen
    by_cases hX : ps.parked = []
    · exact tr_ok_nil ps a seen op h hX hen1
    · have hw := h.invp.wait hX
      have hreq : isReq op = none := by
        rcases hen2 with e | e
        · cases hr : isReq op with
          | none => rfl
          | some i => rw [hr] at e; simp at e
        · rw [hw] at e; cases e
      have hsa : seenAfter op seen = seen := by simp [seenAfter, hreq]
      simp only [POp.view, stepOutP, hsa]
      exact finish_ok ps a seen ps.t op ps.connecting h.core h.owed h.invp.inv h.invp.invO
        (fun hp => waiting_tagMap ps h.invp.inv h.invp.invO (h.invp.wait hp)) hreq hen1
        (fun hc => conn_step _ op (h.invp.conn hc)) h.pUnsent h.pSeen h.pIds h.pTags h.pDisj
  | openStart =>
    simp only [enabledP, Bool.and_eq_true, decide_eq_true_eq, Bool.not_eq_true'] at hen
    obtain ⟨⟨hidle, hnor⟩, hnc⟩ := hen
    have htm : ps.t.tagMap = [] := h.invp.inv.1.2 (by rw [hidle]; simp)
    have hstep : stepOutP ps .openStart = ({ ps with t := St.connecting0, connecting := true }, {}) := by
      simp [stepOutP, PSt.openStart, hidle, hnor, hnc]
    rw [hstep]
    simp only [POp.view, seenAfter, isReq]
    rw [specStep_quiet _ _ _ rfl rfl rfl rfl]
    refine ⟨rfl, ?_, ?_, ⟨inv_connecting0, invO_connecting0, fun _ => Or.inl rfl, fun _ => rfl⟩, ?_,
      h.pSeen, h.pIds, h.pTags, ?_⟩
    · refine ⟨rfl, rfl, ?_, ?_, ?_, ?_, ?_, ?_, inv_connecting0.1⟩ <;>
        simp [St.connecting0, St.init, qIds, qItems]
    · show (nextAcc a Op.look _ a.owed a.abandoned).owed = _
      simp only [nextAcc, isClose, Bool.false_eq_true, if_false]
      rw [h.owed, htm]; rfl
    · intro id hid
      show id ∈ nextUnsent a Op.look _
      rw [nextUnsent_noreq _ _ _ rfl]
      show id ∈ a.unsent.filter _
      rw [List.mem_filter]
      exact ⟨h.pUnsent id hid, by simp [obsOfP, obsOf]⟩
    · intro id hid; simp [St.connecting0, St.init, qIds, qItems]
  | connected r rs =>
    have hcn : ps.connecting = true := by simpa [enabledP] using hen
    rcases h.invp.conn hcn with ht | ht
    · -- the connect concludes on a transport that is still waiting for it
      have hnc : ps.t.cstate ≠ .closed := by rw [ht]; simp [St.connecting0, St.init]
      have hcore : Rel St.init { a with owed := St.init.tagMap.map (·.2) } seen := by
        have := h.core
        rw [ht] at this
        exact rel_transfer _ _ _ _ this rfl rfl rfl inv0_init
      have howed : a.owed = St.init.tagMap.map (·.2) ++ ps.parked.map (·.1) := by
        rw [h.owed, ht]; rfl
      have hdisj : ∀ id ∈ ps.parked.map (·.1), id ∉ qIds St.init := by
        intro id _; simp [St.init, qIds, qItems]
      cases r with
      | refuse =>
        have hstep : stepOutP ps (.connected .refuse rs) =
            ps.finish (stepOut St.init (.openT .refuse)).1 false (stepOut St.init (.openT .refuse)).2 := by
          simp [stepOutP, PSt.connected, hcn, hnc, stepOut]
        rw [hstep]
        exact finish_ok ps a seen St.init (.openT .refuse) false hcore howed inv_init invO_init
          (fun _ => rfl) rfl rfl (by intro hh; cases hh) h.pUnsent h.pSeen h.pIds h.pTags hdisj
      | ok =>
        have hstep : stepOutP ps (.connected .ok rs) =
            ps.finish (stepOut St.init (.openBurst rs)).1 false (stepOut St.init (.openBurst rs)).2 := by
          simp [stepOutP, PSt.connected, hcn, hnc, stepOut]
        rw [hstep]
        exact finish_ok ps a seen St.init (.openBurst rs) false hcore howed inv_init invO_init
          (fun _ => rfl) rfl rfl (by intro hh; cases hh) h.pUnsent h.pSeen h.pIds h.pTags hdisj
    · -- `Close()` came first: the connect concludes on a transport that is shut down
      have hcl : ps.t.cstate = .closed := by rw [ht, connecting0x_eq]
      have hX : ps.parked = [] := by
        cases hp : ps.parked with
        | nil => rfl
        | cons p rest =>
          have hw := h.invp.wait (by rw [hp]; simp)
          have := waiting_idle ps h.invp.invO hw
          rw [hcl] at this; cases this
      have htm : ps.t.tagMap = [] := by rw [ht, connecting0x_eq]
      have hao : a.owed = [] := by rw [h.owed, htm, hX]; rfl
      have hprev : a.prev = .closed := by have := h.core.prev; simp only at this; rw [this, hcl]
      have hstep : stepOutP ps (.connected r rs) = ({ ps with connecting := false }, { eff := { conns := 1 } }) := by
        simp [stepOutP, PSt.connected, hcn, hcl]
      rw [hstep]
      have hreq : isReq (POp.connected r rs).view = none := by cases r <;> rfl
      have hsa : seenAfter (POp.connected r rs).view seen = seen := by simp [seenAfter, hreq]
      rw [hsa]
      have hspec : specStep a (POp.connected r rs).view
          (obsOfP ({ ps with connecting := false } : PSt) { eff := { conns := 1 } }) =
          (.ok, nextAcc a (POp.connected r rs).view
            (obsOfP ({ ps with connecting := false } : PSt) { eff := { conns := 1 } }) [] a.abandoned) := by
        cases r <;>
          simp [specStep, POp.view, owedWith, isReq, hao, vFail, vCarry, firstUnfailed, firstNotFailed,
            obsOfP, obsOf, hcl, hprev, Verdict.and]
      rw [hspec]
      refine ⟨rfl, ?_, ?_, ⟨h.invp.inv, h.invp.invO, (by intro hh; cases hh), (by intro hh; exact absurd hX hh)⟩,
        ?_, ?_, ?_, ?_, ?_⟩
      · refine rel_congr _ _ _ _ h.core ?_ ?_ ?_
        · rfl
        · show ps.t.cstate = a.prev
          rw [hprev]; exact hcl
        · show nextUnsent a _ _ = a.unsent
          rw [nextUnsent_noreq _ _ _ hreq]
          exact filter_not_sent_nil _
      · show (nextAcc a _ _ [] a.abandoned).owed = _
        simp only [nextAcc, ite_self]
        rw [htm, hX]; rfl
      all_goals (rw [hX]; simp)
  | park id tag =>
    simp only [enabledP, Bool.and_eq_true, Bool.not_eq_true', decide_eq_true_eq] at hen
    obtain ⟨⟨⟨hfresh, hw⟩, htag2⟩, htag⟩ := hen
    have hfresh : id ∉ seen := by simpa using hfresh
    have hstep : stepOutP ps (.park id tag) = ({ ps with parked := ps.parked ++ [(id, tag)] }, {}) := by
      simp [stepOutP, PSt.park, hw]
    rw [hstep]
    simp only [POp.view, seenAfter, isReq]
    have hspec : specStep a (.req id tag) (obsOfP ({ ps with parked := ps.parked ++ [(id, tag)] } : PSt) {}) =
        (.ok, nextAcc a (.req id tag) (obsOfP ({ ps with parked := ps.parked ++ [(id, tag)] } : PSt) {})
          (a.owed ++ [id]) a.abandoned) := by
      simp [specStep, owedWith, isReq, vFail, isFailure, vCarry, obsOfP, obsOf, Verdict.and]
    rw [hspec]
    have hun : ∀ j, j ∈ a.unsent ∨ j = id →
        j ∈ (nextAcc a (.req id tag) (obsOfP ({ ps with parked := ps.parked ++ [(id, tag)] } : PSt) {})
          (a.owed ++ [id]) a.abandoned).unsent := by
      intro j hj
      simp [nextAcc, nextUnsent, obsOfP, obsOf]
      exact hj
    refine ⟨rfl, ?_, ?_, ⟨h.invp.inv, h.invp.invO, h.invp.conn, fun _ => hw⟩, ?_, ?_, ?_, ?_, ?_⟩
    · obtain ⟨r1, r2, r3, r4, r5, r6, r7, r8, r9⟩ := h.core
      refine ⟨rfl, rfl, ?_, ?_, ?_, r6, r7, r8, r9⟩
      · intro j hj; exact hun j (Or.inl (r3 j hj))
      · intro j hj; exact List.mem_cons_of_mem _ (r4 j hj)
      · intro j hj; exact List.mem_cons_of_mem _ (r5 j hj)
    · show (nextAcc a _ _ (a.owed ++ [id]) a.abandoned).owed = _
      simp only [nextAcc, isClose, Bool.false_eq_true, if_false]
      rw [h.owed]; simp
    · intro j hj
      simp only [List.map_append, List.map_cons, List.map_nil, List.mem_append, List.mem_singleton] at hj
      rcases hj with hj | hj
      · exact hun j (Or.inl (h.pUnsent j hj))
      · exact hun j (Or.inr hj)
    · intro j hj
      simp only [List.map_append, List.map_cons, List.map_nil, List.mem_append, List.mem_singleton] at hj
      rcases hj with hj | hj
      · exact List.mem_cons_of_mem _ (h.pSeen j hj)
      · rw [hj]; exact List.mem_cons_self
    · simp only [List.map_append, List.map_cons, List.map_nil]
      rw [List.nodup_append]
      refine ⟨h.pIds, by simp, ?_⟩
      intro x hx y hy e
      simp at hy; subst hy; subst e
      exact hfresh (h.pSeen _ hx)
    · simp only [List.map_append, List.map_cons, List.map_nil]
      rw [List.nodup_append]
      refine ⟨h.pTags, by simp, ?_⟩
      intro x hx y hy e
      simp at hy; subst hy; subst e
      obtain ⟨p, hp, he⟩ := List.mem_map.mp hx
      have : (ps.parked.any fun p => p.2 == x) = true := List.any_eq_true.mpr ⟨p, hp, by simpa using he⟩
      rw [htag] at this; cases this
    · intro j hj hq
      simp only [List.map_append, List.map_cons, List.map_nil, List.mem_append, List.mem_singleton] at hj
      rcases hj with hj | hj
      · exact h.pDisj j hj hq
      · subst hj; exact hfresh (h.core.seenQ _ hq)


end Scales.MuxT
