/-
  Proofs/MuxWriteLemmas.lean — C12, multiplexed hop, the write as a yield point: a third
  invariant, on top of `Inv` and `Inv12`, for the clause `timeout-not-discarded` (`specObsM`).

  `must` — the tags of written (or being written), unanswered frames whose request has timed
  out and whose Tdiscarded has not been seen yet — is computed by the specification from `fire`,
  `process` and the frames written alone.  The invariant says where the model keeps each of them:
  a Tdiscarded naming the tag waits in the send queue, or the time-out callback that will queue
  it is still runnable (event fired, subscription present, the request still holds the tag).
  That the subscription *is* present when the event fires rests on `UnSub`: a written,
  unanswered frame of a request whose deadline is still pending is subscribed — the
  subscription is made before the `write` call is issued, so it is there while the call blocks.
-/
import ScalesModel.Proofs.MuxTimeoutLemmas
namespace Scales.TagPool

/-- a Tdiscarded naming `t` is on its way: queued, or its time-out callback is still to run -/
@[reducible] def Cov (s : St) (t : Nat) : Prop :=
  Item.discard t ∈ s.sendq ∨
    ∃ (rid : Nat) (r : Req), s.reqs[rid]? = some r ∧ r.ev = Ev.fired ∧ r.sub = true ∧ r.key = Key.tag t

/-- a written, unanswered frame of a request whose deadline may still fire: the request is
    subscribed and holds the frame's tag -/
def UnSub (unans : List (Nat × Nat)) (reqs : List Req) : Prop :=
  ∀ p ∈ unans, ∃ r, reqs[p.2]? = some r ∧ (r.ev = .unfired → r.sub = true ∧ r.key = .tag p.1)

structure InvM (cfg : Cfg) (a : Acc) (s : St) : Prop where
  cov : cfg.fl = .thriftmux → ∀ t ∈ a.must, Cov s t
  unsub : UnSub a.unans s.reqs
  inprog : a.inprog = s.writing

theorem InvM_fresh (cfg : Cfg) : InvM cfg {} St.init := by
  refine ⟨?_, ?_, rfl⟩
  · intro _ t ht; cases ht
  · intro p hp; cases hp

theorem InvM_init (cfg : Cfg) : InvM cfg (Acc.init cfg) (initSt cfg) := by
  refine ⟨?_, ?_, rfl⟩
  · intro _ t ht; cases ht
  · intro p hp; cases hp

/-! ### the accumulator's new fields -/

theorem after_must (a : Acc) (op : Op) (o : Obs) : (a.after op o).must = mustAfter a op o := by
  cases op <;> rfl

theorem after_inprog (a : Acc) (op : Op) (o : Obs) : (a.after op o).inprog = inprogAfter a op := by
  cases op <;> rfl

theorem mem_dropDiscarded {t : Nat} {l : List Nat} {fs : List Frame} :
    t ∈ dropDiscarded l fs ↔ t ∈ l ∧ t ∉ discTags fs := by
  simp [dropDiscarded]

/-- apart from the firing of a deadline event, `must` only shrinks, and what a step writes as
    Tdiscarded leaves it -/
theorem mustAfter_sub (a : Acc) (op : Op) (o : Obs) (h : ∀ rid, op ≠ .fire rid) :
    ∀ t ∈ mustAfter a op o, t ∈ a.must ∧ t ∉ discTags o.wrote := by
  intro t ht
  cases op with
  | fire rid => exact absurd rfl (h rid)
  | reopen => simp [mustAfter] at ht
  | process m t' =>
    simp only [mustAfter] at ht
    have := mem_dropDiscarded.mp ht
    exact ⟨(List.mem_filter.mp this.1).1, this.2⟩
  | req e p => simp only [mustAfter] at ht; exact mem_dropDiscarded.mp ht
  | send => simp only [mustAfter] at ht; exact mem_dropDiscarded.mp ht
  | notify rid => simp only [mustAfter] at ht; exact mem_dropDiscarded.mp ht
  | ping => simp only [mustAfter] at ht; exact mem_dropDiscarded.mp ht
  | wbegin => simp only [mustAfter] at ht; exact mem_dropDiscarded.mp ht
  | wend => simp only [mustAfter] at ht; exact mem_dropDiscarded.mp ht
  | quiet => simp only [mustAfter] at ht; exact mem_dropDiscarded.mp ht

theorem specObsM_other (cfg : Cfg) (a : Acc) (idx : Nat) (op : Op) (o : Obs) (h : op ≠ .quiet) :
    specObsM cfg a idx op o = .ok := by
  unfold specObsM
  have : (op == Op.quiet) = false := by simpa using h
  simp [this]

/-! ### preservation of `Cov` and `UnSub` -/

theorem Cov.of_queue {s s' : St} {t : Nat} (hq : Item.discard t ∈ s.sendq → Item.discard t ∈ s'.sendq)
    (hr : s'.reqs = s.reqs) : Cov s t → Cov s' t := by
  rintro (h | h)
  · exact Or.inl (hq h)
  · right; rw [hr]; exact h

theorem Cov.set {s s' : St} {t j : Nat} {r0 n : Req} (h0 : s.reqs[j]? = some r0)
    (hr : s'.reqs = s.reqs.set j n)
    (hq : Item.discard t ∈ s.sendq → Item.discard t ∈ s'.sendq)
    (hn : r0.ev = .fired → r0.sub = true → r0.key = .tag t →
      (n.ev = .fired ∧ n.sub = true ∧ n.key = .tag t) ∨ Item.discard t ∈ s'.sendq) :
    Cov s t → Cov s' t := by
  rintro (h | ⟨rid, r, h1, h2, h3, h4⟩)
  · exact Or.inl (hq h)
  · by_cases e : rid = j
    · subst e
      rw [h0] at h1; injection h1 with h1; subst h1
      rcases hn h2 h3 h4 with hh | hh
      · right; exact ⟨rid, n, by rw [hr]; exact set_self h0 n, hh.1, hh.2.1, hh.2.2⟩
      · exact Or.inl hh
    · right; exact ⟨rid, r, by rw [hr, set_ne e]; exact h1, h2, h3, h4⟩

theorem Cov.append {s s' : St} {t : Nat} (x : List Req) (hr : s'.reqs = s.reqs ++ x)
    (hq : Item.discard t ∈ s.sendq → Item.discard t ∈ s'.sendq) : Cov s t → Cov s' t := by
  rintro (h | ⟨rid, r, h1, h2, h3, h4⟩)
  · exact Or.inl (hq h)
  · right
    have hlt := getElem?_lt h1
    exact ⟨rid, r, by rw [hr, List.getElem?_append_left hlt]; exact h1, h2, h3, h4⟩

theorem UnSub.sub {u u' : List (Nat × Nat)} {reqs : List Req} (h : UnSub u reqs) (hs : ∀ p ∈ u', p ∈ u) :
    UnSub u' reqs := fun p hp => h p (hs p hp)

theorem UnSub.set {u : List (Nat × Nat)} {reqs : List Req} {j : Nat} {r0 : Req} (n : Req) (h : UnSub u reqs)
    (h0 : reqs[j]? = some r0)
    (hn : ∀ p ∈ u, p.2 = j → n.ev = .unfired → n.sub = true ∧ n.key = .tag p.1) :
    UnSub u (reqs.set j n) := by
  intro p hp
  by_cases e : p.2 = j
  · exact ⟨n, by rw [e]; exact set_self h0 n, hn p hp e⟩
  · obtain ⟨r, hr, hrr⟩ := h p hp
    exact ⟨r, by rw [set_ne e]; exact hr, hrr⟩

theorem UnSub.append {u : List (Nat × Nat)} {reqs : List Req} (x : List Req) (h : UnSub u reqs) :
    UnSub u (reqs ++ x) := by
  intro p hp
  obtain ⟨r, hr, hrr⟩ := h p hp
  exact ⟨r, by rw [List.getElem?_append_left (getElem?_lt hr)]; exact hr, hrr⟩

theorem InvM.mk' (cfg : Cfg) (a : Acc) (op : Op) (s' : St) (out : Out)
    (hcov : cfg.fl = .thriftmux → ∀ t ∈ mustAfter a op (obsOf s' out), Cov s' t)
    (hun : UnSub (a.after op (obsOf s' out)).unans s'.reqs)
    (hin : inprogAfter a op = s'.writing) : InvM cfg (a.after op (obsOf s' out)) s' :=
  ⟨by rw [after_must]; exact hcov, hun, by rw [after_inprog]; exact hin⟩

/-- the written-and-unanswered pairs after a step that writes no request frame and is neither a
    peer frame nor a re-open -/
theorem unans_plain (a : Acc) (op : Op) (s' : St) (out : Out) (h1 : op ≠ .reopen) (h2 : ∀ m t, op ≠ .process m t)
    (hw : reqPairs out.wrote = []) : (a.after op (obsOf s' out)).unans = a.unans := by
  rw [after_pairs_other a op _ h1 h2]
  show a.unans ++ reqPairs out.wrote = a.unans
  rw [hw, List.append_nil]

/-! ### one step -/

/-! #### fire -/

theorem InvM_step_fire (cfg : Cfg) (a : Acc) (s : St) (rid : Nat) (hm : InvM cfg a s)
    (hen : opEnabled cfg s (.fire rid) = true) :
    InvM cfg (a.after (.fire rid) (step cfg s (.fire rid)).2) (step cfg s (.fire rid)).1 := by
  simp only [step, stepOp]
  simp only [opEnabled, stepOp] at hen
  unfold stepFire at hen ⊢
  cases hr : s.reqs[rid]? with
  | none => simp [hr] at hen
  | some r =>
    simp only [hr] at hen ⊢
    by_cases hev : r.ev = .unfired
    · rw [if_pos hev]
      refine InvM.mk' cfg a (.fire rid) _ _ ?_ ?_ hm.inprog
      · intro hfl t ht
        simp only [mustAfter] at ht
        have ht := (mem_dropDiscarded.mp ht).1
        rcases List.mem_append.mp ht with ht | ht
        · exact Cov.set hr rfl (fun h => h) (fun hf => by rw [hev] at hf; cases hf) (hm.cov hfl t ht)
        · -- `t` is the tag of a written, unanswered frame of `rid`: subscribed, tag still held
          simp only [tagsOf, List.mem_map, List.mem_filter, beq_iff_eq] at ht
          obtain ⟨p, ⟨hp, hp2⟩, hp1⟩ := ht
          obtain ⟨r', hr', hrr⟩ := hm.unsub p hp
          rw [hp2, hr] at hr'; injection hr' with hr'; subst hr'
          obtain ⟨hs, hk⟩ := hrr hev
          right
          exact ⟨rid, _, set_self hr _, rfl, hs, by rw [← hp1]; exact hk⟩
      · rw [unans_plain a _ _ _ (by simp) (by simp) rfl]
        exact UnSub.set _ hm.unsub hr (fun p _ _ h => by cases h)
    · simp [hev] at hen

/-! #### notify -/

theorem InvM_step_notify (cfg : Cfg) (a : Acc) (s : St) (rid : Nat) (hm : InvM cfg a s)
    (hen : ((stepNotify s rid).2.res != .badop) = true) :
    InvM cfg (a.after (.notify rid) (obsOf (stepNotify s rid).1 (stepNotify s rid).2)) (stepNotify s rid).1 := by
  unfold stepNotify at hen ⊢
  cases hr : s.reqs[rid]? with
  | none => simp [hr] at hen
  | some r =>
    simp only [hr] at hen ⊢
    by_cases hev : r.ev = .fired ∧ r.sub = true
    · rw [if_pos hev]
      have hun : UnSub a.unans (s.reqs.set rid { r with sub := false, key := .absent }) :=
        UnSub.set _ hm.unsub hr (fun p _ _ h => by rw [hev.1] at h; cases h)
      cases hk : r.key with
      | tag t =>
        simp only
        refine InvM.mk' cfg a (.notify rid) _ _ ?_ ?_ hm.inprog
        · intro hfl t' ht'
          have ht' := (mustAfter_sub a _ _ (by simp) t' ht').1
          refine Cov.set hr rfl (fun h => List.mem_append_left _ h) ?_ (hm.cov hfl t' ht')
          intro _ _ hk'
          rw [hk] at hk'; injection hk' with hk'; subst hk'
          right; simp
        · rw [unans_plain a _ _ _ (by simp) (by simp) rfl]; exact hun
      | answered =>
        simp only
        refine InvM.mk' cfg a (.notify rid) _ _ ?_ ?_ hm.inprog
        · intro hfl t' ht'
          have ht' := (mustAfter_sub a _ _ (by simp) t' ht').1
          exact Cov.set hr rfl (fun h => h) (fun _ _ hk' => by rw [hk] at hk'; cases hk') (hm.cov hfl t' ht')
        · rw [unans_plain a _ _ _ (by simp) (by simp) rfl]; exact hun
      | absent =>
        simp only
        refine InvM.mk' cfg a (.notify rid) _ _ ?_ ?_ hm.inprog
        · intro hfl t' ht'
          have ht' := (mustAfter_sub a _ _ (by simp) t' ht').1
          exact Cov.set hr rfl (fun h => h) (fun _ _ hk' => by rw [hk] at hk'; cases hk') (hm.cov hfl t' ht')
        · rw [unans_plain a _ _ _ (by simp) (by simp) rfl]; exact hun
    · simp [hev] at hen

theorem InvM_step_notify_kafka (cfg : Cfg) (a : Acc) (s : St) (rid : Nat) (hfl : cfg.fl = .kafka)
    (hm : InvM cfg a s) (hen : ((stepNotifyKafka s rid).2.res != .badop) = true) :
    InvM cfg (a.after (.notify rid) (obsOf (stepNotifyKafka s rid).1 (stepNotifyKafka s rid).2))
      (stepNotifyKafka s rid).1 := by
  unfold stepNotifyKafka at hen ⊢
  cases hr : s.reqs[rid]? with
  | none => simp [hr] at hen
  | some r =>
    simp only [hr] at hen ⊢
    by_cases hev : r.ev = .fired ∧ r.sub = true
    · rw [if_pos hev]
      simp only
      refine InvM.mk' cfg a (.notify rid) _ _ ?_ ?_ hm.inprog
      · intro hc; rw [hfl] at hc; cases hc
      · rw [unans_plain a _ _ _ (by simp) (by simp) rfl]
        exact UnSub.set _ hm.unsub hr (fun p _ _ h => by rw [hev.1] at h; cases h)
    · simp [hev] at hen

/-! #### process -/

theorem InvM_process_nochange (cfg : Cfg) (a : Acc) (s : St) (mt : Int) (t : Nat) (hm : InvM cfg a s) :
    InvM cfg (a.after (.process mt t) (obsOf s {})) s := by
  refine InvM.mk' cfg a _ s {} ?_ ?_ hm.inprog
  · intro hfl t' ht'; exact hm.cov hfl t' (mustAfter_sub a _ _ (by simp) t' ht').1
  · rw [after_pairs_process]
    simp only [obsOf, reqPairs, List.filter_nil, List.map_nil, List.append_nil]
    exact hm.unsub.sub (fun p hp => (List.mem_filter.mp hp).1)

theorem InvM_process_tagged (cfg : Cfg) (a : Acc) (s : St) (mt : Int) (t : Nat) (hi : Inv cfg a s)
    (h12 : Inv12 cfg a s) (hm : InvM cfg a s) :
    InvM cfg (a.after (.process mt t) (obsOf (stepProcessKafka s t).1 (stepProcessKafka s t).2))
      (stepProcessKafka s t).1 := by
  unfold stepProcessKafka
  cases hl : tmLookup t s.tagmap with
  | none =>
    rw [releaseTag_none hl]
    exact InvM_process_nochange cfg a s mt t hm
  | some rid0 =>
    rw [releaseTag_some hl]
    simp only
    have hlt0 := h12.rlt t rid0 hl
    obtain ⟨r0, hr0⟩ : ∃ r0, s.reqs[rid0]? = some r0 := ⟨s.reqs[rid0], List.getElem?_eq_getElem hlt0⟩
    have hsk : setKey s.reqs rid0 .answered = s.reqs.set rid0 { r0 with key := .answered } := by
      simp [setKey, hr0]
    refine InvM.mk' cfg a (.process mt t) _ _ ?_ ?_ hm.inprog
    · intro hfl t' ht'
      simp only [mustAfter] at ht'
      have ht1 := (mem_dropDiscarded.mp ht').1
      obtain ⟨htm, hne⟩ := List.mem_filter.mp ht1
      have hne : t' ≠ t := by simpa using hne
      refine Cov.set hr0 hsk (fun h => h) ?_ (hm.cov hfl t' htm)
      intro _ hsub hk
      exfalso
      have hmem := (h12.subkey rid0 r0 hr0 hsub t').mp hk
      exact hne (h12.rinj t' t rid0 (hi.own _ hmem) hl)
    · rw [after_pairs_process]
      simp only [obsOf, reqPairs, List.filter_nil, List.map_nil, List.append_nil]
      show UnSub _ (setKey s.reqs rid0 .answered)
      rw [hsk]
      refine UnSub.set _ (hm.unsub.sub (fun p hp => (List.mem_filter.mp hp).1)) hr0 ?_
      intro p hp he _
      exfalso
      obtain ⟨hpm, hpn⟩ := List.mem_filter.mp hp
      have hpn : p.1 ≠ t := by simpa using hpn
      have := hi.own p hpm
      rw [he] at this
      exact hpn (h12.rinj p.1 t rid0 this hl)

theorem InvM_step_process (cfg : Cfg) (a : Acc) (s : St) (mt : Int) (t : Nat) (hi : Inv cfg a s)
    (h12 : Inv12 cfg a s) (hm : InvM cfg a s) :
    InvM cfg (a.after (.process mt t) (obsOf (stepProcess s mt t).1 (stepProcess s mt t).2))
      (stepProcess s mt t).1 := by
  unfold stepProcess
  by_cases hping : t = 1 ∧ mt = -65
  · rw [if_pos hping]
    exact InvM_process_nochange cfg a s mt t hm
  · rw [if_neg hping]
    by_cases ht0 : t ≠ 0
    · rw [if_pos ht0]
      exact InvM_process_tagged cfg a s mt t hi h12 hm
    · rw [if_neg ht0]
      exact InvM_process_nochange cfg a s mt t hm

/-! #### ping, req: things are appended -/

theorem InvM_grow (cfg : Cfg) (a : Acc) (s s' : St) (op : Op) (out : Out) (x : List Req) (hm : InvM cfg a s)
    (h1 : op ≠ .reopen) (h2 : ∀ m t, op ≠ .process m t) (h3 : ∀ rid, op ≠ .fire rid)
    (h4 : inprogAfter a op = a.inprog)
    (hw : out.wrote = []) (hr : s'.reqs = s.reqs ++ x) (hq : ∀ i ∈ s.sendq, i ∈ s'.sendq)
    (hwr : s'.writing = s.writing) : InvM cfg (a.after op (obsOf s' out)) s' := by
  refine InvM.mk' cfg a op s' out ?_ ?_ ?_
  · intro hfl t ht
    exact Cov.append x hr (hq _) (hm.cov hfl t (mustAfter_sub a _ _ h3 t ht).1)
  · rw [unans_plain a _ _ _ h1 h2 (by rw [hw]; rfl), hr]
    exact hm.unsub.append x
  · rw [h4, hwr]; exact hm.inprog

theorem InvM_step_req (cfg : Cfg) (a : Acc) (s : St) (e : EvKind) (popped : Nat) (hm : InvM cfg a s)
    (hen : opEnabled cfg s (.req e popped) = true) :
    InvM cfg (a.after (.req e popped) (step cfg s (.req e popped)).2) (step cfg s (.req e popped)).1 := by
  simp only [step, stepOp]
  simp only [opEnabled, stepOp] at hen
  unfold stepReq at hen ⊢
  cases hg : s.pool.get cfg.max popped with
  | exhausted =>
    simp only
    exact InvM_grow cfg a s _ _ _ [⟨.absent, evOf e, false⟩] hm (by simp) (by simp) (by simp) rfl rfl rfl
      (fun _ h => h) rfl
  | badChoice => simp [hg] at hen
  | tag t p =>
    simp only
    exact InvM_grow cfg a s _ _ _ [⟨.tag t, evOf e, false⟩] hm (by simp) (by simp) (by simp) rfl rfl rfl
      (fun _ h => List.mem_append_left _ h) rfl

theorem InvM_step_ping (cfg : Cfg) (a : Acc) (s : St) (hm : InvM cfg a s) :
    InvM cfg (a.after .ping (obsOf { s with sendq := s.sendq ++ [.ping] } {}))
      { s with sendq := s.sendq ++ [.ping] } :=
  InvM_grow cfg a s _ _ _ [] hm (by simp) (by simp) (by simp) rfl rfl (by simp)
    (fun _ h => List.mem_append_left _ h) rfl

/-! #### an iteration of the send loop -/

theorem discTags_req (t rid : Nat) : discTags [(⟨.req, t, rid⟩ : Frame)] = [] := by simp [discTags]

theorem InvM_send_core (cfg : Cfg) (a : Acc) (s : St) (hi : Inv cfg a s) (h12 : Inv12 cfg a s)
    (hm : InvM cfg a s) (hen : ((stepSend s).2.res != .badop) = true) :
    InvM cfg (a.after .send (obsOf (stepSend s).1 (stepSend s).2)) (stepSend s).1 := by
  unfold stepSend at hen ⊢
  cases hq : s.sendq with
  | nil => simp [hq] at hen
  | cons i q =>
    have hqd : ∀ t, Item.discard t ∈ s.sendq → i ≠ .discard t → Item.discard t ∈ q := by
      intro t ht hne
      rw [hq] at ht
      rcases List.mem_cons.mp ht with e | e
      · exact absurd e.symm hne
      · exact e
    cases i with
    | ping =>
      refine InvM.mk' cfg a .send _ _ ?_ ?_ hm.inprog
      · intro hfl t ht
        exact Cov.of_queue (fun h => hqd t h (by simp)) rfl (hm.cov hfl t (mustAfter_sub a _ _ (by simp) t ht).1)
      · rw [unans_plain a _ _ _ (by simp) (by simp) (by simp [reqPairs])]; exact hm.unsub
    | discard w =>
      refine InvM.mk' cfg a .send _ _ ?_ ?_ hm.inprog
      · intro hfl t ht
        obtain ⟨htm, htd⟩ := mustAfter_sub a _ _ (by simp) t ht
        have hne : t ≠ w := by
          intro e; apply htd; subst e; simp [obsOf, discTags]
        exact Cov.of_queue (fun h => hqd t h (by simpa using hne.symm)) rfl (hm.cov hfl t htm)
      · rw [unans_plain a _ _ _ (by simp) (by simp) (by simp [reqPairs])]; exact hm.unsub
    | req rid t =>
      obtain ⟨r, hr, hsub, hk⟩ := hi.q.qitem rid t (by rw [hq]; simp)
      simp only [hr]
      have hqd' : ∀ t', Item.discard t' ∈ s.sendq → Item.discard t' ∈ q := fun t' h => hqd t' h (by simp)
      rcases hk with hk | ⟨hk, hl, hu⟩
      · simp only [hk]
        refine InvM.mk' cfg a .send _ _ ?_ ?_ hm.inprog
        · intro hfl t' ht
          exact Cov.of_queue (hqd' t') rfl (hm.cov hfl t' (mustAfter_sub a _ _ (by simp) t' ht).1)
        · rw [unans_plain a _ _ _ (by simp) (by simp) rfl]; exact hm.unsub
      · simp only [hk]
        -- an earlier written, unanswered frame cannot belong to this request: its tag is not in `a.tags`
        have hnot : ∀ p ∈ a.unans, p.2 ≠ rid := by
          intro p hp e
          have := hi.own p hp
          rw [e] at this
          have := h12.rinj p.1 t rid this hl
          apply hu
          simp only [Acc.tags, List.mem_map]
          exact ⟨p, hp, this⟩
        cases hev : r.ev with
        | fired =>
          simp only
          simp only [releaseTag, hl]
          refine InvM.mk' cfg a .send _ _ ?_ ?_ hm.inprog
          · intro hfl t' ht
            refine Cov.set hr rfl (hqd' t') ?_ (hm.cov hfl t' (mustAfter_sub a _ _ (by simp) t' ht).1)
            intro _ hs; rw [hsub] at hs; cases hs
          · rw [unans_plain a _ _ _ (by simp) (by simp) rfl]
            exact UnSub.set _ hm.unsub hr (fun p hp he _ => absurd he (hnot p hp))
        | unfired =>
          simp only
          refine InvM.mk' cfg a .send _ _ ?_ ?_ hm.inprog
          · intro hfl t' ht
            refine Cov.set hr rfl (hqd' t') ?_ (hm.cov hfl t' (mustAfter_sub a _ _ (by simp) t' ht).1)
            intro hf; rw [hev] at hf; cases hf
          · rw [after_pairs_other a _ _ (by simp) (by simp)]
            show UnSub (a.unans ++ reqPairs [(⟨.req, t, rid⟩ : Frame)]) (s.reqs.set rid _)
            have hrp : reqPairs [(⟨.req, t, rid⟩ : Frame)] = [(t, rid)] := by simp [reqPairs]
            rw [hrp]
            intro p hp
            rcases List.mem_append.mp hp with hp | hp
            · exact UnSub.set _ hm.unsub hr (fun p hp he _ => absurd he (hnot p hp)) p hp
            · simp only [List.mem_singleton] at hp; subst hp
              exact ⟨_, set_self hr _, fun _ => ⟨rfl, rfl⟩⟩
        | noev =>
          simp only
          refine InvM.mk' cfg a .send _ _ ?_ ?_ hm.inprog
          · intro hfl t' ht
            exact Cov.of_queue (hqd' t') rfl (hm.cov hfl t' (mustAfter_sub a _ _ (by simp) t' ht).1)
          · rw [after_pairs_other a _ _ (by simp) (by simp)]
            show UnSub (a.unans ++ reqPairs [(⟨.req, t, rid⟩ : Frame)]) s.reqs
            have hrp : reqPairs [(⟨.req, t, rid⟩ : Frame)] = [(t, rid)] := by simp [reqPairs]
            rw [hrp]
            intro p hp
            rcases List.mem_append.mp hp with hp | hp
            · exact hm.unsub p hp
            · simp only [List.mem_singleton] at hp; subst hp
              exact ⟨r, hr, fun h => by rw [hev] at h; cases h⟩

/-- `InvM` looks at the `must` / `unans` / `inprog` fields of the accumulator and at the send
    queue, the requests and the `writing` flag of the state -/
theorem InvM_congr {cfg : Cfg} {a a' : Acc} {s s' : St} (h : InvM cfg a s)
    (hmu : a'.must = a.must) (hu : a'.unans = a.unans) (hin : a'.inprog = s'.writing)
    (h3 : s'.sendq = s.sendq) (h4 : s'.reqs = s.reqs) : InvM cfg a' s' := by
  refine ⟨?_, ?_, hin⟩
  · intro hfl t ht
    rw [hmu] at ht
    exact Cov.of_queue (by rw [h3]; exact fun h => h) h4 (h.cov hfl t ht)
  · rw [hu, h4]; exact h.unsub

/-! #### all together -/

theorem InvM_step (cfg : Cfg) (a : Acc) (s : St) (op : Op) (idx : Nat) (hi : Inv cfg a s) (h12 : Inv12 cfg a s)
    (hm : InvM cfg a s) (hen : opEnabled cfg s op = true) :
    specObsM cfg a idx op (step cfg s op).2 = .ok ∧ InvM cfg (a.after op (step cfg s op).2) (step cfg s op).1 := by
  cases op with
  | req e popped => exact ⟨specObsM_other _ _ _ _ _ (by simp), InvM_step_req cfg a s e popped hm hen⟩
  | fire rid => exact ⟨specObsM_other _ _ _ _ _ (by simp), InvM_step_fire cfg a s rid hm hen⟩
  | send =>
    refine ⟨specObsM_other _ _ _ _ _ (by simp), ?_⟩
    simp only [step, stepOp]
    simp only [opEnabled, stepOp] at hen
    by_cases hw : s.writing = true
    · simp [hw] at hen
    · simp only [hw] at hen ⊢
      exact InvM_send_core cfg a s hi h12 hm hen
  | notify rid =>
    refine ⟨specObsM_other _ _ _ _ _ (by simp), ?_⟩
    simp only [opEnabled, stepOp] at hen
    simp only [step, stepOp]
    cases hfl : cfg.fl with
    | thriftmux => simp only [hfl] at hen; exact InvM_step_notify cfg a s rid hm hen
    | kafka => simp only [hfl] at hen; exact InvM_step_notify_kafka cfg a s rid hfl hm hen
  | process mt t =>
    refine ⟨specObsM_other _ _ _ _ _ (by simp), ?_⟩
    simp only [step, stepOp]
    cases hfl : cfg.fl with
    | thriftmux => exact InvM_step_process cfg a s mt t hi h12 hm
    | kafka => exact InvM_process_tagged cfg a s mt t hi h12 hm
  | ping =>
    refine ⟨specObsM_other _ _ _ _ _ (by simp), ?_⟩
    simp only [opEnabled, stepOp] at hen
    simp only [step, stepOp]
    cases hfl : cfg.fl with
    | thriftmux => exact InvM_step_ping cfg a s hm
    | kafka => simp [hfl] at hen
  | reopen =>
    refine ⟨specObsM_other _ _ _ _ _ (by simp), ?_⟩
    simp only [step, stepOp]
    exact InvM_fresh cfg
  | wbegin =>
    refine ⟨specObsM_other _ _ _ _ _ (by simp), ?_⟩
    simp only [step, stepOp]
    simp only [opEnabled, stepOp] at hen
    unfold stepWBegin at hen ⊢
    by_cases hw : s.writing = true
    · simp [hw] at hen
    · simp only [hw] at hen ⊢
      cases he : (stepSend s).2.wrote.isEmpty with
      | true => simp [he] at hen
      | false =>
        simp only [he, if_false, Bool.false_eq_true] at hen ⊢
        have hres := stepSend_res_of_wrote s he
        have := InvM_send_core cfg a s hi h12 hm (by rw [hres]; rfl)
        exact InvM_congr this rfl rfl rfl rfl rfl
  | wend =>
    refine ⟨specObsM_other _ _ _ _ _ (by simp), ?_⟩
    simp only [step, stepOp]
    simp only [opEnabled, stepOp] at hen
    unfold stepWEnd at hen ⊢
    by_cases hw : s.writing = true
    · simp only [hw, if_true]
      refine InvM.mk' cfg a .wend _ _ ?_ ?_ rfl
      · intro hfl t ht
        exact Cov.of_queue (s := s) (fun h => h) rfl (hm.cov hfl t (mustAfter_sub a _ _ (by simp) t ht).1)
      · rw [unans_plain a _ _ _ (by simp) (by simp) rfl]; exact hm.unsub
    · simp [hw] at hen
  | quiet =>
    simp only [step, stepOp]
    simp only [opEnabled, stepOp] at hen
    unfold stepQuiet at hen ⊢
    split
    · rename_i hc
      simp only [Bool.and_eq_true, Bool.or_eq_true, List.all_eq_true, Bool.not_eq_true'] at hc
      constructor
      · -- the clause: nothing is due at an idle point with an empty queue and no write in progress
        unfold specObsM
        rw [if_neg]
        intro hcond
        simp only [Bool.and_eq_true, beq_iff_eq, Bool.not_eq_true', List.isEmpty_eq_false_iff] at hcond
        obtain ⟨⟨⟨⟨_, hfl⟩, hq0⟩, _⟩, hne⟩ := hcond
        obtain ⟨t, ht⟩ := List.exists_mem_of_ne_nil _ hne
        rcases hm.cov hfl t ht with hd | ⟨rid, r, hr, hf, hs, _⟩
        · have hq0' : s.sendq.length = 0 := hq0
          rw [List.length_eq_zero_iff.mp hq0'] at hd; cases hd
        · have := hc.2 r (List.mem_of_getElem? hr)
          simp [Req.notifyPending, hf, hs] at this
      · refine InvM.mk' cfg a .quiet _ _ ?_ ?_ hm.inprog
        · intro hfl t ht
          exact hm.cov hfl t (mustAfter_sub a _ _ (by simp) t ht).1
        · rw [unans_plain a _ _ _ (by simp) (by simp) rfl]; exact hm.unsub
    · rename_i hc; simp [hc] at hen

/-! ### whole histories -/

theorem spec12_trace (cfg : Cfg) (hmax : 2 ≤ cfg.max) : ∀ (ops : List Op) (a : Acc) (s : St) (idx : Nat),
    Inv cfg a s → Inv12 cfg a s → InvM cfg a s → opsOk cfg s ops = true →
      specGo12 cfg a idx (comp.trace cfg s ops) = .ok := by
  intro ops
  induction ops with
  | nil => intros; rfl
  | cons op ops ih =>
    intro a s idx h h12 hm hok
    simp only [opsOk, Bool.and_eq_true] at hok
    obtain ⟨hen, hrest⟩ := hok
    obtain ⟨hv, hinv⟩ := Inv_step cfg a s op idx hmax h hen
    obtain ⟨hv12, hinv12⟩ := Inv12_step cfg a s op idx h h12 hen
    obtain ⟨hvm, hinvm⟩ := InvM_step cfg a s op idx h h12 hm hen
    simp only [TComp.trace, comp, specGo12, Verdict_and_ok]
    exact ⟨⟨⟨hv, hv12⟩, hvm⟩, ih _ _ (idx + 1) hinv hinv12 hinvm hrest⟩

theorem InvM_trace (cfg : Cfg) (hmax : 2 ≤ cfg.max) : ∀ (ops : List Op) (a : Acc) (s : St),
    Inv cfg a s → Inv12 cfg a s → InvM cfg a s → opsOk cfg s ops = true →
      InvM cfg (accAfter a (comp.trace cfg s ops)) (reachFrom cfg s ops) := by
  intro ops
  induction ops with
  | nil => intro a s _ _ h _; exact h
  | cons op ops ih =>
    intro a s h h12 hm hok
    simp only [opsOk, Bool.and_eq_true] at hok
    obtain ⟨hen, hrest⟩ := hok
    obtain ⟨_, hinv⟩ := Inv_step cfg a s op 0 hmax h hen
    obtain ⟨_, hinv12⟩ := Inv12_step cfg a s op 0 h h12 hen
    obtain ⟨_, hinvm⟩ := InvM_step cfg a s op 0 h h12 hm hen
    simp only [TComp.trace, comp, accAfter, reachFrom, List.foldl_cons]
    exact ih _ _ hinv hinv12 hinvm hrest

/-! ### reading `must` off a history -/

/-- the tags for which, according to the observations, a Tdiscarded is still to be seen -/
def mustAfterHist (cfg : Cfg) (h : List (Op × Obs)) : List Nat := (accAfter (Acc.init cfg) h).must

/-- a `write` call is in progress at the end of the history -/
def writeInProgress (cfg : Cfg) (h : List (Op × Obs)) : Bool := (accAfter (Acc.init cfg) h).inprog

/-- a written, unanswered pair stays until the peer answers its tag or the connection is replaced -/
theorem unans_persist (p : Nat × Nat) : ∀ (h : List (Op × Obs)) (a : Acc), (∀ q ∈ h, q.1 ≠ .reopen) →
    (∀ q ∈ h, ∀ m, q.1 ≠ .process m p.1) → p ∈ a.unans → p ∈ (accAfter a h).unans := by
  intro h
  induction h with
  | nil => intro a _ _ hp; exact hp
  | cons q h ih =>
    intro a hno hna hp
    simp only [accAfter, List.foldl_cons]
    refine ih _ (fun x hx => hno x (List.mem_cons_of_mem _ hx)) (fun x hx => hna x (List.mem_cons_of_mem _ hx)) ?_
    have h1 := hno q (by simp)
    have h2 := hna q (by simp)
    obtain ⟨op, o⟩ := q
    cases op with
    | reopen => exact absurd rfl h1
    | process m t =>
      rw [after_pairs_process]
      apply List.mem_append_left
      simp only [List.mem_filter, bne_iff_ne, ne_eq]
      refine ⟨hp, ?_⟩
      intro e; exact h2 m (by rw [e])
    | req e p' => rw [after_pairs_other _ _ _ (by simp) (by simp)]; exact List.mem_append_left _ hp
    | fire rid => rw [after_pairs_other _ _ _ (by simp) (by simp)]; exact List.mem_append_left _ hp
    | send => rw [after_pairs_other _ _ _ (by simp) (by simp)]; exact List.mem_append_left _ hp
    | notify rid => rw [after_pairs_other _ _ _ (by simp) (by simp)]; exact List.mem_append_left _ hp
    | ping => rw [after_pairs_other _ _ _ (by simp) (by simp)]; exact List.mem_append_left _ hp
    | wbegin => rw [after_pairs_other _ _ _ (by simp) (by simp)]; exact List.mem_append_left _ hp
    | wend => rw [after_pairs_other _ _ _ (by simp) (by simp)]; exact List.mem_append_left _ hp
    | quiet => rw [after_pairs_other _ _ _ (by simp) (by simp)]; exact List.mem_append_left _ hp

/-- a tag in `must` that is gone at the end of a history without re-open and without a peer
    frame on that tag was settled by a written Tdiscarded naming it -/
theorem must_consumed (t : Nat) : ∀ (h : List (Op × Obs)) (a : Acc), (∀ q ∈ h, q.1 ≠ .reopen) →
    (∀ q ∈ h, ∀ m, q.1 ≠ .process m t) → t ∈ a.must → t ∉ (accAfter a h).must →
      ∃ q ∈ h, t ∈ discTags q.2.wrote := by
  intro h
  induction h with
  | nil => intro a _ _ h1 h2; exact absurd h1 h2
  | cons q h ih =>
    intro a hno hna h1 h2
    by_cases hd : t ∈ discTags q.2.wrote
    · exact ⟨q, by simp, hd⟩
    · have hin : t ∈ (a.after q.1 q.2).must := by
        rw [after_must]
        have hn1 := hno q (by simp)
        have hn2 := hna q (by simp)
        obtain ⟨op, o⟩ := q
        cases op with
        | reopen => exact absurd rfl hn1
        | process m t' =>
          simp only [mustAfter]
          refine mem_dropDiscarded.mpr ⟨?_, hd⟩
          simp only [List.mem_filter, bne_iff_ne, ne_eq]
          exact ⟨h1, fun e => hn2 m (by rw [e])⟩
        | fire rid =>
          simp only [mustAfter]
          exact mem_dropDiscarded.mpr ⟨List.mem_append_left _ h1, hd⟩
        | req e p' => exact mem_dropDiscarded.mpr ⟨h1, hd⟩
        | send => exact mem_dropDiscarded.mpr ⟨h1, hd⟩
        | notify rid => exact mem_dropDiscarded.mpr ⟨h1, hd⟩
        | ping => exact mem_dropDiscarded.mpr ⟨h1, hd⟩
        | wbegin => exact mem_dropDiscarded.mpr ⟨h1, hd⟩
        | wend => exact mem_dropDiscarded.mpr ⟨h1, hd⟩
        | quiet => exact mem_dropDiscarded.mpr ⟨h1, hd⟩
      simp only [accAfter, List.foldl_cons] at h2
      obtain ⟨x, hx, hxd⟩ := ih _ (fun x hx => hno x (List.mem_cons_of_mem _ hx))
        (fun x hx => hna x (List.mem_cons_of_mem _ hx)) hin h2
      exact ⟨x, List.mem_cons_of_mem _ hx, hxd⟩

/-- `specObsM` accepts a `quiet` step exactly when nothing is due at an idle, empty, unblocked point -/
theorem specObsM_quiet_ok (cfg : Cfg) (a : Acc) (idx : Nat) (o : Obs) (h : specObsM cfg a idx .quiet o = .ok)
    (hfl : cfg.fl = .thriftmux) (hq : o.qlen = 0) (hin : a.inprog = false) : a.must = [] := by
  unfold specObsM at h
  by_cases hne : a.must = []
  · exact hne
  · have : a.must.isEmpty = false := by simpa using hne
    simp [hfl, hq, hin, this] at h

end Scales.TagPool
