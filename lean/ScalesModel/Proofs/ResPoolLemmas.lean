/-
  Proofs/ResPoolLemmas.lean — the resurrector/pool/transport chain: what every schedule of each
  operation does to each quiescent state (by exhaustive exploration, checked by the kernel), and
  the coupling of the model with the specification automaton.
-/
import ScalesModel.Proofs.ResChainLemmas
import ScalesModel.Proofs.ResBackoff
namespace Scales.Pool
open Scales.Chain
open Scales.Res (Par Cfg nextWait cfgWF)

/-- a property of all explored final states holds for the result of every schedule -/
theorem drain_all (c0 : C) (P : C → Bool)
    (h : (explore fuel c0).map (fun l => l.all P) = some true) (sched : List Nat) :
    P (drain c0 sched) = true := by
  cases he : explore fuel c0 with
  | none => simp [he] at h
  | some fs =>
    simp only [he, Option.map_some, Option.some.injEq] at h
    exact List.all_eq_true.mp h _ (drain_mem c0 fs he sched)

/-- what the outside sees of a finished run -/
structure Outcome where
  mode : Option Mode
  connects : Nat
  resp : RespK
  slp : Slp
  deriving DecidableEq, Repr

def outcome (c : C) : Outcome := ⟨classify c, c.connects, c.resp, c.slp⟩

theorem T_open (r : Bool) (sched : List Nat) :
    outcome (drain (opOpen (canon .idle r)) sched) =
      ⟨some (if r then .up else .down), 1, .none, if r then .none else .fresh⟩ := by
  cases r
  · have := drain_all (opOpen (canon .idle false))
      (fun c => decide (outcome c = ⟨some .down, 1, .none, .fresh⟩)) (by decide) sched
    simpa using this
  · have := drain_all (opOpen (canon .idle true))
      (fun c => decide (outcome c = ⟨some .up, 1, .none, .none⟩)) (by decide) sched
    simpa using this

theorem T_req_up (r eof : Bool) (sched : List Nat) :
    outcome (drain (opReq (canon .up r) eof) sched) =
      ⟨some (if eof then .down else .up), 0, if eof then .err else .ok, if eof then .fresh else .none⟩ := by
  cases r <;> cases eof
  · have := drain_all (opReq (canon .up false) false)
      (fun c => decide (outcome c = ⟨some .up, 0, .ok, .none⟩)) (by decide) sched
    simpa using this
  · have := drain_all (opReq (canon .up false) true)
      (fun c => decide (outcome c = ⟨some .down, 0, .err, .fresh⟩)) (by decide) sched
    simpa using this
  · have := drain_all (opReq (canon .up true) false)
      (fun c => decide (outcome c = ⟨some .up, 0, .ok, .none⟩)) (by decide) sched
    simpa using this
  · have := drain_all (opReq (canon .up true) true)
      (fun c => decide (outcome c = ⟨some .down, 0, .err, .fresh⟩)) (by decide) sched
    simpa using this

theorem T_req_down (r eof : Bool) (sched : List Nat) :
    outcome (drain (opReq (canon .down r) eof) sched) = ⟨some .down, 0, .ff, .none⟩ := by
  cases r <;> cases eof
  · have := drain_all (opReq (canon .down false) false)
      (fun c => decide (outcome c = ⟨some .down, 0, .ff, .none⟩)) (by decide) sched
    simpa using this
  · have := drain_all (opReq (canon .down false) true)
      (fun c => decide (outcome c = ⟨some .down, 0, .ff, .none⟩)) (by decide) sched
    simpa using this
  · have := drain_all (opReq (canon .down true) false)
      (fun c => decide (outcome c = ⟨some .down, 0, .ff, .none⟩)) (by decide) sched
    simpa using this
  · have := drain_all (opReq (canon .down true) true)
      (fun c => decide (outcome c = ⟨some .down, 0, .ff, .none⟩)) (by decide) sched
    simpa using this

theorem T_wake (r : Bool) (sched : List Nat) :
    outcome (drain (opWake (canon .down r)) sched) =
      ⟨some (if r then .up else .down), 1, .none, if r then .none else .backoff⟩ := by
  cases r
  · have := drain_all (opWake (canon .down false))
      (fun c => decide (outcome c = ⟨some .down, 1, .none, .backoff⟩)) (by decide) sched
    simpa using this
  · have := drain_all (opWake (canon .down true))
      (fun c => decide (outcome c = ⟨some .up, 1, .none, .none⟩)) (by decide) sched
    simpa using this

theorem T_close_up (r : Bool) (sched : List Nat) :
    outcome (drain (opClose (canon .up r)) sched) = ⟨some .shutU, 0, .none, .none⟩ := by
  cases r
  · have := drain_all (opClose (canon .up false))
      (fun c => decide (outcome c = ⟨some .shutU, 0, .none, .none⟩)) (by decide) sched
    simpa using this
  · have := drain_all (opClose (canon .up true))
      (fun c => decide (outcome c = ⟨some .shutU, 0, .none, .none⟩)) (by decide) sched
    simpa using this

theorem T_close_down (r : Bool) (sched : List Nat) :
    outcome (drain (opClose (canon .down r)) sched) = ⟨some .shutD, 0, .none, .none⟩ := by
  cases r
  · have := drain_all (opClose (canon .down false))
      (fun c => decide (outcome c = ⟨some .shutD, 0, .none, .none⟩)) (by decide) sched
    simpa using this
  · have := drain_all (opClose (canon .down true))
      (fun c => decide (outcome c = ⟨some .shutD, 0, .none, .none⟩)) (by decide) sched
    simpa using this

end Scales.Pool

namespace Scales.Pool
open Scales.Chain
open Scales.Res (Par Cfg nextWait cfgWF)

/-- coupling of the model state with the specification automaton, at quiescence -/
structure Inv (p : Par) (s : St) (a : PS) (opened closed : Bool) : Prop where
  hnow : a.now = s.now
  hreach : closed = false → a.reach = s.reach
  hclosed : a.closed = closed
  hidle : opened = false → s.mode = some .idle ∧ a.connDown = false ∧ a.established = false ∧ closed = false
  hlive : opened = true → closed = false →
    (s.mode = some .up ∧ a.established = true ∧ a.connDown = false) ∨
    (s.mode = some .down ∧ a.connDown = true ∧ a.established = false ∧
      s.wakeAt = a.lastEnd + s.wait ∧ s.wait ≤ p.maxW ∧ s.now < s.wakeAt ∧ 0 < s.wait ∧
      ∀ d, a.lastDelay = some d → d ≤ s.wait ∧ (d < s.wait ∨ s.wait = p.maxW))
  hshut : closed = true → s.mode = some .shutU ∨ s.mode = some .shutD

/-- everything the coupling needs to know about a finished run -/
theorem settle_spec (p : Par) (s : St) (c : C) (dp dt : Nat) (oc : Outcome) (h : outcome c = oc) :
    (settle p s c dp dt).mode = oc.mode ∧ (settle p s c dp dt).now = s.now + dt ∧
    (settle p s c dp dt).reach = s.reach ∧
    (obsOf (settle p s c dp dt)).connects = oc.connects ∧ (obsOf (settle p s c dp dt)).resp = oc.resp ∧
    (obsOf (settle p s c dp dt)).quiet = oc.mode.isSome ∧
    (settle p s c dp dt).wait =
      (match oc.slp with | .fresh => p.init | .backoff => nextWait p s.wait | .none => s.wait) ∧
    (settle p s c dp dt).wakeAt =
      (match oc.slp with
       | .fresh => s.now + dt + p.init | .backoff => s.now + dt + nextWait p s.wait | .none => s.wakeAt) := by
  subst h
  unfold settle obsOf outcome
  cases c.slp <;> simp



theorem step_opn (cfg : Cfg) (hc : cfgWF cfg = true) (s : St) (a : PS) (o c : Bool) (idx : Nat)
    (sched : List Nat) (hI : Inv cfg.par s a o c) (hop : opOk s o c (.opn sched) = true) :
    ∃ a', specStep cfg a idx (.opn sched) (obsOf (stepSt cfg.par s (.opn sched))) = (.ok, a') ∧
      Inv cfg.par (stepSt cfg.par s (.opn sched)) a' true c := by
  simp only [opOk, Bool.and_eq_true, Bool.not_eq_true'] at hop
  obtain ⟨ho, hcl⟩ := hop
  subst ho; subst hcl
  obtain ⟨hm, hcd, hes, _⟩ := hI.hidle rfl
  have hstep : stepSt cfg.par s (.opn sched) =
      settle cfg.par s (drain (opOpen (canon .idle s.reach)) sched) 1 0 := by
    simp [stepSt, hm, canon]
  have hac : a.closed = false := hI.hclosed
  have hipos := Res.cfg_init_pos cfg hc
  have hile := Res.cfg_init_le cfg hc
  have hnow := hI.hnow
  have hreach := hI.hreach rfl
  by_cases hr : s.reach = true
  · rw [hr] at hstep
    obtain ⟨g1, g2, g3, g4, g5, g6, g7, g8⟩ := settle_spec cfg.par s _ 1 0 _ (T_open true sched)
    rw [← hstep] at g1 g2 g3 g4 g5 g6 g7 g8
    generalize stepSt cfg.par s (.opn sched) = s' at *
    refine ⟨{ a with established := true, connDown := false }, ?_, ?_⟩
    · simp [specStep, g4, g6, hac, hreach, hr]
    · refine ⟨by simp [g2, hnow], by simp [g3, hreach], by simp [hac], by simp, ?_, by simp⟩
      intro _ _; left; simp [g1]
  · have hr' : s.reach = false := by simpa using hr
    rw [hr'] at hstep
    obtain ⟨g1, g2, g3, g4, g5, g6, g7, g8⟩ := settle_spec cfg.par s _ 1 0 _ (T_open false sched)
    rw [← hstep] at g1 g2 g3 g4 g5 g6 g7 g8
    generalize stepSt cfg.par s (.opn sched) = s' at *
    refine ⟨{ a with connDown := true, established := false, lastEnd := a.now, lastDelay := none }, ?_, ?_⟩
    · simp [specStep, g4, g6, hac, hreach, hr']
    · refine ⟨by simp [g2, hnow], by simp [g3, hreach], by simp [hac], by simp, ?_, by simp⟩
      intro _ _; right
      simp at g7 g8
      simp [g1, g7, g8, g2, hnow]
      omega


theorem step_req (cfg : Cfg) (hc : cfgWF cfg = true) (s : St) (a : PS) (o c : Bool) (idx : Nat)
    (eof : Bool) (sched : List Nat) (hI : Inv cfg.par s a o c) (hop : opOk s o c (.req eof sched) = true) :
    ∃ a', specStep cfg a idx (.req eof sched) (obsOf (stepSt cfg.par s (.req eof sched))) = (.ok, a') ∧
      Inv cfg.par (stepSt cfg.par s (.req eof sched)) a' o c := by
  simp only [opOk, Bool.and_eq_true, Bool.not_eq_true'] at hop
  obtain ⟨ho, hcl⟩ := hop
  subst ho; subst hcl
  have hac : a.closed = false := hI.hclosed
  have hipos := Res.cfg_init_pos cfg hc
  have hile := Res.cfg_init_le cfg hc
  have hnow := hI.hnow
  have hreach := hI.hreach rfl
  rcases hI.hlive rfl rfl with ⟨hm, hes, hcd⟩ | ⟨hm, hcd, hes, hwk, hwm, hlt, hwpos, hld⟩
  · -- up
    have hstep : stepSt cfg.par s (.req eof sched) =
        settle cfg.par s (drain (opReq (canon .up s.reach) eof) sched) 0 0 := by
      simp [stepSt, hm]
    obtain ⟨g1, g2, g3, g4, g5, g6, g7, g8⟩ := settle_spec cfg.par s _ 0 0 _ (T_req_up s.reach eof sched)
    rw [← hstep] at g1 g2 g3 g4 g5 g6 g7 g8
    generalize stepSt cfg.par s (.req eof sched) = s' at *
    cases eof with
    | false =>
      refine ⟨a, ?_, ?_⟩
      · simp [specStep, g4, g5, g6, hac, hcd, hes]
      · refine ⟨by simp [g2, hnow], by simp [g3, hreach], hac, by simp, ?_, by simp⟩
        intro _ _; left; simp [g1, hes, hcd]
    | true =>
      refine ⟨{ a with connDown := true, established := false, lastEnd := a.now, lastDelay := none }, ?_, ?_⟩
      · simp [specStep, g4, g5, g6, hac, hcd, hes]
      · refine ⟨by simp [g2, hnow], by simp [g3, hreach], by simp [hac], by simp, ?_, by simp⟩
        intro _ _; right
        simp at g7 g8
        simp [g1, g7, g8, g2, hnow]
        omega
  · -- down
    have hstep : stepSt cfg.par s (.req eof sched) =
        settle cfg.par s (drain (opReq (canon .down s.reach) eof) sched) 0 0 := by
      simp [stepSt, hm]
    obtain ⟨g1, g2, g3, g4, g5, g6, g7, g8⟩ := settle_spec cfg.par s _ 0 0 _ (T_req_down s.reach eof sched)
    rw [← hstep] at g1 g2 g3 g4 g5 g6 g7 g8
    generalize stepSt cfg.par s (.req eof sched) = s' at *
    refine ⟨a, ?_, ?_⟩
    · have : ¬ (max a.reachSince a.lastEnd + cfg.maxW ≤ a.now) := by
        have : cfg.par.maxW = cfg.maxW := rfl
        omega
      simp [specStep, g4, g5, g6, hac, hcd, this]
    · refine ⟨by simp [g2, hnow], by simp [g3, hreach], hac, by simp, ?_, by simp⟩
      intro _ _; right
      simp at g7 g8
      simp [g1, g7, g8, g2, hcd, hes]
      exact ⟨hwk, hwm, hlt, hwpos, hld⟩

theorem step_close (cfg : Cfg) (s : St) (a : PS) (o c : Bool) (idx : Nat)
    (sched : List Nat) (hI : Inv cfg.par s a o c) (hop : opOk s o c (.close sched) = true) :
    ∃ a', specStep cfg a idx (.close sched) (obsOf (stepSt cfg.par s (.close sched))) = (.ok, a') ∧
      Inv cfg.par (stepSt cfg.par s (.close sched)) a' o true := by
  simp only [opOk, Bool.and_eq_true, Bool.not_eq_true'] at hop
  obtain ⟨ho, hcl⟩ := hop
  subst ho; subst hcl
  have hac : a.closed = false := hI.hclosed
  have hnow := hI.hnow
  have hreach := hI.hreach rfl
  rcases hI.hlive rfl rfl with ⟨hm, hes, hcd⟩ | ⟨hm, hcd, hes, hwk, hwm, hlt, hwpos, hld⟩
  · have hstep : stepSt cfg.par s (.close sched) =
        settle cfg.par s (drain (opClose (canon .up s.reach)) sched) 0 0 := by
      simp [stepSt, hm]
    obtain ⟨g1, g2, g3, g4, g5, g6, g7, g8⟩ := settle_spec cfg.par s _ 0 0 _ (T_close_up s.reach sched)
    rw [← hstep] at g1 g2 g3 g4 g5 g6 g7 g8
    generalize stepSt cfg.par s (.close sched) = s' at *
    refine ⟨{ a with closed := true }, ?_, ?_⟩
    · simp [specStep, g4, g6, hac]
    · exact ⟨by simp [g2, hnow], by simp [g3, hreach], by simp, by simp, by simp, by simp [g1]⟩
  · have hstep : stepSt cfg.par s (.close sched) =
        settle cfg.par s (drain (opClose (canon .down s.reach)) sched) 0 0 := by
      simp [stepSt, hm]
    obtain ⟨g1, g2, g3, g4, g5, g6, g7, g8⟩ := settle_spec cfg.par s _ 0 0 _ (T_close_down s.reach sched)
    rw [← hstep] at g1 g2 g3 g4 g5 g6 g7 g8
    generalize stepSt cfg.par s (.close sched) = s' at *
    refine ⟨{ a with closed := true }, ?_, ?_⟩
    · simp [specStep, g4, g6, hac]
    · exact ⟨by simp [g2, hnow], by simp [g3, hreach], by simp, by simp, by simp, by simp [g1]⟩

theorem step_reach (cfg : Cfg) (s : St) (a : PS) (o c : Bool) (idx : Nat)
    (up : Bool) (hI : Inv cfg.par s a o c) :
    ∃ a', specStep cfg a idx (.reach up) (obsOf (stepSt cfg.par s (.reach up))) = (.ok, a') ∧
      Inv cfg.par (stepSt cfg.par s (.reach up)) a' o c := by
  have hq : (obsOf (stepSt cfg.par s (.reach up))).quiet = s.mode.isSome := by simp [stepSt, obsOf]
  have hcn : (obsOf (stepSt cfg.par s (.reach up))).connects = 0 := by simp [stepSt, obsOf, begin]
  have hmode : s.mode.isSome = true := by
    cases o with
    | false => simp [(hI.hidle rfl).1]
    | true =>
      cases c with
      | false => rcases hI.hlive rfl rfl with ⟨hm, _⟩ | ⟨hm, _⟩ <;> simp [hm]
      | true => rcases hI.hshut rfl with hm | hm <;> simp [hm]
  cases c with
  | true =>
    have hcl : a.closed = true := hI.hclosed
    refine ⟨a, by simp [specStep, hq, hmode, hcl, hcn], ?_⟩
    exact ⟨by simp [stepSt, hI.hnow], (by intro h; cases h), hI.hclosed, by simpa [stepSt] using hI.hidle,
      by simpa [stepSt] using hI.hlive, by simpa [stepSt] using hI.hshut⟩
  | false =>
    have hcl : a.closed = false := hI.hclosed
    refine ⟨{ a with reach := up, reachSince := a.now }, by simp [specStep, hq, hmode, hcl], ?_⟩
    exact ⟨by simp [stepSt, hI.hnow], by simp [stepSt], by simp [hcl],
      by simpa [stepSt] using hI.hidle, by simpa [stepSt] using hI.hlive, by simpa [stepSt] using hI.hshut⟩


theorem step_tick (cfg : Cfg) (hc : cfgWF cfg = true) (s : St) (a : PS) (o c : Bool) (idx : Nat)
    (d : Nat) (sched : List Nat) (hI : Inv cfg.par s a o c) (hop : opOk s o c (.tick d sched) = true) :
    ∃ a', specStep cfg a idx (.tick d sched) (obsOf (stepSt cfg.par s (.tick d sched))) = (.ok, a') ∧
      Inv cfg.par (stepSt cfg.par s (.tick d sched)) a' o c := by
  simp only [opOk, Bool.and_eq_true, Bool.or_eq_true, decide_eq_true_eq] at hop
  obtain ⟨hd, hwf⟩ := hop
  have hnow := hI.hnow
  have hf := Res.cfg_grows cfg hc
  -- the case without a wake
  have nowake : (s.mode.isSome = true) → (∀ m, s.mode = some m → ¬ (m = .down ∧ s.wakeAt ≤ s.now + d)) →
      (c = false → o = true → s.mode = some .down → False) →
      ∃ a', specStep cfg a idx (.tick d sched) (obsOf (stepSt cfg.par s (.tick d sched))) = (.ok, a') ∧
        Inv cfg.par (stepSt cfg.par s (.tick d sched)) a' o c := by
    intro hsome hno hnd
    obtain ⟨m, hm⟩ := Option.isSome_iff_exists.mp hsome
    have hstep : stepSt cfg.par s (.tick d sched) = { s with now := s.now + d, last := begin s.last } := by
      simp [stepSt, hm, hno m hm]
    rw [hstep]
    refine ⟨{ a with now := a.now + d }, ?_, ?_⟩
    · cases hcl : a.closed <;> simp [specStep, obsOf, begin, hm, hcl]
    · refine ⟨by simp [hnow], by simpa using hI.hreach, by simpa using hI.hclosed, by simpa using hI.hidle, ?_,
        by simpa using hI.hshut⟩
      intro h1 h2
      rcases hI.hlive h1 h2 with h | ⟨hm', _⟩
      · left; simpa using h
      · exact (hnd h2 h1 hm').elim
  cases o with
  | false =>
    have hm := (hI.hidle rfl).1
    exact nowake (by simp [hm]) (by intro m h; simp [hm] at h; subst h; simp) (by intro _ h; cases h)
  | true =>
    cases c with
    | true =>
      rcases hI.hshut rfl with hm | hm
      · exact nowake (by simp [hm]) (by intro m h; simp [hm] at h; subst h; simp) (by intro h; cases h)
      · exact nowake (by simp [hm]) (by intro m h; simp [hm] at h; subst h; simp) (by intro h; cases h)
    | false =>
      have hac : a.closed = false := hI.hclosed
      have hreach := hI.hreach rfl
      rcases hI.hlive rfl rfl with ⟨hm, hes, hcd⟩ | ⟨hm, hcd, hes, hwk, hwm, hlt, hwpos, hld⟩
      · -- up: nothing happens
        have hstep : stepSt cfg.par s (.tick d sched) = { s with now := s.now + d, last := begin s.last } := by
          simp [stepSt, hm]
        rw [hstep]
        refine ⟨{ a with now := a.now + d }, ?_, ?_⟩
        · simp [specStep, obsOf, begin, hm, hac]
        · refine ⟨by simp [hnow], by simpa using hI.hreach, by simpa using hI.hclosed, by simp, ?_, by simp⟩
          intro _ _; left; simp [hm, hes, hcd]
      · -- down
        have hle : s.now + d ≤ s.wakeAt := by
          rcases hwf with h | h
          · exact (h hm).elim
          · exact h
        by_cases hw : s.wakeAt ≤ s.now + d
        · -- the retry greenlet wakes
          have heq : s.now + d = s.wakeAt := by omega
          have hstep : stepSt cfg.par s (.tick d sched) =
              settle cfg.par s (drain (opWake (canon .down s.reach)) sched) 1 d := by
            simp [stepSt, hm, hw]
          have hmw : cfg.par.maxW = cfg.maxW := rfl
          by_cases hr : s.reach = true
          · rw [hr] at hstep
            obtain ⟨g1, g2, g3, g4, g5, g6, g7, g8⟩ := settle_spec cfg.par s _ 1 d _ (T_wake true sched)
            rw [← hstep] at g1 g2 g3 g4 g5 g6 g7 g8
            generalize stepSt cfg.par s (.tick d sched) = s' at *
            refine ⟨{ a with now := a.now + d, established := true, connDown := false, lastDelay := none }, ?_, ?_⟩
            · have h1 : ¬ (cfg.maxW < a.now + d - a.lastEnd) := by omega
              have h2 : (match a.lastDelay with
                  | some p => decide (a.now + d - a.lastEnd < p) ||
                      (decide (a.now + d - a.lastEnd = p) && decide (p < cfg.maxW))
                  | none => false) = false := by
                cases hl : a.lastDelay with
                | none => rfl
                | some p =>
                  obtain ⟨x2, x3⟩ := hld p hl
                  have hdl : a.now + d - a.lastEnd = s.wait := by omega
                  rw [hdl]
                  simp only [Bool.or_eq_false_iff, Bool.and_eq_false_iff, decide_eq_false_iff_not]
                  refine ⟨by omega, ?_⟩
                  by_cases hpw : p = s.wait
                  · right; rcases x3 with x3 | x3 <;> omega
                  · left; omega
              simp [specStep, g4, g6, hac, hcd, h1, hreach, hr]; exact h2
            · refine ⟨by simp [g2, hnow], by simp [g3, hreach], by simp [hac], by simp, ?_, by simp⟩
              intro _ _; left; simp [g1]
          · have hr' : s.reach = false := by simpa using hr
            rw [hr'] at hstep
            obtain ⟨g1, g2, g3, g4, g5, g6, g7, g8⟩ := settle_spec cfg.par s _ 1 d _ (T_wake false sched)
            rw [← hstep] at g1 g2 g3 g4 g5 g6 g7 g8
            generalize stepSt cfg.par s (.tick d sched) = s' at *
            refine ⟨{ a with now := a.now + d, lastEnd := a.now + d, lastDelay := some (a.now + d - a.lastEnd) }, ?_, ?_⟩
            · have h1 : ¬ (cfg.maxW < a.now + d - a.lastEnd) := by omega
              have h2 : (match a.lastDelay with
                  | some p => decide (a.now + d - a.lastEnd < p) ||
                      (decide (a.now + d - a.lastEnd = p) && decide (p < cfg.maxW))
                  | none => false) = false := by
                cases hl : a.lastDelay with
                | none => rfl
                | some p =>
                  obtain ⟨x2, x3⟩ := hld p hl
                  have hdl : a.now + d - a.lastEnd = s.wait := by omega
                  rw [hdl]
                  simp only [Bool.or_eq_false_iff, Bool.and_eq_false_iff, decide_eq_false_iff_not]
                  refine ⟨by omega, ?_⟩
                  by_cases hpw : p = s.wait
                  · right; rcases x3 with x3 | x3 <;> omega
                  · left; omega
              simp [specStep, g4, g6, hac, hcd, h1, hreach, hr']; exact h2
            · refine ⟨by simp [g2, hnow], by simp [g3, hreach], by simp [hac], by simp, ?_, by simp⟩
              intro _ _; right
              simp at g7 g8
              have hge := Res.le_nextWait cfg.par hf s.wait hwm
              have hmx := Res.nextWait_le_max cfg.par s.wait
              simp [g1, g7, g8, g2, hnow, hcd, hes]
              refine ⟨hmx, by omega, by omega, ?_⟩
              rcases Res.nextWait_strict cfg.par hf s.wait hwm with hs | hs
              · left; omega
              · right; exact hs
        · -- not yet
          have hstep : stepSt cfg.par s (.tick d sched) = { s with now := s.now + d, last := begin s.last } := by
            simp [stepSt, hm, hw]
          rw [hstep]
          refine ⟨{ a with now := a.now + d }, ?_, ?_⟩
          · simp [specStep, obsOf, begin, hm, hac]
          · refine ⟨by simp [hnow], by simpa using hI.hreach, by simpa using hI.hclosed, by simp, ?_, by simp⟩
            intro _ _; right
            simp [hm, hcd, hes]
            exact ⟨hwk, hwm, by omega, hwpos, hld⟩

theorem step_ok (cfg : Cfg) (hc : cfgWF cfg = true) (s : St) (a : PS) (o c : Bool) (idx : Nat) (op : Op)
    (hI : Inv cfg.par s a o c) (hop : opOk s o c op = true) :
    ∃ a', specStep cfg a idx op (obsOf (stepSt cfg.par s op)) = (.ok, a') ∧
      Inv cfg.par (stepSt cfg.par s op) a' (o || isOpn op) (c || isClose op) := by
  cases op with
  | opn sched => simpa [isOpn, isClose] using step_opn cfg hc s a o c idx sched hI hop
  | req eof sched => simpa [isOpn, isClose] using step_req cfg hc s a o c idx eof sched hI hop
  | reach up => simpa [isOpn, isClose] using step_reach cfg s a o c idx up hI
  | tick d sched => simpa [isOpn, isClose] using step_tick cfg hc s a o c idx d sched hI hop
  | close sched => simpa [isOpn, isClose] using step_close cfg s a o c idx sched hI hop

theorem spec_trace (cfg : Cfg) (hc : cfgWF cfg = true) (ops : List Op) :
    ∀ (s : St) (a : PS) (o c : Bool) (idx : Nat), Inv cfg.par s a o c →
      wfGo cfg.par s o c ops = true → specGo cfg a idx (comp.trace cfg s ops) = .ok := by
  induction ops with
  | nil => intro s a o c idx _ _; rfl
  | cons op ops ih =>
    intro s a o c idx hI hwf
    simp only [wfGo, Bool.and_eq_true] at hwf
    obtain ⟨a', hs, hI'⟩ := step_ok cfg hc s a o c idx op hI hwf.1
    have htr : comp.trace cfg s (op :: ops) =
        (op, obsOf (stepSt cfg.par s op)) :: comp.trace cfg (stepSt cfg.par s op) ops := by
      simp [TComp.trace, comp, step]
    rw [htr]
    simp only [specGo, hs]
    exact ih _ a' _ _ _ hI' hwf.2

theorem inv_init (p : Par) : Inv p {} {} false false :=
  ⟨rfl, fun _ => rfl, rfl, fun _ => ⟨rfl, rfl, rfl, rfl⟩, (fun h => by cases h), (fun h => by cases h)⟩

end Scales.Pool

namespace Scales.Chain

theorem run_quiescent_mem (n : Nat) (c : C) (fs : List C) (h : explore n c = some fs) (picks : List Nat)
    (hq : (run c picks).tasks.length = 0) : run c picks ∈ fs := by
  have := (explore_sound n c fs h (picks ++ List.replicate n 0) (by simp)).1
  rwa [← run_append, run_quiet _ hq] at this

theorem all_learned (c0 : C) (h : (explore fuel c0).map (fun l => l.all (fun c => decide (learned c))) = some true)
    (picks : List Nat) :
    (fuel ≤ picks.length → (run c0 picks).tasks = []) ∧
    ((run c0 picks).tasks = [] → learned (run c0 picks)) := by
  cases he : explore fuel c0 with
  | none => simp [he] at h
  | some fs =>
    simp only [he, Option.map_some, Option.some.injEq] at h
    constructor
    · intro hl
      exact List.eq_nil_of_length_eq_zero (explore_sound fuel c0 fs he picks hl).2
    · intro hq
      have hm := run_quiescent_mem fuel c0 fs he picks (by rw [hq]; rfl)
      simpa using List.all_eq_true.mp h _ hm


end Scales.Chain
