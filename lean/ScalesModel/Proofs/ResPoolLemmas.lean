/-
  Proofs/ResPoolLemmas.lean — the resurrector/pool/transport chain: what every schedule of each
  operation does to each quiescent state, for every pair of watermarks (by exhaustive exploration
  of the nine clamped pairs, checked by the kernel, and `explore_sound`), and the coupling of the
  model with the specification automaton.
-/
import ScalesModel.Proofs.ResChainLemmas
import ScalesModel.Proofs.ResBackoff
namespace Scales.Pool
open Scales.Chain
open Scales.Res (Par nextWait)

/-- the clamped watermark pairs with `hi ≥ 1` -/
def allWM : List WM := [⟨0, 1⟩, ⟨0, 2⟩, ⟨0, 3⟩, ⟨1, 1⟩, ⟨1, 2⟩, ⟨1, 3⟩, ⟨2, 1⟩, ⟨2, 2⟩, ⟨2, 3⟩]

theorem clamp_mem (w : WM) (h : 1 ≤ w.hi) : clampWM w ∈ allWM := by
  have h1 : min w.lo 2 = 0 ∨ min w.lo 2 = 1 ∨ min w.lo 2 = 2 := by omega
  have h2 : min w.hi 3 = 1 ∨ min w.hi 3 = 2 ∨ min w.hi 3 = 3 := by omega
  unfold clampWM allWM
  rcases h1 with h1 | h1 | h1 <;> rcases h2 with h2 | h2 | h2 <;> rw [h1, h2] <;> simp

/-- does the pool keep an idle connection (`min_watermark ≥ 1`) -/
def keep (w : WM) : Bool := decide (1 ≤ w.lo)

@[simp] theorem keep_clamp (w : WM) : keep (clampWM w) = keep w := by
  have : (1 ≤ min w.lo 2) ↔ (1 ≤ w.lo) := by omega
  simp [keep, clampWM, this]

@[simp] theorem canon_clamp (w : WM) (m : Mode) (r : Bool) : canon (clampWM w) m r = canon w m r := by
  have : (1 ≤ (clampWM w).lo) ↔ (1 ≤ w.lo) := by simp only [clampWM]; omega
  cases m <;> simp only [canon, this]

@[simp] theorem classify_clamp (w : WM) (c : C) : classify (clampWM w) c = classify w c := by
  have h1 : (1 ≤ (clampWM w).lo) ↔ (1 ≤ w.lo) := by simp only [clampWM]; omega
  have h2 : ((clampWM w).lo = 0) ↔ (w.lo = 0) := by simp only [clampWM]; omega
  simp only [classify, h1, h2]

/-- a property of all final states explored for the nine clamped pairs holds for the result of
    every schedule under every pair of watermarks with `hi ≥ 1` -/
theorem drain_all (w : WM) (hw : 1 ≤ w.hi) (mk : WM → C) (P : WM → C → Bool)
    (hmk : mk (clampWM w) = mk w) (hP : ∀ c, P (clampWM w) c = P w c)
    (h : allWM.all (fun v => decide ((explore v fuel (mk v)).map (fun l => l.all (P v)) = some true)) = true)
    (sched : List Nat) : P w (drain w (mk w) sched) = true := by
  have hv := List.all_eq_true.mp h _ (clamp_mem w hw)
  simp only [decide_eq_true_eq] at hv
  cases he : explore (clampWM w) fuel (mk (clampWM w)) with
  | none => simp [he] at hv
  | some fs =>
    simp only [he, Option.map_some, Option.some.injEq] at hv
    rw [hmk] at he
    have := List.all_eq_true.mp hv _ (drain_mem w (mk w) fs he sched)
    rwa [hP] at this

/-- what the outside sees of a finished run -/
structure Outcome where
  mode : Option Mode
  connects : Nat
  resp : RespK
  slp : Slp
  deriving DecidableEq, Repr

def outcome (w : WM) (c : C) : Outcome := ⟨classify w c, c.connects, c.resp, c.slp⟩

@[simp] theorem outcome_clamp (w : WM) (c : C) : outcome (clampWM w) c = outcome w c := by
  simp [outcome]

theorem T_open (w : WM) (hw : 1 ≤ w.hi) (r : Bool) (sched : List Nat) :
    outcome w (drain w (opOpen (canon w .idle r)) sched) =
      ⟨some (if r then .up else .down), 1, .none, if r then .none else .fresh⟩ := by
  have := drain_all w hw (fun v => opOpen (canon v .idle r))
    (fun v c => decide (outcome v c = ⟨some (if r then .up else .down), 1, .none, if r then .none else .fresh⟩))
    (by simp) (by intro c; simp) (by cases r <;> decide) sched
  simpa using this

/-- did the request meet a connection failure: the peer closed the connection instead of
    answering, or (no kept connection) the connect the request made itself was refused -/
def reqFails (w : WM) (r eof : Bool) : Bool := eof || (!keep w && !r)

theorem T_req_up (w : WM) (hw : 1 ≤ w.hi) (r eof : Bool) (sched : List Nat) :
    outcome w (drain w (opReq (canon w .up r) eof) sched) =
      ⟨some (if reqFails w r eof then .down else .up), if keep w then 0 else 1,
       if reqFails w r eof then .err else .ok, if reqFails w r eof then .fresh else .none⟩ := by
  have := drain_all w hw (fun v => opReq (canon v .up r) eof)
    (fun v c => decide (outcome v c =
      ⟨some (if reqFails v r eof then .down else .up), if keep v then 0 else 1,
       if reqFails v r eof then .err else .ok, if reqFails v r eof then .fresh else .none⟩))
    (by simp) (by intro c; simp [reqFails]) (by cases r <;> cases eof <;> decide) sched
  simpa using this

theorem T_req_down (w : WM) (hw : 1 ≤ w.hi) (r eof : Bool) (sched : List Nat) :
    outcome w (drain w (opReq (canon w .down r) eof) sched) = ⟨some .down, 0, .ff, .none⟩ := by
  have := drain_all w hw (fun v => opReq (canon v .down r) eof)
    (fun v c => decide (outcome v c = ⟨some .down, 0, .ff, .none⟩))
    (by simp) (by intro c; simp) (by cases r <;> cases eof <;> decide) sched
  simpa using this

theorem T_wake (w : WM) (hw : 1 ≤ w.hi) (r : Bool) (sched : List Nat) :
    outcome w (drain w (opWake (canon w .down r)) sched) =
      ⟨some (if r then .up else .down), 1, .none, if r then .none else .backoff⟩ := by
  have := drain_all w hw (fun v => opWake (canon v .down r))
    (fun v c => decide (outcome v c = ⟨some (if r then .up else .down), 1, .none, if r then .none else .backoff⟩))
    (by simp) (by intro c; simp) (by cases r <;> decide) sched
  simpa using this

theorem T_close_up (w : WM) (hw : 1 ≤ w.hi) (r : Bool) (sched : List Nat) :
    outcome w (drain w (opClose (canon w .up r)) sched) = ⟨some .shutU, 0, .none, .none⟩ := by
  have := drain_all w hw (fun v => opClose (canon v .up r))
    (fun v c => decide (outcome v c = ⟨some .shutU, 0, .none, .none⟩))
    (by simp) (by intro c; simp) (by cases r <;> decide) sched
  simpa using this

theorem T_close_down (w : WM) (hw : 1 ≤ w.hi) (r : Bool) (sched : List Nat) :
    outcome w (drain w (opClose (canon w .down r)) sched) = ⟨some .shutD, 0, .none, .none⟩ := by
  have := drain_all w hw (fun v => opClose (canon v .down r))
    (fun v c => decide (outcome v c = ⟨some .shutD, 0, .none, .none⟩))
    (by simp) (by intro c; simp) (by cases r <;> decide) sched
  simpa using this

end Scales.Pool

namespace Scales.Pool
open Scales.Chain
open Scales.Res (Par nextWait)

/-- coupling of the model state with the specification automaton, at quiescence -/
structure Inv (p : Par) (s : St) (a : PS) (opened closed : Bool) : Prop where
  hnow : a.now = s.now
  hreach : closed = false → a.reach = s.reach
  hclosed : a.closed = closed
  hidle : opened = false → s.mode = some .idle ∧ a.connDown = false ∧ a.established = false ∧ closed = false
  hlive : opened = true → closed = false →
    (s.mode = some .up ∧ a.established = true ∧ a.connDown = false) ∨
    (s.mode = some .down ∧ a.connDown = true ∧ a.established = false ∧
      s.wakeAt = a.lastEnd + s.wait ∧ s.wait ≤ p.maxW ∧ s.now < s.wakeAt ∧ 0 < s.wait ∧ a.lastEnd ≤ s.now ∧
      ∀ d, a.lastDelay = some d → d ≤ s.wait ∧ (d < s.wait ∨ s.wait = p.maxW))
  hshut : closed = true → s.mode = some .shutU ∨ s.mode = some .shutD

/-- everything the coupling needs to know about a finished run -/
theorem settle_spec (p : Par) (w : WM) (s : St) (c : C) (dp dt : Nat) (oc : Outcome) (h : outcome w c = oc) :
    (settle p w s c dp dt).mode = oc.mode ∧ (settle p w s c dp dt).now = s.now + dt ∧
    (settle p w s c dp dt).reach = s.reach ∧
    (obsOf (settle p w s c dp dt)).connects = oc.connects ∧ (obsOf (settle p w s c dp dt)).resp = oc.resp ∧
    (obsOf (settle p w s c dp dt)).quiet = oc.mode.isSome ∧
    (settle p w s c dp dt).wait =
      (match oc.slp with | .fresh => p.init | .backoff => nextWait p s.wait | .none => s.wait) ∧
    (settle p w s c dp dt).wakeAt =
      (match oc.slp with
       | .fresh => s.now + dt + p.init | .backoff => s.now + dt + nextWait p s.wait | .none => s.wakeAt) := by
  subst h
  unfold settle obsOf outcome
  cases c.slp <;> simp

theorem step_opn (cfg : Cfg) (hc : Res.cfgWF cfg.r = true) (hw : 1 ≤ cfg.w.hi) (s : St) (a : PS) (o c : Bool)
    (idx : Nat) (sched : List Nat) (hI : Inv cfg.r.par s a o c) (hop : opOk s o c (.opn sched) = true) :
    ∃ a', specStep cfg.r a idx (.opn sched) (obsOf (stepSt cfg.r.par cfg.w s (.opn sched))) = (.ok, a') ∧
      Inv cfg.r.par (stepSt cfg.r.par cfg.w s (.opn sched)) a' true c := by
  simp only [opOk, Bool.and_eq_true, Bool.not_eq_true'] at hop
  obtain ⟨ho, hcl⟩ := hop
  subst ho; subst hcl
  obtain ⟨hm, hcd, hes, _⟩ := hI.hidle rfl
  have hstep : stepSt cfg.r.par cfg.w s (.opn sched) =
      settle cfg.r.par cfg.w s (drain cfg.w (opOpen (canon cfg.w .idle s.reach)) sched) 1 0 := by
    simp [stepSt, hm, canon]
  have hac : a.closed = false := hI.hclosed
  have hipos := Res.cfg_init_pos cfg.r hc
  have hile := Res.cfg_init_le cfg.r hc
  have hnow := hI.hnow
  have hreach := hI.hreach rfl
  by_cases hr : s.reach = true
  · rw [hr] at hstep
    obtain ⟨g1, g2, g3, g4, g5, g6, g7, g8⟩ := settle_spec cfg.r.par cfg.w s _ 1 0 _ (T_open cfg.w hw true sched)
    rw [← hstep] at g1 g2 g3 g4 g5 g6 g7 g8
    generalize stepSt cfg.r.par cfg.w s (.opn sched) = s' at *
    refine ⟨{ a with established := true, connDown := false }, ?_, ?_⟩
    · simp [specStep, g4, g6, hac, hreach, hr]
    · refine ⟨by simp [g2, hnow], by simp [g3, hreach], by simp [hac], by simp, ?_, by simp⟩
      intro _ _; left; simp [g1]
  · have hr' : s.reach = false := by simpa using hr
    rw [hr'] at hstep
    obtain ⟨g1, g2, g3, g4, g5, g6, g7, g8⟩ := settle_spec cfg.r.par cfg.w s _ 1 0 _ (T_open cfg.w hw false sched)
    rw [← hstep] at g1 g2 g3 g4 g5 g6 g7 g8
    generalize stepSt cfg.r.par cfg.w s (.opn sched) = s' at *
    refine ⟨{ a with connDown := true, established := false, lastEnd := a.now, lastDelay := none }, ?_, ?_⟩
    · simp [specStep, g4, g6, hac, hreach, hr']
    · refine ⟨by simp [g2, hnow], by simp [g3, hreach], by simp [hac], by simp, ?_, by simp⟩
      intro _ _; right
      simp at g7 g8
      simp [g1, g7, g8, g2, hnow]
      omega

theorem step_req (cfg : Cfg) (hc : Res.cfgWF cfg.r = true) (hw : 1 ≤ cfg.w.hi) (s : St) (a : PS) (o c : Bool)
    (idx : Nat) (eof : Bool) (sched : List Nat) (hI : Inv cfg.r.par s a o c)
    (hop : opOk s o c (.req eof sched) = true) :
    ∃ a', specStep cfg.r a idx (.req eof sched) (obsOf (stepSt cfg.r.par cfg.w s (.req eof sched))) = (.ok, a') ∧
      Inv cfg.r.par (stepSt cfg.r.par cfg.w s (.req eof sched)) a' o c := by
  simp only [opOk, Bool.and_eq_true, Bool.not_eq_true'] at hop
  obtain ⟨ho, hcl⟩ := hop
  subst ho; subst hcl
  have hac : a.closed = false := hI.hclosed
  have hipos := Res.cfg_init_pos cfg.r hc
  have hile := Res.cfg_init_le cfg.r hc
  have hnow := hI.hnow
  have hreach := hI.hreach rfl
  rcases hI.hlive rfl rfl with ⟨hm, hes, hcd⟩ | ⟨hm, hcd, hes, hwk, hwm, hlt, hwpos, hle, hld⟩
  · -- up
    have hstep : stepSt cfg.r.par cfg.w s (.req eof sched) =
        settle cfg.r.par cfg.w s (drain cfg.w (opReq (canon cfg.w .up s.reach) eof) sched) 0 0 := by
      simp [stepSt, hm]
    obtain ⟨g1, g2, g3, g4, g5, g6, g7, g8⟩ :=
      settle_spec cfg.r.par cfg.w s _ 0 0 _ (T_req_up cfg.w hw s.reach eof sched)
    rw [← hstep] at g1 g2 g3 g4 g5 g6 g7 g8
    generalize stepSt cfg.r.par cfg.w s (.req eof sched) = s' at *
    -- the three ways a request on an open channel goes
    have hdown : reqFails cfg.w s.reach eof = true →
        (eof = true ∨ (0 < (obsOf s').connects ∧ a.reach = false)) := by
      intro hf
      simp only [reqFails, Bool.or_eq_true, Bool.and_eq_true, Bool.not_eq_true'] at hf
      rcases hf with hf | ⟨hk, hr⟩
      · left; exact hf
      · right; simp [g4, hk, hreach, hr]
    cases hf : reqFails cfg.w s.reach eof with
    | true =>
      simp only [hf, if_true] at g1 g5 g7 g8
      refine ⟨{ a with connDown := true, established := false, lastEnd := a.now, lastDelay := none }, ?_, ?_⟩
      · rcases hdown hf with he | ⟨hcn, hr⟩
        · by_cases hx : 0 < (obsOf s').connects ∧ a.reach = false
          · simp [specStep, g6, g1, hac, hcd, hes, hx]
          · simp [specStep, g6, g1, hac, hcd, hes, hx, he]
        · simp [specStep, g6, g1, hac, hcd, hes, hcn, hr]
      · refine ⟨by simp [g2, hnow], by simp [g3, hreach], by simp [hac], by simp, ?_, by simp⟩
        intro _ _; right
        simp at g7 g8
        simp [g1, g7, g8, g2, hnow]
        omega
    | false =>
      simp only [hf] at g1 g5 g7 g8
      have hne : eof = false ∧ (keep cfg.w = true ∨ s.reach = true) := by
        simp only [reqFails, Bool.or_eq_false_iff, Bool.and_eq_false_iff, Bool.not_eq_false'] at hf
        exact hf
      have hx : ¬ (0 < (obsOf s').connects ∧ a.reach = false) := by
        rcases hne.2 with hk | hr
        · simp [g4, hk]
        · simp [hreach, hr]
      refine ⟨a, ?_, ?_⟩
      · simp [specStep, g5, g6, g1, hac, hcd, hes, hx, hne.1]
      · refine ⟨by simp [g2, hnow], by simp [g3, hreach], hac, by simp, ?_, by simp⟩
        intro _ _; left; simp [g1, hes, hcd]
  · -- down
    have hstep : stepSt cfg.r.par cfg.w s (.req eof sched) =
        settle cfg.r.par cfg.w s (drain cfg.w (opReq (canon cfg.w .down s.reach) eof) sched) 0 0 := by
      simp [stepSt, hm]
    obtain ⟨g1, g2, g3, g4, g5, g6, g7, g8⟩ :=
      settle_spec cfg.r.par cfg.w s _ 0 0 _ (T_req_down cfg.w hw s.reach eof sched)
    rw [← hstep] at g1 g2 g3 g4 g5 g6 g7 g8
    generalize stepSt cfg.r.par cfg.w s (.req eof sched) = s' at *
    refine ⟨a, ?_, ?_⟩
    · have : ¬ (max a.reachSince a.lastEnd + cfg.r.maxW ≤ a.now) := by
        have : cfg.r.par.maxW = cfg.r.maxW := rfl
        omega
      simp [specStep, g4, g5, g6, hac, hcd, this]
    · refine ⟨by simp [g2, hnow], by simp [g3, hreach], hac, by simp, ?_, by simp⟩
      intro _ _; right
      simp at g7 g8
      simp [g1, g7, g8, g2, hcd, hes]
      exact ⟨hwk, hwm, hlt, hwpos, hle, hld⟩

theorem step_close (cfg : Cfg) (hw : 1 ≤ cfg.w.hi) (s : St) (a : PS) (o c : Bool) (idx : Nat)
    (sched : List Nat) (hI : Inv cfg.r.par s a o c) (hop : opOk s o c (.close sched) = true) :
    ∃ a', specStep cfg.r a idx (.close sched) (obsOf (stepSt cfg.r.par cfg.w s (.close sched))) = (.ok, a') ∧
      Inv cfg.r.par (stepSt cfg.r.par cfg.w s (.close sched)) a' o true := by
  simp only [opOk, Bool.and_eq_true, Bool.not_eq_true'] at hop
  obtain ⟨ho, hcl⟩ := hop
  subst ho; subst hcl
  have hac : a.closed = false := hI.hclosed
  have hnow := hI.hnow
  have hreach := hI.hreach rfl
  rcases hI.hlive rfl rfl with ⟨hm, hes, hcd⟩ | ⟨hm, hcd, hes, hwk, hwm, hlt, hwpos, hle, hld⟩
  · have hstep : stepSt cfg.r.par cfg.w s (.close sched) =
        settle cfg.r.par cfg.w s (drain cfg.w (opClose (canon cfg.w .up s.reach)) sched) 0 0 := by
      simp [stepSt, hm]
    obtain ⟨g1, g2, g3, g4, g5, g6, g7, g8⟩ :=
      settle_spec cfg.r.par cfg.w s _ 0 0 _ (T_close_up cfg.w hw s.reach sched)
    rw [← hstep] at g1 g2 g3 g4 g5 g6 g7 g8
    generalize stepSt cfg.r.par cfg.w s (.close sched) = s' at *
    refine ⟨{ a with closed := true }, ?_, ?_⟩
    · simp [specStep, g4, g6, hac]
    · exact ⟨by simp [g2, hnow], by simp [g3, hreach], by simp, by simp, by simp, by simp [g1]⟩
  · have hstep : stepSt cfg.r.par cfg.w s (.close sched) =
        settle cfg.r.par cfg.w s (drain cfg.w (opClose (canon cfg.w .down s.reach)) sched) 0 0 := by
      simp [stepSt, hm]
    obtain ⟨g1, g2, g3, g4, g5, g6, g7, g8⟩ :=
      settle_spec cfg.r.par cfg.w s _ 0 0 _ (T_close_down cfg.w hw s.reach sched)
    rw [← hstep] at g1 g2 g3 g4 g5 g6 g7 g8
    generalize stepSt cfg.r.par cfg.w s (.close sched) = s' at *
    refine ⟨{ a with closed := true }, ?_, ?_⟩
    · simp [specStep, g4, g6, hac]
    · exact ⟨by simp [g2, hnow], by simp [g3, hreach], by simp, by simp, by simp, by simp [g1]⟩

theorem step_reach (cfg : Cfg) (s : St) (a : PS) (o c : Bool) (idx : Nat)
    (up : Bool) (hI : Inv cfg.r.par s a o c) :
    ∃ a', specStep cfg.r a idx (.reach up) (obsOf (stepSt cfg.r.par cfg.w s (.reach up))) = (.ok, a') ∧
      Inv cfg.r.par (stepSt cfg.r.par cfg.w s (.reach up)) a' o c := by
  have hq : (obsOf (stepSt cfg.r.par cfg.w s (.reach up))).quiet = s.mode.isSome := by simp [stepSt, obsOf]
  have hcn : (obsOf (stepSt cfg.r.par cfg.w s (.reach up))).connects = 0 := by simp [stepSt, obsOf, begin]
  have hmode : s.mode.isSome = true := by
    cases o with
    | false => simp [(hI.hidle rfl).1]
    | true =>
      cases c with
      | false => rcases hI.hlive rfl rfl with ⟨hm, _⟩ | ⟨hm, _⟩ <;> simp [hm]
      | true => rcases hI.hshut rfl with hm | hm <;> simp [hm]
  cases c with
  | true =>
    have hcl : a.closed = true := hI.hclosed
    refine ⟨a, by simp [specStep, hq, hmode, hcl, hcn], ?_⟩
    exact ⟨by simp [stepSt, hI.hnow], (by intro h; cases h), hI.hclosed, by simpa [stepSt] using hI.hidle,
      by simpa [stepSt] using hI.hlive, by simpa [stepSt] using hI.hshut⟩
  | false =>
    have hcl : a.closed = false := hI.hclosed
    refine ⟨{ a with reach := up, reachSince := a.now }, by simp [specStep, hq, hmode, hcl], ?_⟩
    exact ⟨by simp [stepSt, hI.hnow], by simp [stepSt], by simp [hcl],
      by simpa [stepSt] using hI.hidle, by simpa [stepSt] using hI.hlive, by simpa [stepSt] using hI.hshut⟩

theorem step_tick (cfg : Cfg) (hc : Res.cfgWF cfg.r = true) (hw : 1 ≤ cfg.w.hi) (s : St) (a : PS) (o c : Bool)
    (idx : Nat) (d : Nat) (sched : List Nat) (hI : Inv cfg.r.par s a o c)
    (hop : opOk s o c (.tick d sched) = true) :
    ∃ a', specStep cfg.r a idx (.tick d sched) (obsOf (stepSt cfg.r.par cfg.w s (.tick d sched))) = (.ok, a') ∧
      Inv cfg.r.par (stepSt cfg.r.par cfg.w s (.tick d sched)) a' o c := by
  simp only [opOk, Bool.and_eq_true, Bool.or_eq_true, decide_eq_true_eq] at hop
  obtain ⟨hd, hwf⟩ := hop
  have hnow := hI.hnow
  have hf := Res.cfg_grows cfg.r hc
  -- the case without a wake
  have nowake : (s.mode.isSome = true) → (∀ m, s.mode = some m → ¬ (m = .down ∧ s.wakeAt ≤ s.now + d)) →
      (c = false → o = true → s.mode = some .down → False) →
      ∃ a', specStep cfg.r a idx (.tick d sched) (obsOf (stepSt cfg.r.par cfg.w s (.tick d sched))) = (.ok, a') ∧
        Inv cfg.r.par (stepSt cfg.r.par cfg.w s (.tick d sched)) a' o c := by
    intro hsome hno hnd
    obtain ⟨m, hm⟩ := Option.isSome_iff_exists.mp hsome
    have hstep : stepSt cfg.r.par cfg.w s (.tick d sched) = { s with now := s.now + d, last := begin s.last } := by
      simp [stepSt, hm, hno m hm]
    rw [hstep]
    refine ⟨{ a with now := a.now + d }, ?_, ?_⟩
    · cases hcl : a.closed <;> simp [specStep, obsOf, begin, hm, hcl]
    · refine ⟨by simp [hnow], by simpa using hI.hreach, by simpa using hI.hclosed, by simpa using hI.hidle, ?_,
        by simpa using hI.hshut⟩
      intro h1 h2
      rcases hI.hlive h1 h2 with h | ⟨hm', _⟩
      · left; simpa using h
      · exact (hnd h2 h1 hm').elim
  cases o with
  | false =>
    have hm := (hI.hidle rfl).1
    exact nowake (by simp [hm]) (by intro m h; simp [hm] at h; subst h; simp) (by intro _ h; cases h)
  | true =>
    cases c with
    | true =>
      rcases hI.hshut rfl with hm | hm
      · exact nowake (by simp [hm]) (by intro m h; simp [hm] at h; subst h; simp) (by intro h; cases h)
      · exact nowake (by simp [hm]) (by intro m h; simp [hm] at h; subst h; simp) (by intro h; cases h)
    | false =>
      have hac : a.closed = false := hI.hclosed
      have hreach := hI.hreach rfl
      rcases hI.hlive rfl rfl with ⟨hm, hes, hcd⟩ | ⟨hm, hcd, hes, hwk, hwm, hlt, hwpos, hle, hld⟩
      · -- up: nothing happens
        have hstep : stepSt cfg.r.par cfg.w s (.tick d sched) = { s with now := s.now + d, last := begin s.last } := by
          simp [stepSt, hm]
        rw [hstep]
        refine ⟨{ a with now := a.now + d }, ?_, ?_⟩
        · simp [specStep, obsOf, begin, hm, hac]
        · refine ⟨by simp [hnow], by simpa using hI.hreach, by simpa using hI.hclosed, by simp, ?_, by simp⟩
          intro _ _; left; simp [hm, hes, hcd]
      · -- down
        have hle' : s.now + d ≤ s.wakeAt := by
          rcases hwf with h | h
          · exact (h hm).elim
          · exact h
        by_cases hwk' : s.wakeAt ≤ s.now + d
        · -- the retry greenlet wakes
          have heq : s.now + d = s.wakeAt := by omega
          have hstep : stepSt cfg.r.par cfg.w s (.tick d sched) =
              settle cfg.r.par cfg.w s (drain cfg.w (opWake (canon cfg.w .down s.reach)) sched) 1 d := by
            simp [stepSt, hm, hwk']
          have hmw : cfg.r.par.maxW = cfg.r.maxW := rfl
          by_cases hr : s.reach = true
          · rw [hr] at hstep
            obtain ⟨g1, g2, g3, g4, g5, g6, g7, g8⟩ :=
              settle_spec cfg.r.par cfg.w s _ 1 d _ (T_wake cfg.w hw true sched)
            rw [← hstep] at g1 g2 g3 g4 g5 g6 g7 g8
            generalize stepSt cfg.r.par cfg.w s (.tick d sched) = s' at *
            refine ⟨{ a with now := a.now + d, established := true, connDown := false, lastDelay := none }, ?_, ?_⟩
            · have h1 : ¬ (cfg.r.maxW < a.now + d - a.lastEnd) := by omega
              have h2 : (match a.lastDelay with
                  | some p => decide (a.now + d - a.lastEnd < p) ||
                      (decide (a.now + d - a.lastEnd = p) && decide (p < cfg.r.maxW))
                  | none => false) = false := by
                cases hl : a.lastDelay with
                | none => rfl
                | some p =>
                  obtain ⟨x2, x3⟩ := hld p hl
                  have hdl : a.now + d - a.lastEnd = s.wait := by omega
                  rw [hdl]
                  simp only [Bool.or_eq_false_iff, Bool.and_eq_false_iff, decide_eq_false_iff_not]
                  refine ⟨by omega, ?_⟩
                  by_cases hpw : p = s.wait
                  · right; rcases x3 with x3 | x3 <;> omega
                  · left; omega
              simp [specStep, g4, g6, hac, hcd, h1, hreach, hr]; exact h2
            · refine ⟨by simp [g2, hnow], by simp [g3, hreach], by simp [hac], by simp, ?_, by simp⟩
              intro _ _; left; simp [g1]
          · have hr' : s.reach = false := by simpa using hr
            rw [hr'] at hstep
            obtain ⟨g1, g2, g3, g4, g5, g6, g7, g8⟩ :=
              settle_spec cfg.r.par cfg.w s _ 1 d _ (T_wake cfg.w hw false sched)
            rw [← hstep] at g1 g2 g3 g4 g5 g6 g7 g8
            generalize stepSt cfg.r.par cfg.w s (.tick d sched) = s' at *
            refine ⟨{ a with now := a.now + d, lastEnd := a.now + d, lastDelay := some (a.now + d - a.lastEnd) }, ?_, ?_⟩
            · have h1 : ¬ (cfg.r.maxW < a.now + d - a.lastEnd) := by omega
              have h2 : (match a.lastDelay with
                  | some p => decide (a.now + d - a.lastEnd < p) ||
                      (decide (a.now + d - a.lastEnd = p) && decide (p < cfg.r.maxW))
                  | none => false) = false := by
                cases hl : a.lastDelay with
                | none => rfl
                | some p =>
                  obtain ⟨x2, x3⟩ := hld p hl
                  have hdl : a.now + d - a.lastEnd = s.wait := by omega
                  rw [hdl]
                  simp only [Bool.or_eq_false_iff, Bool.and_eq_false_iff, decide_eq_false_iff_not]
                  refine ⟨by omega, ?_⟩
                  by_cases hpw : p = s.wait
                  · right; rcases x3 with x3 | x3 <;> omega
                  · left; omega
              simp [specStep, g4, g6, hac, hcd, h1, hreach, hr']; exact h2
            · refine ⟨by simp [g2, hnow], by simp [g3, hreach], by simp [hac], by simp, ?_, by simp⟩
              intro _ _; right
              simp at g7 g8
              have hge := Res.le_nextWait cfg.r.par hf s.wait hwm
              have hmx := Res.nextWait_le_max cfg.r.par s.wait
              simp [g1, g7, g8, g2, hnow, hcd, hes]
              refine ⟨hmx, by omega, by omega, ?_⟩
              rcases Res.nextWait_strict cfg.r.par hf s.wait hwm with hs | hs
              · left; omega
              · right; exact hs
        · -- not yet
          have hstep : stepSt cfg.r.par cfg.w s (.tick d sched) = { s with now := s.now + d, last := begin s.last } := by
            simp [stepSt, hm, hwk']
          rw [hstep]
          refine ⟨{ a with now := a.now + d }, ?_, ?_⟩
          · simp [specStep, obsOf, begin, hm, hac]
          · refine ⟨by simp [hnow], by simpa using hI.hreach, by simpa using hI.hclosed, by simp, ?_, by simp⟩
            intro _ _; right
            simp [hm, hcd, hes]
            exact ⟨hwk, hwm, by omega, hwpos, by omega, hld⟩

theorem step_ok (cfg : Cfg) (hc : Res.cfgWF cfg.r = true) (hw : 1 ≤ cfg.w.hi) (s : St) (a : PS) (o c : Bool)
    (idx : Nat) (op : Op) (hI : Inv cfg.r.par s a o c) (hop : opOk s o c op = true) :
    ∃ a', specStep cfg.r a idx op (obsOf (stepSt cfg.r.par cfg.w s op)) = (.ok, a') ∧
      Inv cfg.r.par (stepSt cfg.r.par cfg.w s op) a' (o || isOpn op) (c || isClose op) := by
  cases op with
  | opn sched => simpa [isOpn, isClose] using step_opn cfg hc hw s a o c idx sched hI hop
  | req eof sched => simpa [isOpn, isClose] using step_req cfg hc hw s a o c idx eof sched hI hop
  | reach up => simpa [isOpn, isClose] using step_reach cfg s a o c idx up hI
  | tick d sched => simpa [isOpn, isClose] using step_tick cfg hc hw s a o c idx d sched hI hop
  | close sched => simpa [isOpn, isClose] using step_close cfg hw s a o c idx sched hI hop

theorem spec_trace (cfg : Cfg) (hc : Res.cfgWF cfg.r = true) (hw : 1 ≤ cfg.w.hi) (ops : List Op) :
    ∀ (s : St) (a : PS) (o c : Bool) (idx : Nat), Inv cfg.r.par s a o c →
      wfGo cfg.r.par cfg.w s o c ops = true → specGo cfg.r a idx (comp.trace cfg s ops) = .ok := by
  induction ops with
  | nil => intro s a o c idx _ _; rfl
  | cons op ops ih =>
    intro s a o c idx hI hwf
    simp only [wfGo, Bool.and_eq_true] at hwf
    obtain ⟨a', hs, hI'⟩ := step_ok cfg hc hw s a o c idx op hI hwf.1
    have htr : comp.trace cfg s (op :: ops) =
        (op, obsOf (stepSt cfg.r.par cfg.w s op)) :: comp.trace cfg (stepSt cfg.r.par cfg.w s op) ops := by
      simp [TComp.trace, comp, step]
    rw [htr]
    simp only [specGo, hs]
    exact ih _ a' _ _ _ hI' hwf.2

/-- the model's state after an operation list -/
def runOps (cfg : Cfg) (s : St) (ops : List Op) : St := ops.foldl (stepSt cfg.r.par cfg.w) s

/-- the coupling holds in every reachable state -/
theorem inv_run (cfg : Cfg) (hc : Res.cfgWF cfg.r = true) (hw : 1 ≤ cfg.w.hi) (ops : List Op) :
    ∀ (s : St) (a : PS) (o c : Bool), Inv cfg.r.par s a o c → wfGo cfg.r.par cfg.w s o c ops = true →
      ∃ a' o' c', Inv cfg.r.par (runOps cfg s ops) a' o' c' := by
  induction ops with
  | nil => intro s a o c hI _; exact ⟨a, o, c, hI⟩
  | cons op ops ih =>
    intro s a o c hI hwf
    simp only [wfGo, Bool.and_eq_true] at hwf
    obtain ⟨a', _, hI'⟩ := step_ok cfg hc hw s a o c 0 op hI hwf.1
    exact ih _ a' _ _ hI' hwf.2

theorem classify_up (w : WM) (c : C) (h : classify w c = some .up) :
    c.rDown = false ∧ c.rNext = true ∧ c.pSt = .opened := by
  unfold classify at h
  repeat' split at h
  all_goals simp_all

theorem settle_last (p : Par) (w : WM) (s : St) (c : C) (dp dt : Nat) :
    (settle p w s c dp dt).last = c ∧ (settle p w s c dp dt).mode = classify w c ∧
    (settle p w s c dp dt).pools = s.pools + dp := by
  unfold settle
  cases c.slp <;> simp

/-- **recovery, whatever the pool keeps.**  In a reachable state in fail-fast mode the retry
    greenlet's wake instant is at most one maximum interval ahead; if the endpoint accepts
    connections then, the attempt (under every schedule) makes one connect and leaves the channel
    Open with a next sink, and the next request (under every schedule) is answered by the peer. -/
theorem recovers (cfg : Cfg) (_hc : Res.cfgWF cfg.r = true) (hw : 1 ≤ cfg.w.hi) (s : St) (a : PS) (o c : Bool)
    (hI : Inv cfg.r.par s a o c) (hd : s.mode = some .down) :
    s.now < s.wakeAt ∧ s.wakeAt ≤ s.now + cfg.r.maxW ∧
    (s.reach = true → ∀ sched sched' : List Nat,
      (stepSt cfg.r.par cfg.w s (.tick (s.wakeAt - s.now) sched)).mode = some .up ∧
      (obsOf (stepSt cfg.r.par cfg.w s (.tick (s.wakeAt - s.now) sched))).connects = 1 ∧
      (obsOf (stepSt cfg.r.par cfg.w s (.tick (s.wakeAt - s.now) sched))).down = false ∧
      (obsOf (stepSt cfg.r.par cfg.w s (.tick (s.wakeAt - s.now) sched))).next = some s.pools ∧
      (obsOf (stepSt cfg.r.par cfg.w s (.tick (s.wakeAt - s.now) sched))).state = .opened ∧
      (obsOf (stepSt cfg.r.par cfg.w (stepSt cfg.r.par cfg.w s (.tick (s.wakeAt - s.now) sched))
        (.req false sched'))).resp = .ok ∧
      (obsOf (stepSt cfg.r.par cfg.w (stepSt cfg.r.par cfg.w s (.tick (s.wakeAt - s.now) sched))
        (.req false sched'))).connects = (if 1 ≤ cfg.w.lo then 0 else 1) ∧
      (stepSt cfg.r.par cfg.w (stepSt cfg.r.par cfg.w s (.tick (s.wakeAt - s.now) sched))
        (.req false sched')).mode = some .up) := by
  have hoc : o = true ∧ c = false := by
    cases o with
    | false => have := (hI.hidle rfl).1; rw [hd] at this; cases this
    | true =>
      cases c with
      | false => exact ⟨rfl, rfl⟩
      | true => rcases hI.hshut rfl with h | h <;> rw [hd] at h <;> cases h
  obtain ⟨rfl, rfl⟩ := hoc
  rcases hI.hlive rfl rfl with ⟨hm, _⟩ | ⟨_, _, _, hwk, hwm, hlt, _, hle, _⟩
  · rw [hd] at hm; cases hm
  have hmw : cfg.r.par.maxW = cfg.r.maxW := rfl
  refine ⟨hlt, by omega, ?_⟩
  intro hr sched sched'
  have hstep : stepSt cfg.r.par cfg.w s (.tick (s.wakeAt - s.now) sched) =
      settle cfg.r.par cfg.w s (drain cfg.w (opWake (canon cfg.w .down true)) sched) 1 (s.wakeAt - s.now) := by
    have : s.wakeAt ≤ s.now + (s.wakeAt - s.now) := by omega
    simp [stepSt, hd, hr, this]
  have hT := T_wake cfg.w hw true sched
  obtain ⟨g1, _, g3, g4, _, _, _, _⟩ := settle_spec cfg.r.par cfg.w s _ 1 (s.wakeAt - s.now) _ hT
  obtain ⟨l1, l2, l3⟩ := settle_last cfg.r.par cfg.w s (drain cfg.w (opWake (canon cfg.w .down true)) sched) 1
    (s.wakeAt - s.now)
  rw [← hstep] at g1 g3 g4 l1 l2 l3
  generalize stepSt cfg.r.par cfg.w s (.tick (s.wakeAt - s.now) sched) = s1 at *
  have hup : classify cfg.w s1.last = some .up := by rw [l1, ← l2, g1]; rfl
  obtain ⟨u1, u2, u3⟩ := classify_up cfg.w _ hup
  have g1' : s1.mode = some .up := by rw [g1]; rfl
  have hstep2 : stepSt cfg.r.par cfg.w s1 (.req false sched') =
      settle cfg.r.par cfg.w s1 (drain cfg.w (opReq (canon cfg.w .up true) false) sched') 0 0 := by
    simp [stepSt, g1', g3, hr]
  have hT2 := T_req_up cfg.w hw true false sched'
  obtain ⟨k1, _, _, k4, k5, _, _, _⟩ := settle_spec cfg.r.par cfg.w s1 _ 0 0 _ hT2
  rw [← hstep2] at k1 k4 k5
  refine ⟨g1', by rw [g4], by simp [obsOf, u1], by simp [obsOf, u2, l3], by simp [obsOf, u1, u2, u3],
    by rw [k5]; simp [reqFails], by rw [k4]; simp [keep], by rw [k1]; simp [reqFails]⟩

theorem inv_init (p : Par) : Inv p {} {} false false :=
  ⟨rfl, fun _ => rfl, rfl, fun _ => ⟨rfl, rfl, rfl, rfl⟩, (fun h => by cases h), (fun h => by cases h)⟩

end Scales.Pool

namespace Scales.Chain

theorem run_quiescent_mem (w : WM) (n : Nat) (c : C) (fs : List C) (h : explore (clampWM w) n c = some fs)
    (picks : List Nat) (hq : (run w c picks).tasks.length = 0) : run w c picks ∈ fs := by
  have := (explore_sound w n c fs h (picks ++ List.replicate n 0) (by simp)).1
  rwa [← run_append, run_quiet _ _ hq] at this

/-- if all final states explored for a list of watermark pairs holding the clamped pair of `w` are
    `learned`, then under `w` every schedule of at least `fuel` steps has run everything, and every
    schedule that has run everything ends `learned` -/
theorem all_learned_of (L : List WM) (w : WM) (hmem : clampWM w ∈ L) (mk : WM → C) (hmk : mk (clampWM w) = mk w)
    (h : L.all (fun v => decide ((explore v fuel (mk v)).map
          (fun l => l.all (fun c => decide (learned c))) = some true)) = true)
    (picks : List Nat) :
    (fuel ≤ picks.length → (run w (mk w) picks).tasks = []) ∧
    ((run w (mk w) picks).tasks = [] → learned (run w (mk w) picks)) := by
  have hv := List.all_eq_true.mp h _ hmem
  simp only [decide_eq_true_eq] at hv
  cases he : explore (clampWM w) fuel (mk (clampWM w)) with
  | none => simp [he] at hv
  | some fs =>
    simp only [he, Option.map_some, Option.some.injEq] at hv
    rw [hmk] at he
    constructor
    · intro hl
      exact List.eq_nil_of_length_eq_zero (explore_sound w fuel (mk w) fs he picks hl).2.1
    · intro hq
      have hm := run_quiescent_mem w fuel (mk w) fs he picks (by rw [hq]; rfl)
      simpa using List.all_eq_true.mp hv _ hm

/-- … for the nine clamped pairs: every `w` with `hi ≥ 1` -/
theorem all_learned (w : WM) (hw : 1 ≤ w.hi) (mk : WM → C) (hmk : mk (clampWM w) = mk w)
    (h : Pool.allWM.all (fun v => decide ((explore v fuel (mk v)).map
          (fun l => l.all (fun c => decide (learned c))) = some true)) = true)
    (picks : List Nat) :
    (fuel ≤ picks.length → (run w (mk w) picks).tasks = []) ∧
    ((run w (mk w) picks).tasks = [] → learned (run w (mk w) picks)) :=
  all_learned_of Pool.allWM w (Pool.clamp_mem w hw) mk hmk h picks

/-- the clamped pairs of a pool that keeps nothing -/
theorem clamp_mem_lo0 (w : WM) (hw : 1 ≤ w.hi) (hlo : w.lo = 0) : clampWM w ∈ [(⟨0, 1⟩ : WM), ⟨0, 2⟩, ⟨0, 3⟩] := by
  have h2 : min w.hi 3 = 1 ∨ min w.hi 3 = 2 ∨ min w.hi 3 = 3 := by omega
  unfold clampWM
  rw [hlo]
  rcases h2 with h2 | h2 | h2 <;> rw [h2] <;> simp

end Scales.Chain
