/-
  Proofs/UriLemmas.lean — helper lemmas for C20, component `uri`.
-/
import ScalesModel.Adapter.Uri
import Mathlib.Tactic.IntervalCases
namespace Scales.Uri

/-! ### split / cut -/

theorem splitOn_ne_nil (c : Char) (s : Str) : splitOn c s ≠ [] := by
  induction s with
  | nil => simp [splitOn]
  | cons x xs ih =>
    simp only [splitOn]
    split
    · simp
    · split <;> simp

theorem splitOn_not_mem (c : Char) (a : Str) (h : c ∉ a) : splitOn c a = [a] := by
  induction a with
  | nil => rfl
  | cons x xs ih =>
    have hx : x ≠ c := fun hh => h (by simp [hh])
    have hxs : c ∉ xs := fun hh => h (List.mem_cons_of_mem _ hh)
    simp [splitOn, hx, ih hxs]

theorem splitOn_append (c : Char) (a b : Str) (h : c ∉ a) :
    splitOn c (a ++ c :: b) = a :: splitOn c b := by
  induction a with
  | nil => simp [splitOn]
  | cons x xs ih =>
    have hx : x ≠ c := fun hh => h (by simp [hh])
    have hxs : c ∉ xs := fun hh => h (List.mem_cons_of_mem _ hh)
    simp [splitOn, hx, ih hxs]

theorem splitOn_intercalate (c : Char) (ps : List Str) (hne : ps ≠ []) (h : ∀ p ∈ ps, c ∉ p) :
    splitOn c (intercalate c ps) = ps := by
  induction ps with
  | nil => exact absurd rfl hne
  | cons p rest ih =>
    cases rest with
    | nil => simp [intercalate, splitOn_not_mem c p (h p (by simp))]
    | cons q rest' =>
      simp only [intercalate]
      rw [splitOn_append c p _ (h p (by simp))]
      rw [ih (by simp) (fun x hx => h x (List.mem_cons_of_mem _ hx))]

theorem mem_intercalate (sep : Char) (ps : List Str) (c : Char) (h : c ∈ intercalate sep ps) :
    c = sep ∨ ∃ p ∈ ps, c ∈ p := by
  induction ps with
  | nil => simp [intercalate] at h
  | cons p rest ih =>
    cases rest with
    | nil => simp only [intercalate] at h; exact Or.inr ⟨p, by simp, h⟩
    | cons q rest' =>
      simp only [intercalate, List.mem_append, List.mem_cons] at h
      rcases h with h | h | h
      · exact Or.inr ⟨p, by simp, h⟩
      · exact Or.inl h
      · rcases ih h with h' | ⟨x, hx, hc⟩
        · exact Or.inl h'
        · exact Or.inr ⟨x, List.mem_cons_of_mem _ hx, hc⟩

theorem cut_append (c : Char) (a b : Str) (h : c ∉ a) : cut c (a ++ c :: b) = (a, b) := by
  induction a with
  | nil => simp [cut]
  | cons x xs ih =>
    have hx : x ≠ c := fun hh => h (by simp [hh])
    have hxs : c ∉ xs := fun hh => h (List.mem_cons_of_mem _ hh)
    simp [cut, hx, ih hxs]

theorem takeWhile_stop (p : Char → Bool) (a b : Str) (ha : ∀ c ∈ a, p c = true)
    (hb : b = [] ∨ ∃ x xs, b = x :: xs ∧ p x = false) :
    (a ++ b).takeWhile p = a ∧ (a ++ b).dropWhile p = b := by
  induction a with
  | nil =>
    rcases hb with rfl | ⟨x, xs, rfl, hx⟩
    · simp
    · simp [List.takeWhile, List.dropWhile, hx]
  | cons y ys ih =>
    have hy := ha y (by simp)
    have := ih (fun c hc => ha c (List.mem_cons_of_mem _ hc))
    simp [List.takeWhile, List.dropWhile, hy, this]

/-! ### decimal numerals -/

theorem digitChar_facts (d : Nat) (h : d < 10) :
    isDigit (digitChar d) = true ∧ (digitChar d).toNat - 48 = d := by
  interval_cases d <;> decide

theorem natToDecFuel_spec : ∀ (fuel n : Nat), n < fuel →
    (∀ c ∈ natToDecFuel fuel n, isDigit c = true) ∧ natToDecFuel fuel n ≠ [] ∧
    (natToDecFuel fuel n).foldl (fun acc c => match acc with
      | none => none
      | some k => if isDigit c then some (k * 10 + (c.toNat - 48)) else none) (some 0) = some n := by
  intro fuel
  induction fuel with
  | zero => intro n h; omega
  | succ fuel ih =>
    intro n hn
    simp only [natToDecFuel]
    split
    · rename_i h10
      obtain ⟨h1, h2⟩ := digitChar_facts n h10
      refine ⟨by simpa using h1, by simp, ?_⟩
      simp [h1, h2]
    · rename_i h10
      have hlt : n / 10 < fuel := by omega
      obtain ⟨a1, a2, a3⟩ := ih (n / 10) hlt
      obtain ⟨h1, h2⟩ := digitChar_facts (n % 10) (Nat.mod_lt _ (by omega))
      refine ⟨?_, by simp, ?_⟩
      · intro c hc
        simp only [List.mem_append, List.mem_singleton] at hc
        rcases hc with hc | rfl
        · exact a1 c hc
        · exact h1
      · rw [List.foldl_append, a3]
        simp only [List.foldl_cons, List.foldl_nil, h1, if_true, h2]
        congr 1
        omega

theorem natToDec_digits (n : Nat) : ∀ c ∈ natToDec n, isDigit c = true :=
  (natToDecFuel_spec (n + 1) n (by omega)).1

theorem decToNat_natToDec (n : Nat) : decToNat (natToDec n) = some n := by
  obtain ⟨_, h2, h3⟩ := natToDecFuel_spec (n + 1) n (by omega)
  unfold decToNat natToDec
  split
  · rename_i heq; exact absurd heq h2
  · exact h3

theorem isDigit_not (c : Char) (h : isDigit c = true) :
    c ≠ ':' ∧ c ≠ ',' ∧ c ≠ '/' ∧ c ≠ '?' ∧ c ≠ '#' ∧ c ≠ '[' ∧ c ≠ ']' := by
  refine ⟨?_, ?_, ?_, ?_, ?_, ?_, ?_⟩ <;> (intro hc; subst hc; revert h; decide)

/-! ### servers -/

theorem mapM_map_some {α β : Type} (f : α → β) (g : β → Option α) (l : List α)
    (h : ∀ x ∈ l, g (f x) = some x) : (l.map f).mapM g = some l := by
  induction l with
  | nil => rfl
  | cons x xs ih =>
    have h1 := h x (by simp)
    have h2 := ih (fun y hy => h y (List.mem_cons_of_mem _ hy))
    simp [List.mapM_cons, h1, h2]

theorem parseServer_render (h : Str) (p : Nat) (hh : ':' ∉ h) :
    parseServer (renderServer (h, p)) = some (h, p) := by
  unfold parseServer renderServer
  have hd : ':' ∉ natToDec p := by
    intro hc
    exact (isDigit_not _ (natToDec_digits p _ hc)).1 rfl
  rw [splitOn_append ':' h _ hh, splitOn_not_mem ':' _ hd]
  simp [decToNat_natToDec]

end Scales.Uri
