/-
  Proofs/ResMuxInv.lean — invariant of the chain model (Model/ResMux.lean) between two operations
  and its preservation by every operation.
-/
import ScalesModel.Proofs.ResMuxTransport
import ScalesModel.Proofs.ResBackoff
set_option linter.unusedSimpArgs false
set_option linter.unusedVariables false
namespace Scales.ResMux
open Scales.Transport
open Scales.MuxT
open Scales.Res (Par nextWait Grows)

/-- hypotheses on the parameters: a positive initial wait not above the maximum, a back-off
    function that grows below the maximum -/
structure PH (p : P) : Prop where
  pos : 0 < p.r.init
  le : p.r.init ≤ p.r.maxW
  grows : Grows p.r

theorem nextWait_pos (p : P) (hp : PH p) (w : Nat) (h0 : 0 < w) (hw : w ≤ p.r.maxW) :
    0 < nextWait p.r w := by
  have := Res.le_nextWait p.r hp.grows w hw
  omega

/-- the chain between two operations (`strict = true`; inside a clock tick the retry greenlet's
    wake instant may have been reached and not yet acted upon: `strict = false`) -/
structure CInv (p : P) (strict : Bool) (s : St) : Prop where
  tr : TInv s.tr
  dn : s.down = true → s.inst = false ∧ s.sub = false ∧ s.rg ≠ .none
  up : s.down = false → s.rg = .none
  sb : s.sub = true → s.inst = true ∧ connOf s.tr ≠ .none
  sl : ∀ wk w, s.rg = .sleep wk w →
    s.now ≤ wk ∧ (strict = true → s.now < wk) ∧ wk ≤ s.now + p.r.maxW ∧ 0 < w ∧ w ≤ p.r.maxW ∧
    s.tr.cstate = .closed
  og : ∀ w, s.rg = .opening w → s.tr.opening = true ∧ 0 < w ∧ w ≤ p.r.maxW

theorem cinv_init (p : P) : CInv p true {} := by
  refine ⟨tinv_init, ?_, ?_, ?_, ?_, ?_⟩ <;> simp

/-! ### the parts of `absorb` -/

theorem wakeGo_facts : ∀ (ids : List Nat) (t : MuxT.St), TInv t → t.opening = false →
    TInv (wakeGo ids t).1 ∧ (wakeGo ids t).1.cstate = t.cstate ∧ (wakeGo ids t).1.opening = false ∧
    (wakeGo ids t).1.rl = t.rl ∧ (wakeGo ids t).1.openRes = t.openRes := by
  intro ids
  induction ids with
  | nil => intro t h ho; exact ⟨h, rfl, ho, rfl, rfl⟩
  | cons id rest ih =>
    intro t h ho
    obtain ⟨a, b, c, d, _⟩ := tstep_request h ho id (tagOf id)
    have hnp : t.openRes ≠ .pending := fun hx => by have := h.core.orp hx; rw [ho] at this; cases this
    obtain ⟨i1, i2, i3, i4, i5⟩ := ih (t.request id (tagOf id)).1 a.inv (by rw [c]; exact ho)
    simp only [wakeGo]
    exact ⟨i1, by rw [i2, b], i3, by rw [i4, d], by rw [i5, a.ores hnp]⟩

theorem settle_facts (p : P) (s : St) (t' : MuxT.St) (ht : TInv t') :
    TInv (settle p s t').1.tr ∧ (settle p s t').1.tr.cstate = t'.cstate ∧
    (settle p s t').1.tr.opening = t'.opening ∧ (settle p s t').1.tr.rl = t'.rl ∧
    (settle p s t').1.tr.openRes = t'.openRes ∧
    (settle p s t').1.now = s.now ∧ (settle p s t').1.reach = s.reach ∧ (settle p s t').1.made = s.made ∧
    (settle p s t').1.inst = s.inst ∧ (settle p s t').1.sub = s.sub ∧ (settle p s t').1.down = s.down ∧
    (settle p s t').1.rg = s.rg ∧ (settle p s t').1.ups = s.ups := by
  unfold settle
  by_cases hw : s.tr.openRes = .pending ∧ t'.openRes ≠ .pending
  · have hno : t'.opening = false := by
      cases ho : t'.opening with
      | false => rfl
      | true => exact absurd (ht.core.opg ho).2.1 hw.2
    obtain ⟨a, b, c, d, e⟩ := wakeGo_facts s.waiters t' ht hno
    simp only [if_pos hw]
    refine ⟨a, b, by rw [c, hno], d, e, ?_⟩
    simp
  · simp only [if_neg hw]
    refine ⟨ht, ?_⟩
    simp

theorem connOf_congr {t t' : MuxT.St} (h1 : t'.cstate = t.cstate) (h2 : t'.opening = t.opening) :
    connOf t' = connOf t := by
  simp [connOf, h1, h2]

/-- what a step may do to the connection of a live transport -/
theorem tstep_conn {t t' : MuxT.St} {o : MuxT.Out} (h : TInv t) (hs : TStep t t' o) :
    connOf t' = connOf t ∨ (connOf t = .hs ∧ connOf t' = .up) ∨ (connOf t ≠ .none ∧ connOf t' = .none) ∨
    (connOf t = .none ∧ connOf t' = .none) := by
  rcases hs.st with e | ⟨ho, e⟩ | ⟨hne, e⟩
  · cases hc : t.cstate with
    | opened => left; rw [connOf_opened (by rw [e, hc]), connOf_opened hc]
    | closed => left; rw [connOf_closed hs.inv (by rw [e, hc]), connOf_closed h hc]
    | idle =>
      by_cases ho : t.opening = true
      · left
        rw [connOf_opening hs.inv (hs.keep ho (by rw [e, hc])), connOf_opening h ho]
      · have ho' : t'.opening = false := by
          cases hx : t'.opening with
          | false => rfl
          | true => exact absurd (hs.opg hx) ho
        left
        exact connOf_congr e (by rw [ho']; simpa using ho)
  · right; left
    exact ⟨connOf_opening h ho, connOf_opened e⟩
  · by_cases hn : connOf t = .none
    · right; right; right; exact ⟨hn, connOf_closed hs.inv e⟩
    · right; right; left; exact ⟨hn, connOf_closed hs.inv e⟩

/-- `absorb` keeps the invariant.  `hclf`: a subscribed transport that closes raises its fault
    signal (every step but a deliberate `Close()`, before which the resurrector unsubscribes). -/
theorem absorb_inv (p : P) (hp : PH p) (b : Bool) (s : St) (t' : MuxT.St) (o : MuxT.Out) (h : CInv p b s)
    (hs : TStep s.tr t' o)
    (hclf : s.sub = true → s.tr.cstate ≠ .closed → t'.cstate = .closed → 0 < o.eff.faults) :
    CInv p b (absorb p s t' o).1 ∧ (absorb p s t' o).1.now = s.now ∧ (absorb p s t' o).1.reach = s.reach := by
  obtain ⟨f1, f2, f3, f4, f5, f6, f7, f8, f9, f10, f11, f12, f13⟩ := settle_facts p s t' hs.inv
  have fc : connOf (settle p s t').1.tr = connOf t' := connOf_congr f2 f3
  unfold absorb
  simp only
  generalize (settle p s t').1 = a at *
  by_cases hsub : s.sub = true
  · -- the installed, subscribed transport
    obtain ⟨hin, hcn⟩ := h.sb hsub
    have hdn : s.down = false := by
      cases hd : s.down with
      | false => rfl
      | true => have := (h.dn hd).2.1; rw [hsub] at this; cases this
    have hrg : s.rg = .none := h.up hdn
    have hne : s.tr.cstate ≠ .closed := fun e => hcn (connOf_closed h.tr e)
    by_cases hf : 0 < o.eff.faults
    · have hcl := (hs.fcl hf).1
      have hr : react p a o.eff.faults =
          { a with down := true, inst := false, sub := false,
                   rg := .sleep (a.now + p.r.init) p.r.init, ups := a.ups + 1 } := by
        simp [react, hf, f10, hsub, onFault, f11, hdn]
      rw [hr]
      simp only [resume]
      refine ⟨⟨f1, ?_, ?_, ?_, ?_, ?_⟩, f6, f7⟩
      · intro _; simp
      · intro hx; simp at hx
      · intro hx; simp at hx
      · intro wk w hx
        simp only [RG.sleep.injEq] at hx
        obtain ⟨rfl, rfl⟩ := hx
        have := hp.pos; have := hp.le
        simp only
        exact ⟨by omega, fun _ => by omega, by omega, hp.pos, hp.le, by rw [f2]; exact hcl⟩
      · intro w hx; simp at hx
    · have hr : react p a o.eff.faults = a := by simp [react, hf]
      rw [hr]
      have hrs : resume p a t'.openRes = a := by simp [resume, f12, hrg]
      rw [hrs]
      have hncl : t'.cstate ≠ .closed := fun e => hf (hclf hsub hne e)
      have hcn' : connOf t' ≠ .none := by
        rcases tstep_conn h.tr hs with e | ⟨_, e⟩ | ⟨_, e⟩ | ⟨e, _⟩
        · rw [e]; exact hcn
        · rw [e]; simp
        · exfalso
          obtain ⟨h1, h2⟩ := connOf_none e
          rcases hs.st with e' | ⟨_, e'⟩ | ⟨_, e'⟩
          · -- same state, not closed, no connection: it was idle and is no longer opening
            cases hc : s.tr.cstate with
            | closed => exact hne hc
            | opened => exact h1 (by rw [e', hc])
            | idle =>
              have ho : s.tr.opening = true := by
                cases hx : s.tr.opening with
                | true => rfl
                | false =>
                  exfalso; apply hcn
                  simp [connOf, hc, hx]
              have := hs.keep ho (by rw [e', hc])
              rw [h2] at this; cases this
          · exact h1 e'
          · exact hncl e'
        · exact absurd e hcn
      refine ⟨⟨f1, ?_, ?_, ?_, ?_, ?_⟩, f6, f7⟩
      · intro hx; rw [f11, hdn] at hx; cases hx
      · intro _; rw [f12]; exact hrg
      · intro _; rw [f9, fc]; exact ⟨hin, hcn'⟩
      · intro wk w hx; rw [f12, hrg] at hx; cases hx
      · intro w hx; rw [f12, hrg] at hx; cases hx
  · have hsub' : s.sub = false := by simpa using hsub
    have hr : react p a o.eff.faults = a := by simp [react, f10, hsub']
    rw [hr]
    cases hrg : s.rg with
    | none =>
      have hrs : resume p a t'.openRes = a := by simp [resume, f12, hrg]
      rw [hrs]
      have hdn : s.down = false := by
        cases hd : s.down with
        | false => rfl
        | true => exact absurd hrg (h.dn hd).2.2
      refine ⟨⟨f1, ?_, ?_, ?_, ?_, ?_⟩, f6, f7⟩
      · intro hx; rw [f11, hdn] at hx; cases hx
      · intro _; rw [f12]; exact hrg
      · intro hx; rw [f10, hsub'] at hx; cases hx
      · intro wk w hx; rw [f12, hrg] at hx; cases hx
      · intro w hx; rw [f12, hrg] at hx; cases hx
    | sleep wk w =>
      have hrs : resume p a t'.openRes = a := by simp [resume, f12, hrg]
      rw [hrs]
      obtain ⟨s0, s1, s2, s3, s4, s5⟩ := h.sl wk w hrg
      have hdn : s.down = true := by
        cases hd : s.down with
        | true => rfl
        | false => have := h.up hd; rw [hrg] at this; cases this
      have hcl : t'.cstate = .closed := by
        rcases hs.st with e | ⟨e, _⟩ | ⟨e, _⟩
        · rw [e]; exact s5
        · have := (h.tr.core.cls s5).1; rw [e] at this; cases this
        · exact absurd s5 e
      refine ⟨⟨f1, ?_, ?_, ?_, ?_, ?_⟩, f6, f7⟩
      · intro _; rw [f9, f10, f12, hrg]; exact ⟨(h.dn hdn).1, hsub', by simp⟩
      · intro hx; rw [f11, hdn] at hx; cases hx
      · intro hx; rw [f10, hsub'] at hx; cases hx
      · intro wk' w' hx
        rw [f12, hrg] at hx
        simp only [RG.sleep.injEq] at hx
        obtain ⟨rfl, rfl⟩ := hx
        exact ⟨by rw [f6]; exact s0, by rw [f6]; exact s1, by rw [f6]; exact s2, s3, s4, by rw [f2]; exact hcl⟩
      · intro w' hx; rw [f12, hrg] at hx; cases hx
    | opening w =>
      obtain ⟨o1, o2, o3⟩ := h.og w hrg
      have hdn : s.down = true := by
        cases hd : s.down with
        | true => rfl
        | false => have := h.up hd; rw [hrg] at this; cases this
      have hin : s.inst = false := (h.dn hdn).1
      simp only [resume, f12, hrg]
      by_cases hok : t'.openRes = .ok
      · -- the handshake was answered: install
        have hop : t'.cstate = .opened := by
          cases hc : t'.cstate with
          | opened => rfl
          | idle => exact absurd hc (hs.inv.core.oro hok)
          | closed => have := hs.fail o1 hc; rw [hok] at this; cases this
        simp only [hok, if_true, resSuccess, f11, hdn]
        refine ⟨⟨f1, ?_, ?_, ?_, ?_, ?_⟩, f6, f7⟩
        · intro hx; simp at hx
        · intro _; rfl
        · intro _; exact ⟨rfl, by rw [fc, connOf_opened hop]; simp⟩
        · intro wk' w' hx; simp at hx
        · intro w' hx; simp at hx
      · by_cases hfl : t'.openRes = .failed
        · have hcl : t'.cstate = .closed := hs.inv.core.orf hfl
          simp only [hok, if_false, hfl, if_true, resFailure]
          have hw' := nextWait_pos p hp w o2 o3
          have hle := Res.nextWait_le_max p.r w
          refine ⟨⟨f1, ?_, ?_, ?_, ?_, ?_⟩, f6, f7⟩
          · intro _; show a.inst = false ∧ a.sub = false ∧ _; rw [f9, f10]; exact ⟨hin, hsub', by simp⟩
          · intro hx; change a.down = false at hx; rw [f11, hdn] at hx; cases hx
          · intro hx; change a.sub = true at hx; rw [f10, hsub'] at hx; cases hx
          · intro wk' w' hx
            change RG.sleep _ _ = RG.sleep wk' w' at hx
            injection hx with hx1 hx2
            subst hx1; subst hx2
            show a.now ≤ _ ∧ (_ → a.now < _) ∧ _ ≤ a.now + _ ∧ _ ∧ _ ∧ a.tr.cstate = _
            exact ⟨by omega, fun _ => by omega, by omega, hw', hle, by rw [f2]; exact hcl⟩
          · intro w' hx; simp at hx
        · -- still in its handshake
          have ho' : t'.opening = true := by
            cases hc : t'.cstate with
            | idle => exact hs.keep o1 hc
            | opened => exact absurd (hs.inv.core.opn hc).2.1 hok
            | closed => exact absurd (hs.fail o1 hc) hfl
          simp only [hok, if_false, hfl]
          refine ⟨⟨f1, ?_, ?_, ?_, ?_, ?_⟩, f6, f7⟩
          · intro _; rw [f9, f10, f12, hrg]; exact ⟨hin, hsub', by simp⟩
          · intro hx; rw [f11, hdn] at hx; cases hx
          · intro hx; rw [f10, hsub'] at hx; cases hx
          · intro wk' w' hx; rw [f12, hrg] at hx; cases hx
          · intro w' hx
            rw [f12, hrg] at hx
            simp only [RG.opening.injEq] at hx
            subst hx
            exact ⟨by rw [f3]; exact ho', o2, o3⟩

/-! ### a fresh transport and its connect -/

/-- a transport whose connect was accepted: Tping queued and being written, both loops alive -/
def tOk : MuxT.St :=
  { cstate := .idle, hasOpenResult := true, opening := true, openRes := .pending, tagMap := [], sendQ := [],
    sl := .writing .ping, rl := .hdr, pingLoop := false, pingWait := true, pending := [] }

/-- a transport whose connect was refused -/
def tRef : MuxT.St :=
  { cstate := .closed, hasOpenResult := false, opening := false, openRes := .failed, tagMap := [], sendQ := [],
    sl := .dead, rl := .dead, pingLoop := false, pingWait := false, pending := [] }

theorem connect_up (s : St) (h : s.reach = true) : connect s = (tOk, { eff := { conns := 1 } }) := by
  simp only [connect, h, if_true]; rfl

theorem connect_down (s : St) (h : s.reach = false) :
    connect s = (tRef, { eff := { faults := 1, dels := [], conns := 1 } }) := by
  simp only [connect, h]; rfl

theorem tinv_tOk : TInv tOk := by
  refine ⟨by simp [Inv0, tOk], rfl, ?_⟩
  constructor <;> simp [tOk]

theorem tinv_tRef : TInv tRef := by
  refine ⟨by simp [Inv0, tRef], rfl, ?_⟩
  constructor <;> simp [tRef]

theorem cinv_congr {p : P} {b : Bool} {s s' : St} (h : CInv p b s) (e1 : s'.tr = s.tr) (e2 : s'.down = s.down)
    (e3 : s'.inst = s.inst) (e4 : s'.sub = s.sub) (e5 : s'.rg = s.rg) (e6 : s'.now = s.now) : CInv p b s' := by
  refine ⟨by rw [e1]; exact h.tr, ?_, ?_, ?_, ?_, ?_⟩
  · rw [e2, e3, e4, e5]; exact h.dn
  · rw [e2, e5]; exact h.up
  · rw [e4, e3, e1]; exact h.sb
  · intro wk w; rw [e5, e6, e1]; exact h.sl wk w
  · intro w; rw [e5, e1]; exact h.og w

/-- before `Open()`: nothing exists yet -/
structure Pre (s : St) : Prop where
  tr : s.tr = MuxT.St.init
  inst : s.inst = false
  sub : s.sub = false
  down : s.down = false
  rg : s.rg = .none
  dl : s.pingDl = none
  due : s.pingDue = none

theorem pre_init : Pre {} := ⟨rfl, rfl, rfl, rfl, rfl, rfl, rfl⟩

/-- `Open()` on a chain that has never been opened -/
theorem doOpen_inv (p : P) (hp : PH p) (s : St) (hpre : Pre s) :
    CInv p true (doOpen p s).1 ∧ (doOpen p s).1.now = s.now ∧ (doOpen p s).1.reach = s.reach := by
  cases hr : s.reach with
  | true =>
    simp only [doOpen, hpre.inst, connect_up s hr, absorb, settle, react, resume, hpre.rg]
    simp only [MuxT.St.init, tOk]
    refine ⟨⟨?_, ?_, ?_, ?_, ?_, ?_⟩, rfl, by simp [hr]⟩
    · exact tinv_tOk
    · intro hx; simp [hpre.down] at hx
    · intro _; simp [hpre.rg]
    · intro _; exact ⟨by simp, by simp [connOf]⟩
    · intro wk w hx; simp [hpre.rg] at hx
    · intro w hx; simp [hpre.rg] at hx
  | false =>
    simp only [doOpen, hpre.inst, connect_down s hr, absorb, settle, react, resume, onFault, hpre.down,
      hpre.rg]
    simp only [MuxT.St.init, tRef]
    have := hp.pos; have := hp.le
    refine ⟨⟨?_, ?_, ?_, ?_, ?_, ?_⟩, by simp, by simp [hr]⟩
    · simpa [tRef] using tinv_tRef
    · intro _; simp
    · intro hx; simp at hx
    · intro hx; simp at hx
    · intro wk w hx
      simp at hx
      obtain ⟨rfl, rfl⟩ := hx
      simp
      omega
    · intro w hx; simp at hx

/-! ### the operations -/

theorem cinv_weaken {p : P} {s : St} (h : CInv p true s) : CInv p false s := by
  refine ⟨h.tr, h.dn, h.up, h.sb, ?_, h.og⟩
  intro wk w hx
  obtain ⟨a, b, c⟩ := h.sl wk w hx
  exact ⟨a, (fun hf => by cases hf), c⟩

theorem cinv_upgrade {p : P} {s : St} (h : CInv p false s) (hs : ∀ wk w, s.rg = .sleep wk w → s.now < wk) :
    CInv p true s := by
  refine ⟨h.tr, h.dn, h.up, h.sb, ?_, h.og⟩
  intro wk w hx
  obtain ⟨a, b, c⟩ := h.sl wk w hx
  exact ⟨a, fun _ => hs wk w hx, c⟩

/-- the retry greenlet wakes and connects -/
theorem resWake_inv (p : P) (hp : PH p) (s : St) (wk w : Nat) (h : CInv p false s) (hrg : s.rg = .sleep wk w) :
    CInv p true (resWake p s w).1 ∧ (resWake p s w).1.now = s.now ∧ (resWake p s w).1.reach = s.reach := by
  obtain ⟨_, _, _, w0, wm, _⟩ := h.sl wk w hrg
  have hdn : s.down = true := by
    cases hd : s.down with
    | true => rfl
    | false => have := h.up hd; rw [hrg] at this; cases this
  obtain ⟨hin, hsub, _⟩ := h.dn hdn
  cases hr : s.reach with
  | true =>
    simp only [resWake, connect_up s hr, absorb, settle, react, resume]
    simp only [MuxT.St.init, tOk]
    refine ⟨⟨?_, ?_, ?_, ?_, ?_, ?_⟩, rfl, by simp [hr]⟩
    · exact tinv_tOk
    · intro _; simp [hin, hsub]
    · intro hx; simp [hdn] at hx
    · intro hx; simp [hsub] at hx
    · intro wk' w' hx; simp at hx
    · intro w' hx
      simp at hx
      subst hx
      exact ⟨rfl, w0, wm⟩
  | false =>
    simp only [resWake, connect_down s hr, absorb, settle, react, resume, hsub, resFailure]
    simp only [MuxT.St.init, tRef]
    have hw' := nextWait_pos p hp w w0 wm
    have hle := Res.nextWait_le_max p.r w
    refine ⟨⟨?_, ?_, ?_, ?_, ?_, ?_⟩, by simp, by simp [hr]⟩
    · simpa [tRef] using tinv_tRef
    · intro _; simp [hin, hsub]
    · intro hx; simp [hdn] at hx
    · intro hx; simp [hsub] at hx
    · intro wk' w' hx
      simp at hx
      obtain ⟨rfl, rfl⟩ := hx
      simp
      omega
    · intro w' hx; simp at hx

theorem optMin_some_le (a : Option Nat) (x : Nat) : ∃ m, optMin a (some x) = some m ∧ m ≤ x := by
  cases a with
  | none => exact ⟨x, rfl, Nat.le_refl _⟩
  | some y => exact ⟨min y x, rfl, Nat.min_le_right _ _⟩

theorem nextTimer_sleep (s : St) (wk w : Nat) (h : s.rg = .sleep wk w) :
    ∃ m, nextTimer s = some m ∧ m ≤ wk := by
  unfold nextTimer
  rw [h]
  exact optMin_some_le _ wk

theorem tickPing_inv (p : P) (hp : PH p) (s : St) (h : CInv p false s) :
    CInv p false (tickPing p s).1 ∧ (tickPing p s).1.now = s.now ∧ (tickPing p s).1.reach = s.reach := by
  unfold tickPing
  by_cases hd : due s.pingDl s.now = true
  · rw [if_pos hd]
    obtain ⟨ts, tk⟩ := tstep_pingSilence h.tr
    apply absorb_inv p hp false s _ _ h ts
    intro _ hne hcl
    rcases tk with ⟨_, f, _⟩ | ⟨e, _⟩
    · omega
    · rw [e] at hcl; exact absurd hcl hne
  · rw [if_neg hd]; exact ⟨h, rfl, rfl⟩

theorem tickLoop_inv (p : P) (hp : PH p) (s : St) (h : CInv p false s) :
    CInv p false (tickLoop p s).1 ∧ (tickLoop p s).1.now = s.now ∧ (tickLoop p s).1.reach = s.reach := by
  unfold tickLoop
  by_cases hd : due s.pingDue s.now = true
  · rw [if_pos hd]
    obtain ⟨ts, tc, _⟩ := tstep_pingDue h.tr
    obtain ⟨a, b, c⟩ := absorb_inv p hp false s _ _ h ts (by
      intro _ hne hcl; rw [tc] at hcl; exact absurd hcl hne)
    exact ⟨cinv_congr a rfl rfl rfl rfl rfl rfl, b, c⟩
  · rw [if_neg hd]; exact ⟨h, rfl, rfl⟩

theorem tickWake_inv (p : P) (hp : PH p) (s : St) (h : CInv p false s) :
    CInv p true (tickWake p s).1 ∧ (tickWake p s).1.now = s.now ∧ (tickWake p s).1.reach = s.reach := by
  unfold tickWake
  cases hrg : s.rg with
  | none => exact ⟨cinv_upgrade h (by intro wk w hx; rw [hrg] at hx; cases hx), rfl, rfl⟩
  | opening w => exact ⟨cinv_upgrade h (by intro wk w hx; rw [hrg] at hx; cases hx), rfl, rfl⟩
  | sleep wk w =>
    by_cases hdue : wk ≤ s.now
    · simp only []
      rw [if_pos hdue]
      exact resWake_inv p hp s wk w h hrg
    · simp only []
      rw [if_neg hdue]
      refine ⟨cinv_upgrade h ?_, rfl, rfl⟩
      intro wk' w' hx
      rw [hrg] at hx
      injection hx with e1 e2
      subst e1
      show s.now < wk
      omega

theorem doTick_inv (p : P) (hp : PH p) (s : St) (d : Nat) (h : CInv p true s)
    (hw : ∀ wk w, s.rg = .sleep wk w → s.now + d ≤ wk) :
    CInv p true (doTick p s d).1 ∧ (doTick p s d).1.now = s.now + d ∧ (doTick p s d).1.reach = s.reach := by
  -- the clock has moved
  have h0 : CInv p false ({ s with now := s.now + d } : St) := by
    refine ⟨h.tr, h.dn, h.up, h.sb, ?_, h.og⟩
    intro wk w hx
    obtain ⟨a, b, c, e⟩ := h.sl wk w hx
    have := hw wk w hx
    exact ⟨this, (fun hf => by cases hf), (by show wk ≤ s.now + d + p.r.maxW; omega), e⟩
  obtain ⟨c1, n1, q1⟩ := tickPing_inv p hp _ h0
  obtain ⟨c2, n2, q2⟩ := tickLoop_inv p hp _ c1
  obtain ⟨c3, n3, q3⟩ := tickWake_inv p hp _ c2
  unfold doTick
  exact ⟨c3, by rw [n3, n2, n1], by rw [q3, q2, q1]⟩

theorem doReq_inv (p : P) (hp : PH p) (s : St) (id : Nat) (h : CInv p true s) :
    CInv p true (doReq p s id).1 ∧ (doReq p s id).1.now = s.now ∧ (doReq p s id).1.reach = s.reach := by
  unfold doReq
  by_cases hin : s.inst = false
  · rw [if_pos hin]; exact ⟨h, rfl, rfl⟩
  · rw [if_neg hin]
    by_cases ho : s.tr.opening = true
    · rw [if_pos ho]
      exact ⟨cinv_congr h rfl rfl rfl rfl rfl rfl, rfl, rfl⟩
    · rw [if_neg ho]
      obtain ⟨ts, tc, _⟩ := tstep_request h.tr (by simpa using ho) id (tagOf id)
      exact absorb_inv p hp true s _ _ h ts (by intro _ hne hcl; rw [tc] at hcl; exact absurd hcl hne)

theorem doWr_inv (p : P) (hp : PH p) (s : St) (o : IOOut) (h : CInv p true s)
    (hen : isWriting s.tr.sl = true) :
    CInv p true (doWr p s o).1 ∧ (doWr p s o).1.now = s.now ∧ (doWr p s o).1.reach = s.reach := by
  unfold doWr
  cases hsl : s.tr.sl with
  | dead => rw [hsl] at hen; cases hen
  | waitQ => rw [hsl] at hen; cases hen
  | writing it =>
    by_cases ho : o = .ok
    · subst ho
      obtain ⟨ts, tc, _⟩ := tstep_wr_ok h.tr it hsl
      exact absorb_inv p hp true s _ _ h ts (by intro _ hne hcl; rw [tc] at hcl; exact absurd hcl hne)
    · obtain ⟨ts, _, tf⟩ := tstep_wr_fail h.tr it hsl o ho
      exact absorb_inv p hp true s _ _ h ts (by intro _ _ _; omega)

theorem doBurst_inv (p : P) (hp : PH p) (s : St) (rs : List (IOOut × Frame)) (h : CInv p true s)
    (hen : s.tr.rl ≠ .dead) :
    CInv p true (doBurst p s rs).1 ∧ (doBurst p s rs).1.now = s.now ∧ (doBurst p s rs).1.reach = s.reach := by
  unfold doBurst
  by_cases hex : ∃ r ∈ rs, r.1 ≠ IOOut.ok
  · obtain ⟨ts, _, tf⟩ := tstep_burst_fail h.tr hen rs hex
    exact absorb_inv p hp true s _ _ h ts (by intro _ _ _; omega)
  · have hall : ∀ r ∈ rs, r.1 = IOOut.ok :=
      fun r hr => Decidable.byContradiction (fun hne => hex ⟨r, hr, hne⟩)
    obtain ⟨ts, _, _, tc⟩ := tstep_burst_ok h.tr hen rs hall
    apply absorb_inv p hp true s _ _ h ts
    intro _ hne hcl
    split at tc
    · rw [tc] at hcl; cases hcl
    · rw [tc.1] at hcl; exact absurd hcl hne

theorem doRace_inv (p : P) (hp : PH p) (s : St) (f : Frame) (o : IOOut) (h : CInv p true s)
    (hen : s.tr.rl = .body) (ho : o ≠ .ok) :
    CInv p true (doRace p s f o).1 ∧ (doRace p s f o).1.now = s.now ∧ (doRace p s f o).1.reach = s.reach := by
  unfold doRace
  obtain ⟨ts, _, tf⟩ := tstep_race h.tr hen f o ho
  exact absorb_inv p hp true s _ _ h ts (by intro _ _ _; exact tf)

theorem doClose_inv (p : P) (hp : PH p) (s : St) (h : CInv p true s) :
    CInv p true (doClose p s).1 ∧ (doClose p s).1.now = s.now ∧ (doClose p s).1.reach = s.reach ∧
    (doClose p s).1.rg = .none ∧ (doClose p s).1.sub = false ∧ (doClose p s).1.down = false := by
  unfold doClose
  simp only
  have h1 : CInv p true ({ s with rg := .none, down := false, sub := false } : St) := by
    refine ⟨h.tr, ?_, ?_, ?_, ?_, ?_⟩
    · intro hx; simp at hx
    · intro _; rfl
    · intro hx; simp at hx
    · intro wk w hx; simp at hx
    · intro w hx; simp at hx
  by_cases hin : s.inst = true
  · rw [if_pos hin]
    obtain ⟨ts, _, tf⟩ := tstep_close h.tr
    obtain ⟨a, b, c⟩ := absorb_inv p hp true _ _ _ h1 ts (by intro hx; simp at hx)
    refine ⟨a, b, c, ?_⟩
    -- nothing reacts: not subscribed, no retry greenlet
    obtain ⟨f1, f2, f3, f4, f5, f6, f7, f8, f9, f10, f11, f12, f13⟩ :=
      settle_facts p ({ s with rg := .none, down := false, sub := false } : St) s.tr.close.1 ts.inv
    simp only [absorb, react, f10, resume, f12]
    simp [f10, f11, f12]
  · rw [if_neg hin]
    refine ⟨?_, rfl, rfl, rfl, ?_, rfl⟩
    · refine ⟨h.tr, ?_, ?_, ?_, ?_, ?_⟩
      · intro hx; simp at hx
      · intro _; rfl
      · intro hx; exact absurd (h.sb hx).1 hin
      · intro wk w hx; simp at hx
      · intro w hx; simp at hx
    · cases hs : s.sub with
      | false => rfl
      | true => exact absurd (h.sb hs).1 hin

/-- the state after an operation list -/
def runOps (p : P) (s : St) (ops : List Op) : St := ops.foldl (fun s op => (stepSt p s op).1) s

/-- what holds along every admissible history: the invariant; nothing exists before `Open()`;
    after `Close()` nothing is subscribed, no retry greenlet lives, not down -/
structure GInv (p : P) (s : St) (opened closed : Bool) : Prop where
  inv : CInv p true s
  pre : opened = false → Pre s
  post : closed = true → s.rg = .none ∧ s.sub = false ∧ s.down = false
  ord : closed = true → opened = true

theorem ginv_init (p : P) : GInv p {} false false :=
  ⟨cinv_init p, fun _ => pre_init, (fun h => by cases h), (fun h => by cases h)⟩

theorem pre_no_io {s : St} (h : Pre s) : s.tr.sl = .dead ∧ s.tr.rl = .dead := by
  rw [h.tr]; exact ⟨rfl, rfl⟩

/-- after `Close()`: nothing reacts to the transport any more -/
theorem absorb_post (p : P) (s : St) (t' : MuxT.St) (o : MuxT.Out) (ht : TInv t')
    (h : s.rg = .none ∧ s.sub = false ∧ s.down = false) :
    (absorb p s t' o).1.rg = .none ∧ (absorb p s t' o).1.sub = false ∧ (absorb p s t' o).1.down = false ∧
    (absorb p s t' o).2.conns = o.eff.conns ∧ TInv (absorb p s t' o).1.tr := by
  obtain ⟨f1, f2, f3, f4, f5, f6, f7, f8, f9, f10, f11, f12, f13⟩ := settle_facts p s t' ht
  simp only [absorb, react, f10, h.2.1, resume, f12, h.1]
  simp [f10, f11, f12, h.1, h.2.1, h.2.2, f1]

theorem tickPing_none (p : P) (s : St) (h : s.pingDl = none) : tickPing p s = (s, {}) := by
  simp [tickPing, h, due]

theorem tickLoop_none (p : P) (s : St) (h : s.pingDue = none) : tickLoop p s = (s, {}) := by
  simp [tickLoop, h, due]

theorem tickWake_none (p : P) (s : St) (h : s.rg = .none) : tickWake p s = (s, {}) := by
  simp [tickWake, h]

theorem step_ginv (p : P) (hp : PH p) (s : St) (opened closed : Bool) (seen : List Nat) (op : Op)
    (h : GInv p s opened closed) (hok : opOk s opened closed seen op = true) :
    GInv p (stepSt p s op).1 (opened || isOpn op) (closed || isClose op) := by
  cases op with
  | opn =>
    simp only [opOk, Bool.and_eq_true, Bool.not_eq_true'] at hok
    obtain ⟨a, _, _⟩ := doOpen_inv p hp s (h.pre hok.1)
    refine ⟨a, by simp [isOpn], ?_, by simp [isOpn]⟩
    intro hx; simp [isClose, hok.2] at hx
  | req id =>
    obtain ⟨a, _, _⟩ := doReq_inv p hp s id h.inv
    refine ⟨a, ?_, ?_, by simpa [isOpn, isClose] using h.ord⟩
    · intro hx
      have hx' : opened = false := by simpa [isOpn] using hx
      have hpre := h.pre hx'
      simp only [stepSt, doReq, hpre.inst, if_true]
      exact hpre
    · intro hx
      have hx' : closed = true := by simpa [isClose] using hx
      obtain ⟨q1, q2, q3⟩ := h.post hx'
      simp only [stepSt, doReq]
      by_cases hin : s.inst = false
      · rw [if_pos hin]; exact ⟨q1, q2, q3⟩
      · rw [if_neg hin]
        by_cases ho : s.tr.opening = true
        · rw [if_pos ho]; exact ⟨q1, q2, q3⟩
        · rw [if_neg ho]
          obtain ⟨ts, _⟩ := tstep_request h.inv.tr (by simpa using ho) id (tagOf id)
          obtain ⟨r1, r2, r3, _⟩ := absorb_post p s _ (s.tr.request id (tagOf id)).2 ts.inv ⟨q1, q2, q3⟩
          exact ⟨r1, r2, r3⟩
  | wr o =>
    simp only [opOk, Bool.and_eq_true, decide_eq_true_eq] at hok
    obtain ⟨a, _, _⟩ := doWr_inv p hp s o h.inv hok.1
    refine ⟨a, ?_, ?_, by simpa [isOpn, isClose] using h.ord⟩
    · intro hx
      have hx' : opened = false := by simpa [isOpn] using hx
      have := (pre_no_io (h.pre hx')).1
      rw [this] at hok; simp [isWriting] at hok
    · intro hx
      have hx' : closed = true := by simpa [isClose] using hx
      cases hsl : s.tr.sl with
      | dead => rw [hsl] at hok; simp [isWriting] at hok
      | waitQ => rw [hsl] at hok; simp [isWriting] at hok
      | writing it =>
        have ht : TInv (s.tr.wr o).1 := by
          by_cases ho : o = .ok
          · subst ho; exact (tstep_wr_ok h.inv.tr it hsl).1.inv
          · exact (tstep_wr_fail h.inv.tr it hsl o ho).1.inv
        obtain ⟨r1, r2, r3, _⟩ := absorb_post p s _ (s.tr.wr o).2 ht (h.post hx')
        exact ⟨r1, r2, r3⟩
  | rd o f =>
    simp only [opOk, decide_eq_true_eq] at hok
    obtain ⟨a, _, _⟩ := doBurst_inv p hp s [(o, f.toFrame)] h.inv hok
    refine ⟨a, ?_, ?_, by simpa [isOpn, isClose] using h.ord⟩
    · intro hx
      have hx' : opened = false := by simpa [isOpn] using hx
      exact absurd (pre_no_io (h.pre hx')).2 hok
    · intro hx
      have hx' : closed = true := by simpa [isClose] using hx
      have ht : TInv (s.tr.burst [(o, f.toFrame)]).1 := by
        have := inv_step s.tr (.burst [(o, f.toFrame)]) (inv_of _ h.inv.tr)
        by_cases hex : ∃ r ∈ [(o, f.toFrame)], r.1 ≠ IOOut.ok
        · exact (tstep_burst_fail h.inv.tr hok _ hex).1.inv
        · exact (tstep_burst_ok h.inv.tr hok _
            (fun r hr => Decidable.byContradiction (fun hne => hex ⟨r, hr, hne⟩))).1.inv
      obtain ⟨r1, r2, r3, _⟩ := absorb_post p s _ (s.tr.burst [(o, f.toFrame)]).2 ht (h.post hx')
      exact ⟨r1, r2, r3⟩
  | burst rs =>
    simp only [opOk, decide_eq_true_eq] at hok
    obtain ⟨a, _, _⟩ := doBurst_inv p hp s (toReads rs) h.inv hok
    refine ⟨a, ?_, ?_, by simpa [isOpn, isClose] using h.ord⟩
    · intro hx
      have hx' : opened = false := by simpa [isOpn] using hx
      exact absurd (pre_no_io (h.pre hx')).2 hok
    · intro hx
      have hx' : closed = true := by simpa [isClose] using hx
      have ht : TInv (s.tr.burst (toReads rs)).1 := by
        by_cases hex : ∃ r ∈ toReads rs, r.1 ≠ IOOut.ok
        · exact (tstep_burst_fail h.inv.tr hok _ hex).1.inv
        · exact (tstep_burst_ok h.inv.tr hok _
            (fun r hr => Decidable.byContradiction (fun hne => hex ⟨r, hr, hne⟩))).1.inv
      obtain ⟨r1, r2, r3, _⟩ := absorb_post p s _ (s.tr.burst (toReads rs)).2 ht (h.post hx')
      exact ⟨r1, r2, r3⟩
  | race f o =>
    simp only [opOk, Bool.and_eq_true, decide_eq_true_eq] at hok
    obtain ⟨a, _, _⟩ := doRace_inv p hp s f.toFrame o h.inv hok.1 hok.2
    refine ⟨a, ?_, ?_, by simpa [isOpn, isClose] using h.ord⟩
    · intro hx
      have hx' : opened = false := by simpa [isOpn] using hx
      have := (pre_no_io (h.pre hx')).2
      rw [this] at hok; cases hok.1
    · intro hx
      have hx' : closed = true := by simpa [isClose] using hx
      obtain ⟨ts, _⟩ := tstep_race h.inv.tr hok.1 f.toFrame o hok.2
      obtain ⟨r1, r2, r3, _⟩ := absorb_post p s _ (raceT s.tr f.toFrame o).2 ts.inv (h.post hx')
      exact ⟨r1, r2, r3⟩
  | tick d =>
    simp only [opOk, Bool.and_eq_true, decide_eq_true_eq] at hok
    have hw : ∀ wk w, s.rg = .sleep wk w → s.now + d ≤ wk := by
      intro wk w hx
      obtain ⟨m, hm, hle⟩ := nextTimer_sleep s wk w hx
      have := hok.2
      rw [hm] at this
      simp at this
      omega
    obtain ⟨a, _, _⟩ := doTick_inv p hp s d h.inv hw
    refine ⟨a, ?_, ?_, by simpa [isOpn, isClose] using h.ord⟩
    · intro hx
      have hx' : opened = false := by simpa [isOpn] using hx
      have hpre := h.pre hx'
      simp only [stepSt, doTick]
      rw [tickPing_none p { s with now := s.now + d } hpre.dl, tickLoop_none p { s with now := s.now + d } hpre.due,
        tickWake_none p { s with now := s.now + d } hpre.rg]
      exact ⟨hpre.tr, hpre.inst, hpre.sub, hpre.down, hpre.rg, hpre.dl, hpre.due⟩
    · intro hx
      have hx' : closed = true := by simpa [isClose] using hx
      obtain ⟨q1, q2, q3⟩ := h.post hx'
      simp only [stepSt, doTick]
      -- the ping helper
      have p1 : (tickPing p { s with now := s.now + d }).1.rg = .none ∧
          (tickPing p { s with now := s.now + d }).1.sub = false ∧
          (tickPing p { s with now := s.now + d }).1.down = false ∧
          TInv (tickPing p { s with now := s.now + d }).1.tr := by
        unfold tickPing
        by_cases hd : due ({ s with now := s.now + d } : St).pingDl ({ s with now := s.now + d } : St).now = true
        · rw [if_pos hd]
          obtain ⟨ts, _⟩ := tstep_pingSilence h.inv.tr
          obtain ⟨r1, r2, r3, _, r5⟩ := absorb_post p ({ s with now := s.now + d } : St) _
            s.tr.pingSilence.2 ts.inv ⟨q1, q2, q3⟩
          exact ⟨r1, r2, r3, r5⟩
        · rw [if_neg hd]; exact ⟨q1, q2, q3, h.inv.tr⟩
      generalize (tickPing p { s with now := s.now + d }).1 = s1 at p1
      have p2 : (tickLoop p s1).1.rg = .none ∧ (tickLoop p s1).1.sub = false ∧ (tickLoop p s1).1.down = false := by
        unfold tickLoop
        by_cases hd : due s1.pingDue s1.now = true
        · rw [if_pos hd]
          obtain ⟨ts, _⟩ := tstep_pingDue p1.2.2.2
          obtain ⟨r1, r2, r3, _⟩ := absorb_post p s1 _ s1.tr.pingDue.2 ts.inv ⟨p1.1, p1.2.1, p1.2.2.1⟩
          exact ⟨r1, r2, r3⟩
        · rw [if_neg hd]; exact ⟨p1.1, p1.2.1, p1.2.2.1⟩
      generalize (tickLoop p s1).1 = s2 at p2
      rw [tickWake_none p s2 p2.1]
      exact p2
  | reach up =>
    refine ⟨cinv_congr h.inv rfl rfl rfl rfl rfl rfl, ?_, ?_, by simpa [isOpn, isClose] using h.ord⟩
    · intro hx
      have hx' : opened = false := by simpa [isOpn] using hx
      have hpre := h.pre hx'
      exact ⟨hpre.tr, hpre.inst, hpre.sub, hpre.down, hpre.rg, hpre.dl, hpre.due⟩
    · intro hx
      have hx' : closed = true := by simpa [isClose] using hx
      exact h.post hx'
  | close =>
    simp only [opOk, Bool.and_eq_true, Bool.not_eq_true'] at hok
    obtain ⟨a, _, _, r1, r2, r3⟩ := doClose_inv p hp s h.inv
    refine ⟨a, ?_, fun _ => ⟨r1, r2, r3⟩, ?_⟩
    · intro hx; simp [hok.1] at hx
    · intro _; simp [hok.1]

theorem run_ginv (p : P) (hp : PH p) : ∀ (ops : List Op) (s : St) (opened closed : Bool) (seen : List Nat),
    GInv p s opened closed → wfGo p s opened closed seen ops = true →
    ∃ o c, GInv p (runOps p s ops) o c := by
  intro ops
  induction ops with
  | nil => intro s o c _ h _; exact ⟨o, c, h⟩
  | cons op rest ih =>
    intro s o c seen h hw
    simp only [wfGo, Bool.and_eq_true] at hw
    exact ih _ _ _ _ (step_ginv p hp s o c seen op h hw.1) hw.2

end Scales.ResMux
