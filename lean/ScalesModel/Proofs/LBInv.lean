import ScalesModel.Proofs.ApertureInv

/-!
  The balancer as a whole (Model/LBBase.lean over Model/Aperture.lean, stepped by Adapter/LB.lean):
  `Full` — partition of `_servers` into active and idle endpoints, lower bound, decision log — holds
  after every operation of every operation list in which the initial list is loaded at most once.
-/
namespace Scales.LB
open Scales.Heap Scales.Aperture Scales.LBBase

@[simp] theorem sub_servers (cfg : Cfg) (a : AS) : (sub cfg).servers a = a.hs.servers := rfl
@[simp] theorem sub_onAdd (cfg : Cfg) (a : AS) (ep : Nat) : (sub cfg).onAdd a ep = a.addSink cfg ep := rfl
@[simp] theorem sub_onRemove (cfg : Cfg) (a : AS) (ep : Nat) : (sub cfg).onRemove a ep = a.removeSink cfg ep := rfl
@[simp] theorem sub_openInitial (cfg : Cfg) (a : AS) : (sub cfg).openInitial a = a.openInitial cfg := rfl
@[simp] theorem sub_openReady (cfg : Cfg) (a : AS) : (sub cfg).openReady a = a.openAr := rfl
@[simp] theorem sub_request (cfg : Cfg) (a : AS) : (sub cfg).request a = a.get cfg := rfl
@[simp] theorem sub_settle (cfg : Cfg) (a : AS) : (sub cfg).settle a = a.settle cfg := rfl

/-- `_servers = l` -/
def withServers (a : AS) (l : List Nat) : AS := { a with hs := { a.hs with servers := l } }
@[simp] theorem sub_setServers (cfg : Cfg) (a : AS) (l : List Nat) : (sub cfg).setServers a l = withServers a l := rfl
@[simp] theorem withServers_servers (a : AS) (l : List Nat) : (withServers a l).hs.servers = l := rfl

structure Full (cfg : Cfg) (a : AS) : Prop where
  inv : PInv cfg a
  /-- the eligible endpoints are exactly the keys of `_servers` -/
  part : ∀ x, x ∈ E a ↔ x ∈ a.hs.servers
  snodup : a.hs.servers.Nodup
  lbd : LBd cfg a
  log : LogOk cfg a

theorem Full.stable {cfg : Cfg} {a a' : AS} (h : Full cfg a) (st : Stable cfg a a') : Full cfg a' :=
  ⟨st.inv, fun x => by rw [st.mem, st.servers]; exact h.part x, by rw [st.servers]; exact h.snodup,
   st.lbd h.lbd, st.log h.log⟩

theorem Full.init (cfg : Cfg) : Full cfg AS.init := by
  refine ⟨⟨?_, ?_, fun _ => ⟨rfl, rfl⟩⟩, ?_, ?_, Or.inr rfl, ?_⟩
  · constructor
    · intro p h1 h2; simp [AS.init, HS.init, HS.size] at h2; omega
    · intro p q h1 h2; simp [AS.init, HS.init, HS.size] at h2; omega
    · intro p h1 h2; simp [AS.init, HS.init, HS.size] at h2; omega
    · intro id h; simp [AS.init, HS.init] at h
  · simp [E, heapEps, AS.init, HS.init]
  · intro x; simp [E, heapEps, AS.init, HS.init]
  · simp [AS.init, HS.init]
  · intro r hr; simp [AS.init] at hr

/-- writing `_servers` does not concern the subclass invariants -/
theorem setServers_PInv {cfg : Cfg} {a : AS} (inv : PInv cfg a) (l : List Nat) :
    PInv cfg (withServers a l) ∧ E (withServers a l) = E a := by
  refine ⟨⟨WF_of_same inv.wf rfl rfl (fun _ => rfl), inv.nodup, inv.kind⟩, rfl⟩

theorem addServer_full {cfg : Cfg} {a : AS} (h : Full cfg a) (ep : Nat) :
    Full cfg (addServer (sub cfg) a ep) ∧
    (addServer (sub cfg) a ep).hs.servers = (if ep ∈ a.hs.servers then a.hs.servers else a.hs.servers ++ [ep]) := by
  unfold addServer
  simp only [sub_servers, sub_onAdd, sub_setServers]
  by_cases hm : ep ∈ a.hs.servers
  · simp only [hm, if_true]; exact ⟨h, trivial⟩
  · simp only [hm, if_false]
    obtain ⟨inv1, e1⟩ := setServers_PInv h.inv (a.hs.servers ++ [ep])
    have hep : ep ∉ E (withServers a (a.hs.servers ++ [ep])) := by
      rw [e1, h.part]; exact hm
    obtain ⟨i2, m2, s2, l2, g2⟩ := addSink_member cfg inv1 ep hep
    rw [withServers_servers] at s2
    refine ⟨⟨i2, ?_, ?_, l2 h.lbd, g2 h.log⟩, s2⟩
    · intro x
      rw [m2, s2, e1, h.part, List.mem_append, List.mem_singleton]
    · rw [s2]
      refine List.Nodup.append h.snodup (List.nodup_singleton _) ?_
      intro x hx hy
      rw [List.mem_singleton] at hy; subst hy; exact hm hx

theorem removeServer_full {cfg : Cfg} {a : AS} (h : Full cfg a) (ep : Nat) :
    Full cfg (removeServer (sub cfg) a ep) ∧
    (removeServer (sub cfg) a ep).hs.servers = a.hs.servers.filter (· ≠ ep) := by
  unfold removeServer
  simp only [sub_servers, sub_onRemove, sub_setServers]
  obtain ⟨inv1, e1⟩ := setServers_PInv h.inv (a.hs.servers.filter (· ≠ ep))
  obtain ⟨i2, m2, s2, l2, g2⟩ := removeSink_member cfg inv1 ep
  rw [withServers_servers] at s2
  refine ⟨⟨i2, ?_, ?_, l2 h.lbd, g2 h.log⟩, s2⟩
  · intro x
    rw [m2, s2, e1, h.part, List.mem_filter]; simp
  · rw [s2]; exact h.snodup.filter _

theorem applyNotif_full {cfg : Cfg} {a : AS} (h : Full cfg a) (n : Notif) : Full cfg (applyNotif (sub cfg) a n) := by
  cases n with
  | join ep => exact (addServer_full h ep).1
  | leave ep => exact (removeServer_full h ep).1

theorem foldl_applyNotif_full {cfg : Cfg} (ns : List Notif) : ∀ {a : AS}, Full cfg a →
    Full cfg (ns.foldl (applyNotif (sub cfg)) a) := by
  induction ns with
  | nil => intro a h; exact h
  | cons n ns ih => intro a h; exact ih (applyNotif_full h n)

theorem foldl_addServer_full {cfg : Cfg} (l : List Nat) : ∀ {a : AS}, Full cfg a →
    Full cfg (l.foldl (addServer (sub cfg)) a) := by
  induction l with
  | nil => intro a h; exact h
  | cons n ns ih => intro a h; exact ih (addServer_full h n).1

/-- `_servers` after a list of callbacks has been applied: the same arithmetic as the reference -/
def stepRef (ref : List Nat) : Notif → List Nat
  | .join ep => if ep ∈ ref then ref else ref ++ [ep]
  | .leave ep => ref.filter (· ≠ ep)

def applyRef (ns : List Notif) (ref : List Nat) : List Nat := ns.foldl stepRef ref

theorem applyNotif_servers {cfg : Cfg} {a : AS} (h : Full cfg a) (n : Notif) :
    (applyNotif (sub cfg) a n).hs.servers = stepRef a.hs.servers n := by
  cases n with
  | join ep => exact (addServer_full h ep).2
  | leave ep => exact (removeServer_full h ep).2

theorem foldl_applyNotif_servers {cfg : Cfg} (ns : List Notif) : ∀ {a : AS}, Full cfg a →
    (ns.foldl (applyNotif (sub cfg)) a).hs.servers = applyRef ns a.hs.servers := by
  induction ns with
  | nil => intro a _; rfl
  | cons n ns ih =>
    intro a h
    simp only [List.foldl_cons, applyRef]
    rw [ih (applyNotif_full h n), applyNotif_servers h n]; rfl

theorem foldl_addServer_servers {cfg : Cfg} (l : List Nat) : ∀ {a : AS}, Full cfg a →
    (l.foldl (addServer (sub cfg)) a).hs.servers = applyRef (l.map Notif.join) a.hs.servers := by
  induction l with
  | nil => intro a _; rfl
  | cons n ns ih =>
    intro a h
    simp only [List.foldl_cons, List.map_cons, applyRef]
    rw [ih (addServer_full h n).1, (addServer_full h n).2]; rfl

theorem Full.withServers_nil {cfg : Cfg} {a : AS} (h : Full cfg a) (hs : a.hs.servers = []) :
    Full cfg (withServers a []) := by
  obtain ⟨i, e⟩ := setServers_PInv h.inv []
  refine ⟨i, ?_, List.nodup_nil, h.lbd, h.log⟩
  intro x; rw [e, h.part, hs]; rfl

theorem Full.feed {cfg : Cfg} {lb : St} (h : Full cfg lb.sub) (e : Env) : Full cfg (feed lb e).sub :=
  ⟨⟨h.inv.wf, h.inv.nodup, h.inv.kind⟩, h.part, h.snodup, h.lbd, fun r hr => by cases hr⟩

theorem flush_spec (cfg : Cfg) (q : List (Option Bool)) : ∀ {a : AS}, PInv cfg a →
    Stable cfg a (flush (sub cfg) q a).1 ∧
    (∀ g ∈ (flush (sub cfg) q a).2, ∀ nid ep r, g = some (GetRes.node nid ep r) → ep ∈ E (flush (sub cfg) q a).1) := by
  induction q with
  | nil => intro a inv; exact ⟨Stable.refl inv, fun g hg => by cases hg⟩
  | cons e q ih =>
    intro a inv
    unfold flush
    split
    · simp only [sub_request]
      obtain ⟨s1, r1⟩ := get_spec cfg inv
      obtain ⟨s2, r2⟩ := ih s1.inv
      refine ⟨s1.trans s2, ?_⟩
      intro g hg nid ep r he
      rcases List.mem_cons.1 hg with hg | hg
      · rw [s2.mem]; subst hg; injection he with he; exact r1 nid ep r he
      · exact r2 g hg nid ep r he
    · obtain ⟨s2, r2⟩ := ih inv
      refine ⟨s2, ?_⟩
      intro g hg nid ep r he
      rcases List.mem_cons.1 hg with hg | hg
      · subst hg; cases he
      · exact r2 g hg nid ep r he

theorem finish_spec (cfg : Cfg) (lb : St) (inv : PInv cfg lb.sub) :
    Stable cfg lb.sub (lb.finish (sub cfg)).1.sub ∧
    (lb.finish (sub cfg)).1.initDone = lb.initDone ∧ (lb.finish (sub cfg)).1.blocked = lb.blocked ∧
    (∀ g ∈ (lb.finish (sub cfg)).2, ∀ nid ep r, g = some (GetRes.node nid ep r) → ep ∈ E (lb.finish (sub cfg)).1.sub) := by
  unfold LB.finish
  by_cases h0 : (sub cfg).openReady lb.sub = true ∧ lb.queued ≠ []
  · simp only [if_pos h0]
    obtain ⟨s2, r2⟩ := flush_spec cfg lb.queued inv
    have s3 := settle_spec cfg s2.inv
    refine ⟨s2.trans s3, trivial, trivial, ?_⟩
    intro g hg nid ep r he
    exact (s3.mem ep).2 (r2 g hg nid ep r he)
  · simp only [if_neg h0]
    have s1 := settle_spec cfg inv
    by_cases hc : (sub cfg).openReady ((sub cfg).settle lb.sub) = true ∧ lb.queued ≠ []
    · simp only [if_pos hc]
      obtain ⟨s2, r2⟩ := flush_spec cfg lb.queued s1.inv
      have s3 := settle_spec cfg s2.inv
      refine ⟨s1.trans (s2.trans s3), trivial, trivial, ?_⟩
      intro g hg nid ep r he
      exact (s3.mem ep).2 (r2 g hg nid ep r he)
    · simp only [if_neg hc]
      exact ⟨s1, trivial, trivial, fun g hg => by cases hg⟩

theorem tapesRead_sub (lb : St) : (tapesRead lb).sub.hs = lb.sub.hs ∧ (tapesRead lb).sub.idle = lb.sub.idle ∧
    (tapesRead lb).sub.adjLog = lb.sub.adjLog ∧ (tapesRead lb).sub.jitterWait = lb.sub.jitterWait ∧
    (tapesRead lb).initDone = lb.initDone ∧ (tapesRead lb).blocked = lb.blocked := by
  unfold tapesRead; split <;> exact ⟨rfl, rfl, rfl, rfl, rfl, rfl⟩

theorem tapesRead_stable (cfg : Cfg) (lb : St) (inv : PInv cfg lb.sub) : Stable cfg lb.sub (tapesRead lb).sub := by
  obtain ⟨a, b, c, d, _, _⟩ := tapesRead_sub lb
  exact Stable.of_same inv a b c d

/-- what a callback does to the gate and to `_servers` -/
def Notified (lb lb' : St) (n : Notif) : Prop :=
  (lb.initDone = true → lb'.initDone = true ∧ lb'.blocked = lb.blocked ∧
    lb'.sub.hs.servers = stepRef lb.sub.hs.servers n) ∧
  (lb.initDone = false → lb'.initDone = false ∧ lb'.blocked = lb.blocked ++ [n] ∧
    lb'.sub.hs.servers = lb.sub.hs.servers)

/-- what an operation does to the gate and to `_servers` -/
def Eff (lb lb' : St) : Op → Prop
  | .loaded l _ => lb'.initDone = true ∧ lb'.blocked = [] ∧
      lb'.sub.hs.servers = applyRef lb.blocked (applyRef (l.map Notif.join) [])
  | .join ep _ => Notified lb lb' (.join ep)
  | .leave ep _ => Notified lb lb' (.leave ep)
  | _ => lb'.initDone = lb.initDone ∧ lb'.blocked = lb.blocked ∧ lb'.sub.hs.servers = lb.sub.hs.servers

theorem Eff.post {lb lb1 lb2 : St} {op : Op} (h : Eff lb lb1 op) (h1 : lb2.initDone = lb1.initDone)
    (h2 : lb2.blocked = lb1.blocked) (h3 : lb2.sub.hs.servers = lb1.sub.hs.servers) : Eff lb lb2 op := by
  cases op <;> simp only [Eff, Notified, h1, h2, h3] at h ⊢ <;> exact h

theorem notify_spec (cfg : Cfg) (lb : St) (h : Full cfg lb.sub) (n : Notif) :
    Full cfg (lb.notify (sub cfg) n).sub ∧ Notified lb (lb.notify (sub cfg) n) n := by
  unfold LB.notify Notified
  cases hi : lb.initDone
  · simp only [Bool.false_eq_true, if_false]
    exact ⟨h, ⟨fun hc => hc.elim, fun _ => ⟨trivial, trivial, trivial⟩⟩⟩
  · simp only [if_true]
    exact ⟨applyNotif_full h n, ⟨fun _ => ⟨trivial, trivial, applyNotif_servers h n⟩, fun hc => Bool.noConfusion hc⟩⟩

theorem load_spec (cfg : Cfg) (lb : St) (h : Full cfg lb.sub) (hs : lb.sub.hs.servers = []) (l : List Nat) :
    Full cfg (lb.load (sub cfg) l).sub ∧ (lb.load (sub cfg) l).initDone = true ∧ (lb.load (sub cfg) l).blocked = [] ∧
    (lb.load (sub cfg) l).sub.hs.servers = applyRef lb.blocked (applyRef (l.map Notif.join) []) := by
  unfold LB.load loadInitial
  simp only [sub_setServers, sub_openInitial]
  have f0 := h.withServers_nil hs
  have f1 := foldl_addServer_full (cfg := cfg) l f0
  have e1 := foldl_addServer_servers (cfg := cfg) l f0
  have s2 := openInitial_spec cfg f1.inv
  have f2 := f1.stable s2
  have f3 := foldl_applyNotif_full (cfg := cfg) lb.blocked f2
  have e3 := foldl_applyNotif_servers (cfg := cfg) lb.blocked f2
  refine ⟨f3, trivial, trivial, ?_⟩
  rw [e3, s2.servers, e1]; rfl

/-- `AsyncProcessRequest`, with or without a deadline event -/
theorem request_spec (cfg : Cfg) (lb : St) (h : Full cfg lb.sub) (evt : Option Bool) :
    Full cfg (lb.request (sub cfg) evt).1.sub ∧
    ((lb.request (sub cfg) evt).1.initDone = lb.initDone ∧ (lb.request (sub cfg) evt).1.blocked = lb.blocked ∧
      (lb.request (sub cfg) evt).1.sub.hs.servers = lb.sub.hs.servers) ∧
    (∀ ep ∈ resEps (match (lb.request (sub cfg) evt).2 with | some g => [ResV.ofGet g] | none => [.queued]),
      ep ∈ E (lb.request (sub cfg) evt).1.sub) := by
  unfold LB.request
  by_cases hr : (sub cfg).openReady lb.sub = true
  · simp only [if_pos hr, sub_request]
    obtain ⟨st, rs⟩ := get_spec cfg h.inv
    refine ⟨h.stable st, ⟨trivial, trivial, st.servers⟩, ?_⟩
    intro x hx
    cases hg : (lb.sub.get cfg).2 with
    | noMembers => simp [hg, ResV.ofGet, resEps] at hx
    | node nid ep r =>
      simp [hg, ResV.ofGet, resEps] at hx
      subst hx
      exact rs nid x r hg
  · simp only [if_neg hr]
    exact ⟨h, ⟨trivial, trivial, trivial⟩, fun x hx => by simp [resEps] at hx⟩

theorem act_spec (cfg : Cfg) (lb : St) (op : Op) (h : Full cfg lb.sub)
    (hpre : lb.initDone = false → lb.sub.hs.servers = [])
    (hload : ∀ l e, op = .loaded l e → lb.initDone = false) :
    Full cfg (act cfg lb op).1.sub ∧ Eff lb (act cfg lb op).1 op ∧
    (∀ ep ∈ resEps (act cfg lb op).2, ep ∈ E (act cfg lb op).1.sub) := by
  have hnil : ∀ x, x ∈ resEps ([] : List ResV) → x ∈ E (act cfg lb op).1.sub := fun x hx => by cases hx
  cases op with
  | opn => exact ⟨h.feed ⟨[], []⟩, ⟨rfl, rfl, rfl⟩, fun x hx => by cases hx⟩
  | loaded l e =>
    have hi := hload l e rfl
    obtain ⟨a, b, c, d⟩ := load_spec cfg (feed lb e) (h.feed e) (hpre hi) l
    exact ⟨a, ⟨b, c, d⟩, fun x hx => by cases hx⟩
  | join ep e =>
    obtain ⟨a, b⟩ := notify_spec cfg (feed lb e) (h.feed e) (.join ep)
    exact ⟨a, b, fun x hx => by cases hx⟩
  | leave ep e =>
    obtain ⟨a, b⟩ := notify_spec cfg (feed lb e) (h.feed e) (.leave ep)
    exact ⟨a, b, fun x hx => by cases hx⟩
  | get e => exact request_spec cfg (feed lb e) (h.feed e) none
  | getd e => exact request_spec cfg (feed lb e) (h.feed e) (some false)
  | expire k =>
    simp only [act]
    cases hx : (feed lb ⟨[], []⟩).expire k with
    | none =>
      exact ⟨(h.feed ⟨[], []⟩).stable (Stable.of_same (h.feed ⟨[], []⟩).inv rfl rfl rfl rfl),
        ⟨rfl, rfl, rfl⟩, fun x hx => by cases hx⟩
    | some lb2 =>
      unfold LB.expire at hx
      split at hx
      · injection hx with hx; subst hx
        exact ⟨h.feed ⟨[], []⟩, ⟨rfl, rfl, rfl⟩, fun x hx => by cases hx⟩
      · cases hx
  | put r j e =>
    have st := put_spec cfg (h.feed e).inv r j
    exact ⟨(h.feed e).stable st, ⟨rfl, rfl, st.servers⟩, fun x hx => by cases hx⟩
  | chan nid s =>
    have st := setChan_spec cfg (h.feed ⟨[], []⟩).inv nid s
    exact ⟨(h.feed ⟨[], []⟩).stable st, ⟨rfl, rfl, st.servers⟩, fun x hx => by cases hx⟩
  | opened nid ok e =>
    have st := opened_spec cfg (h.feed e).inv nid ok
    exact ⟨(h.feed e).stable st, ⟨rfl, rfl, st.servers⟩, fun x hx => by cases hx⟩
  | jitter e =>
    have st := jitterStart_spec cfg (h.feed e).inv
    exact ⟨(h.feed e).stable st, ⟨rfl, rfl, st.servers⟩, fun x hx => by cases hx⟩

theorem resEps_append (a b : List ResV) : resEps (a ++ b) = resEps a ++ resEps b := by
  unfold resEps; exact List.filterMap_append

theorem resEps_filter_sub (a : List ResV) (p : ResV → Bool) : ∀ x ∈ resEps (a.filter p), x ∈ resEps a := by
  intro x hx
  unfold resEps at *
  rw [List.mem_filterMap] at *
  obtain ⟨r, hr, he⟩ := hx
  exact ⟨r, List.mem_of_mem_filter hr, he⟩

theorem stepSt_spec (cfg : Cfg) (lb : St) (op : Op) (h : Full cfg lb.sub)
    (hpre : lb.initDone = false → lb.sub.hs.servers = [])
    (hload : ∀ l e, op = .loaded l e → lb.initDone = false) :
    Full cfg (stepSt cfg lb op).1.sub ∧ Eff lb (stepSt cfg lb op).1 op ∧
    (∀ ep ∈ resEps (stepSt cfg lb op).2, ep ∈ E (stepSt cfg lb op).1.sub) := by
  obtain ⟨f1, e1, r1⟩ := act_spec cfg lb op h hpre hload
  obtain ⟨s2, i2, b2, r2⟩ := finish_spec cfg (act cfg lb op).1 f1.inv
  have s3 := tapesRead_stable cfg ((act cfg lb op).1.finish (sub cfg)).1 s2.inv
  obtain ⟨_, _, _, _, i3, b3⟩ := tapesRead_sub ((act cfg lb op).1.finish (sub cfg)).1
  unfold stepSt
  simp only
  refine ⟨(f1.stable s2).stable s3, ?_, ?_⟩
  · exact e1.post (i3.trans i2) (b3.trans b2) (s3.servers.trans s2.servers)
  · intro x hx
    rw [s3.mem]
    rw [resEps_append, resEps_append] at hx
    rcases List.mem_append.1 hx with hx | hx
    · rcases List.mem_append.1 hx with hx | hx
      · rw [s2.mem]; exact r1 x (resEps_filter_sub _ _ x hx)
      · unfold resEps at hx
        rw [List.mem_filterMap] at hx
        obtain ⟨rv, hrv, he⟩ := hx
        obtain ⟨g, hg, rfl⟩ := List.mem_map.1 hrv
        cases g with
        | none => simp [ResV.ofFlush] at he
        | some g =>
          cases g with
          | noMembers => simp [ResV.ofFlush, ResV.ofGet] at he
          | node nid ep r =>
            simp [ResV.ofFlush, ResV.ofGet] at he
            subst he
            exact r2 _ hg nid ep r rfl
    · rw [s2.mem]; exact r1 x (resEps_filter_sub _ _ x hx)

end Scales.LB
