import ScalesModel.Proofs.HeapInv

/-! The heap manipulations the operations are made of, each with the order fact it restores:
    a key shrinks / grows, delete-at-slot (swap with last, sift), re-insert of the last slot,
    append, drop of the last slot. -/
namespace Scales.Heap

/-! ### states that differ outside the store -/

structure SameStore (s t : HS) : Prop where
  nodes : t.nodes = s.nodes
  heap : t.heap = s.heap

namespace SameStore
variable {s t : HS} (e : SameStore s t)
include e

theorem node (id : Nat) : t.node id = s.node id := by unfold HS.node; rw [e.nodes]
theorem idAt (p : Nat) : t.idAt p = s.idAt p := by unfold HS.idAt; rw [e.nodes, e.heap]
theorem size : t.size = s.size := by unfold HS.size; rw [e.heap]
theorem len : t.nodes.length = s.nodes.length := by rw [e.nodes]
theorem L_eq : L t = L s := by funext p; unfold L HS.at; rw [e.idAt, e.node]
theorem inHeap (id : Nat) : InHeap t id ↔ InHeap s id := by unfold InHeap; simp only [e.idAt, e.size]
theorem wf (hw : WF s) : WF t := by
  constructor
  · intro p h1 h2; rw [e.idAt, e.len]; rw [e.size] at h2; exact hw.inStore p h1 h2
  · intro p q a b c d h
    rw [e.size] at b d; rw [e.idAt, e.idAt] at h
    exact hw.inj p q a b c d h
  · intro p h1 h2
    unfold HS.at; rw [e.idAt, e.node]; rw [e.size] at h2; exact hw.idx p h1 h2
  · intro id hl hn
    rw [e.node]; rw [e.len] at hl
    exact hw.off id hl (fun h => hn ((e.inHeap id).mpr h))
end SameStore

/-! ### a key shrinks: sift up; a key grows: sift down -/

theorem L_pos (s : HS) (hw : WF s) (id : Nat) (h : InHeap s id) : L s (pos s id) = (s.node id).load := by
  unfold L HS.at; rw [(pos_spec s hw id h).2.2.1]

theorem shrink_spec (s : HS) (hw : WF s) (ho : Ord (L s) s.size) (id : Nat) (h : InHeap s id) (v : Int)
    (hv : v ≤ (s.node id).load) :
    WF ((s.setLoad id v).fixUp (pos s id)) ∧ Frame (s.setLoad id v) ((s.setLoad id v).fixUp (pos s id)) ∧
    Ord (L ((s.setLoad id v).fixUp (pos s id))) s.size := by
  obtain ⟨p1, p2, p3, _, hl⟩ := pos_spec s hw id h
  obtain ⟨w, f, o⟩ := fixUp_spec (s.setLoad id v) (pos s id) (setLoad_WF s hw id v) (by simpa using p2)
  refine ⟨w, f, ?_⟩
  have hu := upd_shrink (L s) s.size (pos s id) v ho p2 (by rw [L_pos s hw id h]; exact hv)
  rw [← setLoad_L s hw id v h] at hu
  exact o s.size (by simp) p2 hu.1 hu.2

theorem grow_spec (s : HS) (hw : WF s) (ho : Ord (L s) s.size) (id : Nat) (h : InHeap s id) (v : Int)
    (hv : (s.node id).load ≤ v) :
    WF ((s.setLoad id v).fixDown (pos s id) s.size) ∧
    Frame (s.setLoad id v) ((s.setLoad id v).fixDown (pos s id) s.size) ∧
    Ord (L ((s.setLoad id v).fixDown (pos s id) s.size)) s.size := by
  obtain ⟨p1, p2, p3, _, hl⟩ := pos_spec s hw id h
  obtain ⟨w, f, o⟩ := fixDown_spec (s.setLoad id v) (pos s id) s.size (setLoad_WF s hw id v) (by simp)
  refine ⟨w, f, ?_⟩
  have hu := upd_grow (L s) s.size (pos s id) v ho p2 (by rw [L_pos s hw id h]; exact hv)
  rw [← setLoad_L s hw id v h] at hu
  exact o p1 hu.1 hu.2

/-! ### delete at slot `i`: swap with the last slot, repair the prefix -/

def HS.delAt (s : HS) (i : Nat) : HS :=
  let s2 := s.swap i s.size
  let s3 := s2.fixDown i (s2.size - 1)
  if i ≠ s3.size then s3.fixUp i else s3

theorem delAt_spec (s : HS) (hw : WF s) (i : Nat) (hi1 : 1 ≤ i) (hi2 : i ≤ s.size)
    (hH : OrdHole (L s) (s.size - 1) i) (hG : GP (L s) (s.size - 1) i) :
    WF (s.delAt i) ∧ Frame s (s.delAt i) ∧ (s.delAt i).idAt s.size = s.idAt i ∧
    Ord (L (s.delAt i)) (s.size - 1) := by
  have hn1 : 1 ≤ s.size := by omega
  have hw2 := swap_WF s hw i s.size hi1 hi2 hn1 (by omega)
  have hf2 := swap_Frame s hw i s.size hi1 hi2 hn1 (by omega)
  have hL2 := swap_L_fsw s i s.size hi1 hi2 hn1 (by omega)
  have hid2 : (s.swap i s.size).idAt s.size = s.idAt i := by
    rw [swap_idAt s i s.size s.size hi1 hi2 hn1 (by omega)]; simp
  unfold HS.delAt
  simp only [swap_size]
  by_cases hc : i = s.size
  · have hb : (s.swap i s.size).fixDown i (s.size - 1) = s.swap i s.size := fixDown_big _ _ _ (by omega)
    rw [hb]
    have hcond : ¬ (i ≠ (s.swap i s.size).size) := by rw [swap_size]; simp [hc]
    rw [if_neg hcond]
    refine ⟨hw2, hf2, hid2, ?_⟩
    intro k hk2 hkn
    rw [hL2]
    unfold fsw
    have e1 : ¬ k = s.size := by omega
    have e2 : ¬ k / 2 = s.size := by omega
    have e3 : ¬ k = i := by omega
    have e4 : ¬ k / 2 = i := by omega
    simp only [e1, e2, e3, e4, if_false]
    exact hH k hk2 hkn e3 e4
  · have hlt : i ≤ s.size - 1 := by omega
    have hH2 : OrdHole (L (s.swap i s.size)) (s.size - 1) i := by
      intro k hk2 hkn hki hk2i
      rw [hL2]; unfold fsw
      have e1 : ¬ k = s.size := by omega
      have e2 : ¬ k / 2 = s.size := by omega
      simp only [e1, e2, hki, hk2i, if_false]
      exact hH k hk2 hkn hki hk2i
    have hG2 : GP (L (s.swap i s.size)) (s.size - 1) i := by
      intro c hcn hci h2i
      rw [hL2]; unfold fsw
      have e1 : ¬ c = s.size := by omega
      have e2 : ¬ i / 2 = s.size := by omega
      have e3 : ¬ c = i := by omega
      have e4 : ¬ i / 2 = i := by omega
      simp only [e1, e2, e3, e4, if_false]
      exact hG c hcn hci h2i
    obtain ⟨w, f, o⟩ := hole_repair (s.swap i s.size) i (s.size - 1) hw2 (by rw [swap_size]; omega) hi1 hlt hH2 hG2
    obtain ⟨wd, fd, _⟩ := fixDown_spec (s.swap i s.size) i (s.size - 1) hw2 (by rw [swap_size]; omega)
    have hsz : ((s.swap i s.size).fixDown i (s.size - 1)).size = s.size := by rw [fd.size, swap_size]
    rw [hsz]
    simp only [ne_eq, hc, not_false_eq_true, if_true]
    refine ⟨w, hf2.trans f, ?_, o⟩
    rw [fixUp_idAt_above _ i (by rw [hsz]; exact hi2) s.size (by omega)]
    rw [fixDown_idAt_above _ i (s.size - 1) (by rw [swap_size]; omega) s.size (by omega)]
    exact hid2

/-! ### re-insert: the last slot holds a minimum; swap it into slot `j`, sift both up -/

theorem GP_top (f : Nat → Int) (n : Nat) (hn : 1 ≤ n) : GP f n n := by
  intro c hcn hc _
  omega

theorem reinsert_spec (s : HS) (hw : WF s) (j : Nat) (hj1 : 1 ≤ j) (hj2 : j ≤ s.size)
    (ho : Ord (L s) (s.size - 1)) (hmin : ∀ p, 1 ≤ p → p ≤ s.size → L s s.size ≤ L s p) :
    WF (((s.swap j s.size).fixUp j).fixUp s.size) ∧ Frame s (((s.swap j s.size).fixUp j).fixUp s.size) ∧
    Ord (L (((s.swap j s.size).fixUp j).fixUp s.size)) s.size := by
  have hn1 : 1 ≤ s.size := by omega
  have hw4 := swap_WF s hw j s.size hj1 hj2 hn1 (by omega)
  have hf4 := swap_Frame s hw j s.size hj1 hj2 hn1 (by omega)
  have hL4 := swap_L_fsw s j s.size hj1 hj2 hn1 (by omega)
  obtain ⟨w5, f5, o5⟩ := fixUp_spec (s.swap j s.size) j hw4 (by rw [swap_size]; exact hj2)
  have hsz5 : ((s.swap j s.size).fixUp j).size = s.size := by rw [f5.size, swap_size]
  obtain ⟨w6, f6, o6⟩ := fixUp_spec ((s.swap j s.size).fixUp j) s.size w5 (by rw [hsz5])
  refine ⟨w6, (hf4.trans f5).trans f6, ?_⟩
  have hpre : Ord (L ((s.swap j s.size).fixUp j)) (s.size - 1) := by
    by_cases hc : j = s.size
    · have : Ord (L ((s.swap j s.size).fixUp j)) s.size := by
        apply o5 s.size (by rw [swap_size]) hj2
        · intro k hk2 hkn hkj
          rw [hL4]; unfold fsw
          have e1 : ¬ k = s.size := by omega
          have e2 : ¬ k / 2 = s.size := by omega
          have e3 : ¬ k / 2 = j := by omega
          simp only [e1, e2, e3, hkj, if_false]
          exact ho k hk2 (by omega)
        · rw [hc]; exact GP_top _ _ hn1
      exact Ord_mono _ _ _ this (by omega)
    · apply o5 (s.size - 1) (by rw [swap_size]; omega) (by omega)
      · intro k hk2 hkn hkj
        rw [hL4]; unfold fsw
        have e1 : ¬ k = s.size := by omega
        have e2 : ¬ k / 2 = s.size := by omega
        simp only [e1, e2, hkj, if_false]
        split
        · exact hmin k (by omega) (by omega)
        · exact ho k hk2 hkn
      · intro c hcn hcj h2j
        rw [hL4]; unfold fsw
        have e1 : ¬ c = s.size := by omega
        have e2 : ¬ j / 2 = s.size := by omega
        have e3 : ¬ c = j := by omega
        have e4 : ¬ j / 2 = j := by omega
        simp only [e1, e2, e3, e4, if_false]
        have a := ho c (by omega) hcn
        have b := ho j h2j (by omega)
        rw [hcj] at a; omega
  apply o6 s.size (by rw [hsz5]) (by omega)
  · intro k hk2 hkn hks
    exact hpre k hk2 (by omega)
  · exact GP_top _ _ hn1

/-! ### append a node -/

def HS.push (s : HS) (nd : Node) : HS :=
  { s with nodes := s.nodes ++ [nd], heap := s.heap ++ [s.nodes.length] }

@[simp] theorem push_size (s : HS) (nd : Node) : (s.push nd).size = s.size + 1 := by simp [HS.push, HS.size]
@[simp] theorem push_len (s : HS) (nd : Node) : (s.push nd).nodes.length = s.nodes.length + 1 := by simp [HS.push]
@[simp] theorem push_down (s : HS) (nd : Node) : (s.push nd).down = s.down := rfl
@[simp] theorem push_reqs (s : HS) (nd : Node) : (s.push nd).reqs = s.reqs := rfl
@[simp] theorem push_servers (s : HS) (nd : Node) : (s.push nd).servers = s.servers := rfl

theorem push_node (s : HS) (nd : Node) (id : Nat) :
    (s.push nd).node id = if id = s.nodes.length then nd else s.node id := by
  unfold HS.push HS.node
  simp only [List.getD_eq_getElem?_getD, List.getElem?_append]
  by_cases h1 : id < s.nodes.length
  · have : ¬ id = s.nodes.length := by omega
    simp [h1, this]
  · by_cases h2 : id = s.nodes.length
    · simp [h2]
    · have h3 : ¬ id - s.nodes.length = 0 := by omega
      simp only [h1, if_false, h2]
      rw [List.getElem?_eq_none (by simp; omega), List.getElem?_eq_none (by omega)]

theorem push_idAt (s : HS) (hw : WF s) (nd : Node) (p : Nat) (h1 : 1 ≤ p) (h2 : p ≤ s.size + 1) :
    (s.push nd).idAt p = if p = s.size + 1 then s.nodes.length else s.idAt p := by
  by_cases hp : p = s.size + 1
  · subst hp
    unfold HS.idAt HS.push HS.size
    simp [List.getD_eq_getElem?_getD]
  · obtain ⟨hl, he⟩ := idAt_pos s p h1 (by omega)
    simp only [hp, if_false]
    rw [he]
    unfold HS.idAt HS.push
    have : ¬ p = 0 := by omega
    simp only [this, if_false, List.getD_eq_getElem?_getD]
    rw [List.getElem?_append_left hl]
    simp [hl]

theorem push_inHeap (s : HS) (hw : WF s) (nd : Node) (id : Nat) :
    InHeap (s.push nd) id ↔ InHeap s id ∨ id = s.nodes.length := by
  constructor
  · rintro ⟨p, h1, h2, he⟩
    rw [push_size] at h2
    rw [push_idAt s hw nd p h1 h2] at he
    by_cases hp : p = s.size + 1
    · simp only [hp, if_true] at he; exact Or.inr he.symm
    · simp only [hp, if_false] at he; exact Or.inl ⟨p, h1, by omega, he⟩
  · rintro (⟨p, h1, h2, he⟩ | h)
    · refine ⟨p, h1, by rw [push_size]; omega, ?_⟩
      rw [push_idAt s hw nd p h1 (by omega)]
      have : ¬ p = s.size + 1 := by omega
      simp [this, he]
    · refine ⟨s.size + 1, by omega, by rw [push_size], ?_⟩
      rw [push_idAt s hw nd _ (by omega) (by omega)]
      simp [h]

theorem push_WF (s : HS) (hw : WF s) (nd : Node) (hx : nd.index = (s.size + 1 : Nat)) : WF (s.push nd) := by
  have hnot : ∀ p, 1 ≤ p → p ≤ s.size → ¬ s.idAt p = s.nodes.length := by
    intro p h1 h2 e
    have := hw.inStore p h1 h2
    omega
  constructor
  · intro p h1 h2
    rw [push_size] at h2
    rw [push_idAt s hw nd p h1 h2, push_len]
    split
    · omega
    · have := hw.inStore p h1 (by omega); omega
  · intro p q a b c d e
    rw [push_size] at b d
    rw [push_idAt s hw nd p a b, push_idAt s hw nd q c d] at e
    by_cases hp : p = s.size + 1 <;> by_cases hq : q = s.size + 1
    · omega
    · simp only [hp, hq, if_true, if_false] at e
      exact absurd e.symm (hnot q c (by omega))
    · simp only [hp, hq, if_true, if_false] at e
      exact absurd e (hnot p a (by omega))
    · simp only [hp, hq, if_false] at e
      exact hw.inj p q a (by omega) c (by omega) e
  · intro p h1 h2
    rw [push_size] at h2
    unfold HS.at
    rw [push_idAt s hw nd p h1 h2, push_node]
    by_cases hp : p = s.size + 1
    · simp only [hp, if_true]; rw [hx]
    · have := hnot p h1 (by omega)
      simp only [hp, this, if_false]
      exact hw.idx p h1 (by omega)
  · intro id hl hn
    rw [push_len] at hl
    rw [push_inHeap s hw nd id] at hn
    push Not at hn
    rw [push_node]
    simp only [hn.2, if_false]
    exact hw.off id (by omega) hn.1

theorem push_L (s : HS) (hw : WF s) (nd : Node) (p : Nat) (h1 : 1 ≤ p) (h2 : p ≤ s.size + 1) :
    L (s.push nd) p = if p = s.size + 1 then nd.load else L s p := by
  unfold L HS.at
  rw [push_idAt s hw nd p h1 h2, push_node]
  by_cases hp : p = s.size + 1
  · simp [hp]
  · have := hw.inStore p h1 (by omega)
    have e : ¬ s.idAt p = s.nodes.length := by omega
    simp [hp, e]

/-- append, then sift the new slot up -/
theorem push_spec (s : HS) (hw : WF s) (ho : Ord (L s) s.size) (nd : Node) (hx : nd.index = (s.size + 1 : Nat)) :
    WF ((s.push nd).fixUp (s.size + 1)) ∧ Frame (s.push nd) ((s.push nd).fixUp (s.size + 1)) ∧
    Ord (L ((s.push nd).fixUp (s.size + 1))) (s.size + 1) := by
  obtain ⟨w, f, o⟩ := fixUp_spec (s.push nd) (s.size + 1) (push_WF s hw nd hx) (by simp)
  refine ⟨w, f, o (s.size + 1) (by simp) (by omega) ?_ (GP_top _ _ (by omega))⟩
  intro k hk2 hkn hk
  rw [push_L s hw nd k (by omega) hkn, push_L s hw nd (k / 2) (by omega) (by omega)]
  have e1 : ¬ k = s.size + 1 := hk
  have e2 : ¬ k / 2 = s.size + 1 := by omega
  simp only [e1, e2, if_false]
  exact ho k hk2 (by omega)

/-! ### drop the last slot -/

def HS.pop (s : HS) (c : Nat) : HS :=
  let s3 : HS := { s with heap := s.heap.dropLast }
  let nid := s.idAt s.size
  s3.setNode nid { s3.node nid with index := -1, closed := c }

@[simp] theorem pop_size (s : HS) (c : Nat) : (s.pop c).size = s.size - 1 := by simp [HS.pop, HS.size]
@[simp] theorem pop_len (s : HS) (c : Nat) : (s.pop c).nodes.length = s.nodes.length := by simp [HS.pop]
@[simp] theorem pop_down (s : HS) (c : Nat) : (s.pop c).down = s.down := rfl
@[simp] theorem pop_reqs (s : HS) (c : Nat) : (s.pop c).reqs = s.reqs := rfl
@[simp] theorem pop_servers (s : HS) (c : Nat) : (s.pop c).servers = s.servers := rfl

theorem pop_idAt (s : HS) (c : Nat) (p : Nat) (h1 : 1 ≤ p) (h2 : p < s.size) : (s.pop c).idAt p = s.idAt p := by
  unfold HS.pop
  simp only [setNode_idAt]
  unfold HS.idAt HS.size at *
  have : ¬ p = 0 := by omega
  simp only [this, if_false, List.getD_eq_getElem?_getD]
  rw [List.getElem?_dropLast]
  have : p - 1 < s.heap.length - 1 := by omega
  simp [this]

theorem pop_node (s : HS) (c : Nat) (id : Nat) :
    (s.pop c).node id = if id = s.idAt s.size ∧ s.idAt s.size < s.nodes.length
      then { s.node id with index := -1, closed := c } else s.node id := by
  unfold HS.pop
  simp only
  rw [node_setNode]
  by_cases h : id = s.idAt s.size ∧ s.idAt s.size < s.nodes.length
  · have h' : id = s.idAt s.size ∧ s.idAt s.size < ({ s with heap := s.heap.dropLast } : HS).nodes.length := h
    simp only [h, h', and_self, if_true]
    rw [← h.1]; rfl
  · have h' : ¬ (id = s.idAt s.size ∧ s.idAt s.size < ({ s with heap := s.heap.dropLast } : HS).nodes.length) := h
    simp only [h, h', if_false]
    rfl

theorem pop_inHeap (s : HS) (hw : WF s) (hn : 1 ≤ s.size) (c : Nat) (id : Nat) :
    InHeap (s.pop c) id ↔ InHeap s id ∧ id ≠ s.idAt s.size := by
  constructor
  · rintro ⟨p, h1, h2, he⟩
    rw [pop_size] at h2
    rw [pop_idAt s c p h1 (by omega)] at he
    refine ⟨⟨p, h1, by omega, he⟩, ?_⟩
    intro e
    have := hw.inj p s.size h1 (by omega) hn (by omega) (he.trans e)
    omega
  · rintro ⟨⟨p, h1, h2, he⟩, hne⟩
    have : p ≠ s.size := fun e => hne (by rw [← he, e])
    exact ⟨p, h1, by rw [pop_size]; omega, by rw [pop_idAt s c p h1 (by omega)]; exact he⟩

theorem pop_WF (s : HS) (hw : WF s) (hn : 1 ≤ s.size) (c : Nat) : WF (s.pop c) := by
  have hlast := hw.inStore s.size hn (by omega)
  constructor
  · intro p h1 h2
    rw [pop_size] at h2
    rw [pop_idAt s c p h1 (by omega), pop_len]
    exact hw.inStore p h1 (by omega)
  · intro p q a b c' d e
    rw [pop_size] at b d
    rw [pop_idAt s c p a (by omega), pop_idAt s c q c' (by omega)] at e
    exact hw.inj p q a (by omega) c' (by omega) e
  · intro p h1 h2
    rw [pop_size] at h2
    unfold HS.at
    rw [pop_idAt s c p h1 (by omega), pop_node]
    have : ¬ s.idAt p = s.idAt s.size := by
      intro e
      have := hw.inj p s.size h1 (by omega) hn (by omega) e
      omega
    simp only [this, false_and, if_false]
    exact hw.idx p h1 (by omega)
  · intro id hl hnot
    rw [pop_len] at hl
    rw [pop_inHeap s hw hn c id] at hnot
    rw [pop_node]
    by_cases e : id = s.idAt s.size
    · simp [e, hlast]
    · simp only [e, false_and, if_false]
      apply hw.off id hl
      intro h; exact hnot ⟨h, e⟩

theorem pop_L (s : HS) (hw : WF s) (c : Nat) (p : Nat) (h1 : 1 ≤ p) (h2 : p < s.size) :
    L (s.pop c) p = L s p := by
  unfold L HS.at
  rw [pop_idAt s c p h1 h2, pop_node]
  have : ¬ s.idAt p = s.idAt s.size := by
    intro e
    have := hw.inj p s.size h1 (by omega) (by omega) (by omega) e
    omega
  simp [this]

end Scales.Heap
