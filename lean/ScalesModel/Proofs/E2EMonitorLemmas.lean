/-
  Proofs/E2EMonitorLemmas.lean — what the state of the end-to-end monitors (Adapter/E2E.lean) MEANS.

  The monitors fold an event log into a state `St` and judge every event in the state reached
  before it.  Here:
    * `stAfter s p` — the state after the history `p`; `monGo` is "every event of the log is
      judged `ok` in the state after the events before it, and the end-of-log check is ok"
      (`monGo_eq_ok_iff`, `monGo_eq_fail`);
    * history predicates written over the event list alone (`IssuedIn`, `Completed`, `FirstDone`,
      `ReqIn`, `DiscIn`, `DownIn`, `UpIn`, `OwedIn`) and the representation theorems `rep*`:
      every field of the monitor's state after `p` is exactly what these predicates say about `p`;
    * for every check the monitor makes (`verdictAt`, `retryOverdue`, `overdue`, `discardsOk`) the
      reading of `ok` and of every `fail` clause in terms of those predicates.
  Props/E2EMonitor.lean states the per-property theorems.
-/
import ScalesModel.Adapter.E2E
import Mathlib.Data.List.Basic
import Mathlib.Data.List.Induction
namespace Scales.E2E
set_option linter.unusedSimpArgs false
set_option linter.unusedVariables false

/-! ### verdicts -/

theorem and_eq_ok {a : Verdict} {b : Unit → Verdict} : a.and b = .ok ↔ a = .ok ∧ b () = .ok := by
  cases a <;> simp [Verdict.and]

theorem and_eq_fail {a : Verdict} {b : Unit → Verdict} {cl : String} {ps : List V} :
    a.and b = .fail cl ps ↔ a = .fail cl ps ∨ (a = .ok ∧ b () = .fail cl ps) := by
  cases a <;> simp [Verdict.and]

instance (v : Verdict) : Decidable (v = .ok) :=
  match v with
  | .ok => isTrue rfl
  | .fail _ _ => isFalse (by intro h; cases h)

/-! ### histories: occurrences, the state after a history -/

/-- `e` occurs in `l` right after the history `p` -/
def Occ (l p : List Ev) (e : Ev) : Prop := ∃ r, l = p ++ e :: r

theorem occ_nil {p : List Ev} {e : Ev} : ¬ Occ [] p e := by
  rintro ⟨r, h⟩; simp at h

theorem occ_cons {a : Ev} {l p : List Ev} {e : Ev} :
    Occ (a :: l) p e ↔ (p = [] ∧ e = a) ∨ ∃ p', p = a :: p' ∧ Occ l p' e := by
  constructor
  · rintro ⟨r, h⟩
    cases p with
    | nil => simp at h; exact Or.inl ⟨rfl, h.1.symm⟩
    | cons b p' =>
      simp at h
      exact Or.inr ⟨p', by rw [h.1], r, h.2⟩
  · rintro (⟨rfl, rfl⟩ | ⟨p', rfl, r, rfl⟩)
    · exact ⟨l, rfl⟩
    · exact ⟨r, rfl⟩

theorem occ_snoc {l p : List Ev} {x e : Ev} :
    Occ (l ++ [x]) p e ↔ Occ l p e ∨ (p = l ∧ e = x) := by
  constructor
  · rintro ⟨r, h⟩
    rcases List.eq_nil_or_concat r with rfl | ⟨r', y, rfl⟩
    · have := List.append_inj' h rfl
      simp at this
      exact Or.inr ⟨this.1.symm, this.2.symm⟩
    · have h' : l ++ [x] = (p ++ e :: r') ++ [y] := by simpa using h
      have := List.append_inj' h' rfl
      exact Or.inl ⟨r', this.1⟩
  · rintro (⟨r, rfl⟩ | ⟨rfl, rfl⟩)
    · exact ⟨r ++ [x], by simp⟩
    · exact ⟨[], rfl⟩

theorem occ_iff_getElem? {l p : List Ev} {e : Ev} :
    Occ l p e ↔ l[p.length]? = some e ∧ l.take p.length = p := by
  constructor
  · rintro ⟨r, rfl⟩; simp
  · rintro ⟨h1, h2⟩
    refine ⟨l.drop (p.length + 1), ?_⟩
    have hlt : p.length < l.length := (List.getElem?_eq_some_iff.mp h1).1
    have hx : l[p.length] = e := (List.getElem?_eq_some_iff.mp h1).2
    calc l = l.take p.length ++ l.drop p.length := (List.take_append_drop _ _).symm
      _ = p ++ l.drop p.length := by rw [h2]
      _ = p ++ e :: l.drop (p.length + 1) := by rw [List.drop_eq_getElem_cons hlt, hx]

/-- index form of "some event `e` with history `p` satisfies `φ`" -/
theorem exists_occ_iff {l : List Ev} {φ : List Ev → Ev → Prop} :
    (∃ p e, Occ l p e ∧ φ p e) ↔ ∃ i e, l[i]? = some e ∧ φ (l.take i) e := by
  constructor
  · rintro ⟨p, e, ho, h⟩
    have := occ_iff_getElem?.mp ho
    exact ⟨p.length, e, this.1, by rw [this.2]; exact h⟩
  · rintro ⟨i, e, hi, h⟩
    have hlt : i < l.length := (List.getElem?_eq_some_iff.mp hi).1
    refine ⟨l.take i, e, occ_iff_getElem?.mpr ?_, h⟩
    have : (l.take i).length = i := by simp; omega
    rw [this]; exact ⟨hi, rfl⟩

theorem occ_mem {l p : List Ev} {e : Ev} (h : Occ l p e) : e ∈ l := by
  obtain ⟨r, rfl⟩ := h; simp

theorem mem_iff_occ {l : List Ev} {e : Ev} : e ∈ l ↔ ∃ p, Occ l p e := by
  constructor
  · intro h
    obtain ⟨s, t, rfl⟩ := List.append_of_mem h
    exact ⟨s, t, rfl⟩
  · rintro ⟨p, h⟩; exact occ_mem h

/-- the monitor's state after the history `l`, started in `s` -/
def stAfter (s : St) (l : List Ev) : St := l.foldl stStep s

@[simp] theorem stAfter_nil (s : St) : stAfter s [] = s := rfl
@[simp] theorem stAfter_cons (s : St) (e : Ev) (l : List Ev) : stAfter s (e :: l) = stAfter (stStep s e) l := rfl
@[simp] theorem stAfter_snoc (s : St) (l : List Ev) (e : Ev) : stAfter s (l ++ [e]) = stStep (stAfter s l) e := by
  simp [stAfter, List.foldl_append]

/-- `ok` means: every event is judged ok in the state after the events before it, and so is the end of the log -/
theorem monGo_eq_ok_iff (w : Nat) (mux : Bool) : ∀ (l : List Ev) (s : St) (idx : Nat),
    monGo w mux s idx l = .ok ↔
      (∀ p e, Occ l p e →
        preV w (stAfter s p) (idx + p.length) e = .ok ∧ verdictAt w (stAfter s p) (idx + p.length) e = .ok) ∧
      finalV w mux (stAfter s l) (idx + l.length) = .ok := by
  intro l
  induction l with
  | nil => intro s idx; simp [monGo, occ_nil]
  | cons a l ih =>
    intro s idx
    simp only [monGo, and_eq_ok, ih, occ_cons]
    constructor
    · rintro ⟨h1, h2, h3, h4⟩
      refine ⟨?_, ?_⟩
      · rintro p e (⟨rfl, rfl⟩ | ⟨p', rfl, ho⟩)
        · exact ⟨by simpa using h1, by simpa using h2⟩
        · have := h3 p' e ho
          simpa [Nat.add_assoc, Nat.add_comm 1] using this
      · simpa [Nat.add_assoc, Nat.add_comm 1] using h4
    · rintro ⟨h1, h2⟩
      have h0 := h1 [] a (Or.inl ⟨rfl, rfl⟩)
      refine ⟨by simpa using h0.1, by simpa using h0.2, ?_, ?_⟩
      · intro p e ho
        have := h1 (a :: p) e (Or.inr ⟨p, rfl, ho⟩)
        simpa [Nat.add_assoc, Nat.add_comm 1] using this
      · simpa [Nat.add_assoc, Nat.add_comm 1] using h2

/-- a `fail` verdict is the verdict of one of the checks: on some event, in the state after the events before
    it, or at the end of the log -/
theorem monGo_eq_fail (w : Nat) (mux : Bool) (cl : String) (ps : List V) : ∀ (l : List Ev) (s : St) (idx : Nat),
    monGo w mux s idx l = .fail cl ps →
      (∃ p e, Occ l p e ∧
        (preV w (stAfter s p) (idx + p.length) e = .fail cl ps ∨
         verdictAt w (stAfter s p) (idx + p.length) e = .fail cl ps)) ∨
      finalV w mux (stAfter s l) (idx + l.length) = .fail cl ps := by
  intro l
  induction l with
  | nil => intro s idx h; right; simpa [monGo] using h
  | cons a l ih =>
    intro s idx h
    simp only [monGo, and_eq_fail] at h
    rcases h with h | ⟨_, h | ⟨_, h⟩⟩
    · exact Or.inl ⟨[], a, occ_cons.mpr (Or.inl ⟨rfl, rfl⟩), Or.inl (by simpa using h)⟩
    · exact Or.inl ⟨[], a, occ_cons.mpr (Or.inl ⟨rfl, rfl⟩), Or.inr (by simpa using h)⟩
    · rcases ih _ _ h with ⟨p, e, ho, h'⟩ | h'
      · refine Or.inl ⟨a :: p, e, occ_cons.mpr (Or.inr ⟨p, rfl, ho⟩), ?_⟩
        simpa [Nat.add_assoc, Nat.add_comm 1] using h'
      · right; simpa [Nat.add_assoc, Nat.add_comm 1] using h'

/-- … and every check before the failing one was ok: the failing check is the first -/
theorem monGo_eq_fail_first (w : Nat) (mux : Bool) (cl : String) (ps : List V) : ∀ (l : List Ev) (s : St) (idx : Nat),
    monGo w mux s idx l = .fail cl ps →
      (∃ p e, Occ l p e ∧
        (preV w (stAfter s p) (idx + p.length) e = .fail cl ps ∨
         verdictAt w (stAfter s p) (idx + p.length) e = .fail cl ps) ∧
        ∀ p' e', Occ p p' e' →
          preV w (stAfter s p') (idx + p'.length) e' = .ok ∧ verdictAt w (stAfter s p') (idx + p'.length) e' = .ok) ∨
      (finalV w mux (stAfter s l) (idx + l.length) = .fail cl ps ∧
        ∀ p' e', Occ l p' e' →
          preV w (stAfter s p') (idx + p'.length) e' = .ok ∧ verdictAt w (stAfter s p') (idx + p'.length) e' = .ok) := by
  intro l
  induction l with
  | nil =>
    intro s idx h; right
    exact ⟨by simpa [monGo] using h, fun p' e' ho => absurd ho occ_nil⟩
  | cons a l ih =>
    intro s idx h
    simp only [monGo, and_eq_fail] at h
    rcases h with h | ⟨_, h | ⟨_, h⟩⟩
    · exact Or.inl ⟨[], a, occ_cons.mpr (Or.inl ⟨rfl, rfl⟩), Or.inl (by simpa using h),
        fun p' e' ho => absurd ho occ_nil⟩
    · exact Or.inl ⟨[], a, occ_cons.mpr (Or.inl ⟨rfl, rfl⟩), Or.inr (by simpa using h),
        fun p' e' ho => absurd ho occ_nil⟩
    · rename_i hpre hver
      have hhead : ∀ {q : List Ev} (p' : List Ev) (e' : Ev), Occ (a :: q) p' e' →
          (∀ p'' e'', Occ q p'' e'' →
            preV w (stAfter (stStep s a) p'') (idx + 1 + p''.length) e'' = .ok ∧
            verdictAt w (stAfter (stStep s a) p'') (idx + 1 + p''.length) e'' = .ok) →
          preV w (stAfter s p') (idx + p'.length) e' = .ok ∧ verdictAt w (stAfter s p') (idx + p'.length) e' = .ok := by
        intro q p' e' ho hq
        rcases occ_cons.mp ho with ⟨rfl, rfl⟩ | ⟨p'', rfl, ho'⟩
        · exact ⟨by simpa using hpre, by simpa using hver⟩
        · have := hq p'' e' ho'
          simpa [Nat.add_assoc, Nat.add_comm 1] using this
      rcases ih _ _ h with ⟨p, e, ho, h', hbefore⟩ | ⟨h', hbefore⟩
      · refine Or.inl ⟨a :: p, e, occ_cons.mpr (Or.inr ⟨p, rfl, ho⟩), ?_, ?_⟩
        · simpa [Nat.add_assoc, Nat.add_comm 1] using h'
        · intro p' e' ho'; exact hhead p' e' ho' hbefore
      · refine Or.inr ⟨?_, ?_⟩
        · simpa [Nat.add_assoc, Nat.add_comm 1] using h'
        · intro p' e' ho'; exact hhead p' e' ho' hbefore

/-! ### history predicates about calls -/

def Ev.isIssue : Ev → Bool
  | .issue _ _ _ _ => true
  | _ => false

/-- number of calls issued in a history; calls are numbered 0, 1, … in the order of their `issue` events -/
def nIssues (p : List Ev) : Nat := p.countP Ev.isIssue

@[simp] theorem nIssues_nil : nIssues [] = 0 := rfl
theorem nIssues_append (p q : List Ev) : nIssues (p ++ q) = nIssues p + nIssues q := by
  simp [nIssues, List.countP_append]
theorem nIssues_snoc (p : List Ev) (e : Ev) : nIssues (p ++ [e]) = nIssues p + (if e.isIssue then 1 else 0) := by
  simp [nIssues, List.countP_append, List.countP_cons]
theorem nIssues_occ_le {l p : List Ev} {e : Ev} (h : Occ l p e) : nIssues p ≤ nIssues l := by
  obtain ⟨r, rfl⟩ := h; rw [nIssues_append]; omega

/-- call number `c` was issued in `p`, at time `t`, with timeout `T` (`pre`: before the client had opened) -/
def IssuedIn (p : List Ev) (c T t : Nat) (pre : Bool) : Prop :=
  ∃ p1 c', Occ p p1 (.issue c' T t pre) ∧ nIssues p1 = c

/-- a completion event of call `c` (already issued) occurs in `p` after the history `p1` -/
def DoneAt (p p1 : List Ev) (c : Nat) (o : Outcome) (t : Nat) : Prop :=
  Occ p p1 (.done c o t) ∧ c < nIssues p1

/-- call `c` has completed in `p` -/
def Completed (p : List Ev) (c : Nat) : Prop := ∃ p1 o t, DoneAt p p1 c o t

/-- the (first) completion of call `c` in `p` is `o` at time `t` -/
def FirstDone (p : List Ev) (c : Nat) (o : Outcome) (t : Nat) : Prop :=
  ∃ p1, DoneAt p p1 c o t ∧ ¬ Completed p1 c

/-- a request frame of the (already issued) call `c` was written in `p`: connection, tag, time -/
def ReqIn (p : List Ev) (c conn tag t : Nat) : Prop :=
  ∃ p1, Occ p p1 (.wrote (c : Int) conn false tag t) ∧ c < nIssues p1

/-- a discard frame naming the (already issued) call `c` was written in `p`: connection, tag -/
def DiscIn (p : List Ev) (c conn tag : Nat) : Prop :=
  ∃ p1 t, Occ p p1 (.wrote (c : Int) conn true tag t) ∧ c < nIssues p1

theorem issuedIn_snoc {p : List Ev} {e : Ev} {c T t : Nat} {pre : Bool} :
    IssuedIn (p ++ [e]) c T t pre ↔ IssuedIn p c T t pre ∨ (nIssues p = c ∧ ∃ c', e = .issue c' T t pre) := by
  simp only [IssuedIn, occ_snoc]
  constructor
  · rintro ⟨p1, c', (h | ⟨rfl, h⟩), hn⟩
    · exact Or.inl ⟨p1, c', h, hn⟩
    · exact Or.inr ⟨hn, c', h.symm⟩
  · rintro (⟨p1, c', h, hn⟩ | ⟨hn, c', rfl⟩)
    · exact ⟨p1, c', Or.inl h, hn⟩
    · exact ⟨p, c', Or.inr ⟨rfl, rfl⟩, hn⟩

theorem issuedIn_lt {p : List Ev} {c T t : Nat} {pre : Bool} (h : IssuedIn p c T t pre) : c < nIssues p := by
  obtain ⟨p1, c', ⟨r, rfl⟩, rfl⟩ := h
  simp [nIssues, List.countP_cons, Ev.isIssue]

theorem issuedIn_fun {c : Nat} : ∀ {p : List Ev} {T t : Nat} {pre : Bool} {T' t' : Nat} {pre' : Bool},
    IssuedIn p c T t pre → IssuedIn p c T' t' pre' → T = T' ∧ t = t' ∧ pre = pre' := by
  intro p
  induction p using List.reverseRecOn with
  | nil => intro T t pre T' t' pre' h; obtain ⟨_, _, h, _⟩ := h; exact absurd h occ_nil
  | append_singleton p e ih =>
    intro T t pre T' t' pre' h h'
    rcases issuedIn_snoc.mp h with h | ⟨hn, c1, rfl⟩ <;> rcases issuedIn_snoc.mp h' with h' | ⟨hn', c2, he⟩
    · exact ih h h'
    · have := issuedIn_lt h; omega
    · have := issuedIn_lt h'; omega
    · cases he; exact ⟨rfl, rfl, rfl⟩

theorem issuedIn_exists {p : List Ev} : ∀ {c : Nat}, c < nIssues p → ∃ T t pre, IssuedIn p c T t pre := by
  induction p using List.reverseRecOn with
  | nil => intro c h; simp at h
  | append_singleton p e ih =>
    intro c h
    rw [nIssues_snoc] at h
    by_cases hc : c < nIssues p
    · obtain ⟨T, t, pre, hi⟩ := ih hc
      exact ⟨T, t, pre, issuedIn_snoc.mpr (Or.inl hi)⟩
    · cases e <;> simp [Ev.isIssue] at h <;> try omega
      case issue c' T t pre => exact ⟨T, t, pre, issuedIn_snoc.mpr (Or.inr ⟨by omega, c', rfl⟩)⟩

theorem doneAt_snoc {p p1 : List Ev} {e : Ev} {c : Nat} {o : Outcome} {t : Nat} :
    DoneAt (p ++ [e]) p1 c o t ↔ DoneAt p p1 c o t ∨ (p1 = p ∧ e = .done c o t ∧ c < nIssues p) := by
  simp only [DoneAt, occ_snoc]
  constructor
  · rintro ⟨(h | ⟨rfl, h⟩), hn⟩
    · exact Or.inl ⟨h, hn⟩
    · exact Or.inr ⟨rfl, h.symm, hn⟩
  · rintro (⟨h, hn⟩ | ⟨rfl, rfl, hn⟩)
    · exact ⟨Or.inl h, hn⟩
    · exact ⟨Or.inr ⟨rfl, rfl⟩, hn⟩

theorem completed_snoc {p : List Ev} {e : Ev} {c : Nat} :
    Completed (p ++ [e]) c ↔ Completed p c ∨ (c < nIssues p ∧ ∃ o t, e = .done c o t) := by
  simp only [Completed, doneAt_snoc]
  constructor
  · rintro ⟨p1, o, t, (h | ⟨rfl, rfl, hn⟩)⟩
    · exact Or.inl ⟨p1, o, t, h⟩
    · exact Or.inr ⟨hn, o, t, rfl⟩
  · rintro (⟨p1, o, t, h⟩ | ⟨hn, o, t, rfl⟩)
    · exact ⟨p1, o, t, Or.inl h⟩
    · exact ⟨p, o, t, Or.inr ⟨rfl, rfl, hn⟩⟩

theorem completed_lt {p : List Ev} {c : Nat} (h : Completed p c) : c < nIssues p := by
  obtain ⟨p1, o, t, ho, hn⟩ := h
  have := nIssues_occ_le ho; omega

theorem firstDone_snoc {p : List Ev} {e : Ev} {c : Nat} {o : Outcome} {t : Nat} :
    FirstDone (p ++ [e]) c o t ↔
      FirstDone p c o t ∨ (e = .done c o t ∧ c < nIssues p ∧ ¬ Completed p c) := by
  simp only [FirstDone, doneAt_snoc]
  constructor
  · rintro ⟨p1, (h | ⟨rfl, rfl, hn⟩), hc⟩
    · exact Or.inl ⟨p1, h, hc⟩
    · exact Or.inr ⟨rfl, hn, hc⟩
  · rintro (⟨p1, h, hc⟩ | ⟨rfl, hn, hc⟩)
    · exact ⟨p1, Or.inl h, hc⟩
    · exact ⟨p, Or.inr ⟨rfl, rfl, hn⟩, hc⟩

theorem firstDone_completed {p : List Ev} {c : Nat} {o : Outcome} {t : Nat} (h : FirstDone p c o t) :
    Completed p c := by
  obtain ⟨p1, h, _⟩ := h; exact ⟨p1, o, t, h⟩

theorem completed_firstDone {c : Nat} : ∀ {p : List Ev}, Completed p c → ∃ o t, FirstDone p c o t := by
  intro p
  induction p using List.reverseRecOn with
  | nil => rintro ⟨_, _, _, h, _⟩; exact absurd h occ_nil
  | append_singleton p e ih =>
    intro h
    by_cases hc : Completed p c
    · obtain ⟨o, t, h'⟩ := ih hc
      exact ⟨o, t, firstDone_snoc.mpr (Or.inl h')⟩
    · rcases completed_snoc.mp h with h | ⟨hn, o, t, rfl⟩
      · exact absurd h hc
      · exact ⟨o, t, firstDone_snoc.mpr (Or.inr ⟨rfl, hn, hc⟩)⟩

theorem firstDone_fun {c : Nat} : ∀ {p : List Ev} {o : Outcome} {t : Nat} {o' : Outcome} {t' : Nat},
    FirstDone p c o t → FirstDone p c o' t' → o = o' ∧ t = t' := by
  intro p
  induction p using List.reverseRecOn with
  | nil => rintro o t o' t' ⟨_, ⟨h, _⟩, _⟩; exact absurd h occ_nil
  | append_singleton p e ih =>
    intro o t o' t' h h'
    rcases firstDone_snoc.mp h with h | ⟨rfl, _, hc⟩ <;> rcases firstDone_snoc.mp h' with h' | ⟨he, _, hc'⟩
    · exact ih h h'
    · exact absurd (firstDone_completed h) hc'
    · exact absurd (firstDone_completed h') hc
    · cases he; exact ⟨rfl, rfl⟩

theorem reqIn_snoc {p : List Ev} {e : Ev} {c conn tag t : Nat} :
    ReqIn (p ++ [e]) c conn tag t ↔
      ReqIn p c conn tag t ∨ (e = .wrote (c : Int) conn false tag t ∧ c < nIssues p) := by
  simp only [ReqIn, occ_snoc]
  constructor
  · rintro ⟨p1, (h | ⟨rfl, h⟩), hn⟩
    · exact Or.inl ⟨p1, h, hn⟩
    · exact Or.inr ⟨h.symm, hn⟩
  · rintro (⟨p1, h, hn⟩ | ⟨rfl, hn⟩)
    · exact ⟨p1, Or.inl h, hn⟩
    · exact ⟨p, Or.inr ⟨rfl, rfl⟩, hn⟩

theorem discIn_snoc {p : List Ev} {e : Ev} {c conn tag : Nat} :
    DiscIn (p ++ [e]) c conn tag ↔
      DiscIn p c conn tag ∨ (c < nIssues p ∧ ∃ t, e = .wrote (c : Int) conn true tag t) := by
  simp only [DiscIn, occ_snoc]
  constructor
  · rintro ⟨p1, t, (h | ⟨rfl, h⟩), hn⟩
    · exact Or.inl ⟨p1, t, h, hn⟩
    · exact Or.inr ⟨hn, t, h.symm⟩
  · rintro (⟨p1, t, h, hn⟩ | ⟨hn, t, rfl⟩)
    · exact ⟨p1, t, Or.inl h, hn⟩
    · exact ⟨p, t, Or.inr ⟨rfl, rfl⟩, hn⟩

theorem reqIn_lt {p : List Ev} {c conn tag t : Nat} (h : ReqIn p c conn tag t) : c < nIssues p := by
  obtain ⟨p1, ho, hn⟩ := h
  have := nIssues_occ_le ho; omega

theorem discIn_lt {p : List Ev} {c conn tag : Nat} (h : DiscIn p c conn tag) : c < nIssues p := by
  obtain ⟨p1, t, ho, hn⟩ := h
  have := nIssues_occ_le ho; omega

/-! ### the monitor's call records are these predicates -/

/-- what the monitor's record `cl` of call `c` says, read off the history `p` -/
structure CallRep (p : List Ev) (c : Nat) (cl : CallSt) : Prop where
  issued : IssuedIn p c cl.T cl.issueT cl.pre
  done : ∀ o t, cl.done = some (o, t) ↔ FirstDone p c o t
  reqs : ∀ conn tag t, (conn, tag, t) ∈ cl.reqs ↔ ReqIn p c conn tag t
  discs : ∀ conn tag, (conn, tag) ∈ cl.discards ↔ DiscIn p c conn tag

theorem CallRep.isSome {p : List Ev} {c : Nat} {cl : CallSt} (h : CallRep p c cl) :
    cl.done.isSome = true ↔ Completed p c := by
  constructor
  · intro hs
    obtain ⟨⟨o, t⟩, hx⟩ := Option.isSome_iff_exists.mp hs
    exact firstDone_completed ((h.done o t).mp hx)
  · intro hc
    obtain ⟨o, t, hf⟩ := completed_firstDone hc
    rw [(h.done o t).mpr hf]; rfl

theorem CallRep.isNone {p : List Ev} {c : Nat} {cl : CallSt} (h : CallRep p c cl) :
    cl.done = none ↔ ¬ Completed p c := by
  rw [← h.isSome]; cases cl.done <;> simp

/-- the effect of an event on the record of call `c` -/
def callStep (c : Nat) (e : Ev) (cl : CallSt) : CallSt :=
  match e with
  | .done c' o t => if c' = c then (if cl.done.isSome then cl else { cl with done := some (o, t) }) else cl
  | .wrote ci conn d tag t =>
    if ci = (c : Int) then
      (if d then { cl with discards := cl.discards ++ [(conn, tag)] }
       else { cl with reqs := cl.reqs ++ [(conn, tag, t)] })
    else cl
  | _ => cl

theorem callStep_T (c : Nat) (e : Ev) (cl : CallSt) :
    (callStep c e cl).T = cl.T ∧ (callStep c e cl).issueT = cl.issueT ∧ (callStep c e cl).pre = cl.pre := by
  cases e <;> simp only [callStep] <;> (repeat' split) <;> simp

theorem callRep_step {p : List Ev} {c : Nat} {cl : CallSt} (e : Ev) (h : CallRep p c cl) :
    CallRep (p ++ [e]) c (callStep c e cl) := by
  have hlt : c < nIssues p := issuedIn_lt h.issued
  obtain ⟨hT, hI, hP⟩ := callStep_T c e cl
  refine ⟨by rw [hT, hI, hP]; exact issuedIn_snoc.mpr (Or.inl h.issued), ?_, ?_, ?_⟩
  · -- done
    intro o t
    rw [firstDone_snoc]
    cases e with
    | done c' o' t' =>
      by_cases hc : c' = c
      · subst hc
        by_cases hs : cl.done.isSome = true
        · have hcomp := h.isSome.mp hs
          simp [callStep, hs, h.done, hcomp]
        · have hnone : cl.done = none := by simpa using hs
          have hcomp := h.isNone.mp hnone
          have hno : ¬ FirstDone p c' o t := fun hf => hcomp (firstDone_completed hf)
          simp only [callStep, hs, if_true, Bool.false_eq_true, if_false, Option.some.injEq, Prod.mk.injEq,
            Ev.done.injEq, true_and, hno, false_or, hlt, hcomp, not_false_eq_true, and_true]
      · simp [callStep, hc, h.done]
    | wrote ci conn d tag tw =>
      simp only [callStep]
      split <;> [split; skip] <;> simp [h.done]
    | _ => simp [callStep, h.done]
  · -- reqs
    intro conn tag t
    rw [reqIn_snoc]
    cases e with
    | wrote ci conn' d tag' tw =>
      by_cases hc : ci = (c : Int)
      · subst hc
        cases d
        · simp only [callStep, if_true, Bool.false_eq_true, if_false, List.mem_append, h.reqs, List.mem_singleton,
            Prod.mk.injEq, Ev.wrote.injEq, true_and, hlt, and_true]
          constructor
          · rintro (h1 | ⟨rfl, rfl, rfl⟩)
            · exact Or.inl h1
            · exact Or.inr ⟨rfl, rfl, rfl⟩
          · rintro (h1 | ⟨rfl, rfl, rfl⟩)
            · exact Or.inl h1
            · exact Or.inr ⟨rfl, rfl, rfl⟩
        · simp [callStep, h.reqs]
      · have : ¬ (ci = (c : Int)) := hc
        simp only [callStep, this, if_false, h.reqs, Ev.wrote.injEq, false_and, or_false]
    | done c' o' t' =>
      simp only [callStep]
      split <;> [split; skip] <;> simp [h.reqs]
    | _ => simp [callStep, h.reqs]
  · -- discards
    intro conn tag
    rw [discIn_snoc]
    cases e with
    | wrote ci conn' d tag' tw =>
      by_cases hc : ci = (c : Int)
      · subst hc
        cases d
        · simp [callStep, h.discs]
        · simp only [callStep, if_true, List.mem_append, h.discs, List.mem_singleton,
            Prod.mk.injEq, Ev.wrote.injEq, true_and, hlt]
          constructor
          · rintro (h1 | ⟨rfl, rfl⟩)
            · exact Or.inl h1
            · exact Or.inr ⟨tw, rfl, rfl, rfl⟩
          · rintro (h1 | ⟨_, rfl, rfl, _⟩)
            · exact Or.inl h1
            · exact Or.inr ⟨rfl, rfl⟩
      · have : ¬ (ci = (c : Int)) := hc
        simp only [callStep, this, if_false, h.discs, Ev.wrote.injEq, false_and, exists_false, and_false, or_false]
    | done c' o' t' =>
      simp only [callStep]
      split <;> [split; skip] <;> simp [h.discs]
    | _ => simp [callStep, h.discs]

theorem upd_calls (s : St) (c' : Nat) (f : CallSt → CallSt) (c : Nat) :
    (s.upd c' f).calls[c]? = if c' = c then (s.calls[c]?).map f else s.calls[c]? := by
  unfold St.upd
  split
  · rename_i cl hcl
    by_cases hc : c' = c
    · subst hc
      obtain ⟨hlt, hget⟩ := List.getElem?_eq_some_iff.mp hcl
      simp [hlt, hget]
    · simp [hc]
  · rename_i hnone
    by_cases hc : c' = c
    · subst hc; simp [hnone]
    · simp [hc]

theorem upd_calls_length (s : St) (c' : Nat) (f : CallSt → CallSt) : (s.upd c' f).calls.length = s.calls.length := by
  unfold St.upd; split <;> simp

theorem stStep_calls_length (s : St) (e : Ev) (h : e.isIssue = false) : (stStep s e).calls.length = s.calls.length := by
  cases e <;> simp [Ev.isIssue] at h <;> simp only [stStep] <;> (repeat' split) <;> simp [upd_calls_length]

theorem stStep_calls_other (s : St) (e : Ev) (h : e.isIssue = false) (c : Nat) :
    (stStep s e).calls[c]? = (s.calls[c]?).map (callStep c e) := by
  cases e with
  | issue _ _ _ _ => simp [Ev.isIssue] at h
  | done c' o t =>
    simp only [stStep, upd_calls]
    by_cases hc : c' = c <;> rcases hs : s.calls[c]? with _ | cl <;> simp [hc, callStep]
  | wrote ci conn d tag t =>
    simp only [stStep]
    by_cases hneg : ci < 0
    · have : ¬ (ci = (c : Int)) := by omega
      rcases hs : s.calls[c]? with _ | cl <;> simp [hneg, this, callStep, hs]
    · have hiff : (ci = (c : Int)) ↔ ci.toNat = c := by omega
      simp only [hneg, if_false]
      cases d <;> simp only [Bool.false_eq_true, if_false, if_true, upd_calls] <;>
        by_cases hc : ci.toNat = c <;> rcases hs : s.calls[c]? with _ | cl <;> simp [hc, hiff, callStep, hs]
  | reach ep up t mw => simp only [stStep]; split <;> rcases hs : s.calls[c]? with _ | cl <;> simp [callStep, hs]
  | connect ep t => simp only [stStep]; split <;> rcases hs : s.calls[c]? with _ | cl <;> simp [callStep, hs]
  | _ => rcases hs : s.calls[c]? with _ | cl <;> simp [stStep, callStep, hs]

/-- the call records of the monitor's state, read off the history -/
def RepCalls (p : List Ev) (s : St) : Prop :=
  s.calls.length = nIssues p ∧ ∀ c cl, s.calls[c]? = some cl → CallRep p c cl

theorem repCalls_nil : RepCalls [] {} := by
  refine ⟨rfl, ?_⟩
  intro c cl h; simp at h

theorem repCalls_step {p : List Ev} {s : St} (e : Ev) (h : RepCalls p s) : RepCalls (p ++ [e]) (stStep s e) := by
  obtain ⟨hlen, hrep⟩ := h
  by_cases hi : e.isIssue = true
  · cases e with
    | issue c' T t pre =>
      refine ⟨by simp [stStep, nIssues_snoc, Ev.isIssue, hlen], ?_⟩
      intro c cl hc
      simp only [stStep] at hc
      by_cases hlt : c < s.calls.length
      · rw [List.getElem?_append_left hlt] at hc
        exact callRep_step (.issue c' T t pre) (hrep c cl hc)
      · rw [List.getElem?_append_right (by omega)] at hc
        have hc0 : c - s.calls.length = 0 := by
          by_contra hne
          rw [List.getElem?_eq_none (by simp; omega)] at hc
          cases hc
        have hceq : c = nIssues p := by omega
        rw [hc0] at hc
        simp at hc
        subst hc
        refine ⟨issuedIn_snoc.mpr (Or.inr ⟨hceq.symm, c', rfl⟩), ?_, ?_, ?_⟩
        · intro o t'
          simp only [firstDone_snoc]
          constructor
          · intro h; cases h
          · rintro (h | ⟨h, _⟩)
            · have := completed_lt (firstDone_completed h); omega
            · cases h
        · intro conn tag t'
          simp only [reqIn_snoc]
          constructor
          · intro h; simp at h
          · rintro (h | ⟨h, _⟩)
            · have := reqIn_lt h; omega
            · cases h
        · intro conn tag
          simp only [discIn_snoc]
          constructor
          · intro h; simp at h
          · rintro (h | ⟨_, _, h⟩)
            · have := discIn_lt h; omega
            · cases h
    | _ => simp [Ev.isIssue] at hi
  · have hi' : e.isIssue = false := by simpa using hi
    refine ⟨by rw [stStep_calls_length s e hi', nIssues_snoc, hi', hlen]; simp, ?_⟩
    intro c cl hc
    rw [stStep_calls_other s e hi'] at hc
    cases hs : s.calls[c]? with
    | none => rw [hs] at hc; simp at hc
    | some cl0 =>
      rw [hs] at hc
      simp at hc
      subst hc
      exact callRep_step e (hrep c cl0 hs)

theorem repCalls (p : List Ev) : RepCalls p (stAfter {} p) := by
  induction p using List.reverseRecOn with
  | nil => exact repCalls_nil
  | append_singleton p e ih => rw [stAfter_snoc]; exact repCalls_step e ih

/-! ### connections closed, client closed -/

theorem repClosed (p : List Ev) : ∀ conn t, (conn, t) ∈ (stAfter {} p).closed ↔ Ev.connclosed conn t ∈ p := by
  induction p using List.reverseRecOn with
  | nil => intro conn t; simp
  | append_singleton p e ih =>
    intro conn t
    rw [stAfter_snoc]
    cases e <;> simp only [stStep] <;> (repeat' split) <;> simp [ih, St.upd] <;> (repeat' split) <;> simp [ih]

theorem repClientClosed (p : List Ev) :
    (stAfter {} p).clientClosedAt.isSome = true ↔ ∃ t, Ev.clientclosed t ∈ p := by
  induction p using List.reverseRecOn with
  | nil => simp
  | append_singleton p e ih =>
    rw [stAfter_snoc]
    cases e <;> simp only [stStep] <;> (repeat' split) <;> simp [ih, St.upd] <;> (repeat' split) <;> simp [ih]

/-! ### reachability of endpoints, retries owed -/

def Ev.isReach (ep : Nat) : Ev → Bool
  | .reach ep' _ _ _ => ep' == ep
  | _ => false

def Ev.isConnect (ep : Nat) : Ev → Bool
  | .connect ep' _ => ep' == ep
  | _ => false

/-- `e` is the last event of `p` that satisfies `q`; `p1` is the history before it -/
def LastAt (q : Ev → Bool) (p p1 : List Ev) (e : Ev) : Prop :=
  ∃ p2, p = p1 ++ e :: p2 ∧ q e = true ∧ ∀ x ∈ p2, q x = false

theorem lastAt_nil {q : Ev → Bool} {p1 : List Ev} {e : Ev} : ¬ LastAt q [] p1 e := by
  rintro ⟨p2, h, _⟩; simp at h

theorem lastAt_snoc {q : Ev → Bool} {p p1 : List Ev} {x e : Ev} :
    LastAt q (p ++ [x]) p1 e ↔ (q x = true ∧ p1 = p ∧ e = x) ∨ (q x = false ∧ LastAt q p p1 e) := by
  constructor
  · rintro ⟨p2, h, hq, hall⟩
    rcases List.eq_nil_or_concat p2 with rfl | ⟨r', y, rfl⟩
    · have := List.append_inj' h rfl
      simp at this
      obtain ⟨rfl, rfl⟩ := this
      exact Or.inl ⟨hq, rfl, rfl⟩
    · have h' : p ++ [x] = (p1 ++ e :: r') ++ [y] := by simpa using h
      have := List.append_inj' h' rfl
      simp at this
      obtain ⟨rfl, rfl⟩ := this
      refine Or.inr ⟨hall x (by simp), r', rfl, hq, ?_⟩
      intro z hz; exact hall z (by simp [hz])
  · rintro (⟨hq, rfl, rfl⟩ | ⟨hq, p2, rfl, hqe, hall⟩)
    · exact ⟨[], rfl, hq, by simp⟩
    · refine ⟨p2 ++ [x], by simp, hqe, ?_⟩
      intro z hz
      rcases List.mem_append.mp hz with hz | hz
      · exact hall z hz
      · simp at hz; subst hz; exact hq

theorem lastAt_fun {q : Ev → Bool} : ∀ {p p1 : List Ev} {e : Ev} {p1' : List Ev} {e' : Ev},
    LastAt q p p1 e → LastAt q p p1' e' → p1 = p1' ∧ e = e' := by
  intro p
  induction p using List.reverseRecOn with
  | nil => intro p1 e p1' e' h; exact absurd h lastAt_nil
  | append_singleton p x ih =>
    intro p1 e p1' e' h h'
    rcases lastAt_snoc.mp h with ⟨hq, rfl, rfl⟩ | ⟨hq, h⟩ <;>
      rcases lastAt_snoc.mp h' with ⟨hq', rfl, rfl⟩ | ⟨hq', h'⟩
    · exact ⟨rfl, rfl⟩
    · rw [hq] at hq'; cases hq'
    · rw [hq] at hq'; cases hq'
    · exact ih h h'

/-- the last reachability change of endpoint `ep` in `p`: it refuses connections since `t` -/
def DownIn (p : List Ev) (ep t : Nat) : Prop := ∃ p1 mw, LastAt (Ev.isReach ep) p p1 (.reach ep false t mw)

/-- the last reachability change of endpoint `ep` in `p`: it accepts connections again since `t`
    (`mw`: the configured maximum retry interval) -/
def UpIn (p : List Ev) (ep t mw : Nat) : Prop := ∃ p1, LastAt (Ev.isReach ep) p p1 (.reach ep true t mw)

/-- the last connection attempt to `ep` in `p` was made at `t` while `ep` refused connections -/
def OwedIn (p : List Ev) (ep t : Nat) : Prop :=
  ∃ p1, LastAt (Ev.isConnect ep) p p1 (.connect ep t) ∧ ∃ td, DownIn p1 ep td

theorem downIn_snoc {p : List Ev} {x : Ev} {ep t : Nat} :
    DownIn (p ++ [x]) ep t ↔
      (∃ mw, x = .reach ep false t mw) ∨ (Ev.isReach ep x = false ∧ DownIn p ep t) := by
  simp only [DownIn, lastAt_snoc]
  constructor
  · rintro ⟨p1, mw, (⟨_, _, h⟩ | ⟨hq, h⟩)⟩
    · exact Or.inl ⟨mw, h.symm⟩
    · exact Or.inr ⟨hq, p1, mw, h⟩
  · rintro (⟨mw, rfl⟩ | ⟨hq, p1, mw, h⟩)
    · exact ⟨p, mw, Or.inl ⟨by simp [Ev.isReach], rfl, rfl⟩⟩
    · exact ⟨p1, mw, Or.inr ⟨hq, h⟩⟩

theorem upIn_snoc {p : List Ev} {x : Ev} {ep t mw : Nat} :
    UpIn (p ++ [x]) ep t mw ↔
      x = .reach ep true t mw ∨ (Ev.isReach ep x = false ∧ UpIn p ep t mw) := by
  simp only [UpIn, lastAt_snoc]
  constructor
  · rintro ⟨p1, (⟨_, _, h⟩ | ⟨hq, h⟩)⟩
    · exact Or.inl h.symm
    · exact Or.inr ⟨hq, p1, h⟩
  · rintro (rfl | ⟨hq, p1, h⟩)
    · exact ⟨p, Or.inl ⟨by simp [Ev.isReach], rfl, rfl⟩⟩
    · exact ⟨p1, Or.inr ⟨hq, h⟩⟩

theorem owedIn_snoc {p : List Ev} {x : Ev} {ep t : Nat} :
    OwedIn (p ++ [x]) ep t ↔
      (x = .connect ep t ∧ ∃ td, DownIn p ep td) ∨ (Ev.isConnect ep x = false ∧ OwedIn p ep t) := by
  simp only [OwedIn, lastAt_snoc]
  constructor
  · rintro ⟨p1, (⟨_, rfl, h⟩ | ⟨hq, h⟩), hd⟩
    · exact Or.inl ⟨h.symm, hd⟩
    · exact Or.inr ⟨hq, p1, h, hd⟩
  · rintro (⟨rfl, hd⟩ | ⟨hq, p1, h, hd⟩)
    · exact ⟨p, Or.inl ⟨by simp [Ev.isConnect], rfl, rfl⟩, hd⟩
    · exact ⟨p1, Or.inr ⟨hq, h⟩, hd⟩

theorem upIn_fun {p : List Ev} {ep t mw t' mw' : Nat} (h : UpIn p ep t mw) (h' : UpIn p ep t' mw') :
    t = t' ∧ mw = mw' := by
  obtain ⟨p1, h⟩ := h
  obtain ⟨p1', h'⟩ := h'
  have := (lastAt_fun h h').2
  cases this; exact ⟨rfl, rfl⟩

theorem repDown (p : List Ev) : ∀ ep t, (ep, t) ∈ (stAfter {} p).down ↔ DownIn p ep t := by
  induction p using List.reverseRecOn with
  | nil => intro ep t; simp [DownIn, lastAt_nil]
  | append_singleton p e ih =>
    intro ep t
    rw [stAfter_snoc, downIn_snoc]
    cases e with
    | reach ep' up t' mw' =>
      simp only [stStep, Ev.isReach]
      by_cases hep : ep' = ep
      · subst hep
        cases up <;> simp [List.mem_filter]
        exact eq_comm
      · have hep' : ¬ ep = ep' := fun h => hep h.symm
        cases up <;> simp [List.mem_filter, hep, hep', ih]
    | connect ep' t' => simp only [stStep]; split <;> simp [Ev.isReach, ih]
    | done c o t' => simp [stStep, St.upd, Ev.isReach]; split <;> simp [ih]
    | wrote c conn d tag t' => simp [stStep, St.upd, Ev.isReach]; (repeat' split) <;> simp [ih]
    | _ => simp [stStep, Ev.isReach, ih]

theorem repUp (p : List Ev) : ∀ ep t mw, (ep, t, mw) ∈ (stAfter {} p).upSince ↔ UpIn p ep t mw := by
  induction p using List.reverseRecOn with
  | nil => intro ep t mw; simp [UpIn, lastAt_nil]
  | append_singleton p e ih =>
    intro ep t mw
    rw [stAfter_snoc, upIn_snoc]
    cases e with
    | reach ep' up t' mw' =>
      simp only [stStep, Ev.isReach]
      by_cases hep : ep' = ep
      · subst hep
        cases up <;> simp [List.mem_filter]
        constructor <;> (rintro ⟨rfl, rfl⟩; exact ⟨rfl, rfl⟩)
      · have hep' : ¬ ep = ep' := fun h => hep h.symm
        cases up <;> simp [List.mem_filter, hep, hep', ih]
    | connect ep' t' => simp only [stStep]; split <;> simp [Ev.isReach, ih]
    | done c o t' => simp [stStep, St.upd, Ev.isReach]; split <;> simp [ih]
    | wrote c conn d tag t' => simp [stStep, St.upd, Ev.isReach]; (repeat' split) <;> simp [ih]
    | _ => simp [stStep, Ev.isReach, ih]

theorem repOwed (p : List Ev) : ∀ ep t, (ep, t) ∈ (stAfter {} p).owed ↔ OwedIn p ep t := by
  induction p using List.reverseRecOn with
  | nil => intro ep t; simp [OwedIn, lastAt_nil]
  | append_singleton p e ih =>
    intro ep t
    rw [stAfter_snoc, owedIn_snoc]
    cases e with
    | connect ep' t' =>
      have hany : ((stAfter {} p).down.any fun d => d.1 == ep') = true ↔ ∃ td, DownIn p ep' td := by
        simp only [List.any_eq_true, beq_iff_eq]
        constructor
        · rintro ⟨⟨a, b⟩, hm, rfl⟩; exact ⟨b, (repDown p a b).mp hm⟩
        · rintro ⟨td, h⟩; exact ⟨(ep', td), (repDown p ep' td).mpr h, rfl⟩
      simp only [stStep, Ev.isConnect]
      by_cases hep : ep' = ep
      · subst hep
        split
        · rename_i hd
          have hd' := hany.mp hd
          simp [List.mem_filter, hd']
          exact eq_comm
        · rename_i hd
          have hd' : ¬ ∃ td, DownIn p ep' td := fun h => hd (hany.mpr h)
          simp [List.mem_filter, hd']
      · have hep' : ¬ ep = ep' := fun h => hep h.symm
        split <;> simp [List.mem_filter, hep, hep', ih]
    | reach ep' up t' mw' => simp only [stStep]; split <;> simp [Ev.isConnect, ih]
    | done c o t' => simp [stStep, St.upd, Ev.isConnect]; split <;> simp [ih]
    | wrote c conn d tag t' => simp [stStep, St.upd, Ev.isConnect]; (repeat' split) <;> simp [ih]
    | _ => simp [stStep, Ev.isConnect, ih]

/-! ### the violations, said about a history `p` and the event `e` that follows it -/

/-- a completion event for a call number that has not been issued -/
def UnknownCall (p : List Ev) (e : Ev) : Prop := ∃ c o t, e = .done c o t ∧ nIssues p ≤ c

/-- call `c` (issued) is completed with a reply the server produced for another call `k` -/
def ForeignReply (p : List Ev) (e : Ev) (c : Nat) (k : Int) : Prop := ∃ t, e = .done c (.other k) t ∧ c < nIssues p

/-- a completion event for a call that has already completed -/
def CompletedTwice (p : List Ev) (e : Ev) (c : Nat) : Prop := ∃ o t, e = .done c o t ∧ Completed p c

/-- call `c`, issued at `ti` with timeout `T`, completes with TimeoutError before `ti + T` -/
def TimeoutEarly (p : List Ev) (e : Ev) (c : Nat) : Prop :=
  ∃ t T ti pre, e = .done c .timeout t ∧ IssuedIn p c T ti pre ∧ ¬ Completed p c ∧ t < ti + T

/-- call `c`, issued at `ti` with timeout `T > 0`, completes later than `ti + T` rounded up to the timer resolution -/
def DeadlineMissed (p : List Ev) (e : Ev) (c : Nat) : Prop :=
  ∃ o t T ti pre, e = .done c o t ∧ IssuedIn p c T ti pre ∧ ¬ Completed p c ∧ 0 < T ∧ roundUp (ti + T) < t

/-- at a tick: call `c`, issued at `ti` with timeout `T > 0`, has not completed although the time is past
    `ti + T` rounded up to the timer resolution -/
def OverdueAtTick (p : List Ev) (e : Ev) (c : Nat) : Prop :=
  ∃ now T ti pre, e = .tick now ∧ IssuedIn p c T ti pre ∧ ¬ Completed p c ∧ 0 < T ∧ roundUp (ti + T) < now

/-- the server decoded a request whose method/arguments are not those of the call it carries, or of no call -/
def ArgsMangled (e : Ev) : Prop := ∃ c conn ok t, e = .srvgot c conn ok t ∧ (ok = false ∨ c < 0)

/-- a request frame of call `c` is written at `t` although the call completed with TimeoutError at `td ≤ t`
    (the completion event precedes the write in the log) -/
def WriteAfterTimeout (p : List Ev) (e : Ev) (c : Nat) : Prop :=
  ∃ conn tag t td, e = .wrote (c : Int) conn false tag t ∧ FirstDone p c .timeout td ∧ td ≤ t

/-- a connection attempt to `ep` after `DispatcherClose()` has returned -/
def ConnectAfterClose (p : List Ev) (e : Ev) (ep : Nat) : Prop := ∃ t tc, e = .connect ep t ∧ Ev.clientclosed tc ∈ p

/-- at time `now` the client, not closed, owes endpoint `ep` a connection attempt: the last attempt (at `tc`) was
    refused, `ep` accepts connections again since `tr`, and more than the maximum retry interval `mw` (plus
    `retrySlack`) has passed since both -/
def RetryOverdue (p : List Ev) (ep now : Nat) : Prop :=
  (∀ t, Ev.clientclosed t ∉ p) ∧
  ∃ tc tr mw, OwedIn p ep tc ∧ UpIn p ep tr mw ∧ max tr tc + mw + retrySlack < now

/-- at the end of the log: call `c` completed with TimeoutError at `td`, a request frame of it had been written
    (at `tw ≤ td`, tag `tag`) on a connection that was not closed at or before `td`, and no discard frame naming
    call `c` with that tag was written on that connection -/
def DiscardMissing (log : List Ev) (c : Nat) : Prop :=
  ∃ td conn tag tw, FirstDone log c .timeout td ∧ ReqIn log c conn tag tw ∧ tw ≤ td ∧
    (∀ tc, Ev.connclosed conn tc ∈ log → td < tc) ∧ ¬ DiscIn log c conn tag

/-! ### reading the checks -/

theorem calls_none {p : List Ev} {s : St} (h : RepCalls p s) {c : Nat} : s.calls[c]? = none ↔ nIssues p ≤ c := by
  rw [List.getElem?_eq_none_iff, h.1]

theorem calls_some {p : List Ev} {s : St} (h : RepCalls p s) {c : Nat} (hc : c < nIssues p) :
    ∃ cl, s.calls[c]? = some cl ∧ CallRep p c cl := by
  have hlt : c < s.calls.length := by rw [h.1]; exact hc
  exact ⟨s.calls[c], List.getElem?_eq_getElem hlt, h.2 c _ (List.getElem?_eq_getElem hlt)⟩

theorem CallRep.issued_eq {p : List Ev} {c : Nat} {cl : CallSt} (h : CallRep p c cl) {T ti : Nat} {pre : Bool}
    (hi : IssuedIn p c T ti pre) : T = cl.T ∧ ti = cl.issueT ∧ pre = cl.pre := issuedIn_fun hi h.issued

theorem overdueGo_fail {s : St} {idx now : Nat} {cn : String} {ps : List V} : ∀ (l : List CallSt) (c0 : Nat),
    overdueGo s idx now c0 l = .fail cn ps →
      ∃ k cl0, l[k]? = some cl0 ∧ callOverdue cl0 now = true ∧ cn = "deadline-bound" ∧
        ps = [V.ofNat idx, V.ofNat (c0 + k), openTag s cl0] := by
  intro l
  induction l with
  | nil => intro c0 h; simp [overdueGo] at h
  | cons cl l ih =>
    intro c0 h
    simp only [overdueGo] at h
    split at h
    · rename_i hov
      simp only [Verdict.fail.injEq] at h
      exact ⟨0, cl, rfl, hov, h.1.symm, h.2.symm⟩
    · obtain ⟨k, cl0, hk, hov, h1, h2⟩ := ih _ h
      exact ⟨k + 1, cl0, by simpa using hk, hov, h1, by rw [h2]; simp [Nat.add_assoc, Nat.add_comm 1]⟩

theorem overdueGo_ok {s : St} {idx now : Nat} : ∀ (l : List CallSt) (c0 : Nat),
    overdueGo s idx now c0 l = .ok ↔ ∀ cl0 ∈ l, callOverdue cl0 now = false := by
  intro l
  induction l with
  | nil => intro c0; simp [overdueGo]
  | cons cl l ih =>
    intro c0
    simp only [overdueGo]
    split
    · rename_i hov; simp [hov]
    · rename_i hov; simp [ih, hov]

theorem discardsGo_fail {s : St} {idx : Nat} {mux : Bool} {cn : String} {ps : List V} : ∀ (l : List CallSt) (c0 : Nat),
    discardsGo s idx mux c0 l = .fail cn ps →
      ∃ k cl0, l[k]? = some cl0 ∧ discardBad s mux cl0 = true ∧ cn = "discard-missing" ∧
        ps = [V.ofNat idx, V.ofNat (c0 + k)] := by
  intro l
  induction l with
  | nil => intro c0 h; simp [discardsGo] at h
  | cons cl l ih =>
    intro c0 h
    simp only [discardsGo] at h
    split at h
    · rename_i hov
      simp only [Verdict.fail.injEq] at h
      exact ⟨0, cl, rfl, hov, h.1.symm, h.2.symm⟩
    · obtain ⟨k, cl0, hk, hov, h1, h2⟩ := ih _ h
      exact ⟨k + 1, cl0, by simpa using hk, hov, h1, by rw [h2]; simp [Nat.add_assoc, Nat.add_comm 1]⟩

theorem discardsGo_ok {s : St} {idx : Nat} {mux : Bool} : ∀ (l : List CallSt) (c0 : Nat),
    discardsGo s idx mux c0 l = .ok ↔ ∀ cl0 ∈ l, discardBad s mux cl0 = false := by
  intro l
  induction l with
  | nil => intro c0; simp [discardsGo]
  | cons cl l ih =>
    intro c0
    simp only [discardsGo]
    split
    · rename_i hov; simp [hov]
    · rename_i hov; simp [ih, hov]

/-- reading of `callOverdue` -/
theorem callOverdue_iff {p : List Ev} {c : Nat} {cl : CallSt} (h : CallRep p c cl) (now : Nat) :
    callOverdue cl now = true ↔ OverdueAtTick p (.tick now) c := by
  simp only [callOverdue, OverdueAtTick, Bool.and_eq_true, decide_eq_true_eq, Option.isNone_iff_eq_none, h.isNone]
  constructor
  · rintro ⟨⟨h1, h2⟩, h3⟩
    exact ⟨now, cl.T, cl.issueT, cl.pre, rfl, h.issued, h1, h2, h3⟩
  · rintro ⟨now', T, ti, pre, he, hi, h1, h2, h3⟩
    cases he
    obtain ⟨rfl, rfl, rfl⟩ := h.issued_eq hi
    exact ⟨⟨h1, h2⟩, h3⟩

/-- reading of `discardBad` -/
theorem discardBad_iff {p : List Ev} {c : Nat} {cl : CallSt} (h : CallRep p c cl) (mux : Bool) :
    discardBad (stAfter {} p) mux cl = true ↔ mux = true ∧ DiscardMissing p c := by
  have hopen : ∀ conn t, connOpenAt (stAfter {} p) conn t = true ↔ ∀ tc, Ev.connclosed conn tc ∈ p → t < tc := by
    intro conn t
    simp only [connOpenAt, Bool.not_eq_true', List.any_eq_false, Bool.and_eq_true, beq_iff_eq, decide_eq_true_eq,
      not_and, Nat.not_le, Prod.forall]
    constructor
    · intro hh tc hm; exact hh conn tc ((repClosed p conn tc).mpr hm) rfl
    · intro hh a b hm hab; subst hab; exact hh b ((repClosed p a b).mp hm)
  have hdisc : ∀ conn tag, (cl.discards.any fun d => d.1 == conn && d.2 == tag) = true ↔ DiscIn p c conn tag := by
    intro conn tag
    rw [← h.discs]
    simp only [List.any_eq_true, Bool.and_eq_true, beq_iff_eq, Prod.exists]
    constructor
    · rintro ⟨a, b, hm, rfl, rfl⟩; exact hm
    · intro hm; exact ⟨conn, tag, hm, rfl, rfl⟩
  unfold discardBad DiscardMissing
  constructor
  · intro hb
    split at hb
    · rename_i t hd
      simp only [Bool.and_eq_true, List.any_eq_true, decide_eq_true_eq, Bool.not_eq_true', Prod.exists] at hb
      obtain ⟨hm, conn, tag, tw, hr, ⟨hle, ho⟩, hnd⟩ := hb
      refine ⟨hm, t, conn, tag, tw, (h.done _ _).mp hd, (h.reqs _ _ _).mp hr, hle, (hopen conn t).mp ho, ?_⟩
      intro hdi
      have := (hdisc conn tag).mpr hdi
      rw [this] at hnd; cases hnd
    · cases hb
  · rintro ⟨hm, td, conn, tag, tw, hf, hr, hle, hop, hnd⟩
    rw [(h.done _ _).mpr hf]
    simp only [Bool.and_eq_true, List.any_eq_true, decide_eq_true_eq, Bool.not_eq_true', Prod.exists]
    refine ⟨hm, conn, tag, tw, (h.reqs _ _ _).mpr hr, ⟨hle, (hopen conn td).mpr hop⟩, ?_⟩
    cases hx : (cl.discards.any fun d => d.1 == conn && d.2 == tag) with
    | false => rfl
    | true => exact absurd ((hdisc conn tag).mp hx) hnd

/-! ### the clauses of each monitor, with the parameters the verdict reports after the event index -/

/-- C01: clause `cl` (with parameters `rest` after the event index) is violated by event `e` after history `p` -/
def Viol1 (cl : String) (rest : List V) (p : List Ev) (e : Ev) : Prop :=
  (cl = "unknown-call" ∧ rest = [] ∧ UnknownCall p e) ∨
  (cl = "foreign-reply" ∧ ∃ c k, rest = [V.ofNat c] ∧ ForeignReply p e c k) ∨
  (cl = "completed-twice" ∧ ∃ c, rest = [V.ofNat c] ∧ CompletedTwice p e c) ∨
  (cl = "timeout-early" ∧ ∃ c, rest = [V.ofNat c] ∧ TimeoutEarly p e c) ∨
  (cl = "deadline-bound" ∧ ∃ c tag, rest = [V.ofNat c, tag] ∧ (DeadlineMissed p e c ∨ OverdueAtTick p e c))

/-- C02 -/
def Viol2 (cl : String) (rest : List V) (p : List Ev) (e : Ev) : Prop :=
  (cl = "unknown-call" ∧ rest = [] ∧ UnknownCall p e) ∨
  (cl = "cross-talk" ∧ ∃ c k, rest = [V.ofNat c, .n k] ∧ ForeignReply p e c k) ∨
  (cl = "args-mangled" ∧ rest = [] ∧ ArgsMangled e)

/-- C12, on events -/
def Viol12 (cl : String) (rest : List V) (p : List Ev) (e : Ev) : Prop :=
  (cl = "unknown-call" ∧ rest = [] ∧ UnknownCall p e) ∨
  (cl = "write-after-timeout" ∧ ∃ c, rest = [V.ofNat c] ∧ WriteAfterTimeout p e c)

/-- C12, at the end of the log -/
def ViolEnd12 (mux : Bool) (cl : String) (rest : List V) (log : List Ev) : Prop :=
  cl = "discard-missing" ∧ mux = true ∧ ∃ c, rest = [V.ofNat c] ∧ DiscardMissing log c

/-- C09 -/
def Viol9 (cl : String) (rest : List V) (p : List Ev) (e : Ev) : Prop :=
  (cl = "unknown-call" ∧ rest = [] ∧ UnknownCall p e) ∨
  (cl = "connect-after-close" ∧ ∃ ep, rest = [V.ofNat ep] ∧ ConnectAfterClose p e ep) ∨
  (cl = "no-reconnect-within-max-interval" ∧ ∃ ep, rest = [V.ofNat ep] ∧ RetryOverdue p ep (evTime e))

theorem unknown_of_none {p : List Ev} {c : Nat} {o : Outcome} {t : Nat}
    (hs : (stAfter {} p).calls[c]? = none) : UnknownCall p (.done c o t) :=
  ⟨c, o, t, rfl, (calls_none (repCalls p)).mp hs⟩

theorem verdictAt_wrote_ne12 {w : Nat} (hw : w ≠ 12) (s : St) (idx : Nat) (c : Int) (conn : Nat) (d : Bool)
    (tag t : Nat) : verdictAt w s idx (.wrote c conn d tag t) = .ok := by
  simp only [verdictAt, hw, if_false]
  split
  · rfl
  · split <;> simp

/-! #### C01 -/

theorem verdict1_fail {p : List Ev} {idx : Nat} {e : Ev} {cl : String} {ps : List V}
    (hv : verdictAt 1 (stAfter {} p) idx e = .fail cl ps) : ∃ rest, ps = V.ofNat idx :: rest ∧ Viol1 cl rest p e := by
  have h := repCalls p
  cases e with
  | done c o t =>
    simp only [verdictAt] at hv
    split at hv
    · rename_i hs
      simp only [Verdict.fail.injEq] at hv
      exact ⟨[], hv.2.symm, Or.inl ⟨hv.1.symm, rfl, unknown_of_none hs⟩⟩
    · rename_i cl0 hs
      have rep := h.2 c cl0 hs
      have hlt := issuedIn_lt rep.issued
      simp only [↓reduceIte, doneV1] at hv
      by_cases hf : o.isOther = true
      · rw [if_pos hf] at hv
        simp only [Verdict.fail.injEq] at hv
        cases o <;> simp [Outcome.isOther] at hf
        rename_i k
        exact ⟨[V.ofNat c], hv.2.symm, Or.inr (Or.inl ⟨hv.1.symm, c, k, rfl, t, rfl, hlt⟩)⟩
      · rw [if_neg hf] at hv
        by_cases hsome : cl0.done.isSome = true
        · rw [if_pos hsome] at hv
          simp only [Verdict.fail.injEq] at hv
          exact ⟨[V.ofNat c], hv.2.symm,
            Or.inr (Or.inr (Or.inl ⟨hv.1.symm, c, rfl, o, t, rfl, rep.isSome.mp hsome⟩))⟩
        · rw [if_neg hsome] at hv
          have hnc : ¬ Completed p c := fun hc => hsome (rep.isSome.mpr hc)
          by_cases he : (o = .timeout && decide (t < cl0.issueT + cl0.T)) = true
          · rw [if_pos he] at hv
            simp only [Verdict.fail.injEq] at hv
            simp only [Bool.and_eq_true, decide_eq_true_eq] at he
            obtain ⟨ho, hlt'⟩ := he
            subst ho
            exact ⟨[V.ofNat c], hv.2.symm, Or.inr (Or.inr (Or.inr (Or.inl
              ⟨hv.1.symm, c, rfl, t, cl0.T, cl0.issueT, cl0.pre, rfl, rep.issued, hnc, hlt'⟩)))⟩
          · rw [if_neg he] at hv
            by_cases hl : (decide (cl0.T > 0) && decide (t > roundUp (cl0.issueT + cl0.T))) = true
            · rw [if_pos hl] at hv
              simp only [Verdict.fail.injEq] at hv
              simp only [Bool.and_eq_true, decide_eq_true_eq] at hl
              exact ⟨[V.ofNat c, openTag (stAfter {} p) cl0], hv.2.symm, Or.inr (Or.inr (Or.inr (Or.inr
                ⟨hv.1.symm, c, _, rfl, Or.inl ⟨o, t, cl0.T, cl0.issueT, cl0.pre, rfl, rep.issued, hnc, hl.1, hl.2⟩⟩)))⟩
            · rw [if_neg hl] at hv
              cases hv
  | tick t =>
    simp only [verdictAt, ↓reduceIte, overdue] at hv
    obtain ⟨k, cl0, hk, hov, h1, h2⟩ := overdueGo_fail _ _ hv
    have rep := h.2 k cl0 hk
    refine ⟨[V.ofNat k, openTag (stAfter {} p) cl0], by simpa using h2, Or.inr (Or.inr (Or.inr (Or.inr
      ⟨h1, k, _, rfl, Or.inr ((callOverdue_iff rep t).mp hov)⟩)))⟩
  | wrote c conn d tag t =>
    rw [verdictAt_wrote_ne12 (by decide)] at hv; cases hv
  | srvgot c conn ok t => simp [verdictAt] at hv
  | connect ep t => simp [verdictAt] at hv
  | _ => simp [verdictAt] at hv

theorem verdict1_complete {p : List Ev} {idx : Nat} {e : Ev} {cl : String} {rest : List V}
    (hv : Viol1 cl rest p e) : verdictAt 1 (stAfter {} p) idx e ≠ .ok := by
  have h := repCalls p
  rcases hv with ⟨_, _, c, o, t, rfl, hn⟩ | ⟨_, c, k, _, t, rfl, hlt⟩ | ⟨_, c, _, o, t, rfl, hc⟩ |
    ⟨_, c, _, t, T, ti, pre, rfl, hi, hnc, hlt⟩ | ⟨_, c, tag, _, hd | hd⟩
  · simp [verdictAt, (calls_none h).mpr hn]
  · obtain ⟨cl0, hs, rep⟩ := calls_some h hlt
    simp [verdictAt, hs, doneV1, Outcome.isOther]
  · obtain ⟨cl0, hs, rep⟩ := calls_some h (completed_lt hc)
    have := rep.isSome.mpr hc
    simp only [verdictAt, hs, ↓reduceIte, doneV1, this]
    split <;> simp
  · obtain ⟨cl0, hs, rep⟩ := calls_some h (issuedIn_lt hi)
    obtain ⟨rfl, rfl, rfl⟩ := rep.issued_eq hi
    have hnone := rep.isNone.mpr hnc
    simp [verdictAt, hs, doneV1, hnone, hlt, Outcome.isOther]
  · obtain ⟨o, t, T, ti, pre, rfl, hi, hnc, hT, hlate⟩ := hd
    obtain ⟨cl0, hs, rep⟩ := calls_some h (issuedIn_lt hi)
    obtain ⟨rfl, rfl, rfl⟩ := rep.issued_eq hi
    have hnone := rep.isNone.mpr hnc
    simp only [verdictAt, hs, ↓reduceIte, doneV1, hnone]
    (repeat' split) <;> simp_all
  · obtain ⟨now, T, ti, pre, rfl, hi, hnc, hT, hlate⟩ := hd
    obtain ⟨cl0, hs, rep⟩ := calls_some h (issuedIn_lt hi)
    have hov := (callOverdue_iff rep now).mpr ⟨now, T, ti, pre, rfl, hi, hnc, hT, hlate⟩
    simp only [verdictAt, ↓reduceIte, overdue]
    intro hok
    have := (overdueGo_ok _ _).mp hok cl0 (List.mem_of_getElem? hs)
    rw [hov] at this; cases this

/-! #### C02 -/

theorem verdict2_fail {p : List Ev} {idx : Nat} {e : Ev} {cl : String} {ps : List V}
    (hv : verdictAt 2 (stAfter {} p) idx e = .fail cl ps) : ∃ rest, ps = V.ofNat idx :: rest ∧ Viol2 cl rest p e := by
  have h := repCalls p
  cases e with
  | done c o t =>
    simp only [verdictAt] at hv
    split at hv
    · rename_i hs
      simp only [Verdict.fail.injEq] at hv
      exact ⟨[], hv.2.symm, Or.inl ⟨hv.1.symm, rfl, unknown_of_none hs⟩⟩
    · rename_i cl0 hs
      have rep := h.2 c cl0 hs
      have hlt := issuedIn_lt rep.issued
      cases o with
      | other k =>
        simp [doneV2] at hv
        exact ⟨[V.ofNat c, .n k], hv.2.symm, Or.inr (Or.inl ⟨hv.1.symm, c, k, rfl, t, rfl, hlt⟩)⟩
      | _ => simp [doneV2] at hv
  | srvgot c conn ok t =>
    simp only [verdictAt] at hv
    split at hv
    · rename_i hc
      simp only [Verdict.fail.injEq] at hv
      refine ⟨[], hv.2.symm, Or.inr (Or.inr ⟨hv.1.symm, rfl, c, conn, ok, t, rfl, ?_⟩)⟩
      simp at hc
      exact hc
    · cases hv
  | wrote c conn d tag t => rw [verdictAt_wrote_ne12 (by decide)] at hv; cases hv
  | connect ep t => simp [verdictAt] at hv
  | _ => simp [verdictAt] at hv

theorem verdict2_complete {p : List Ev} {idx : Nat} {e : Ev} {cl : String} {rest : List V}
    (hv : Viol2 cl rest p e) : verdictAt 2 (stAfter {} p) idx e ≠ .ok := by
  have h := repCalls p
  rcases hv with ⟨_, _, c, o, t, rfl, hn⟩ | ⟨_, c, k, _, t, rfl, hlt⟩ | ⟨_, _, c, conn, ok, t, rfl, hbad⟩
  · simp [verdictAt, (calls_none h).mpr hn]
  · obtain ⟨cl0, hs, rep⟩ := calls_some h hlt
    simp [verdictAt, hs, doneV2]
  · simp only [verdictAt]
    rcases hbad with rfl | hneg <;> simp [*]

/-! #### C12 -/

theorem verdict12_fail {p : List Ev} {idx : Nat} {e : Ev} {cl : String} {ps : List V}
    (hv : verdictAt 12 (stAfter {} p) idx e = .fail cl ps) : ∃ rest, ps = V.ofNat idx :: rest ∧ Viol12 cl rest p e := by
  have h := repCalls p
  cases e with
  | done c o t =>
    simp only [verdictAt] at hv
    split at hv
    · rename_i hs
      simp only [Verdict.fail.injEq] at hv
      exact ⟨[], hv.2.symm, Or.inl ⟨hv.1.symm, rfl, unknown_of_none hs⟩⟩
    · simp at hv
  | wrote ci conn d tag t =>
    simp only [verdictAt] at hv
    by_cases hneg : ci < 0
    · rw [if_pos hneg] at hv; cases hv
    · rw [if_neg hneg] at hv
      split at hv
      · cases hv
      · rename_i cl0 hs
        have rep := h.2 _ cl0 hs
        cases d with
        | true => simp at hv
        | false =>
          simp only [Bool.false_eq_true, if_false, if_true, wroteV12] at hv
          split at hv
          · rename_i td hd
            split at hv
            · rename_i hle
              simp only [Verdict.fail.injEq] at hv
              have hci : ci = ((ci.toNat : Nat) : Int) := by omega
              refine ⟨[V.ofNat ci.toNat], hv.2.symm, Or.inr ⟨hv.1.symm, ci.toNat, rfl, conn, tag, t, td, ?_,
                (rep.done _ _).mp hd, hle⟩⟩
              rw [← hci]
            · cases hv
          · cases hv
  | srvgot c conn ok t => simp [verdictAt] at hv
  | connect ep t => simp [verdictAt] at hv
  | _ => simp [verdictAt] at hv

theorem verdict12_complete {p : List Ev} {idx : Nat} {e : Ev} {cl : String} {rest : List V}
    (hv : Viol12 cl rest p e) : verdictAt 12 (stAfter {} p) idx e ≠ .ok := by
  have h := repCalls p
  rcases hv with ⟨_, _, c, o, t, rfl, hn⟩ | ⟨_, c, _, conn, tag, t, td, rfl, hf, hle⟩
  · simp [verdictAt, (calls_none h).mpr hn]
  · obtain ⟨cl0, hs, rep⟩ := calls_some h (completed_lt (firstDone_completed hf))
    have hd := (rep.done _ _).mpr hf
    have hnn : ¬ ((c : Int) < 0) := by omega
    simp [verdictAt, hnn, hs, wroteV12, hd, hle]

theorem final12_fail {mux : Bool} {log : List Ev} {idx : Nat} {cl : String} {ps : List V}
    (hv : finalV 12 mux (stAfter {} log) idx = .fail cl ps) :
    ∃ rest, ps = V.ofNat idx :: rest ∧ ViolEnd12 mux cl rest log := by
  have h := repCalls log
  simp only [finalV, ↓reduceIte, discardsOk] at hv
  obtain ⟨k, cl0, hk, hbad, h1, h2⟩ := discardsGo_fail _ _ hv
  have rep := h.2 k cl0 hk
  obtain ⟨hm, hdm⟩ := (discardBad_iff rep mux).mp hbad
  exact ⟨[V.ofNat k], by simpa using h2, h1, hm, k, rfl, hdm⟩

theorem final12_complete {mux : Bool} {log : List Ev} {idx : Nat} {cl : String} {rest : List V}
    (hv : ViolEnd12 mux cl rest log) : finalV 12 mux (stAfter {} log) idx ≠ .ok := by
  have h := repCalls log
  obtain ⟨_, hm, c, _, hdm⟩ := hv
  have hlt : c < nIssues log := by
    obtain ⟨td, _, _, _, hf, _⟩ := hdm
    exact completed_lt (firstDone_completed hf)
  obtain ⟨cl0, hs, rep⟩ := calls_some h hlt
  have hbad := (discardBad_iff rep mux).mpr ⟨hm, hdm⟩
  simp only [finalV, ↓reduceIte, discardsOk]
  intro hok
  have := (discardsGo_ok _ _).mp hok cl0 (List.mem_of_getElem? hs)
  rw [hbad] at this; cases this

theorem finalV_ne12 {w : Nat} (hw : w ≠ 12) (mux : Bool) (s : St) (idx : Nat) : finalV w mux s idx = .ok := by
  simp [finalV, hw]

theorem preV_ne9 {w : Nat} (hw : w ≠ 9) (s : St) (idx : Nat) (e : Ev) : preV w s idx e = .ok := by
  simp [preV, hw]

/-! #### C09 -/

theorem retryOverdue_fail {p : List Ev} {idx now : Nat} {cl : String} {ps : List V}
    (hv : retryOverdue (stAfter {} p) idx now = .fail cl ps) :
    cl = "no-reconnect-within-max-interval" ∧ ∃ ep, ps = [V.ofNat idx, V.ofNat ep] ∧ RetryOverdue p ep now := by
  unfold retryOverdue at hv
  split at hv
  · cases hv
  · rename_i hcc
    split at hv
    · rename_i o hfind
      simp only [Verdict.fail.injEq] at hv
      have hmem := List.mem_of_find?_eq_some hfind
      have hov := List.find?_some hfind
      unfold owedOverdue at hov
      split at hov
      · rename_i u hu
        have humem := List.mem_of_find?_eq_some hu
        have hueq := List.find?_some hu
        simp only [beq_iff_eq] at hueq
        simp only [decide_eq_true_eq] at hov
        obtain ⟨ep, tc⟩ := o
        obtain ⟨ep', tr, mw⟩ := u
        simp only at hueq hov
        subst hueq
        refine ⟨hv.1.symm, ep', hv.2.symm, ?_, tc, tr, mw, (repOwed p _ _).mp hmem, (repUp p _ _ _).mp humem, hov⟩
        intro t hm
        exact hcc ((repClientClosed p).mpr ⟨t, hm⟩)
      · cases hov
    · cases hv

theorem retryOverdue_complete {p : List Ev} {idx now ep : Nat} (hv : RetryOverdue p ep now) :
    retryOverdue (stAfter {} p) idx now ≠ .ok := by
  obtain ⟨hcc, tc, tr, mw, ho, hu, hlt⟩ := hv
  have hcc' : ¬ (stAfter {} p).clientClosedAt.isSome = true := by
    intro hh
    obtain ⟨t, hm⟩ := (repClientClosed p).mp hh
    exact hcc t hm
  have hov : owedOverdue (stAfter {} p) now (ep, tc) = true := by
    unfold owedOverdue
    have humem := (repUp p ep tr mw).mpr hu
    cases hfind : (stAfter {} p).upSince.find? (fun u => u.1 == (ep, tc).1) with
    | none =>
      have := List.find?_eq_none.mp hfind _ humem
      simp at this
    | some u =>
      have hm := List.mem_of_find?_eq_some hfind
      have he := List.find?_some hfind
      simp only [beq_iff_eq] at he
      obtain ⟨ep', tr', mw'⟩ := u
      simp only at he
      subst he
      obtain ⟨rfl, rfl⟩ := upIn_fun ((repUp p _ _ _).mp hm) hu
      simp only [decide_eq_true_eq]
      exact hlt
  unfold retryOverdue
  rw [if_neg hcc']
  cases hfind : (stAfter {} p).owed.find? (owedOverdue (stAfter {} p) now) with
  | none =>
    have := List.find?_eq_none.mp hfind _ ((repOwed p ep tc).mpr ho)
    exact absurd hov this
  | some o => simp

theorem check9_fail {p : List Ev} {idx : Nat} {e : Ev} {cl : String} {ps : List V}
    (hv : preV 9 (stAfter {} p) idx e = .fail cl ps ∨ verdictAt 9 (stAfter {} p) idx e = .fail cl ps) :
    ∃ rest, ps = V.ofNat idx :: rest ∧ Viol9 cl rest p e := by
  rcases hv with hv | hv
  · simp only [preV, ↓reduceIte] at hv
    obtain ⟨h1, ep, h2, h3⟩ := retryOverdue_fail hv
    exact ⟨[V.ofNat ep], h2, Or.inr (Or.inr ⟨h1, ep, rfl, h3⟩)⟩
  · cases e with
    | done c o t =>
      simp only [verdictAt] at hv
      split at hv
      · rename_i hs
        simp only [Verdict.fail.injEq] at hv
        exact ⟨[], hv.2.symm, Or.inl ⟨hv.1.symm, rfl, unknown_of_none hs⟩⟩
      · simp at hv
    | connect ep t =>
      simp only [verdictAt] at hv
      split at hv
      · rename_i hc
        simp only [Verdict.fail.injEq] at hv
        simp only [decide_true, Bool.true_and] at hc
        obtain ⟨tc, hm⟩ := (repClientClosed p).mp hc
        exact ⟨[V.ofNat ep], hv.2.symm, Or.inr (Or.inl ⟨hv.1.symm, ep, rfl, t, tc, rfl, hm⟩)⟩
      · cases hv
    | wrote c conn d tag t => rw [verdictAt_wrote_ne12 (by decide)] at hv; cases hv
    | srvgot c conn ok t => simp [verdictAt] at hv
    | _ => simp [verdictAt] at hv

theorem check9_complete {p : List Ev} {idx : Nat} {e : Ev} {cl : String} {rest : List V}
    (hv : Viol9 cl rest p e) :
    ¬ (preV 9 (stAfter {} p) idx e = .ok ∧ verdictAt 9 (stAfter {} p) idx e = .ok) := by
  rintro ⟨hp, hvd⟩
  rcases hv with ⟨_, _, c, o, t, rfl, hn⟩ | ⟨_, ep, _, t, tc, rfl, hm⟩ | ⟨_, ep, _, hr⟩
  · simp [verdictAt, (calls_none (repCalls p)).mpr hn] at hvd
  · have := (repClientClosed p).mpr ⟨tc, hm⟩
    simp [verdictAt, this] at hvd
  · simp only [preV, ↓reduceIte] at hp
    exact retryOverdue_complete hr hp

/-! ### from the checks to the whole log -/

/-- clause `cl` of a monitor is violated at position `i` of `log` (`rest`: the parameters the verdict reports after
    the index): the event at position `i` violates it, given the events before it -/
def ViolatedAt (Viol : String → List V → List Ev → Ev → Prop) (log : List Ev) (cl : String) (i : Nat)
    (rest : List V) : Prop :=
  ∃ e, log[i]? = some e ∧ Viol cl rest (log.take i) e

theorem violatedAt_of_occ {Viol : String → List V → List Ev → Ev → Prop} {log p : List Ev} {e : Ev} {cl : String}
    {rest : List V} (ho : Occ log p e) (hv : Viol cl rest p e) : ViolatedAt Viol log cl p.length rest := by
  have := occ_iff_getElem?.mp ho
  exact ⟨e, this.1, by rw [this.2]; exact hv⟩

theorem occ_of_getElem? {log : List Ev} {i : Nat} {e : Ev} (h : log[i]? = some e) :
    Occ log (log.take i) e ∧ (log.take i).length = i := by
  have hlt : i < log.length := (List.getElem?_eq_some_iff.mp h).1
  have hl : (log.take i).length = i := by simp; omega
  exact ⟨occ_iff_getElem?.mpr ⟨by rw [hl]; exact h, by rw [hl]⟩, hl⟩

theorem verdict_cases (v : Verdict) : v = .ok ∨ ∃ cl ps, v = .fail cl ps := by
  cases v with
  | ok => exact Or.inl rfl
  | fail cl ps => exact Or.inr ⟨cl, ps, rfl⟩

/-- if every check of monitor `w` reads as `Viol` / `VEnd` (a `fail` exhibits a violation of the clause it names,
    with the reported parameters; a violation makes the check fail), then so does the monitor on whole logs -/
theorem monGo_reading (w : Nat) (mux : Bool) (Viol : String → List V → List Ev → Ev → Prop)
    (VEnd : String → List V → List Ev → Prop)
    (hA : ∀ p idx e cl ps, (preV w (stAfter {} p) idx e = .fail cl ps ∨ verdictAt w (stAfter {} p) idx e = .fail cl ps) →
      ∃ rest, ps = V.ofNat idx :: rest ∧ Viol cl rest p e)
    (hB : ∀ p idx e cl rest, Viol cl rest p e →
      ¬ (preV w (stAfter {} p) idx e = .ok ∧ verdictAt w (stAfter {} p) idx e = .ok))
    (hA' : ∀ log idx cl ps, finalV w mux (stAfter {} log) idx = .fail cl ps →
      ∃ rest, ps = V.ofNat idx :: rest ∧ VEnd cl rest log)
    (hB' : ∀ log idx cl rest, VEnd cl rest log → finalV w mux (stAfter {} log) idx ≠ .ok)
    (log : List Ev) :
    (monGo w mux {} 0 log = .ok ↔
      (∀ cl i rest, ¬ ViolatedAt Viol log cl i rest) ∧ ∀ cl rest, ¬ VEnd cl rest log) ∧
    (∀ cl ps, monGo w mux {} 0 log = .fail cl ps →
      (∃ i rest, ps = V.ofNat i :: rest ∧ ViolatedAt Viol log cl i rest ∧
        ∀ i', i' < i → ∀ cl' rest', ¬ ViolatedAt Viol log cl' i' rest') ∨
      (∃ rest, ps = V.ofNat log.length :: rest ∧ VEnd cl rest log ∧
        ∀ i' cl' rest', ¬ ViolatedAt Viol log cl' i' rest')) := by
  constructor
  · rw [monGo_eq_ok_iff]
    constructor
    · rintro ⟨h1, h2⟩
      refine ⟨?_, ?_⟩
      · rintro cl i rest ⟨e, hi, hv⟩
        obtain ⟨ho, hl⟩ := occ_of_getElem? hi
        exact hB _ _ e cl rest hv (h1 _ e ho)
      · intro cl rest hv
        exact hB' log _ cl rest hv h2
    · rintro ⟨h1, h2⟩
      refine ⟨?_, ?_⟩
      · intro p e ho
        constructor
        · rcases verdict_cases (preV w (stAfter {} p) (0 + p.length) e) with h | ⟨cl, ps, h⟩
          · exact h
          · obtain ⟨rest, _, hv⟩ := hA p _ e cl ps (Or.inl h)
            exact absurd (violatedAt_of_occ ho hv) (h1 cl _ rest)
        · rcases verdict_cases (verdictAt w (stAfter {} p) (0 + p.length) e) with h | ⟨cl, ps, h⟩
          · exact h
          · obtain ⟨rest, _, hv⟩ := hA p _ e cl ps (Or.inr h)
            exact absurd (violatedAt_of_occ ho hv) (h1 cl _ rest)
      · rcases verdict_cases (finalV w mux (stAfter {} log) (0 + log.length)) with h | ⟨cl, ps, h⟩
        · exact h
        · obtain ⟨rest, _, hv⟩ := hA' log _ cl ps h
          exact absurd hv (h2 cl rest)
  · intro cl ps h
    rcases monGo_eq_fail_first w mux cl ps log {} 0 h with ⟨p, e, ho, hv, hbefore⟩ | ⟨hv, hbefore⟩
    · obtain ⟨rest, hps, hviol⟩ := hA p _ e cl ps hv
      refine Or.inl ⟨p.length, rest, by simpa using hps, violatedAt_of_occ ho hviol, ?_⟩
      rintro i' hlt cl' rest' ⟨e', hi', hv'⟩
      obtain ⟨r, rfl⟩ := ho
      have hi'' : p[i']? = some e' := by rwa [List.getElem?_append_left hlt] at hi'
      have htake : (p ++ e :: r).take i' = p.take i' := by
        rw [List.take_append_of_le_length (Nat.le_of_lt hlt)]
      rw [htake] at hv'
      obtain ⟨ho', hl'⟩ := occ_of_getElem? hi''
      exact hB _ _ e' cl' rest' hv' (hbefore _ e' ho')
    · obtain ⟨rest, hps, hviol⟩ := hA' log _ cl ps hv
      refine Or.inr ⟨rest, by simpa using hps, hviol, ?_⟩
      rintro i' cl' rest' ⟨e', hi', hv'⟩
      obtain ⟨ho', hl'⟩ := occ_of_getElem? hi'
      exact hB _ _ e' cl' rest' hv' (hbefore _ e' ho')

/-! ### index forms of the history predicates on a prefix of a log -/

theorem occ_take {l : List Ev} {j : Nat} {p1 : List Ev} {e : Ev} :
    Occ (l.take j) p1 e ↔ ∃ i, i < j ∧ l[i]? = some e ∧ l.take i = p1 := by
  rw [occ_iff_getElem?]
  constructor
  · rintro ⟨h1, h2⟩
    rw [List.getElem?_take] at h1
    split at h1
    · rename_i hlt
      refine ⟨p1.length, hlt, h1, ?_⟩
      rw [List.take_take] at h2
      rwa [Nat.min_eq_left (Nat.le_of_lt hlt)] at h2
    · cases h1
  · rintro ⟨i, hlt, hi, rfl⟩
    have hil : i < l.length := (List.getElem?_eq_some_iff.mp hi).1
    have hl : (l.take i).length = i := by simp; omega
    rw [hl, List.getElem?_take, if_pos hlt, List.take_take, Nat.min_eq_left (Nat.le_of_lt hlt)]
    exact ⟨hi, rfl⟩

theorem mem_take_iff {l : List Ev} {j : Nat} {e : Ev} : e ∈ l.take j ↔ ∃ i, i < j ∧ l[i]? = some e := by
  rw [mem_iff_occ]
  constructor
  · rintro ⟨p, h⟩
    obtain ⟨i, hlt, hi, _⟩ := occ_take.mp h
    exact ⟨i, hlt, hi⟩
  · rintro ⟨i, hlt, hi⟩
    exact ⟨l.take i, occ_take.mpr ⟨i, hlt, hi, rfl⟩⟩

theorem issuedIn_take {l : List Ev} {j c T t : Nat} {pre : Bool} :
    IssuedIn (l.take j) c T t pre ↔
      ∃ i c', i < j ∧ l[i]? = some (.issue c' T t pre) ∧ nIssues (l.take i) = c := by
  simp only [IssuedIn, occ_take]
  constructor
  · rintro ⟨p1, c', ⟨i, hlt, hi, rfl⟩, hn⟩; exact ⟨i, c', hlt, hi, hn⟩
  · rintro ⟨i, c', hlt, hi, hn⟩; exact ⟨l.take i, c', ⟨i, hlt, hi, rfl⟩, hn⟩

theorem completed_take {l : List Ev} {j c : Nat} :
    Completed (l.take j) c ↔
      ∃ i o t, i < j ∧ l[i]? = some (.done c o t) ∧ c < nIssues (l.take i) := by
  simp only [Completed, DoneAt, occ_take]
  constructor
  · rintro ⟨p1, o, t, ⟨i, hlt, hi, rfl⟩, hn⟩; exact ⟨i, o, t, hlt, hi, hn⟩
  · rintro ⟨i, o, t, hlt, hi, hn⟩; exact ⟨l.take i, o, t, ⟨i, hlt, hi, rfl⟩, hn⟩

theorem firstDone_take {l : List Ev} {j c : Nat} {o : Outcome} {t : Nat} :
    FirstDone (l.take j) c o t ↔
      ∃ i, i < j ∧ l[i]? = some (.done c o t) ∧ c < nIssues (l.take i) ∧
        ¬ ∃ i' o' t', i' < i ∧ l[i']? = some (.done c o' t') ∧ c < nIssues (l.take i') := by
  simp only [FirstDone, DoneAt, occ_take]
  constructor
  · rintro ⟨p1, ⟨⟨i, hlt, hi, rfl⟩, hn⟩, hc⟩
    exact ⟨i, hlt, hi, hn, by rwa [completed_take] at hc⟩
  · rintro ⟨i, hlt, hi, hn, hc⟩
    exact ⟨l.take i, ⟨⟨i, hlt, hi, rfl⟩, hn⟩, by rwa [completed_take]⟩

theorem lastAt_take {q : Ev → Bool} {l : List Ev} {j : Nat} {p1 : List Ev} {e : Ev} :
    LastAt q (l.take j) p1 e ↔
      ∃ i, i < j ∧ l[i]? = some e ∧ l.take i = p1 ∧ q e = true ∧
        ∀ k x, i < k → k < j → l[k]? = some x → q x = false := by
  constructor
  · rintro ⟨p2, hsplit, hq, hall⟩
    obtain ⟨i, hlt, hi, hp1⟩ := occ_take.mp ⟨p2, hsplit⟩
    refine ⟨i, hlt, hi, hp1, hq, ?_⟩
    intro k x hik hkj hk
    have hk' : (l.take j)[k]? = some x := by rw [List.getElem?_take, if_pos hkj]; exact hk
    rw [hsplit] at hk'
    have hil : p1.length = i := by
      have := (List.getElem?_eq_some_iff.mp hi).1
      rw [← hp1]; simp; omega
    rw [List.getElem?_append_right (by omega)] at hk'
    obtain ⟨m, hm⟩ : ∃ m, k - p1.length = m + 1 := ⟨k - p1.length - 1, by omega⟩
    rw [hm, List.getElem?_cons_succ] at hk'
    exact hall x (List.mem_of_getElem? hk')
  · rintro ⟨i, hlt, hi, rfl, hq, hall⟩
    obtain ⟨r, hr⟩ := occ_take.mpr ⟨i, hlt, hi, rfl⟩
    refine ⟨r, hr, hq, ?_⟩
    intro x hx
    obtain ⟨m, hm⟩ := List.mem_iff_getElem?.mp hx
    have hil : (l.take i).length = i := by
      have := (List.getElem?_eq_some_iff.mp hi).1
      simp; omega
    have h1 : (l.take j)[i + 1 + m]? = some x := by
      rw [hr, List.getElem?_append_right (by omega)]
      have : i + 1 + m - (l.take i).length = m + 1 := by omega
      rw [this, List.getElem?_cons_succ]; exact hm
    rw [List.getElem?_take] at h1
    split at h1
    · rename_i hlt'
      exact hall _ x (by omega) hlt' h1
    · cases h1

theorem downIn_take {l : List Ev} {j ep t : Nat} :
    DownIn (l.take j) ep t ↔
      ∃ i mw, i < j ∧ l[i]? = some (.reach ep false t mw) ∧
        ∀ k x, i < k → k < j → l[k]? = some x → Ev.isReach ep x = false := by
  simp only [DownIn, lastAt_take]
  constructor
  · rintro ⟨p1, mw, i, hlt, hi, _, _, hall⟩; exact ⟨i, mw, hlt, hi, hall⟩
  · rintro ⟨i, mw, hlt, hi, hall⟩; exact ⟨l.take i, mw, i, hlt, hi, rfl, by simp [Ev.isReach], hall⟩

theorem upIn_take {l : List Ev} {j ep t mw : Nat} :
    UpIn (l.take j) ep t mw ↔
      ∃ i, i < j ∧ l[i]? = some (.reach ep true t mw) ∧
        ∀ k x, i < k → k < j → l[k]? = some x → Ev.isReach ep x = false := by
  simp only [UpIn, lastAt_take]
  constructor
  · rintro ⟨p1, i, hlt, hi, _, _, hall⟩; exact ⟨i, hlt, hi, hall⟩
  · rintro ⟨i, hlt, hi, hall⟩; exact ⟨l.take i, i, hlt, hi, rfl, by simp [Ev.isReach], hall⟩

theorem owedIn_take {l : List Ev} {j ep t : Nat} :
    OwedIn (l.take j) ep t ↔
      ∃ i, i < j ∧ l[i]? = some (.connect ep t) ∧
        (∀ k x, i < k → k < j → l[k]? = some x → Ev.isConnect ep x = false) ∧
        ∃ td, DownIn (l.take i) ep td := by
  simp only [OwedIn, lastAt_take]
  constructor
  · rintro ⟨p1, ⟨i, hlt, hi, rfl, _, hall⟩, hd⟩; exact ⟨i, hlt, hi, hall, hd⟩
  · rintro ⟨i, hlt, hi, hall, hd⟩; exact ⟨l.take i, ⟨i, hlt, hi, rfl, by simp [Ev.isConnect], hall⟩, hd⟩

/-! ### exact form: which check produces the verdict -/

/-- every check on the events of `p` (a history of the log) is ok -/
def AllOkBefore (w : Nat) (s : St) (idx : Nat) (p : List Ev) : Prop :=
  ∀ p' e', Occ p p' e' →
    preV w (stAfter s p') (idx + p'.length) e' = .ok ∧ verdictAt w (stAfter s p') (idx + p'.length) e' = .ok

/-- the verdict is `fail cl ps` exactly when the first check that is not ok yields `fail cl ps`
    (at an event: the check before the event, then the check of the event; or the end-of-log check) -/
theorem monGo_eq_fail_iff (w : Nat) (mux : Bool) (cl : String) (ps : List V) : ∀ (l : List Ev) (s : St) (idx : Nat),
    monGo w mux s idx l = .fail cl ps ↔
      (∃ p e, Occ l p e ∧ AllOkBefore w s idx p ∧
        (preV w (stAfter s p) (idx + p.length) e = .fail cl ps ∨
         (preV w (stAfter s p) (idx + p.length) e = .ok ∧
          verdictAt w (stAfter s p) (idx + p.length) e = .fail cl ps))) ∨
      (AllOkBefore w s idx l ∧ finalV w mux (stAfter s l) (idx + l.length) = .fail cl ps) := by
  intro l
  induction l with
  | nil =>
    intro s idx
    simp only [monGo, occ_nil, false_and, exists_false, false_or, AllOkBefore]
    constructor
    · intro h; exact ⟨fun p' e' ho => ho.elim, by simpa using h⟩
    · rintro ⟨_, h⟩; simpa using h
  | cons a l ih =>
    intro s idx
    have hshift : ∀ q : List Ev, AllOkBefore w s idx (a :: q) ↔
        (preV w s idx a = .ok ∧ verdictAt w s idx a = .ok) ∧ AllOkBefore w (stStep s a) (idx + 1) q := by
      intro q
      constructor
      · intro h
        refine ⟨by simpa using h [] a (occ_cons.mpr (Or.inl ⟨rfl, rfl⟩)), ?_⟩
        intro p' e' ho
        have := h (a :: p') e' (occ_cons.mpr (Or.inr ⟨p', rfl, ho⟩))
        simpa [Nat.add_assoc, Nat.add_comm 1] using this
      · rintro ⟨h0, h⟩ p' e' ho
        rcases occ_cons.mp ho with ⟨rfl, rfl⟩ | ⟨p'', rfl, ho'⟩
        · simpa using h0
        · have := h p'' e' ho'
          simpa [Nat.add_assoc, Nat.add_comm 1] using this
    simp only [monGo, and_eq_fail, ih]
    constructor
    · rintro (h | ⟨hp, h | ⟨hv, h⟩⟩)
      · exact Or.inl ⟨[], a, occ_cons.mpr (Or.inl ⟨rfl, rfl⟩), fun p' e' ho => absurd ho occ_nil,
          Or.inl (by simpa using h)⟩
      · exact Or.inl ⟨[], a, occ_cons.mpr (Or.inl ⟨rfl, rfl⟩), fun p' e' ho => absurd ho occ_nil,
          Or.inr ⟨by simpa using hp, by simpa using h⟩⟩
      · rcases h with ⟨p, e, ho, hall, hc⟩ | ⟨hall, hf⟩
        · refine Or.inl ⟨a :: p, e, occ_cons.mpr (Or.inr ⟨p, rfl, ho⟩), (hshift p).mpr ⟨⟨hp, hv⟩, hall⟩, ?_⟩
          simpa [Nat.add_assoc, Nat.add_comm 1] using hc
        · exact Or.inr ⟨(hshift l).mpr ⟨⟨hp, hv⟩, hall⟩, by simpa [Nat.add_assoc, Nat.add_comm 1] using hf⟩
    · rintro (⟨p, e, ho, hall, hc⟩ | ⟨hall, hf⟩)
      · rcases occ_cons.mp ho with ⟨rfl, rfl⟩ | ⟨p', rfl, ho'⟩
        · rcases hc with hc | ⟨hp, hc⟩
          · exact Or.inl (by simpa using hc)
          · exact Or.inr ⟨by simpa using hp, Or.inl (by simpa using hc)⟩
        · obtain ⟨⟨hp, hv⟩, hall'⟩ := (hshift p').mp hall
          refine Or.inr ⟨hp, Or.inr ⟨hv, Or.inl ⟨p', e, ho', hall', ?_⟩⟩⟩
          simpa [Nat.add_assoc, Nat.add_comm 1] using hc
      · obtain ⟨⟨hp, hv⟩, hall'⟩ := (hshift l).mp hall
        exact Or.inr ⟨hp, Or.inr ⟨hv, Or.inr ⟨hall', by simpa [Nat.add_assoc, Nat.add_comm 1] using hf⟩⟩⟩

/-- all checks before position `j` are ok ⇔ no clause is violated before `j` -/
theorem allOkBefore_take_iff (w : Nat) (Viol : String → List V → List Ev → Ev → Prop)
    (hA : ∀ p idx e cl ps, (preV w (stAfter {} p) idx e = .fail cl ps ∨ verdictAt w (stAfter {} p) idx e = .fail cl ps) →
      ∃ rest, ps = V.ofNat idx :: rest ∧ Viol cl rest p e)
    (hB : ∀ p idx e cl rest, Viol cl rest p e →
      ¬ (preV w (stAfter {} p) idx e = .ok ∧ verdictAt w (stAfter {} p) idx e = .ok))
    (log : List Ev) (j : Nat) :
    AllOkBefore w {} 0 (log.take j) ↔ ∀ i, i < j → ∀ cl rest, ¬ ViolatedAt Viol log cl i rest := by
  constructor
  · rintro hall i hlt cl rest ⟨e, hi, hv⟩
    exact hB _ _ e cl rest hv (hall _ e (occ_take.mpr ⟨i, hlt, hi, rfl⟩))
  · intro h p' e' ho
    obtain ⟨i, hlt, hi, rfl⟩ := occ_take.mp ho
    have hil : i < log.length := (List.getElem?_eq_some_iff.mp hi).1
    have hl : (log.take i).length = i := by simp; omega
    constructor
    · rcases verdict_cases (preV w (stAfter {} (log.take i)) (0 + (log.take i).length) e') with h' | ⟨cl, ps, h'⟩
      · exact h'
      · obtain ⟨rest, _, hv⟩ := hA _ _ e' cl ps (Or.inl h')
        exact absurd ⟨e', hi, hv⟩ (h i hlt cl rest)
    · rcases verdict_cases (verdictAt w (stAfter {} (log.take i)) (0 + (log.take i).length) e') with h' | ⟨cl, ps, h'⟩
      · exact h'
      · obtain ⟨rest, _, hv⟩ := hA _ _ e' cl ps (Or.inr h')
        exact absurd ⟨e', hi, hv⟩ (h i hlt cl rest)

theorem V.ofNat_inj {a b : Nat} (h : V.ofNat a = V.ofNat b) : a = b := by
  simp only [V.ofNat, V.n.injEq] at h
  exact Int.ofNat.inj h

/-- exact form at a reported position `j`: the verdict is `fail cl (j :: rest)` iff no clause is violated before `j`
    and the check at `j` (before the event, then of the event; or the end-of-log check if `j` is the length of the
    log) yields exactly that verdict -/
theorem monGo_fail_at_iff (w : Nat) (mux : Bool) (Viol : String → List V → List Ev → Ev → Prop)
    (hA : ∀ p idx e cl ps, (preV w (stAfter {} p) idx e = .fail cl ps ∨ verdictAt w (stAfter {} p) idx e = .fail cl ps) →
      ∃ rest, ps = V.ofNat idx :: rest ∧ Viol cl rest p e)
    (hB : ∀ p idx e cl rest, Viol cl rest p e →
      ¬ (preV w (stAfter {} p) idx e = .ok ∧ verdictAt w (stAfter {} p) idx e = .ok))
    (hA' : ∀ log idx cl ps, finalV w mux (stAfter {} log) idx = .fail cl ps → ∃ rest, ps = V.ofNat idx :: rest)
    (log : List Ev) (cl : String) (j : Nat) (rest : List V) :
    monGo w mux {} 0 log = .fail cl (V.ofNat j :: rest) ↔
      (∀ i, i < j → ∀ cl' rest', ¬ ViolatedAt Viol log cl' i rest') ∧
      ((∃ e, log[j]? = some e ∧
          (preV w (stAfter {} (log.take j)) j e = .fail cl (V.ofNat j :: rest) ∨
           (preV w (stAfter {} (log.take j)) j e = .ok ∧
            verdictAt w (stAfter {} (log.take j)) j e = .fail cl (V.ofNat j :: rest)))) ∨
       (j = log.length ∧ finalV w mux (stAfter {} log) j = .fail cl (V.ofNat j :: rest))) := by
  rw [monGo_eq_fail_iff]
  constructor
  · rintro (⟨p, e, ho, hall, hc⟩ | ⟨hall, hf⟩)
    · obtain ⟨hget, htake⟩ := occ_iff_getElem?.mp ho
      have hj : j = p.length := by
        have hc' : preV w (stAfter {} p) (0 + p.length) e = .fail cl (V.ofNat j :: rest) ∨
            verdictAt w (stAfter {} p) (0 + p.length) e = .fail cl (V.ofNat j :: rest) := by
          rcases hc with hc | ⟨_, hc⟩
          · exact Or.inl hc
          · exact Or.inr hc
        obtain ⟨rest', hps, _⟩ := hA _ _ _ _ _ hc'
        simp only [List.cons.injEq] at hps
        have := V.ofNat_inj hps.1
        omega
      subst hj
      rw [← htake] at hall
      refine ⟨(allOkBefore_take_iff w Viol hA hB log _).mp hall, Or.inl ⟨e, hget, ?_⟩⟩
      rw [htake]
      simpa using hc
    · obtain ⟨rest', hps⟩ := hA' _ _ _ _ hf
      simp only [List.cons.injEq] at hps
      have hj : j = log.length := by have := V.ofNat_inj hps.1; omega
      subst hj
      refine ⟨?_, Or.inr ⟨rfl, by simpa using hf⟩⟩
      have : AllOkBefore w {} 0 (log.take log.length) := by rw [List.take_length]; exact hall
      exact (allOkBefore_take_iff w Viol hA hB log _).mp this
  · rintro ⟨hfirst, (⟨e, hget, hc⟩ | ⟨rfl, hf⟩)⟩
    · obtain ⟨ho, hl⟩ := occ_of_getElem? hget
      refine Or.inl ⟨log.take j, e, ho, (allOkBefore_take_iff w Viol hA hB log j).mpr hfirst, ?_⟩
      rw [hl]
      simpa using hc
    · refine Or.inr ⟨?_, by simpa using hf⟩
      have := (allOkBefore_take_iff w Viol hA hB log log.length).mpr hfirst
      rwa [List.take_length] at this

/-! exact verdicts of single checks -/

theorem verdict9_connect_after_close {p : List Ev} {idx ep t tc : Nat} (hm : Ev.clientclosed tc ∈ p) :
    verdictAt 9 (stAfter {} p) idx (.connect ep t) = .fail "connect-after-close" [V.ofNat idx, V.ofNat ep] := by
  have := (repClientClosed p).mpr ⟨tc, hm⟩
  simp [verdictAt, this]

theorem verdict12_write_after_timeout {p : List Ev} {idx c conn tag t td : Nat}
    (hf : FirstDone p c .timeout td) (hle : td ≤ t) :
    verdictAt 12 (stAfter {} p) idx (.wrote (c : Int) conn false tag t) =
      .fail "write-after-timeout" [V.ofNat idx, V.ofNat c] := by
  obtain ⟨cl0, hs, rep⟩ := calls_some (repCalls p) (completed_lt (firstDone_completed hf))
  have hd := (rep.done _ _).mpr hf
  have hnn : ¬ ((c : Int) < 0) := by omega
  simp [verdictAt, hnn, hs, wroteV12, hd, hle]

theorem verdict2_cross_talk {p : List Ev} {idx c t : Nat} {k : Int} (hlt : c < nIssues p) :
    verdictAt 2 (stAfter {} p) idx (.done c (.other k) t) = .fail "cross-talk" [V.ofNat idx, V.ofNat c, .n k] := by
  obtain ⟨cl0, hs, rep⟩ := calls_some (repCalls p) hlt
  simp [verdictAt, hs, doneV2]

end Scales.E2E
