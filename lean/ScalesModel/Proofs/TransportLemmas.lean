/-
  Proofs/TransportLemmas.lean — facts about the bookkeeping functions the C08 specifications
  share (`settle`, `firstNotFailed`) and about `Verdict.and`.
-/
import ScalesModel.Model.Transport
set_option linter.unusedSimpArgs false
namespace Scales.Transport

theorem and_ok {v : Verdict} {f : Unit → Verdict} (h1 : v = .ok) (h2 : f () = .ok) :
    v.and f = .ok := by
  subst h1; exact h2

@[simp] theorem settle_nil (owed ab : List Nat) : settle owed ab [] = .ok (owed, ab) := by
  cases owed <;> rfl

theorem settle_cons_owed (owed ab : List Nat) (id : Nat) (r : Resp) (rest : List (Nat × Resp))
    (h : id ∈ owed) : settle owed ab ((id, r) :: rest) = settle (owed.erase id) ab rest := by
  simp [settle, h]

/-- handing every owed request one response, in order, settles them all -/
theorem settle_all (l ab : List Nat) (f : Nat → Resp) :
    settle l ab (l.map (fun i => (i, f i))) = .ok ([], ab) := by
  induction l with
  | nil => simp
  | cons x xs ih =>
    simp only [List.map_cons]
    rw [settle_cons_owed _ _ _ _ _ (by simp)]
    simpa using ih

theorem firstNotFailed_none_of (owed : List Nat) (dels : List (Nat × Resp))
    (h : ∀ id ∈ owed, ∃ r, (id, r) ∈ dels ∧ r.isError = true) : firstNotFailed owed dels = none := by
  unfold firstNotFailed
  rw [List.find?_eq_none]
  intro id hid
  obtain ⟨r, hm, hr⟩ := h id hid
  simp only [Bool.not_eq_true, Bool.not_eq_false', List.any_eq_true]
  exact ⟨(id, r), hm, by simp [hr]⟩

theorem firstNotFailed_all (l : List Nat) (r : Resp) (hr : r.isError = true) :
    firstNotFailed l (l.map (fun i => (i, r))) = none := by
  apply firstNotFailed_none_of
  intro id hid
  exact ⟨r, by simpa using hid, hr⟩

theorem erase_append_singleton_of_not_mem (l : List Nat) (x : Nat) (h : x ∉ l) :
    (l ++ [x]).erase x = l := by
  induction l with
  | nil => simp
  | cons y ys ih =>
    have hne : y ≠ x := by intro e; apply h; simp [e]
    have hx : x ∉ ys := by intro e; apply h; simp [e]
    simp [hne, ih hx]

/-- accounting: every response handed out removes one owed (or abandoned) entry -/
theorem settle_count (id : Nat) : ∀ (dels : List (Nat × Resp)) (owed ab owed' ab' : List Nat),
    settle owed ab dels = .ok (owed', ab') →
    dels.countP (fun d => d.1 == id) + (owed'.count id + ab'.count id) = owed.count id + ab.count id := by
  intro dels
  induction dels with
  | nil => intro owed ab owed' ab' h; simp at h; obtain ⟨rfl, rfl⟩ := h; simp
  | cons d rest ih =>
    intro owed ab owed' ab' h
    obtain ⟨i, r⟩ := d
    unfold settle at h
    by_cases ho : owed.contains i = true
    · simp only [ho, if_true] at h
      have := ih _ _ _ _ h
      have hi : i ∈ owed := by simpa using ho
      by_cases e : i = id
      · subst e
        have hc : 0 < owed.count i := List.count_pos_iff.mpr hi
        simp [List.countP_cons, List.count_erase_self] at this ⊢
        omega
      · have e' : (i == id) = false := by simpa using e
        have hne : ¬ (id == i) = true := by simp; exact fun h => e h.symm
        simp [List.countP_cons, e', List.count_erase_of_ne (Ne.symm e)] at this ⊢
        omega
    · simp only [ho] at h
      by_cases ha : ab.contains i = true
      · simp only [ha, if_true] at h
        have := ih _ _ _ _ h
        have hi : i ∈ ab := by simpa using ha
        by_cases e : i = id
        · subst e
          have hc : 0 < ab.count i := List.count_pos_iff.mpr hi
          simp [List.countP_cons, List.count_erase_self] at this ⊢
          omega
        · have e' : (i == id) = false := by simpa using e
          simp [List.countP_cons, e', List.count_erase_of_ne (Ne.symm e)] at this ⊢
          omega
      · have hi : i ∉ ab := by simpa using ha
        simp [hi] at h

theorem settle_cons (owed ab : List Nat) (id : Nat) (r : Resp) (rest : List (Nat × Resp)) :
    settle owed ab ((id, r) :: rest) =
      if owed.contains id then settle (owed.erase id) ab rest
      else if ab.contains id then settle owed (ab.erase id) rest
      else .error id := by
  rw [settle]

/-- responses handed out in two batches settle like one batch after the other -/
theorem settle_append (d1 d2 : List (Nat × Resp)) : ∀ (owed ab owed' ab' : List Nat),
    settle owed ab d1 = .ok (owed', ab') → settle owed ab (d1 ++ d2) = settle owed' ab' d2 := by
  induction d1 with
  | nil => intro owed ab owed' ab' h; simp at h; obtain ⟨rfl, rfl⟩ := h; rfl
  | cons d rest ih =>
    intro owed ab owed' ab' h
    obtain ⟨i, r⟩ := d
    simp only [List.cons_append]
    rw [settle_cons] at h ⊢
    by_cases ho : owed.contains i = true
    · rw [if_pos ho] at h ⊢
      exact ih _ _ _ _ h
    · rw [if_neg ho] at h ⊢
      by_cases ha : ab.contains i = true
      · rw [if_pos ha] at h ⊢
        exact ih _ _ _ _ h
      · rw [if_neg ha] at h
        cases h

end Scales.Transport
