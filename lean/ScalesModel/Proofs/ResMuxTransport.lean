/-
  Proofs/ResMuxTransport.lean — what the chain model (Model/ResMux.lean) needs to know about a step
  of the ThriftMux transport model (Model/MuxT.lean): an invariant that names the phases of a
  transport (never opened / opening handshake / open / closed) and, for every way the chain steps
  the transport, a summary of the step (`TStep`).
-/
import ScalesModel.Adapter.ResMux
import ScalesModel.Proofs.MuxTTheorems
set_option linter.unusedSimpArgs false
set_option linter.unusedVariables false
namespace Scales.ResMux
open Scales.Transport
open Scales.MuxT

/-- phases of a transport -/
structure TCore (t : MuxT.St) : Prop where
  opg : t.opening = true → t.cstate = .idle ∧ t.openRes = .pending ∧ t.pingWait = true ∧ t.rl ≠ .dead
  idl : t.cstate = .idle → t.opening = false → t.rl = .dead ∧ t.sl = .dead
  opn : t.cstate = .opened → t.opening = false ∧ t.openRes = .ok ∧ t.rl ≠ .dead
  cls : t.cstate = .closed → t.opening = false ∧ t.openRes ≠ .pending
  orp : t.openRes = .pending → t.opening = true
  orf : t.openRes = .failed → t.cstate = .closed
  oro : t.openRes = .ok → t.cstate ≠ .idle

structure TInv (t : MuxT.St) : Prop where
  i0 : Inv0 t
  pend : t.pending = []
  core : TCore t

theorem tcore_init : TCore MuxT.St.init := by
  constructor <;> simp [MuxT.St.init]

theorem tinv_init : TInv MuxT.St.init := ⟨inv0_init, rfl, tcore_init⟩

/-- the connection of a transport, as the peer sees it -/
def connOf (t : MuxT.St) : CP :=
  if t.cstate = .opened then .up else if t.opening = true then .hs else .none

theorem connOf_closed {t : MuxT.St} (h : TInv t) (hc : t.cstate = .closed) : connOf t = .none := by
  simp [connOf, hc, (h.core.cls hc).1]

theorem connOf_opened {t : MuxT.St} (hc : t.cstate = .opened) : connOf t = .up := by
  simp [connOf, hc]

theorem connOf_opening {t : MuxT.St} (h : TInv t) (ho : t.opening = true) : connOf t = .hs := by
  simp [connOf, ho, (h.core.opg ho).1]

theorem connOf_none {t : MuxT.St} (h : connOf t = .none) : t.cstate ≠ .opened ∧ t.opening = false := by
  unfold connOf at h
  split at h
  · cases h
  · split at h
    · cases h
    · rename_i h1 h2; exact ⟨h1, by simpa using h2⟩

theorem connOf_hs {t : MuxT.St} (h : connOf t = .hs) : t.opening = true := by
  unfold connOf at h
  split at h
  · cases h
  · split at h
    · assumption
    · cases h

theorem connOf_up {t : MuxT.St} (h : connOf t = .up) : t.cstate = .opened := by
  unfold connOf at h
  split at h
  · assumption
  · split at h <;> cases h

theorem live_eq {t : MuxT.St} (h : TInv t) : live t = if connOf t = .none then 0 else 1 := by
  unfold live connOf
  by_cases h1 : t.cstate = .opened
  · simp [h1]
  · by_cases h2 : t.opening = true
    · simp [h1, h2]
    · simp [h1, h2]

/-- a transport with a live receive loop has a connection -/
theorem conn_of_rl {t : MuxT.St} (h : TInv t) (hrl : t.rl ≠ .dead) : connOf t ≠ .none := by
  intro hc
  obtain ⟨h1, h2⟩ := connOf_none hc
  cases hcs : t.cstate with
  | opened => exact h1 hcs
  | closed => exact hrl (h.i0.1 hcs).2.1
  | idle => exact hrl (h.core.idl hcs h2).1

theorem conn_of_sl {t : MuxT.St} (h : TInv t) (it : Item) (hsl : t.sl = .writing it) : connOf t ≠ .none := by
  intro hc
  obtain ⟨h1, h2⟩ := connOf_none hc
  cases hcs : t.cstate with
  | opened => exact h1 hcs
  | closed => have := (h.i0.1 hcs).1; rw [hsl] at this; cases this
  | idle => have := (h.core.idl hcs h2).2; rw [hsl] at this; cases this

/-- summary of a step of the newest transport -/
structure TStep (t t' : MuxT.St) (o : MuxT.Out) : Prop where
  inv : TInv t'
  conns : o.eff.conns = 0
  fcl : 0 < o.eff.faults → t'.cstate = .closed ∧ t.cstate ≠ .closed
  st : t'.cstate = t.cstate ∨ (t.opening = true ∧ t'.cstate = .opened) ∨
       (t.cstate ≠ .closed ∧ t'.cstate = .closed)
  opg : t'.opening = true → t.opening = true
  fail : t.opening = true → t'.cstate = .closed → t'.openRes = .failed
  keep : t.opening = true → t'.cstate = .idle → t'.opening = true
  ores : t.openRes ≠ .pending → t'.openRes = t.openRes

/-! ### building blocks -/

@[simp] theorem pump_opening (s : MuxT.St) : s.pump.opening = s.opening := by
  unfold MuxT.St.pump; split <;> rfl

theorem tcore_pump {t : MuxT.St} (h : TCore t) : TCore t.pump := by
  constructor
  · intro ho; simpa using h.opg (by simpa using ho)
  · intro hc ho
    have := h.idl (by simpa using hc) (by simpa using ho)
    exact ⟨by simpa using this.1, pump_sl_dead t this.2⟩
  · intro hc; simpa using h.opn (by simpa using hc)
  · intro hc; simpa using h.cls (by simpa using hc)
  · intro ho; simpa using h.orp (by simpa using ho)
  · intro ho; simpa using h.orf (by simpa using ho)
  · intro ho; simpa using h.oro (by simpa using ho)

/-- a step that leaves the phase of the transport alone -/
theorem tstep_same {t t' : MuxT.St} {o : MuxT.Out} (h : TInv t) (hi : Inv0 t') (hp : t'.pending = [])
    (e1 : t'.cstate = t.cstate) (e2 : t'.opening = t.opening) (e3 : t'.openRes = t.openRes)
    (e4 : t.opening = true → t'.pingWait = true) (e5 : t'.rl ≠ .dead ↔ t.rl ≠ .dead) (e6 : t.sl = .dead → t'.sl = .dead)
    (hf : o.eff.faults = 0) (hc : o.eff.conns = 0) : TStep t t' o := by
  refine ⟨⟨hi, hp, ?_⟩, hc, ?_, Or.inl e1, ?_, ?_, ?_, ?_⟩
  · constructor
    · intro ho
      obtain ⟨a, b, c, d⟩ := h.core.opg (by rw [← e2]; exact ho)
      exact ⟨by rw [e1]; exact a, by rw [e3]; exact b, e4 (by rw [← e2]; exact ho), e5.mpr d⟩
    · intro hcs ho
      obtain ⟨a, b⟩ := h.core.idl (by rw [← e1]; exact hcs) (by rw [← e2]; exact ho)
      refine ⟨?_, e6 b⟩
      by_cases hne : t'.rl = .dead
      · exact hne
      · exact absurd a (e5.mp hne)
    · intro hcs
      obtain ⟨a, b, c⟩ := h.core.opn (by rw [← e1]; exact hcs)
      exact ⟨by rw [e2]; exact a, by rw [e3]; exact b, e5.mpr c⟩
    · intro hcs
      obtain ⟨a, b⟩ := h.core.cls (by rw [← e1]; exact hcs)
      exact ⟨by rw [e2]; exact a, by rw [e3]; exact b⟩
    · intro ho; rw [e2]; exact h.core.orp (by rw [← e3]; exact ho)
    · intro ho; rw [e1]; exact h.core.orf (by rw [← e3]; exact ho)
    · intro ho; rw [e1]; exact h.core.oro (by rw [← e3]; exact ho)
  · intro hpos; omega
  · intro ho; rw [← e2]; exact ho
  · intro ho hcs
    have := (h.core.opg ho).1
    rw [e1, this] at hcs; cases hcs
  · intro ho _; rw [e2]; exact ho
  · intro _; exact e3

/-- a `_Shutdown(reason, fault)` of a transport `t1` that is `t` up to the position of its loops -/
theorem tstep_shut {t t1 : MuxT.St} (b : Bool) (o : MuxT.Out) (h : TInv t) (hne : t.cstate ≠ .closed)
    (e1 : t1.cstate = t.cstate) (e3 : t1.openRes = t.openRes) (hp : t1.pending = [])
    (hc : o.eff.conns = 0) :
    TStep t (t1.shutdown b).1 o ∧ (t1.shutdown b).1.cstate = .closed ∧
    (t1.shutdown b).2.faults = (if b then 1 else 0) := by
  have hne1 : t1.cstate ≠ .closed := by rw [e1]; exact hne
  rw [shutdown_eq t1 b hne1]
  refine ⟨⟨⟨by simp [Inv0], hp, ?_⟩, hc, ?_, Or.inr (Or.inr ⟨hne, rfl⟩), ?_, ?_, ?_, ?_⟩, rfl, rfl⟩
  · have hnp : (if t1.openRes = ORes.pending then ORes.failed else t1.openRes) ≠ ORes.pending := by
      split
      · simp
      · assumption
    constructor
    · intro hx; simp at hx
    · intro hx; simp at hx
    · intro hx; simp at hx
    · intro _; exact ⟨rfl, hnp⟩
    · intro hx; exact absurd hx hnp
    · intro _; rfl
    · intro _; simp
  · intro _; exact ⟨rfl, hne⟩
  · intro hx; simp at hx
  · intro ho _
    simp [e3, (h.core.opg ho).2.1]
  · intro _ hx; simp at hx
  · intro hx
    simp only
    rw [e3]; simp [hx]

/-! ### the steps -/

theorem inv_of (t : MuxT.St) (h : TInv t) : MuxT.Inv t := ⟨h.i0, h.pend⟩

/-- the pending write of the send loop returns successfully -/
theorem tstep_wr_ok {t : MuxT.St} (h : TInv t) (it : Item) (hsl : t.sl = .writing it) :
    TStep t (t.wr .ok).1 (t.wr .ok).2 ∧ (t.wr .ok).1.cstate = t.cstate ∧
    (t.wr .ok).1.opening = t.opening ∧ (t.wr .ok).1.rl = t.rl ∧ (t.wr .ok).2.eff.faults = 0 := by
  have hi := inv_step t (.wr .ok) (inv_of t h)
  have e : t.wr .ok = (({ t with sl := .waitQ } : MuxT.St).pump, { sent := [it] }) := by
    simp [MuxT.St.wr, hsl]
  simp only [stepOut] at hi
  rw [e] at hi ⊢
  refine ⟨tstep_same h hi.1 hi.2 (by simp) (by simp) (by simp) ?_ (by simp) ?_ rfl rfl,
    by simp, by simp, by simp, rfl⟩
  · intro ho; simpa using (h.core.opg ho).2.2.1
  · intro hd; rw [hsl] at hd; cases hd

/-- it raises -/
theorem tstep_wr_fail {t : MuxT.St} (h : TInv t) (it : Item) (hsl : t.sl = .writing it) (o : IOOut)
    (ho : o ≠ .ok) :
    TStep t (t.wr o).1 (t.wr o).2 ∧ (t.wr o).1.cstate = .closed ∧ (t.wr o).2.eff.faults = 1 := by
  have hne : t.cstate ≠ .closed := by
    intro e; have := (h.i0.1 e).1; rw [hsl] at this; cases this
  have e : t.wr o = ((t.shutdown true).1, { eff := (t.shutdown true).2 }) := by
    cases o <;> simp_all [MuxT.St.wr]
  rw [e]
  obtain ⟨a, b, c⟩ := tstep_shut (t1 := t) true { eff := (t.shutdown true).2 } h hne rfl rfl h.pend
    (by rw [shutdown_eq t true hne])
  exact ⟨a, b, by simpa using c⟩

/-- `AsyncProcessRequest` on a transport that is not in its opening handshake -/
theorem tstep_request {t : MuxT.St} (h : TInv t) (hno : t.opening = false) (id tag : Nat) :
    TStep t (t.request id tag).1 (t.request id tag).2 ∧ (t.request id tag).1.cstate = t.cstate ∧
    (t.request id tag).1.opening = t.opening ∧ (t.request id tag).1.rl = t.rl ∧
    (t.request id tag).2.eff.faults = 0 ∧
    (t.cstate = .opened → (t.request id tag).2.eff.dels = []) := by
  have hi := inv0_step t (.req id tag) h.i0
  have hpd := step_pending t (.req id tag) h.pend
  simp only [stepOut] at hi hpd
  by_cases hop : t.cstate = .opened
  · have e : t.request id tag =
        (({ t with tagMap := t.tagMap ++ [(tag, id)], sendQ := t.sendQ ++ [.req tag id] } : MuxT.St).pump, {}) := by
      simp [MuxT.St.request, hno, hop]
    rw [e] at hi hpd ⊢
    refine ⟨tstep_same h hi hpd (by simp) (by simp) (by simp) ?_ (by simp) ?_ rfl rfl,
      by simp, by simp, by simp, rfl, fun _ => rfl⟩
    · intro ho; rw [hno] at ho; cases ho
    · intro hd; exact pump_sl_dead _ hd
  · have e : t.request id tag = (t, { eff := { dels := [(id, .other)] } }) := by
      simp [MuxT.St.request, hno, hop]
    rw [e]
    refine ⟨tstep_same h h.i0 h.pend rfl rfl rfl ?_ Iff.rfl (fun hd => hd) rfl rfl, rfl, rfl, rfl, rfl,
      fun hx => absurd hx hop⟩
    intro ho; rw [hno] at ho; cases ho

/-- the ping loop wakes -/
theorem tstep_pingDue {t : MuxT.St} (h : TInv t) :
    TStep t t.pingDue.1 t.pingDue.2 ∧ t.pingDue.1.cstate = t.cstate ∧
    t.pingDue.1.opening = t.opening ∧ t.pingDue.1.rl = t.rl ∧ t.pingDue.2.eff.faults = 0 := by
  have hi := inv0_step t .pingDue h.i0
  have hpd := step_pending t .pingDue h.pend
  simp only [stepOut] at hi hpd
  unfold MuxT.St.pingDue at hi hpd ⊢
  split
  · rename_i hc
    simp only [hc, if_true] at hi hpd
    simp only [Bool.and_eq_true, decide_eq_true_eq] at hc
    have hno : t.opening = false := (h.core.opn hc.2).1
    refine ⟨tstep_same h hi hpd (by simp) (by simp) (by simp) ?_ (by simp) ?_ rfl rfl,
      by simp, by simp, by simp, rfl⟩
    · intro ho; rw [hno] at ho; cases ho
    · intro hd; exact pump_sl_dead _ hd
  · refine ⟨tstep_same h h.i0 h.pend rfl rfl rfl ?_ Iff.rfl id rfl rfl, rfl, rfl, rfl, rfl⟩
    intro ho; exact (h.core.opg ho).2.2.1

/-- five seconds of ping silence -/
theorem tstep_pingSilence {t : MuxT.St} (h : TInv t) :
    TStep t t.pingSilence.1 t.pingSilence.2 ∧
    ((t.pingSilence.1.cstate = .closed ∧ t.pingSilence.2.eff.faults = 1 ∧ t.cstate ≠ .closed) ∨
     (t.pingSilence.1 = t ∧ t.pingSilence.2.eff.faults = 0)) := by
  unfold MuxT.St.pingSilence
  split
  · rename_i hpw
    have hne : t.cstate ≠ .closed := by
      intro e; have := (h.i0.1 e).2.2; rw [hpw] at this; cases this
    obtain ⟨a, b, c⟩ := tstep_shut (t1 := t) true { eff := (t.shutdown true).2 } h hne rfl rfl h.pend
      (by rw [shutdown_eq t true hne])
    exact ⟨a, Or.inl ⟨b, by simpa using c, hne⟩⟩
  · refine ⟨tstep_same h h.i0 h.pend rfl rfl rfl ?_ Iff.rfl id rfl rfl, Or.inr ⟨rfl, rfl⟩⟩
    intro ho; exact (h.core.opg ho).2.2.1

/-- `Close()` -/
theorem tstep_close {t : MuxT.St} (h : TInv t) :
    TStep t t.close.1 t.close.2 ∧ t.close.1.cstate = .closed ∧ t.close.2.eff.faults = 0 := by
  unfold MuxT.St.close
  by_cases hc : t.cstate = .closed
  · rw [shutdown_closed t false hc]
    refine ⟨tstep_same h h.i0 h.pend rfl rfl rfl ?_ Iff.rfl id rfl rfl, hc, rfl⟩
    intro ho; exact (h.core.opg ho).2.2.1
  · obtain ⟨a, b, c⟩ := tstep_shut (t1 := t) false { eff := (t.shutdown false).2 } h hc rfl rfl h.pend
      (by rw [shutdown_eq t false hc])
    exact ⟨a, b, by simpa using c⟩

/-! ### reads -/

def rlOf (b : Bool) : RL := if b then .body else .hdr

def isBody : RL → Bool
  | .body => true
  | _ => false

theorem rlOf_isBody (r : RL) (h : r ≠ .dead) : rlOf (isBody r) = r := by
  cases r <;> simp_all [rlOf, isBody]

theorem readsGo_failed : ∀ (rs : List (IOOut × Frame)) (b : Bool) (acc : List Frame),
    (readsGo b rs acc).2.2 = true ↔ ∃ r ∈ rs, r.1 ≠ IOOut.ok := by
  intro rs
  induction rs with
  | nil => intro b acc; simp [readsGo]
  | cons r rest ih =>
    intro b acc
    obtain ⟨o, f⟩ := r
    by_cases ho : o = .ok
    · subst ho
      cases b <;> simp [readsGo, ih]
    · simp [readsGo, ho]

theorem process_core (t : MuxT.St) (f : Frame) :
    (t.process f).1.rl = t.rl ∧ (t.process f).1.sl = t.sl ∧
    (if t.opening = true ∧ t.pingWait = true ∧ f = .rping then
       (t.process f).1.cstate = .opened ∧ (t.process f).1.opening = false ∧ (t.process f).1.openRes = .ok
     else (t.process f).1.cstate = t.cstate ∧ (t.process f).1.opening = t.opening ∧
          (t.process f).1.openRes = t.openRes ∧
          (t.opening = true → t.pingWait = true → (t.process f).1.pingWait = true)) := by
  cases f with
  | junk => simp [MuxT.St.process]
  | reply tag =>
    simp only [MuxT.St.process]
    split <;> simp
  | rping =>
    simp only [MuxT.St.process]
    by_cases hpw : t.pingWait = true
    · by_cases hop : t.opening = true
      · simp [hpw, hop]
      · simp [hpw, hop]
    · simp [hpw]

theorem dispatchGo_core : ∀ (fs : List Frame) (t : MuxT.St), (t.opening = true → t.pingWait = true) →
    (dispatchGo fs t).1.rl = t.rl ∧ (dispatchGo fs t).1.sl = t.sl ∧
    (if t.opening = true ∧ Frame.rping ∈ fs then
       (dispatchGo fs t).1.cstate = .opened ∧ (dispatchGo fs t).1.opening = false ∧
       (dispatchGo fs t).1.openRes = .ok
     else (dispatchGo fs t).1.cstate = t.cstate ∧ (dispatchGo fs t).1.opening = t.opening ∧
          (dispatchGo fs t).1.openRes = t.openRes ∧
          (t.opening = true → (dispatchGo fs t).1.pingWait = true)) := by
  intro fs
  induction fs with
  | nil => intro t hop; simp [dispatchGo]; exact hop
  | cons f rest ih =>
    intro t hop
    obtain ⟨p1, p2, p3⟩ := process_core t f
    simp only [dispatchGo]
    by_cases hc : t.opening = true ∧ f = .rping
    · have hc' : t.opening = true ∧ t.pingWait = true ∧ f = .rping := ⟨hc.1, hop hc.1, hc.2⟩
      rw [if_pos hc'] at p3
      obtain ⟨i1, i2, i3⟩ := ih (t.process f).1 (by intro hx; rw [p3.2.1] at hx; cases hx)
      have hno : ¬((t.process f).1.opening = true ∧ Frame.rping ∈ rest) := by
        intro hx; rw [p3.2.1] at hx; cases hx.1
      rw [if_neg hno] at i3
      have hyes : t.opening = true ∧ Frame.rping ∈ f :: rest := ⟨hc.1, by rw [hc.2]; simp⟩
      rw [if_pos hyes]
      exact ⟨by rw [i1, p1], by rw [i2, p2], by rw [i3.1, p3.1], by rw [i3.2.1, p3.2.1], by rw [i3.2.2.1, p3.2.2]⟩
    · have hc' : ¬(t.opening = true ∧ t.pingWait = true ∧ f = .rping) := fun hx => hc ⟨hx.1, hx.2.2⟩
      rw [if_neg hc'] at p3
      obtain ⟨q1, q2, q3, q4⟩ := p3
      have hop1 : (t.process f).1.opening = true → (t.process f).1.pingWait = true := by
        intro hx; rw [q2] at hx; exact q4 hx (hop hx)
      obtain ⟨i1, i2, i3⟩ := ih (t.process f).1 hop1
      have hiff : ((t.process f).1.opening = true ∧ Frame.rping ∈ rest) ↔
          (t.opening = true ∧ Frame.rping ∈ f :: rest) := by
        rw [q2]
        constructor
        · intro hx; exact ⟨hx.1, List.mem_cons_of_mem _ hx.2⟩
        · intro hx
          refine ⟨hx.1, ?_⟩
          rcases List.mem_cons.mp hx.2 with e | e
          · exact absurd ⟨hx.1, e.symm⟩ hc
          · exact e
      by_cases hy : t.opening = true ∧ Frame.rping ∈ f :: rest
      · rw [if_pos hy]
        rw [if_pos (hiff.mpr hy)] at i3
        exact ⟨by rw [i1, p1], by rw [i2, p2], i3⟩
      · rw [if_neg hy]
        rw [if_neg (fun hx => hy (hiff.mp hx))] at i3
        obtain ⟨j1, j2, j3, j4⟩ := i3
        exact ⟨by rw [i1, p1], by rw [i2, p2], by rw [j1, q1], by rw [j2, q2], by rw [j3, q3],
          fun hx => j4 (by rw [q2]; exact hx)⟩

/-- successful reads: the receive loop ends where the peer's bytes end, and the frames they
    completed are queued for dispatch in order -/
theorem rdMany_ok_frames : ∀ (rs : List (IOOut × Frame)) (t : MuxT.St) (acc : List Frame),
    t.rl ≠ .dead → (∀ r ∈ rs, r.1 = IOOut.ok) →
    ∃ fs, (readsGo (isBody t.rl) rs acc).1 = acc ++ fs ∧
      t.rdMany rs = (({ t with rl := rlOf (readsGo (isBody t.rl) rs acc).2.1,
                               pending := t.pending ++ fs } : MuxT.St), ({} : Eff)) := by
  intro rs
  induction rs with
  | nil =>
    intro t acc hrl _
    refine ⟨[], by simp [readsGo], ?_⟩
    simp only [readsGo, MuxT.St.rdMany, List.append_nil]
    rw [rlOf_isBody t.rl hrl]
  | cons r rest ih =>
    intro t acc hrl hall
    obtain ⟨o, f⟩ := r
    have ho : o = .ok := hall (o, f) (by simp)
    subst ho
    have hrest : ∀ r ∈ rest, r.1 = IOOut.ok := fun r hr => hall r (List.mem_cons_of_mem _ hr)
    cases hr : t.rl with
    | dead => exact absurd hr hrl
    | hdr =>
      obtain ⟨fs, h1, h2⟩ := ih ({ t with rl := .body } : MuxT.St) acc (by simp) hrest
      refine ⟨fs, by simpa [readsGo, isBody] using h1, ?_⟩
      rw [rdMany_cons, rdRaw_hdr_ok t f hr, h2]
      simp [readsGo, isBody]
    | body =>
      obtain ⟨fs, h1, h2⟩ :=
        ih ({ t with rl := .hdr, pending := t.pending ++ [f] } : MuxT.St) (acc ++ [f]) (by simp) hrest
      refine ⟨f :: fs, by simpa [readsGo, isBody] using h1, ?_⟩
      rw [rdMany_cons, rdRaw_body_ok t f hr, h2]
      simp [readsGo, isBody]

/-- a burst of reads one of which fails -/
theorem tstep_burst_fail {t : MuxT.St} (h : TInv t) (hrl : t.rl ≠ .dead) (rs : List (IOOut × Frame))
    (hex : ∃ r ∈ rs, r.1 ≠ IOOut.ok) :
    TStep t (t.burst rs).1 (t.burst rs).2 ∧ (t.burst rs).1.cstate = .closed ∧
    (t.burst rs).2.eff.faults = 1 := by
  have hne : t.cstate ≠ .closed := fun e => hrl (h.i0.1 e).2.1
  obtain ⟨r', _, h2⟩ := burst_fault t rs h.i0 hrl hex
  rw [h2]
  obtain ⟨a, b, c⟩ := tstep_shut (t1 := ({ t with rl := r', pending := [] } : MuxT.St)) true
    { eff := (({ t with rl := r', pending := [] } : MuxT.St).shutdown true).2 } h hne rfl rfl rfl
    (by rw [shutdown_eq _ true (by exact hne)])
  exact ⟨a, b, by simpa using c⟩

/-- a burst of successful reads: the handshake completes iff it delivers an Rping -/
theorem tstep_burst_ok {t : MuxT.St} (h : TInv t) (hrl : t.rl ≠ .dead) (rs : List (IOOut × Frame))
    (hall : ∀ r ∈ rs, r.1 = IOOut.ok) :
    TStep t (t.burst rs).1 (t.burst rs).2 ∧ (t.burst rs).2.eff.faults = 0 ∧
    (t.burst rs).1.rl = rlOf (readsGo (isBody t.rl) rs []).2.1 ∧
    (if t.opening = true ∧ Frame.rping ∈ (readsGo (isBody t.rl) rs []).1 then
       (t.burst rs).1.cstate = .opened
     else (t.burst rs).1.cstate = t.cstate ∧ (t.burst rs).1.opening = t.opening) := by
  have hi := inv_step t (.burst rs) (inv_of t h)
  simp only [stepOut] at hi
  have hne : t.cstate ≠ .closed := fun e => hrl (h.i0.1 e).2.1
  obtain ⟨fs, hfs, hrm⟩ := rdMany_ok_frames rs t [] hrl hall
  simp only [List.nil_append] at hfs
  have hb : t.burst rs =
      ((dispatchGo fs ({ t with rl := rlOf (readsGo (isBody t.rl) rs []).2.1, pending := [] } : MuxT.St)).1,
       { eff := { dels := (dispatchGo fs ({ t with rl := rlOf (readsGo (isBody t.rl) rs []).2.1,
                                                   pending := [] } : MuxT.St)).2 } }) := by
    simp [MuxT.St.burst, hrm, MuxT.St.dispatch, h.pend]
  rw [hb] at hi ⊢
  rw [hfs]
  generalize hab : (readsGo (isBody t.rl) rs []).2.1 = ab at *
  have hrl' : rlOf ab ≠ RL.dead := by cases ab <;> simp [rlOf]
  obtain ⟨d1, d2, d3⟩ := dispatchGo_core fs ({ t with rl := rlOf ab, pending := [] } : MuxT.St)
    (fun ho => (h.core.opg ho).2.2.1)
  simp only at d1 d2 d3
  refine ⟨?_, rfl, d1, ?_⟩
  · by_cases hc : t.opening = true ∧ Frame.rping ∈ fs
    · rw [if_pos hc] at d3
      obtain ⟨e1, e2, e3⟩ := d3
      refine ⟨⟨hi.1, hi.2, ?_⟩, rfl, ?_, Or.inr (Or.inl ⟨hc.1, e1⟩), ?_, ?_, ?_, ?_⟩
      · constructor
        · intro hx; rw [e2] at hx; cases hx
        · intro hx; rw [e1] at hx; cases hx
        · intro _; exact ⟨e2, e3, by rw [d1]; exact hrl'⟩
        · intro hx; rw [e1] at hx; cases hx
        · intro hx; rw [e3] at hx; cases hx
        · intro hx; rw [e3] at hx; cases hx
        · intro _; rw [e1]; simp
      · intro hx; simp at hx
      · intro hx; rw [e2] at hx; cases hx
      · intro _ hx; rw [e1] at hx; cases hx
      · intro _ hx; rw [e1] at hx; cases hx
      · intro hx; exact absurd (h.core.opg hc.1).2.1 hx
    · rw [if_neg hc] at d3
      obtain ⟨e1, e2, e3, e4⟩ := d3
      refine tstep_same h hi.1 hi.2 e1 e2 e3 e4 ?_ ?_ rfl rfl
      · rw [d1]; exact ⟨fun _ => hrl, fun _ => hrl'⟩
      · intro hd; rw [d2]; exact hd
  · by_cases hc : t.opening = true ∧ Frame.rping ∈ fs
    · rw [if_pos hc] at d3 ⊢; exact d3.1
    · rw [if_neg hc] at d3 ⊢; exact ⟨d3.1, d3.2.1⟩

/-- `raceT`: the frame, then the failing read, with the greenlets the frame wakes resuming last -/
theorem tstep_race {t : MuxT.St} (h : TInv t) (hrl : t.rl = .body) (f : Frame) (o : IOOut) (ho : o ≠ .ok) :
    TStep t (raceT t f o).1 (raceT t f o).2 ∧ (raceT t f o).1.cstate = .closed ∧
    0 < (raceT t f o).2.eff.faults := by
  have hrl' : t.rl ≠ .dead := by rw [hrl]; simp
  have hne : t.cstate ≠ .closed := fun e => hrl' (h.i0.1 e).2.1
  unfold raceT
  split
  · obtain ⟨a, b, c⟩ := tstep_burst_fail h hrl' [(.ok, f), (o, .junk)] ⟨(o, .junk), by simp, ho⟩
    exact ⟨a, b, by omega⟩
  · rename_i hc
    -- the frame: a successful body read that does not complete the handshake
    obtain ⟨s1, f1, r1, c1⟩ := tstep_burst_ok h hrl' [(.ok, f)] (by simp)
    have hfs : (readsGo (isBody t.rl) [(IOOut.ok, f)] []).1 = [f] := by simp [hrl, isBody, readsGo]
    have hab : (readsGo (isBody t.rl) [(IOOut.ok, f)] []).2.1 = false := by simp [hrl, isBody, readsGo]
    rw [hfs] at c1
    rw [hab] at r1
    have hc' : ¬(t.opening = true ∧ Frame.rping ∈ [f]) := by
      intro hx; exact hc ⟨hx.1, by have := hx.2; simp at this; exact this.symm⟩
    rw [if_neg hc'] at c1
    have e : t.rd .ok f = t.burst [(.ok, f)] := rfl
    rw [e]
    generalize t.burst [(IOOut.ok, f)] = r at *
    obtain ⟨t1, o1⟩ := r
    simp only at s1 f1 r1 c1 ⊢
    have hrl1 : t1.rl ≠ .dead := by rw [r1]; simp [rlOf]
    have e2 : t1.rd o .junk = t1.burst [(o, .junk)] := rfl
    rw [e2]
    obtain ⟨r', _, h2⟩ := burst_fault t1 [(o, .junk)] s1.inv.i0 hrl1 ⟨(o, .junk), by simp, ho⟩
    rw [h2]
    have ores1 : t1.openRes = t.openRes := by
      by_cases hp : t.openRes = .pending
      · have := h.core.orp hp
        rw [hp]
        exact (s1.inv.core.opg (by rw [c1.2]; exact this)).2.1
      · exact s1.ores hp
    obtain ⟨a, b, c⟩ := tstep_shut (t1 := ({ t1 with rl := r', pending := [] } : MuxT.St)) true
      { eff := { faults := o1.eff.faults + (({ t1 with rl := r', pending := [] } : MuxT.St).shutdown true).2.faults,
                 dels := o1.eff.dels ++ (({ t1 with rl := r', pending := [] } : MuxT.St).shutdown true).2.dels,
                 conns := 0 }, sent := [] } h hne c1.1 ores1 rfl rfl
    refine ⟨a, b, ?_⟩
    simp only at c ⊢
    rw [c]; simp

end Scales.ResMux
