import ScalesModel.Proofs.HeapAgnostic
import ScalesModel.Proofs.ApertureInv
import ScalesModel.Proofs.LBGate

/-!
  The heap invariant `HInv` (Proofs/HeapAgnostic.lean: index agreement, heap order, load accounting, down
  list, close discipline) through every function of the aperture model (Model/Aperture.lean), so that
  C03/C04 can be decided on the balancers that inherit `__Get`/`__Put`.

  The point where the order of the code matters: `AS.getLoop` runs `_OnNodeDown` *after* `Heap.FixDown`, so
  the hook (which may append a node and sift it up) finds the heap ordered (`getLoop_ok`).
-/
namespace Scales.Aperture
open Scales.Heap

/-- what every function of the model other than a dispatch, a completion and a channel event keeps:
    the heap invariant, and the channel states (new nodes start Idle) -/
structure Keep (a a' : AS) : Prop where
  hinv : HInv a'.hs
  ch : ChExt a.hs a'.hs

theorem Keep.trans {a b c : AS} (h1 : Keep a b) (h2 : Keep b c) : Keep a c := ⟨h2.hinv, h1.ch.trans h2.ch⟩

theorem Keep.of_same {a a' : AS} (h : HInv a.hs) (e : a'.hs = a.hs) : Keep a a' :=
  ⟨by rw [e]; exact h, by rw [e]; exact ChExt.refl _⟩

theorem Keep.refl {a : AS} (h : HInv a.hs) : Keep a a := Keep.of_same h rfl

/-- idle endpoints are not in the heap -/
def Disj (a : AS) : Prop := ∀ c ∈ a.idle, c ∉ heapEps a.hs

theorem PInv.disj {cfg : Cfg} {a : AS} (inv : PInv cfg a) : Disj a := by
  intro c hc hh
  have hnd := inv.nodup
  unfold E at hnd
  exact (List.nodup_append.1 hnd).2.2 c hh c hc rfl

/-! ### expansion and contraction -/

theorem heapAdd_keep (cfg : Cfg) {a : AS} (h : HInv a.hs) (ep : Nat) (hnew : ep ∉ heapEps a.hs) :
    Keep a (a.heapAdd cfg ep) :=
  ⟨HInv_addSink h ep hnew, ⟨1, chans_addSink a.hs ep⟩⟩

theorem tryExpand_cases (cfg : Cfg) (a : AS) (lp : Bool) :
    ((a.tryExpand cfg lp).1.hs = a.hs ∧ (a.tryExpand cfg lp).1.idle = a.idle ∧ a.idle = []) ∨
    (∃ c ∈ a.idle, (a.tryExpand cfg lp).1.hs = a.hs.addSink c ∧
      (a.tryExpand cfg lp).1.idle = a.idle.filter (· ≠ c)) := by
  obtain ⟨c1, c2, _, _, c4⟩ := choose_spec a
  unfold AS.tryExpand
  split
  · rename_i a0 he
    rw [he] at c1 c2 c4
    simp only at c1 c2 c4
    left
    exact ⟨by simp [c1], by simp [c2], c4⟩
  · rename_i a0 c he
    rw [he] at c1 c2 c4
    simp only at c1 c2 c4
    right
    refine ⟨c, c4, ?_⟩
    simp only
    split
    · exact ⟨by simp [c1], by simp [c2]⟩
    · exact ⟨by simp [c1], by simp [c2]⟩

theorem tryExpand_keep (cfg : Cfg) {a : AS} (h : HInv a.hs) (hd : Disj a) (lp : Bool) :
    Keep a (a.tryExpand cfg lp).1 := by
  rcases tryExpand_cases cfg a lp with ⟨e, _, _⟩ | ⟨c, hc, e, _⟩
  · exact Keep.of_same h e
  · exact ⟨by rw [e]; exact HInv_addSink h c (hd c hc), by rw [e]; exact ⟨1, chans_addSink a.hs c⟩⟩

theorem hsRemove_keep {a a' : AS} (h : HInv a.hs) (ep : Nat) (e : a'.hs = (a.hs.removeSink ep).1) : Keep a a' :=
  ⟨by rw [e]; exact HInv_removeSink h ep, by rw [e]; exact ChExt.of_eq (chans_removeSink a.hs ep)⟩

theorem contract_keep (cfg : Cfg) {a : AS} (h : HInv a.hs) (force : Bool) : Keep a (a.contract cfg force) := by
  unfold AS.contract
  split
  · exact Keep.refl h
  · split
    · split
      · exact Keep.refl h
      · exact hsRemove_keep h _ rfl
    · exact Keep.refl h

theorem onNodeDown_keep (cfg : Cfg) {a : AS} (h : HInv a.hs) (hd : Disj a) (nid : Nat) :
    Keep a (a.onNodeDown cfg nid).1 := by
  unfold AS.onNodeDown
  split
  · exact tryExpand_keep cfg h hd false
  · exact Keep.refl h

theorem adjustWith_keep (cfg : Cfg) {a : AS} (h : HInv a.hs) (hd : Disj a) (amount : Int) (i : AdjIn)
    (rest : List AdjIn) (missing : Bool) : Keep a (a.adjustWith cfg amount i rest missing) := by
  unfold AS.adjustWith
  simp only
  set a1 : AS := { a with total := a.total + amount,
                          ema := some i.avg, clock := MonoClock.sample a.clock i.now,
                          adjIn := rest, bad := a.bad || missing } with ha1
  have k1 : Keep a a1 := Keep.of_same h rfl
  have hd1 : Disj a1 := hd
  have key : ∀ a2 : AS, Keep a1 a2 → ∀ r : AdjRec, Keep a { a2 with adjLog := a2.adjLog ++ [r] } := by
    intro a2 k2 r
    exact (k1.trans k2).trans (Keep.of_same k2.hinv rfl)
  cases hdec : a1.decision cfg i.avg with
  | expand => exact key _ (tryExpand_keep cfg k1.hinv hd1 false) _
  | contract => exact key _ (contract_keep cfg k1.hinv false) _
  | stay => exact key _ (Keep.refl k1.hinv) _

theorem adjust_keep (cfg : Cfg) {a : AS} (h : HInv a.hs) (hd : Disj a) (amount : Int) :
    Keep a (a.adjust cfg amount) := by
  unfold AS.adjust
  split
  · exact adjustWith_keep cfg h hd amount _ _ _
  · exact adjustWith_keep cfg h hd amount _ _ _

/-! ### joins and leaves as the subclass sees them -/

theorem addSink_keep (cfg : Cfg) {a : AS} (h : HInv a.hs) (ep : Nat) (hep : ep ∉ heapEps a.hs) :
    Keep a (a.addSink cfg ep) := by
  unfold AS.addSink
  split
  · split
    · exact (heapAdd_keep cfg h ep hep).trans (Keep.of_same (heapAdd_keep cfg h ep hep).hinv rfl)
    · exact Keep.of_same h rfl
  · exact heapAdd_keep cfg h ep hep

theorem heapEps_removeSink_sub {s : HS} (hw : WF s) (ep : Nat) :
    ∀ x, x ∈ heapEps (s.removeSink ep).1 → x ∈ heapEps s := by
  intro x hx
  by_cases hr : (s.removeSink ep).2 = true
  · exact (removeSink_eps hw ep hr).mem_iff.2 (List.mem_cons_of_mem _ hx)
  · rw [(removeSink_false hw ep (by simpa using hr)).1] at hx; exact hx

theorem removeSink_keep (cfg : Cfg) {a : AS} (h : HInv a.hs) (hd : Disj a) (ep : Nat) :
    Keep a (a.removeSink cfg ep) := by
  unfold AS.removeSink
  split
  · simp only
    set a1 : AS := { a with hs := (a.hs.removeSink ep).1 } with ha1
    have k1 : Keep a a1 := hsRemove_keep h ep rfl
    have hd1 : Disj a1 := fun c hc hh => hd c hc (heapEps_removeSink_sub h.wf ep c hh)
    have k2 : Keep a1 (if (a.hs.removeSink ep).2 = true then (a1.tryExpand cfg false).1 else a1) := by
      split
      · exact tryExpand_keep cfg k1.hinv hd1 false
      · exact Keep.refl k1.hinv
    exact (k1.trans k2).trans (Keep.of_same k2.hinv rfl)
  · exact hsRemove_keep h ep rfl

/-! ### completion, channel state, open results, `_Jitter`, the hub -/

theorem put_hinv (cfg : Cfg) {a : AS} (inv : PInv cfg a) (h : HInv a.hs) (r j : Nat) :
    HInv (a.put cfg r j).hs ∧ ChExt a.hs (a.put cfg r j).hs := by
  unfold AS.put
  split
  · exact ⟨h, ChExt.refl _⟩
  · exact ⟨h, ChExt.refl _⟩
  · rename_i nid hr
    simp only
    have hj' : ∀ nid', a.hs.reqs[r]? = some (nid', false) → a.hs.putDraws nid' = true →
        1 ≤ putDraw a.hs nid j ∧ putDraw a.hs nid j ≤ a.hs.size := by
      intro nid' h1 h2
      rw [hr] at h1
      injection h1 with h1; injection h1 with h1 _; subst h1
      unfold putDraw
      by_cases hl : putLegal a.hs nid j = true
      · rw [if_pos hl]; unfold putLegal at hl; simpa [h2] using hl
      · rw [if_neg hl, if_pos h2]
        unfold HS.putDraws at h2
        simp only [Bool.and_eq_true, decide_eq_true_eq] at h2
        omega
    set a1 : AS := { (if putLegal a.hs nid j = true then a else { a with bad := true }) with
        hs := a.hs.put r (putDraw a.hs nid j) } with ha1
    have h1 : HInv a1.hs := HInv_put h r _ hj'
    have c1 : ChExt a.hs a1.hs := ChExt.of_eq (chans_put a.hs r _)
    have st1 : Stable cfg a a1 := by
      apply Stable.of_hframe inv (put_HFrame inv.wf r _ hj')
      · show (if putLegal a.hs nid j = true then a else { a with bad := true }).idle = a.idle
        split <;> rfl
      · show (if putLegal a.hs nid j = true then a else { a with bad := true }).adjLog = a.adjLog
        split <;> rfl
      · show (if putLegal a.hs nid j = true then a else { a with bad := true }).jitterWait = a.jitterWait
        split <;> rfl
    split
    · have k := adjust_keep cfg h1 st1.inv.disj (-1)
      exact ⟨k.hinv, c1.trans k.ch⟩
    · exact ⟨h1, c1⟩

theorem setChan_hinv {a : AS} (h : HInv a.hs) (nid st : Nat) : HInv (a.setChan nid st).hs := by
  unfold AS.setChan
  split
  · exact HInv_setChan h nid st
  · exact h

theorem opened_keep (cfg : Cfg) {a : AS} (h : HInv a.hs) (hd : Disj a) (nid : Nat) (ok : Bool) :
    Keep a (a.opened cfg nid ok) := by
  unfold AS.opened
  split
  · exact Keep.of_same h rfl
  · split
    · exact Keep.of_same h rfl
    · have k := onNodeDown_keep cfg h hd nid
      exact k.trans (Keep.of_same k.hinv rfl)

theorem jitterEnd_keep (cfg : Cfg) {a : AS} (h : HInv a.hs) (nid : Nat) : Keep a (a.jitterEnd cfg nid) := by
  unfold AS.jitterEnd
  have k := contract_keep cfg h true
  exact k.trans (Keep.of_same k.hinv rfl)

theorem jitterEnd_keep' (cfg : Cfg) {a b : AS} (h : HInv a.hs) (e : b.hs = a.hs) (nid : Nat) :
    Keep a (b.jitterEnd cfg nid) :=
  (Keep.of_same h e).trans (jitterEnd_keep cfg (by rw [e]; exact h) nid)

theorem jitterStart_keep (cfg : Cfg) {a : AS} (h : HInv a.hs) (hd : Disj a) : Keep a (a.jitterStart cfg) := by
  unfold AS.jitterStart
  split
  · exact Keep.of_same h rfl
  · have k := tryExpand_keep cfg h hd true
    simp only
    split
    · exact k
    · split
      · refine k.trans ?_
        apply jitterEnd_keep' cfg k.hinv
        rfl
      · exact k.trans (Keep.of_same k.hinv rfl)

theorem fire_keep {a : AS} (h : HInv a.hs) (nid : Nat) : Keep a (a.fire nid) := by
  unfold AS.fire
  simp only
  split
  · exact Keep.of_same h rfl
  · exact Keep.of_same h rfl

theorem foldl_fire_keep (ids : List Nat) : ∀ {a : AS}, HInv a.hs → Keep a (ids.foldl AS.fire a) := by
  induction ids with
  | nil => intro a h; exact Keep.refl h
  | cons x xs ih =>
    intro a h
    have k := fire_keep h x
    exact k.trans (ih k.hinv)

theorem settleRound_keep (cfg : Cfg) {a : AS} (h : HInv a.hs) : Keep a (a.settleRound cfg).1 := by
  unfold AS.settleRound
  simp only
  set ids := (List.range a.on.length).filter (fun i => !(a.onOf i).done && a.arReady i) with hids
  have k1 := foldl_fire_keep ids h
  set a1 := ids.foldl AS.fire a with ha1
  have key : ∀ a2 : AS, a2.hs = a1.hs → Keep a1 (match a2.jitterWait with
      | some nid => if ids.contains nid then a2.jitterEnd cfg nid else a2
      | none => a2) := by
    intro a2 e
    split
    · split
      · exact jitterEnd_keep' cfg k1.hinv e _
      · exact Keep.of_same k1.hinv e
    · exact Keep.of_same k1.hinv e
  exact k1.trans (key _ (by split <;> rfl))

theorem settleN_keep (cfg : Cfg) (fuel : Nat) : ∀ {a : AS}, HInv a.hs → Keep a (a.settleN cfg fuel) := by
  induction fuel with
  | zero => intro a h; exact Keep.refl h
  | succ n ih =>
    intro a h
    unfold AS.settleN
    simp only
    have k1 := settleRound_keep cfg h
    split
    · exact k1.trans (ih k1.hinv)
    · exact k1

theorem settle_keep (cfg : Cfg) {a : AS} (h : HInv a.hs) : Keep a (a.settle cfg) := settleN_keep cfg _ h

theorem openInitial_keep (cfg : Cfg) {a : AS} (h : HInv a.hs) : Keep a (a.openInitial cfg) :=
  Keep.of_same h rfl

/-! ### `__Get` with the aperture's `_OnNodeDown` in the loop -/

/-- the result of `__Get` -/
structure GetOkA (a a' : AS) (nid : Nat) : Prop where
  hinv : HInv a'.hs
  mf : MFrame a.hs a'.hs
  ch : ChExt a.hs a'.hs
  top : nid = a'.hs.idAt 1
  ok : (a'.hs.node nid).chan = chOpen ∨ (a'.hs.node nid).load ≥ 0
  scanned : ∀ id ∈ a'.hs.down, (a'.hs.node id).chan ≠ chOpen

/-- what the hook does to the heap: nothing, or it appends an idle endpoint -/
theorem onNodeDown_cases (cfg : Cfg) (a : AS) (nid : Nat) :
    ((a.onNodeDown cfg nid).1.hs = a.hs ∧ (a.onNodeDown cfg nid).1.idle = a.idle) ∨
    (∃ c ∈ a.idle, (a.onNodeDown cfg nid).1.hs = a.hs.addSink c ∧
      (a.onNodeDown cfg nid).1.idle = a.idle.filter (· ≠ c)) := by
  unfold AS.onNodeDown
  split
  · rcases tryExpand_cases cfg a false with ⟨e1, e2, _⟩ | h
    · exact Or.inl ⟨e1, e2⟩
    · exact Or.inr h
  · exact Or.inl ⟨rfl, rfl⟩

/-- the mark-down loop: the invariant holds again on exit, the fuel suffices, the chosen node is the root
    of the heap after the last scan and it is Open or marked down.  The hook runs on an ordered heap
    (`HInv_markDown`: `FixDown` has run), so the node it appends and sifts up leaves the heap ordered
    (`HInv_addSink`). -/
theorem getLoop_ok (cfg : Cfg) (fuel : Nat) : ∀ (a : AS) (l : List Nat), PInv cfg a → HInv a.hs → 1 ≤ a.hs.size →
    Cand l a.hs → l.length + a.idle.length < fuel →
    GetOkA a (a.getLoop cfg fuel).1 (a.getLoop cfg fuel).2 := by
  induction fuel with
  | zero => intro a l _ _ _ _ h; omega
  | succ fuel ih =>
    intro a l inv h hsz hc hlen
    unfold AS.getLoop
    simp only
    obtain ⟨i1, m1, z1, sc1, c1⟩ := HInv_scan_round h l hc
    have ch1 : chans ({ (a.hs.scan a.hs.down).1 with down := (a.hs.scan a.hs.down).2 } : HS) = chans a.hs :=
      chans_scan a.hs.down a.hs
    have f1 := scan_HFrame inv.wf a.hs.down
    have f2 := f1.trans (withDown_HFrame f1.wf (a.hs.scan a.hs.down).2)
    set s1 : HS := { (a.hs.scan a.hs.down).1 with down := (a.hs.scan a.hs.down).2 } with hs1
    split
    · rename_i hcond
      exact ⟨i1, m1, ChExt.of_eq ch1, rfl, hcond, sc1⟩
    · rename_i hcond
      have hsz1 : 1 ≤ s1.size := by rw [z1]; exact hsz
      obtain ⟨i4, m4, z4, c4, hmem⟩ := HInv_markDown i1 hsz1 hcond sc1 l c1
      have f3 := f2.trans (setNode_HFrame f2.wf (s1.idAt 1)
        { s1.node (s1.idAt 1) with load := (s1.node (s1.idAt 1)).load + Penalty } rfl rfl)
      set s2 := s1.setNode (s1.idAt 1) { s1.node (s1.idAt 1) with load := (s1.node (s1.idAt 1)).load + Penalty } with hs2
      have f4 := f3.trans (withDown_HFrame f3.wf (s1.idAt 1 :: s2.down))
      set s3 : HS := { s2 with down := s1.idAt 1 :: s2.down } with hs3
      have f5 := f4.trans (fixDown_HFrame f4.wf 1 s3.size (le_refl _))
      set s4 := s3.fixDown 1 s3.size with hs4
      have i4' : HInv s4 := i4
      have m4' : MFrame s1 s4 := m4
      have z4' : s4.size = s1.size := z4
      have c4' : Cand (l.erase (s1.idAt 1)) s4 := c4
      have ch4 : chans s4 = chans s1 := by
        rw [hs4, chans_fixDown]
        exact chans_setLoad s1 _ _
      set a4 : AS := { a with hs := s4 } with ha4
      have st1 : Stable cfg a a4 := Stable.of_hframe inv f5 rfl rfl rfl
      obtain ⟨st2, _, _⟩ := onNodeDown_spec cfg st1.inv (s1.idAt 1)
      have k5 := onNodeDown_keep cfg (a := a4) i4' st1.inv.disj (s1.idAt 1)
      set a5 := (a4.onNodeDown cfg (s1.idAt 1)).1 with ha5
      have hl1 : 0 < l.length := List.length_pos_of_mem hmem
      have hle : (l.erase (s1.idAt 1)).length + 1 = l.length := by
        rw [List.length_erase_of_mem hmem]; omega
      have hnd : a.idle.Nodup := by
        have := inv.nodup; unfold E at this; exact (List.nodup_append.1 this).2.1
      -- the candidates and the measure after the hook
      have key : ∃ l', Cand l' a5.hs ∧ l'.length + a5.idle.length < fuel ∧ MFrame s4 a5.hs := by
        rcases onNodeDown_cases cfg a4 (s1.idAt 1) with ⟨e1, e2⟩ | ⟨c, hcm, e1, e2⟩
        · refine ⟨l.erase (s1.idAt 1), by rw [ha5, e1]; exact c4', ?_, by rw [ha5, e1]; exact MFrame.refl _⟩
          rw [ha5, e2]
          show (l.erase (s1.idAt 1)).length + a.idle.length < fuel
          omega
        · refine ⟨s4.nodes.length :: l.erase (s1.idAt 1), by rw [ha5, e1]; exact Cand_addSink i4'.wf c _ c4', ?_,
            by rw [ha5, e1]; exact MFrame_addSink i4'.wf c⟩
          rw [ha5, e2]
          have hcm' : c ∈ a.idle := hcm
          have := filter_ne_length hnd hcm'
          show (s4.nodes.length :: l.erase (s1.idAt 1)).length + (a.idle.filter (· ≠ c)).length < fuel
          simp only [List.length_cons]
          omega
      obtain ⟨l', cl', ml', m5⟩ := key
      have hsz5 : 1 ≤ a5.hs.size := by
        have := m5.size
        omega
      have r := ih a5 l' st2.inv k5.hinv hsz5 cl' ml'
      exact ⟨r.hinv, ((m1.trans m4').trans m5).trans r.mf,
        ((ChExt.of_eq ch1).trans ((ChExt.of_eq ch4).trans k5.ch)).trans r.ch, r.top, r.ok, r.scanned⟩

/-- the choice made by `__Get`: a member of the aperture it started with or a node created on the way;
    if any member it started with is Open, the chosen one is such a member, it is Open, and its outstanding
    count is minimal among them -/
theorem choice_ok {a a' : AS} {nid : Nat} (h : HInv a.hs) (gk : GetOkA a a' nid) (hsz : 1 ≤ a.hs.size) :
    InHeap a'.hs nid ∧ (InHeap a.hs nid ∨ a.hs.nodes.length ≤ nid) ∧
    ((∃ m, InHeap a.hs m ∧ (a.hs.node m).chan = chOpen) →
      InHeap a.hs nid ∧ (a.hs.node nid).chan = chOpen ∧
      ∀ m, InHeap a.hs m → (a.hs.node m).chan = chOpen → outOf a.hs nid ≤ outOf a.hs m) := by
  have i := gk.hinv
  have hsz1 : 1 ≤ a'.hs.size := le_trans hsz gk.mf.size
  have hin1 : InHeap a'.hs nid := by rw [gk.top]; exact ⟨1, le_refl _, hsz1, rfl⟩
  have hchan : ∀ m, m < a.hs.nodes.length → (a'.hs.node m).chan = (a.hs.node m).chan := by
    intro m hm
    rw [node_chan _ _ hm, node_chan _ _ (lt_of_lt_of_le hm gk.mf.len), gk.ch.getD]
  have hnewchan : ∀ m, a.hs.nodes.length ≤ m → m < a'.hs.nodes.length → (a'.hs.node m).chan = 1 := by
    intro m h1 h2
    rw [node_chan _ _ h2, gk.ch.getD]
    unfold chans
    simp only [List.getD_eq_getElem?_getD]
    rw [List.getElem?_eq_none (by simpa using h1)]
    rfl
  have hout : ∀ m, outOf a'.hs m = outOf a.hs m := by
    intro m; unfold outOf; rw [gk.mf.reqs]
  have hopen : ∀ m, InHeap a'.hs m → (a'.hs.node m).chan = chOpen → (a'.hs.node m).load < 0 := by
    intro m hm ho
    by_contra hge
    exact gk.scanned m (i.down.all m hm (by omega)) ho
  have hroot : ∀ m, InHeap a'.hs m → (a'.hs.node nid).load ≤ (a'.hs.node m).load := by
    intro m hm
    obtain ⟨p1, p2, p3, _, _⟩ := pos_spec a'.hs i.wf m hm
    have := Ord_root (L a'.hs) a'.hs.size i.ord (pos a'.hs m) p1 p2
    unfold L HS.at at this
    rw [p3, ← gk.top] at this
    exact this
  refine ⟨hin1, gk.mf.new nid hin1, ?_⟩
  rintro ⟨m0, hm0, ho0⟩
  have hm0l := inHeap_lt a.hs h.wf m0 hm0
  have hm0' := gk.mf.old m0 hm0
  have ho0' : (a'.hs.node m0).chan = chOpen := by rw [hchan m0 hm0l]; exact ho0
  have hneg : (a'.hs.node nid).load < 0 := by
    have := hopen m0 hm0' ho0'
    have := hroot m0 hm0'
    omega
  have hch : (a'.hs.node nid).chan = chOpen := by
    rcases gk.ok with x | x
    · exact x
    · omega
  have hnl' := inHeap_lt a'.hs i.wf nid hin1
  have hold : nid < a.hs.nodes.length := by
    by_contra hc
    have := hnewchan nid (by omega) hnl'
    rw [this] at hch
    unfold chOpen at hch; omega
  have hinA : InHeap a.hs nid := by
    rcases gk.mf.new nid hin1 with x | x
    · exact x
    · omega
  refine ⟨hinA, by rw [← hchan nid hold]; exact hch, ?_⟩
  intro m hm ho
  have hml := inHeap_lt a.hs h.wf m hm
  have hm' := gk.mf.old m hm
  have ho' : (a'.hs.node m).chan = chOpen := by rw [hchan m hml]; exact ho
  have h1 := hopen m hm' ho'
  have h2 := hroot m hm'
  have x := (i.book.pen_iff nid hnl').2.1.mp hneg
  have y := (i.book.pen_iff m (inHeap_lt a'.hs i.wf m hm')).2.1.mp h1
  rw [hout] at x y
  omega

/-- `_AsyncProcessRequestImpl` -/
theorem get_ok (cfg : Cfg) {a : AS} (inv : PInv cfg a) (h : HInv a.hs)
    (hb : a.hs.size ≠ 0 → a.hs.reqs.length + 1 < maxReqs) :
    HInv (a.get cfg).1.hs ∧ ChExt a.hs (a.get cfg).1.hs ∧
    ((a.get cfg).2 = .noMembers ↔ a.hs.size = 0) ∧
    (∀ nid ep r, (a.get cfg).2 = .node nid ep r →
      a.hs.size ≠ 0 ∧ (InHeap a.hs nid ∨ a.hs.nodes.length ≤ nid) ∧
      ((∃ m, InHeap a.hs m ∧ (a.hs.node m).chan = chOpen) →
        InHeap a.hs nid ∧ (a.hs.node nid).chan = chOpen ∧
        ∀ m, InHeap a.hs m → (a.hs.node m).chan = chOpen → outOf a.hs nid ≤ outOf a.hs m)) := by
  unfold AS.get
  split
  · rename_i hsz
    exact ⟨h, ChExt.refl _, ⟨fun _ => hsz, fun _ => rfl⟩, fun _ _ _ hc => by cases hc⟩
  · rename_i hsz
    simp only
    have hsz1 : 1 ≤ a.hs.size := by omega
    have gk := getLoop_ok cfg (a.hs.nodes.length + a.idle.length + 1) a (List.range a.hs.nodes.length) inv h hsz1
      (fun id hin _ => List.mem_range.mpr (inHeap_lt a.hs h.wf id hin)) (by simp)
    obtain ⟨st1, _, _, _⟩ := getLoop_spec cfg (a.hs.nodes.length + a.idle.length + 1) inv
    set g := a.getLoop cfg (a.hs.nodes.length + a.idle.length + 1) with hg
    obtain ⟨hin1, hmem, hchoice⟩ := choice_ok h gk hsz1
    have i2 := HInv_dispatch gk.hinv g.2 hin1 (by rw [gk.mf.reqs]; exact hb hsz)
    have f1 := setNode_HFrame st1.inv.wf g.2 { g.1.hs.node g.2 with load := (g.1.hs.node g.2).load + 1 } rfl rfl
    set s2 := g.1.hs.setNode g.2 { g.1.hs.node g.2 with load := (g.1.hs.node g.2).load + 1 } with hs2
    have f2 := f1.trans (fixDown_HFrame f1.wf (s2.node g.2).index.toNat s2.size (le_refl _))
    set s3 := s2.fixDown (s2.node g.2).index.toNat s2.size with hs3
    have f3 := f2.trans (withReqs_HFrame f2.wf (s3.reqs ++ [(g.2, false)]))
    set a2 : AS := { g.1 with hs := { s3 with reqs := s3.reqs ++ [(g.2, false)] } } with ha2
    have st2 : Stable cfg g.1 a2 := Stable.of_hframe st1.inv f3 rfl rfl rfl
    have i2' : HInv a2.hs := i2
    have ch2 : chans a2.hs = chans g.1.hs := by
      show chans s3 = _
      rw [hs3, chans_fixDown]
      exact chans_setNode _ _ _ rfl
    have res : ∀ nid ep r, GetRes.node g.2 (g.1.hs.node g.2).ep s3.reqs.length = GetRes.node nid ep r →
        a.hs.size ≠ 0 ∧ (InHeap a.hs nid ∨ a.hs.nodes.length ≤ nid) ∧
        ((∃ m, InHeap a.hs m ∧ (a.hs.node m).chan = chOpen) →
          InHeap a.hs nid ∧ (a.hs.node nid).chan = chOpen ∧
          ∀ m, InHeap a.hs m → (a.hs.node m).chan = chOpen → outOf a.hs nid ≤ outOf a.hs m) := by
      intro nid ep r he
      injection he with e1 _ _
      subst e1
      exact ⟨hsz, hmem, hchoice⟩
    split
    · have k := adjust_keep cfg i2' st2.inv.disj 1
      exact ⟨k.hinv, (gk.ch.trans (ChExt.of_eq ch2)).trans k.ch,
        ⟨(fun hc => by cases hc), fun hc => absurd hc hsz⟩, res⟩
    · exact ⟨i2', gk.ch.trans (ChExt.of_eq ch2), ⟨(fun hc => by cases hc), fun hc => absurd hc hsz⟩, res⟩

end Scales.Aperture
