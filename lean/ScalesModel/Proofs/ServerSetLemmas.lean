/-
  Proofs/ServerSetLemmas.lean — helper lemmas for C19 (Model/ServerSet.lean).
-/
import ScalesModel.Adapter.ServerSet
import Mathlib.Data.List.Nodup
namespace Scales.ServerSet

/-! ### the consumer's view -/

theorem viewOf_append (v : List Nat) (a b : List Note) :
    viewOf v (a ++ b) = viewOf (viewOf v a) b := by
  simp [viewOf, List.foldl_append]

theorem altOk_append (v : List Nat) (a b : List Note) :
    altOk v (a ++ b) = (altOk v a && altOk (viewOf v a) b) := by
  induction a generalizing v with
  | nil => simp [altOk, viewOf]
  | cons e es ih => simp [altOk, viewOf, ih, Bool.and_assoc]

theorem leaves_spec (R : List Nat) : ∀ (v : List Nat), R.Nodup → (∀ r ∈ R, r ∈ v) →
    altOk v (R.map (fun n => (false, n))) = true ∧
    viewOf v (R.map (fun n => (false, n))) = v.filter (fun x => !R.contains x) := by
  induction R with
  | nil =>
    intro v _ _
    refine ⟨by simp [altOk], ?_⟩
    simp only [List.map_nil, viewOf, List.foldl_nil, List.contains_nil, Bool.not_false]
    exact (List.filter_eq_self.mpr (fun _ _ => rfl)).symm
  | cons r R ih =>
    intro v hnd hsub
    rw [List.nodup_cons] at hnd
    have hsub' : ∀ x ∈ R, x ∈ v.filter (fun x => x != r) := by
      intro x hx
      rw [List.mem_filter]
      refine ⟨hsub x (List.mem_cons_of_mem _ hx), ?_⟩
      have : x ≠ r := fun h => hnd.1 (h ▸ hx)
      simpa using this
    obtain ⟨h1, h2⟩ := ih (v.filter (fun x => x != r)) hnd.2 hsub'
    constructor
    · simp only [List.map_cons, altOk, applyNote]
      simp [hsub r (List.mem_cons_self), h1]
    · simp only [List.map_cons, viewOf, List.foldl_cons, applyNote]
      have := h2
      simp only [viewOf] at this
      simp only [Bool.false_eq_true, if_false]
      rw [this, List.filter_filter]
      apply List.filter_congr
      intro x _
      simp only [List.contains_cons]
      cases hx : (x == r) <;> simp [hx, bne]

theorem joins_spec (G : List Nat) : ∀ (v : List Nat), G.Nodup → (∀ g ∈ G, g ∉ v) →
    altOk v (G.map (fun n => (true, n))) = true ∧
    viewOf v (G.map (fun n => (true, n))) = v ++ G := by
  induction G with
  | nil => intro v _ _; simp [altOk, viewOf]
  | cons g G ih =>
    intro v hnd hdis
    rw [List.nodup_cons] at hnd
    have hdis' : ∀ x ∈ G, x ∉ v ++ [g] := by
      intro x hx
      simp only [List.mem_append, List.mem_singleton, not_or]
      exact ⟨hdis x (List.mem_cons_of_mem _ hx), fun h => hnd.1 (h ▸ hx)⟩
    obtain ⟨h1, h2⟩ := ih (v ++ [g]) hnd.2 hdis'
    constructor
    · simp only [List.map_cons, altOk, applyNote]
      simp [hdis g (List.mem_cons_self), h1]
    · simp only [List.map_cons, viewOf, List.foldl_cons, applyNote]
      have := h2
      simp only [viewOf] at this
      simp [this]


/-! ### one update of the worker -/

theorem finishJob_spec (members listing got : List Nat) (hm : members.Nodup) (hg : got.Nodup)
    (hgm : ∀ n ∈ got, n ∉ members) :
    (finishJob members listing got).1.Nodup ∧
    altOk members (finishJob members listing got).2 = true ∧
    viewOf members (finishJob members listing got).2 = (finishJob members listing got).1 := by
  simp only [finishJob]
  have hR := leaves_spec (members.filter (fun n => !listing.contains n)) members
    (hm.filter _) (fun r hr => (List.mem_filter.mp hr).1)
  have hview : members.filter (fun x => !(members.filter (fun n => !listing.contains n)).contains x)
      = members.filter (fun n => listing.contains n) := by
    apply List.filter_congr
    intro x hx
    by_cases hl : x ∈ listing <;> simp [hl, hx]
  rw [hview] at hR
  have hG := joins_spec got (members.filter (fun n => listing.contains n)) hg
    (fun g hg' h => hgm g hg' (List.mem_filter.mp h).1)
  refine ⟨?_, ?_, ?_⟩
  · rw [List.nodup_append]
    refine ⟨hm.filter _, hg, ?_⟩
    intro a ha b hb hab
    exact hgm b hb (hab ▸ (List.mem_filter.mp ha).1)
  · rw [altOk_append, hR.1, hR.2, hG.1]; rfl
  · rw [viewOf_append, hR.2, hG.2]

theorem finishJob_complete (members listing got : List Nat) (hgl : ∀ n ∈ got, n ∈ listing)
    (hc : ∀ n ∈ listing, n ∈ members ∨ n ∈ got) :
    ∀ n, n ∈ (finishJob members listing got).1 ↔ n ∈ listing := by
  intro n
  simp only [finishJob, List.mem_append, List.mem_filter, List.contains_iff_mem]
  constructor
  · rintro (⟨_, h⟩ | h)
    · exact h
    · exact hgl n h
  · intro h
    rcases hc n h with h1 | h1
    · exact Or.inl ⟨h1, h⟩
    · exact Or.inr h1

/-! ### invariants of the worker (hold in every reachable state) -/

structure JobOk (members : List Nat) (j : Job) : Prop where
  lnd : j.listing.Nodup
  gnd : j.got.Nodup
  tnd : j.todo.Nodup
  cur_todo : j.cur.name ∉ j.todo
  cur_got : j.cur.name ∉ j.got
  cur_mem : j.cur.name ∉ members
  cur_lst : j.cur.name ∈ j.listing
  todo_mem : ∀ n ∈ j.todo, n ∉ members
  todo_got : ∀ n ∈ j.todo, n ∉ j.got
  todo_lst : ∀ n ∈ j.todo, n ∈ j.listing
  got_mem : ∀ n ∈ j.got, n ∉ members
  got_lst : ∀ n ∈ j.got, n ∈ j.listing

/-- every name of the listing is accounted for (nothing was missed so far) -/
def Fresh (members : List Nat) (j : Job) : Prop :=
  ∀ n ∈ j.listing, n ∈ members ∨ n ∈ j.got ∨ n ∈ j.todo ∨ n = j.cur.name

/-- `free`: no listing is in progress (the blocker lets the worker begin an update) -/
structure WOk (free : Bool) (members : List Nat) (queue : List (List Nat)) (job : Option Job) : Prop where
  mnd : members.Nodup
  qnd : ∀ l ∈ queue, l.Nodup
  idle : job = none → free = true → queue = []
  jok : ∀ j, job = some j → JobOk members j

/-- where the most recent child list `L` is after the worker ran -/
def LastOk (L : List Nat) (members : List Nat) (queue : List (List Nat)) (job : Option Job) : Prop :=
  queue.getLast? = some L ∨
  (queue = [] ∧ ∃ j, job = some j ∧ j.listing = L ∧ Fresh members j ∧ ∃ n, j.cur = .requested n) ∨
  (queue = [] ∧ job = none ∧ ∀ n, n ∈ members ↔ n ∈ L)

theorem pump_spec (queue : List (List Nat)) : ∀ (members : List Nat) (nxt : Option Nat) (w : WSt),
    members.Nodup → (∀ l ∈ queue, l.Nodup) → pump members queue nxt = some w →
    (∀ b, WOk b w.members w.queue w.job) ∧ altOk members w.notes = true ∧
    viewOf members w.notes = w.members ∧
    (∀ L, queue.getLast? = some L → LastOk L w.members w.queue w.job) ∧
    (queue = [] → w.members = members ∧ w.queue = [] ∧ w.job = none ∧ w.notes = []) := by
  induction queue with
  | nil =>
    intro members nxt w hm _ hp
    simp only [pump] at hp
    split at hp
    · injection hp with hp; subst hp
      exact ⟨fun _ => ⟨hm, by simp, fun _ _ => rfl, by simp⟩, by simp [altOk], by simp [viewOf], by simp, by simp⟩
    · cases hp
  | cons q qs ih =>
    intro members nxt w hm hq hp
    have hqn : q.Nodup := hq q List.mem_cons_self
    have hqs : ∀ l ∈ qs, l.Nodup := fun l hl => hq l (List.mem_cons_of_mem _ hl)
    simp only [pump] at hp
    split at hp
    · -- nothing to read: the update is finished at once
      rename_i hempty
      have hall : ∀ n ∈ q, n ∈ members := by
        intro n hn
        by_contra hc
        have : n ∈ q.filter (fun n => !members.contains n) := by
          rw [List.mem_filter]; exact ⟨hn, by simpa using hc⟩
        rw [List.isEmpty_iff.mp hempty] at this
        cases this
      obtain ⟨hnd, halt, hview⟩ := finishJob_spec members q [] hm List.nodup_nil (by simp)
      cases hw0 : pump (finishJob members q []).1 qs nxt with
      | none => rw [hw0] at hp; cases hp
      | some w0 =>
        rw [hw0] at hp
        simp only [Option.map_some] at hp
        injection hp with hp; subst hp
        obtain ⟨hok, ha, hv, hl, he⟩ := ih _ nxt w0 hnd hqs hw0
        refine ⟨hok, ?_, ?_, ?_, by simp⟩
        · rw [altOk_append, halt, hview, ha]; rfl
        · rw [viewOf_append, hview, hv]
        · intro L hL
          cases qs with
          | nil =>
            simp only [List.getLast?_singleton, Option.some.injEq] at hL
            subst hL
            obtain ⟨h1, h2, h3, _⟩ := he rfl
            refine Or.inr (Or.inr ⟨h2, h3, ?_⟩)
            rw [h1]
            exact finishJob_complete members q [] (by simp) (fun n hn => Or.inl (hall n hn))
          | cons q2 qs2 =>
            rw [List.getLast?_cons_cons] at hL
            exact hl L hL
    · rename_i hne
      cases nxt with
      | none => cases hp
      | some n =>
        simp only at hp
        split at hp
        · rename_i hn
          injection hp with hp; subst hp
          have hnt : n ∈ q.filter (fun n => !members.contains n) := by simpa using hn
          have htnd : (q.filter (fun n => !members.contains n)).Nodup := hqn.filter _
          have hmemt : ∀ x ∈ q.filter (fun n => !members.contains n), x ∈ q ∧ x ∉ members := by
            intro x hx
            rw [List.mem_filter] at hx
            exact ⟨hx.1, by simpa using hx.2⟩
          refine ⟨fun _ => ⟨hm, hqs, by simp, ?_⟩, by simp [altOk], by simp [viewOf], ?_, by simp⟩
          · intro j hj
            simp only [Option.some.injEq] at hj
            subst hj
            refine ⟨hqn, List.nodup_nil, htnd.erase _, ?_, by simp, (hmemt n hnt).2, (hmemt n hnt).1,
              ?_, by simp, ?_, by simp, by simp⟩
            · simp only [Rd.name]
              intro h
              exact (List.Nodup.mem_erase_iff htnd).mp h |>.1 rfl
            · intro x hx; exact (hmemt x (List.mem_of_mem_erase hx)).2
            · intro x hx; exact (hmemt x (List.mem_of_mem_erase hx)).1
          · intro L hL
            cases qs with
            | nil =>
              simp only [List.getLast?_singleton, Option.some.injEq] at hL
              subst hL
              refine Or.inr (Or.inl ⟨rfl, _, rfl, rfl, ?_, n, rfl⟩)
              intro x hx
              by_cases hxm : x ∈ members
              · exact Or.inl hxm
              · right; right
                by_cases hxn : x = n
                · exact Or.inr hxn
                · left
                  apply (List.mem_erase_of_ne hxn).mpr
                  rw [List.mem_filter]; exact ⟨hx, by simpa using hxm⟩
            | cons q2 qs2 =>
              rw [List.getLast?_cons_cons] at hL
              exact Or.inl hL
        · cases hp

/-- the same for the worker behind the blocker: while a listing is in progress nothing moves -/
theorem pumpB_spec (free : Bool) (queue : List (List Nat)) (members : List Nat) (nxt : Option Nat)
    (w : WSt) (hm : members.Nodup) (hq : ∀ l ∈ queue, l.Nodup)
    (hp : pumpB free members queue nxt = some w) :
    WOk free w.members w.queue w.job ∧ altOk members w.notes = true ∧
    viewOf members w.notes = w.members ∧
    (∀ L, queue.getLast? = some L → LastOk L w.members w.queue w.job) ∧
    (queue = [] → w.members = members ∧ w.queue = [] ∧ w.job = none ∧ w.notes = []) := by
  cases free with
  | true =>
    simp only [pumpB, if_true] at hp
    obtain ⟨h1, h2, h3, h4, h5⟩ := pump_spec queue members nxt w hm hq hp
    exact ⟨h1 _, h2, h3, h4, h5⟩
  | false =>
    simp only [pumpB, Bool.false_eq_true, if_false] at hp
    split at hp
    · injection hp with hp; subst hp
      exact ⟨⟨hm, hq, fun _ h => (by cases h), by simp⟩, by simp [altOk], by simp [viewOf],
        fun L hL => Or.inl hL, fun h => ⟨rfl, h, rfl, rfl⟩⟩
    · cases hp

/-! ### invariants of a state -/

structure Inv0 (s : St) : Prop where
  knd : s.tree.kids.Nodup
  pgen : ∀ g, s.tree.parent = some g → g ≤ s.tree.gen
  wok : WOk s.lists.isEmpty s.members s.queue s.job

/-- before the ServerSet exists nothing is registered or remembered -/
structure Pre (s : St) : Prop where
  dw : s.dw = false
  cw : s.cw = []
  pending : s.pending = []
  seen : s.seen = none
  ever : s.everCalled = false
  watched : s.watched = none
  nodes : s.nodes = []
  members : s.members = []
  queue : s.queue = []
  job : s.job = none

/-- `_nodes` is the current child list and cannot go stale unnoticed: the ChildrenWatch of the
    incarnation being watched holds its watch, or no incarnation is being watched -/
def synced (s : St) : Prop := (∃ g, some g ∈ s.cw ∧ s.watched = some g) ∨ s.watched = none

/-- environment / recipe part of the invariant -/
structure EnvInv (cfg : Cfg) (s : St) : Prop where
  e1 : s.everCalled = true
  e2 : s.dw = true → s.seen = s.tree.parent ∧ s.pending.count Ev.data = 0
  e3 : s.dw = false → s.pending.count Ev.data = 1
  e4 : s.watched = s.seen
  e5 : s.tree.parent = none → s.cw = []
  e6 : ∀ g, s.tree.parent = some g → s.watched = some g →
        some g ∈ s.cw ∨ Ev.child (some g) ∈ s.pending
  e7 : ∀ g, some g ∈ s.cw → s.watched = some g → s.nodes = s.tree.kids.filter cfg.memberOk
  e8 : s.watched = none → s.nodes = []
  t3 : ∀ g, s.watched = some g → g ≤ s.tree.gen

/-- where the most recent child list (`_nodes`) is in the worker's pipeline, and — if it is
    current — that nothing of it has been missed -/
def LastS (s : St) : Prop :=
  s.queue.getLast? = some s.nodes ∨
  (s.queue = [] ∧ ∃ j, s.job = some j ∧ j.listing = s.nodes ∧
      (synced s → Fresh s.members j ∧ ∀ n, j.cur ≠ .served n false)) ∨
  (s.queue = [] ∧ s.job = none ∧ (synced s → ∀ n, n ∈ s.members ↔ n ∈ s.nodes))

structure Inv (cfg : Cfg) (s : St) : Prop where
  i0 : Inv0 s
  pre : s.started = false → Pre s
  env : s.started = true → EnvInv cfg s
  last : s.started = true → LastS s

/-- while `_nodes` is current, every name in it exists -/
theorem synced_found {cfg : Cfg} {s : St} (he : EnvInv cfg s) (hs : synced s) {n : Nat}
    (hn : n ∈ s.nodes) : n ∈ s.tree.kids := by
  rcases hs with ⟨g, h1, h2⟩ | h
  · rw [he.e7 g h1 h2] at hn
    exact (List.mem_filter.mp hn).1
  · rw [he.e8 h] at hn; cases hn

theorem quiet_synced {cfg : Cfg} {s : St} (he : EnvInv cfg s) (hp : s.pending = []) :
    synced s ∧ s.nodes = s.tree.present cfg.lim := by
  have hdw : s.dw = true := by
    cases hd : s.dw with
    | true => rfl
    | false => have := he.e3 hd; rw [hp] at this; simp at this
  have hseen := (he.e2 hdw).1
  cases hpar : s.tree.parent with
  | none =>
    have hw : s.watched = none := by rw [he.e4, hseen, hpar]
    exact ⟨Or.inr hw, by rw [he.e8 hw]; simp [Tree.present, hpar]⟩
  | some g =>
    have hw : s.watched = some g := by rw [he.e4, hseen, hpar]
    have hcw : some g ∈ s.cw := by
      rcases he.e6 g hpar hw with h | h
      · exact h
      · rw [hp] at h; cases h
    refine ⟨Or.inl ⟨g, hcw, hw⟩, ?_⟩
    rw [he.e7 g hcw hw]
    simp only [Tree.present, hpar, Option.isSome_some, if_true]
    rfl

/-- **the key fact**: in a quiet state the announced members are exactly the members present -/
theorem quiet_members {cfg : Cfg} {s : St} (hi : Inv cfg s) (hq : s.quiet = true) :
    ∀ n, n ∈ s.members ↔ n ∈ s.tree.present cfg.lim := by
  have hfree : s.lists.isEmpty = true := by
    simp only [St.quiet, Bool.and_eq_true] at hq
    exact hq.2
  simp only [St.quiet, Bool.and_eq_true, List.isEmpty_iff, Option.isNone_iff_eq_none] at hq
  obtain ⟨⟨⟨hst, hp⟩, hj⟩, _⟩ := hq
  have hqe : s.queue = [] := hi.i0.wok.idle hj hfree
  have he := hi.env hst
  obtain ⟨hs, hn⟩ := quiet_synced he hp
  rw [← hn]
  rcases hi.last hst with h | ⟨_, j, hj', _⟩ | ⟨_, _, h⟩
  · rw [hqe] at h; cases h
  · rw [hj] at hj'; cases hj'
  · exact h hs

/-! ### preservation: tree operations -/

theorem LastS_mono {s s' : St} (hq : s'.queue = s.queue) (hj : s'.job = s.job)
    (hm : s'.members = s.members) (hn : s'.nodes = s.nodes) (hs : synced s' → synced s)
    (h : LastS s) : LastS s' := by
  unfold LastS at *
  rw [hq, hj, hm, hn]
  rcases h with h | ⟨h1, j, h2, h3, h4⟩ | ⟨h1, h2, h3⟩
  · exact Or.inl h
  · exact Or.inr (Or.inl ⟨h1, j, h2, h3, fun hh => h4 (hs hh)⟩)
  · exact Or.inr (Or.inr ⟨h1, h2, fun hh => h3 (hs hh)⟩)

theorem count_data_map_child (l : List (Option Nat)) : (l.map Ev.child).count Ev.data = 0 := by
  induction l with
  | nil => rfl
  | cons x xs ih => simp [ih]

theorem mem_map_child {l : List (Option Nat)} {t : Option Nat} : Ev.child t ∈ l.map Ev.child ↔ t ∈ l := by
  simp

theorem tree_kids_nodup (t : Tree) (o : TOp) (h : t.kids.Nodup) (hl : t.legal o = true) :
    (t.apply o).kids.Nodup := by
  cases o with
  | createParent => exact h
  | deleteParent => exact h
  | createChild n =>
    simp only [Tree.legal, Bool.and_eq_true, Bool.not_eq_true', List.contains_eq_mem,
      decide_eq_false_iff_not] at hl
    simp only [Tree.apply]
    rw [List.nodup_append]
    refine ⟨h, List.nodup_singleton n, ?_⟩
    intro a ha b hb hab
    simp only [List.mem_singleton] at hb
    subst hb; subst hab
    exact hl.2 ha
  | deleteChild n => exact h.erase n

theorem tree_pgen (t : Tree) (o : TOp) (h : ∀ g, t.parent = some g → g ≤ t.gen) :
    ∀ g, (t.apply o).parent = some g → g ≤ (t.apply o).gen := by
  cases o with
  | createParent => intro g hg; simp only [Tree.apply, Option.some.injEq] at hg ⊢; omega
  | deleteParent => intro g hg; simp [Tree.apply] at hg
  | createChild n => exact h
  | deleteChild n => exact h

theorem treeStep_fields (s : St) (o : TOp) :
    (treeStep s o).members = s.members ∧ (treeStep s o).queue = s.queue ∧
    (treeStep s o).job = s.job ∧ (treeStep s o).nodes = s.nodes ∧
    (treeStep s o).started = s.started ∧ (treeStep s o).tree = s.tree.apply o ∧
    (treeStep s o).watched = s.watched ∧ (treeStep s o).lists = s.lists := by
  refine ⟨?_, ?_, ?_, ?_, ?_, ?_, ?_, ?_⟩ <;>
    (cases o <;> simp only [treeStep, fireChild, fireData] <;> (try split) <;> rfl)

theorem treeStep_inv {cfg : Cfg} {s : St} (o : TOp) (hi : Inv cfg s) (hl : s.tree.legal o = true) :
    Inv cfg (treeStep s o) := by
  obtain ⟨hmem, hque, hjob, hnod, hsta, htre, hwat, hlis⟩ := treeStep_fields s o
  refine ⟨⟨?_, ?_, ?_⟩, ?_, ?_, ?_⟩
  · rw [htre]; exact tree_kids_nodup _ _ hi.i0.knd hl
  · rw [htre]; exact tree_pgen _ _ hi.i0.pgen
  · rw [hmem, hque, hjob, hlis]; exact hi.i0.wok
  · intro hs
    rw [hsta] at hs
    have hp := hi.pre hs
    cases o <;>
      (constructor <;>
        simp [treeStep, fireChild, fireData, hp.dw, hp.cw, hp.pending, hp.seen, hp.ever, hp.watched,
          hp.nodes, hp.members, hp.queue, hp.job])
  · intro hs
    rw [hsta] at hs
    have he := hi.env hs
    cases o with
    | createParent =>
      have hpar : s.tree.parent = none := by simpa [Tree.legal] using hl
      have hcw := he.e5 hpar
      have hfresh : ∀ g, s.watched = some g → g ≠ s.tree.gen + 1 := by
        intro g hg; have := he.t3 g hg; omega
      cases hdw : s.dw with
      | true =>
        have h2 := he.e2 hdw
        have hst : treeStep s .createParent =
            { s with tree := s.tree.apply .createParent, dw := false, pending := s.pending ++ [Ev.data] } := by
          simp [treeStep, fireData, hdw]
        rw [hst]
        refine ⟨he.e1, by simp, ?_, he.e4, by simp [Tree.apply], ?_, ?_, he.e8, ?_⟩
        · intro _; simp only [List.count_append, h2.2]; rfl
        · intro g hg hw
          simp only [Tree.apply, Option.some.injEq] at hg
          exact absurd hg.symm (hfresh g hw)
        · intro g hg; simp only at hg; rw [hcw] at hg; cases hg
        · intro g hg; have := he.t3 g hg; simp only [Tree.apply]; omega
      | false =>
        have hst : treeStep s .createParent = { s with tree := s.tree.apply .createParent } := by
          simp [treeStep, fireData, hdw]
        rw [hst]
        refine ⟨he.e1, ?_, he.e3, he.e4, by simp [Tree.apply], ?_, ?_, he.e8, ?_⟩
        · intro h; simp only at h; rw [hdw] at h; cases h
        · intro g hg hw
          simp only [Tree.apply, Option.some.injEq] at hg
          exact absurd hg.symm (hfresh g hw)
        · intro g hg; simp only at hg; rw [hcw] at hg; cases hg
        · intro g hg; have := he.t3 g hg; simp only [Tree.apply]; omega
    | deleteParent =>
      cases hdw : s.dw with
      | true =>
        have h2 := he.e2 hdw
        have hst : treeStep s .deleteParent =
            { s with tree := s.tree.apply .deleteParent, dw := false, cw := [],
                     pending := s.pending ++ [Ev.data] ++ s.cw.map Ev.child } := by
          simp [treeStep, fireData, fireChild, hdw]
        rw [hst]
        refine ⟨he.e1, by simp, ?_, he.e4, by simp, by simp [Tree.apply], by simp, he.e8, he.t3⟩
        intro _; simp only [List.count_append, h2.2, count_data_map_child]; rfl
      | false =>
        have hst : treeStep s .deleteParent =
            { s with tree := s.tree.apply .deleteParent, cw := [],
                     pending := s.pending ++ s.cw.map Ev.child } := by
          simp [treeStep, fireData, fireChild, hdw]
        rw [hst]
        refine ⟨he.e1, ?_, ?_, he.e4, by simp, by simp [Tree.apply], by simp, he.e8, he.t3⟩
        · intro h; simp only at h; rw [hdw] at h; cases h
        · intro _; simp only [List.count_append, count_data_map_child, Nat.add_zero]; exact he.e3 hdw
    | createChild n =>
      have hst : treeStep s (.createChild n) =
          { s with tree := s.tree.apply (.createChild n), cw := [],
                   pending := s.pending ++ s.cw.map Ev.child } := by
        simp [treeStep, fireChild]
      rw [hst]
      refine ⟨he.e1, ?_, ?_, he.e4, by simp, ?_, by simp, he.e8, he.t3⟩
      · intro h
        simp only [List.count_append, count_data_map_child, Tree.apply]
        exact he.e2 h
      · intro h
        simp only [List.count_append, count_data_map_child]
        exact he.e3 h
      · intro g hg hw
        right
        rcases he.e6 g hg hw with h | h
        · exact List.mem_append_right _ (mem_map_child.mpr h)
        · exact List.mem_append_left _ h
    | deleteChild n =>
      have hst : treeStep s (.deleteChild n) =
          { s with tree := s.tree.apply (.deleteChild n), cw := [],
                   pending := s.pending ++ s.cw.map Ev.child } := by
        simp [treeStep, fireChild]
      rw [hst]
      refine ⟨he.e1, ?_, ?_, he.e4, by simp, ?_, by simp, he.e8, he.t3⟩
      · intro h
        simp only [List.count_append, count_data_map_child, Tree.apply]
        exact he.e2 h
      · intro h
        simp only [List.count_append, count_data_map_child]
        exact he.e3 h
      · intro g hg hw
        right
        rcases he.e6 g hg hw with h | h
        · exact List.mem_append_right _ (mem_map_child.mpr h)
        · exact List.mem_append_left _ h
  · intro hs
    rw [hsta] at hs
    have he := hi.env hs
    apply LastS_mono hque hjob hmem hnod _ (hi.last hs)
    have hcw' : (treeStep s o).cw = [] := by
      cases o with
      | createParent =>
        have hpar : s.tree.parent = none := by simpa [Tree.legal] using hl
        have hcw := he.e5 hpar
        simp only [treeStep, fireData]; split <;> exact hcw
      | deleteParent => simp [treeStep, fireChild]
      | createChild n => simp [treeStep, fireChild]
      | deleteChild n => simp [treeStep, fireChild]
    intro hsy
    rcases hsy with ⟨g, h, _⟩ | h
    · rw [hcw'] at h; cases h
    · exact Or.inr (hwat ▸ h)


/-! ### the worker wakes up -/

/-- two states agree on everything but the worker's own variables -/
structure EnvEq (s s' : St) : Prop where
  tree : s'.tree = s.tree
  started : s'.started = s.started
  dw : s'.dw = s.dw
  cw : s'.cw = s.cw
  pending : s'.pending = s.pending
  seen : s'.seen = s.seen
  ever : s'.everCalled = s.everCalled
  watched : s'.watched = s.watched
  nodes : s'.nodes = s.nodes

theorem EnvInv_eq {cfg : Cfg} {s s' : St} (h : EnvEq s s') (he : EnvInv cfg s) : EnvInv cfg s' := by
  obtain ⟨h1, h2, h3, h4, h5, h6, h7, h8, h9⟩ := h
  constructor <;> simp only [h1, h3, h4, h5, h6, h7, h8, h9]
  · exact he.e1
  · exact he.e2
  · exact he.e3
  · exact he.e4
  · exact he.e5
  · exact he.e6
  · exact he.e7
  · exact he.e8
  · exact he.t3

theorem LastOk_LastS {s : St} (h : LastOk s.nodes s.members s.queue s.job) : LastS s := by
  rcases h with h | ⟨h1, j, h2, h3, h4, n, h5⟩ | ⟨h1, h2, h3⟩
  · exact Or.inl h
  · refine Or.inr (Or.inl ⟨h1, j, h2, h3, fun _ => ⟨h4, ?_⟩⟩)
    intro m hm; rw [h5] at hm; cases hm
  · exact Or.inr (Or.inr ⟨h1, h2, fun _ => h3⟩)

theorem wake_spec {s1 s2 : St} {nxt : Option Nat} {ns : List Note} (hm : s1.members.Nodup)
    (hq : ∀ l ∈ s1.queue, l.Nodup) (hj : ∀ j, s1.job = some j → JobOk s1.members j)
    (h : wake s1 nxt = some (s2, ns)) :
    WOk s2.lists.isEmpty s2.members s2.queue s2.job ∧ altOk s1.members ns = true ∧
    viewOf s1.members ns = s2.members ∧ EnvEq s1 s2 ∧ (LastS s1 → LastS s2) := by
  unfold wake at h
  cases hjob : s1.job with
  | some j =>
    rw [hjob] at h
    simp only at h
    split at h
    · injection h with h; injection h with h1 h2; subst h1; subst h2
      refine ⟨⟨hm, hq, by simp [hjob], hj⟩, by simp [altOk], by simp [viewOf], ⟨rfl, rfl, rfl, rfl, rfl, rfl, rfl, rfl, rfl⟩,
        fun h => h⟩
    · cases h
  | none =>
    rw [hjob] at h
    simp only at h
    cases hp : pumpB s1.lists.isEmpty s1.members s1.queue nxt with
    | none => rw [hp] at h; cases h
    | some w =>
      rw [hp] at h
      simp only [Option.map_some] at h
      injection h with h; injection h with h1 h2; subst h1; subst h2
      obtain ⟨hok, ha, hv, hl, he⟩ := pumpB_spec _ s1.queue s1.members nxt w hm hq hp
      refine ⟨hok, ha, hv, ⟨rfl, rfl, rfl, rfl, rfl, rfl, rfl, rfl, rfl⟩, ?_⟩
      intro hlastS
      rcases hlastS with hlast | ⟨_, j, hj', _⟩ | ⟨hidle', _, _⟩
      · exact LastOk_LastS (hl _ hlast)
      · rw [hjob] at hj'; cases hj'
      · obtain ⟨e1, e2, e3, _⟩ := he hidle'
        refine LastS_mono (s := s1) ?_ ?_ ?_ rfl (fun hs => hs)
          (Or.inr (Or.inr ⟨hidle', hjob, by assumption⟩))
        · simp only [e2, hidle']
        · simp only [e3, hjob]
        · simp only [e1]

/-! ### the recipes' callbacks -/

theorem filter_nil_memberOk (cfg : Cfg) : ([] : List Nat).filter cfg.memberOk = [] := rfl

/-- what `dataDeliver` does, given that `_watching` is what the DataWatch saw last -/
theorem dataDeliver_cases (cfg : Cfg) (s0 : St) (h4 : s0.watched = s0.seen) :
    ((s0.tree.parent = s0.watched) ∧ dataDeliver cfg s0 =
        { s0 with dw := true, seen := s0.tree.parent, everCalled := true }) ∨
    (s0.tree.parent ≠ s0.watched ∧ s0.tree.parent = none ∧ dataDeliver cfg s0 =
        { s0 with dw := true, seen := none, everCalled := true, watched := none, nodes := [],
                  queue := s0.queue ++ [[]] }) ∨
    (s0.tree.parent ≠ s0.watched ∧ ∃ g, s0.tree.parent = some g ∧ dataDeliver cfg s0 =
        { s0 with dw := true, seen := some g, everCalled := true, watched := some g,
                  cw := s0.cw ++ [some g], nodes := s0.tree.kids.filter cfg.memberOk,
                  queue := s0.queue ++ [s0.tree.kids.filter cfg.memberOk] }) := by
  by_cases hsame : s0.tree.parent = s0.watched
  · left
    refine ⟨hsame, ?_⟩
    unfold dataDeliver
    simp only
    split
    · simp only [hsame]
    · rename_i hc
      have hev' : s0.everCalled = true := by
        simp only [Bool.or_eq_true, Bool.not_eq_true', not_or, Bool.not_eq_false] at hc
        exact hc.2
      cases s0; simp_all
  · have hne : s0.seen ≠ s0.tree.parent := by rw [← h4]; exact fun h => hsame h.symm
    have hc : ((s0.seen != s0.tree.parent) || !s0.everCalled) = true := by simp [hne]
    right
    cases hp : s0.tree.parent with
    | none =>
      left
      refine ⟨by rw [← hp]; exact hsame, rfl, ?_⟩
      rw [hp] at hc hsame
      unfold dataDeliver
      simp only [hp, hc, if_true, hsame, if_false, onSet, filter_nil_memberOk]
    | some g =>
      right
      refine ⟨by rw [← hp]; exact hsame, g, rfl, ?_⟩
      rw [hp] at hc hsame
      unfold dataDeliver
      simp only [hp, hc, if_true, hsame, if_false, listChildren, onSet]

theorem count_data_cons_child (t : Option Nat) (l : List Ev) :
    (Ev.child t :: l).count Ev.data = l.count Ev.data := by
  simp

theorem count_data_cons_data (l : List Ev) : (Ev.data :: l).count Ev.data = l.count Ev.data + 1 := by
  simp


/-- outcome of a recipe callback, as far as the rest of the proof needs it -/
def CallbackOut (cfg : Cfg) (s s1 : St) : Prop :=
  EnvInv cfg s1 ∧ s1.members = s.members ∧ s1.job = s.job ∧ s1.tree = s.tree ∧
  ((s1.queue.getLast? = some s1.nodes ∧
      ∃ l, s1.queue = s.queue ++ [l] ∧ (s.tree.kids.Nodup → l.Nodup)) ∨
   (s1.queue = s.queue ∧ s1.nodes = s.nodes ∧ (synced s1 → synced s)))

theorem dataDeliver_env {cfg : Cfg} {s : St} {rest : List Ev} (hi0 : Inv0 s) (he : EnvInv cfg s)
    (hp : s.pending = Ev.data :: rest) :
    CallbackOut cfg s (dataDeliver cfg { s with pending := rest }) := by
  have hdw : s.dw = false := by
    cases hd : s.dw with
    | false => rfl
    | true => have := (he.e2 hd).2; rw [hp, count_data_cons_data] at this; omega
  have hc := he.e3 hdw
  rw [hp, count_data_cons_data] at hc
  have hc0 : rest.count Ev.data = 0 := by omega
  have hrest : ∀ g, Ev.child (some g) ∈ s.pending → Ev.child (some g) ∈ rest := by
    intro g h; rw [hp] at h
    rcases List.mem_cons.mp h with h | h
    · cases h
    · exact h
  rcases dataDeliver_cases cfg { s with pending := rest } he.e4 with ⟨hsame, h⟩ | ⟨hne, hpar, h⟩ | ⟨hne, g, hpar, h⟩
  · rw [h]
    have hsame' : s.tree.parent = s.watched := hsame
    refine ⟨⟨rfl, fun _ => ⟨rfl, hc0⟩, by simp, hsame'.symm, he.e5, ?_, he.e7, he.e8, he.t3⟩,
      rfl, rfl, rfl, Or.inr ⟨rfl, rfl, fun h => h⟩⟩
    intro g hg hw
    rcases he.e6 g hg hw with h1 | h1
    · exact Or.inl h1
    · exact Or.inr (hrest g h1)
  · rw [h]
    have hpar' : s.tree.parent = none := hpar
    refine ⟨⟨rfl, fun _ => ⟨hpar'.symm, hc0⟩, by simp, rfl, he.e5, ?_, ?_, fun _ => rfl, ?_⟩,
      rfl, rfl, rfl, Or.inl ⟨by simp, [], rfl, fun _ => List.nodup_nil⟩⟩
    · intro g hg; simp only at hg; rw [hpar'] at hg; cases hg
    · intro g _ hw; simp only at hw; cases hw
    · intro g hw; simp only at hw; cases hw
  · rw [h]
    have hpar' : s.tree.parent = some g := hpar
    refine ⟨⟨rfl, fun _ => ⟨hpar'.symm, hc0⟩, by simp, rfl, ?_, ?_, fun _ _ _ => rfl, ?_, ?_⟩,
      rfl, rfl, rfl, Or.inl ⟨by simp, _, rfl, fun hk => hk.filter _⟩⟩
    · intro h1; simp only at h1; rw [hpar'] at h1; cases h1
    · intro g' hg' hw'
      simp only at hg' hw'
      rw [hpar'] at hg'
      injection hg' with hg'
      subst hg'
      exact Or.inl (List.mem_append_right _ List.mem_cons_self)
    · intro hw; simp only at hw; cases hw
    · intro g' hw
      simp only [Option.some.injEq] at hw
      subst hw
      exact hi0.pgen _ hpar'

theorem dataDeliver_start {cfg : Cfg} {s : St} (hi0 : Inv0 s) (hp : Pre s) :
    CallbackOut cfg s (dataDeliver cfg { s with started := true }) := by
  have h4 : ({ s with started := true } : St).watched = ({ s with started := true } : St).seen := by
    show s.watched = s.seen
    rw [hp.watched, hp.seen]
  rcases dataDeliver_cases cfg { s with started := true } h4 with ⟨hsame, h⟩ | ⟨hne, hpar, _⟩ | ⟨hne, g, hpar, h⟩
  · rw [h]
    have hsame' : s.tree.parent = s.watched := hsame
    have hpar : s.tree.parent = none := by rw [hsame', hp.watched]
    refine ⟨⟨rfl, fun _ => ⟨rfl, by simp [hp.pending]⟩, by simp, hsame'.symm, fun _ => hp.cw, ?_, ?_,
      fun _ => hp.nodes, ?_⟩, rfl, rfl, rfl, Or.inr ⟨rfl, rfl, fun h => h⟩⟩
    · intro g hg; simp only at hg; rw [hpar] at hg; cases hg
    · intro g hg; simp only at hg; rw [hp.cw] at hg; cases hg
    · intro g hw; simp only at hw; rw [hp.watched] at hw; cases hw
  · exfalso
    apply hne
    show s.tree.parent = s.watched
    rw [hp.watched]; exact hpar
  · rw [h]
    have hpar' : s.tree.parent = some g := hpar
    refine ⟨⟨rfl, fun _ => ⟨hpar'.symm, by simp [hp.pending]⟩, by simp, rfl, ?_, ?_, fun _ _ _ => rfl, ?_, ?_⟩,
      rfl, rfl, rfl, Or.inl ⟨by simp, _, rfl, fun hk => hk.filter _⟩⟩
    · intro h1; simp only at h1; rw [hpar'] at h1; cases h1
    · intro g' hg' hw'
      simp only at hg' hw'
      rw [hpar'] at hg'
      injection hg' with hg'
      subst hg'
      exact Or.inl (List.mem_append_right _ List.mem_cons_self)
    · intro hw; simp only at hw; cases hw
    · intro g' hw
      simp only [Option.some.injEq] at hw
      subst hw
      exact hi0.pgen _ hpar'

theorem childDeliver_env {cfg : Cfg} {s : St} {rest : List Ev} {tag : Option Nat}
    (he : EnvInv cfg s) (hp : s.pending = Ev.child tag :: rest) :
    CallbackOut cfg s (childDeliver cfg { s with pending := rest } tag) := by
  have hcd : rest.count Ev.data = s.pending.count Ev.data := by rw [hp, count_data_cons_child]
  have hrest : ∀ g, some g ≠ tag → Ev.child (some g) ∈ s.pending → Ev.child (some g) ∈ rest := by
    intro g hne h; rw [hp] at h
    rcases List.mem_cons.mp h with h | h
    · injection h with h; exact absurd h hne
    · exact h
  -- the cases in which nothing but the event queue changes
  have hnoop : (∀ g, s.tree.parent = some g → s.watched = some g → some g ≠ tag) →
      CallbackOut cfg s { s with pending := rest } := by
    intro hx
    refine ⟨⟨he.e1, ?_, ?_, he.e4, he.e5, ?_, he.e7, he.e8, he.t3⟩, rfl, rfl, rfl,
      Or.inr ⟨rfl, rfl, fun h => h⟩⟩
    · intro h1; simp only [hcd]; exact he.e2 h1
    · intro h1; simp only [hcd]; exact he.e3 h1
    · intro g hg hw
      rcases he.e6 g hg hw with h | h
      · exact Or.inl h
      · exact Or.inr (hrest g (hx g hg hw) h)
  cases tag with
  | none =>
    have : childDeliver cfg { s with pending := rest } none = { s with pending := rest } := rfl
    rw [this]
    exact hnoop (fun g _ _ h => by cases h)
  | some g =>
    cases hpar : s.tree.parent with
    | none =>
      have : childDeliver cfg { s with pending := rest } (some g) = { s with pending := rest } := by
        simp [childDeliver, hpar]
      rw [this]
      exact hnoop (fun g' hg' _ => by rw [hpar] at hg'; cases hg')
    | some p =>
      by_cases hw : s.watched = some g
      · have : childDeliver cfg { s with pending := rest } (some g) =
            { s with pending := rest, cw := s.cw ++ [some g], nodes := s.tree.kids.filter cfg.memberOk,
                     queue := s.queue ++ [s.tree.kids.filter cfg.memberOk] } := by
          simp [childDeliver, hpar, listChildren, hw, onSet]
        rw [this]
        refine ⟨⟨he.e1, ?_, ?_, he.e4, ?_, ?_, fun _ _ _ => rfl, ?_, he.t3⟩, rfl, rfl, rfl,
          Or.inl ⟨by simp, _, rfl, fun hk => hk.filter _⟩⟩
        · intro h1; simp only [hcd]; exact he.e2 h1
        · intro h1; simp only [hcd]; exact he.e3 h1
        · intro h1; simp only at h1; rw [hpar] at h1; cases h1
        · intro g' _ hw'
          simp only at hw'
          rw [hw] at hw'
          injection hw' with hw'
          subst hw'
          exact Or.inl (List.mem_append_right _ List.mem_cons_self)
        · intro h1; simp only at h1; rw [hw] at h1; cases h1
      · have : childDeliver cfg { s with pending := rest } (some g) =
            { s with pending := rest, cw := s.cw ++ [none] } := by
          simp [childDeliver, hpar, listChildren, hw]
        rw [this]
        have hmem : ∀ g', some g' ∈ s.cw ++ [none] ↔ some g' ∈ s.cw := by
          intro g'; simp
        refine ⟨⟨he.e1, ?_, ?_, he.e4, ?_, ?_, ?_, he.e8, he.t3⟩, rfl, rfl, rfl,
          Or.inr ⟨rfl, rfl, ?_⟩⟩
        · intro h1; simp only [hcd]; exact he.e2 h1
        · intro h1; simp only [hcd]; exact he.e3 h1
        · intro h1; simp only at h1; rw [hpar] at h1; cases h1
        · intro g' hg' hw'
          simp only at hg' hw'
          rcases he.e6 g' hg' hw' with h | h
          · exact Or.inl ((hmem g').mpr h)
          · refine Or.inr (hrest g' ?_ h)
            intro heq; injection heq with heq; subst heq; exact hw hw'
        · intro g' hg' hw'
          exact he.e7 g' ((hmem g').mp hg') hw'
        · intro hsy
          rcases hsy with ⟨g', h1, h2⟩ | h
          · exact Or.inl ⟨g', (hmem g').mp h1, h2⟩
          · exact Or.inr h

end Scales.ServerSet
