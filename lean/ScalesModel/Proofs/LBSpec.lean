import ScalesModel.Proofs.LBInv
import ScalesModel.Proofs.LBTotal
import ScalesModel.Proofs.LBOwn
import Mathlib.Data.List.Perm.Subperm

/-!
  The executable specifications `specC05` / `specC06` (Adapter/LB.lean) hold on every history of the
  model: the reference server set and the gated callbacks (`gated_replay`), the run invariant `RInv`
  tying the protocol state of `wf` to the balancer state, and the evaluation of the spec clauses on
  the observations of a state satisfying `Full`.
-/
namespace Scales.LB
open Scales.Heap Scales.Aperture Scales.LBBase

/-! ### the reference server set and the gated callbacks -/

def Notif.ep : Notif → Nat
  | .join ep => ep
  | .leave ep => ep

def mentions (ns : List Notif) (x : Nat) : Prop := ∃ n ∈ ns, Notif.ep n = x

theorem mem_stepRef (ref : List Nat) (n : Notif) (x : Nat) :
    x ∈ stepRef ref n ↔ (match n with
      | .join ep => x ∈ ref ∨ x = ep
      | .leave ep => x ∈ ref ∧ x ≠ ep) := by
  cases n with
  | join ep =>
    simp only [stepRef]
    split
    · rename_i h; constructor
      · exact Or.inl
      · rintro (h' | rfl)
        · exact h'
        · exact h
    · simp
  | leave ep => simp [stepRef]

theorem stepRef_congr {A B : List Nat} (h : ∀ x, x ∈ A ↔ x ∈ B) (n : Notif) :
    ∀ x, x ∈ stepRef A n ↔ x ∈ stepRef B n := by
  intro x; rw [mem_stepRef, mem_stepRef]; cases n <;> simp only [h]

theorem applyRef_cons (n : Notif) (ns : List Notif) (S : List Nat) :
    applyRef (n :: ns) S = applyRef ns (stepRef S n) := rfl

theorem applyRef_append (a b : List Notif) (S : List Nat) : applyRef (a ++ b) S = applyRef b (applyRef a S) := by
  unfold applyRef; exact List.foldl_append

/-- an endpoint no callback mentions keeps its membership -/
theorem applyRef_unmentioned (ns : List Notif) : ∀ (S : List Nat) (x : Nat), ¬ mentions ns x →
    (x ∈ applyRef ns S ↔ x ∈ S) := by
  induction ns with
  | nil => intro S x _; rfl
  | cons n ns ih =>
    intro S x hm
    rw [applyRef_cons, ih _ x (fun ⟨m, hm1, hm2⟩ => hm ⟨m, List.mem_cons_of_mem _ hm1, hm2⟩)]
    have hne : Notif.ep n ≠ x := fun h => hm ⟨n, List.mem_cons_self, h⟩
    rw [mem_stepRef]
    cases n with
    | join ep => simp only [Notif.ep] at hne; constructor
                 · rintro (h | h)
                   · exact h
                   · exact absurd h.symm hne
                 · exact Or.inl
    | leave ep => simp only [Notif.ep] at hne; exact ⟨fun h => h.1, fun h => ⟨h, fun e => hne e.symm⟩⟩

/-- the membership of an endpoint some callback mentions does not depend on the initial list -/
theorem applyRef_mentioned (ns : List Notif) : ∀ (S T : List Nat) (x : Nat), mentions ns x →
    (x ∈ applyRef ns S ↔ x ∈ applyRef ns T) := by
  induction ns with
  | nil => intro S T x ⟨n, hn, _⟩; cases hn
  | cons n ns ih =>
    intro S T x hm
    rw [applyRef_cons, applyRef_cons]
    by_cases hr : mentions ns x
    · exact ih _ _ x hr
    · rw [applyRef_unmentioned ns _ x hr, applyRef_unmentioned ns _ x hr]
      obtain ⟨m, hm1, hm2⟩ := hm
      rcases List.mem_cons.1 hm1 with rfl | hm1
      · rw [mem_stepRef, mem_stepRef]
        cases m with
        | join ep => simp only [Notif.ep] at hm2; simp [hm2]
        | leave ep => simp only [Notif.ep] at hm2; simp [hm2]
      · exact absurd ⟨m, hm1, hm2⟩ hr

theorem mem_applyRef_joins (l : List Nat) : ∀ (S : List Nat) (x : Nat),
    x ∈ applyRef (l.map Notif.join) S ↔ (x ∈ S ∨ x ∈ l) := by
  induction l with
  | nil => intro S x; simp [applyRef]
  | cons a l ih =>
    intro S x
    rw [List.map_cons, applyRef_cons, ih, mem_stepRef]
    simp only [List.mem_cons]
    tauto

/-- the list `GetServers` returned was the server set at some moment after `Open()`; replaying every
    callback since `Open()` on top of it gives the current server set -/
theorem gated_replay (blocked pre : List Notif) (X0 l : List Nat) (hp : pre <+: blocked)
    (hl : ∀ x, x ∈ l ↔ x ∈ applyRef pre X0) :
    ∀ x, x ∈ applyRef blocked (applyRef (l.map Notif.join) []) ↔ x ∈ applyRef blocked X0 := by
  intro x
  by_cases hm : mentions blocked x
  · exact applyRef_mentioned blocked _ _ x hm
  · rw [applyRef_unmentioned blocked _ x hm, applyRef_unmentioned blocked _ x hm, mem_applyRef_joins]
    have hm' : ¬ mentions pre x := fun ⟨n, hn, he⟩ => hm ⟨n, hp.subset hn, he⟩
    rw [hl, applyRef_unmentioned pre _ x hm']
    simp

def notifOf : Op → Option Notif
  | .join ep _ => some (.join ep)
  | .leave ep _ => some (.leave ep)
  | _ => none

theorem sameSet_iff (a b : List Nat) : sameSet a b = true ↔ ∀ x, x ∈ a ↔ x ∈ b := by
  unfold sameSet
  simp only [Bool.and_eq_true, List.all_eq_true, List.contains_iff_mem]
  constructor
  · rintro ⟨h1, h2⟩ x; exact ⟨h1 x, h2 x⟩
  · intro h; exact ⟨fun x hx => (h x).1 hx, fun x hx => (h x).2 hx⟩

/-- how the protocol state of `wf` and the balancer state hang together -/
structure RInv (cfg : Cfg) (p : Proto) (lb : St) : Prop where
  full : Full cfg lb.sub
  phase : p.phase ≤ 2
  p0 : p.phase = 0 → lb.initDone = false ∧ lb.blocked = [] ∧ lb.sub.hs.servers = [] ∧ p.ref = cfg.initial
  p1 : p.phase = 1 → lb.initDone = false ∧ lb.sub.hs.servers = [] ∧ p.ref = applyRef lb.blocked cfg.initial ∧
    ∀ c ∈ p.cands, ∃ pre, pre <+: lb.blocked ∧ c = applyRef pre cfg.initial
  p2 : p.phase = 2 → lb.initDone = true ∧ lb.blocked = [] ∧ ∀ x, x ∈ lb.sub.hs.servers ↔ x ∈ p.ref

theorem RInv.init (cfg : Cfg) : RInv cfg { ref := cfg.initial } (init cfg) :=
  ⟨Full.init cfg, Nat.zero_le _, fun _ => ⟨rfl, rfl, rfl, rfl⟩, (fun h => by cases h), (fun h => by cases h)⟩

theorem RInv.pre {cfg : Cfg} {p : Proto} {lb : St} (h : RInv cfg p lb) :
    lb.initDone = false → lb.sub.hs.servers = [] := by
  intro hi
  have := h.phase
  by_cases h0 : p.phase = 0
  · exact (h.p0 h0).2.2.1
  · by_cases h1 : p.phase = 1
    · exact (h.p1 h1).2.1
    · have h2 : p.phase = 2 := by omega
      rw [(h.p2 h2).1] at hi; cases hi

theorem RInv.step_other {cfg : Cfg} {p p' : Proto} {lb lb' : St} (h : RInv cfg p lb) (f : Full cfg lb'.sub)
    (eff : lb'.initDone = lb.initDone ∧ lb'.blocked = lb.blocked ∧ lb'.sub.hs.servers = lb.sub.hs.servers)
    (hp : (if p.phase = 0 then none else some p) = some p') : RInv cfg p' lb' := by
  obtain ⟨e1, e2, e3⟩ := eff
  split at hp
  · cases hp
  · rename_i h0
    injection hp with hp; subst hp
    refine ⟨f, h.phase, fun hc => absurd hc h0, ?_, ?_⟩
    · intro h1; rw [e1, e2, e3]; exact h.p1 h1
    · intro h2; rw [e1, e2, e3]; exact h.p2 h2

theorem RInv.step {cfg : Cfg} {p p' : Proto} {lb : St} (h : RInv cfg p lb) (op : Op)
    (hp : protoStep p op = some p') :
    RInv cfg p' (stepSt cfg lb op).1 ∧ p'.ref = refAfter p.ref op ∧
    (∀ ep ∈ resEps (stepSt cfg lb op).2, ep ∈ E (stepSt cfg lb op).1.sub) := by
  have hload : ∀ l e, op = .loaded l e → lb.initDone = false := by
    rintro l e rfl
    simp only [protoStep] at hp
    split at hp
    · rename_i hc; exact (h.p1 hc.1).1
    · cases hp
  obtain ⟨f, eff, rs⟩ := stepSt_spec cfg lb op h.full h.pre hload
  refine ⟨?_, ?_, rs⟩
  · cases op with
    | opn =>
      simp only [protoStep] at hp
      split at hp
      · rename_i h0
        injection hp with hp; subst hp
        obtain ⟨a, b, c, d⟩ := h.p0 h0
        obtain ⟨e1, e2, e3⟩ := eff
        refine ⟨f, by simp, fun hc => by simp at hc, fun _ => ⟨e1.trans a, e3.trans c, ?_, ?_⟩, fun hc => by simp at hc⟩
        · rw [e2, b]; exact d
        · intro c hc; simp only [List.mem_singleton] at hc
          exact ⟨[], List.nil_prefix, by rw [hc, d]; rfl⟩
      · -- `Open()` on a balancer that is opening or open: nothing moves
        rename_i h0
        exact RInv.step_other h f eff (by rw [if_neg h0]; exact hp)
    | loaded l e =>
      simp only [protoStep] at hp
      split at hp
      · rename_i hc
        injection hp with hp; subst hp
        obtain ⟨a, b, c, d⟩ := h.p1 hc.1
        obtain ⟨e1, e2, e3⟩ := eff
        obtain ⟨cd, hcd, hss⟩ := List.any_eq_true.1 hc.2
        obtain ⟨pre, hpre, hcd'⟩ := d cd hcd
        refine ⟨f, by simp, fun hc => by simp at hc, fun hc => by simp at hc, fun _ => ⟨e1, e2, ?_⟩⟩
        intro x
        rw [e3, c]
        exact gated_replay lb.blocked pre cfg.initial l hpre (fun y => by rw [← hcd']; exact (sameSet_iff l cd).1 hss y) x
      · cases hp
    | join ep e =>
      simp only [protoStep] at hp
      split at hp
      · rename_i h1
        injection hp with hp; subst hp
        obtain ⟨a, b, c, d⟩ := h.p1 h1
        obtain ⟨_, e2⟩ := eff
        obtain ⟨e1, e2, e3⟩ := e2 a
        refine ⟨f, by simp [h1], fun hc => by simp [h1] at hc, fun _ => ⟨e1, e3.trans b, ?_, ?_⟩, fun hc => by simp [h1] at hc⟩
        · show refAfter p.ref (.join ep e) = _
          rw [e2, applyRef_append, ← c]; rfl
        · intro cc hcc
          simp only [List.mem_append, List.mem_singleton] at hcc
          rcases hcc with hcc | hcc
          · obtain ⟨pre, hp1, hp2⟩ := d cc hcc
            exact ⟨pre, by rw [e2]; exact hp1.trans (List.prefix_append _ _), hp2⟩
          · refine ⟨lb.blocked ++ [.join ep], by rw [e2]; exact List.prefix_refl _, ?_⟩
            rw [hcc, applyRef_append, ← c]; rfl
      · split at hp
        · rename_i h1 h2
          injection hp with hp; subst hp
          obtain ⟨a, b, c⟩ := h.p2 h2
          obtain ⟨e1, _⟩ := eff
          obtain ⟨e1, e2, e3⟩ := e1 a
          refine ⟨f, by simp [h2], fun hc => by simp [h2] at hc, fun hc => by simp [h2] at hc, fun _ => ⟨e1, e2.trans b, ?_⟩⟩
          intro x; rw [e3]
          exact stepRef_congr c (.join ep) x
        · cases hp
    | leave ep e =>
      simp only [protoStep] at hp
      split at hp
      · rename_i h1
        injection hp with hp; subst hp
        obtain ⟨a, b, c, d⟩ := h.p1 h1
        obtain ⟨_, e2⟩ := eff
        obtain ⟨e1, e2, e3⟩ := e2 a
        refine ⟨f, by simp [h1], fun hc => by simp [h1] at hc, fun _ => ⟨e1, e3.trans b, ?_, ?_⟩, fun hc => by simp [h1] at hc⟩
        · show refAfter p.ref (.leave ep e) = _
          rw [e2, applyRef_append, ← c]; rfl
        · intro cc hcc
          simp only [List.mem_append, List.mem_singleton] at hcc
          rcases hcc with hcc | hcc
          · obtain ⟨pre, hp1, hp2⟩ := d cc hcc
            exact ⟨pre, by rw [e2]; exact hp1.trans (List.prefix_append _ _), hp2⟩
          · refine ⟨lb.blocked ++ [.leave ep], by rw [e2]; exact List.prefix_refl _, ?_⟩
            rw [hcc, applyRef_append, ← c]; rfl
      · split at hp
        · rename_i h1 h2
          injection hp with hp; subst hp
          obtain ⟨a, b, c⟩ := h.p2 h2
          obtain ⟨e1, _⟩ := eff
          obtain ⟨e1, e2, e3⟩ := e1 a
          refine ⟨f, by simp [h2], fun hc => by simp [h2] at hc, fun hc => by simp [h2] at hc, fun _ => ⟨e1, e2.trans b, ?_⟩⟩
          intro x; rw [e3]
          exact stepRef_congr c (.leave ep) x
        · cases hp
    | get e => exact RInv.step_other h f eff (by simpa [protoStep] using hp)
    | getd e => exact RInv.step_other h f eff (by simpa [protoStep] using hp)
    | expire k => exact RInv.step_other h f eff (by simpa [protoStep] using hp)
    | put r j e => exact RInv.step_other h f eff (by simpa [protoStep] using hp)
    | chan nid s => exact RInv.step_other h f eff (by simpa [protoStep] using hp)
    | opened nid ok e => exact RInv.step_other h f eff (by simpa [protoStep] using hp)
    | jitter e => exact RInv.step_other h f eff (by simpa [protoStep] using hp)
  · cases op with
    | join ep e =>
      simp only [protoStep] at hp
      by_cases h1 : p.phase = 1
      · rw [if_pos h1] at hp; injection hp with hp; subst hp; rfl
      · rw [if_neg h1] at hp
        by_cases h2 : p.phase = 2
        · rw [if_pos h2] at hp; injection hp with hp; subst hp; rfl
        · rw [if_neg h2] at hp; cases hp
    | leave ep e =>
      simp only [protoStep] at hp
      by_cases h1 : p.phase = 1
      · rw [if_pos h1] at hp; injection hp with hp; subst hp; rfl
      · rw [if_neg h1] at hp
        by_cases h2 : p.phase = 2
        · rw [if_pos h2] at hp; injection hp with hp; subst hp; rfl
        · rw [if_neg h2] at hp; cases hp
    | _ =>
      simp only [protoStep] at hp
      split at hp
      · first | (injection hp with hp; subst hp; rfl) | cases hp
      · first | (injection hp with hp; subst hp; rfl) | cases hp

/-! ### the spec clauses on the observations of a state -/

theorem nodupB_iff (l : List Nat) : nodupB l = true ↔ l.Nodup := by
  induction l with
  | nil => simp [nodupB]
  | cons x xs ih => simp [nodupB, ih]

theorem sortNat_perm (l : List Nat) : (sortNat l).Perm l := List.mergeSort_perm _ _

theorem obs_eligible (lb : St) (res : List ResV) : (obsOf lb res).eligible.Perm (E lb.sub) := by
  unfold Obs.eligible obsOf E heapEps
  simp only [List.map_map]
  exact List.Perm.append (List.Perm.of_eq (List.map_congr_left (fun _ _ => rfl))) (sortNat_perm _)

theorem obs_servers (lb : St) (res : List ResV) : (obsOf lb res).servers.Perm lb.sub.hs.servers := sortNat_perm _

theorem obs_heap_length (lb : St) (res : List ResV) : (obsOf lb res).heap.length = lb.sub.hs.size := by
  simp [obsOf, HS.size]

theorem Verdict_all_ok (l : List Verdict) (h : ∀ v ∈ l, v = .ok) : Verdict.all l = .ok := by
  induction l with
  | nil => rfl
  | cons v vs ih =>
    have := h v List.mem_cons_self
    subst this
    simp only [Verdict.all]
    exact ih (fun w hw => h w (List.mem_cons_of_mem _ hw))

/-! the smoothing clauses of C06 on one record -/

theorem ratAbs_eq (x : Rat) : ratAbs x = |x| := by
  unfold ratAbs
  split
  · rename_i h; rw [abs_of_neg h]
  · rename_i h; rw [abs_of_nonneg (not_lt.1 h)]

theorem ratMin_eq (a b : Rat) : ratMin a b = min a b := by
  unfold ratMin
  split
  · rename_i h; rw [min_eq_left h]
  · rename_i h; rw [min_eq_right (le_of_lt (not_le.1 h))]

theorem ratMax_eq (a b : Rat) : ratMax a b = max a b := by
  unfold ratMax
  split
  · rename_i h; rw [max_eq_right h]
  · rename_i h; rw [max_eq_left (le_of_lt (not_le.1 h))]

theorem emaTol_nonneg : (0 : Rat) ≤ emaTol := by unfold emaTol; norm_num

/-- a value within the rounding slack of a point between `p` and `s` is within the slack of the interval -/
theorem close_between {p s e avg : Rat} (hlo : min p s ≤ e) (hhi : e ≤ max p s)
    (hc : |e - avg| ≤ emaTol * (1 + |e|)) :
    min p s - emaTol * (1 + max |p| |s|) ≤ avg ∧ avg ≤ max p s + emaTol * (1 + max |p| |s|) := by
  have habs : |e| ≤ max |p| |s| := by
    rcases le_total p s with h | h
    · rw [min_eq_left h] at hlo; rw [max_eq_right h] at hhi
      exact abs_le_max_abs_abs hlo hhi
    · rw [min_eq_right h] at hlo; rw [max_eq_left h] at hhi
      rw [max_comm]; exact abs_le_max_abs_abs hlo hhi
  have hsl : emaTol * (1 + |e|) ≤ emaTol * (1 + max |p| |s|) :=
    mul_le_mul_of_nonneg_left (by linarith) emaTol_nonneg
  obtain ⟨c1, c2⟩ := abs_le.1 (le_trans hc hsl)
  constructor <;> linarith

/-- a record that is consistent with exact arithmetic (`recLegal`) and whose sample was not taken at an
    earlier time than the one before has a weight in [0, 1] (if a weight was used) and a smoothed value
    between the previous value and the sample -/
theorem recLegal_smooth {r : AdjRec} (hdt : 0 ≤ r.dt) (hl : recLegal r = true) :
    (r.prev.isSome = true → 0 ≤ r.w ∧ r.w ≤ 1) ∧ emaBetween r = true := by
  unfold recLegal at hl
  simp only [Bool.and_eq_true, Bool.or_eq_true, decide_eq_true_eq, ratAbs_eq] at hl
  obtain ⟨hc, hw⟩ := hl
  unfold emaBetween
  simp only [Bool.and_eq_true, decide_eq_true_eq, ratAbs_eq, ratMin_eq, ratMax_eq]
  cases hp : r.prev with
  | none =>
    rw [hp] at hc
    simp only [Ema.update] at hc
    refine ⟨fun h => by simp at h, ?_⟩
    simp only [Option.getD_none]
    exact close_between (by simp) (by simp) hc
  | some p =>
    rw [hp] at hc hw
    simp only [Option.isNone_some, Bool.false_eq_true, false_or] at hw
    have hu := Ema.weightLegal_unit hw hdt
    refine ⟨fun _ => hu, ?_⟩
    simp only [Option.getD_some]
    obtain ⟨b1, b2⟩ := Ema.step_between r.w p (r.sample : Rat) hu.1 hu.2
    exact close_between b1 b2 hc

theorem c06Ema_ok (idx : Nat) (r : AdjRec) (hdt : 0 ≤ r.dt) (hl : recLegal r = true) : c06Ema idx r = .ok := by
  obtain ⟨hw, hb⟩ := recLegal_smooth hdt hl
  unfold c06Ema
  rw [if_neg (not_lt.2 hdt), if_neg (by rintro ⟨hs, h | h⟩ <;> linarith [(hw hs).1, (hw hs).2]), if_pos hb]

theorem c06Adj_ok (cfg : Cfg) (idx : Nat) (r : AdjRec) (h : adjGood cfg r) : c06Adj cfg idx r = .ok := by
  obtain ⟨h1, h2, h3, h4, _⟩ := h
  unfold c06Adj
  split
  · rename_i hc; exact absurd (h1 hc.1) (by omega)
  · cases he : tableExpand cfg r
    · cases hc : tableContract cfg r
      · simp [h4 he hc]
      · simp [h3 he hc]
    · simp [h2 he]

theorem Verdict.ok_and (f : Unit → Verdict) : Verdict.and .ok f = f () := rfl

theorem c06At_ok (cfg : Cfg) (idx : Nat) (lb : St) (res : List ResV) (h : Full cfg lb.sub)
    (hl : lb.sub.adjLog.all recLegal = true) : c06At cfg idx (obsOf lb res) = .ok := by
  have hp := obs_eligible lb res
  have hs := obs_servers lb res
  unfold c06At
  simp only
  have h1 : nodupB (obsOf lb res).eligible = true := (nodupB_iff _).2 (hp.nodup_iff.2 h.inv.nodup)
  simp only [h1, Bool.not_true, Bool.false_eq_true, if_false]
  have h2 : (obsOf lb res).servers.find? (fun x => !(obsOf lb res).eligible.contains x) = none := by
    rw [List.find?_eq_none]
    intro x hx
    have : x ∈ (obsOf lb res).eligible := hp.mem_iff.2 ((h.part x).2 (hs.mem_iff.1 hx))
    simp [this]
  rw [h2]
  simp only
  have h3 : (obsOf lb res).eligible.find? (fun x => !(obsOf lb res).servers.contains x) = none := by
    rw [List.find?_eq_none]
    intro x hx
    have : x ∈ (obsOf lb res).servers := hs.mem_iff.2 ((h.part x).1 (hp.mem_iff.1 hx))
    simp [this]
  rw [h3]
  simp only
  have h4 : ¬ ((obsOf lb res).heap.length < min cfg.minSize (obsOf lb res).servers.length) := by
    rw [obs_heap_length, hs.length_eq]
    rcases h.lbd with hl | hl
    · have := Nat.min_le_left cfg.minSize lb.sub.hs.servers.length; omega
    · -- nothing idle: every member is active
      have hsub : lb.sub.hs.servers ⊆ heapEps lb.sub.hs := by
        intro x hx
        have := (h.part x).2 hx
        unfold E at this; rw [hl, List.append_nil] at this; exact this
      have := (List.Nodup.subperm h.snodup hsub).length_le
      rw [heapEps_length] at this
      have := Nat.min_le_right cfg.minSize lb.sub.hs.servers.length; omega
  rw [if_neg h4]
  have he : Verdict.all ((obsOf lb res).adj.map (c06Ema idx)) = .ok := by
    apply Verdict_all_ok
    intro v hv
    obtain ⟨r, hr, rfl⟩ := List.mem_map.1 hv
    exact c06Ema_ok idx r (h.log r hr).2.2.2.2 (List.all_eq_true.1 hl r hr)
  rw [he, Verdict.ok_and]
  apply Verdict_all_ok
  intro v hv
  obtain ⟨r, hr, rfl⟩ := List.mem_map.1 hv
  exact c06Adj_ok cfg idx r (h.log r hr)

theorem c06Total_ok (cfg : Cfg) (idx : Nat) (lb : St) (res : List ResV) (t : TInv cfg lb.sub) :
    c06Total cfg idx (flagsOf lb.sub.hs) (obsOf lb res) = .ok := by
  unfold c06Total
  have : (obsOf lb res).total = lb.sub.total := rfl
  rw [this, t]; simp

/-- after an operation the protocol is past `Open()` -/
theorem protoStep_phase {p p' : Proto} {op : Op} (h : protoStep p op = some p') : p'.phase ≠ 0 := by
  cases op <;> simp only [protoStep] at h
  case opn => split at h <;> [(injection h with h; subst h; simp); (injection h with h; subst h; assumption)]
  case loaded => split at h <;> [(injection h with h; subst h; simp); cases h]
  case join =>
    split at h
    · injection h with h; subst h; rename_i hc; simp [hc]
    · split at h <;> [(injection h with h; subst h; rename_i hc; simp [hc]); cases h]
  case leave =>
    split at h
    · injection h with h; subst h; rename_i hc; simp [hc]
    · split at h <;> [(injection h with h; subst h; rename_i hc; simp [hc]); cases h]
  all_goals (split at h <;> [cases h; (injection h with h; subst h; assumption)])

theorem specC06_trace (cfg : Cfg) (ops : List Op) : ∀ (p : Proto) (lb : St) (idx : Nat), RInv cfg p lb →
    TInv cfg lb.sub → (p.phase = 0 → lb.sub.adjLog = []) → protoOk p ops = true → logsLegal cfg lb ops = true →
    specC06Go cfg idx (flagsOf lb.sub.hs) lb.sub.ema (comp6.trace cfg lb ops) = .ok := by
  induction ops with
  | nil => intro p lb idx _ _ _ _ _; rfl
  | cons op ops ih =>
    intro p lb idx h t h0 hp hlg
    simp only [logsLegal, Bool.and_eq_true] at hlg
    simp only [protoOk] at hp
    cases hps : protoStep p op with
    | none => rw [hps] at hp; cases hp
    | some p' =>
      rw [hps] at hp
      obtain ⟨h', _, _⟩ := h.step op hps
      obtain ⟨t1, t2⟩ := total_step cfg lb op
      obtain ⟨o1, o2⟩ := own_step cfg lb op
      simp only [TComp.trace]
      show specC06Go cfg idx (flagsOf lb.sub.hs) lb.sub.ema
        ((op, (step cfg lb op).2) :: comp6.trace cfg (step cfg lb op).1 ops) = .ok
      simp only [specC06Go, step]
      have hadj : ∀ res, (obsOf (stepSt cfg lb op).1 res).adj = (stepSt cfg lb op).1.sub.adjLog := fun _ => rfl
      rw [c06At_ok cfg idx _ _ h'.full hlg.1, Verdict.ok_and, hadj, c06Own_ok idx _ _ o1, Verdict.ok_and,
        ← t1, c06Total_ok cfg idx _ _ (t2 t), Verdict.ok_and, ← o2]
      exact ih p' _ (idx + 1) h' (t2 t) (fun hc => absurd hc (protoStep_phase hps)) hp hlg.2

/-- the `_AdjustAperture` records of a whole history, in call order -/
def adjRecords (h : List (Op × Obs)) : List AdjRec := h.flatMap (fun q => q.2.adj)

/-- the records of a whole run form one chain, from the smoothed load held at its start -/
theorem trace_own (cfg : Cfg) (ops : List Op) : ∀ (p : Proto) (lb : St),
    (p.phase = 0 → lb.sub.adjLog = []) → protoOk p ops = true →
    chainB lb.sub.ema (adjRecords (comp6.trace cfg lb ops)) = true ∧
    (runSt cfg lb ops).sub.ema = heldAfter lb.sub.ema (adjRecords (comp6.trace cfg lb ops)) := by
  induction ops with
  | nil => intro p lb _ _; exact ⟨rfl, rfl⟩
  | cons op ops ih =>
    intro p lb h0 hp
    simp only [protoOk] at hp
    cases hps : protoStep p op with
    | none => rw [hps] at hp; cases hp
    | some p' =>
      rw [hps] at hp
      obtain ⟨o1, o2⟩ := own_step cfg lb op
      obtain ⟨i1, i2⟩ := ih p' (stepSt cfg lb op).1 (fun hc => absurd hc (protoStep_phase hps)) hp
      have ht : adjRecords (comp6.trace cfg lb (op :: ops)) =
          (stepSt cfg lb op).1.sub.adjLog ++ adjRecords (comp6.trace cfg (stepSt cfg lb op).1 ops) := rfl
      rw [ht, chainB_append, heldAfter_append, o1, ← o2]
      exact ⟨i1, i2⟩

theorem chainB_head {h : Option Rat} {r : AdjRec} {rest : List AdjRec} (hc : chainB h (r :: rest) = true) :
    r.prev = h := by
  simp only [chainB, Bool.and_eq_true, decide_eq_true_eq] at hc; exact hc.1

theorem chainB_pair {h : Option Rat} {pre post : List AdjRec} {r r' : AdjRec}
    (hc : chainB h (pre ++ r :: r' :: post) = true) : r'.prev = some r.avg := by
  rw [chainB_append] at hc
  simp only [chainB, Bool.and_eq_true, decide_eq_true_eq] at hc
  exact hc.2.2.1

theorem TInv.init (cfg : Cfg) : TInv cfg (init cfg).sub := by
  unfold TInv expectedTotal flagsOf
  show (0 : Int) = if cfg.aperture = true then (((([] : List (Nat × Bool)).map (·.2)).count false : Nat) : Int) else 0
  split <;> rfl

/-- every run: `_total` is the number of open dispatches -/
theorem run_TInv (cfg : Cfg) (ops : List Op) : ∀ (lb : St), TInv cfg lb.sub → TInv cfg (runSt cfg lb ops).sub := by
  induction ops with
  | nil => intro lb t; exact t
  | cons op ops ih => intro lb t; exact ih _ ((total_step cfg lb op).2 t)

theorem RInv.quiescent {cfg : Cfg} {p : Proto} {lb : St} (h : RInv cfg p lb) (hi : lb.initDone = true) :
    ∀ x, x ∈ lb.sub.hs.servers ↔ x ∈ p.ref := by
  have := h.phase
  by_cases h0 : p.phase = 0
  · rw [(h.p0 h0).1] at hi; cases hi
  · by_cases h1 : p.phase = 1
    · rw [(h.p1 h1).1] at hi; cases hi
    · exact (h.p2 (by omega)).2.2

theorem c05At_ok {cfg : Cfg} (idx : Nat) (ref : List Nat) (lb : St) (res : List ResV) (h : Full cfg lb.sub)
    (hq : lb.initDone = true → ∀ x, x ∈ lb.sub.hs.servers ↔ x ∈ ref)
    (hres : ∀ ep ∈ resEps res, ep ∈ E lb.sub) : c05At idx ref (obsOf lb res) = .ok := by
  have hp := obs_eligible lb res
  unfold c05At
  split
  · rename_i hc
    have hi : lb.initDone = true := by
      simp only [Bool.and_eq_true] at hc; exact hc.1
    have hq := hq hi
    simp only
    have h1 : nodupB (obsOf lb res).eligible = true := (nodupB_iff _).2 (hp.nodup_iff.2 h.inv.nodup)
    simp only [h1, Bool.not_true, Bool.false_eq_true, if_false]
    have h2 : ref.find? (fun x => !(obsOf lb res).eligible.contains x) = none := by
      rw [List.find?_eq_none]
      intro x hx
      have : x ∈ (obsOf lb res).eligible := hp.mem_iff.2 ((h.part x).2 ((hq x).2 hx))
      simp [this]
    rw [h2]
    simp only
    have h3 : (obsOf lb res).eligible.find? (fun x => !ref.contains x) = none := by
      rw [List.find?_eq_none]
      intro x hx
      have : x ∈ ref := (hq x).1 ((h.part x).1 (hp.mem_iff.1 hx))
      simp [this]
    rw [h3]
    simp only
    have h4 : (resEps (obsOf lb res).res).find? (fun x => !ref.contains x) = none := by
      rw [List.find?_eq_none]
      intro x hx
      have : x ∈ ref := (hq x).1 ((h.part x).1 (hres x hx))
      simp [this]
    rw [h4]
  · rfl

theorem specC05_trace (cfg : Cfg) (ops : List Op) : ∀ (p : Proto) (lb : St) (idx : Nat), RInv cfg p lb →
    protoOk p ops = true → specC05Go idx p.ref (comp5.trace cfg lb ops) = .ok := by
  induction ops with
  | nil => intro p lb idx _ _; rfl
  | cons op ops ih =>
    intro p lb idx h hp
    simp only [protoOk] at hp
    cases hps : protoStep p op with
    | none => rw [hps] at hp; cases hp
    | some p' =>
      rw [hps] at hp
      obtain ⟨h', href, hres⟩ := h.step op hps
      simp only [TComp.trace]
      show specC05Go idx p.ref ((op, (step cfg lb op).2) :: comp5.trace cfg (step cfg lb op).1 ops) = .ok
      simp only [specC05Go, step]
      rw [← href]
      rw [c05At_ok idx p'.ref _ _ h'.full (fun hi => h'.quiescent hi) hres, Verdict.ok_and]
      exact ih p' _ (idx + 1) h' hp

/-- the reference server set after a list of operations -/
def refOf (cfg : Cfg) (ops : List Op) : List Nat := ops.foldl refAfter cfg.initial

theorem run_RInv (cfg : Cfg) (ops : List Op) : ∀ (p : Proto) (lb : St), RInv cfg p lb → protoOk p ops = true →
    ∃ p', RInv cfg p' (runSt cfg lb ops) ∧ p'.ref = ops.foldl refAfter p.ref := by
  induction ops with
  | nil => intro p lb h _; exact ⟨p, h, rfl⟩
  | cons op ops ih =>
    intro p lb h hp
    simp only [protoOk] at hp
    cases hps : protoStep p op with
    | none => rw [hps] at hp; cases hp
    | some p1 =>
      rw [hps] at hp
      obtain ⟨h1, href, _⟩ := h.step op hps
      obtain ⟨p', h', e'⟩ := ih p1 _ h1 hp
      exact ⟨p', h', by rw [e', href]; rfl⟩

theorem wf_proto {cfg : Cfg} {ops : List Op} (h : wf cfg ops = true) :
    protoOk { ref := cfg.initial } ops = true := by
  unfold wf at h; simp only [Bool.and_eq_true] at h; exact h.1

theorem wf6_wf {cfg : Cfg} {ops : List Op} (h : wf6 cfg ops = true) : wf cfg ops = true := by
  unfold wf6 at h; simp only [Bool.and_eq_true] at h; exact h.1

theorem wf6_legal {cfg : Cfg} {ops : List Op} (h : wf6 cfg ops = true) : logsLegal cfg (init cfg) ops = true := by
  unfold wf6 at h; simp only [Bool.and_eq_true] at h; exact h.2

/-- under `logsLegal` every record of every observation of the run is `recLegal` -/
theorem trace_legal (cfg : Cfg) (ops : List Op) : ∀ lb : St, logsLegal cfg lb ops = true →
    ∀ p ∈ comp6.trace cfg lb ops, ∀ r ∈ p.2.adj, recLegal r = true := by
  induction ops with
  | nil => intro lb _ p hp; simp [TComp.trace] at hp
  | cons op ops ih =>
    intro lb hlg p hp r hr
    simp only [logsLegal, Bool.and_eq_true] at hlg
    have ht : comp6.trace cfg lb (op :: ops) = (op, (step cfg lb op).2) :: comp6.trace cfg (step cfg lb op).1 ops := rfl
    rw [ht, List.mem_cons] at hp
    rcases hp with rfl | hp
    · exact List.all_eq_true.1 hlg.1 r hr
    · exact ih _ hlg.2 p hp r hr

/-- every record of every observation of a run follows the decision table and has a time delta ≥ 0 -/
theorem trace_adjGood (cfg : Cfg) (ops : List Op) : ∀ (p : Proto) (lb : St), RInv cfg p lb → protoOk p ops = true →
    ∀ q ∈ comp6.trace cfg lb ops, ∀ r ∈ q.2.adj, adjGood cfg r := by
  induction ops with
  | nil => intro p lb _ _ q hq; simp [TComp.trace] at hq
  | cons op ops ih =>
    intro p lb h hp q hq r hr
    simp only [protoOk] at hp
    cases hps : protoStep p op with
    | none => rw [hps] at hp; cases hp
    | some p' =>
      rw [hps] at hp
      obtain ⟨h', _, _⟩ := h.step op hps
      have ht : comp6.trace cfg lb (op :: ops) = (op, (step cfg lb op).2) :: comp6.trace cfg (step cfg lb op).1 ops := rfl
      rw [ht, List.mem_cons] at hq
      rcases hq with rfl | hq
      · exact h'.full.log r hr
      · exact ih p' _ h' hp q hq r hr


end Scales.LB
