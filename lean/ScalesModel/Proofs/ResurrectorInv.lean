/-
  Proofs/ResurrectorInv.lean — the coupling between Model/Resurrector.lean and the specification
  automaton of Adapter/Resurrector.lean, and its preservation by every task.
-/
import ScalesModel.Proofs.ResBackoff
namespace Scales.Res

/-- fail-fast mode: `_down_on` set, no next sink, no subscription -/
def DownCore (s : St) : Prop := s.down = true ∧ s.next = none ∧ s.subs = []

/-- the retry greenlet is about to sleep, or asleep, for a down period / failed attempt that
    began at `le`; `ld` is the previous delay -/
def Sleeping (p : Par) (s : St) (le : Nat) (ld : Option Nat) : Prop :=
  (s.res = .start ∧ Task.resStart ∈ s.tasks ∧ le = s.now ∧ ld = none) ∨
  (∃ wk w, s.res = .sleep wk w ∧ wk ≤ le + w ∧ w ≤ p.maxW ∧ 0 < w ∧ s.now < wk ∧
    ∀ d, ld = some d → wk = le + w ∧ d ≤ w ∧ (d < w ∨ w = p.maxW))

/-- the forms the coupled state takes while the channel is not closed -/
inductive Live (p : Par) (s : St) (a : SS) : Prop
  /-- up (or never opened): the sink in use is the one the environment knows of -/
  | up (h1 : a.known = false) (h2 : a.pend = none) (h3 : a.pendOk = none)
       (hd : s.down = false) (hn : s.next = a.inst) (hs : s.subs = a.inst.toList) (hr : s.res = .none)
       (hk : ∀ k, a.inst = some k → (a.raised = true ↔ Task.notify k ∈ s.tasks))
       (hi : a.inst = none → a.raised = false)
  /-- the fault has just been delivered (within a turn) -/
  | upDown (h1 : a.known = false) (h2 : a.pend = none) (h3 : a.pendOk = none) (h4 : a.raised = true)
       (hc : DownCore s) (hz : Sleeping p s s.now none)
  /-- a fault was raised on the sink whose successful Open() has not been picked up yet -/
  | resumingR (k : Nat) (w : Nat) (h1 : a.known = false) (h2 : a.pend = none) (h3 : a.pendOk = none)
       (h4 : a.raised = true) (h5 : a.inst = some k)
       (hc : DownCore s) (hr : s.res = .opening k w .ok)
       (ht : ∃ pre post, s.tasks = pre ++ Task.resume :: post ∧ Task.notify k ∉ pre ∧ Task.notify k ∈ post)
  /-- down, waiting for the next attempt -/
  | sleeping (h1 : a.known = true) (h2 : a.pend = none) (h3 : a.pendOk = none) (h4 : a.raised = false)
       (h5 : a.inst = none) (hc : DownCore s) (hz : Sleeping p s a.lastEnd a.lastDelay)
  /-- down, the pending connect has just failed -/
  | failing (k w : Nat) (h1 : a.known = true) (h2 : a.pend = none) (h3 : a.pendOk = none)
       (h4 : a.raised = false) (h5 : a.inst = none) (hc : DownCore s)
       (hr : s.res = .opening k w .fail) (ht : Task.resume ∈ s.tasks) (hl : a.lastEnd = s.now)
       (hw : w ≤ p.maxW ∧ 0 < w ∧ ∀ d, a.lastDelay = some d → d ≤ w)
  /-- down, a connect is pending -/
  | pending (k w : Nat) (h1 : a.known = true) (h2 : a.pend = some k) (h3 : a.pendOk = none)
       (h4 : a.raised = false) (h5 : a.inst = none) (hc : DownCore s)
       (hr : s.res = .opening k w .pending) (hnk : Task.notify k ∉ s.tasks)
       (hw : w ≤ p.maxW ∧ 0 < w ∧ ∀ d, a.lastDelay = some d → d ≤ w)
  /-- down, the pending connect has succeeded, the greenlet has not resumed yet -/
  | resuming (k w : Nat) (h1 : a.known = true) (h2 : a.pend = none) (h3 : a.pendOk = some k)
       (h4 : a.raised = false) (h5 : a.inst = none) (hc : DownCore s)
       (hr : s.res = .opening k w .ok) (ht : Task.resume ∈ s.tasks) (hnk : Task.notify k ∉ s.tasks)
  /-- … it has resumed (inside a request's turn), the specification has not been told yet -/
  | resumed (k : Nat) (h1 : a.known = true) (h2 : a.pend = none) (h3 : a.pendOk = some k)
       (h4 : a.raised = false) (h5 : a.inst = none)
       (hd : s.down = false) (hn : s.next = some k) (hs : s.subs = [k]) (hr : s.res = .none)
       (hnk : Task.notify k ∉ s.tasks)

/-- after `Close()` -/
def Shut (s : St) : Prop :=
  s.down = false ∧ s.subs = [] ∧ s.res ≠ .start ∧ (s.res ≠ .none → Task.kill ∈ s.tasks)

/-- facts about the queue that hold throughout -/
structure QInv (s : St) (closed : Bool) : Prop where
  bound : ∀ k, Task.notify k ∈ s.tasks → k < s.sinks.length
  nokill : closed = false → Task.kill ∉ s.tasks

/-! ### small facts about the model's helpers -/

@[simp] theorem emit_tasks (s : St) (e : Ev) : (emit s e).tasks = s.tasks := rfl
@[simp] theorem emit_fields (s : St) (e : Ev) :
    (emit s e).down = s.down ∧ (emit s e).next = s.next ∧ (emit s e).subs = s.subs ∧
    (emit s e).res = s.res ∧ (emit s e).now = s.now ∧ (emit s e).sinks = s.sinks ∧
    (emit s e).reach = s.reach := ⟨rfl, rfl, rfl, rfl, rfl, rfl, rfl⟩
@[simp] theorem pop_fields (s : St) :
    (pop s).down = s.down ∧ (pop s).next = s.next ∧ (pop s).subs = s.subs ∧ (pop s).res = s.res ∧
    (pop s).now = s.now ∧ (pop s).sinks = s.sinks ∧ (pop s).reach = s.reach ∧ (pop s).ev = s.ev ∧
    (pop s).ups = s.ups ∧ (pop s).tasks = s.tasks.tail := ⟨rfl, rfl, rfl, rfl, rfl, rfl, rfl, rfl, rfl, rfl⟩
@[simp] theorem push_tasks (s : St) (t : Task) : (push s t).tasks = s.tasks ++ [t] := rfl
@[simp] theorem updSink_fields (s : St) (i : Nat) (g : Sink → Sink) :
    (updSink s i g).tasks = s.tasks ∧ (updSink s i g).down = s.down ∧ (updSink s i g).next = s.next ∧
    (updSink s i g).subs = s.subs ∧ (updSink s i g).res = s.res ∧ (updSink s i g).now = s.now ∧
    (updSink s i g).reach = s.reach ∧ (updSink s i g).ev = s.ev ∧
    (updSink s i g).sinks.length = s.sinks.length := by
  simp [updSink]
@[simp] theorem closeSink_fields (s : St) (i : Nat) :
    (closeSink s i).tasks = s.tasks ∧ (closeSink s i).down = s.down ∧ (closeSink s i).next = s.next ∧
    (closeSink s i).subs = s.subs ∧ (closeSink s i).res = s.res ∧ (closeSink s i).now = s.now ∧
    (closeSink s i).reach = s.reach ∧ (closeSink s i).sinks.length = s.sinks.length := by
  simp [closeSink, emit, updSink]

/-! ### every task preserves the coupling -/

theorem mem_rest {t x : Task} {rest : List Task} (h : x ∈ t :: rest) (hne : x ≠ t) : x ∈ rest := by
  rcases List.mem_cons.mp h with h | h
  · exact (hne h).elim
  · exact h

theorem sleeping_rest (p : Par) (s : St) (t : Task) (rest : List Task) (le : Nat) (ld : Option Nat)
    (ht : s.tasks = t :: rest) (hne : t ≠ .resStart ∨ s.res ≠ .start) (hz : Sleeping p s le ld) (s' : St)
    (hres : s'.res = s.res) (hnow : s'.now = s.now) (htk : ∀ x, x ∈ rest → x ∈ s'.tasks) :
    Sleeping p s' le ld := by
  rcases hz with ⟨h1, h2, h3, h4⟩ | ⟨wk, w, h1, h2⟩
  · left
    have hne' : t ≠ .resStart := by
      rcases hne with h | h
      · exact h
      · exact (h h1).elim
    refine ⟨by rw [hres, h1], htk _ (mem_rest (ht ▸ h2) (Ne.symm hne')), by rw [hnow]; exact h3, h4⟩
  · right
    exact ⟨wk, w, by rw [hres, h1], by rw [hnow]; exact h2⟩

/-- a task that touches none of the fields the coupling speaks of, and is not one the current form
    waits for, leaves the coupling alone -/
theorem live_noop (p : Par) (s s' : St) (a : SS) (t : Task) (rest : List Task)
    (ht : s.tasks = t :: rest) (h : Live p s a)
    (hA : ∀ k, a.inst = some k → s.subs = [k] → t ≠ .notify k)
    (hB : t ≠ .resStart ∨ s.res ≠ .start)
    (hC : t ≠ .resume ∨ ∀ k w r, s.res = .opening k w r → r = .pending)
    (e1 : s'.down = s.down) (e2 : s'.next = s.next) (e3 : s'.subs = s.subs) (e4 : s'.res = s.res)
    (e5 : s'.now = s.now) (e6 : s'.tasks = rest) : Live p s' a := by
  have hC' : ∀ k w r, s.res = .opening k w r → r ≠ .pending → t ≠ .resume := by
    intro k w r hr hne
    rcases hC with h | h
    · exact h
    · exact (hne (h k w r hr)).elim
  have dc : DownCore s → DownCore s' := by
    intro ⟨x, y, z⟩; exact ⟨by rw [e1, x], by rw [e2, y], by rw [e3, z]⟩
  cases h with
  | up h1 h2 h3 hd hn hs hr hk hi =>
    refine .up h1 h2 h3 (by rw [e1, hd]) (by rw [e2, hn]) (by rw [e3, hs]) (by rw [e4, hr]) ?_ hi
    intro k hk'
    rw [hk k hk', ht, e6]
    constructor
    · intro hm; exact mem_rest hm (Ne.symm (hA k hk' (by rw [hs, hk']; rfl)))
    · intro hm; exact List.mem_cons_of_mem _ hm
  | upDown h1 h2 h3 h4 hc hz =>
    exact .upDown h1 h2 h3 h4 (dc hc) (e5 ▸ sleeping_rest p s t rest _ _ ht hB hz s' e4 e5 (fun x hx => e6 ▸ hx))
  | resumingR k w h1 h2 h3 h4 h5 hc hr htt =>
    refine .resumingR k w h1 h2 h3 h4 h5 (dc hc) (by rw [e4, hr]) ?_
    obtain ⟨pre, post, he, hp, hq⟩ := htt
    have hne := hC' k w .ok hr (by simp)
    cases pre with
    | nil => rw [ht] at he; simp at he; exact (hne he.1).elim
    | cons x pre' =>
      rw [ht] at he
      simp only [List.cons_append, List.cons.injEq] at he
      exact ⟨pre', post, by rw [e6, he.2], fun hm => hp (List.mem_cons_of_mem _ hm), hq⟩
  | sleeping h1 h2 h3 h4 h5 hc hz =>
    exact .sleeping h1 h2 h3 h4 h5 (dc hc) (sleeping_rest p s t rest _ _ ht hB hz s' e4 e5 (fun x hx => e6 ▸ hx))
  | failing k w h1 h2 h3 h4 h5 hc hr htt hl hw =>
    exact .failing k w h1 h2 h3 h4 h5 (dc hc) (by rw [e4, hr])
      (e6 ▸ mem_rest (ht ▸ htt) (Ne.symm (hC' k w .fail hr (by simp)))) (by rw [e5, hl]) hw
  | pending k w h1 h2 h3 h4 h5 hc hr hnk hw =>
    exact .pending k w h1 h2 h3 h4 h5 (dc hc) (by rw [e4, hr])
      (fun hm => hnk (ht ▸ List.mem_cons_of_mem _ (e6 ▸ hm))) hw
  | resuming k w h1 h2 h3 h4 h5 hc hr htt hnk =>
    exact .resuming k w h1 h2 h3 h4 h5 (dc hc) (by rw [e4, hr])
      (e6 ▸ mem_rest (ht ▸ htt) (Ne.symm (hC' k w .ok hr (by simp))))
      (fun hm => hnk (ht ▸ List.mem_cons_of_mem _ (e6 ▸ hm)))
  | resumed k h1 h2 h3 h4 h5 hd hn hs hr hnk =>
    exact .resumed k h1 h2 h3 h4 h5 (by rw [e1, hd]) (by rw [e2, hn]) (by rw [e3, hs]) (by rw [e4, hr])
      (fun hm => hnk (ht ▸ List.mem_cons_of_mem _ (e6 ▸ hm)))

theorem live_task (p : Par) (hf : Grows p) (hip : 0 < p.init) (hil : p.init ≤ p.maxW)
    (s : St) (a : SS) (t : Task) (rest : List Task) (ht : s.tasks = t :: rest)
    (hq : QInv s false) (h : Live p s a) : Live p (runTask p (pop s) t) a := by
  cases t with
  | notifyUp =>
    exact live_noop p s _ a _ rest ht h (by intros; simp) (by simp) (by simp) rfl rfl rfl rfl rfl (by simp [runTask, ht])
  | kill => exact (hq.nokill rfl (ht ▸ List.mem_cons_self)).elim
  | notify j =>
    by_cases hc : j ∈ s.subs
    · have hrun : runTask p (pop s) (.notify j) = onSinkFaulted (pop s) := by
        simp [runTask, hc]
      rw [hrun]
      cases h with
      | up h1 h2 h3 hd hn hs hr hk hi =>
        cases hin : a.inst with
        | none => rw [hs, hin] at hc; simp at hc
        | some k =>
          rw [hs, hin] at hc
          have hjk : j = k := by simpa using hc
          subst hjk
          have hraised : a.raised = true := (hk j hin).mpr (ht ▸ List.mem_cons_self)
          have hnx : s.next = some j := by rw [hn, hin]
          refine .upDown h1 h2 h3 hraised ?_ ?_
          · simp [DownCore, onSinkFaulted, hd, hnx, hs, hin, push]
          · left
            simp [onSinkFaulted, hd, hnx, push]
      | resumed k h1 h2 h3 h4 h5 hd hn hs hr hnk =>
        rw [hs] at hc
        have hjk : j = k := by simpa using hc
        subst hjk
        exact (hnk (ht ▸ List.mem_cons_self)).elim
      | upDown h1 h2 h3 h4 hc' hz => rw [hc'.2.2] at hc; simp at hc
      | resumingR k w h1 h2 h3 h4 h5 hc' hr htt => rw [hc'.2.2] at hc; simp at hc
      | sleeping h1 h2 h3 h4 h5 hc' hz => rw [hc'.2.2] at hc; simp at hc
      | failing k w h1 h2 h3 h4 h5 hc' hr htt hl hw => rw [hc'.2.2] at hc; simp at hc
      | pending k w h1 h2 h3 h4 h5 hc' hr hnk hw => rw [hc'.2.2] at hc; simp at hc
      | resuming k w h1 h2 h3 h4 h5 hc' hr htt hnk => rw [hc'.2.2] at hc; simp at hc
    · have hrun : runTask p (pop s) (.notify j) = (pop s) := by
        simp [runTask, hc]
      rw [hrun]
      refine live_noop p s _ a _ rest ht h ?_ (by simp) (by simp) rfl rfl rfl rfl rfl (by simp [runTask, ht])
      intro k _ hsk hjk
      apply hc
      simp only [Task.notify.injEq] at hjk
      rw [hsk, hjk]; simp
  | resStart =>
    by_cases hst : s.res = .start
    · have hrun : ∀ (hd : s.down = true), runTask p (pop s) .resStart =
          { s with tasks := rest, res := .sleep (s.now + p.init) p.init } := by
        intro hd; simp [runTask, hst, hd, pop, ht]
      have mk : ∀ le, le = s.now → ∀ s' : St, s'.res = .sleep (s.now + p.init) p.init → s'.now = s.now →
          Sleeping p s' le none := by
        intro le hle s' h1 h2
        right
        exact ⟨s.now + p.init, p.init, h1, by omega, hil, hip, by omega, by intro d hd; cases hd⟩
      cases h with
      | upDown h1 h2 h3 h4 hc hz =>
        rw [hrun hc.1]
        exact .upDown h1 h2 h3 h4 ⟨hc.1, hc.2.1, hc.2.2⟩ (mk _ rfl _ rfl rfl)
      | sleeping h1 h2 h3 h4 h5 hc hz =>
        rw [hrun hc.1]
        rcases hz with ⟨_, _, hle, hld⟩ | ⟨wk, w, hr, _⟩
        · exact .sleeping h1 h2 h3 h4 h5 ⟨hc.1, hc.2.1, hc.2.2⟩ (hld ▸ mk _ hle _ rfl rfl)
        · rw [hst] at hr; cases hr
      | up h1 h2 h3 hd hn hs hr hk hi => rw [hst] at hr; cases hr
      | resumingR k w h1 h2 h3 h4 h5 hc hr htt => rw [hst] at hr; cases hr
      | failing k w h1 h2 h3 h4 h5 hc hr htt hl hw => rw [hst] at hr; cases hr
      | pending k w h1 h2 h3 h4 h5 hc hr hnk hw => rw [hst] at hr; cases hr
      | resuming k w h1 h2 h3 h4 h5 hc hr htt hnk => rw [hst] at hr; cases hr
      | resumed k h1 h2 h3 h4 h5 hd hn hs hr hnk => rw [hst] at hr; cases hr
    · have hrun : runTask p (pop s) .resStart = (pop s) := by
        simp only [runTask]
        cases hr : s.res <;> simp_all
      rw [hrun]
      exact live_noop p s _ a _ rest ht h (by intros; simp) (Or.inr hst) (by simp) rfl rfl rfl rfl rfl (by simp [runTask, ht])
  | resume =>
    cases hres : s.res with
    | none =>
      have hrun : runTask p (pop s) .resume = (pop s) := by
        simp [runTask, hres]
      rw [hrun]
      exact live_noop p s _ a _ rest ht h (by intros; simp) (by simp) (Or.inr (by simp [hres])) rfl rfl rfl rfl rfl (by simp [runTask, ht])
    | start =>
      have hrun : runTask p (pop s) .resume = (pop s) := by
        simp [runTask, hres]
      rw [hrun]
      exact live_noop p s _ a _ rest ht h (by intros; simp) (by simp) (Or.inr (by simp [hres])) rfl rfl rfl rfl rfl (by simp [runTask, ht])
    | sleep wk w =>
      have hrun : runTask p (pop s) .resume = (pop s) := by
        simp [runTask, hres]
      rw [hrun]
      exact live_noop p s _ a _ rest ht h (by intros; simp) (by simp) (Or.inr (by simp [hres])) rfl rfl rfl rfl rfl (by simp [runTask, ht])
    | opening sid w r =>
      cases r with
      | none =>
        have hrun : runTask p (pop s) .resume = (pop s) := by
          simp [runTask, hres]
        rw [hrun]
        cases h with
        | up h1 h2 h3 hd hn hs hr hk hi => rw [hres] at hr; cases hr
        | upDown h1 h2 h3 h4 hc hz =>
          rcases hz with ⟨hr, _⟩ | ⟨_, _, hr, _⟩ <;> (rw [hres] at hr; cases hr)
        | sleeping h1 h2 h3 h4 h5 hc hz =>
          rcases hz with ⟨hr, _⟩ | ⟨_, _, hr, _⟩ <;> (rw [hres] at hr; cases hr)
        | resumingR k w h1 h2 h3 h4 h5 hc hr htt => rw [hres] at hr; cases hr
        | failing k w h1 h2 h3 h4 h5 hc hr htt hl hw => rw [hres] at hr; cases hr
        | pending k w h1 h2 h3 h4 h5 hc hr hnk hw => rw [hres] at hr; cases hr
        | resuming k w h1 h2 h3 h4 h5 hc hr htt hnk => rw [hres] at hr; cases hr
        | resumed k h1 h2 h3 h4 h5 hd hn hs hr hnk => rw [hres] at hr; cases hr
      | pending =>
        have hrun : runTask p (pop s) .resume = (pop s) := by
          simp [runTask, hres]
        rw [hrun]
        refine live_noop p s _ a _ rest ht h (by intros; simp) (by simp) (Or.inr ?_) rfl rfl rfl rfl rfl (by simp [runTask, ht])
        intro k w' r hr; rw [hres] at hr; cases hr; rfl
      | ok =>
        cases h with
        | resumingR k w' h1 h2 h3 h4 h5 hc hr htt =>
          rw [hres] at hr; cases hr
          have hrun : runTask p (pop s) .resume =
              { s with tasks := rest, subs := [sid], next := some sid, down := false, res := .none } := by
            simp [runTask, hres, resSuccess, hc.1, hc.2.2, pop, ht]
          rw [hrun]
          refine .up h1 h2 h3 rfl (by simp [h5]) (by simp [h5]) rfl ?_ (by simp [h5])
          intro k hk
          rw [h5] at hk; cases hk
          simp only [h4, true_iff]
          obtain ⟨pre, post, he, hp, hq'⟩ := htt
          rw [ht] at he
          cases pre with
          | nil => simp at he; rw [he]; exact hq'
          | cons x pre' =>
            simp only [List.cons_append, List.cons.injEq] at he
            rw [he.2]; simp [hq']
        | resuming k w' h1 h2 h3 h4 h5 hc hr htt hnk =>
          rw [hres] at hr; cases hr
          have hrun : runTask p (pop s) .resume =
              { s with tasks := rest, subs := [sid], next := some sid, down := false, res := .none } := by
            simp [runTask, hres, resSuccess, hc.1, hc.2.2, pop, ht]
          rw [hrun]
          exact .resumed sid h1 h2 h3 h4 h5 rfl rfl rfl rfl (fun hm => hnk (ht ▸ List.mem_cons_of_mem _ hm))
        | up h1 h2 h3 hd hn hs hr hk hi => rw [hres] at hr; cases hr
        | upDown h1 h2 h3 h4 hc hz =>
          rcases hz with ⟨hr, _⟩ | ⟨_, _, hr, _⟩ <;> (rw [hres] at hr; cases hr)
        | sleeping h1 h2 h3 h4 h5 hc hz =>
          rcases hz with ⟨hr, _⟩ | ⟨_, _, hr, _⟩ <;> (rw [hres] at hr; cases hr)
        | failing k w h1 h2 h3 h4 h5 hc hr htt hl hw => rw [hres] at hr; cases hr
        | pending k w h1 h2 h3 h4 h5 hc hr hnk hw => rw [hres] at hr; cases hr
        | resumed k h1 h2 h3 h4 h5 hd hn hs hr hnk => rw [hres] at hr; cases hr
      | fail =>
        cases h with
        | failing k w' h1 h2 h3 h4 h5 hc hr htt hl hw =>
          rw [hres] at hr; cases hr
          have hge := le_nextWait p hf w hw.1
          have hmx := nextWait_le_max p w
          have hrun : (runTask p (pop s) .resume).res =
              .sleep (s.now + nextWait p w) (nextWait p w) := by
            simp [runTask, hres, resFailure]
          refine .sleeping h1 h2 h3 h4 h5 ?_ ?_
          · simp [DownCore, runTask, hres, resFailure, hc.1, hc.2.1, hc.2.2]
          · right
            refine ⟨_, _, hrun, ?_, hmx, by omega, ?_, ?_⟩
            · simp [runTask, hres, resFailure, hl]
            · simp [runTask, hres, resFailure]; omega
            · intro d hd
              have := hw.2.2 d hd
              have hst := nextWait_strict p hf w hw.1
              refine ⟨by simp [hl], by omega, ?_⟩
              rcases hst with h | h
              · left; omega
              · right; exact h
        | up h1 h2 h3 hd hn hs hr hk hi => rw [hres] at hr; cases hr
        | upDown h1 h2 h3 h4 hc hz =>
          rcases hz with ⟨hr, _⟩ | ⟨_, _, hr, _⟩ <;> (rw [hres] at hr; cases hr)
        | sleeping h1 h2 h3 h4 h5 hc hz =>
          rcases hz with ⟨hr, _⟩ | ⟨_, _, hr, _⟩ <;> (rw [hres] at hr; cases hr)
        | resumingR k w h1 h2 h3 h4 h5 hc hr htt => rw [hres] at hr; cases hr
        | pending k w h1 h2 h3 h4 h5 hc hr hnk hw => rw [hres] at hr; cases hr
        | resuming k w h1 h2 h3 h4 h5 hc hr htt hnk => rw [hres] at hr; cases hr
        | resumed k h1 h2 h3 h4 h5 hd hn hs hr hnk => rw [hres] at hr; cases hr

/-! ### shape of a task's effects; the queue facts and the closed state are preserved -/

def benign : Ev → Bool
  | .close _ => true
  | .raised => true
  | _ => false

theorem benign_spec (ev : List Ev) (h : ∀ e ∈ ev, benign e = true) :
    firstCreate ev = none ∧ ev.any isFwd = false := by
  induction ev with
  | nil => simp [firstCreate]
  | cons e ev ih =>
    have he := h e List.mem_cons_self
    have ih' := ih (fun x hx => h x (List.mem_cons_of_mem _ hx))
    cases e <;> simp_all [benign, firstCreate, isFwd]

/-- what a task may do to the queue, the sinks and the event log -/
theorem runTask_shape (p : Par) (s : St) (t : Task) :
    (∃ extra, (runTask p s t).tasks = s.tasks ++ extra ∧ ∀ x ∈ extra, x = Task.notifyUp ∨ x = Task.resStart) ∧
    (runTask p s t).sinks.length = s.sinks.length ∧
    (∃ evx, (runTask p s t).ev = s.ev ++ evx ∧ ∀ e ∈ evx, benign e = true) ∧
    (runTask p s t).now = s.now ∧ (runTask p s t).reach = s.reach := by
  cases t with
  | notify j =>
    simp only [runTask]
    split
    · simp only [onSinkFaulted]
      split
      · exact ⟨⟨[.notifyUp], by simp [push], by simp⟩, rfl, ⟨[], by simp [push], by simp⟩, rfl, rfl⟩
      · split
        · exact ⟨⟨[], by simp [emit], by simp⟩, rfl, ⟨[.raised], by simp [emit], by simp [benign]⟩, rfl, rfl⟩
        · rename_i n _
          refine ⟨⟨[.resStart, .notifyUp], by simp [push, closeSink, emit, updSink], by simp⟩,
            by simp [push, closeSink, emit, updSink], ⟨[.close n], by simp [push, closeSink, emit, updSink], by simp [benign]⟩,
            by simp [push, closeSink, emit, updSink], by simp [push, closeSink, emit, updSink]⟩
    · exact ⟨⟨[], by simp, by simp⟩, rfl, ⟨[], by simp, by simp⟩, rfl, rfl⟩
  | notifyUp => exact ⟨⟨[], by simp [runTask], by simp⟩, rfl, ⟨[], by simp [runTask], by simp⟩, rfl, rfl⟩
  | resStart =>
    simp only [runTask]
    split
    · split <;> exact ⟨⟨[], by simp, by simp⟩, rfl, ⟨[], by simp, by simp⟩, rfl, rfl⟩
    · exact ⟨⟨[], by simp, by simp⟩, rfl, ⟨[], by simp, by simp⟩, rfl, rfl⟩
  | resume =>
    simp only [runTask]
    split
    · rename_i sid w r _
      split
      · simp only [resSuccess]
        split
        · exact ⟨⟨[], by simp, by simp⟩, rfl, ⟨[], by simp, by simp⟩, rfl, rfl⟩
        · exact ⟨⟨[], by simp [closeSink, emit, updSink], by simp⟩, by simp [closeSink, emit, updSink],
            ⟨[.close sid], by simp [closeSink, emit, updSink], by simp [benign]⟩,
            by simp [closeSink, emit, updSink], by simp [closeSink, emit, updSink]⟩
      · exact ⟨⟨[], by simp [resFailure, closeSink, emit, updSink], by simp⟩, by simp [resFailure, closeSink, emit, updSink],
            ⟨[.close sid], by simp [resFailure, closeSink, emit, updSink], by simp [benign]⟩,
            by simp [resFailure, closeSink, emit, updSink], by simp [resFailure, closeSink, emit, updSink]⟩
      · exact ⟨⟨[], by simp, by simp⟩, rfl, ⟨[], by simp, by simp⟩, rfl, rfl⟩
    · exact ⟨⟨[], by simp, by simp⟩, rfl, ⟨[], by simp, by simp⟩, rfl, rfl⟩
  | kill =>
    simp only [runTask]
    split <;> exact ⟨⟨[], by simp, by simp⟩, rfl, ⟨[], by simp, by simp⟩, rfl, rfl⟩

theorem qinv_task (p : Par) (s : St) (c : Bool) (t : Task) (rest : List Task) (ht : s.tasks = t :: rest)
    (hq : QInv s c) : QInv (runTask p (pop s) t) c := by
  obtain ⟨⟨extra, he, hx⟩, hl, _, _, _⟩ := runTask_shape p (pop s) t
  have hpt : (pop s).tasks = rest := by simp [ht]
  constructor
  · intro k hk
    rw [he, hpt] at hk
    rw [hl]
    rcases List.mem_append.mp hk with h | h
    · exact hq.bound k (ht ▸ List.mem_cons_of_mem _ h)
    · rcases hx _ h with h | h <;> cases h
  · intro hc hk
    rw [he, hpt] at hk
    rcases List.mem_append.mp hk with h | h
    · exact hq.nokill hc (ht ▸ List.mem_cons_of_mem _ h)
    · rcases hx _ h with h | h <;> cases h

theorem shut_task (p : Par) (s : St) (t : Task) (rest : List Task) (ht : s.tasks = t :: rest)
    (h : Shut s) : Shut (runTask p (pop s) t) := by
  obtain ⟨hd, hs, hns, hk⟩ := h
  have hpt : (pop s).tasks = rest := by simp [ht]
  cases t with
  | notify j => simp [runTask, hs]; exact ⟨hd, hs, hns, fun hr => by
      have := hk hr; rw [ht] at this; simpa [ht] using this⟩
  | notifyUp => simp [runTask]; exact ⟨hd, hs, hns, fun hr => by
      have := hk hr; rw [ht] at this; simpa [ht] using this⟩
  | resStart =>
    have : runTask p (pop s) .resStart = pop s := by
      simp only [runTask]
      cases hr : s.res <;> simp_all
    rw [this]
    exact ⟨hd, hs, hns, fun hr => by have := hk hr; rw [ht] at this; simpa [ht] using this⟩
  | kill =>
    simp only [runTask]
    cases hr : s.res <;> simp [Shut, hd, hs, hr]
    · exact hns hr
  | resume =>
    simp only [runTask]
    cases hr : s.res with
    | none => simp [Shut, hd, hs, hr]
    | start => exact (hns hr).elim
    | sleep wk w =>
      simp [hr]
      exact ⟨hd, hs, by simp [hr], fun _ => by have := hk (by simp [hr]); rw [ht] at this; simpa [ht] using this⟩
    | opening sid w r =>
      have hkill : Task.kill ∈ rest := by have := hk (by simp [hr]); rw [ht] at this; simpa using this
      cases r with
      | ok => simp [hr, resSuccess, hd, Shut, closeSink, emit, updSink, hs]
      | fail => simp [hr, resFailure, Shut, closeSink, emit, updSink, hs, hd, ht, hkill]
      | none => simp [hr, Shut, hd, hs, ht, hkill]
      | pending => simp [hr, Shut, hd, hs, ht, hkill]


/-! ### turns -/

theorem runN_inv (p : Par) (P : St → Prop)
    (hstep : ∀ s t rest, P s → s.tasks = t :: rest → P (runTask p (pop s) t)) :
    ∀ n s, P s → P (runN p n s) := by
  intro n
  induction n with
  | zero => intro s h; exact h
  | succ n ih =>
    intro s h
    unfold runN
    split
    · exact h
    · rename_i t rest ht
      exact ih _ (hstep s t rest h ht)

theorem runN_after (p : Par) : ∀ n s,
    (∀ x ∈ s.tasks.drop n, x = Task.notifyUp ∨ x = Task.resStart) →
    ∀ x ∈ (runN p n s).tasks, x = Task.notifyUp ∨ x = Task.resStart := by
  intro n
  induction n with
  | zero => intro s h; simpa [runN] using h
  | succ n ih =>
    intro s h
    unfold runN
    split
    · rename_i ht; intro x hx; rw [ht] at hx; cases hx
    · rename_i t rest ht
      apply ih
      obtain ⟨⟨extra, he, hx⟩, _⟩ := runTask_shape p (pop s) t
      have hpt : (pop s).tasks = rest := by simp [ht]
      intro x hxm
      rw [he, hpt, List.drop_append] at hxm
      rcases List.mem_append.mp hxm with hm | hm
      · apply h; rw [ht]; simpa using hm
      · exact hx x (List.mem_of_mem_drop hm)

theorem runTurn_after (p : Par) (s : St) :
    ∀ x ∈ (runTurn p s).tasks, x = Task.notifyUp ∨ x = Task.resStart := by
  apply runN_after
  simp

/-- a turn leaves clock, reachability and the number of sinks alone and logs only closes -/
theorem runN_env (p : Par) (n : Nat) (s : St) :
    (runN p n s).now = s.now ∧ (runN p n s).reach = s.reach ∧
    (runN p n s).sinks.length = s.sinks.length ∧
    ((∀ e ∈ s.ev, benign e = true) → ∀ e ∈ (runN p n s).ev, benign e = true) := by
  have := runN_inv p (fun s' => s'.now = s.now ∧ s'.reach = s.reach ∧ s'.sinks.length = s.sinks.length ∧
      ((∀ e ∈ s.ev, benign e = true) → ∀ e ∈ s'.ev, benign e = true))
    (by
      intro s1 t rest ⟨h1, h2, h3, h4⟩ _
      obtain ⟨_, hl, ⟨evx, he, hb⟩, hn, hr⟩ := runTask_shape p (pop s1) t
      refine ⟨by rw [hn]; simpa using h1, by rw [hr]; simpa using h2, by rw [hl]; simpa using h3, ?_⟩
      intro hs e hem
      rw [he] at hem
      rcases List.mem_append.mp hem with hm | hm
      · exact h4 hs e (by simpa using hm)
      · exact hb e hm)
    n s ⟨rfl, rfl, rfl, fun h => h⟩
  exact this


end Scales.Res
