/-
  Proofs/ServerSetRuns.lean — from single operations to operation lists (C19).
-/
import ScalesModel.Proofs.ServerSetSteps
namespace Scales.ServerSet

theorem exec_inv {cfg : Cfg} (ops : List Op) : ∀ (s : St), Inv cfg s → wfGo cfg s ops = true →
    Inv cfg (exec cfg s ops).1 ∧ altOk s.members (exec cfg s ops).2 = true ∧
    viewOf s.members (exec cfg s ops).2 = (exec cfg s ops).1.members ∧
    (exec cfg s ops).1.tree = ops.foldl specTree s.tree := by
  induction ops with
  | nil => intro s hi _; exact ⟨hi, by simp [exec, altOk], by simp [exec, viewOf], by simp [exec]⟩
  | cons op ops ih =>
    intro s hi hwf
    simp only [wfGo] at hwf
    cases hn : next cfg s op with
    | none => rw [hn] at hwf; cases hwf
    | some p =>
      obtain ⟨s', ns⟩ := p
      rw [hn] at hwf
      simp only at hwf
      obtain ⟨hinv, ha, hv, ht⟩ := next_inv hi hn
      obtain ⟨i1, i2, i3, i4⟩ := ih s' hinv hwf
      simp only [exec, hn, List.foldl_cons]
      refine ⟨i1, ?_, ?_, ?_⟩
      · rw [altOk_append, ha, hv, i2]; rfl
      · rw [viewOf_append, hv, i3]
      · rw [i4, ht]

theorem exec_append (cfg : Cfg) (a b : List Op) : ∀ (s : St),
    exec cfg s (a ++ b) =
      ((exec cfg (exec cfg s a).1 b).1, (exec cfg s a).2 ++ (exec cfg (exec cfg s a).1 b).2) := by
  induction a with
  | nil => intro s; simp [exec]
  | cons op a ih =>
    intro s
    simp only [List.cons_append, exec]
    cases hn : next cfg s op with
    | none => simp only; exact ih s
    | some p => simp only [ih p.1, List.append_assoc]

theorem wfGo_append (cfg : Cfg) (a b : List Op) : ∀ (s : St), wfGo cfg s (a ++ b) = true →
    wfGo cfg s a = true ∧ wfGo cfg (exec cfg s a).1 b = true := by
  induction a with
  | nil => intro s h; exact ⟨rfl, by simpa [exec] using h⟩
  | cons op a ih =>
    intro s h
    simp only [List.cons_append, wfGo] at h
    cases hn : next cfg s op with
    | none => rw [hn] at h; cases h
    | some p =>
      rw [hn] at h
      simp only at h
      obtain ⟨h1, h2⟩ := ih p.1 h
      simp only [wfGo, exec, hn, h1, true_and]
      exact h2

/-! ### facts about the fold of notifications -/

theorem mem_applyNote {v : List Nat} {e : Note} {n : Nat} :
    n ∈ applyNote v e ↔ (e.1 = true ∧ (n ∈ v ∨ n = e.2)) ∨ (e.1 = false ∧ n ∈ v ∧ n ≠ e.2) := by
  unfold applyNote
  cases h : e.1 <;> simp [List.mem_filter]

/-- a name enters the view only through a join -/
theorem mem_viewOf_join (ns : List Note) : ∀ (v : List Nat) (n : Nat), n ∈ viewOf v ns →
    n ∈ v ∨ (true, n) ∈ ns := by
  induction ns with
  | nil => intro v n h; exact Or.inl h
  | cons e es ih =>
    intro v n h
    simp only [viewOf, List.foldl_cons] at h
    rcases ih (applyNote v e) n h with h1 | h1
    · rw [mem_applyNote] at h1
      rcases h1 with ⟨he, h2 | h2⟩ | ⟨_, h2, _⟩
      · exact Or.inl h2
      · right
        have : e = (true, n) := by cases e; simp_all
        rw [this]; exact List.mem_cons_self
      · exact Or.inl h2
    · exact Or.inr (List.mem_cons_of_mem _ h1)

/-- a name held by the view stays unless a leave for it follows -/
theorem mem_viewOf_stays (ns : List Note) : ∀ (v : List Nat) (n : Nat), n ∈ v → (false, n) ∉ ns →
    n ∈ viewOf v ns := by
  induction ns with
  | nil => intro v n h _; exact h
  | cons e es ih =>
    intro v n h hno
    simp only [viewOf, List.foldl_cons]
    apply ih
    · rw [mem_applyNote]
      cases he : e.1 with
      | true => exact Or.inl ⟨rfl, Or.inl h⟩
      | false =>
        refine Or.inr ⟨rfl, h, ?_⟩
        intro hn
        apply hno
        have : e = (false, n) := by cases e; simp_all
        rw [this]; exact List.mem_cons_self
    · intro hh; exact hno (List.mem_cons_of_mem _ hh)

theorem firstBad_none {v : List Nat} {ns : List Note} (h : altOk v ns = true) : firstBad v ns = none := by
  induction ns generalizing v with
  | nil => rfl
  | cons e es ih =>
    simp only [altOk, Bool.and_eq_true] at h
    simp only [firstBad, h.1, if_true]
    exact ih h.2

theorem firstNotIn_none {a b : List Nat} (h : ∀ n ∈ a, n ∈ b) : firstNotIn a b = none := by
  simp only [firstNotIn, List.find?_eq_none]
  intro x hx
  simp [h x hx]

theorem viewVerdict_ok {idx : Nat} {view present : List Nat} (h : ∀ n, n ∈ view ↔ n ∈ present) :
    viewVerdict idx view present = .ok := by
  simp only [viewVerdict, firstNotIn_none (fun n hn => (h n).mpr hn),
    firstNotIn_none (fun n hn => (h n).mp hn)]

theorem sameSet_of_iff {a b : List Nat} (h : ∀ n, n ∈ a ↔ n ∈ b) : sameSet a b = true := by
  simp only [sameSet, Bool.and_eq_true, List.all_eq_true, List.contains_iff_mem]
  exact ⟨fun x hx => (h x).mp hx, fun x hx => (h x).mpr hx⟩

/- `spec_trace` (the model's history satisfies the executable specification) is in
   Proofs/ServerSetKeys.lean: it needs the Member-equality invariant as well. -/

end Scales.ServerSet
