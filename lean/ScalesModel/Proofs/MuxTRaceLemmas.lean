/-
  Proofs/MuxTRaceLemmas.lean — an event of the environment that lands in the middle of a drain of
  the ThriftMux transport (`St.race`): whatever the position, an enabled race is "some frames are
  dispatched (possibly none), then one `_Shutdown`"; and the `_OpenImpl` greenlet that a frame woke
  resumes on a transport that has been shut down, and leaves it closed (repair F16).
-/
import ScalesModel.Proofs.MuxTLemmas
set_option linter.unusedSimpArgs false
set_option linter.unusedVariables false
namespace Scales.MuxT
open Scales.Transport

/-- what running `_ProcessReply` greenlets — short of resuming `_OpenImpl` — leaves alone -/
structure Keeps (s t : St) : Prop where
  cstate : t.cstate = s.cstate
  rl : t.rl = s.rl
  sl : t.sl = s.sl
  openRes : t.openRes = s.openRes
  hasOpenResult : t.hasOpenResult = s.hasOpenResult
  pingLoop : t.pingLoop = s.pingLoop

theorem Keeps.refl (s : St) : Keeps s s := ⟨rfl, rfl, rfl, rfl, rfl, rfl⟩

theorem Keeps.trans {s t u : St} (h1 : Keeps s t) (h2 : Keeps t u) : Keeps s u :=
  ⟨h2.cstate.trans h1.cstate, h2.rl.trans h1.rl, h2.sl.trans h1.sl, h2.openRes.trans h1.openRes,
   h2.hasOpenResult.trans h1.hasOpenResult, h2.pingLoop.trans h1.pingLoop⟩

theorem processQ_keeps (s : St) (f : Frame) : Keeps s (s.processQ f).1 := by
  simp only [St.processQ]
  by_cases hw : s.wakes f = true
  · simp only [hw, if_true]; exact ⟨rfl, rfl, rfl, rfl, rfl, rfl⟩
  · simp only [hw]
    cases f with
    | junk => exact Keeps.refl s
    | rping =>
      simp only [St.wakes, decide_true, Bool.true_and, Bool.and_eq_true, not_and, Bool.not_eq_true] at hw
      simp only [St.process]
      by_cases hp : s.pingWait = true
      · simp only [hp, if_true, hw hp]
        exact ⟨rfl, rfl, rfl, rfl, rfl, rfl⟩
      · simp only [hp]; exact Keeps.refl s
    | reply tag =>
      simp only [St.process]
      cases hl : s.tagMap.lookup tag with
      | some id => exact ⟨rfl, rfl, rfl, rfl, rfl, rfl⟩
      | none => exact Keeps.refl s

theorem dispatchQGo_keeps : ∀ (fs : List Frame) (s : St) (w : Bool), Keeps s (dispatchQGo fs s w).1 := by
  intro fs
  induction fs with
  | nil => intro s w; exact Keeps.refl s
  | cons f fs ih =>
    intro s w
    simp only [dispatchQGo]
    exact (processQ_keeps s f).trans (ih _ _)

theorem processQ_facts (s : St) (f : Frame) (ht : (s.tagMap.map (·.1)).Nodup)
    (hi : (s.tagMap.map (·.2)).Nodup) : DispFacts s (s.processQ f).1 (s.processQ f).2.dels := by
  simp only [St.processQ]
  by_cases hw : s.wakes f = true
  · simp only [hw, if_true]
    exact ⟨fun ab => by simp [settle], List.Sublist.refl _, List.Sublist.refl _⟩
  · simp only [hw]
    exact process_facts s f ht hi

theorem dispatchQGo_facts : ∀ (fs : List Frame) (s : St) (w : Bool), (s.tagMap.map (·.1)).Nodup →
    (s.tagMap.map (·.2)).Nodup → DispFacts s (dispatchQGo fs s w).1 (dispatchQGo fs s w).2.1 := by
  intro fs
  induction fs with
  | nil => intro s w _ _; exact ⟨fun ab => by simp [dispatchQGo, settle], List.Sublist.refl _, List.Sublist.refl _⟩
  | cons f fs ih =>
    intro s w ht hi
    have F1 := processQ_facts s f ht hi
    have F2 := ih (s.processQ f).1 (w || s.wakes f) (List.Nodup.sublist (List.Sublist.map _ F1.tmSub) ht)
      (List.Nodup.sublist (List.Sublist.map _ F1.tmSub) hi)
    simp only [dispatchQGo]
    refine ⟨fun ab => ?_, F2.tmSub.trans F1.tmSub, F2.qSub.trans F1.qSub⟩
    rw [settle_append _ _ _ _ _ _ (F1.settle ab)]
    exact F2.settle ab

/-- what `_ProcessReply` greenlets hand out are replies -/
theorem process_stream (s : St) (f : Frame) : ∀ p ∈ (s.process f).2.dels, p.2 = Resp.stream := by
  cases f with
  | junk => simp [St.process]
  | rping =>
    simp only [St.process]
    split
    · split <;> simp
    · simp
  | reply tag =>
    simp only [St.process]
    cases hl : s.tagMap.lookup tag with
    | some id => simp
    | none => simp

theorem processQ_stream (s : St) (f : Frame) : ∀ p ∈ (s.processQ f).2.dels, p.2 = Resp.stream := by
  simp only [St.processQ]
  split
  · simp
  · exact process_stream s f

theorem dispatchQGo_stream : ∀ (fs : List Frame) (s : St) (w : Bool),
    ∀ p ∈ (dispatchQGo fs s w).2.1, p.2 = Resp.stream := by
  intro fs
  induction fs with
  | nil => intro s w p hp; simp [dispatchQGo] at hp
  | cons f fs ih =>
    intro s w p hp
    simp only [dispatchQGo, List.mem_append] at hp
    rcases hp with hp | hp
    · exact processQ_stream s f p hp
    · exact ih _ _ p hp

/-- every request that was owed a response and is not owed one any more was handed one -/
theorem settle_covers : ∀ (d : List (Nat × Resp)) (owed ab owed' ab' : List Nat),
    settle owed ab d = .ok (owed', ab') → ∀ id ∈ owed, id ∈ owed' ∨ d.any (fun x => x.1 == id) = true := by
  intro d
  induction d with
  | nil =>
    intro owed ab owed' ab' h id hid
    simp only [settle, Except.ok.injEq, Prod.mk.injEq] at h
    exact Or.inl (h.1 ▸ hid)
  | cons p rest ih =>
    intro owed ab owed' ab' h id hid
    obtain ⟨i, r⟩ := p
    by_cases e : i = id
    · subst e; exact Or.inr (by simp)
    · simp only [settle] at h
      split at h
      · have hmem : id ∈ owed.erase i := (List.mem_erase_of_ne (Ne.symm e)).mpr hid
        rcases ih _ _ _ _ h id hmem with h1 | h1
        · exact Or.inl h1
        · exact Or.inr (by simp [h1])
      · split at h
        · rcases ih _ _ _ _ h id hid with h1 | h1
          · exact Or.inl h1
          · exact Or.inr (by simp [h1])
        · cases h

/-- the hypothesis `hitOk` in the form the proofs use it -/
theorem hitOk_wr (s : St) (rs : List (IOOut × Frame)) (pos : Pos) (x : Hit) (hok : hitOk s rs pos x = true) :
    x = .wr → ∃ it, s.sl = .writing it := by
  intro e; subst e
  simp only [hitOk] at hok
  cases hsl : s.sl with
  | writing it => exact ⟨it, rfl⟩
  | dead => simp [hsl] at hok
  | waitQ => simp [hsl] at hok

theorem effApp_nil_right (e : Eff) : effApp e {} = e := by
  cases e; simp [effApp]

theorem effApp_nil_left (e : Eff) : effApp {} e = e := by
  cases e; simp [effApp]

theorem shutdown_pending_nil (s : St) (b : Bool) (p : List Frame) :
    ({ (({ s with pending := p } : St).shutdown b).1 with pending := [] } : St) =
      (({ s with pending := [] } : St).shutdown b).1 := by
  by_cases hc : s.cstate = .closed
  · have h1 : ({ s with pending := p } : St).cstate = .closed := hc
    have h2 : ({ s with pending := [] } : St).cstate = .closed := hc
    rw [shutdown_closed _ b h1, shutdown_closed _ b h2]
  · have h1 : ({ s with pending := p } : St).cstate ≠ .closed := hc
    have h2 : ({ s with pending := [] } : St).cstate ≠ .closed := hc
    rw [shutdown_eq _ b h1, shutdown_eq _ b h2]

theorem shutdown_pending_eff (s : St) (b : Bool) (p : List Frame) :
    (({ s with pending := p } : St).shutdown b).2 = (({ s with pending := [] } : St).shutdown b).2 := by
  by_cases hc : s.cstate = .closed
  · have h1 : ({ s with pending := p } : St).cstate = .closed := hc
    have h2 : ({ s with pending := [] } : St).cstate = .closed := hc
    rw [shutdown_closed _ b h1, shutdown_closed _ b h2]
  · have h1 : ({ s with pending := p } : St).cstate ≠ .closed := hc
    have h2 : ({ s with pending := [] } : St).cstate ≠ .closed := hc
    rw [shutdown_eq _ b h1, shutdown_eq _ b h2]

/-- the `_ProcessReply` greenlets of frames read before a `_Shutdown` that has run meanwhile are
    dropped -/
theorem dispatch_after_shutdown (s : St) (b : Bool) (hinv : Inv0 s) (hc : s.cstate ≠ .closed) :
    (s.shutdown b).1.dispatch = ((({ s with pending := [] } : St).shutdown b).1, []) := by
  have hc2 : ({ s with pending := [] } : St).cstate ≠ .closed := hc
  simp only [St.dispatch]
  rw [shutdown_eq s b hc, shutdown_eq _ b hc2]
  simp only
  rw [dispatchGo_closed _ _ (by simp [Inv0]) rfl]

theorem dispatchQ_after_shutdown (s : St) (b : Bool) (hinv : Inv0 s) (hc : s.cstate ≠ .closed) :
    (s.shutdown b).1.dispatchQ = ((({ s with pending := [] } : St).shutdown b).1, [], false) := by
  have hc2 : ({ s with pending := [] } : St).cstate ≠ .closed := hc
  simp only [St.dispatchQ]
  rw [shutdown_eq s b hc, shutdown_eq _ b hc2]
  simp only
  rw [dispatchQGo_closed _ _ _ (by simp [Inv0]) rfl]

theorem shutdown_eff (s : St) (b : Bool) (hc : s.cstate ≠ .closed) :
    (s.shutdown b).2 = { faults := if b then 1 else 0, dels := s.tagMap.map (fun p => (p.2, Resp.cerr)) } := by
  rw [shutdown_eq s b hc]

/-- a connection failure inside a race makes the race one that `raceFails` -/
theorem connFailure_raceFails (s : St) (rs : List (IOOut × Frame)) (pos : Pos) (x : Hit)
    (hf : connFailure s (.race rs pos x) = true) : raceFails rs pos x = true := by
  cases x <;> cases pos <;> simp_all [connFailure, raceFails, Hit.isFault, hitOk]

/-- **shape of an enabled race.**  There are a state `s1` — the transport after the reads of the
    race and, at position `mid` when they all succeed, after the `_ProcessReply` greenlets of their
    frames — and the responses `d` those greenlets delivered, such that the race is `d` followed by
    one `_Shutdown` of `s1` (with the fault signal iff the race contains a connection failure).
    Whatever `_OpenImpl` does when it resumes afterwards leaves that closed transport alone. -/
theorem race_shape (s : St) (rs : List (IOOut × Frame)) (pos : Pos) (x : Hit) (hinv : Inv0 s)
    (hrl : s.rl ≠ .dead) (hok : hitOk s rs pos x = true) :
    ∃ (s1 : St) (d : List (Nat × Resp)),
      s.race rs pos x = ((s1.shutdown (raceFails rs pos x)).1,
        { eff := { faults := if raceFails rs pos x then 1 else 0,
                   dels := d ++ s1.tagMap.map (fun p => (p.2, Resp.cerr)) } }) ∧
      Inv0 s1 ∧ s1.pending = [] ∧ s1.cstate = s.cstate ∧ s1.openRes = s.openRes ∧
      ((s.tagMap.map (·.1)).Nodup → (s.tagMap.map (·.2)).Nodup → DispFacts s s1 d) ∧
      (connFailure s (.race rs pos x) = true → d = [] ∧ s1.tagMap = s.tagMap) ∧
      (∀ p ∈ d, p.2 = Resp.stream) := by
  have hc : s.cstate ≠ .closed := fun e => hrl (hinv.1 e).2.1
  have hw := hitOk_wr s rs pos x hok
  have trivialFacts : ∀ (r : RL), (s.tagMap.map (·.1)).Nodup → (s.tagMap.map (·.2)).Nodup →
      DispFacts s ({ s with rl := r, pending := [] } : St) [] :=
    fun r _ _ => ⟨fun ab => by simp [settle], List.Sublist.refl _, List.Sublist.refl _⟩
  cases pos with
  | first =>
    -- the event first: a `_Shutdown`; the reads find no receive loop
    have hb : raceFails rs .first x = x.isFault := by cases x <;> simp [raceFails, Hit.isFault]
    refine ⟨{ s with rl := s.rl, pending := [] }, [], ?_, inv0_rl s s.rl [] hinv hc, rfl, rfl, rfl,
      trivialFacts s.rl, fun _ => ⟨rfl, rfl⟩, by simp⟩
    have hc2 : ({ s with rl := s.rl, pending := [] } : St).cstate ≠ .closed := hc
    have hdead : (s.shutdown x.isFault).1.rl = .dead := by rw [shutdown_eq s _ hc]
    simp only [St.race, hit_eq s x hrl hw, St.burst, rdMany_dead rs _ hdead, hb]
    rw [dispatch_after_shutdown s _ hinv hc, shutdown_eff s _ hc, shutdown_eq _ _ hc2]
    simp [effApp]
  | pre =>
    by_cases hex : ∃ r ∈ rs, r.1 ≠ IOOut.ok
    · -- a read fails: `_Shutdown`; the event finds no loop; the frames are dropped
      obtain ⟨r', p', h1, h2⟩ := rdMany_fault rs s hrl hc hex
      have hany : rs.any (fun r => decide (r.1 ≠ IOOut.ok)) = true := by
        obtain ⟨r, hr, hne⟩ := hex
        exact List.any_eq_true.mpr ⟨r, hr, by simpa using hne⟩
      have hb : raceFails rs .pre x = true := by
        cases x <;> simp only [raceFails, hany] <;> first | rfl | decide
      have hi1 : Inv0 ({ s with rl := r', pending := p' } : St) := inv0_rl s r' p' hinv hc
      have hc1 : ({ s with rl := r', pending := p' } : St).cstate ≠ .closed := hc
      have hc2 : ({ s with rl := r', pending := [] } : St).cstate ≠ .closed := hc
      refine ⟨{ s with rl := r', pending := [] }, [], ?_, inv0_rl s r' [] hinv hc, rfl, rfl, rfl,
        trivialFacts r', fun _ => ⟨rfl, rfl⟩, by simp⟩
      have hcl : (({ s with rl := r', pending := p' } : St).shutdown true).1.cstate = .closed := by
        rw [shutdown_eq _ _ hc1]
      simp only [St.race, h2, hb]
      rw [hit_closed _ x (inv0_shutdown _ true hi1) hcl, dispatch_after_shutdown _ _ hi1 hc1,
        shutdown_eff _ _ hc1, shutdown_eq _ _ hc2]
      simp [effApp]
    · -- the reads succeed, the event is a `_Shutdown`, the frames are dropped
      have hall : ∀ r ∈ rs, r.1 = IOOut.ok :=
        fun r hr => Decidable.byContradiction (fun hne => hex ⟨r, hr, hne⟩)
      obtain ⟨r', p', h1, h2⟩ := rdMany_ok rs s hrl hall
      have hany : rs.any (fun r => decide (r.1 ≠ IOOut.ok)) = false := by
        simp only [List.any_eq_false]; intro r hr; simp [hall r hr]
      have hb : raceFails rs .pre x = x.isFault := by
        cases x <;> simp only [raceFails, Hit.isFault, hany] <;> first | rfl | decide
      have hi1 : Inv0 ({ s with rl := r', pending := p' } : St) := inv0_rl s r' p' hinv hc
      have hc1 : ({ s with rl := r', pending := p' } : St).cstate ≠ .closed := hc
      have hc2 : ({ s with rl := r', pending := [] } : St).cstate ≠ .closed := hc
      refine ⟨{ s with rl := r', pending := [] }, [], ?_, inv0_rl s r' [] hinv hc, rfl, rfl, rfl,
        trivialFacts r', fun _ => ⟨rfl, rfl⟩, by simp⟩
      simp only [St.race, h2, hb]
      rw [hit_eq ({ s with rl := r', pending := p' } : St) x h1 hw, dispatch_after_shutdown _ _ hi1 hc1, shutdown_eff _ _ hc1,
        shutdown_eq _ _ hc2]
      simp [effApp]
  | mid =>
    by_cases hex : ∃ r ∈ rs, r.1 ≠ IOOut.ok
    · obtain ⟨r', p', h1, h2⟩ := rdMany_fault rs s hrl hc hex
      have hany : rs.any (fun r => decide (r.1 ≠ IOOut.ok)) = true := by
        obtain ⟨r, hr, hne⟩ := hex
        exact List.any_eq_true.mpr ⟨r, hr, by simpa using hne⟩
      have hb : raceFails rs .mid x = true := by
        cases x <;> simp only [raceFails, hany] <;> first | rfl | decide
      have hi1 : Inv0 ({ s with rl := r', pending := p' } : St) := inv0_rl s r' p' hinv hc
      have hc1 : ({ s with rl := r', pending := p' } : St).cstate ≠ .closed := hc
      have hc2 : ({ s with rl := r', pending := [] } : St).cstate ≠ .closed := hc
      refine ⟨{ s with rl := r', pending := [] }, [], ?_, inv0_rl s r' [] hinv hc, rfl, rfl, rfl,
        trivialFacts r', fun _ => ⟨rfl, rfl⟩, by simp⟩
      have hi2 : Inv0 (({ s with rl := r', pending := [] } : St).shutdown true).1 :=
        inv0_shutdown _ true (inv0_rl s r' [] hinv hc)
      have hcl : (({ s with rl := r', pending := [] } : St).shutdown true).1.cstate = .closed := by
        rw [shutdown_eq _ _ hc2]
      simp only [St.race, h2, hb]
      rw [dispatchQ_after_shutdown _ _ hi1 hc1]
      simp only [St.resumeIf]
      rw [hit_closed _ x hi2 hcl, shutdown_eff _ _ hc1, shutdown_eq _ _ hc2]
      simp [effApp]
    · -- the reads succeed, their frames are dispatched, then the event: a `_Shutdown`; the
      -- `_OpenImpl` greenlet, if the handshake's Rping was among the frames, resumes on a closed
      -- transport
      have hall : ∀ r ∈ rs, r.1 = IOOut.ok :=
        fun r hr => Decidable.byContradiction (fun hne => hex ⟨r, hr, hne⟩)
      obtain ⟨r', p', h1, h2⟩ := rdMany_ok rs s hrl hall
      have hany : rs.any (fun r => decide (r.1 ≠ IOOut.ok)) = false := by
        simp only [List.any_eq_false]; intro r hr; simp [hall r hr]
      have hb : raceFails rs .mid x = x.isFault := by
        cases x <;> simp only [raceFails, Hit.isFault, hany] <;> first | rfl | decide
      have hnf : connFailure s (.race rs .mid x) = false := by simp only [connFailure, hany]; simp
      let s0 : St := { s with rl := r', pending := [] }
      have hK := dispatchQGo_keeps p' s0 false
      have hP := dispatchQGo_pending p' s0 false
      have hI := inv0_dispatchQGo p' s0 false (inv0_rl s r' [] hinv hc)
      have hF := fun ht hi => dispatchQGo_facts p' s0 false ht hi
      have hS := dispatchQGo_stream p' s0 false
      have hdq : ({ s with rl := r', pending := p' } : St).dispatchQ = dispatchQGo p' s0 false := rfl
      generalize dispatchQGo p' s0 false = r at hK hP hI hF hS hdq
      obtain ⟨s2, d2, w⟩ := r
      simp only at hK hP hI hF hS
      have hc2 : s2.cstate ≠ .closed := by rw [hK.cstate]; exact hc
      have hrl2 : s2.rl ≠ .dead := by rw [hK.rl]; exact h1
      have hw2 : x = .wr → ∃ it, s2.sl = .writing it := by
        intro e; obtain ⟨it, hsl⟩ := hw e; exact ⟨it, by rw [hK.sl]; exact hsl⟩
      refine ⟨s2, d2, ?_, hI, hP, hK.cstate, hK.openRes,
        fun ht hi => ⟨(hF ht hi).settle, (hF ht hi).tmSub, (hF ht hi).qSub⟩,
        (fun hf => by rw [hnf] at hf; cases hf), hS⟩
      simp only [St.race, h2, hdq, hb]
      rw [hit_eq s2 x hrl2 hw2, shutdown_eff _ _ hc2]
      have hcl : (s2.shutdown x.isFault).1.cstate = .closed := by rw [shutdown_eq _ _ hc2]
      have hres : (s2.shutdown x.isFault).1.resumeIf w = (s2.shutdown x.isFault).1 := by
        cases w
        · rfl
        · simp [St.resumeIf, St.resumeOpen, hcl]
      rw [hres]
      simp [effApp]

end Scales.MuxT
