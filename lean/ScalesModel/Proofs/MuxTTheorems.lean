/-
  Proofs/MuxTTheorems.lean — proofs of the C08 property theorems of the ThriftMux transport, in the
  namespace of its model; Props/C08.lean restates them in one namespace.
-/
import ScalesModel.Proofs.MuxTSpecLemmas
set_option linter.unusedSimpArgs false
set_option linter.unusedVariables false

namespace Scales.MuxT
open Scales.Transport

/-- the invariant holds in every state the model can reach, whatever the operations -/
theorem inv_reachable (ops : List Op) : Inv (runOps St.init ops) := by
  have : ∀ s, Inv s → Inv (runOps s ops) := by
    induction ops with
    | nil => intro s h; exact h
    | cons op ops ih => intro s h; exact ih _ (inv_step s op h)
  exact this _ inv_init

/-- on a connection failure (refused connect, write error, read error or end-of-stream in a
    header or a body, ping silence) every request in the tag map — queued, being written or
    awaiting its reply — is handed exactly one `ClientError`, in tag-map order, nothing else is
    handed out, and the tag map and the send queue are empty afterwards. -/
theorem shutdown_fails_all_once (s : St) (op : Op) (hinv : Inv s)
    (hf : connFailure s op = true) :
    (stepOut s op).2.eff.dels = s.tagMap.map (fun p => (p.2, Resp.cerr)) ∧
    (stepOut s op).1.tagMap = [] ∧ (stepOut s op).1.sendQ = [] := by
  obtain ⟨hc, s1, hc1, ht1, h1, _, h3⟩ := failure_is_shutdown s op hinv.1 hf
  have hc1' : s1.cstate ≠ .closed := by rw [hc1]; exact hc
  rw [h1, h3, shutdown_eq s1 true hc1', ht1]
  exact ⟨rfl, rfl, rfl⟩

/-- after a connection failure the transport reports `closed`, the fault signal was raised
    exactly once, both loops, the ping loop and the ping helper are gone, and an open that was
    still pending has failed. -/
theorem closed_and_signalled (s : St) (op : Op) (hinv : Inv s)
    (hf : connFailure s op = true) :
    (stepOut s op).1.cstate = .closed ∧ (stepOut s op).2.eff.faults = 1 ∧
    (stepOut s op).1.sl = .dead ∧ (stepOut s op).1.rl = .dead ∧
    (stepOut s op).1.pingLoop = false ∧ (stepOut s op).1.pingWait = false ∧
    (stepOut s op).1.openRes ≠ .pending := by
  obtain ⟨hc, s1, hc1, ht1, h1, h2, _⟩ := failure_is_shutdown s op hinv.1 hf
  have hc1' : s1.cstate ≠ .closed := by rw [hc1]; exact hc
  rw [h1, h2, shutdown_eq s1 true hc1']
  refine ⟨rfl, rfl, rfl, rfl, rfl, rfl, ?_⟩
  simp only
  split <;> simp_all

/-- a peer that stops answering pings: five seconds after a ping was queued without an Rping
    arriving, every request in flight is failed exactly once with `ClientError`, the transport
    reports `closed` and the fault signal is raised (once).  A ping is outstanding only on a
    transport that is not closed, so this applies whenever the helper is waiting. -/
theorem ping_silence (s : St) (hinv : Inv s) (hpw : s.pingWait = true) :
    s.cstate ≠ .closed ∧
    (stepOut s .pingSilence).2.eff.dels = s.tagMap.map (fun p => (p.2, Resp.cerr)) ∧
    (stepOut s .pingSilence).1.tagMap = [] ∧
    (stepOut s .pingSilence).1.cstate = .closed ∧
    (stepOut s .pingSilence).2.eff.faults = 1 := by
  have hf : connFailure s .pingSilence = true := by simpa [connFailure] using hpw
  have h1 := shutdown_fails_all_once s .pingSilence hinv hf
  have h2 := closed_and_signalled s .pingSilence hinv hf
  exact ⟨(failure_is_shutdown s _ hinv.1 hf).1, h1.1, h1.2.1, h2.1, h2.2.1⟩

/-- the ping loop of an open transport arms the helper: when its sleep ends and no ping is
    outstanding, a ping is queued for transmission and the helper waits for the Rping. -/
theorem ping_due_arms_helper (s : St) (hop : s.cstate = .opened) (hl : s.pingLoop = true)
    (hw : s.pingWait = false) :
    (stepOut s .pingDue).1.pingWait = true ∧ Item.ping ∈ qItems (stepOut s .pingDue).1 := by
  simp only [stepOut, St.pingDue, hop, hl, hw]
  simp only [Bool.not_false, Bool.and_self, decide_true, if_true, pump_pingWait, qItems_pump]
  simp [qItems]

/-- a transport that reports `open` carries the next request: it is not answered on the spot,
    it is entered in the tag map and its frame is queued for transmission; and every successful
    write call of the send loop puts exactly the frame it was given on the wire and moves on to
    the next queued frame. -/
theorem open_carries (s : St) (id tag : Nat) (hop : s.cstate = .opened)
    (hno : s.opening = false) :
    (s.request id tag).2.eff.dels = [] ∧ (tag, id) ∈ (s.request id tag).1.tagMap ∧
    Item.req tag id ∈ qItems (s.request id tag).1 ∧ (s.request id tag).1.cstate = .opened ∧
    (∀ (s' : St) (it : Item), s'.sl = .writing it → (s'.wr .ok).2.sent = [it] ∧ qItems (s'.wr .ok).1 = s'.sendQ) := by
  simp only [St.request, hop, hno]
  simp only [Bool.false_eq_true, if_false, if_true, pump_tagMap, pump_cstate, qItems_pump]
  refine ⟨trivial, by simp, by simp [qItems], trivial, ?_⟩
  intro s' it hsl
  simp only [St.wr, hsl, qItems_pump]
  simp [qItems]

/-- **C08, ThriftMux transport, specification level.** -/
theorem model_satisfies_spec (ops : List Op) (h : comp.wf () ops = true) :
    comp.spec () (comp.modelTrace () ops) = .ok :=
  spec_of_rel ops St.init {} [] rel_init h

/-- over a whole history no request is ever handed more than one response -/
theorem responses_at_most_once (ops : List Op) (h : comp.wf () ops = true) (id : Nat) :
    responsesTo id (comp.modelTrace () ops) ≤ 1 := by
  have h1 := spec_count id _ {} (model_satisfies_spec ops h)
  have h2 := issued_le id ops St.init [] h
  simp at h1 h2
  exact Nat.le_trans h1 h2

/-- a `_ProcessReply` greenlet that was spawned before `_Shutdown` and runs after it (the frame
    had been read, the next read failed before the receive loop yielded) finds an empty tag
    map and no outstanding ping: whatever the frames, nothing is handed to any request and
    the closed transport does not change -/
theorem reply_after_shutdown_dropped (s : St) (fs : List Frame) (hinv : Inv0 s)
    (hc : s.cstate = .closed) : dispatchGo fs s = (s, []) :=
  dispatchGo_closed fs s hinv hc

/-- a frame and a failing read right behind it, without a yield in between: the `_Shutdown`
    comes first, every request in the tag map is handed exactly one `ClientError` — also the
    one whose reply had already been read — and the reply read before the failure is handed to
    nobody; no `_ProcessReply` greenlet is left behind -/
theorem burst_fault_once (s : St) (rs : List (IOOut × Frame)) (hinv : Inv s) (hrl : s.rl ≠ .dead)
    (hex : ∃ r ∈ rs, r.1 ≠ IOOut.ok) :
    (stepOut s (.burst rs)).2.eff.dels = s.tagMap.map (fun p => (p.2, Resp.cerr)) ∧
    (stepOut s (.burst rs)).2.eff.faults = 1 ∧
    (stepOut s (.burst rs)).1.cstate = .closed ∧ (stepOut s (.burst rs)).1.tagMap = [] ∧
    (stepOut s (.burst rs)).1.pending = [] := by
  have hf : connFailure s (.burst rs) = true := by
    obtain ⟨r, hr, hne⟩ := hex
    simp only [connFailure, Bool.and_eq_true, decide_eq_true_eq, List.any_eq_true]
    exact ⟨by simpa using hrl, r, hr, by simpa using hne⟩
  have h1 := shutdown_fails_all_once s _ hinv hf
  have h2 := closed_and_signalled s _ hinv hf
  exact ⟨h1.1, h2.2.1, h2.1, h1.2.1, step_pending s _ hinv.2⟩

theorem runOps_append (s : St) (pre post : List Op) :
    runOps s (pre ++ post) = runOps (runOps s pre) post := by
  simp [runOps, List.foldl_append]

theorem trace_append : ∀ (pre : List Op) (s : St) (post : List Op),
    comp.trace () s (pre ++ post) = comp.trace () s pre ++ comp.trace () (runOps s pre) post := by
  intro pre
  induction pre with
  | nil => intro s post; rfl
  | cons op pre ih =>
    intro s post
    simp only [List.cons_append, TComp.trace, comp, step]
    have := ih (stepOut s op).1 post
    simp only [comp] at this
    rw [this]
    rfl

theorem responsesTo_append (id : Nat) (h1 h2 : List (Op × Obs)) :
    responsesTo id (h1 ++ h2) = responsesTo id h1 + responsesTo id h2 := by
  simp [responsesTo]

/-- **exactly once, over whole histories.**  Whatever happened before and whatever happens
    afterwards: a request that is in flight when the connection fails (refused connect, write
    error, read error or end-of-stream — alone or right behind frames that were read but not yet
    dispatched —, ping silence) is handed a `ClientError` in that very operation, and that is the
    only response it is handed in the whole history. -/
theorem inflight_failed_exactly_once (pre : List Op) (op : Op) (post : List Op)
    (h : comp.wf () (pre ++ op :: post) = true)
    (hf : connFailure (runOps St.init pre) op = true) (tag id : Nat)
    (hin : (tag, id) ∈ (runOps St.init pre).tagMap) :
    (id, Resp.cerr) ∈ (stepOut (runOps St.init pre) op).2.eff.dels ∧
    responsesTo id (comp.modelTrace () (pre ++ op :: post)) = 1 := by
  have hd := (shutdown_fails_all_once _ op (inv_reachable pre) hf).1
  have hmem : (id, Resp.cerr) ∈ (stepOut (runOps St.init pre) op).2.eff.dels := by
    rw [hd]; exact List.mem_map.mpr ⟨(tag, id), hin, rfl⟩
  refine ⟨hmem, ?_⟩
  have hle := responses_at_most_once _ h id
  have hge : 1 ≤ responsesTo id (comp.modelTrace () (pre ++ op :: post)) := by
    have hpos : 0 < (stepOut (runOps St.init pre) op).2.eff.dels.countP (fun d => d.1 == id) :=
      List.countP_pos_iff.mpr ⟨_, hmem, by simp⟩
    have htr : comp.modelTrace () (pre ++ op :: post) =
        comp.trace () St.init pre ++ comp.trace () (runOps St.init pre) (op :: post) :=
      trace_append pre St.init (op :: post)
    rw [htr, responsesTo_append]
    have : responsesTo id (comp.trace () (runOps St.init pre) (op :: post)) =
        (stepOut (runOps St.init pre) op).2.eff.dels.countP (fun d => d.1 == id) +
          responsesTo id (comp.trace () (stepOut (runOps St.init pre) op).1 post) := by
      simp [TComp.trace, comp, step, responsesTo, obsOf]
    omega
  omega

end Scales.MuxT

