/-
  Proofs/ProxyLemmas.lean — helper lemmas for C20, component `proxy`.
-/
import ScalesModel.Adapter.Proxy
namespace Scales.Proxy

theorem dget_dset (k k' : Name) (v : Gen) (t : Table) :
    dget k (dset k' v t) = if k' = k then some v else dget k t := by
  induction t with
  | nil => by_cases h : k' = k <;> simp [dset, dget, h]
  | cons e rest ih =>
    obtain ⟨ke, ve⟩ := e
    by_cases h1 : ke = k'
    · subst h1
      by_cases h2 : ke = k <;> simp [dset, dget, h2]
    · by_cases h2 : k' = k
      · subst h2; simp [dset, dget, h1, ih]
      · simp [dset, dget, h1, h2, ih]

theorem dget_dupdate_none (k : Name) (kvs : List (Name × Gen)) :
    ∀ t : Table, (∀ kv ∈ kvs, kv.1 ≠ k) → dget k (dupdate t kvs) = dget k t := by
  induction kvs with
  | nil => intro t _; rfl
  | cons kv rest ih =>
    intro t h
    simp only [dupdate, List.foldl_cons]
    have := ih (dset kv.1 kv.2 t) (fun x hx => h x (List.mem_cons_of_mem _ hx))
    simp only [dupdate] at this
    rw [this, dget_dset]
    simp [h kv List.mem_cons_self]

theorem dget_dupdate_some (k : Name) (v : Gen) (kvs : List (Name × Gen)) :
    ∀ t : Table, (∀ kv ∈ kvs, kv.1 = k → kv.2 = v) → (∃ kv ∈ kvs, kv.1 = k) →
      dget k (dupdate t kvs) = some v := by
  induction kvs with
  | nil => intro t _ h; obtain ⟨_, h, _⟩ := h; cases h
  | cons kv rest ih =>
    intro t hall hex
    simp only [dupdate, List.foldl_cons]
    by_cases hr : ∃ x ∈ rest, x.1 = k
    · have := ih (dset kv.1 kv.2 t) (fun x hx => hall x (List.mem_cons_of_mem _ hx)) hr
      simpa [dupdate] using this
    · have hne : ∀ x ∈ rest, x.1 ≠ k := fun x hx hk => hr ⟨x, hx, hk⟩
      have := dget_dupdate_none k rest (dset kv.1 kv.2 t) hne
      simp only [dupdate] at this
      rw [this, dget_dset]
      obtain ⟨x, hx, hk⟩ := hex
      rcases List.mem_cons.mp hx with rfl | hx'
      · simp [hk, hall x List.mem_cons_self hk]
      · exact absurd hk (hne x hx')

theorem dget_dupdate_origin (k : Name) (v : Gen) (kvs : List (Name × Gen)) :
    ∀ t : Table, dget k (dupdate t kvs) = some v → (k, v) ∈ kvs ∨ dget k t = some v := by
  induction kvs with
  | nil => intro t h; exact Or.inr h
  | cons kv rest ih =>
    intro t h
    simp only [dupdate, List.foldl_cons] at h
    rcases ih (dset kv.1 kv.2 t) (by simpa [dupdate] using h) with h1 | h1
    · exact Or.inl (List.mem_cons_of_mem _ h1)
    · rw [dget_dset] at h1
      split at h1
      · rename_i hk
        left
        simp only [Option.some.injEq] at h1
        rw [← hk, ← h1]
        exact List.mem_cons_self
      · exact Or.inr h1

theorem dget_syncs (k : Name) (ms : List Name) :
    dget k (ms.map (fun m => (m, (Form.sync, m)))) = if k ∈ ms then some (Form.sync, k) else none := by
  induction ms with
  | nil => simp [dget]
  | cons m rest ih =>
    simp only [List.map_cons, dget, ih, List.mem_cons]
    by_cases h : m = k
    · subst h; simp
    · have h' : ¬ k = m := fun hh => h hh.symm
      simp [h, h']

theorem asyncBase_some (us : List Name) (attr m : Name) (h : asyncBase us attr = some m) :
    m ∈ us ∧ m ++ asyncSuffix = attr := by
  unfold asyncBase at h
  have h1 := List.mem_of_find?_eq_some h
  have h2 := List.find?_some h
  exact ⟨h1, by simpa using h2⟩

theorem asyncBase_none (us : List Name) (attr : Name) (h : asyncBase us attr = none) :
    ∀ m ∈ us, m ++ asyncSuffix ≠ attr := by
  unfold asyncBase at h
  rw [List.find?_eq_none] at h
  intro m hm
  simpa using h m hm

/-- the blocking form of `m` is generated unless `m` is some other method's `_async` name -/
theorem table_sync (us : List Name) (m : Name) (hm : m ∈ us)
    (hnc : ∀ m' ∈ us, m' ++ asyncSuffix ≠ m) : dget m (table us) = some (.sync, m) := by
  unfold table
  rw [dget_dupdate_none, dget_syncs]
  · simp [hm]
  · intro kv hkv
    simp only [List.mem_map] at hkv
    obtain ⟨m', hm', rfl⟩ := hkv
    exact hnc m' hm'

/-- the `_async` form of every user method is generated -/
theorem table_async (us : List Name) (m : Name) (hm : m ∈ us) :
    dget (m ++ asyncSuffix) (table us) = some (.async, m) := by
  unfold table
  apply dget_dupdate_some
  · intro kv hkv hk
    simp only [List.mem_map] at hkv
    obtain ⟨m', _, rfl⟩ := hkv
    simp only at hk
    have : m' = m := List.append_cancel_right hk
    subst this; rfl
  · exact ⟨(m ++ asyncSuffix, (.async, m)), by simp only [List.mem_map]; exact ⟨m, hm, rfl⟩, rfl⟩

/-- nothing else is generated -/
theorem table_origin (us : List Name) (n : Name) (g : Gen) (h : dget n (table us) = some g) :
    g.2 ∈ us ∧ ((g.1 = .sync ∧ n = g.2) ∨ (g.1 = .async ∧ n = g.2 ++ asyncSuffix)) := by
  unfold table at h
  rcases dget_dupdate_origin n g _ _ h with h1 | h1
  · simp only [List.mem_map] at h1
    obtain ⟨m, hm, heq⟩ := h1
    simp only [Prod.mk.injEq] at heq
    obtain ⟨rfl, rfl⟩ := heq
    exact ⟨hm, Or.inr ⟨rfl, rfl⟩⟩
  · rw [dget_syncs] at h1
    split at h1
    · rename_i hn
      simp only [Option.some.injEq] at h1
      subst h1
      exact ⟨hn, Or.inl ⟨rfl, rfl⟩⟩
    · cases h1

theorem Verdict_and_ok (v : Verdict) (f : Unit → Verdict) (h1 : v = .ok) (h2 : f () = .ok) :
    v.and f = .ok := by
  subst h1; exact h2

theorem specObs_model (cfg : Cfg) (op : Op) (hop : opOk (userMethods cfg.classes) op = true)
    (idx : Nat) : specObs cfg idx op (step cfg () op).2 = .ok := by
  cases op with
  | count => rfl
  | call attr args kwargs late out =>
    simp only [specObs]
    simp only [opOk, Bool.not_eq_true', Bool.and_eq_false_iff] at hop
    by_cases hc : (userMethods cfg.classes).contains attr = true
    · have hmem : attr ∈ userMethods cfg.classes := by simpa using hc
      have hnone : asyncBase (userMethods cfg.classes) attr = none := by
        rcases hop with h | h
        · rw [hc] at h; cases h
        · simpa using h
      have ht := table_sync _ attr hmem (asyncBase_none _ _ hnone)
      simp [hmem, step, ht, callGen, isBlockingForm]
    · simp only [hc, Bool.false_eq_true, if_false]
      cases hb : asyncBase (userMethods cfg.classes) attr with
      | none => rfl
      | some m =>
        obtain ⟨hm, rfl⟩ := asyncBase_some _ _ _ hb
        have ht := table_async _ m hm
        simp [step, ht, callGen, isAsyncForm]

theorem specGo_model (cfg : Cfg) :
    ∀ (ops : List Op) (idx : Nat), ops.all (opOk (userMethods cfg.classes)) = true →
      specGo cfg idx (comp.trace cfg () ops) = .ok := by
  intro ops
  induction ops with
  | nil => intros; rfl
  | cons op ops ih =>
    intro idx h
    simp only [List.all_cons, Bool.and_eq_true] at h
    simp only [TComp.trace, comp, specGo]
    apply Verdict_and_ok
    · exact specObs_model cfg op h.1 idx
    · exact ih (idx + 1) h.2

end Scales.Proxy
