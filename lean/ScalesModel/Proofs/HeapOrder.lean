import ScalesModel.Proofs.HeapBasic

/-! Pure heap-order lemmas on valuations `f : position → load`. -/
namespace Scales.Heap

def Ord (f : Nat → Int) (n : Nat) : Prop := ∀ k, 2 ≤ k → k ≤ n → f (k / 2) ≤ f k

/-- every parent/child pair is ordered except (parent of x, x) -/
def OrdExUp (f : Nat → Int) (n x : Nat) : Prop := ∀ k, 2 ≤ k → k ≤ n → k ≠ x → f (k / 2) ≤ f k

/-- every parent/child pair is ordered except (x, children of x) -/
def OrdExDown (f : Nat → Int) (n x : Nat) : Prop := ∀ k, 2 ≤ k → k ≤ n → k / 2 ≠ x → f (k / 2) ≤ f k

/-- the children of x are not smaller than the parent of x -/
def GP (f : Nat → Int) (n x : Nat) : Prop := ∀ c, c ≤ n → c / 2 = x → 2 ≤ x → f (x / 2) ≤ f c

/-- every pair not involving x is ordered -/
def OrdHole (f : Nat → Int) (n x : Nat) : Prop :=
  ∀ k, 2 ≤ k → k ≤ n → k ≠ x → k / 2 ≠ x → f (k / 2) ≤ f k

def fsw (f : Nat → Int) (i j : Nat) : Nat → Int :=
  fun k => if k = j then f i else if k = i then f j else f k

theorem Ord_to_up (f : Nat → Int) (n x : Nat) (h : Ord f n) : OrdExUp f n x ∧ GP f n x := by
  refine ⟨fun k h1 h2 _ => h k h1 h2, ?_⟩
  intro c hc hcx hx
  have a := h c (by omega) hc
  have b := h x hx (by omega)
  rw [hcx] at a; omega

theorem Ord_to_down (f : Nat → Int) (n x : Nat) (h : Ord f n) : OrdExDown f n x ∧ GP f n x :=
  ⟨fun k h1 h2 _ => h k h1 h2, (Ord_to_up f n x h).2⟩

theorem Ord_mono (f : Nat → Int) (n m : Nat) (h : Ord f n) (hm : m ≤ n) : Ord f m :=
  fun k h1 h2 => h k h1 (by omega)

theorem up_done (f : Nat → Int) (n i : Nat) (h : ¬ (1 < i ∧ f i < f (i / 2))) (hO : OrdExUp f n i) :
    Ord f n := by
  intro k hk2 hkn
  by_cases hk : k = i
  · subst hk
    have : ¬ (f k < f (k / 2)) := fun hc => h ⟨by omega, hc⟩
    omega
  · exact hO k hk2 hkn hk

theorem up_step (f : Nat → Int) (n i : Nat) (hi : 1 < i) (hlt : f i < f (i / 2)) (hin : i ≤ n)
    (hO : OrdExUp f n i) (hG : GP f n i) :
    OrdExUp (fsw f i (i / 2)) n (i / 2) ∧ GP (fsw f i (i / 2)) n (i / 2) := by
  constructor
  · intro k hk2 hkn hkne
    unfold fsw
    by_cases h1 : k = i
    · subst h1
      have e1 : ¬ (k = k / 2) := by omega
      have e2 : ¬ (k / 2 = k) := by omega
      simp [e1]; omega
    · by_cases h2 : k / 2 = i
      · have hg := hG k hkn h2 (by omega)
        have e1 : ¬ (i = i / 2) := by omega
        simp [h1, hkne, h2, e1]; exact hg
      · by_cases h3 : k / 2 = i / 2
        · have := hO k hk2 hkn h1
          simp [h1, hkne, h3]
          rw [h3] at this; omega
        · have := hO k hk2 hkn h1
          simp [h1, h2, h3, hkne]; exact this
  · intro c hcn hc hx2
    unfold fsw
    have e1 : ¬ (i / 2 / 2 = i / 2) := by omega
    have e2 : ¬ (i / 2 / 2 = i) := by omega
    simp only [e1, e2, if_false]
    by_cases h1 : c = i
    · subst h1
      have e3 : ¬ (c = c / 2) := by omega
      simp only [e3, if_false, if_true]
      exact hO (c / 2) (by omega) (by omega) (by omega)
    · have hc2 : ¬ c = i / 2 := by omega
      simp only [h1, hc2, if_false]
      have a := hO c (by omega) hcn h1
      have b := hO (i / 2) (by omega) (by omega) (by omega)
      rw [hc] at a; omega

/-- the smaller child as `FixDown` picks it -/
def pick (f : Nat → Int) (i j : Nat) : Nat := if j = 2 * i ∨ f (2 * i) ≤ f (2 * i + 1) then 2 * i else 2 * i + 1

theorem down_done (f : Nat → Int) (n i : Nat) (hi : 1 ≤ i)
    (h : ¬ (2 * i ≤ n) ∨ ¬ (f (pick f i n) < f i)) (hO : OrdExDown f n i) : Ord f n := by
  intro k hk2 hkn
  by_cases hk : k / 2 = i
  · rcases h with h | h
    · omega
    · unfold pick at h
      by_cases hc : n = 2 * i ∨ f (2 * i) ≤ f (2 * i + 1)
      · simp only [hc, if_true] at h
        rw [hk]
        have : k = 2 * i ∨ k = 2 * i + 1 := by omega
        rcases this with e | e
        · subst e; omega
        · rcases hc with hc | hc
          · omega
          · subst e; omega
      · simp only [hc, if_false] at h
        rw [hk]
        have : k = 2 * i ∨ k = 2 * i + 1 := by omega
        push Not at hc
        rcases this with e | e
        · subst e; omega
        · subst e; omega
  · exact hO k hk2 hkn hk

theorem down_step (f : Nat → Int) (n i : Nat) (hi : 1 ≤ i) (h2 : 2 * i ≤ n)
    (hlt : f (pick f i n) < f i) (hO : OrdExDown f n i) (hG : GP f n i) :
    OrdExDown (fsw f i (pick f i n)) n (pick f i n) ∧ GP (fsw f i (pick f i n)) n (pick f i n) := by
  have hm : pick f i n = 2 * i ∨ pick f i n = 2 * i + 1 := by unfold pick; split <;> simp
  have hmn : pick f i n ≤ n := by
    unfold pick; split
    · omega
    · rename_i hc; push Not at hc; omega
  have hm2 : pick f i n / 2 = i := by omega
  -- value at the picked child is the minimum of the children
  have hmin : ∀ c, c ≤ n → c / 2 = i → 2 ≤ c → f (pick f i n) ≤ f c := by
    intro c hc hci hc2
    have : c = 2 * i ∨ c = 2 * i + 1 := by omega
    unfold pick
    by_cases hcond : n = 2 * i ∨ f (2 * i) ≤ f (2 * i + 1)
    · simp only [hcond, if_true]
      rcases this with e | e
      · subst e; omega
      · rcases hcond with hcond | hcond
        · omega
        · subst e; exact hcond
    · simp only [hcond, if_false]
      push Not at hcond
      rcases this with e | e
      · subst e; omega
      · subst e; omega
  set m := pick f i n with hmdef
  constructor
  · intro k hk2 hkn hkne
    unfold fsw
    by_cases h1 : k / 2 = i
    · -- k is a child of i (k ≠ ... ) : parent now holds f m
      have hki : ¬ k = i := by omega
      have e1 : ¬ (i = m) := by omega
      by_cases hkm : k = m
      · subst hkm; omega
      · simp only [h1, e1, hkm, hki, if_false, if_true]
        exact hmin k hkn h1 hk2
    · by_cases hki : k = i
      · -- pair (parent of i, i): i now holds f m ≥ parent by GP
        subst hki
        have e1 : ¬ (k = m) := by omega
        have e2 : ¬ (k / 2 = m) := by omega
        have e3 : ¬ (k / 2 = k) := by omega
        simp only [e1, e2, e3, if_false, if_true]
        exact hG m hmn hm2 hk2
      · have e1 : ¬ k / 2 = m := hkne
        by_cases hkm : k = m
        · omega
        · simp only [hkm, hki, e1, h1, if_false]
          exact hO k hk2 hkn h1
  · intro c hcn hc hx2
    unfold fsw
    -- parent of m is i, which now holds old f m; children of m were ≥ f m
    have e1 : ¬ (m / 2 = m) := by omega
    have e2 : ¬ (c = m) := by omega
    have e3 : ¬ (c = i) := by omega
    simp only [hm2, e2, e3, if_false, if_true]
    have e4 : ¬ (i = m) := by omega
    simp only [e4, if_false, if_true]
    have := hO c (by omega) hcn (by omega)
    rw [hc] at this; exact this

end Scales.Heap
