/-
  Proofs/ThriftSharedLemmas.lean — helper lemmas for the second C14 component (several calls
  open at once behind one serializer): Model/ThriftShared.lean, Adapter/ThriftShared.lean.
-/
import ScalesModel.Adapter.ThriftShared
import ScalesModel.Proofs.ThriftCodecLemmas
namespace Scales.ThriftShared
open Scales.ThriftCodec

/-! ### the read path: `readMsg` is `clientOutcome` without the decision -/

theorem clientOutcome_readMsg (sig : Sig) (ps : List Bytes) :
    clientOutcome sig ps = (match readMsg ps with
      | .msg m => decide_ sig m
      | .eof => .err true .eof
      | .bad o => o) := by
  unfold clientOutcome readMsg
  cases readAll 4 ps with
  | ok hdr rest =>
    simp only
    cases readAll (toSigned 4 (fromBE hdr)).toNat rest with
    | ok payload rest2 =>
      simp only
      cases decMsg payload <;> rfl
    | eof => rfl
    | fuel => rfl
  | eof => rfl
  | fuel => rfl

/-- what `readMsg` computes, written on the concatenated stream -/
def streamMsg (s : Bytes) : Rd :=
  if s.length < 4 then .eof
  else
    let sz := (toSigned 4 (fromBE (s.take 4))).toNat
    if (s.drop 4).length < sz then .eof
    else match decMsg ((s.drop 4).take sz) with
      | some m => .msg m
      | none => .bad (.err true .decode)

theorem readMsg_eq_stream (ps : List Bytes) (hne : ∀ p ∈ ps, p ≠ []) :
    readMsg ps = streamMsg ps.flatten := by
  obtain ⟨h1, h2⟩ := readAll_spec 4 ps hne
  by_cases hlen : ps.flatten.length < 4
  · simp only [readMsg, streamMsg, h2 hlen, if_pos hlen]
  · obtain ⟨rest, hr, hflat, hne'⟩ := h1 (by omega)
    obtain ⟨g1, g2⟩ := readAll_spec (toSigned 4 (fromBE (ps.flatten.take 4))).toNat rest hne'
    rw [hflat] at g1 g2
    by_cases hl2 : (ps.flatten.drop 4).length < (toSigned 4 (fromBE (ps.flatten.take 4))).toNat
    · simp only [readMsg, streamMsg, hr, g2 hl2, if_neg hlen, if_pos hl2]
    · obtain ⟨rest2, hr2, _, _⟩ := g1 (by omega)
      simp only [readMsg, streamMsg, hr, hr2, if_neg hlen, if_neg hl2]
      cases decMsg (List.take (toSigned 4 (fromBE (List.take 4 ps.flatten))).toNat (List.drop 4 ps.flatten)) <;> rfl

/-- a complete reply frame (followed by anything) is read as the message the server wrote -/
theorem streamMsg_full (name : Bytes) (r : Reply) (extra : Bytes) (hn : name.length < 2147483648)
    (h : replyWf r = true) (hl : (encMsg (replyMsg name r)).length < 2147483648) :
    streamMsg (replyBytes name r ++ extra) = .msg (replyMsg name r) := by
  obtain ⟨ht, hd, hlen, hsz⟩ := frame_prefix _ hl
  unfold streamMsg replyBytes
  have hlen4 : ¬ ((frame (encMsg (replyMsg name r)) ++ extra).length < 4) := by
    rw [List.length_append, hlen]; omega
  have htake : (frame (encMsg (replyMsg name r)) ++ extra).take 4
      = (frame (encMsg (replyMsg name r))).take 4 := by
    rw [List.take_append]
    have : 4 - (frame (encMsg (replyMsg name r))).length = 0 := by omega
    simp [this]
  have hdrop : (frame (encMsg (replyMsg name r)) ++ extra).drop 4
      = encMsg (replyMsg name r) ++ extra := by
    rw [List.drop_append, hd]
    have : 4 - (frame (encMsg (replyMsg name r))).length = 0 := by omega
    simp [this]
  simp only [hlen4, if_false, htake, hsz, hdrop, Int.toNat_natCast]
  have hnl : ¬ ((encMsg (replyMsg name r) ++ extra).length < (encMsg (replyMsg name r)).length) := by
    simp
  simp only [hnl, if_false, List.take_left']
  rw [decMsg_replyMsg name r hn h]

/-- a reply frame cut short: the reader runs out of bytes -/
theorem streamMsg_trunc (payload : Bytes) (k : Nat) (hl : payload.length < 2147483648)
    (hk : k < (frame payload).length) :
    streamMsg ((frame payload).take k) = .eof := by
  obtain ⟨ht, hd, hlen, hsz⟩ := frame_prefix _ hl
  unfold streamMsg
  have hkl : ((frame payload).take k).length = k := by
    rw [List.length_take]; omega
  by_cases h4 : k < 4
  · rw [if_pos (by omega)]
  · have h4' : ¬ (((frame payload).take k).length < 4) := by omega
    simp only [h4', if_false]
    have htt : ((frame payload).take k).take 4 = (frame payload).take 4 := by
      rw [List.take_take]
      have : min 4 k = 4 := by omega
      rw [this]
    rw [htt, hsz, Int.toNat_natCast]
    have hlt : (((frame payload).take k).drop 4).length < payload.length := by
      simp only [List.length_drop, hkl]; omega
    rw [if_pos hlt]

/-! ### the interface: the reply names its result class -/

theorem findSig_name (sigs : List Sig) (name : Bytes) (sig : Sig) (h : findSig sigs name = some sig) :
    sig.name = name := by
  induction sigs with
  | nil => simp [findSig] at h
  | cons s rest ih =>
    simp only [findSig] at h
    by_cases hs : s.name = name
    · simp only [hs, if_true, Option.some.injEq] at h
      rw [← h]; exact hs
    · simp only [hs, if_false] at h
      exact ih h

/-- with distinct method names, looking a method's own name up finds that method -/
theorem findSig_of_index : ∀ (sigs : List Sig) (m : Nat) (sig : Sig),
    distinctNames sigs = true → sigs[m]? = some sig → findSig sigs sig.name = some sig
  | [], m, sig, _, h => by simp at h
  | s :: rest, 0, sig, _, h => by
    simp only [List.getElem?_cons_zero, Option.some.injEq] at h
    subst h
    simp [findSig]
  | s :: rest, m + 1, sig, hd, h => by
    simp only [List.getElem?_cons_succ] at h
    simp only [distinctNames, Bool.and_eq_true, List.all_eq_true, decide_eq_true_eq] at hd
    have hmem : sig ∈ rest := List.mem_of_getElem? h
    have hne : s.name ≠ sig.name := fun e => hd.1 sig hmem e.symm
    simp only [findSig, hne, if_false]
    exact findSig_of_index rest m sig hd.2 h

theorem decideI_of_findSig (sigs : List Sig) (m : Msg) (sig : Sig)
    (h : findSig sigs m.name = some sig) : decideI sigs m = decide_ sig m := by
  unfold decideI decide_
  by_cases hx : m.mtype = mtException
  · simp [hx]
  · simp [hx, h]

theorem replyMsg_name (name : Bytes) (r : Reply) : (replyMsg name r).name = name := by
  cases r <;> rfl

/-- the reply the server wrote for a method of the interface is decided with that method's
    result class -/
theorem decideI_replyMsg (sigs : List Sig) (m : Nat) (sig : Sig) (r : Reply)
    (hd : distinctNames sigs = true) (hm : sigs[m]? = some sig) :
    decideI sigs (replyMsg sig.name r) = expected sig r := by
  have hf : findSig sigs (replyMsg sig.name r).name = some sig := by
    rw [replyMsg_name]; exact findSig_of_index sigs m sig hd hm
  rw [decideI_of_findSig sigs _ sig hf]
  exact decide_replyMsg sig r

/-! ### the outcome of one call as a function of its own bytes -/

/-- the whole reply frame was delivered (followed by anything): the caller has `expected` -/
theorem sharedOutcome_full (sigs : List Sig) (m : Nat) (sig : Sig) (r : Reply) (ps : List Bytes)
    (extra : Bytes) (closed : Bool)
    (hd : distinctNames sigs = true) (hm : sigs[m]? = some sig)
    (hne : ∀ p ∈ ps, p ≠ []) (hflat : ps.flatten = replyBytes sig.name r ++ extra)
    (hn : sig.name.length < 2147483648) (hw : replyWf r = true)
    (hl : (encMsg (replyMsg sig.name r)).length < 2147483648) :
    sharedOutcome sigs ps closed = some (expected sig r) := by
  unfold sharedOutcome
  rw [readMsg_eq_stream ps hne, hflat, streamMsg_full sig.name r extra hn hw hl]
  simp only [decideI_replyMsg sigs m sig r hd hm]

/-- part of the frame was delivered: pending while the connection is up, EOFError once the
    server has closed it -/
theorem sharedOutcome_trunc (sigs : List Sig) (payload : Bytes) (k : Nat) (ps : List Bytes)
    (closed : Bool) (hne : ∀ p ∈ ps, p ≠ []) (hl : payload.length < 2147483648)
    (hk : k < (frame payload).length) (hflat : ps.flatten = (frame payload).take k) :
    sharedOutcome sigs ps closed = if closed then some (.err true .eof) else none := by
  unfold sharedOutcome
  rw [readMsg_eq_stream ps hne, hflat, streamMsg_trunc payload k hl hk]

/-- the pieces of a call: what the sizes asked for cut out of the frame -/
theorem sharedOutcome_splitBy (sigs : List Sig) (m : Nat) (sig : Sig) (r : Reply) (sizes : List Nat)
    (closed : Bool) (hd : distinctNames sigs = true) (hm : sigs[m]? = some sig)
    (hn : sig.name.length < 2147483648) (hw : replyWf r = true)
    (hl : (encMsg (replyMsg sig.name r)).length < 2147483648) :
    sharedOutcome sigs (splitBy sizes (replyBytes sig.name r)) closed =
      if (replyBytes sig.name r).length ≤ listSum sizes ∨ closed = true then
        some (clientOutcome sig (splitBy sizes (replyBytes sig.name r)))
      else none := by
  have hne := splitBy_nonempty sizes (replyBytes sig.name r)
  by_cases hcov : (replyBytes sig.name r).length ≤ listSum sizes
  · have hflat : (splitBy sizes (replyBytes sig.name r)).flatten = replyBytes sig.name r ++ [] := by
      rw [splitBy_flatten_full _ _ hcov]; simp
    rw [sharedOutcome_full sigs m sig r _ [] closed hd hm hne hflat hn hw hl]
    have hc : clientOutcome sig (splitBy sizes (replyBytes sig.name r)) = expected sig r := by
      rw [clientOutcome_eq_stream sig _ hne, hflat]
      exact streamOutcome_full sig r [] hn hw hl
    simp [hcov, hc]
  · have hflat : (splitBy sizes (replyBytes sig.name r)).flatten
        = (frame (encMsg (replyMsg sig.name r))).take (listSum sizes) := by
      rw [splitBy_flatten]; rfl
    have hk : listSum sizes < (frame (encMsg (replyMsg sig.name r))).length := by
      have : (replyBytes sig.name r).length = (frame (encMsg (replyMsg sig.name r))).length := rfl
      omega
    rw [sharedOutcome_trunc sigs _ _ _ closed hne hl hk hflat]
    have hc : clientOutcome sig (splitBy sizes (replyBytes sig.name r)) = .err true .eof := by
      rw [clientOutcome_eq_stream sig _ hne, hflat]
      exact streamOutcome_trunc sig _ _ hl hk
    cases closed <;> simp [hcov, hc]

/-! ### a step of one call reads and writes the record of that call only -/

theorem set_same (s : St) (k : Nat) (v : Option Call) : (s.set k v) k = v := by
  simp [St.set]

theorem set_other (s : St) (k j : Nat) (v : Option Call) (h : j ≠ k) : (s.set k v) j = s j := by
  simp [St.set, h]

theorem comp_trace_eq (cfg : Cfg) : ∀ (s : St) (ops : List Op), comp.trace cfg s ops = run cfg s ops
  | _, [] => rfl
  | s, op :: ops => by
    show (op, (step cfg s op).2) :: comp.trace cfg (step cfg s op).1 ops = _
    rw [comp_trace_eq cfg _ ops]; rfl

/-- non-interference: the history of the operations of call `k` inside any interleaving is the
    history of those operations run alone, from any state that agrees on the record of `k` -/
theorem run_filter (cfg : Cfg) (k : Nat) : ∀ (ops : List Op) (s s' : St), s k = s' k →
    (run cfg s ops).filter (fun p => decide (p.1.id = k))
      = run cfg s' (ops.filter (fun op => decide (op.id = k)))
  | [], _, _, _ => rfl
  | op :: ops, s, s', h => by
    by_cases hk : op.id = k
    · have hobs : (step cfg s op).2 = (step cfg s' op).2 := by
        simp only [step, hk, h]
      have hst : (step cfg s op).1 k = (step cfg s' op).1 k := by
        simp only [step, hk, h, set_same]
      simp only [run, List.filter_cons, hk, decide_true, if_true]
      rw [run_filter cfg k ops _ _ hst, hobs]
    · have hst : (step cfg s op).1 k = s' k := by
        simp only [step]
        rw [set_other _ _ _ _ (fun e => hk e.symm)]
        exact h
      simp only [run, List.filter_cons, hk, decide_false]
      exact run_filter cfg k ops _ _ hst

/-! ### one call run alone -/

theorem feed_open (cl : Call) (n : Nat) (h : cl.closed = false) :
    cl.feed n = { cl with sizes := cl.sizes ++ [n] } := by
  simp [Call.feed, h]

/-- a run of deliveries to call `k`: the last observation is the outcome for all the sizes -/
theorem run_chunks_last (cfg : Cfg) (k : Nat) : ∀ (sizes : List Nat) (s : St) (cl : Call),
    s k = some cl → cl.closed = false → sizes ≠ [] →
    ∃ n, (run cfg s (sizes.map (.chunk k))).getLast?
      = some (.chunk k n, .out (({ cl with sizes := cl.sizes ++ sizes } : Call).outcome cfg))
  | [], _, _, _, _, h => absurd rfl h
  | n :: rest, s, cl, hs, hc, _ => by
    have hobs : (step cfg s (.chunk k n)).2 = .out ((cl.feed n).outcome cfg) := by
      simp [step, Op.id, hs, obsOf]
    have hst : (step cfg s (.chunk k n)).1 k = some (cl.feed n) := by
      simp [step, Op.id, hs, book, set_same]
    by_cases hr : rest = []
    · subst hr
      refine ⟨n, ?_⟩
      simp only [List.map, run, List.getLast?_singleton, hobs, feed_open cl n hc]
    · have hc' : (cl.feed n).closed = false := by rw [feed_open cl n hc]; exact hc
      obtain ⟨n', hn'⟩ := run_chunks_last cfg k rest _ (cl.feed n) hst hc' hr
      refine ⟨n', ?_⟩
      have hne : run cfg (step cfg s (.chunk k n)).1 (rest.map (.chunk k)) ≠ [] := by
        intro e; rw [e] at hn'; simp at hn'
      simp only [List.map, run]
      rw [List.getLast?_cons_of_ne_nil hne, hn', feed_open cl n hc]
      simp [List.append_assoc]

/-- the state after a list of operations -/
def exec (cfg : Cfg) : St → List Op → St
  | s, [] => s
  | s, op :: ops => exec cfg (step cfg s op).1 ops

theorem run_append (cfg : Cfg) : ∀ (a b : List Op) (s : St),
    run cfg s (a ++ b) = run cfg s a ++ run cfg (exec cfg s a) b
  | [], _, _ => rfl
  | op :: a, b, s => by
    simp only [List.cons_append, run, exec, run_append cfg a b]

theorem exec_chunks (cfg : Cfg) (k : Nat) : ∀ (sizes : List Nat) (s : St) (cl : Call),
    s k = some cl → cl.closed = false →
    (exec cfg s (sizes.map (.chunk k))) k = some { cl with sizes := cl.sizes ++ sizes }
  | [], s, cl, hs, _ => by
    cases cl; simpa [exec] using hs
  | n :: rest, s, cl, hs, hc => by
    have hst : (step cfg s (.chunk k n)).1 k = some (cl.feed n) := by
      simp [step, Op.id, hs, book, set_same]
    have hc' : (cl.feed n).closed = false := by rw [feed_open cl n hc]; exact hc
    simp only [List.map, exec]
    rw [exec_chunks cfg k rest _ (cl.feed n) hst hc', feed_open cl n hc]
    simp [List.append_assoc]

/-- the first two steps of a call run alone: sent, answered -/
theorem run_alone_prefix (cfg : Cfg) (k m c : Nat) (args : TFields) (r : Reply) (sig : Sig)
    (hm : cfg[m]? = some sig) (tail : List Op) :
    ∃ o1 o2 s2, run cfg St.init (.call k m c args :: .answer k r :: tail)
        = (.call k m c args, o1) :: (.answer k r, o2) :: run cfg s2 tail ∧
      s2 k = some ⟨m, c, some r, (replyBytes sig.name r).length, [], false⟩ := by
  refine ⟨_, _, _, rfl, ?_⟩
  simp [step, Op.id, St.init, obsOf, book, set_same, hm]

/-! ### the model's observations satisfy the executable specification -/

/-- what is known about an answered call in a reachable state -/
def Inv (cfg : Cfg) (s : St) : Prop :=
  ∀ k cl r, s k = some cl → cl.reply = some r →
    ∃ sig, cfg[cl.m]? = some sig ∧ cl.flen = (replyBytes sig.name r).length ∧
      replyWf r = true ∧ (encMsg (replyMsg sig.name r)).length < 2147483648

theorem inv_init (cfg : Cfg) : Inv cfg St.init := by
  intro k cl r h; simp [St.init] at h

theorem inv_step (cfg : Cfg) (s : St) (op : Op) (hi : Inv cfg s)
    (hop : opOk cfg (s op.id) op = true) : Inv cfg (step cfg s op).1 := by
  intro k cl r hk hr
  simp only [step] at hk
  by_cases hkk : k = op.id
  · subst hkk
    rw [set_same] at hk
    cases op with
    | call k' m c args =>
      simp only [Op.id] at hk hop
      cases hcur : s k' with
      | none =>
        simp only [book, hcur, Option.some.injEq] at hk
        subst hk; simp at hr
      | some cl0 => simp [opOk, hcur] at hop
    | answer k' r' =>
      simp only [Op.id] at hk hop
      cases hcur : s k' with
      | none => simp [opOk, hcur] at hop
      | some cl0 =>
        simp only [opOk, hcur, Bool.and_eq_true, Option.isNone_iff_eq_none, Bool.not_eq_true'] at hop
        obtain ⟨⟨hrn, _⟩, hsig⟩ := hop
        cases hs : cfg[cl0.m]? with
        | none => simp [hs] at hsig
        | some sig =>
          simp only [hs, Bool.and_eq_true, decide_eq_true_eq] at hsig
          simp only [obsOf, hcur, hrn, hs, book, if_true, Option.some.injEq] at hk
          subst hk
          simp only [Option.some.injEq] at hr
          subst hr
          exact ⟨sig, hs, rfl, replyOk_wf sig _ hsig.1, hsig.2⟩
    | chunk k' n =>
      simp only [Op.id] at hk hop
      cases hcur : s k' with
      | none => simp [opOk, hcur] at hop
      | some cl0 =>
        simp only [book, hcur, Option.map_some, Option.some.injEq] at hk
        subst hk
        have hr0 : cl0.reply = some r := by
          simp only [Call.feed] at hr
          split at hr <;> exact hr
        obtain ⟨sig, h1, h2, h3, h4⟩ := hi k' cl0 r hcur hr0
        refine ⟨sig, ?_, ?_, h3, h4⟩
        · simp only [Call.feed]; split <;> exact h1
        · simp only [Call.feed]; split <;> exact h2
    | close k' =>
      simp only [Op.id] at hk hop
      cases hcur : s k' with
      | none => simp [opOk, hcur] at hop
      | some cl0 =>
        simp only [book, hcur, Option.map_some, Option.some.injEq] at hk
        subst hk
        exact hi k' cl0 r hcur hr
  · rw [set_other _ _ _ _ hkk] at hk
    exact hi k cl r hk hr

/-- the verdict on the outcome the model reports for a call record -/
theorem specOut_model (cfg : Cfg) (hcfg : cfgOk cfg = true) (idx : Nat) (cl : Call)
    (h : ∀ r, cl.reply = some r →
      ∃ sig, cfg[cl.m]? = some sig ∧ cl.flen = (replyBytes sig.name r).length ∧
        replyWf r = true ∧ (encMsg (replyMsg sig.name r)).length < 2147483648) :
    specOut cfg idx cl (cl.outcome cfg) = .ok := by
  simp only [cfgOk, Bool.and_eq_true, List.all_eq_true, decide_eq_true_eq] at hcfg
  unfold specOut
  cases hr : cl.reply with
  | none => rfl
  | some r =>
    obtain ⟨sig, hs, hfl, hw, hl⟩ := h r hr
    simp only [hs]
    by_cases hcov : listSum cl.sizes < cl.flen
    · simp [hcov]
    · have hn : sig.name.length < 2147483648 := hcfg.1 sig (List.mem_of_getElem? hs)
      have hout : cl.outcome cfg = some (expected sig r) := by
        simp only [Call.outcome, Call.pieces, Call.stream, hr, hs]
        rw [sharedOutcome_splitBy cfg cl.m sig r cl.sizes cl.closed hcfg.2 hs hn hw hl]
        have hcov' : (replyBytes sig.name r).length ≤ listSum cl.sizes := by omega
        have hflat : (splitBy cl.sizes (replyBytes sig.name r)).flatten = replyBytes sig.name r ++ [] := by
          rw [splitBy_flatten_full _ _ hcov']; simp
        have hc : clientOutcome sig (splitBy cl.sizes (replyBytes sig.name r)) = expected sig r := by
          rw [clientOutcome_eq_stream sig _ (splitBy_nonempty _ _), hflat]
          exact streamOutcome_full sig r [] hn hw hl
        simp [hcov', hc]
      simp [hcov, hout]

theorem step_spec_ok (cfg : Cfg) (hcfg : cfgOk cfg = true) (s : St) (idx : Nat) (op : Op)
    (hi : Inv cfg s) (hop : opOk cfg (s op.id) op = true) :
    specObs cfg (s op.id) idx op (step cfg s op).2 = .ok := by
  have hcfg' := hcfg
  simp only [cfgOk, Bool.and_eq_true, List.all_eq_true, decide_eq_true_eq] at hcfg'
  cases op with
  | call k m c args =>
    simp only [Op.id] at hop ⊢
    cases hcur : s k with
    | some cl0 => simp [opOk, hcur] at hop
    | none =>
      cases hs : cfg[m]? with
      | none => simp [opOk, hcur, hs] at hop
      | some sig =>
        simp only [opOk, hcur, hs, Option.isNone_none, Bool.true_and] at hop
        have hn : ThriftCodec.cfgOk sig = true := by
          simp only [ThriftCodec.cfgOk, decide_eq_true_eq]
          exact hcfg'.1 sig (List.mem_of_getElem? hs)
        have := ThriftCodec.step_spec_ok sig hn 0 idx (.call args) hop
        simp only [ThriftCodec.step, ThriftCodec.specObs] at this
        simp only [step, Op.id, obsOf, hcur, hs, specObs]
        cases hdm : decMsg (List.drop 4 (callBytes sig.name args)) <;> simp only [hdm] at this ⊢ <;> exact this
  | answer k r =>
    simp only [Op.id] at hop ⊢
    cases hcur : s k with
    | none => simp [opOk, hcur] at hop
    | some cl0 =>
      simp only [opOk, hcur, Bool.and_eq_true, Option.isNone_iff_eq_none, Bool.not_eq_true'] at hop
      obtain ⟨⟨hrn, _⟩, hsig⟩ := hop
      cases hs : cfg[cl0.m]? with
      | none => simp [hs] at hsig
      | some sig => simp [step, Op.id, obsOf, hcur, hrn, hs, specObs]
  | chunk k n =>
    simp only [Op.id] at hop ⊢
    cases hcur : s k with
    | none => simp [opOk, hcur] at hop
    | some cl0 =>
      simp only [step, Op.id, obsOf, hcur, specObs]
      apply specOut_model cfg hcfg
      intro r hr
      have hr0 : cl0.reply = some r := by
        simp only [Call.feed] at hr
        split at hr <;> exact hr
      obtain ⟨sig, h1, h2, h3, h4⟩ := hi k cl0 r hcur hr0
      refine ⟨sig, ?_, ?_, h3, h4⟩
      · simp only [Call.feed]; split <;> exact h1
      · simp only [Call.feed]; split <;> exact h2
  | close k =>
    simp only [Op.id] at hop ⊢
    cases hcur : s k with
    | none => simp [opOk, hcur] at hop
    | some cl0 =>
      simp only [step, Op.id, obsOf, hcur, specObs]
      apply specOut_model cfg hcfg
      intro r hr
      exact hi k cl0 r hcur hr

theorem specGo_run (cfg : Cfg) (hcfg : cfgOk cfg = true) : ∀ (ops : List Op) (s : St) (idx : Nat),
    Inv cfg s → opsOk cfg s ops = true → specGo cfg s idx (run cfg s ops) = .ok
  | [], _, _, _, _ => rfl
  | op :: ops, s, idx, hi, h => by
    simp only [opsOk, Bool.and_eq_true] at h
    have h1 := step_spec_ok cfg hcfg s idx op hi h.1
    have h2 := specGo_run cfg hcfg ops (step cfg s op).1 (idx + 1) (inv_step cfg s op hi h.1) h.2
    simp only [run, specGo, h1, Verdict.and]
    exact h2

end Scales.ThriftShared
