import ScalesModel.Proofs.HeapFacts
import ScalesModel.Proofs.HeapMember

/-!
  The heap invariant without the membership conjunct.  `Inv` (Proofs/HeapInv.lean) ties `_servers` to
  the heap (`SrvOk`), which holds for the plain heap balancer only: the aperture balancer keeps part of
  the server set outside its heap.  No function of Model/Heap.lean other than `join`/`leave` reads
  `_servers`, so every preservation lemma proved for `Inv` carries over to `HInv` by replacing
  `_servers` with the endpoints in the heap (`HS.ws`).  Also: the channel states are touched by
  `setChan` and by node creation only (`chans`).
-/
namespace Scales.Heap
open Scales.Aperture (heapEps)

/-- the state with `_servers` replaced -/
def HS.ws (s : HS) (l : List Nat) : HS := { s with servers := l }

/-- `Inv` without `SrvOk` -/
structure HInv (s : HS) : Prop where
  wf : WF s
  ord : Ord (L s) s.size
  book : Book s
  down : DownOk s s.down

theorem ws_same (s : HS) (l : List Nat) : SameStore s (s.ws l) := ⟨rfl, rfl⟩
theorem ws_same' (s : HS) (l : List Nat) : SameStore (s.ws l) s := ⟨rfl, rfl⟩

theorem HInv.of_inv {s : HS} {l : List Nat} (h : Inv (s.ws l)) : HInv s := by
  have e := ws_same' s l
  exact ⟨e.wf h.wf, by rw [e.L_eq, e.size]; exact h.ord, h.book.sameStore e rfl, h.down.sameStore e⟩

theorem HInv.inv {s : HS} (h : HInv s) : Inv (s.ws (heapEps s)) := by
  have e := ws_same s (heapEps s)
  refine ⟨e.wf h.wf, by rw [e.L_eq, e.size]; exact h.ord, h.book.sameStore e rfl, h.down.sameStore e, ?_⟩
  intro ep
  show ep ∈ heapEps s ↔ _
  unfold heapEps
  rw [List.mem_map]
  constructor
  · rintro ⟨id, hm, rfl⟩
    exact ⟨id, (e.inHeap id).mpr ((mem_heap_iff s id).mp hm), rfl⟩
  · rintro ⟨id, hin, rfl⟩
    exact ⟨id, (mem_heap_iff s id).mpr ((e.inHeap id).mp hin), rfl⟩

theorem HInv.of_inv' {s : HS} (h : Inv s) : HInv s := ⟨h.wf, h.ord, h.book, h.down⟩

/-! ### `ws` commutes with everything but `join`/`leave` -/

theorem ws_setNode (s : HS) (l : List Nat) (id : Nat) (n : Node) : (s.ws l).setNode id n = (s.setNode id n).ws l := rfl
theorem ws_setLoad (s : HS) (l : List Nat) (id : Nat) (v : Int) : (s.ws l).setLoad id v = (s.setLoad id v).ws l := rfl
theorem ws_swap (s : HS) (l : List Nat) (i j : Nat) : (s.ws l).swap i j = (s.swap i j).ws l := rfl

theorem ws_fixUp (s : HS) (l : List Nat) (i : Nat) : (s.ws l).fixUp i = (s.fixUp i).ws l := by
  fun_induction HS.fixUp s i with
  | case1 s i hc ih =>
    have hc' : 1 < i ∧ ((s.ws l).at i).lt ((s.ws l).at (i / 2)) = true := hc
    rw [HS.fixUp, if_pos hc']
    exact ih
  | case2 s i hc =>
    have hc' : ¬ (1 < i ∧ ((s.ws l).at i).lt ((s.ws l).at (i / 2)) = true) := hc
    rw [HS.fixUp, if_neg hc']

theorem ws_fixDown (s : HS) (l : List Nat) (i j : Nat) : (s.ws l).fixDown i j = (s.fixDown i j).ws l := by
  fun_induction HS.fixDown s i j with
  | case1 s i hc m hlt ih =>
    rw [HS.fixDown, dif_pos hc]
    have hlt' : ((s.ws l).at (if j = 2 * i ∨ ((s.ws l).at (2 * i)).lt ((s.ws l).at (2 * i + 1)) = true then 2 * i
        else 2 * i + 1)).lt ((s.ws l).at i) = true := hlt
    simp only [hlt', if_true]
    exact ih
  | case2 s i hc m hlt =>
    rw [HS.fixDown, dif_pos hc]
    have hlt' : ¬ ((s.ws l).at (if j = 2 * i ∨ ((s.ws l).at (2 * i)).lt ((s.ws l).at (2 * i + 1)) = true then 2 * i
        else 2 * i + 1)).lt ((s.ws l).at i) = true := hlt
    simp [hlt']
  | case3 s i hc =>
    rw [HS.fixDown, dif_neg hc]

theorem ws_scan (l : List Nat) (d : List Nat) : ∀ s : HS, (s.ws l).scan d = ((s.scan d).1.ws l, (s.scan d).2) := by
  induction d with
  | nil => intro s; rfl
  | cons nid rest ih =>
    intro s
    rw [scan_cons, scan_cons]
    have e1 : ((s.ws l).node nid) = s.node nid := rfl
    have e2 : pos (s.ws l) nid = pos s nid := rfl
    rw [e1, e2]
    split
    · exact ih s
    · split
      · rw [ws_setLoad, ws_fixUp]; exact ih _
      · rw [ih s]

@[simp] theorem ws_size (s : HS) (l : List Nat) : (s.ws l).size = s.size := rfl

theorem ws_delAt (s : HS) (l : List Nat) (i : Nat) : (s.ws l).delAt i = (s.delAt i).ws l := by
  unfold HS.delAt
  simp only [ws_swap, ws_size, ws_fixDown, ws_fixUp]
  split <;> rfl

theorem ws_putNode (s : HS) (l : List Nat) (nid j : Nat) : (s.ws l).putNode nid j = (s.putNode nid j).ws l := by
  rw [putNode_eq, putNode_eq]
  have e1 : ((s.ws l).node nid) = s.node nid := rfl
  rw [e1]
  generalize (if (s.node nid).load - 1 < Idle then Idle else (s.node nid).load - 1) = v
  rw [ws_setLoad]
  have e2 : ∀ t : HS, (t.ws l).node nid = t.node nid := fun _ => rfl
  have e3 : ∀ t : HS, (t.ws l).size = t.size := fun _ => rfl
  have e4 : ∀ t : HS, pos (t.ws l) nid = pos t nid := fun _ => rfl
  simp only [e2, e3, e4]
  split
  · rfl
  · split
    · rfl
    · split
      · simp only [ws_delAt, e3, ws_swap, ws_fixUp]
      · rw [ws_fixUp]

theorem ws_put (s : HS) (l : List Nat) (r j : Nat) : (s.ws l).put r j = (s.put r j).ws l := by
  unfold HS.put
  have e : (s.ws l).reqs = s.reqs := rfl
  rw [e]
  split
  · rfl
  · rfl
  · rename_i nid _
    exact ws_putNode { s with reqs := s.reqs.set r (nid, true) } l nid j

theorem ws_setChan (s : HS) (l : List Nat) (nid st : Nat) : (s.ws l).setChan nid st = (s.setChan nid st).ws l := by
  unfold HS.setChan
  have e : (s.ws l).nodes.length = s.nodes.length := rfl
  rw [e]
  split <;> rfl

/-! ### `HInv` through the operations of the heap model -/

theorem HInv_setChan {s : HS} (h : HInv s) (nid st : Nat) : HInv (s.setChan nid st) := by
  have := Inv_setChan _ h.inv nid st
  rw [ws_setChan] at this
  exact HInv.of_inv this

theorem HInv_put {s : HS} (h : HInv s) (r j : Nat)
    (hj : ∀ nid, s.reqs[r]? = some (nid, false) → s.putDraws nid = true → 1 ≤ j ∧ j ≤ s.size) :
    HInv (s.put r j) := by
  have := Inv_put _ h.inv r j hj
  rw [ws_put] at this
  exact HInv.of_inv this

theorem HInv_addSink {s : HS} (h : HInv s) (ep : Nat) (hnew : ep ∉ heapEps s) : HInv (s.addSink ep) := by
  have heq : s.addSink ep = (s.push ⟨Idle, (s.size + 1 : Nat), ep, 1, 0⟩).fixUp (s.size + 1) := rfl
  rw [heq]
  obtain ⟨w, f, o⟩ := push_spec s h.wf h.ord ⟨Idle, (s.size + 1 : Nat), ep, 1, 0⟩ rfl
  have hsz : ((s.push ⟨Idle, (s.size + 1 : Nat), ep, 1, 0⟩).fixUp (s.size + 1)).size = s.size + 1 := by
    rw [f.size, push_size]
  have hnew' : ∀ id, InHeap s id → (s.node id).ep ≠ ep := by
    intro id hin he
    apply hnew
    unfold heapEps
    exact List.mem_map.2 ⟨id, (mem_heap_iff s id).2 hin, he⟩
  refine ⟨w, by rw [hsz]; exact o, (push_Book s h.wf h.book _ hnew' rfl rfl).frame f, ?_⟩
  rw [f.down]; exact (push_DownOk s h.wf _ h.down _ rfl).frame f

theorem HInv_removeSink {s : HS} (h : HInv s) (ep : Nat) : HInv (s.removeSink ep).1 := by
  cases hfind : s.findByEp ep with
  | none =>
    unfold HS.removeSink
    rw [hfind]
    exact h
  | some nid =>
    have hfind' := hfind
    unfold HS.findByEp at hfind
    have hmem := List.mem_of_find?_eq_some hfind
    have hin : InHeap s nid := (mem_heap_iff s nid).mp hmem
    have hidx := index_of_inHeap s h.wf nid hin
    have hneg : ¬ (s.node nid).index < 0 := by omega
    rw [removeSink_some s ep nid hfind' hneg]
    obtain ⟨w, o, b, d, _, _, _, hlast⟩ := remove_spec s h.wf h.ord h.book h.down nid hin _ rfl
    have heq : ∀ (c : Nat),
        (({ s.delAt (pos s nid) with heap := (s.delAt (pos s nid)).heap.dropLast } : HS).setNode nid
          { (s.delAt (pos s nid)).node nid with index := -1, closed := c }) = (s.delAt (pos s nid)).pop c := by
      intro c; unfold HS.pop; simp only [hlast]; rfl
    dsimp only
    rw [heq]
    exact ⟨w, o, b, d⟩

/-! ### channel states: only `setChan` and node creation touch them -/

def chans (s : HS) : List Nat := s.nodes.map (·.chan)

theorem chans_len (s : HS) : (chans s).length = s.nodes.length := by simp [chans]

theorem node_chan (s : HS) (id : Nat) (h : id < s.nodes.length) : (s.node id).chan = (chans s).getD id 1 := by
  unfold HS.node chans
  simp [List.getD_eq_getElem?_getD, h]

theorem chans_setNode (s : HS) (id : Nat) (n : Node) (h : n.chan = (s.node id).chan) :
    chans (s.setNode id n) = chans s := by
  unfold chans HS.setNode
  simp only
  apply List.ext_getElem?
  intro k
  simp only [List.getElem?_map, List.getElem?_set]
  split
  · rename_i e; subst e
    split
    · rename_i hl
      simp only [Option.map_some, h]
      unfold HS.node
      simp [List.getD_eq_getElem?_getD, hl]
    · rename_i hl
      rw [List.getElem?_eq_none (by omega)]
  · rfl

theorem chans_setIndex (s : HS) (id : Nat) (ix : Int) : chans (s.setIndex id ix) = chans s :=
  chans_setNode s id _ rfl

theorem chans_setLoad (s : HS) (id : Nat) (v : Int) : chans (s.setLoad id v) = chans s :=
  chans_setNode s id _ rfl

theorem chans_swap (s : HS) (i j : Nat) : chans (s.swap i j) = chans s := by
  unfold HS.swap
  simp only
  rw [chans_setIndex, chans_setIndex]
  rfl

theorem chans_fixUp (s : HS) (i : Nat) : chans (s.fixUp i) = chans s := by
  fun_induction HS.fixUp s i with
  | case1 s i hc ih => rw [ih, chans_swap]
  | case2 s i hc => rfl

theorem chans_fixDown (s : HS) (i j : Nat) : chans (s.fixDown i j) = chans s := by
  fun_induction HS.fixDown s i j with
  | case1 s i hc m hlt ih => rw [ih, chans_swap]
  | case2 s i hc m hlt => rfl
  | case3 s i hc => rfl

theorem chans_delAt (s : HS) (i : Nat) : chans (s.delAt i) = chans s := by
  unfold HS.delAt
  dsimp only
  split
  · rw [chans_fixUp, chans_fixDown, chans_swap]
  · rw [chans_fixDown, chans_swap]

theorem chans_scan (d : List Nat) : ∀ s : HS, chans (s.scan d).1 = chans s := by
  induction d with
  | nil => intro s; rfl
  | cons nid rest ih =>
    intro s
    rw [scan_cons]
    split
    · exact ih s
    · split
      · rw [ih, chans_fixUp, chans_setLoad]
      · exact ih s

theorem chans_putNode (s : HS) (nid j : Nat) : chans (s.putNode nid j) = chans s := by
  rw [putNode_eq]
  generalize (if (s.node nid).load - 1 < Idle then Idle else (s.node nid).load - 1) = v
  split
  · exact chans_setLoad s nid v
  · split
    · refine Eq.trans (chans_setNode _ _ _ ?_) (chans_setLoad s nid v)
      rfl
    · split
      · rw [chans_fixUp, chans_fixUp, chans_swap, chans_delAt, chans_setLoad]
      · rw [chans_fixUp, chans_setLoad]

theorem chans_put (s : HS) (r j : Nat) : chans (s.put r j) = chans s := by
  unfold HS.put
  split
  · rfl
  · rfl
  · rw [chans_putNode]; rfl

theorem chans_addSink (s : HS) (ep : Nat) : chans (s.addSink ep) = chans s ++ [1] := by
  unfold HS.addSink
  simp only
  rw [chans_fixUp]
  simp [chans]

theorem chans_removeSink (s : HS) (ep : Nat) : chans (s.removeSink ep).1 = chans s := by
  unfold HS.removeSink
  split
  · rfl
  · dsimp only
    split
    · rfl
    · dsimp only
      refine Eq.trans (chans_setNode _ _ _ ?_) ?_
      · rfl
      show chans (if _ then _ else _) = _
      split
      · rw [chans_fixUp, chans_fixDown, chans_swap]
      · rw [chans_fixDown, chans_swap]

/-- `∃ k`, the channel states of `s'` are those of `s` followed by `k` Idle ones (new nodes) -/
def ChExt (s s' : HS) : Prop := ∃ k, chans s' = chans s ++ List.replicate k 1

theorem ChExt.of_eq {s s' : HS} (h : chans s' = chans s) : ChExt s s' := ⟨0, by simp [h]⟩
theorem ChExt.refl (s : HS) : ChExt s s := ChExt.of_eq rfl
theorem ChExt.trans {a b c : HS} (h1 : ChExt a b) (h2 : ChExt b c) : ChExt a c := by
  obtain ⟨k1, e1⟩ := h1
  obtain ⟨k2, e2⟩ := h2
  exact ⟨k1 + k2, by rw [e2, e1, List.append_assoc, List.replicate_add]⟩

theorem ChExt.getD {s s' : HS} (h : ChExt s s') (id : Nat) : (chans s').getD id 1 = (chans s).getD id 1 := by
  obtain ⟨k, e⟩ := h
  rw [e]
  simp only [List.getD_eq_getElem?_getD, List.getElem?_append]
  split
  · rfl
  · rename_i hl
    have hr : (chans s)[id]? = none := List.getElem?_eq_none (by omega)
    rw [hr, List.getElem?_replicate]
    split <;> rfl

theorem chans_setChan (s : HS) (nid st : Nat) : chans (s.setChan nid st) = (chans s).set nid st := by
  unfold HS.setChan
  split
  · unfold chans HS.setNode
    simp only [List.map_set]
  · rename_i hl
    unfold chans
    rw [List.set_eq_of_length_le (by simpa using hl)]

theorem ChExt.len {s s' : HS} (h : ChExt s s') : s.nodes.length ≤ s'.nodes.length := by
  obtain ⟨k, e⟩ := h
  have := congrArg List.length e
  simp [chans_len] at this
  omega

/-! ### membership frame: the heap may take in new nodes, no node leaves it -/

structure MFrame (s s' : HS) : Prop where
  len : s.nodes.length ≤ s'.nodes.length
  reqs : s'.reqs = s.reqs
  old : ∀ id, InHeap s id → InHeap s' id
  new : ∀ id, InHeap s' id → InHeap s id ∨ s.nodes.length ≤ id
  size : s.size ≤ s'.size

theorem MFrame.refl (s : HS) : MFrame s s := ⟨le_refl _, rfl, fun _ h => h, fun _ h => Or.inl h, le_refl _⟩

theorem MFrame.trans {a b c : HS} (h1 : MFrame a b) (h2 : MFrame b c) : MFrame a c := by
  refine ⟨le_trans h1.len h2.len, h2.reqs.trans h1.reqs, fun id h => h2.old id (h1.old id h), ?_,
    le_trans h1.size h2.size⟩
  intro id h
  rcases h2.new id h with h | h
  · exact h1.new id h
  · exact Or.inr (le_trans h1.len h)

theorem MFrame.of_G {s t : HS} {l : List Nat} (g : GFrame (s.ws l) (t.ws l)) : MFrame s t :=
  ⟨le_of_eq g.len.symm, g.reqs, fun id h => (g.inHeap id).mpr h, fun id h => Or.inl ((g.inHeap id).mp h),
   le_of_eq g.size.symm⟩

/-! ### the pieces of `__Get` -/

theorem HInv_scan_round {s : HS} (h : HInv s) (l : List Nat) (hc : Cand l s) :
    HInv ({ (s.scan s.down).1 with down := (s.scan s.down).2 } : HS) ∧
    MFrame s ({ (s.scan s.down).1 with down := (s.scan s.down).2 } : HS) ∧
    ({ (s.scan s.down).1 with down := (s.scan s.down).2 } : HS).size = s.size ∧
    (∀ id ∈ (s.scan s.down).2, (({ (s.scan s.down).1 with down := (s.scan s.down).2 } : HS).node id).chan ≠ chOpen) ∧
    Cand l ({ (s.scan s.down).1 with down := (s.scan s.down).2 } : HS) := by
  have hc' : Cand l (s.ws (heapEps s)) := hc
  obtain ⟨i1, g1, sc1, c1⟩ := scan_round (s.ws (heapEps s)) h.inv l hc'
  have e0 : (s.ws (heapEps s)).down = s.down := rfl
  rw [e0, ws_scan] at i1 g1 sc1 c1
  simp only at i1 g1 sc1 c1
  have e1 : ({ (s.scan s.down).1.ws (heapEps s) with down := (s.scan s.down).2 } : HS) =
      ({ (s.scan s.down).1 with down := (s.scan s.down).2 } : HS).ws (heapEps s) := rfl
  rw [e1] at i1 g1 c1
  refine ⟨HInv.of_inv i1, MFrame.of_G g1, g1.size, ?_, c1⟩
  intro id hid
  have := sc1 id hid
  have e2 := (g1.fields id).2.1
  intro hx
  exact this (e2 ▸ hx)

theorem HInv_markDown {s : HS} (h : HInv s) (hsz : 1 ≤ s.size)
    (hno : ¬ ((s.node (s.idAt 1)).chan = chOpen ∨ (s.node (s.idAt 1)).load ≥ 0))
    (hsc : ∀ id ∈ s.down, (s.node id).chan ≠ chOpen) (l : List Nat) (hc : Cand l s) :
    HInv (({ s.setLoad (s.idAt 1) ((s.node (s.idAt 1)).load + Penalty) with down := s.idAt 1 :: s.down } : HS).fixDown 1
      s.size) ∧
    MFrame s (({ s.setLoad (s.idAt 1) ((s.node (s.idAt 1)).load + Penalty) with down := s.idAt 1 :: s.down } : HS).fixDown 1
      s.size) ∧
    (({ s.setLoad (s.idAt 1) ((s.node (s.idAt 1)).load + Penalty) with down := s.idAt 1 :: s.down } : HS).fixDown 1
      s.size).size = s.size ∧
    Cand (l.erase (s.idAt 1))
      (({ s.setLoad (s.idAt 1) ((s.node (s.idAt 1)).load + Penalty) with down := s.idAt 1 :: s.down } : HS).fixDown 1
      s.size) ∧
    s.idAt 1 ∈ l := by
  have hc' : Cand l (s.ws (heapEps s)) := hc
  obtain ⟨i4, g4, c4, hmem, _⟩ := markDown_spec (s.ws (heapEps s)) h.inv hsz hno hsc l hc'
  have e1 : (({ (s.ws (heapEps s)).setLoad ((s.ws (heapEps s)).idAt 1)
        (((s.ws (heapEps s)).node ((s.ws (heapEps s)).idAt 1)).load + Penalty) with
        down := (s.ws (heapEps s)).idAt 1 :: (s.ws (heapEps s)).down } : HS).fixDown 1 (s.ws (heapEps s)).size) =
      (({ s.setLoad (s.idAt 1) ((s.node (s.idAt 1)).load + Penalty) with down := s.idAt 1 :: s.down } : HS).fixDown 1
        s.size).ws (heapEps s) := by
    rw [← ws_fixDown]; rfl
  rw [e1] at i4 g4 c4
  exact ⟨HInv.of_inv i4, MFrame.of_G g4, g4.size, c4, hmem⟩

/-- count the dispatch on the chosen heap node -/
theorem HInv_dispatch {s1 : HS} (h : HInv s1) (nid : Nat) (hin : InHeap s1 nid)
    (hb : s1.reqs.length + 1 < maxReqs) :
    HInv ({ (s1.setNode nid { s1.node nid with load := (s1.node nid).load + 1 }).fixDown
        ((s1.setNode nid { s1.node nid with load := (s1.node nid).load + 1 }).node nid).index.toNat
        (s1.setNode nid { s1.node nid with load := (s1.node nid).load + 1 }).size with
      reqs := ((s1.setNode nid { s1.node nid with load := (s1.node nid).load + 1 }).fixDown
        ((s1.setNode nid { s1.node nid with load := (s1.node nid).load + 1 }).node nid).index.toNat
        (s1.setNode nid { s1.node nid with load := (s1.node nid).load + 1 }).size).reqs ++ [(nid, false)] } : HS) := by
  have hin' : InHeap (s1.ws (heapEps s1)) nid := hin
  obtain ⟨i, _⟩ := dispatch_spec (s1.ws (heapEps s1)) h.inv nid hin' hb
  have e : ({ ((s1.ws (heapEps s1)).setLoad nid (((s1.ws (heapEps s1)).node nid).load + 1)).fixDown
        (pos ((s1.ws (heapEps s1)).setLoad nid (((s1.ws (heapEps s1)).node nid).load + 1)) nid) (s1.ws (heapEps s1)).size with
      reqs := (((s1.ws (heapEps s1)).setLoad nid (((s1.ws (heapEps s1)).node nid).load + 1)).fixDown
        (pos ((s1.ws (heapEps s1)).setLoad nid (((s1.ws (heapEps s1)).node nid).load + 1)) nid)
        (s1.ws (heapEps s1)).size).reqs ++ [(nid, false)] } : HS) =
      ({ (s1.setNode nid { s1.node nid with load := (s1.node nid).load + 1 }).fixDown
        ((s1.setNode nid { s1.node nid with load := (s1.node nid).load + 1 }).node nid).index.toNat
        (s1.setNode nid { s1.node nid with load := (s1.node nid).load + 1 }).size with
      reqs := ((s1.setNode nid { s1.node nid with load := (s1.node nid).load + 1 }).fixDown
        ((s1.setNode nid { s1.node nid with load := (s1.node nid).load + 1 }).node nid).index.toNat
        (s1.setNode nid { s1.node nid with load := (s1.node nid).load + 1 }).size).reqs ++ [(nid, false)] } : HS).ws
        (heapEps s1) := by
    have e1 : (s1.ws (heapEps s1)).setLoad nid (((s1.ws (heapEps s1)).node nid).load + 1) =
        (s1.setNode nid { s1.node nid with load := (s1.node nid).load + 1 }).ws (heapEps s1) := rfl
    rw [e1]
    have e2 : pos ((s1.setNode nid { s1.node nid with load := (s1.node nid).load + 1 }).ws (heapEps s1)) nid =
        ((s1.setNode nid { s1.node nid with load := (s1.node nid).load + 1 }).node nid).index.toNat := rfl
    have e3 : (s1.ws (heapEps s1)).size = (s1.setNode nid { s1.node nid with load := (s1.node nid).load + 1 }).size := rfl
    rw [e2, e3, ws_fixDown]
    rfl
  rw [e] at i
  exact HInv.of_inv i

/-- what appending a node does to the old ones -/
theorem addSink_facts {s : HS} (hw : WF s) (ep : Nat) :
    (s.addSink ep).nodes.length = s.nodes.length + 1 ∧ (s.addSink ep).size = s.size + 1 ∧
    (s.addSink ep).reqs = s.reqs ∧
    (∀ id, InHeap (s.addSink ep) id ↔ InHeap s id ∨ id = s.nodes.length) ∧
    (∀ id, id < s.nodes.length → ((s.addSink ep).node id).load = (s.node id).load ∧
      ((s.addSink ep).node id).chan = (s.node id).chan) := by
  have heq : s.addSink ep = (s.push ⟨Idle, (s.size + 1 : Nat), ep, 1, 0⟩).fixUp (s.size + 1) := rfl
  rw [heq]
  obtain ⟨_, f, _⟩ := fixUp_spec (s.push ⟨Idle, (s.size + 1 : Nat), ep, 1, 0⟩) (s.size + 1)
    (push_WF s hw _ rfl) (by simp)
  refine ⟨by rw [f.len, push_len], by rw [f.size, push_size], by rw [f.reqs]; rfl, ?_, ?_⟩
  · intro id; rw [f.inHeap, push_inHeap s hw]
  · intro id hl
    have hne : ¬ id = s.nodes.length := by omega
    rw [(f.fields id).1, (f.fields id).2.2.1, push_node]
    simp [hne]

theorem MFrame_addSink {s : HS} (hw : WF s) (ep : Nat) : MFrame s (s.addSink ep) := by
  obtain ⟨a, b, c, d, _⟩ := addSink_facts hw ep
  refine ⟨by omega, c, fun id h => (d id).2 (Or.inl h), ?_, by omega⟩
  intro id h
  rcases (d id).1 h with h | h
  · exact Or.inl h
  · exact Or.inr (by omega)

theorem Cand_addSink {s : HS} (hw : WF s) (ep : Nat) (l : List Nat) (hc : Cand l s) :
    Cand (s.nodes.length :: l) (s.addSink ep) := by
  obtain ⟨_, _, _, d, e⟩ := addSink_facts hw ep
  intro id hin hor
  rcases (d id).1 hin with h | h
  · have hl := inHeap_lt s hw id h
    rw [(e id hl).1, (e id hl).2] at hor
    exact List.mem_cons_of_mem _ (hc id h hor)
  · rw [h]; exact List.mem_cons_self

end Scales.Heap
