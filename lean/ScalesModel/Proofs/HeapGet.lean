import ScalesModel.Proofs.HeapScan

/-! `__Get` (scan, mark-down loop) and the dispatch: `Inv` is preserved, the fuel suffices, and
    the chosen node is the root of the heap after the last scan. -/
namespace Scales.Heap

theorem grow_spec' (s : HS) (hw : WF s) (ho : Ord (L s) s.size) (id : Nat) (h : InHeap s id) (v : Int)
    (hv : (s.node id).load ≤ v) (t : HS) (e : SameStore (s.setLoad id v) t) :
    WF (t.fixDown (pos s id) s.size) ∧ Frame t (t.fixDown (pos s id) s.size) ∧
    Ord (L (t.fixDown (pos s id) s.size)) s.size := by
  obtain ⟨p1, p2, p3, _, hl⟩ := pos_spec s hw id h
  obtain ⟨w, f, o⟩ := fixDown_spec t (pos s id) s.size (e.wf (setLoad_WF s hw id v)) (by rw [e.size]; simp)
  refine ⟨w, f, ?_⟩
  have hu := upd_grow (L s) s.size (pos s id) v ho p2 (by rw [L_pos s hw id h]; exact hv)
  rw [← setLoad_L s hw id v h, ← e.L_eq] at hu
  exact o p1 hu.1 hu.2

theorem getLoop_succ (s : HS) (fuel : Nat) : s.getLoop noHook (fuel + 1) =
    if (({ (s.scan s.down).1 with down := (s.scan s.down).2 } : HS).node
          (({ (s.scan s.down).1 with down := (s.scan s.down).2 } : HS).idAt 1)).chan = chOpen ∨
       (({ (s.scan s.down).1 with down := (s.scan s.down).2 } : HS).node
          (({ (s.scan s.down).1 with down := (s.scan s.down).2 } : HS).idAt 1)).load ≥ 0
    then (({ (s.scan s.down).1 with down := (s.scan s.down).2 } : HS),
          ({ (s.scan s.down).1 with down := (s.scan s.down).2 } : HS).idAt 1)
    else
      (({ (({ (s.scan s.down).1 with down := (s.scan s.down).2 } : HS).setLoad
            (({ (s.scan s.down).1 with down := (s.scan s.down).2 } : HS).idAt 1)
            ((({ (s.scan s.down).1 with down := (s.scan s.down).2 } : HS).node
              (({ (s.scan s.down).1 with down := (s.scan s.down).2 } : HS).idAt 1)).load + Penalty)) with
          down := ({ (s.scan s.down).1 with down := (s.scan s.down).2 } : HS).idAt 1 :: (s.scan s.down).2 } : HS).fixDown 1
        (s.scan s.down).1.size).getLoop noHook fuel := rfl

/-- the candidates for further mark-downs are among `l` -/
def Cand (l : List Nat) (s : HS) : Prop :=
  ∀ id, InHeap s id → ((s.node id).load < 0 ∨ (s.node id).chan = chOpen) → id ∈ l

/-- after the scan: `Inv` again, every listed node is a non-Open heap node -/
theorem scan_round (s : HS) (h : Inv s) (l : List Nat) (hc : Cand l s) :
    Inv ({ (s.scan s.down).1 with down := (s.scan s.down).2 } : HS) ∧
    GFrame s ({ (s.scan s.down).1 with down := (s.scan s.down).2 } : HS) ∧
    (∀ id ∈ (s.scan s.down).2, (s.node id).chan ≠ chOpen) ∧
    Cand l ({ (s.scan s.down).1 with down := (s.scan s.down).2 } : HS) := by
  obtain ⟨r1, r2, r3, r4, r5, r6, r7⟩ := scan_spec s.down s h.core h.down.pen h.down.nodup
  have e : SameStore (s.scan s.down).1 ({ (s.scan s.down).1 with down := (s.scan s.down).2 } : HS) := ⟨rfl, rfl⟩
  have c1 := r1.sameStore e rfl rfl
  have g1 : GFrame s ({ (s.scan s.down).1 with down := (s.scan s.down).2 } : HS) :=
    r2.trans (GFrame.ofSameStore e rfl rfl)
  refine ⟨⟨c1.wf, c1.ord, c1.book, ?_, c1.srv⟩, g1, fun id hk => (r6 id hk).2.2, ?_⟩
  · show DownOk _ (s.scan s.down).2
    constructor
    · intro id hk
      obtain ⟨x1, x2, x3⟩ := r6 id hk
      rw [e.node, e.len, x1, r2.len]
      exact h.down.pen id (r4.subset hk)
    · intro id hin hge
      rw [e.node] at hge
      have hin' : InHeap s id := (g1.inHeap id).mp hin
      by_contra hnk
      by_cases hd : id ∈ s.down
      · have := (r7 id hd hnk hin').1
        omega
      · rw [r5 id hd] at hge
        exact hd (h.down.all id hin' hge)
    · exact r4.nodup h.down.nodup
  · intro id hin hor
    have hin' : InHeap s id := (g1.inHeap id).mp hin
    rw [e.node] at hor
    rcases hor with hlt | hop
    · by_cases hd : id ∈ s.down
      · by_cases hk : id ∈ (s.scan s.down).2
        · have := (r6 id hk).1
          have := (h.down.pen id hd).2
          omega
        · exact hc id hin' (Or.inr (r7 id hd hk hin').2)
      · rw [r5 id hd] at hlt
        exact hc id hin' (Or.inl hlt)
    · rw [(r2.fields id).2.1] at hop
      exact hc id hin' (Or.inr hop)

/-- one mark-down of the root -/
theorem markDown_spec (s : HS) (h : Inv s) (hsz : 1 ≤ s.size)
    (hno : ¬ ((s.node (s.idAt 1)).chan = chOpen ∨ (s.node (s.idAt 1)).load ≥ 0))
    (hsc : ∀ id ∈ s.down, (s.node id).chan ≠ chOpen) (l : List Nat) (hc : Cand l s) :
    Inv (({ s.setLoad (s.idAt 1) ((s.node (s.idAt 1)).load + Penalty) with down := s.idAt 1 :: s.down } : HS).fixDown 1
      s.size) ∧
    GFrame s (({ s.setLoad (s.idAt 1) ((s.node (s.idAt 1)).load + Penalty) with down := s.idAt 1 :: s.down } : HS).fixDown 1
      s.size) ∧
    Cand (l.erase (s.idAt 1))
      (({ s.setLoad (s.idAt 1) ((s.node (s.idAt 1)).load + Penalty) with down := s.idAt 1 :: s.down } : HS).fixDown 1
      s.size) ∧
    s.idAt 1 ∈ l ∧
    (∀ id ∈ (({ s.setLoad (s.idAt 1) ((s.node (s.idAt 1)).load + Penalty) with down := s.idAt 1 :: s.down } : HS).fixDown 1
      s.size).down, (s.node id).chan ≠ chOpen) := by
  have hin : InHeap s (s.idAt 1) := ⟨1, by omega, hsz, rfl⟩
  have hl := inHeap_lt s h.wf _ hin
  obtain ⟨p1, p2, p3, _, _⟩ := pos_spec s h.wf _ hin
  have hpos : pos s (s.idAt 1) = 1 := h.wf.inj _ _ p1 p2 (by omega) hsz p3
  push Not at hno
  obtain ⟨hnop, hneg⟩ := hno
  obtain ⟨a1, a2, a3, a4⟩ := h.book.pen_iff _ hl
  have e : SameStore (s.setLoad (s.idAt 1) ((s.node (s.idAt 1)).load + Penalty))
      ({ s.setLoad (s.idAt 1) ((s.node (s.idAt 1)).load + Penalty) with down := s.idAt 1 :: s.down } : HS) := ⟨rfl, rfl⟩
  obtain ⟨w, f, o⟩ := grow_spec' s h.wf h.ord _ hin ((s.node (s.idAt 1)).load + Penalty)
    (by unfold Penalty; omega) _ e
  rw [hpos] at w f o
  have hf1 := setLoad_node s (s.idAt 1)
  have hload : ∀ id, ((s.setLoad (s.idAt 1) ((s.node (s.idAt 1)).load + Penalty)).node id).load =
      if id = s.idAt 1 then (s.node (s.idAt 1)).load + Penalty else (s.node id).load := by
    intro id; rw [(hf1 id _).1]; simp [hl]
  have hb1 : Book (s.setLoad (s.idAt 1) ((s.node (s.idAt 1)).load + Penalty)) := by
    apply h.book.update (s.idAt 1) (by simp) (by simp) (fun id => (hf1 id _).2.1)
    · intro id hne
      refine ⟨?_, (hf1 id _).2.2.2.1, rfl⟩
      rw [hload]; simp [hne]
    · left
      rw [hload]
      simp only [if_true]
      have : outOf (s.setLoad (s.idAt 1) ((s.node (s.idAt 1)).load + Penalty)) (s.idAt 1) = outOf s (s.idAt 1) := rfl
      rw [this, a2.mp hneg]
      unfold Idle Penalty; omega
    · exact h.book.bound
    · exact h.book.reqsOk
    · intro _; rw [(hf1 _ _).2.2.2.1]; exact h.book.closedIn _ hin
    · intro hn; exact absurd hin hn
  have hs1 : SrvOk (s.setLoad (s.idAt 1) ((s.node (s.idAt 1)).load + Penalty)) :=
    h.srv.update (by simp) (fun id => (hf1 id _).2.1) rfl
  have g : GFrame s (({ s.setLoad (s.idAt 1) ((s.node (s.idAt 1)).load + Penalty) with
      down := s.idAt 1 :: s.down } : HS).fixDown 1 s.size) :=
    ((GFrame.ofSetLoad s _ _ hin).trans (GFrame.ofSameStore e rfl rfl)).trans f.toG
  have hloadF : ∀ id, ((({ s.setLoad (s.idAt 1) ((s.node (s.idAt 1)).load + Penalty) with
      down := s.idAt 1 :: s.down } : HS).fixDown 1 s.size).node id).load =
      if id = s.idAt 1 then (s.node (s.idAt 1)).load + Penalty else (s.node id).load := by
    intro id; rw [(f.fields id).1, e.node, hload]
  have hdownF : (({ s.setLoad (s.idAt 1) ((s.node (s.idAt 1)).load + Penalty) with
      down := s.idAt 1 :: s.down } : HS).fixDown 1 s.size).down = s.idAt 1 :: s.down := f.down
  have hpos0 : (s.node (s.idAt 1)).load + Penalty ≥ 0 := by unfold Idle Penalty at *; omega
  refine ⟨⟨w, by rw [g.size]; exact o, (hb1.sameStore e rfl).frame f, ?_,
    (hs1.update e.inHeap (fun id => by rw [e.node]) rfl).frame f⟩, g, ?_, hc _ hin (Or.inl hneg), ?_⟩
  · rw [hdownF]
    constructor
    · intro id hd
      rw [hloadF, g.len]
      rcases List.mem_cons.mp hd with e' | e'
      · subst e'; simp only [if_true]; exact ⟨hl, hpos0⟩
      · have := h.down.pen id e'
        by_cases e'' : id = s.idAt 1
        · simp only [e'', if_true]; exact ⟨hl, hpos0⟩
        · simp only [e'', if_false]; exact this
    · intro id hi hge
      rw [hloadF] at hge
      by_cases e'' : id = s.idAt 1
      · simp [e'']
      · simp only [e'', if_false] at hge
        exact List.mem_cons_of_mem _ (h.down.all id ((g.inHeap id).mp hi) hge)
    · apply List.nodup_cons.mpr
      refine ⟨?_, h.down.nodup⟩
      intro hd
      have := (h.down.pen _ hd).2
      omega
  · intro id hi hor
    have hi' := (g.inHeap id).mp hi
    rw [hloadF, (g.fields id).2.1] at hor
    by_cases e'' : id = s.idAt 1
    · subst e''
      simp only [if_true] at hor
      rcases hor with x | x
      · omega
      · exact absurd x hnop
    · simp only [e'', if_false] at hor
      exact (List.mem_erase_of_ne e'').mpr (hc id hi' hor)
  · intro id hd
    rw [hdownF] at hd
    rcases List.mem_cons.mp hd with e' | e'
    · subst e'; exact hnop
    · exact hsc id e'

/-- the result of `__Get` -/
structure GetOk (s s' : HS) (nid : Nat) : Prop where
  inv : Inv s'
  frame : GFrame s s'
  top : nid = s'.idAt 1
  ok : (s'.node nid).chan = chOpen ∨ (s'.node nid).load ≥ 0
  scanned : ∀ id ∈ s'.down, (s'.node id).chan ≠ chOpen

theorem getLoop_spec (fuel : Nat) : ∀ (s : HS) (l : List Nat), Inv s → 1 ≤ s.size → Cand l s → l.length < fuel →
    GetOk s (s.getLoop noHook fuel).1 (s.getLoop noHook fuel).2 := by
  induction fuel with
  | zero => intro s l _ _ _ h; omega
  | succ fuel ih =>
    intro s l h hsz hc hlen
    obtain ⟨i1, g1, sc1, c1⟩ := scan_round s h l hc
    rw [getLoop_succ]
    have hsz0 : (s.scan s.down).1.size = ({ (s.scan s.down).1 with down := (s.scan s.down).2 } : HS).size := rfl
    have hdn0 : (s.scan s.down).2 = ({ (s.scan s.down).1 with down := (s.scan s.down).2 } : HS).down := rfl
    rw [hsz0, hdn0]
    have sc1' : ∀ id ∈ ({ (s.scan s.down).1 with down := (s.scan s.down).2 } : HS).down,
        (({ (s.scan s.down).1 with down := (s.scan s.down).2 } : HS).node id).chan ≠ chOpen := by
      intro id hd; rw [(g1.fields id).2.1]; exact sc1 id hd
    generalize ({ (s.scan s.down).1 with down := (s.scan s.down).2 } : HS) = s1 at *
    have hsz1 : 1 ≤ s1.size := by rw [g1.size]; exact hsz
    by_cases hcond : (s1.node (s1.idAt 1)).chan = chOpen ∨ (s1.node (s1.idAt 1)).load ≥ 0
    · rw [if_pos hcond]
      exact ⟨i1, g1, rfl, hcond, sc1'⟩
    · rw [if_neg hcond]
      obtain ⟨i4, g4, c4, hmem, sc4⟩ := markDown_spec s1 i1 hsz1 hcond sc1' l c1
      have hlen' : (l.erase (s1.idAt 1)).length < fuel := by
        rw [List.length_erase_of_mem hmem]
        have : 0 < l.length := List.length_pos_of_mem hmem
        omega
      have := ih _ (l.erase (s1.idAt 1)) i4 (by rw [g4.size]; exact hsz1) c4 hlen'
      exact ⟨this.inv, (g1.trans g4).trans this.frame, this.top, this.ok, this.scanned⟩

theorem getLoop_ok (s : HS) (h : Inv s) (hsz : 1 ≤ s.size) :
    GetOk s (s.getLoop noHook (s.nodes.length + 1)).1 (s.getLoop noHook (s.nodes.length + 1)).2 := by
  apply getLoop_spec (s.nodes.length + 1) s (List.range s.nodes.length) h hsz
  · intro id hin _
    exact List.mem_range.mpr (inHeap_lt s h.wf id hin)
  · simp

/-! ### the dispatch -/

theorem get_empty (s : HS) (hsz : s.size = 0) : s.get noHook = (s, .noMembers) := by
  unfold HS.get; rw [if_pos hsz]

theorem get_nonempty (s : HS) (hsz : ¬ s.size = 0) : s.get noHook =
    (({ ((s.getLoop noHook (s.nodes.length + 1)).1.setLoad (s.getLoop noHook (s.nodes.length + 1)).2
            (((s.getLoop noHook (s.nodes.length + 1)).1.node (s.getLoop noHook (s.nodes.length + 1)).2).load + 1)).fixDown
          (pos ((s.getLoop noHook (s.nodes.length + 1)).1.setLoad (s.getLoop noHook (s.nodes.length + 1)).2
            (((s.getLoop noHook (s.nodes.length + 1)).1.node (s.getLoop noHook (s.nodes.length + 1)).2).load + 1))
            (s.getLoop noHook (s.nodes.length + 1)).2)
          (s.getLoop noHook (s.nodes.length + 1)).1.size with
        reqs := (((s.getLoop noHook (s.nodes.length + 1)).1.setLoad (s.getLoop noHook (s.nodes.length + 1)).2
            (((s.getLoop noHook (s.nodes.length + 1)).1.node (s.getLoop noHook (s.nodes.length + 1)).2).load + 1)).fixDown
          (pos ((s.getLoop noHook (s.nodes.length + 1)).1.setLoad (s.getLoop noHook (s.nodes.length + 1)).2
            (((s.getLoop noHook (s.nodes.length + 1)).1.node (s.getLoop noHook (s.nodes.length + 1)).2).load + 1))
            (s.getLoop noHook (s.nodes.length + 1)).2)
          (s.getLoop noHook (s.nodes.length + 1)).1.size).reqs ++ [((s.getLoop noHook (s.nodes.length + 1)).2, false)] } : HS),
      .node (s.getLoop noHook (s.nodes.length + 1)).2
        ((s.getLoop noHook (s.nodes.length + 1)).1.node (s.getLoop noHook (s.nodes.length + 1)).2).ep
        (((s.getLoop noHook (s.nodes.length + 1)).1.setLoad (s.getLoop noHook (s.nodes.length + 1)).2
            (((s.getLoop noHook (s.nodes.length + 1)).1.node (s.getLoop noHook (s.nodes.length + 1)).2).load + 1)).fixDown
          (pos ((s.getLoop noHook (s.nodes.length + 1)).1.setLoad (s.getLoop noHook (s.nodes.length + 1)).2
            (((s.getLoop noHook (s.nodes.length + 1)).1.node (s.getLoop noHook (s.nodes.length + 1)).2).load + 1))
            (s.getLoop noHook (s.nodes.length + 1)).2)
          (s.getLoop noHook (s.nodes.length + 1)).1.size).reqs.length) := by
  unfold HS.get; rw [if_neg hsz]; rfl

/-- count the dispatch on the chosen node `nid` (the root) of a state with `Inv` -/
theorem dispatch_spec (s1 : HS) (h : Inv s1) (nid : Nat) (hin : InHeap s1 nid)
    (hb : s1.reqs.length + 1 < maxReqs) :
    Inv ({ (s1.setLoad nid ((s1.node nid).load + 1)).fixDown (pos (s1.setLoad nid ((s1.node nid).load + 1)) nid) s1.size with
      reqs := ((s1.setLoad nid ((s1.node nid).load + 1)).fixDown (pos (s1.setLoad nid ((s1.node nid).load + 1)) nid)
        s1.size).reqs ++ [(nid, false)] } : HS) ∧
    GFrame s1 ((s1.setLoad nid ((s1.node nid).load + 1)).fixDown (pos (s1.setLoad nid ((s1.node nid).load + 1)) nid) s1.size) := by
  have hl := inHeap_lt s1 h.wf nid hin
  rw [setLoad_pos]
  obtain ⟨w, f, o⟩ := grow_spec s1 h.wf h.ord nid hin ((s1.node nid).load + 1) (by omega)
  have g : GFrame s1 ((s1.setLoad nid ((s1.node nid).load + 1)).fixDown (pos s1 nid) s1.size) :=
    (GFrame.ofSetLoad s1 nid _ hin).trans f.toG
  refine ⟨?_, g⟩
  have hreqs : ((s1.setLoad nid ((s1.node nid).load + 1)).fixDown (pos s1 nid) s1.size).reqs = s1.reqs := g.reqs
  rw [hreqs]
  have hload : ∀ id, (((s1.setLoad nid ((s1.node nid).load + 1)).fixDown (pos s1 nid) s1.size).node id).load =
      if id = nid then (s1.node nid).load + 1 else (s1.node id).load := by
    intro id; rw [(f.fields id).1, (setLoad_node s1 nid id _).1]; simp [hl]
  have hdown : ((s1.setLoad nid ((s1.node nid).load + 1)).fixDown (pos s1 nid) s1.size).down = s1.down := f.down
  generalize (s1.setLoad nid ((s1.node nid).load + 1)).fixDown (pos s1 nid) s1.size = s3 at *
  have e : SameStore s3 ({ s3 with reqs := s1.reqs ++ [(nid, false)] } : HS) := ⟨rfl, rfl⟩
  have hout : ∀ id, outOf ({ s3 with reqs := s1.reqs ++ [(nid, false)] } : HS) id =
      outOf s1 id + (if nid = id then 1 else 0) := fun id => outL_append s1.reqs nid id
  have hdn4 : ({ s3 with reqs := s1.reqs ++ [(nid, false)] } : HS).down = s1.down := hdown
  have hsrv4 : ({ s3 with reqs := s1.reqs ++ [(nid, false)] } : HS).servers = s1.servers := g.servers
  have hreq4 : ({ s3 with reqs := s1.reqs ++ [(nid, false)] } : HS).reqs = s1.reqs ++ [(nid, false)] := rfl
  generalize ({ s3 with reqs := s1.reqs ++ [(nid, false)] } : HS) = s4 at *
  have hin4 : ∀ id, InHeap s4 id ↔ InHeap s1 id := fun id => (e.inHeap id).trans (g.inHeap id)
  have hlen4 : s4.nodes.length = s1.nodes.length := e.len.trans g.len
  have hep4 : ∀ id, (s4.node id).ep = (s1.node id).ep := fun id => by rw [e.node]; exact (g.fields id).1
  obtain ⟨a1, a2, a3, a4⟩ := h.book.pen_iff nid hl
  have hacc := h.book.acct nid hl
  have hle := outL_le s1.reqs nid
  have hge : ∀ id, ((s4.node id).load ≥ 0 ↔ (s1.node id).load ≥ 0) := by
    intro id
    rw [e.node, hload]
    by_cases e' : id = nid
    · subst e'
      simp only [if_true]
      unfold maxReqs Idle outOf at *
      rcases hacc with q | q <;> omega
    · simp [e']
  refine ⟨e.wf w, by rw [e.L_eq, e.size, g.size]; exact o, ?_, ?_, ?_⟩
  · apply h.book.update nid hlen4 hin4 hep4
    · intro id hne
      refine ⟨?_, ?_, ?_⟩
      · rw [e.node, hload]; simp [hne]
      · rw [e.node]; exact (g.fields id).2.2
      · rw [hout]; have : ¬ nid = id := fun x => hne x.symm
        simp [this]
    · rw [e.node, hload, hout]
      simp only [if_true]
      rcases hacc with q | q
      · left; rw [q]; push_cast; rfl
      · right; rw [q]; push_cast; omega
    · rw [hreq4, List.length_append]; simpa using hb
    · intro r hr
      rw [hreq4] at hr
      rcases List.mem_append.mp hr with x | x
      · exact h.book.reqsOk r x
      · simp only [List.mem_singleton] at x; rw [x]; exact hl
    · intro _; rw [e.node, (g.fields nid).2.2]; exact h.book.closedIn nid hin
    · intro hn; exact absurd hin hn
  · rw [hdn4]; exact h.down.update hlen4 hin4 hge
  · exact h.srv.update hin4 hep4 hsrv4

theorem Inv_get (s : HS) (h : Inv s) (hb : s.reqs.length + 1 < maxReqs) : Inv (s.get noHook).1 := by
  by_cases hsz : s.size = 0
  · rw [get_empty s hsz]; exact h
  · rw [get_nonempty s hsz]
    have gk := getLoop_ok s h (by omega)
    have hin : InHeap (s.getLoop noHook (s.nodes.length + 1)).1 (s.getLoop noHook (s.nodes.length + 1)).2 := by
      rw [gk.top]; exact ⟨1, by omega, by rw [gk.frame.size]; omega, rfl⟩
    exact (dispatch_spec _ gk.inv _ hin (by rw [gk.frame.reqs]; exact hb)).1

end Scales.Heap
