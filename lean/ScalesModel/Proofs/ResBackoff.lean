/-
  Proofs/ResBackoff.lean — arithmetic of the back-off  wait' = min (f wait) maxW.
-/
import ScalesModel.Adapter.Resurrector
namespace Scales.Res

theorem nextWait_le_max (p : Par) (w : Nat) : nextWait p w ≤ p.maxW := by
  unfold nextWait; exact Nat.min_le_right _ _

theorem le_nextWait (p : Par) (hf : Grows p) (w : Nat) (hw : w ≤ p.maxW) :
    w ≤ nextWait p w := by
  unfold nextWait; exact Nat.le_min.mpr ⟨(hf w hw).1, hw⟩

/-- the next wait is larger, unless it is the maximum -/
theorem nextWait_strict (p : Par) (hf : Grows p) (w : Nat) (hw : w ≤ p.maxW) :
    w < nextWait p w ∨ nextWait p w = p.maxW := by
  unfold nextWait
  by_cases h : p.f w ≤ p.maxW
  · rw [Nat.min_eq_left h]
    by_cases hlt : w < p.maxW
    · exact Or.inl ((hf w hw).2 hlt)
    · right
      have := (hf w hw).1
      omega
  · right; exact Nat.min_eq_right (by omega)

theorem waits_le_max (p : Par) (hi : p.init ≤ p.maxW) (k : Nat) : waits p k ≤ p.maxW := by
  cases k with
  | zero => exact hi
  | succ k => exact nextWait_le_max p _

theorem waits_mono (p : Par) (hf : Grows p) (hi : p.init ≤ p.maxW) (k : Nat) :
    waits p k ≤ waits p (k + 1) :=
  le_nextWait p hf _ (waits_le_max p hi k)

theorem waits_strict (p : Par) (hf : Grows p) (hi : p.init ≤ p.maxW) (k : Nat) :
    waits p k < waits p (k + 1) ∨ waits p (k + 1) = p.maxW :=
  nextWait_strict p hf _ (waits_le_max p hi k)

/-- a table of waits that grows until the maximum defines a growing back-off function -/
theorem tableNext_grows (m : Nat) (t : List Nat) (h : tableGrows m t = true) (w : Nat) (hw : w ≤ m) :
    w ≤ tableNext m t w ∧ (w < m → w < tableNext m t w) := by
  induction t with
  | nil => simp [tableNext, hw]
  | cons a rest ih =>
    cases rest with
    | nil => simp [tableNext, hw]
    | cons b rest' =>
      simp only [tableGrows, Bool.and_eq_true, Bool.or_eq_true, decide_eq_true_eq] at h
      simp only [tableNext]
      by_cases haw : a = w
      · subst haw
        simp
        exact ⟨h.1.1, fun hlt => by rcases h.1.2 with h' | h' <;> omega⟩
      · simp [haw]; exact ih h.2

theorem cfg_grows (c : Cfg) (h : cfgWF c = true) : Grows c.par := by
  intro w hw
  simp only [cfgWF, Bool.and_eq_true] at h
  exact tableNext_grows c.maxW c.table h.2 w hw

theorem cfg_init_pos (c : Cfg) (h : cfgWF c = true) : 0 < c.par.init := by
  simp only [cfgWF, Bool.and_eq_true, decide_eq_true_eq] at h
  exact h.1.1

theorem cfg_init_le (c : Cfg) (h : cfgWF c = true) : c.par.init ≤ c.par.maxW := by
  simp only [cfgWF, Bool.and_eq_true, decide_eq_true_eq] at h
  exact h.1.2

end Scales.Res
