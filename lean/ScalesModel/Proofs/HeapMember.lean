import ScalesModel.Proofs.HeapFix
import ScalesModel.Model.Aperture

/-!
  Membership facts about the heap model (Model/Heap.lean) needed by C05/C06: every heap
  operation keeps H1 (`WF`), permutes the heap array or changes it by exactly the node it adds or
  removes, and never touches endpoints or `_servers`.  (The order invariant of the heap is not
  needed here; it lives in Proofs/HeapInv.lean.)
-/
namespace Scales.Aperture
open Scales.Heap

/-- `s'` has the same members as `s`: H1 holds, the heap array is a rearrangement, endpoints,
    store size and `_servers` are untouched -/
structure HFrame (s s' : HS) : Prop where
  wf : WF s'
  perm : s'.heap.Perm s.heap
  ep : ∀ id, (s'.node id).ep = (s.node id).ep
  servers : s'.servers = s.servers
  len : s'.nodes.length = s.nodes.length

theorem HFrame.refl {s : HS} (hw : WF s) : HFrame s s := ⟨hw, List.Perm.refl _, fun _ => rfl, rfl, rfl⟩

theorem HFrame.trans {a b c : HS} (h1 : HFrame a b) (h2 : HFrame b c) : HFrame a c :=
  ⟨h2.wf, h2.perm.trans h1.perm, fun id => (h2.ep id).trans (h1.ep id), h2.servers.trans h1.servers,
   h2.len.trans h1.len⟩

theorem HFrame.size {s s' : HS} (h : HFrame s s') : s'.size = s.size := by
  unfold HS.size; exact h.perm.length_eq

theorem heap_nodup {s : HS} (hw : WF s) : s.heap.Nodup := by
  rw [List.nodup_iff_injective_getElem]
  rintro ⟨i, hi⟩ ⟨j, hj⟩ h
  simp only at h
  obtain ⟨_, e1⟩ := idAt_pos s (i + 1) (by omega) (by unfold HS.size; omega)
  obtain ⟨_, e2⟩ := idAt_pos s (j + 1) (by omega) (by unfold HS.size; omega)
  have := hw.inj (i + 1) (j + 1) (by omega) (by unfold HS.size; omega) (by omega) (by unfold HS.size; omega)
    (by rw [e1, e2]; simpa using h)
  exact Fin.ext (by simp only; omega)

theorem HFrame.of_frame {s s' : HS} (hw : WF s) (hw' : WF s') (f : Frame s s') : HFrame s s' := by
  refine ⟨hw', ?_, fun id => (f.fields id).2.1, f.servers, f.len⟩
  rw [List.perm_ext_iff_of_nodup (heap_nodup hw') (heap_nodup hw)]
  intro a
  rw [mem_heap_iff, mem_heap_iff]
  exact f.inHeap a

/-- a state that agrees with `s` on the heap array, the store size and every `index` has H1 -/
theorem WF_of_same {s s' : HS} (hw : WF s) (hh : s'.heap = s.heap) (hl : s'.nodes.length = s.nodes.length)
    (hi : ∀ id, (s'.node id).index = (s.node id).index) : WF s' := by
  have hid : ∀ p, s'.idAt p = s.idAt p := by intro p; unfold HS.idAt; rw [hh, hl]
  have hsz : s'.size = s.size := by unfold HS.size; rw [hh]
  have hin : ∀ id, InHeap s' id ↔ InHeap s id := by
    intro id; unfold InHeap; simp only [hid, hsz]
  constructor
  · intro p h1 h2; rw [hid, hl]; exact hw.inStore p h1 (hsz ▸ h2)
  · intro p q a b c d e; rw [hid, hid] at e; exact hw.inj p q a (hsz ▸ b) c (hsz ▸ d) e
  · intro p h1 h2; unfold HS.at; rw [hid, hi]; exact hw.idx p h1 (hsz ▸ h2)
  · intro id h1 h2; rw [hi]; exact hw.off id (hl ▸ h1) (fun h => h2 ((hin id).2 h))

theorem HFrame_of_same {s s' : HS} (hw : WF s) (hh : s'.heap = s.heap) (hl : s'.nodes.length = s.nodes.length)
    (hi : ∀ id, (s'.node id).index = (s.node id).index) (he : ∀ id, (s'.node id).ep = (s.node id).ep)
    (hs : s'.servers = s.servers) : HFrame s s' :=
  ⟨WF_of_same hw hh hl hi, hh ▸ List.Perm.refl _, he, hs, hl⟩

/-- overwriting a node without changing its `index` and `ep` -/
theorem setNode_HFrame {s : HS} (hw : WF s) (id : Nat) (n : Node) (hi : n.index = (s.node id).index)
    (he : n.ep = (s.node id).ep) : HFrame s (s.setNode id n) := by
  apply HFrame_of_same (s' := s.setNode id n) hw rfl (by simp)
  · intro id'; rw [node_setNode]; split
    · rename_i h; rw [hi, h.1]
    · rfl
  · intro id'; rw [node_setNode]; split
    · rename_i h; rw [he, h.1]
    · rfl
  · rfl

theorem fixUp_HFrame {s : HS} (hw : WF s) (i : Nat) (hi : i ≤ s.size) : HFrame s (s.fixUp i) := by
  obtain ⟨w, f, _⟩ := fixUp_spec s i hw hi
  exact HFrame.of_frame hw w f

theorem fixDown_HFrame {s : HS} (hw : WF s) (i j : Nat) (hj : j ≤ s.size) : HFrame s (s.fixDown i j) := by
  obtain ⟨w, f, _⟩ := fixDown_spec s i j hw hj
  exact HFrame.of_frame hw w f

theorem swap_HFrame {s : HS} (hw : WF s) (i j : Nat) (hi1 : 1 ≤ i) (hi2 : i ≤ s.size) (hj1 : 1 ≤ j)
    (hj2 : j ≤ s.size) : HFrame s (s.swap i j) :=
  HFrame.of_frame hw (swap_WF s hw i j hi1 hi2 hj1 hj2) (swap_Frame s hw i j hi1 hi2 hj1 hj2)

/-- a node whose `index` is not negative sits in the heap at that position -/
theorem inHeap_of_index {s : HS} (hw : WF s) (id : Nat) (h : ¬ (s.node id).index < 0) :
    ∃ p, 1 ≤ p ∧ p ≤ s.size ∧ s.idAt p = id ∧ (s.node id).index = (p : Int) := by
  by_cases hl : id < s.nodes.length
  · by_cases hin : InHeap s id
    · obtain ⟨p, h1, h2, h3⟩ := hin
      refine ⟨p, h1, h2, h3, ?_⟩
      have := hw.idx p h1 h2
      unfold HS.at at this; rw [h3] at this; exact this
    · have := hw.off id hl hin; omega
  · rw [node_out s id (by omega)] at h
    exact absurd (by decide) h

theorem index_le_size {s : HS} (hw : WF s) (id : Nat) : (s.node id).index.toNat ≤ s.size := by
  by_cases h : (s.node id).index < 0
  · omega
  · obtain ⟨p, _, h2, _, h4⟩ := inHeap_of_index hw id h
    omega

/-! ### the down-list scan, `__Put` -/

theorem scan_HFrame {s : HS} (hw : WF s) (l : List Nat) : HFrame s (s.scan l).1 := by
  induction l generalizing s with
  | nil => exact HFrame.refl hw
  | cons nid rest ih =>
    unfold HS.scan
    simp only
    split
    · exact ih hw
    · split
      · have f1 := setNode_HFrame hw nid { s.node nid with load := (s.node nid).load - Penalty } rfl rfl
        have f2 := fixUp_HFrame f1.wf _ (index_le_size f1.wf nid)
        exact (f1.trans f2).trans (ih f2.wf)
      · exact ih hw

theorem putNode_HFrame {s : HS} (hw : WF s) (nid j : Nat)
    (hj : s.putDraws nid = true → 1 ≤ j ∧ j ≤ s.size) : HFrame s (s.putNode nid j) := by
  unfold HS.putNode
  simp only
  generalize hl2 : (if (s.node nid).load - 1 < Idle then Idle else (s.node nid).load - 1) = l2
  have hl2' : Idle ≤ l2 := by rw [← hl2]; split <;> omega
  have f1 := setNode_HFrame hw nid { s.node nid with load := l2 } rfl rfl
  generalize hs1 : s.setNode nid { s.node nid with load := l2 } = s1 at f1 ⊢
  have hidx : (s1.node nid).index = (s.node nid).index ∧ (nid < s.nodes.length → (s1.node nid).load = l2) := by
    rw [← hs1, node_setNode]; split
    · exact ⟨rfl, fun _ => rfl⟩
    · rename_i h; exact ⟨rfl, fun h' => absurd ⟨rfl, h'⟩ h⟩
  have hsz : s1.size = s.size := f1.size
  split
  · exact f1
  · split
    · exact f1.trans (setNode_HFrame f1.wf nid _ rfl rfl)
    · split
      · rename_i h1 h2 h3
        have hnn : ¬ (s1.node nid).index < 0 := by
          intro hc
          have : (s1.node nid).load = Idle ∨ (s1.node nid).load > Idle := by omega
          rcases this with e | e
          · exact h2 ⟨hc, e⟩
          · exact h1 ⟨hc, e⟩
        obtain ⟨p, hp1, hp2, hp3, hp4⟩ := inHeap_of_index f1.wf nid hnn
        have hpi : (s1.node nid).index.toNat = p := by omega
        rw [hpi]
        have hlt : nid < s.nodes.length := by
          have := f1.wf.inStore p hp1 hp2; rw [hp3, f1.len] at this; exact this
        have hdraw : s.putDraws nid = true := by
          unfold HS.putDraws
          simp only [hl2, Bool.and_eq_true, decide_eq_true_eq]
          refine ⟨⟨?_, ?_⟩, ?_⟩
          · rw [← hidx.1]; omega
          · rw [← hidx.2 hlt]; exact h3.1
          · rw [← hsz]; exact h3.2
        obtain ⟨hj1, hj2⟩ := hj hdraw
        have g1 := swap_HFrame f1.wf p s1.size hp1 hp2 (by omega) (le_refl _)
        have g2 := fixDown_HFrame g1.wf p ((s1.swap p s1.size).size - 1) (by omega)
        have hsz2 : ((s1.swap p s1.size).fixDown p ((s1.swap p s1.size).size - 1)).size = s1.size := by
          rw [g2.size, g1.size]
        have g3 : HFrame ((s1.swap p s1.size).fixDown p ((s1.swap p s1.size).size - 1))
            (if p ≠ ((s1.swap p s1.size).fixDown p ((s1.swap p s1.size).size - 1)).size then
              ((s1.swap p s1.size).fixDown p ((s1.swap p s1.size).size - 1)).fixUp p
             else (s1.swap p s1.size).fixDown p ((s1.swap p s1.size).size - 1)) := by
          split
          · exact fixUp_HFrame g2.wf p (by rw [hsz2]; exact hp2)
          · exact HFrame.refl g2.wf
        generalize (if p ≠ ((s1.swap p s1.size).fixDown p ((s1.swap p s1.size).size - 1)).size then
              ((s1.swap p s1.size).fixDown p ((s1.swap p s1.size).size - 1)).fixUp p
             else (s1.swap p s1.size).fixDown p ((s1.swap p s1.size).size - 1)) = s3 at g3 ⊢
        have hsz3 : s3.size = s1.size := by rw [g3.size, hsz2]
        have g4 := swap_HFrame g3.wf j s3.size hj1 (by omega) (by omega) (le_refl _)
        have g5 := fixUp_HFrame g4.wf j (by rw [g4.size]; omega)
        have g6 := fixUp_HFrame g5.wf ((s3.swap j s3.size).fixUp j).size (le_refl _)
        exact f1.trans (g1.trans (g2.trans (g3.trans (g4.trans (g5.trans g6)))))
      · exact f1.trans (fixUp_HFrame f1.wf _ (index_le_size f1.wf nid))

theorem put_HFrame {s : HS} (hw : WF s) (r j : Nat)
    (hj : ∀ nid, s.reqs[r]? = some (nid, false) → s.putDraws nid = true → 1 ≤ j ∧ j ≤ s.size) :
    HFrame s (s.put r j) := by
  unfold HS.put
  split
  · exact HFrame.refl hw
  · exact HFrame.refl hw
  · rename_i nid h
    have f1 : HFrame s { s with reqs := s.reqs.set r (nid, true) } :=
      HFrame_of_same hw rfl rfl (fun _ => rfl) (fun _ => rfl) rfl
    exact f1.trans (putNode_HFrame f1.wf nid j (hj nid h))

/-! ### `_AddSink` -/

theorem append_WF {s : HS} (hw : WF s) (n : Node) (hn : n.index = (s.size + 1 : Nat)) :
    WF { s with nodes := s.nodes ++ [n], heap := s.heap ++ [s.nodes.length] } := by
  set s1 : HS := { s with nodes := s.nodes ++ [n], heap := s.heap ++ [s.nodes.length] } with hs1
  have hsz : s1.size = s.size + 1 := by simp [hs1, HS.size]
  have hlen : s1.nodes.length = s.nodes.length + 1 := by simp [hs1]
  have hid : ∀ p, 1 ≤ p → p ≤ s.size → s1.idAt p = s.idAt p := by
    intro p h1 h2
    unfold HS.size at h2
    have : p ≠ 0 := by omega
    simp only [HS.idAt, this, if_false, hs1, List.getD_eq_getElem?_getD]
    rw [List.getElem?_append_left (by omega)]
    rw [List.getElem?_eq_getElem (by omega)]; simp
  have hlast : s1.idAt (s.size + 1) = s.nodes.length := by
    simp [HS.idAt, hs1, HS.size, List.getD_eq_getElem?_getD]
  have hnode : ∀ id, id < s.nodes.length → s1.node id = s.node id := by
    intro id h
    simp only [HS.node, hs1, List.getD_eq_getElem?_getD]
    rw [List.getElem?_append_left h]
  have hnew : s1.node s.nodes.length = n := by
    simp [HS.node, hs1, List.getD_eq_getElem?_getD]
  have hin : ∀ id, id < s.nodes.length → (InHeap s1 id ↔ InHeap s id) := by
    intro id hl
    constructor
    · rintro ⟨p, h1, h2, h3⟩
      by_cases hp : p ≤ s.size
      · exact ⟨p, h1, hp, by rw [← hid p h1 hp]; exact h3⟩
      · have : p = s.size + 1 := by omega
        subst this; rw [hlast] at h3; omega
    · rintro ⟨p, h1, h2, h3⟩
      exact ⟨p, h1, by omega, by rw [hid p h1 h2]; exact h3⟩
  constructor
  · intro p h1 h2
    by_cases hp : p ≤ s.size
    · rw [hid p h1 hp, hlen]; have := hw.inStore p h1 hp; omega
    · have : p = s.size + 1 := by omega
      subst this; rw [hlast, hlen]; omega
  · intro p q hp1 hp2 hq1 hq2 h
    by_cases hp : p ≤ s.size <;> by_cases hq : q ≤ s.size
    · rw [hid p hp1 hp, hid q hq1 hq] at h; exact hw.inj p q hp1 hp hq1 hq h
    · have : q = s.size + 1 := by omega
      subst this; rw [hid p hp1 hp, hlast] at h
      have := hw.inStore p hp1 hp; omega
    · have : p = s.size + 1 := by omega
      subst this; rw [hid q hq1 hq, hlast] at h
      have := hw.inStore q hq1 hq; omega
    · omega
  · intro p h1 h2
    unfold HS.at
    by_cases hp : p ≤ s.size
    · rw [hid p h1 hp, hnode _ (hw.inStore p h1 hp)]; exact hw.idx p h1 hp
    · have : p = s.size + 1 := by omega
      subst this; rw [hlast, hnew, hn]
  · intro id hl hnot
    by_cases hid' : id < s.nodes.length
    · rw [hnode id hid']
      exact hw.off id hid' (fun h => hnot ((hin id hid').2 h))
    · exfalso; apply hnot
      have : id = s.nodes.length := by omega
      subst this
      exact ⟨s.size + 1, by omega, by omega, hlast⟩

theorem addSink_spec {s : HS} (hw : WF s) (ep : Nat) :
    WF (s.addSink ep) ∧ (s.addSink ep).heap.Perm (s.nodes.length :: s.heap) ∧
    (∀ id, id < s.nodes.length → ((s.addSink ep).node id).ep = (s.node id).ep) ∧
    ((s.addSink ep).node s.nodes.length).ep = ep ∧
    (s.addSink ep).servers = s.servers ∧ (s.addSink ep).nodes.length = s.nodes.length + 1 := by
  unfold HS.addSink
  simp only
  have w1 := append_WF hw ⟨Idle, (s.size + 1 : Nat), ep, 1, 0⟩ rfl
  set s1 : HS := { s with nodes := s.nodes ++ [⟨Idle, (s.size + 1 : Nat), ep, 1, 0⟩], heap := s.heap ++ [s.nodes.length] } with hs1
  have f := fixUp_HFrame w1 (s.size + 1) (by simp [hs1, HS.size])
  refine ⟨f.wf, ?_, ?_, ?_, ?_, ?_⟩
  · refine f.perm.trans ?_
    simp only [hs1]
    exact List.perm_append_comm
  · intro id h
    rw [f.ep]
    simp only [HS.node, hs1, List.getD_eq_getElem?_getD]
    rw [List.getElem?_append_left h]
  · rw [f.ep]
    simp [HS.node, hs1, List.getD_eq_getElem?_getD]
  · rw [f.servers]
  · rw [f.len]; simp [hs1]

theorem fixUp_idAt_above (s : HS) (i : Nat) (hw : WF s) (hi : i ≤ s.size) (p : Nat) (hp : i < p) :
    (s.fixUp i).idAt p = s.idAt p := by
  fun_induction HS.fixUp s i with
  | case1 s i hc ih =>
    obtain ⟨hi1, _⟩ := hc
    have hw' := swap_WF s hw i (i / 2) (by omega) hi (by omega) (by omega)
    rw [ih hw' (by rw [swap_size]; omega) (by omega)]
    rw [swap_idAt s i (i / 2) p (by omega) hi (by omega) (by omega)]
    have e1 : ¬ p = i / 2 := by omega
    have e2 : ¬ p = i := by omega
    simp [e1, e2]
  | case2 s i hc => rfl

theorem fixDown_idAt_above (s : HS) (i j : Nat) (hw : WF s) (hj : j ≤ s.size) (p : Nat) (hp : j < p) :
    (s.fixDown i j).idAt p = s.idAt p := by
  fun_induction HS.fixDown s i j with
  | case1 s i hc m hlt ih =>
    obtain ⟨hi1, h2⟩ := hc
    have hm : m = 2 * i ∨ (m = 2 * i + 1 ∧ j ≠ 2 * i) := by
      simp only [m]; split
      · left; rfl
      · rename_i h; right; exact ⟨rfl, fun e => h (Or.inl e)⟩
    have hmj : m ≤ j := by omega
    have hw' := swap_WF s hw i m hi1 (by omega) (by omega) (by omega)
    rw [ih hw' (by rw [swap_size]; exact hj)]
    rw [swap_idAt s i m p hi1 (by omega) (by omega) (by omega)]
    have e1 : ¬ p = m := by omega
    have e2 : ¬ p = i := by omega
    simp [e1, e2]
  | case2 s i hc m hlt => rfl
  | case3 s i hc => rfl

/-! ### `_RemoveSink` -/

theorem removeLast_WF {s : HS} (hw : WF s) (h1 : 1 ≤ s.size) (n : Node) (hn : n.index = -1) :
    WF (({ s with heap := s.heap.dropLast } : HS).setNode (s.idAt s.size) n) ∧
    s.heap.Perm (s.idAt s.size :: (({ s with heap := s.heap.dropLast } : HS).setNode (s.idAt s.size) n).heap) := by
  set last := s.idAt s.size with hlast
  set t : HS := ({ s with heap := s.heap.dropLast } : HS).setNode last n with ht
  have hll : last < s.nodes.length := hw.inStore s.size h1 (le_refl _)
  have hsz : t.size = s.size - 1 := by simp [ht, HS.size]
  have hlen : t.nodes.length = s.nodes.length := by simp [ht]
  have hid : ∀ p, 1 ≤ p → p ≤ s.size - 1 → t.idAt p = s.idAt p := by
    intro p h1 h2
    unfold HS.size at h2
    have : p ≠ 0 := by omega
    simp only [HS.idAt, this, if_false, ht, setNode_heap, setNode_len, List.getD_eq_getElem?_getD]
    rw [List.getElem?_dropLast]
    have : p - 1 < s.heap.length - 1 := by omega
    simp [this]
  have hnode : ∀ id, t.node id = if id = last then n else s.node id := by
    intro id
    rw [ht, node_setNode]
    have e : ({ s with heap := s.heap.dropLast } : HS).nodes.length = s.nodes.length := rfl
    rw [e]
    by_cases h : id = last
    · simp [h, hll]
    · simp [h]; rfl
  have hin : ∀ id, InHeap t id ↔ (InHeap s id ∧ id ≠ last) := by
    intro id
    constructor
    · rintro ⟨p, a, b, c⟩
      rw [hsz] at b
      rw [hid p a b] at c
      refine ⟨⟨p, a, by omega, c⟩, ?_⟩
      intro e
      have := hw.inj p s.size a (by omega) h1 (le_refl _) (by rw [c, e])
      omega
    · rintro ⟨⟨p, a, b, c⟩, hne⟩
      have : p ≠ s.size := by rintro rfl; exact hne c.symm
      exact ⟨p, a, by rw [hsz]; omega, by rw [hid p a (by omega)]; exact c⟩
  refine ⟨?_, ?_⟩
  · constructor
    · intro p a b
      rw [hsz] at b
      rw [hid p a b, hlen]; exact hw.inStore p a (by omega)
    · intro p q a b c d e
      rw [hsz] at b d
      rw [hid p a b, hid q c d] at e
      exact hw.inj p q a (by omega) c (by omega) e
    · intro p a b
      rw [hsz] at b
      unfold HS.at
      rw [hid p a b, hnode]
      have : s.idAt p ≠ last := by
        intro e
        have := hw.inj p s.size a (by omega) h1 (le_refl _) e
        omega
      simp only [this, if_false]
      exact hw.idx p a (by omega)
    · intro id a b
      rw [hnode]
      by_cases e : id = last
      · simp [e, hn]
      · simp only [e, if_false]
        apply hw.off id (hlen ▸ a)
        intro h; exact b ((hin id).2 ⟨h, e⟩)
  · have : t.heap = s.heap.dropLast := by simp [ht]
    rw [this]
    have hne : s.heap ≠ [] := by
      intro e; unfold HS.size at h1; rw [e] at h1; simp at h1
    obtain ⟨hl, e⟩ := idAt_pos s s.size h1 (le_refl _)
    have : last = s.heap.getLast hne := by
      rw [hlast, e, List.getLast_eq_getElem]; rfl
    rw [this]
    have := List.dropLast_append_getLast hne
    conv_lhs => rw [← this]
    exact List.perm_append_comm

theorem findByEp_none {s : HS} {ep : Nat} (h : s.findByEp ep = none) : ep ∉ heapEps s := by
  unfold HS.findByEp at h
  rw [List.find?_eq_none] at h
  unfold heapEps
  intro hc
  obtain ⟨id, hid, he⟩ := List.mem_map.1 hc
  exact h id hid (by simpa using he)

theorem findByEp_some {s : HS} {ep nid : Nat} (h : s.findByEp ep = some nid) :
    nid ∈ s.heap ∧ (s.node nid).ep = ep := by
  unfold HS.findByEp at h
  exact ⟨List.mem_of_find?_eq_some h, by simpa using List.find?_some h⟩

theorem removeSink_spec {s : HS} (hw : WF s) (ep : Nat) :
    WF (s.removeSink ep).1 ∧ (s.removeSink ep).1.servers = s.servers ∧
    (s.removeSink ep).1.nodes.length = s.nodes.length ∧
    (∀ id, ((s.removeSink ep).1.node id).ep = (s.node id).ep) ∧
    (((s.removeSink ep).2 = false ∧ (s.removeSink ep).1 = s ∧ ep ∉ heapEps s) ∨
     ((s.removeSink ep).2 = true ∧ ∃ nid, (s.node nid).ep = ep ∧ s.heap.Perm (nid :: (s.removeSink ep).1.heap))) := by
  unfold HS.removeSink
  split
  · rename_i h
    exact ⟨hw, rfl, rfl, fun _ => rfl, Or.inl ⟨rfl, rfl, findByEp_none h⟩⟩
  · rename_i nid h
    obtain ⟨hmem, hep⟩ := findByEp_some h
    obtain ⟨p, hp1, hp2, hp3⟩ := (mem_heap_iff s nid).1 hmem
    have hidx : (s.node nid).index = (p : Int) := by
      have := hw.idx p hp1 hp2; unfold HS.at at this; rw [hp3] at this; exact this
    have hneg : ¬ (s.node nid).index < 0 := by omega
    simp only [hneg, if_false]
    have hpi : (s.node nid).index.toNat = p := by omega
    rw [hpi]
    have g1 := swap_HFrame hw p s.size hp1 hp2 (by omega) (le_refl _)
    have i1 : (s.swap p s.size).idAt s.size = nid := by
      rw [swap_idAt s p s.size s.size hp1 hp2 (by omega) (le_refl _)]; simp [hp3]
    have g2 := fixDown_HFrame g1.wf p ((s.swap p s.size).size - 1) (by omega)
    have i2 : ((s.swap p s.size).fixDown p ((s.swap p s.size).size - 1)).idAt s.size = nid := by
      rw [fixDown_idAt_above _ _ _ g1.wf (by omega) s.size (by rw [g1.size]; omega)]; exact i1
    have hsz2 : ((s.swap p s.size).fixDown p ((s.swap p s.size).size - 1)).size = s.size := by
      rw [g2.size, g1.size]
    set s2 := (s.swap p s.size).fixDown p ((s.swap p s.size).size - 1) with hs2
    have g3 : HFrame s2 (if p ≠ s2.size then s2.fixUp p else s2) ∧
        (if p ≠ s2.size then s2.fixUp p else s2).idAt s.size = nid := by
      split
      · rename_i hne
        exact ⟨fixUp_HFrame g2.wf p (by rw [hsz2]; exact hp2),
          by rw [fixUp_idAt_above _ _ g2.wf (by rw [hsz2]; exact hp2) s.size (by rw [hsz2] at hne; omega)]; exact i2⟩
      · exact ⟨HFrame.refl g2.wf, i2⟩
    obtain ⟨g3, i3⟩ := g3
    set s2' := (if p ≠ s2.size then s2.fixUp p else s2) with hs2'
    have hsz3 : s2'.size = s.size := by rw [g3.size, hsz2]
    have f03 : HFrame s s2' := g1.trans (g2.trans g3)
    have i3' : s2'.idAt s2'.size = nid := by rw [hsz3]; exact i3
    have key := removeLast_WF g3.wf (by rw [hsz3]; omega)
      { ({ s2' with heap := s2'.heap.dropLast } : HS).node nid with
          index := -1,
          closed := (({ s2' with heap := s2'.heap.dropLast } : HS).node nid).closed +
            (if (({ s2' with heap := s2'.heap.dropLast } : HS).node nid).load = Idle ∨
                (({ s2' with heap := s2'.heap.dropLast } : HS).node nid).load ≥ 0 then 1 else 0) } rfl
    rw [i3'] at key
    obtain ⟨kw, kp⟩ := key
    refine ⟨kw, ?_, ?_, ?_, Or.inr ⟨trivial, nid, hep, f03.perm.symm.trans kp⟩⟩
    · simp only [setNode_servers]; exact f03.servers
    · simp only [setNode_len]; exact f03.len
    · intro id
      rw [node_setNode]
      split
      · rename_i hc
        rw [hc.1]
        show (s2'.node nid).ep = _
        exact f03.ep nid
      · show (s2'.node id).ep = _
        exact f03.ep id

/-! ### endpoints in the heap -/

theorem heapEps_length (s : HS) : (heapEps s).length = s.size := by simp [heapEps, HS.size]

theorem HFrame.eps {s s' : HS} (h : HFrame s s') : (heapEps s').Perm (heapEps s) := by
  unfold heapEps
  have : s'.heap.map (fun id => (s'.node id).ep) = s'.heap.map (fun id => (s.node id).ep) :=
    List.map_congr_left (fun id _ => h.ep id)
  rw [this]
  exact h.perm.map _

theorem setChan_HFrame {s : HS} (hw : WF s) (nid st : Nat) : HFrame s (s.setChan nid st) := by
  unfold HS.setChan
  split
  · exact setNode_HFrame hw nid _ rfl rfl
  · exact HFrame.refl hw

theorem addSink_eps {s : HS} (hw : WF s) (ep : Nat) : (heapEps (s.addSink ep)).Perm (ep :: heapEps s) := by
  obtain ⟨_, hp, he, hn, _, _⟩ := addSink_spec hw ep
  unfold heapEps
  refine (hp.map _).trans ?_
  simp only [List.map_cons, hn]
  refine List.Perm.cons _ ?_
  apply List.Perm.of_eq
  apply List.map_congr_left
  intro id hid
  obtain ⟨p, h1, h2, h3⟩ := (mem_heap_iff s id).1 hid
  exact he id (h3 ▸ hw.inStore p h1 h2)

theorem removeSink_eps {s : HS} (hw : WF s) (ep : Nat) (h : (s.removeSink ep).2 = true) :
    (heapEps s).Perm (ep :: heapEps (s.removeSink ep).1) := by
  obtain ⟨_, _, _, he, hc⟩ := removeSink_spec hw ep
  rcases hc with ⟨hf, _⟩ | ⟨_, nid, hnid, hp⟩
  · rw [hf] at h; cases h
  · unfold heapEps
    refine (hp.map _).trans ?_
    simp only [List.map_cons, hnid]
    refine List.Perm.cons _ ?_
    apply List.Perm.of_eq
    apply List.map_congr_left
    intro id _
    exact (he id).symm

theorem removeSink_false {s : HS} (hw : WF s) (ep : Nat) (h : (s.removeSink ep).2 = false) :
    (s.removeSink ep).1 = s ∧ ep ∉ heapEps s := by
  obtain ⟨_, _, _, _, hc⟩ := removeSink_spec hw ep
  rcases hc with ⟨_, h1, h2⟩ | ⟨ht, _⟩
  · exact ⟨h1, h2⟩
  · rw [ht] at h; cases h

theorem removeSink_of_mem {s : HS} (hw : WF s) (ep : Nat) (h : ep ∈ heapEps s) : (s.removeSink ep).2 = true := by
  by_contra hc
  have := (removeSink_false hw ep (by simpa using hc)).2
  exact this h


end Scales.Aperture
