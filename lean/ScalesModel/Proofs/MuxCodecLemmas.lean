/-
  Proofs/MuxCodecLemmas.lean — helper lemmas for C13 (ThriftMux codec).
-/
import ScalesModel.Adapter.MuxCodec
import Mathlib.Data.List.Basic
import Mathlib.Data.List.Nodup
import Mathlib.Data.List.Perm.Basic

namespace Scales.MuxCodec

/-! ### big-endian integers -/

theorem u16?_be16 (n : Nat) (r : Bytes) (h : n < 65536) : u16? (be16 n ++ r) = some (n, r) := by
  simp only [be16, u16?, List.cons_append, List.nil_append]
  congr 2; omega

theorem take?_append (b r : Bytes) : take? b.length (b ++ r) = some (b, r) := by
  simp [take?]

theorem sized16?_enc (b r : Bytes) (h : b.length < 65536) :
    sized16? (be16 b.length ++ (b ++ r)) = some (b, r) := by
  unfold sized16?
  rw [u16?_be16 _ _ h]
  exact take?_append b r

theorem be16_length (n : Nat) : (be16 n).length = 2 := rfl
theorem be32_length (n : Nat) : (be32 n).length = 4 := rfl
theorem be64_length (n : Nat) : (be64 n).length = 8 := rfl
theorem encodeTag_length (n : Nat) : (encodeTag n).length = 3 := rfl

theorem sgn8_toU (ty : Int) (h1 : -128 ≤ ty) (h2 : ty ≤ 127) : sgn8 (toU 256 ty) = ty := by
  unfold sgn8 toU
  split <;> split <;> omega

theorem toU_lt (ty : Int) (h1 : -128 ≤ ty) (h2 : ty ≤ 127) : toU 256 ty < 256 := by
  unfold toU; split <;> omega

/-! ### header and frame -/

theorem packI8_ok (ty : Int) (h : inI8 ty = true) : packI8 ty = .ok [toU 256 ty] := by
  simp only [inI8, Bool.and_eq_true, decide_eq_true_eq] at h
  simp [packI8, h.1, h.2]

theorem buildHeader_ok (tag : Nat) (ty : Int) (len : Nat) (hty : inI8 ty = true)
    (hlen : 4 + len < 2147483648) :
    buildHeader tag ty len = .ok (be32 (4 + len) ++ ([toU 256 ty] ++ encodeTag tag)) := by
  have h4 : 1 + 3 + len = 4 + len := by omega
  simp only [buildHeader, packI8_ok ty hty, packLen32, h4, hlen, if_true]

theorem parseHeader_enc (tag : Nat) (ty : Int) (n : Nat) (hty : inI8 ty = true)
    (hn : n < 4294967296) (htag : tag < 16777216) :
    parseHeader (be32 n ++ ([toU 256 ty] ++ encodeTag tag)) = some (n, ty, tag) := by
  simp only [inI8, Bool.and_eq_true, decide_eq_true_eq] at hty
  simp only [be32, encodeTag, parseHeader, List.cons_append, List.nil_append, sgn8_toU ty hty.1 hty.2]
  congr 2
  · omega
  · congr 1; omega

theorem parseFrame_enc (tag : Nat) (ty : Int) (body : Bytes) (hty : inI8 ty = true)
    (hn : 4 + body.length < 4294967296) (htag : tag < 16777216) :
    parseFrame (be32 (4 + body.length) ++ ([toU 256 ty] ++ encodeTag tag) ++ body)
      = some ⟨ty, tag, body⟩ := by
  simp only [inI8, Bool.and_eq_true, decide_eq_true_eq] at hty
  simp only [be32, encodeTag, parseFrame, List.cons_append, List.nil_append, sgn8_toU ty hty.1 hty.2]
  rw [if_pos (by omega)]
  congr 2; omega

/-- the reply-header reader agrees with the independent reading of `type:1 tag:3` -/
theorem readHeader_eq (b0 b1 b2 b3 : Nat) (rest : Bytes) (h0 : b0 < 256) (h1 : b1 < 256)
    (h2 : b2 < 256) (h3 : b3 < 256) :
    readHeader (b0 :: b1 :: b2 :: b3 :: rest) = .ok (sgn8 b0, b1 * 65536 + b2 * 256 + b3) := by
  simp only [readHeader, sgn8]
  congr 2
  · split <;> split <;> omega
  · split <;> omega

/-! ### UTF-8 -/

def isScalar (c : Nat) : Bool := decide (c < 1114112) && !(decide (55296 ≤ c) && decide (c < 57344))

theorem utf8Char_isSome (c : Nat) : (utf8Char c).isSome = isScalar c := by
  unfold utf8Char isScalar
  split
  · simp; omega
  · split
    · simp; omega
    · split
      · split
        · simp; omega
        · simp; omega
      · split
        · simp; omega
        · simp; omega

theorem utf8Char_length_pos (c : Nat) (a : Bytes) (h : utf8Char c = some a) : 1 ≤ a.length := by
  unfold utf8Char at h
  split at h
  · cases h; simp
  · split at h
    · cases h; simp
    · split at h
      · split at h
        · cases h
        · cases h; simp
      · split at h
        · cases h; simp
        · cases h

theorem isCont_enc (x : Nat) : isCont (128 + x % 64) = true := by
  simp only [isCont, Bool.and_eq_true, decide_eq_true_eq]; omega

theorem utf8Step_char (c : Nat) (a rest : Bytes) (h : utf8Char c = some a) :
    utf8Step (a ++ rest) = some (c, rest) := by
  unfold utf8Char at h
  split at h
  · cases h
    simp only [List.cons_append, List.nil_append, utf8Step]
    rw [if_pos (by omega)]
  · split at h
    · cases h
      simp only [List.cons_append, List.nil_append, utf8Step]
      rw [if_neg (by omega), if_neg (by omega), if_pos (by omega)]
      have hv : (192 + c / 64 - 192) * 64 + (128 + c % 64 - 128) = c := by omega
      simp only [hv, isCont_enc, if_true]
    · split at h
      · split at h
        · cases h
        · cases h
          simp only [List.cons_append, List.nil_append, utf8Step]
          rw [if_neg (by omega), if_neg (by omega), if_neg (by omega), if_pos (by omega)]
          have hv : (224 + c / 4096 - 224) * 4096 + (128 + c / 64 % 64 - 128) * 64 + (128 + c % 64 - 128) = c := by
            omega
          simp only [hv, isCont_enc, Bool.true_and]
          rw [if_pos (by simp only [Bool.and_eq_true, decide_eq_true_eq, Bool.not_eq_true', Bool.and_eq_false_iff, decide_eq_false_iff_not]; omega)]
      · split at h
        · cases h
          simp only [List.cons_append, List.nil_append, utf8Step]
          rw [if_neg (by omega), if_neg (by omega), if_neg (by omega), if_neg (by omega), if_pos (by omega)]
          have hv : (240 + c / 262144 - 240) * 262144 + (128 + c / 4096 % 64 - 128) * 4096 +
              (128 + c / 64 % 64 - 128) * 64 + (128 + c % 64 - 128) = c := by omega
          simp only [hv, isCont_enc, Bool.true_and]
          rw [if_pos (by simp only [Bool.and_eq_true, decide_eq_true_eq]; omega)]
        · cases h

theorem utf8DecodeFuel_enc (s : List Nat) : ∀ (bs : Bytes) (f : Nat), utf8 s = some bs → bs.length ≤ f →
    utf8DecodeFuel f bs = some s := by
  induction s with
  | nil =>
    intro bs f h _
    simp only [utf8] at h
    cases h
    cases f <;> rfl
  | cons c cs ih =>
    intro bs f h hf
    simp only [utf8] at h
    cases ha : utf8Char c with
    | none => simp [ha] at h
    | some a =>
      cases hb : utf8 cs with
      | none => simp [ha, hb] at h
      | some b =>
        simp only [ha, hb] at h
        cases h
        have hpos := utf8Char_length_pos c a ha
        cases a with
        | nil => simp at hpos
        | cons a0 ar =>
          cases f with
          | zero => simp at hf
          | succ f =>
            have hstep := utf8Step_char c (a0 :: ar) b ha
            simp only [List.cons_append] at hstep ⊢
            simp only [utf8DecodeFuel, hstep]
            rw [ih b f hb (by simp at hf; omega)]
            rfl

theorem utf8Decode_enc (s : List Nat) (bs : Bytes) (h : utf8 s = some bs) : utf8Decode bs = some s :=
  utf8DecodeFuel_enc s bs bs.length h (Nat.le_refl _)

theorem utf8_isSome_iff (s : List Nat) : (utf8 s).isSome = s.all isScalar := by
  induction s with
  | nil => rfl
  | cons c cs ih =>
    simp only [utf8, List.all_cons, ← ih, ← utf8Char_isSome]
    cases utf8Char c <;> cases utf8 cs <;> rfl

/-! ### `_WriteContext` against the independent pair parser -/

/-- how one entry looks on the wire: both parts preceded by their exact byte length -/
def entryBytes (kv : Text × CtxVal) : Bytes :=
  be16 (rawEntry kv).1.length ++ ((rawEntry kv).1 ++ (be16 (rawEntry kv).2.length ++ (rawEntry kv).2))

theorem packI64_ok (x : Int) (h : inI64 x = true) :
    packI64 x = .ok (be64 (toU 18446744073709551616 x)) := by
  simp only [inI64, Bool.and_eq_true, decide_eq_true_eq] at h
  simp [packI64, h.1, h.2]

theorem packI64_inv (x : Int) (b : Bytes) (h : packI64 x = .ok b) :
    inI64 x = true ∧ b = be64 (toU 18446744073709551616 x) := by
  unfold packI64 at h
  split at h
  · rename_i hc
    cases h
    simp [inI64, hc.1, hc.2]
  · cases h

theorem packLen16_inv (n : Nat) (b : Bytes) (h : packLen16 n = .ok b) : n < 32768 ∧ b = be16 n := by
  unfold packLen16 at h
  split at h
  · cases h; exact ⟨by assumption, rfl⟩
  · cases h

theorem utf8E_inv (s : Text) (b : Bytes) (h : utf8E s = .ok b) : utf8 s = some b := by
  unfold utf8E at h
  split at h
  · cases h; assumption
  · cases h

/-- a successfully written value is its length then its bytes, and the value was in domain -/
theorem writeVal_inv (v : CtxVal) (bs : Bytes) (h : writeVal v = .ok bs) :
    ∃ vb, rawVal v = some vb ∧ valOk v = true ∧ vb.length < 32768 ∧ bs = be16 vb.length ++ vb := by
  cases v with
  | other => simp [writeVal] at h
  | text s =>
    simp only [writeVal] at h
    split at h
    · cases h
    · rename_i sb hs
      split at h
      · cases h
      · rename_i l hl
        cases h
        have hu := utf8E_inv s sb hs
        obtain ⟨hlt, rfl⟩ := packLen16_inv _ _ hl
        exact ⟨sb, by simp [rawVal, hu], by simp [valOk, textOk, hu, hlt], hlt, rfl⟩
  | deadline ts timeout =>
    simp only [writeVal] at h
    split at h
    · rename_i a b ha hb
      cases h
      obtain ⟨h1, rfl⟩ := packI64_inv _ _ ha
      obtain ⟨h2, rfl⟩ := packI64_inv _ _ hb
      refine ⟨_, rfl, by simp [valOk, h1, h2], by simp [be64, be32], ?_⟩
      simp [be64, be32, be16]
    · cases h

theorem writeEntry_inv (k : Text) (v : CtxVal) (bs : Bytes) (h : writeEntry k v = .ok bs) :
    entryOk (k, v) = true ∧ bs = entryBytes (k, v) ∧
      (rawEntry (k, v)).1.length < 32768 ∧ (rawEntry (k, v)).2.length < 32768 := by
  simp only [writeEntry] at h
  split at h
  · cases h
  · rename_i kb hk
    split at h
    · cases h
    · rename_i kl hkl
      split at h
      · cases h
      · rename_i vb hv
        cases h
        have hu := utf8E_inv k kb hk
        obtain ⟨hlt, rfl⟩ := packLen16_inv _ _ hkl
        obtain ⟨raw, hraw, hok, hrl, rfl⟩ := writeVal_inv v vb hv
        refine ⟨by simp [entryOk, textOk, hu, hlt, hok], ?_, by simp [rawEntry, hu, hlt], by simp [rawEntry, hraw, hrl]⟩
        simp [entryBytes, rawEntry, hu, hraw]

theorem writeEntries_inv (d : Dict) : ∀ (bs : Bytes), writeEntries d = .ok bs →
    d.all entryOk = true ∧ bs = (d.map entryBytes).flatten ∧
      ∀ kv ∈ d, (rawEntry kv).1.length < 32768 ∧ (rawEntry kv).2.length < 32768 := by
  induction d with
  | nil => intro bs h; simp only [writeEntries] at h; cases h; simp
  | cons kv rest ih =>
    intro bs h
    obtain ⟨k, v⟩ := kv
    simp only [writeEntries] at h
    split at h
    · cases h
    · rename_i a ha
      split at h
      · cases h
      · rename_i b hb
        cases h
        obtain ⟨hok, rfl, hl1, hl2⟩ := writeEntry_inv k v a ha
        obtain ⟨hall, rfl, hls⟩ := ih b hb
        refine ⟨by simp [hok, hall], by simp, ?_⟩
        intro kv hkv
        simp only [List.mem_cons] at hkv
        rcases hkv with rfl | hkv
        · exact ⟨hl1, hl2⟩
        · exact hls kv hkv

/-- the independent pair parser reads back what the entry writer wrote -/
theorem pairs?_entries (d : Dict) (r : Bytes)
    (hl : ∀ kv ∈ d, (rawEntry kv).1.length < 32768 ∧ (rawEntry kv).2.length < 32768) :
    pairs? d.length ((d.map entryBytes).flatten ++ r) = some (d.map rawEntry, r) := by
  induction d with
  | nil => simp [pairs?]
  | cons kv rest ih =>
    have h1 := (hl kv (by simp)).1
    have h2 := (hl kv (by simp)).2
    have ih' := ih (fun kv h => hl kv (by simp [h]))
    simp only [List.length_cons, List.map_cons, List.flatten_cons, pairs?, entryBytes, List.append_assoc]
    rw [sized16?_enc _ _ (by omega)]
    simp only
    rw [sized16?_enc _ _ (by omega)]
    simp only [ih']

/-! ### in-domain inputs are written without error -/

theorem textOk_inv (s : Text) (h : textOk s = true) : ∃ b, utf8 s = some b ∧ b.length < 32768 := by
  unfold textOk at h
  split at h
  · rename_i b hb; exact ⟨b, hb, by simpa using h⟩
  · cases h

theorem writeVal_ok (v : CtxVal) (h : valOk v = true) :
    writeVal v = .ok (be16 ((rawVal v).getD []).length ++ (rawVal v).getD []) ∧
      ((rawVal v).getD []).length < 32768 := by
  cases v with
  | other => simp [valOk] at h
  | text s =>
    obtain ⟨b, hb, hlt⟩ := textOk_inv s h
    simp [writeVal, utf8E, rawVal, hb, packLen16, hlt]
  | deadline ts timeout =>
    simp only [valOk, Bool.and_eq_true] at h
    simp [writeVal, rawVal, packI64_ok _ h.1, packI64_ok _ h.2, be64, be32, be16]

theorem writeEntry_ok (kv : Text × CtxVal) (h : entryOk kv = true) :
    writeEntry kv.1 kv.2 = .ok (entryBytes kv) ∧
      (rawEntry kv).1.length < 32768 ∧ (rawEntry kv).2.length < 32768 := by
  obtain ⟨k, v⟩ := kv
  simp only [entryOk, Bool.and_eq_true] at h
  obtain ⟨b, hb, hlt⟩ := textOk_inv k h.1
  obtain ⟨hv, hvl⟩ := writeVal_ok v h.2
  simp [writeEntry, utf8E, hb, packLen16, hlt, hv, entryBytes, rawEntry, hvl]

theorem writeEntries_ok (d : Dict) (h : d.all entryOk = true) :
    writeEntries d = .ok (d.map entryBytes).flatten := by
  induction d with
  | nil => rfl
  | cons kv rest ih =>
    simp only [List.all_cons, Bool.and_eq_true] at h
    obtain ⟨k, v⟩ := kv
    have h1 := (writeEntry_ok (k, v) h.1).1
    simp only at h1
    simp [writeEntries, h1, ih h.2]

def ctxBytes (d : Dict) : Bytes := be16 d.length ++ (d.map entryBytes).flatten

theorem writeContext_ok (d : Dict) (h : dictOk d = true) : writeContext d = .ok (ctxBytes d) := by
  simp only [dictOk, Bool.and_eq_true, decide_eq_true_eq] at h
  simp [writeContext, packLen16, h.1, writeEntries_ok d h.2, ctxBytes]

theorem writeContext_inv (d : Dict) (bs : Bytes) (h : writeContext d = .ok bs) :
    dictOk d = true ∧ bs = ctxBytes d := by
  simp only [writeContext] at h
  split at h
  · cases h
  · rename_i n hn
    split at h
    · cases h
    · rename_i b hb
      cases h
      obtain ⟨hlt, rfl⟩ := packLen16_inv _ _ hn
      obtain ⟨hall, rfl, _⟩ := writeEntries_inv d b hb
      exact ⟨by simp [dictOk, hlt, hall], rfl⟩

theorem entryBytes_length (kv : Text × CtxVal) : (entryBytes kv).length = entrySize kv := by
  simp [entryBytes, entrySize, be16]; omega

theorem ctxBytes_length (d : Dict) : (ctxBytes d).length = 2 + (d.map entrySize).sum := by
  simp only [ctxBytes, List.length_append, be16_length]
  congr 1
  induction d with
  | nil => rfl
  | cons kv rest ih => simp [entryBytes_length, ih]

theorem dictOk_lengths (d : Dict) (h : dictOk d = true) :
    ∀ kv ∈ d, (rawEntry kv).1.length < 32768 ∧ (rawEntry kv).2.length < 32768 := by
  simp only [dictOk, Bool.and_eq_true, List.all_eq_true] at h
  intro kv hkv
  exact (writeEntry_ok kv (h.2 kv hkv)).2

/-- the independent Tdispatch parser on what `_Marshal_Tdispatch` writes -/
theorem parseTdispatch_enc (d : Dict) (payload : Bytes) (h : dictOk d = true) :
    parseTdispatch (ctxBytes d ++ ([0, 0, 0, 0] ++ payload)) = some ⟨d.map rawEntry, [], [], payload⟩ := by
  have hn : d.length < 65536 := by
    simp only [dictOk, Bool.and_eq_true, decide_eq_true_eq] at h; omega
  unfold parseTdispatch ctxBytes
  rw [List.append_assoc, u16?_be16 _ _ hn]
  simp only
  rw [pairs?_entries d _ (dictOk_lengths d h)]
  simp [sized16?, u16?, take?, pairs?]

/-! ### the insertion-ordered dictionary -/

def Dict.keys (d : Dict) : List Text := d.map Prod.fst

theorem Dict.keys_set (d : Dict) (k : Text) (v : CtxVal) :
    (d.set k v).keys = if k ∈ d.keys then d.keys else d.keys ++ [k] := by
  induction d with
  | nil => simp [Dict.set, Dict.keys]
  | cons kv rest ih =>
    obtain ⟨k', v'⟩ := kv
    simp only [Dict.set]
    by_cases hk : k' = k
    · subst hk; simp [Dict.keys]
    · simp only [hk, if_false]
      simp only [Dict.keys, List.map_cons, List.mem_cons] at ih ⊢
      rw [ih]
      have hk' : ¬ k = k' := fun h => hk h.symm
      by_cases hm : k ∈ List.map Prod.fst rest <;> simp [hm, hk']

theorem Dict.nodup_set (d : Dict) (k : Text) (v : CtxVal) (h : d.keys.Nodup) : (d.set k v).keys.Nodup := by
  rw [Dict.keys_set]
  split
  · exact h
  · rename_i hk
    rw [List.nodup_append]
    refine ⟨h, by simp, ?_⟩
    intro a ha b hb
    simp only [List.mem_singleton] at hb
    subst hb
    intro hab; subst hab; exact hk ha

theorem Dict.get?_set (d : Dict) (k : Text) (v : CtxVal) (k' : Text) :
    (d.set k v).get? k' = if k = k' then some v else d.get? k' := by
  induction d with
  | nil => simp [Dict.set, Dict.get?]
  | cons kv rest ih =>
    obtain ⟨k0, v0⟩ := kv
    simp only [Dict.set]
    by_cases hk : k0 = k
    · subst hk
      by_cases hk' : k0 = k' <;> simp [Dict.get?, hk']
    · simp only [hk, if_false, Dict.get?, ih]
      by_cases hk' : k0 = k'
      · subst hk'; simp [Ne.symm hk]
      · simp [hk']

theorem Dict.nodup_update (xs : List (Text × CtxVal)) : ∀ (d : Dict), d.keys.Nodup → (d.update xs).keys.Nodup := by
  induction xs with
  | nil => intro d h; exact h
  | cons x xs ih => intro d h; exact ih _ (Dict.nodup_set d x.1 x.2 h)

theorem Dict.get?_update (xs : List (Text × CtxVal)) : ∀ (d : Dict) (k : Text),
    (d.update xs).get? k = match lastAssign xs k with | some v => some v | none => d.get? k := by
  induction xs with
  | nil => intro d k; rfl
  | cons x xs ih =>
    intro d k
    obtain ⟨k0, v0⟩ := x
    simp only [Dict.update, List.foldl_cons] at ih ⊢
    rw [ih]
    simp only [lastAssign]
    cases lastAssign xs k with
    | some w => rfl
    | none =>
      simp only [Dict.get?_set]
      by_cases hk : k0 = k <;> simp [hk]

theorem Dict.get?_eq_none (d : Dict) (k : Text) : d.get? k = none ↔ k ∉ d.keys := by
  induction d with
  | nil => simp [Dict.get?, Dict.keys]
  | cons kv rest ih =>
    obtain ⟨k0, v0⟩ := kv
    simp only [Dict.get?, Dict.keys, List.map_cons, List.mem_cons, not_or] at ih ⊢
    by_cases hk : k0 = k
    · subst hk; simp
    · simp only [hk, if_false, ih]
      exact ⟨fun h => ⟨fun h' => hk h'.symm, h⟩, fun h => h.2⟩

/-- on a dictionary (unique keys) the last assignment is the only one -/
theorem lastAssign_eq_get? (d : Dict) (h : d.keys.Nodup) (k : Text) : lastAssign d k = d.get? k := by
  induction d with
  | nil => rfl
  | cons kv rest ih =>
    obtain ⟨k0, v0⟩ := kv
    simp only [Dict.keys, List.map_cons, List.nodup_cons] at h
    simp only [lastAssign, Dict.get?]
    rw [ih h.2]
    by_cases hk : k0 = k
    · subst hk
      have : Dict.get? rest k0 = none := (Dict.get?_eq_none rest k0).2 h.1
      simp [this]
    · simp only [hk, if_false]
      cases Dict.get? rest k <;> rfl

theorem publicProps_get? (d : Dict) (k : Text) :
    (publicProps d).get? k = if isPrivate k then none else d.get? k := by
  induction d with
  | nil => simp [publicProps, Dict.get?]
  | cons kv rest ih =>
    obtain ⟨k0, v0⟩ := kv
    simp only [publicProps, List.filter_cons] at ih ⊢
    by_cases hp : isPrivate k0
    · simp only [hp, Bool.not_true, Bool.false_eq_true, if_false, ih, Dict.get?]
      by_cases hk : k0 = k
      · subst hk; simp [hp]
      · simp [hk]
    · simp only [hp, Bool.not_false, if_true, Dict.get?, ih]
      by_cases hk : k0 = k
      · subst hk; simp [hp]
      · simp [hk]

theorem publicProps_nodup (d : Dict) (h : d.keys.Nodup) : (publicProps d).keys.Nodup := by
  unfold publicProps Dict.keys at *
  exact List.Nodup.sublist (List.Sublist.map _ List.filter_sublist) h

theorem dispatchCtx_nodup (props hdrs : List (Text × CtxVal)) : (dispatchCtx props hdrs).keys.Nodup := by
  unfold dispatchCtx
  apply Dict.nodup_update
  apply Dict.nodup_update
  simp [Dict.keys]

theorem dispatchCtx_get? (props hdrs : List (Text × CtxVal)) (k : Text) :
    (dispatchCtx props hdrs).get? k = want props hdrs k := by
  have hn : ∀ xs : List (Text × CtxVal), (Dict.update [] xs).keys.Nodup :=
    fun xs => Dict.nodup_update xs [] (by simp [Dict.keys])
  have hg : ∀ (xs : List (Text × CtxVal)) (k : Text), (Dict.update [] xs).get? k = lastAssign xs k := by
    intro xs k
    rw [Dict.get?_update]
    cases lastAssign xs k <;> rfl
  unfold dispatchCtx want
  rw [Dict.get?_update, lastAssign_eq_get? _ (hn hdrs), hg hdrs]
  cases lastAssign hdrs k with
  | some v => rfl
  | none =>
    simp only
    rw [hg, lastAssign_eq_get? _ (publicProps_nodup _ (hn props)), publicProps_get?, hg]

/-! ### whole messages -/

/-- type byte and body of an in-domain message -/
def bodyOf : Msg → Int × Bytes
  | .call props hdrs payload => (tDispatch, ctxBytes (dispatchCtx props hdrs) ++ ([0, 0, 0, 0] ++ payload))
  | .discard which reason => (tDiscarded, encodeTag which ++ (utf8 reason).getD [])
  | .ping => (tPing, [])

theorem bodyOf_length (m : Msg) : (bodyOf m).2.length = bodySize m := by
  cases m with
  | call props hdrs payload => simp [bodyOf, bodySize, ctxBytes_length]; omega
  | discard which reason => simp [bodyOf, bodySize, encodeTag]; omega
  | ping => rfl

theorem bodyOf_type (m : Msg) : inI8 (bodyOf m).1 = true := by
  cases m <;> simp [bodyOf, inI8, tDispatch, tDiscarded, tPing]

theorem inDomain_size (m : Msg) (h : m.inDomain = true) : 4 + bodySize m < 2147483648 := by
  simp only [Msg.inDomain, Bool.and_eq_true, decide_eq_true_eq] at h
  exact h.1

theorem marshal_ok (m : Msg) (h : m.inDomain = true) (hp : m ≠ .ping) : marshal m = .ok (bodyOf m) := by
  cases m with
  | call props hdrs payload =>
    simp only [Msg.inDomain, Bool.and_eq_true] at h
    simp [marshal, writeContext_ok _ h.2, bodyOf]
  | discard which reason =>
    simp only [Msg.inDomain, Bool.and_eq_true, Option.isSome_iff_exists] at h
    obtain ⟨_, _, r, hr⟩ := h
    simp [marshal, utf8E, hr, bodyOf]
  | ping => exact absurd rfl hp

theorem frameOf_ok (tag : Nat) (ty : Int) (body : Bytes) (hty : inI8 ty = true)
    (hlen : 4 + body.length < 2147483648) :
    frameOf tag ty body = .ok (be32 (4 + body.length) ++ ([toU 256 ty] ++ encodeTag tag) ++ body) := by
  simp only [frameOf, buildHeader_ok tag ty body.length hty hlen]

theorem wire_ok (tag : Nat) (m : Msg) (h : m.inDomain = true) :
    wire tag m = .ok (be32 (4 + (bodyOf m).2.length) ++ ([toU 256 (bodyOf m).1] ++ encodeTag tag) ++ (bodyOf m).2) := by
  have hsz : 4 + (bodyOf m).2.length < 2147483648 := by
    rw [bodyOf_length]; exact inDomain_size m h
  cases m with
  | ping => exact frameOf_ok tag tPing [] (by decide) (by simp)
  | call props hdrs payload =>
    simp only [wire, marshal_ok _ h (by simp)]
    exact frameOf_ok tag _ _ (bodyOf_type _) hsz
  | discard which reason =>
    simp only [wire, marshal_ok _ h (by simp)]
    exact frameOf_ok tag _ _ (bodyOf_type _) hsz

theorem parseTdiscarded_enc (which : Nat) (why : Bytes) (h : which < 16777216) :
    parseTdiscarded (encodeTag which ++ why) = some (which, why) := by
  simp only [encodeTag, parseTdiscarded, List.cons_append, List.nil_append]
  congr 2; omega

theorem checkBody_bodyOf (idx : Nat) (m : Msg) (h : m.inDomain = true) :
    checkBody idx m (bodyOf m).1 (bodyOf m).2 = .ok := by
  cases m with
  | call props hdrs payload =>
    simp only [Msg.inDomain, Bool.and_eq_true] at h
    simp only [checkBody, bodyOf, parseTdispatch_enc _ payload h.2, expectedCtx]
    have hp : ((dispatchCtx props hdrs).map rawEntry).isPerm ((dispatchCtx props hdrs).map rawEntry) = true :=
      List.isPerm_iff.2 (List.Perm.refl _)
    simp [hp]
  | discard which reason =>
    simp only [Msg.inDomain, Bool.and_eq_true, decide_eq_true_eq, Option.isSome_iff_exists] at h
    obtain ⟨_, hw, r, hr⟩ := h
    simp [checkBody, bodyOf, hr, parseTdiscarded_enc which r hw]
  | ping => simp [checkBody, bodyOf]

/-! ### the model satisfies the executable specification -/

theorem checkFrame_ok (idx : Nat) (tag : Nat) (m : Msg) (h : m.inDomain = true) (bs : Bytes)
    (hp : parseFrame bs = some ⟨(bodyOf m).1, tag, (bodyOf m).2⟩) : checkFrame idx tag m bs = .ok := by
  unfold checkFrame
  rw [hp]
  simp only [ne_eq, not_true_eq_false, if_false]
  exact checkBody_bodyOf idx m h

theorem parseFrame_wire (tag : Nat) (m : Msg) (h : m.inDomain = true) (htag : tag < 16777216) :
    parseFrame (be32 (4 + (bodyOf m).2.length) ++ ([toU 256 (bodyOf m).1] ++ encodeTag tag) ++ (bodyOf m).2)
      = some ⟨(bodyOf m).1, tag, (bodyOf m).2⟩ := by
  have hsz : 4 + (bodyOf m).2.length < 4294967296 := by
    rw [bodyOf_length]; have := inDomain_size m h; omega
  exact parseFrame_enc tag _ _ (bodyOf_type m) hsz htag

/-! ### the byte stream: whole frames, one after the other -/

/-- the canonical bytes of a frame -/
def encFrame (f : Frame) : Bytes :=
  be32 (4 + f.body.length) ++ ([toU 256 f.ty] ++ encodeTag f.tag) ++ f.body

theorem encFrame_length (f : Frame) : (encFrame f).length = 8 + f.body.length := by
  simp [encFrame, be32, encodeTag]; omega

theorem be32_val (n : Nat) (h : n < 4294967296) :
    n / 16777216 % 256 * 16777216 + n / 65536 % 256 * 65536 + n / 256 % 256 * 256 + n % 256 = n := by
  omega

theorem u32?_be32 (n : Nat) (r : Bytes) (h : n < 4294967296) : u32? (be32 n ++ r) = some n := by
  simp only [be32, u32?, List.cons_append, List.nil_append, be32_val n h]

/-- a chunk that starts with its own length prefix comes off the front of any stream -/
theorem splitStreamFuel_cons (n : Nat) (x rest : Bytes) (fuel : Nat) (hn : n < 4294967296) (h4 : 4 ≤ n)
    (hx : x.length = n) :
    splitStreamFuel (fuel + 1) (be32 n ++ x ++ rest) =
      match splitStreamFuel fuel rest with
      | none => none
      | some cs => some ((be32 n ++ x) :: cs) := by
  have hne : (be32 n ++ x ++ rest).isEmpty = false := by simp [be32]
  have hu : u32? (be32 n ++ x ++ rest) = some n := by
    rw [List.append_assoc]; exact u32?_be32 n _ hn
  have ht : take? (4 + n) (be32 n ++ x ++ rest) = some (be32 n ++ x, rest) := by
    have := take?_append (be32 n ++ x) rest
    rw [List.length_append, be32_length, hx] at this
    exact this
  rw [splitStreamFuel]
  simp only [hne, hu, ht, Bool.false_eq_true, if_false, Nat.not_lt.2 h4]
  cases splitStreamFuel fuel rest <;> rfl


theorem splitStreamFuel_nil (fuel : Nat) : splitStreamFuel fuel [] = some [] := by
  cases fuel <;> simp [splitStreamFuel]

/-- a byte string that begins with the 4-byte count of the bytes that follow it (≥ 4: type and tag) -/
def isChunk (c : Bytes) : Prop := ∃ n x, c = be32 n ++ x ∧ x.length = n ∧ 4 ≤ n ∧ n < 4294967296

theorem isChunk_length {c : Bytes} (h : isChunk c) : 8 ≤ c.length := by
  obtain ⟨n, x, rfl, hx, h4, _⟩ := h
  simp [be32]; omega

/-- prefix code: a concatenation of chunks splits back into exactly those chunks -/
theorem splitStreamFuel_flatten (cs : List Bytes) : ∀ (fuel : Nat), (∀ c ∈ cs, isChunk c) →
    cs.flatten.length ≤ fuel → splitStreamFuel fuel cs.flatten = some cs := by
  induction cs with
  | nil => intro fuel _ _; exact splitStreamFuel_nil fuel
  | cons c cs ih =>
    intro fuel hok hlen
    have hc := hok c List.mem_cons_self
    have h8 := isChunk_length hc
    obtain ⟨n, x, rfl, hx, h4, hn⟩ := hc
    simp only [List.flatten_cons, List.length_append] at hlen ⊢
    obtain ⟨fuel', rfl⟩ : ∃ k, fuel = k + 1 := ⟨fuel - 1, by simp only [List.length_append] at h8; omega⟩
    rw [splitStreamFuel_cons n x _ fuel' hn h4 hx,
      ih fuel' (fun g hg => hok g (List.mem_cons_of_mem _ hg)) (by simp only [List.length_append] at h8; omega)]

theorem splitStream_flatten (cs : List Bytes) (h : ∀ c ∈ cs, isChunk c) : splitStream cs.flatten = some cs :=
  splitStreamFuel_flatten cs _ h (Nat.le_refl _)

theorem isChunk_encFrame (f : Frame) (h : 4 + f.body.length < 4294967296) : isChunk (encFrame f) := by
  refine ⟨4 + f.body.length, [toU 256 f.ty] ++ encodeTag f.tag ++ f.body, ?_, ?_, by omega, h⟩
  · simp [encFrame]
  · simp [encodeTag]; omega

def frameOk (f : Frame) : Bool :=
  inI8 f.ty && decide (f.tag < 16777216) && decide (4 + f.body.length < 4294967296)

theorem parseFrame_encFrame (f : Frame) (h : frameOk f = true) : parseFrame (encFrame f) = some f := by
  simp only [frameOk, Bool.and_eq_true, decide_eq_true_eq] at h
  obtain ⟨ty, tag, body⟩ := f
  exact parseFrame_enc tag ty body h.1.1 h.2 h.1.2

theorem parseFrames_enc (fs : List Frame) (h : ∀ f ∈ fs, frameOk f = true) :
    parseFrames (fs.map encFrame) = some fs := by
  induction fs with
  | nil => rfl
  | cons f fs ih =>
    simp only [List.map_cons, parseFrames, parseFrame_encFrame f (h f List.mem_cons_self),
      ih (fun g hg => h g (List.mem_cons_of_mem _ hg))]

/-- framing: the concatenation of any frames parses back into exactly those frames -/
theorem parseStream_enc (fs : List Frame) (h : ∀ f ∈ fs, frameOk f = true) :
    parseStream ((fs.map encFrame).flatten) = some fs := by
  have hc : ∀ c ∈ fs.map encFrame, isChunk c := by
    intro c hc
    obtain ⟨f, hf, rfl⟩ := List.mem_map.1 hc
    have := h f hf
    simp only [frameOk, Bool.and_eq_true, decide_eq_true_eq] at this
    exact isChunk_encFrame f this.2
  simp only [parseStream, splitStream_flatten _ hc]
  exact parseFrames_enc fs h

/-- the frame an in-domain message is written as -/
def frameOfItem (it : Nat × Msg) : Frame := ⟨(bodyOf it.2).1, it.1, (bodyOf it.2).2⟩

theorem frameOfItem_ok (it : Nat × Msg) (h : itemOk it = true) : frameOk (frameOfItem it) = true := by
  simp only [itemOk, Bool.and_eq_true, decide_eq_true_eq] at h
  have hs := inDomain_size it.2 h.1
  simp only [frameOk, frameOfItem, bodyOf_type, bodyOf_length, Bool.true_and, Bool.and_eq_true, decide_eq_true_eq]
  exact ⟨decide_eq_true h.2, by omega⟩

theorem wire_item (it : Nat × Msg) (h : itemOk it = true) : wire it.1 it.2 = .ok (encFrame (frameOfItem it)) := by
  simp only [itemOk, Bool.and_eq_true] at h
  exact wire_ok it.1 it.2 h.1

theorem streamOf_ok (items : List (Nat × Msg)) (h : items.all itemOk = true) :
    streamOf items = ((items.map frameOfItem).map encFrame).flatten := by
  induction items with
  | nil => rfl
  | cons it items ih =>
    simp only [List.all_cons, Bool.and_eq_true] at h
    obtain ⟨t, m⟩ := it
    have hw := wire_item (t, m) h.1
    simp only at hw
    simp only [streamOf, hw, ih h.2, List.map_cons, List.flatten_cons]

theorem takeMatch_head (idx : Nat) (it : Nat × Msg) (rest : List (Nat × Msg)) (h : itemOk it = true) :
    takeMatch idx (frameOfItem it) (it :: rest) = some rest := by
  simp only [itemOk, Bool.and_eq_true] at h
  obtain ⟨t, m⟩ := it
  simp only [takeMatch, frameOfItem, checkBody_bodyOf idx m h.1, Verdict.isOk, and_self, if_true]

theorem matchFrames_items (idx : Nat) (items : List (Nat × Msg)) (h : items.all itemOk = true) :
    matchFrames idx (items.map frameOfItem) items = .ok := by
  induction items with
  | nil => rfl
  | cons it items ih =>
    simp only [List.all_cons, Bool.and_eq_true] at h
    simp only [List.map_cons, matchFrames, takeMatch_head idx it items h.1]
    exact ih h.2

theorem checkStream_model (idx : Nat) (items : List (Nat × Msg)) (h : items.all itemOk = true) :
    checkStream idx items (.bytes (streamOf items)) = .ok := by
  have hok : ∀ f ∈ items.map frameOfItem, frameOk f = true := by
    intro f hf
    obtain ⟨it, hit, rfl⟩ := List.mem_map.1 hf
    exact frameOfItem_ok it (List.all_eq_true.1 h it hit)
  simp only [checkStream, streamOf_ok items h, parseStream_enc _ hok]
  exact matchFrames_items idx items h

theorem specObs_run (idx : Nat) (op : Op) : specObs idx op (run op) = .ok := by
  cases op with
  | utf8 s => simp only [specObs]
  | utf8d b => simp only [specObs]
  | unmarshal ty b => simp only [specObs]
  | reply b => simp only [specObs]
  | hdr tag ty len =>
    simp only [specObs]
    split
    · rename_i hg
      simp only [Bool.and_eq_true, decide_eq_true_eq] at hg
      obtain ⟨⟨hty, htag⟩, hlen⟩ := hg
      simp only [run, buildHeader_ok tag ty len hty hlen, obsBytes, checkHdr,
        parseHeader_enc tag ty (4 + len) hty (by omega) htag, if_true]
    · rfl
  | rdhdr b =>
    simp only [specObs]
    split
    · rename_i ty tag hp
      split
      · rename_i hall
        match b, hp, hall with
        | b0 :: b1 :: b2 :: b3 :: rest, hp, hall =>
          simp only [List.all_cons, Bool.and_eq_true, decide_eq_true_eq] at hall
          simp only [parseHead, Option.some.injEq, Prod.mk.injEq] at hp
          simp only [run, readHeader_eq b0 b1 b2 b3 rest hall.1 hall.2.1 hall.2.2.1 hall.2.2.2.1, hp.1, hp.2,
            checkRdhdr, and_self, if_true]
      · rfl
    · rfl
  | marshal m =>
    simp only [specObs]
    split
    · rename_i hg
      simp only [Bool.and_eq_true, bne_iff_ne, ne_eq] at hg
      simp only [run, marshal_ok m hg.1 hg.2, checkMarshal]
      exact checkBody_bodyOf idx m hg.1
    · rfl
  | wire tag m =>
    simp only [specObs]
    split
    · rename_i hg
      simp only [Bool.and_eq_true, decide_eq_true_eq] at hg
      simp only [run, wire_ok tag m hg.1, obsBytes, checkWire]
      exact checkFrame_ok idx tag m hg.1 _ (parseFrame_wire tag m hg.1 hg.2)
    · rfl
  | stream items =>
    simp only [specObs]
    split
    · rename_i hg
      exact checkStream_model idx items hg
    · rfl

theorem specGo_trace (ops : List Op) : ∀ idx, specGo idx (comp.trace () () ops) = .ok := by
  induction ops with
  | nil => intro idx; rfl
  | cons op ops ih =>
    intro idx
    simp only [TComp.trace, comp, step, specGo, specObs_run, Verdict.and]
    exact ih (idx + 1)

theorem decodeWire_of_parse (tag : Nat) (m : Msg) (hd : m.inDomain = true) (bs : Bytes)
    (hp : parseFrame bs = some ⟨(bodyOf m).1, tag, (bodyOf m).2⟩) :
    decodeWire bs = some (expectedOf tag m) := by
  unfold decodeWire
  rw [hp]
  cases m with
  | call props hdrs payload =>
    simp only [Msg.inDomain, Bool.and_eq_true] at hd
    have hpd := parseTdispatch_enc _ payload hd.2
    simp only [bodyOf, tDispatch, if_true, hpd, expectedOf, expectedCtx]
  | discard which reason =>
    simp only [Msg.inDomain, Bool.and_eq_true, decide_eq_true_eq, Option.isSome_iff_exists] at hd
    obtain ⟨_, hw, r, hr⟩ := hd
    have hpd := parseTdiscarded_enc which r hw
    simp [bodyOf, tDiscarded, hr, hpd, expectedOf]
  | ping => simp [bodyOf, tPing, expectedOf]

/-! ### inversion of the header writer -/

theorem packI8_inv (ty : Int) (b : Bytes) (h : packI8 ty = .ok b) : inI8 ty = true ∧ b = [toU 256 ty] := by
  unfold packI8 at h
  split at h
  · rename_i hc; cases h; simp [inI8, hc.1, hc.2]
  · cases h

theorem packLen32_inv (n : Nat) (b : Bytes) (h : packLen32 n = .ok b) : n < 2147483648 ∧ b = be32 n := by
  unfold packLen32 at h
  split at h
  · cases h; exact ⟨by assumption, rfl⟩
  · cases h

theorem buildHeader_inv (tag : Nat) (ty : Int) (len : Nat) (bs : Bytes) (h : buildHeader tag ty len = .ok bs) :
    inI8 ty = true ∧ 4 + len < 2147483648 ∧ bs = be32 (4 + len) ++ ([toU 256 ty] ++ encodeTag tag) := by
  simp only [buildHeader] at h
  split at h
  · rename_i l t hl ht
    cases h
    obtain ⟨h1, rfl⟩ := packLen32_inv _ _ hl
    obtain ⟨h2, rfl⟩ := packI8_inv _ _ ht
    have h4 : 1 + 3 + len = 4 + len := by omega
    rw [h4] at h1 ⊢
    exact ⟨h2, h1, rfl⟩
  · cases h

theorem frameOf_inv (tag : Nat) (ty : Int) (body bs : Bytes) (h : frameOf tag ty body = .ok bs) :
    inI8 ty = true ∧ 4 + body.length < 2147483648 ∧
      bs = be32 (4 + body.length) ++ ([toU 256 ty] ++ encodeTag tag) ++ body := by
  simp only [frameOf] at h
  split at h
  · cases h
  · rename_i hd hh
    cases h
    obtain ⟨h1, h2, rfl⟩ := buildHeader_inv _ _ _ _ hh
    exact ⟨h1, h2, rfl⟩

theorem wire_inv (tag : Nat) (m : Msg) (bs : Bytes) (h : wire tag m = .ok bs) :
    ∃ ty body, inI8 ty = true ∧ 4 + body.length < 2147483648 ∧
      bs = be32 (4 + body.length) ++ ([toU 256 ty] ++ encodeTag tag) ++ body := by
  cases m with
  | ping =>
    simp only [wire] at h
    exact ⟨_, _, frameOf_inv _ _ _ _ h⟩
  | call props hdrs payload =>
    simp only [wire] at h
    split at h
    · cases h
    · exact ⟨_, _, frameOf_inv _ _ _ _ h⟩
  | discard which reason =>
    simp only [wire] at h
    split at h
    · cases h
    · exact ⟨_, _, frameOf_inv _ _ _ _ h⟩

/-! ### signed 64-bit values -/

theorem i64?_be64 (x : Int) (h : inI64 x = true) : i64? (be64 (toU 18446744073709551616 x)) = some x := by
  simp only [inI64, Bool.and_eq_true, decide_eq_true_eq] at h
  simp only [be64, be32, i64?, List.cons_append, List.nil_append, Option.some.injEq]
  generalize hn : toU 18446744073709551616 x = n
  have hx : (x < 0 → (n : Int) = x + 18446744073709551616) ∧ (0 ≤ x → (n : Int) = x) := by
    subst hn; unfold toU; constructor <;> intro hx <;> split <;> omega
  have hu : ((((((n / 4294967296 % 4294967296 / 16777216 % 256 * 256 + n / 4294967296 % 4294967296 / 65536 % 256) * 256 +
      n / 4294967296 % 4294967296 / 256 % 256) * 256 + n / 4294967296 % 4294967296 % 256) * 256 +
      n % 4294967296 / 16777216 % 256) * 256 + n % 4294967296 / 65536 % 256) * 256 +
      n % 4294967296 / 256 % 256) * 256 + n % 4294967296 % 256 = n := by
    have : n < 18446744073709551616 := by omega
    omega
  rw [hu]
  split <;> omega

/-! ### the decoder accepts one byte string per value (canonical form) -/

def allBytes (bs : Bytes) : Prop := ∀ b ∈ bs, b < 256

theorem allBytes_append {a b : Bytes} : allBytes (a ++ b) ↔ allBytes a ∧ allBytes b := by
  simp only [allBytes, List.mem_append]
  exact ⟨fun h => ⟨fun x hx => h x (Or.inl hx), fun x hx => h x (Or.inr hx)⟩,
         fun h x hx => hx.elim (h.1 x) (h.2 x)⟩

theorem u16?_inv (bs r : Bytes) (n : Nat) (hb : allBytes bs) (h : u16? bs = some (n, r)) :
    bs = be16 n ++ r ∧ n < 65536 := by
  match bs, h with
  | a :: b :: r', h =>
    simp only [u16?, Option.some.injEq, Prod.mk.injEq] at h
    obtain ⟨rfl, rfl⟩ := h
    have ha := hb a (by simp)
    have hb' := hb b (by simp)
    refine ⟨?_, by omega⟩
    simp only [be16, List.cons_append, List.nil_append]
    congr 1
    · omega
    · congr 1; omega

theorem take?_inv (n : Nat) (bs x r : Bytes) (h : take? n bs = some (x, r)) : bs = x ++ r ∧ x.length = n := by
  unfold take? at h
  split at h
  · simp only [Option.some.injEq, Prod.mk.injEq] at h
    obtain ⟨rfl, rfl⟩ := h
    exact ⟨(List.take_append_drop n bs).symm, by simp; omega⟩
  · cases h

theorem sized16?_inv (bs x r : Bytes) (hb : allBytes bs) (h : sized16? bs = some (x, r)) :
    bs = be16 x.length ++ (x ++ r) ∧ x.length < 65536 := by
  unfold sized16? at h
  split at h
  · rename_i n r' hu
    obtain ⟨rfl, hn⟩ := u16?_inv _ _ _ hb hu
    obtain ⟨rfl, rfl⟩ := take?_inv _ _ _ _ h
    exact ⟨rfl, hn⟩
  · cases h

/-- a length-prefixed pair as the frame description writes it -/
def pairBytes (kv : Bytes × Bytes) : Bytes := be16 kv.1.length ++ (kv.1 ++ (be16 kv.2.length ++ kv.2))

theorem pairs?_inv : ∀ (n : Nat) (bs : Bytes) (ps : List (Bytes × Bytes)) (r : Bytes), allBytes bs →
    pairs? n bs = some (ps, r) → bs = (ps.map pairBytes).flatten ++ r ∧ ps.length = n := by
  intro n
  induction n with
  | zero =>
    intro bs ps r _ h
    simp only [pairs?, Option.some.injEq, Prod.mk.injEq] at h
    obtain ⟨rfl, rfl⟩ := h
    simp
  | succ n ih =>
    intro bs ps r hb h
    simp only [pairs?] at h
    split at h
    · cases h
    · rename_i k r1 hk
      split at h
      · cases h
      · rename_i v r2 hv
        split at h
        · cases h
        · rename_i ps' r3 hp
          simp only [Option.some.injEq, Prod.mk.injEq] at h
          obtain ⟨rfl, rfl⟩ := h
          obtain ⟨rfl, _⟩ := sized16?_inv _ _ _ hb hk
          have hb1 : allBytes r1 := (allBytes_append.1 (allBytes_append.1 hb).2).2
          obtain ⟨rfl, _⟩ := sized16?_inv _ _ _ hb1 hv
          have hb2 : allBytes r2 := (allBytes_append.1 (allBytes_append.1 hb1).2).2
          obtain ⟨rfl, hlen⟩ := ih _ _ _ hb2 hp
          refine ⟨?_, by simp [hlen]⟩
          simp [pairBytes, List.append_assoc]

theorem encodeTag_horner (a b c : Nat) (ha : a < 256) (hb : b < 256) (hc : c < 256) :
    encodeTag (a * 65536 + b * 256 + c) = [a, b, c] := by
  have e5 : (a * 65536 + b * 256 + c) / 65536 % 256 = a := by omega
  have e6 : (a * 65536 + b * 256 + c) / 256 % 256 = b := by omega
  have e7 : (a * 65536 + b * 256 + c) % 256 = c := by omega
  simp only [encodeTag, e5, e6, e7]

theorem be32_horner (l0 l1 l2 l3 : Nat) (h0 : l0 < 256) (h1 : l1 < 256) (h2 : l2 < 256) (h3 : l3 < 256) :
    be32 (l0 * 16777216 + l1 * 65536 + l2 * 256 + l3) = [l0, l1, l2, l3] := by
  have e0 : (l0 * 16777216 + l1 * 65536 + l2 * 256 + l3) / 16777216 % 256 = l0 := by omega
  have e1 : (l0 * 16777216 + l1 * 65536 + l2 * 256 + l3) / 65536 % 256 = l1 := by omega
  have e2 : (l0 * 16777216 + l1 * 65536 + l2 * 256 + l3) / 256 % 256 = l2 := by omega
  have e3 : (l0 * 16777216 + l1 * 65536 + l2 * 256 + l3) % 256 = l3 := by omega
  simp only [be32, e0, e1, e2, e3]

theorem toU_sgn8 (t : Nat) (ht : t < 256) : toU 256 (sgn8 t) = t := by
  unfold toU sgn8; split <;> split <;> omega

theorem parseFrame_inv (bs : Bytes) (f : Frame) (hb : allBytes bs) (h : parseFrame bs = some f) :
    bs = be32 (4 + f.body.length) ++ ([toU 256 f.ty] ++ encodeTag f.tag) ++ f.body ∧
      4 + f.body.length < 4294967296 := by
  match bs, h with
  | l0 :: l1 :: l2 :: l3 :: t :: a :: b :: c :: body, h =>
    simp only [parseFrame] at h
    split at h
    · rename_i hlen
      cases h
      have h0 := hb l0 (by simp)
      have h1 := hb l1 (by simp)
      have h2 := hb l2 (by simp)
      have h3 := hb l3 (by simp)
      have ht := hb t (by simp)
      have ha := hb a (by simp)
      have hb' := hb b (by simp)
      have hc := hb c (by simp)
      refine ⟨?_, by simp only []; omega⟩
      rw [← hlen, be32_horner l0 l1 l2 l3 h0 h1 h2 h3, encodeTag_horner a b c ha hb' hc, toU_sgn8 t ht]
      rfl
    · cases h

/-- the Tdispatch body as the frame description writes it -/
def tdispatchBytes (d : Tdispatch) : Bytes :=
  be16 d.ctxs.length ++ ((d.ctxs.map pairBytes).flatten ++
    (be16 d.dst.length ++ (d.dst ++ (be16 d.dtab.length ++ ((d.dtab.map pairBytes).flatten ++ d.payload)))))

theorem parseTdispatch_inv (bs : Bytes) (d : Tdispatch) (hb : allBytes bs) (h : parseTdispatch bs = some d) :
    bs = tdispatchBytes d := by
  unfold parseTdispatch at h
  split at h
  · cases h
  · rename_i n r hn
    split at h
    · cases h
    · rename_i ctxs r1 hc
      split at h
      · cases h
      · rename_i dst r2 hd
        split at h
        · cases h
        · rename_i nd r3 hnd
          split at h
          · cases h
          · rename_i dtab payload ht
            cases h
            obtain ⟨rfl, _⟩ := u16?_inv _ _ _ hb hn
            have hb0 : allBytes r := (allBytes_append.1 hb).2
            obtain ⟨rfl, rfl⟩ := pairs?_inv _ _ _ _ hb0 hc
            have hb1 : allBytes r1 := (allBytes_append.1 hb0).2
            obtain ⟨rfl, _⟩ := sized16?_inv _ _ _ hb1 hd
            have hb2 : allBytes r2 := (allBytes_append.1 (allBytes_append.1 hb1).2).2
            obtain ⟨rfl, _⟩ := u16?_inv _ _ _ hb2 hnd
            have hb3 : allBytes r3 := (allBytes_append.1 hb2).2
            obtain ⟨rfl, rfl⟩ := pairs?_inv _ _ _ _ hb3 ht
            simp [tdispatchBytes]

/-! ### `_Unmarshal_Rdispatch` on a well-formed reply -/

theorem s16_be16 (n : Nat) (h : n < 32768) : s16 (n / 256 % 256) (n % 256) = (n : Int) := by
  unfold s16; split <;> omega

theorem skipSized_enc (x r : Bytes) (h : x.length < 32768) : skipSized (be16 x.length ++ (x ++ r)) = .ok r := by
  simp only [be16, List.cons_append, List.nil_append, skipSized, s16_be16 _ h]
  rw [if_neg (by omega)]
  simp

theorem skipContexts_enc (cs : List (Bytes × Bytes)) (r : Bytes)
    (h : ∀ kv ∈ cs, kv.1.length < 32768 ∧ kv.2.length < 32768) :
    skipContexts cs.length ((cs.map pairBytes).flatten ++ r) = .ok r := by
  induction cs with
  | nil => rfl
  | cons kv rest ih =>
    have h1 := (h kv (by simp)).1
    have h2 := (h kv (by simp)).2
    simp only [List.length_cons, List.map_cons, List.flatten_cons, skipContexts, readContext, pairBytes,
      List.append_assoc]
    rw [skipSized_enc _ _ h1]
    simp only
    rw [skipSized_enc _ _ h2]
    exact ih (fun kv hkv => h kv (by simp [hkv]))

/-! ### a stream has one reading -/

theorem splitStreamFuel_inv : ∀ (fuel : Nat) (bs : Bytes) (cs : List Bytes),
    splitStreamFuel fuel bs = some cs → bs = cs.flatten := by
  intro fuel
  induction fuel with
  | zero =>
    intro bs cs h
    simp only [splitStreamFuel] at h
    split at h
    · rename_i he; cases h; simpa using he
    · cases h
  | succ fuel ih =>
    intro bs cs h
    rw [splitStreamFuel] at h
    split at h
    · rename_i he; cases h; simpa using he
    · split at h
      · cases h
      · rename_i n hu
        split at h
        · cases h
        · split at h
          · cases h
          · rename_i chunk rest ht
            split at h
            · cases h
            · rename_i cs' hs
              cases h
              have := take?_inv _ _ _ _ ht
              rw [List.flatten_cons, ← ih rest cs' hs]
              exact this.1

theorem allBytes_of_flatten {cs : List Bytes} (h : allBytes cs.flatten) : ∀ c ∈ cs, allBytes c := by
  intro c hc b hb
  exact h b (List.mem_flatten.2 ⟨c, hc, hb⟩)

theorem parseFrames_inv : ∀ (cs : List Bytes) (fs : List Frame), (∀ c ∈ cs, allBytes c) →
    parseFrames cs = some fs → cs = fs.map encFrame ∧ ∀ f ∈ fs, 4 + f.body.length < 4294967296 := by
  intro cs
  induction cs with
  | nil => intro fs _ h; simp only [parseFrames] at h; cases h; exact ⟨rfl, by simp⟩
  | cons c cs ih =>
    intro fs hb h
    simp only [parseFrames] at h
    split at h
    · rename_i f fs' hf hfs
      cases h
      obtain ⟨e1, e2⟩ := parseFrame_inv c f (hb c List.mem_cons_self) hf
      obtain ⟨e3, e4⟩ := ih fs' (fun g hg => hb g (List.mem_cons_of_mem _ hg)) hfs
      refine ⟨?_, ?_⟩
      · rw [List.map_cons, ← e3]; congr 1
      · intro g hg
        rcases List.mem_cons.1 hg with rfl | hg
        · exact e2
        · exact e4 g hg
    · cases h

theorem parseStream_inv (bs : Bytes) (fs : List Frame) (hb : allBytes bs) (h : parseStream bs = some fs) :
    bs = (fs.map encFrame).flatten ∧ ∀ f ∈ fs, 4 + f.body.length < 4294967296 := by
  simp only [parseStream] at h
  split at h
  · cases h
  · rename_i cs hs
    have e := splitStreamFuel_inv _ _ _ hs
    subst e
    obtain ⟨e1, e2⟩ := parseFrames_inv cs fs (allBytes_of_flatten hb) h
    exact ⟨by rw [e1], e2⟩

/-! ### queued messages -/

theorem decodeWire_item (it : Nat × Msg) (hd : it.2.inDomain = true) (htag : it.1 < 16777216) :
    decodeWire (encFrame (frameOfItem it)) = some (expectedOf it.1 it.2) := by
  simp only [encFrame, frameOfItem]
  exact decodeWire_of_parse it.1 it.2 hd _ (parseFrame_wire it.1 it.2 hd htag)

theorem isChunk_item (it : Nat × Msg) (h : itemOk it = true) : isChunk (encFrame (frameOfItem it)) := by
  have := frameOfItem_ok it h
  simp only [frameOk, Bool.and_eq_true, decide_eq_true_eq] at this
  exact isChunk_encFrame _ this.2

theorem items_all_ok (items : List (Nat × Msg))
    (h : ∀ it ∈ items, it.2.inDomain = true ∧ it.1 < 16777216) : items.all itemOk = true := by
  rw [List.all_eq_true]
  intro it hit
  obtain ⟨hd, htag⟩ := h it hit
  simp only [itemOk, hd, Bool.true_and]
  exact decide_eq_true htag

theorem splitStream_streamOf (items : List (Nat × Msg)) (hall : items.all itemOk = true) :
    splitStream (streamOf items) = some ((items.map frameOfItem).map encFrame) := by
  rw [streamOf_ok items hall]
  apply splitStream_flatten
  intro c hc
  obtain ⟨f, hf, rfl⟩ := List.mem_map.1 hc
  obtain ⟨it, hit, rfl⟩ := List.mem_map.1 hf
  exact isChunk_item it (List.all_eq_true.1 hall it hit)

theorem decode_items (items : List (Nat × Msg)) (h : ∀ it ∈ items, it.2.inDomain = true ∧ it.1 < 16777216) :
    ((items.map frameOfItem).map encFrame).map decodeWire = items.map (fun it => some (expectedOf it.1 it.2)) := by
  induction items with
  | nil => rfl
  | cons it items ih =>
    obtain ⟨hd, htag⟩ := h it List.mem_cons_self
    rw [List.map_cons, List.map_cons, List.map_cons, List.map_cons, decodeWire_item it hd htag,
      ih (fun g hg => h g (List.mem_cons_of_mem _ hg))]


end Scales.MuxCodec
