import ScalesModel.Proofs.HeapOps

/-! Bookkeeping when one node's load / closed count and the dispatch records change. -/
namespace Scales.Heap

theorem Book.update {s s' : HS} (b : Book s) (nid : Nat)
    (hlen : s'.nodes.length = s.nodes.length) (hin : ∀ id, InHeap s' id ↔ InHeap s id)
    (hep : ∀ id, (s'.node id).ep = (s.node id).ep)
    (hother : ∀ id, id ≠ nid → (s'.node id).load = (s.node id).load ∧
      (s'.node id).closed = (s.node id).closed ∧ outOf s' id = outOf s id)
    (hacct : (s'.node nid).load = (outOf s' nid : Int) ∨ (s'.node nid).load = Idle + (outOf s' nid : Int))
    (hbound : s'.reqs.length < maxReqs) (hreqs : ∀ r ∈ s'.reqs, r.1 < s.nodes.length)
    (hcin : InHeap s nid → (s'.node nid).closed = 0)
    (hcoff : ¬ InHeap s nid →
      (s'.node nid).closed = if outOf s' nid = 0 ∨ (s'.node nid).load ≥ 0 then 1 else 0) : Book s' := by
  constructor
  · intro id hl
    by_cases e : id = nid
    · subst e; exact hacct
    · obtain ⟨a, _, c⟩ := hother id e
      rw [a, c]; exact b.acct id (by omega)
  · exact hbound
  · intro r hr; rw [hlen]; exact hreqs r hr
  · intro id h
    rw [hin] at h
    by_cases e : id = nid
    · subst e; exact hcin h
    · rw [(hother id e).2.1]; exact b.closedIn id h
  · intro id hl hn
    rw [hin] at hn
    by_cases e : id = nid
    · subst e; exact hcoff hn
    · obtain ⟨a, c, d⟩ := hother id e
      rw [a, c, d]; exact b.closedOff id (by omega) hn
  · intro a c ha hc he
    rw [hep, hep] at he
    exact b.epsInj a c ((hin a).mp ha) ((hin c).mp hc) he

theorem DownOk.update {s s' : HS} {d : List Nat} (b : DownOk s d)
    (hlen : s'.nodes.length = s.nodes.length) (hin : ∀ id, InHeap s' id ↔ InHeap s id)
    (hload : ∀ id, ((s'.node id).load ≥ 0 ↔ (s.node id).load ≥ 0)) : DownOk s' d := by
  constructor
  · intro id h
    obtain ⟨a, c⟩ := b.pen id h
    exact ⟨by omega, (hload id).mpr c⟩
  · intro id h hl
    exact b.all id ((hin id).mp h) ((hload id).mp hl)
  · exact b.nodup

theorem SrvOk.update {s s' : HS} (b : SrvOk s) (hin : ∀ id, InHeap s' id ↔ InHeap s id)
    (hep : ∀ id, (s'.node id).ep = (s.node id).ep) (hs : s'.servers = s.servers) : SrvOk s' := by
  intro ep
  rw [hs, b ep]
  constructor
  · rintro ⟨id, h1, h2⟩; exact ⟨id, (hin id).mpr h1, by rw [hep]; exact h2⟩
  · rintro ⟨id, h1, h2⟩; exact ⟨id, (hin id).mp h1, by rw [← hep]; exact h2⟩

/-- every load in the store is at least `Idle` -/
theorem Book.L_ge {s : HS} (b : Book s) (hw : WF s) (p : Nat) (h1 : 1 ≤ p) (h2 : p ≤ s.size) : Idle ≤ L s p :=
  (b.pen_iff (s.idAt p) (hw.inStore p h1 h2)).2.2.1

end Scales.Heap
