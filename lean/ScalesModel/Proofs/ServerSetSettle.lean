/-
  Proofs/ServerSetSettle.lean — C19: every history can be brought to a quiet state by scheduler
  steps alone (deliver the oldest fired event; serve / return the read in flight of the worker or
  of a listing).  In a state that is not quiet one of these steps is enabled (with a suitable
  label), and it decreases the measure `mu`; so "once everything is quiet" is reached by *every*
  fair schedule — in particular the worker is never left behind the blocker.
-/
import ScalesModel.Proofs.ServerSetKeys
namespace Scales.ServerSet

/-- a scheduler step (no change of the tree, no new ServerSet, no new listing) -/
def Op.isSched : Op → Bool
  | .deliver _ => true
  | .serve => true
  | .ret _ => true
  | .lserve _ => true
  | .lret _ _ => true
  | _ => false

/-! ### the measure -/

def rdCost : Rd → Nat
  | .requested _ => 2
  | .served _ _ => 1

def jobCost : Option Job → Nat
  | none => 0
  | some j => 2 * j.todo.length + rdCost j.cur

def qCost : List (List Nat) → Nat
  | [] => 0
  | l :: q => 2 * l.length + 1 + qCost q

def lCost : List Lst → Nat
  | [] => 0
  | l :: ls => 2 * l.todo.length + rdCost l.cur + lCost ls

def mu (s : St) : Nat :=
  (2 * s.tree.kids.length + 2) * s.pending.length + qCost s.queue + jobCost s.job + lCost s.lists

theorem qCost_append (a b : List (List Nat)) : qCost (a ++ b) = qCost a + qCost b := by
  induction a with
  | nil => simp [qCost]
  | cons x xs ih => simp only [List.cons_append, qCost, ih]; omega

/-! ### the worker loop does not add work, and some label always fits -/

theorem pump_cost (queue : List (List Nat)) : ∀ (members : List Nat) (nxt : Option Nat) (w : WSt),
    pump members queue nxt = some w → qCost w.queue + jobCost w.job ≤ qCost queue := by
  induction queue with
  | nil =>
    intro members nxt w hp
    simp only [pump] at hp
    split at hp
    · injection hp with hp; subst hp; simp [qCost, jobCost]
    · cases hp
  | cons q qs ih =>
    intro members nxt w hp
    simp only [pump] at hp
    split at hp
    · cases hw0 : pump (finishJob members q []).1 qs nxt with
      | none => rw [hw0] at hp; cases hp
      | some w0 =>
        rw [hw0] at hp
        simp only [Option.map_some] at hp
        injection hp with hp; subst hp
        have := ih _ nxt w0 hw0
        simp only [qCost]
        omega
    · cases nxt with
      | none => cases hp
      | some n =>
        simp only at hp
        split at hp
        · rename_i hn
          injection hp with hp; subst hp
          have hnt : n ∈ q.filter (fun n => !members.contains n) := by simpa using hn
          have h1 : ((q.filter (fun n => !members.contains n)).erase n).length + 1 =
              (q.filter (fun n => !members.contains n)).length := by
            rw [List.length_erase_of_mem hnt]
            have := List.length_pos_of_mem hnt
            omega
          have h2 : (q.filter (fun n => !members.contains n)).length ≤ q.length :=
            List.length_filter_le _ _
          simp only [qCost, jobCost, rdCost]
          omega
        · cases hp

theorem pump_enabled (queue : List (List Nat)) : ∀ (members : List Nat),
    ∃ nxt w, pump members queue nxt = some w := by
  induction queue with
  | nil => intro members; exact ⟨none, ⟨members, [], none, []⟩, by simp [pump]⟩
  | cons q qs ih =>
    intro members
    cases ht : q.filter (fun n => !members.contains n) with
    | nil =>
      obtain ⟨nxt, w, hw⟩ := ih (finishJob members q []).1
      refine ⟨nxt, { w with notes := (finishJob members q []).2 ++ w.notes }, ?_⟩
      simp only [pump, ht, List.isEmpty_nil, if_true, hw, Option.map_some]
    | cons n rest =>
      refine ⟨some n, ⟨members, qs, some ⟨q, (n :: rest).erase n, .requested n, []⟩, []⟩, ?_⟩
      have hc : (n :: rest).contains n = true := by simp
      simp only [pump, ht, List.isEmpty_cons, Bool.false_eq_true, if_false, hc, if_true]

theorem pumpB_cost {free : Bool} {members : List Nat} {queue : List (List Nat)} {nxt : Option Nat}
    {w : WSt} (hp : pumpB free members queue nxt = some w) :
    qCost w.queue + jobCost w.job ≤ qCost queue := by
  cases free with
  | true =>
    simp only [pumpB, if_true] at hp
    exact pump_cost queue members nxt w hp
  | false =>
    simp only [pumpB, Bool.false_eq_true, if_false] at hp
    split at hp
    · injection hp with hp; subst hp; simp [jobCost]
    · cases hp

theorem pumpB_enabled (free : Bool) (members : List Nat) (queue : List (List Nat)) :
    ∃ nxt w, pumpB free members queue nxt = some w := by
  cases free with
  | true =>
    obtain ⟨nxt, w, h⟩ := pump_enabled queue members
    exact ⟨nxt, w, by simp [pumpB, h]⟩
  | false => exact ⟨none, ⟨members, queue, none, []⟩, by simp [pumpB]⟩

/-- what `wake` leaves alone, and that it adds no work -/
structure WakeOut (s1 s2 : St) : Prop where
  pending : s2.pending = s1.pending
  tree : s2.tree = s1.tree
  lists : s2.lists = s1.lists
  started : s2.started = s1.started
  cost : qCost s2.queue + jobCost s2.job ≤ qCost s1.queue + jobCost s1.job

theorem wake_out {s1 s2 : St} {nxt : Option Nat} {ns : List Note} (h : wake s1 nxt = some (s2, ns)) :
    WakeOut s1 s2 := by
  unfold wake at h
  cases hjob : s1.job with
  | some j =>
    rw [hjob] at h
    simp only at h
    split at h
    · injection h with h; injection h with h1 h2; subst h1
      exact ⟨rfl, rfl, rfl, rfl, Nat.le_refl _⟩
    · cases h
  | none =>
    rw [hjob] at h
    simp only at h
    cases hp : pumpB s1.lists.isEmpty s1.members s1.queue nxt with
    | none => rw [hp] at h; cases h
    | some w =>
      rw [hp] at h
      simp only [Option.map_some] at h
      injection h with h; injection h with h1 h2; subst h1
      refine ⟨rfl, rfl, rfl, rfl, ?_⟩
      have := pumpB_cost hp
      have h0 : jobCost (none : Option Job) = 0 := rfl
      show qCost w.queue + jobCost w.job ≤ qCost s1.queue + jobCost s1.job
      rw [hjob, h0]
      omega

theorem wake_enabled (s1 : St) : ∃ nxt s2 ns, wake s1 nxt = some (s2, ns) := by
  unfold wake
  cases hjob : s1.job with
  | some j => exact ⟨none, s1, [], by simp⟩
  | none =>
    obtain ⟨nxt, w, hw⟩ := pumpB_enabled s1.lists.isEmpty s1.members s1.queue
    exact ⟨nxt, _, _, by rw [hw]; rfl⟩

/-! ### a recipe callback queues at most one child list, no longer than the children -/

structure CbOut (s0 s1 : St) : Prop where
  pending : s1.pending = s0.pending
  tree : s1.tree = s0.tree
  lists : s1.lists = s0.lists
  started : s1.started = s0.started
  job : s1.job = s0.job
  cost : qCost s1.queue ≤ qCost s0.queue + 2 * s0.tree.kids.length + 1

theorem qCost_snoc_filter (cfg : Cfg) (q : List (List Nat)) (kids : List Nat) :
    qCost (q ++ [kids.filter cfg.memberOk]) ≤ qCost q + 2 * kids.length + 1 := by
  rw [qCost_append]
  have := List.length_filter_le cfg.memberOk kids
  simp only [qCost]
  omega

theorem listChildren_out (cfg : Cfg) (s0 : St) (g : Nat) : CbOut s0 (listChildren cfg s0 g) := by
  unfold listChildren
  split
  · exact ⟨rfl, rfl, rfl, rfl, rfl, qCost_snoc_filter cfg _ _⟩
  · exact ⟨rfl, rfl, rfl, rfl, rfl, by simp only []; omega⟩

theorem dataDeliver_out (cfg : Cfg) (s0 : St) : CbOut s0 (dataDeliver cfg s0) := by
  unfold dataDeliver
  simp only
  split
  · split
    · exact ⟨by trivial, by trivial, by trivial, by trivial, by trivial, by simp only []; omega⟩
    · cases hp : s0.tree.parent with
      | none =>
        simp only [onSet, filter_nil_memberOk]
        refine ⟨by trivial, by trivial, by trivial, by trivial, by trivial, ?_⟩
        simp only [qCost_append, qCost, List.length_nil]
        omega
      | some g =>
        obtain ⟨h1, h2, h3, h4, h5, h6⟩ := listChildren_out cfg
          { s0 with dw := true, seen := some g, everCalled := true, watched := some g } g
        exact ⟨h1, h2, h3, h4, h5, h6⟩
  · exact ⟨by trivial, by trivial, by trivial, by trivial, by trivial, by simp only []; omega⟩

theorem childDeliver_out (cfg : Cfg) (s0 : St) (tag : Option Nat) :
    CbOut s0 (childDeliver cfg s0 tag) := by
  cases tag with
  | none => exact ⟨rfl, rfl, rfl, rfl, rfl, by simp only [childDeliver]; omega⟩
  | some g =>
    simp only [childDeliver]
    split
    · exact listChildren_out cfg s0 g
    · exact ⟨rfl, rfl, rfl, rfl, rfl, by omega⟩

/-! ### listings -/

theorem lCost_upd_lt {i : Nat} {f : Lst → Lst} {l : Lst} : ∀ {ls : List Lst},
    ls.find? (fun x => x.id = i) = some l →
    2 * (f l).todo.length + rdCost (f l).cur < 2 * l.todo.length + rdCost l.cur →
    lCost (Lst.upd i f ls) < lCost ls := by
  intro ls
  induction ls with
  | nil => intro h; cases h
  | cons x xs ih =>
    intro hf hlt
    simp only [List.find?_cons] at hf
    by_cases hx : x.id = i
    · simp only [hx, decide_true, Option.some.injEq] at hf
      subst hf
      simp only [Lst.upd, hx, if_true, lCost]
      omega
    · simp only [hx, decide_false] at hf
      have := ih hf hlt
      simp only [Lst.upd, hx, if_false, lCost]
      omega

theorem lCost_drop_lt {i : Nat} {l : Lst} : ∀ {ls : List Lst},
    ls.find? (fun x => x.id = i) = some l → lCost (Lst.drop i ls) < lCost ls := by
  intro ls
  induction ls with
  | nil => intro h; cases h
  | cons x xs ih =>
    intro hf
    simp only [List.find?_cons] at hf
    by_cases hx : x.id = i
    · simp only [Lst.drop, hx, if_true, lCost]
      have : 0 < rdCost x.cur := by cases x.cur <;> simp [rdCost]
      omega
    · simp only [hx, decide_false] at hf
      have := ih hf
      simp only [Lst.drop, hx, if_false, lCost]
      omega

theorem length_erase_lt {l : List Nat} {m : Nat} (h : m ∈ l) : (l.erase m).length + 1 = l.length := by
  rw [List.length_erase_of_mem h]
  have := List.length_pos_of_mem h
  omega

/-! ### progress: in a state that is not quiet a scheduler step is enabled and decreases `mu` -/

/-- `op` is enabled in `s`, leaves the ServerSet constructed and decreases the measure -/
def Good (cfg : Cfg) (s : St) (op : Op) : Prop :=
  match next cfg s op with
  | some (s', _) => s'.started = true ∧ mu s' < mu s
  | none => False

theorem next_deliver_data {cfg : Cfg} {s : St} {rest : List Ev} (nxt : Option Nat)
    (hst : s.started = true) (hp : s.pending = Ev.data :: rest) :
    next cfg s (.deliver nxt) = wake (dataDeliver cfg { s with pending := rest }) nxt := by
  simp only [next]
  rw [if_pos hst, hp]

theorem next_deliver_child {cfg : Cfg} {s : St} {rest : List Ev} {tag : Option Nat} (nxt : Option Nat)
    (hst : s.started = true) (hp : s.pending = Ev.child tag :: rest) :
    next cfg s (.deliver nxt) = wake (childDeliver cfg { s with pending := rest } tag) nxt := by
  simp only [next]
  rw [if_pos hst, hp]

theorem next_lserve {cfg : Cfg} {s : St} (i : Nat) (hst : s.started = true) :
    next cfg s (.lserve i) = (lserveStep s i).map (fun s' => (s', [])) := by
  simp only [next]
  rw [if_pos hst]

theorem next_lret {cfg : Cfg} {s : St} (i : Nat) (nxt : Option Nat) (hst : s.started = true) :
    next cfg s (.lret i nxt) = lretStep s i nxt := by
  simp only [next]
  rw [if_pos hst]

theorem progress (cfg : Cfg) (s : St) (hst : s.started = true) (hq : s.quiet = false) :
    ∃ op, op.isSched = true ∧ Good cfg s op := by
  -- a fired event is waiting
  cases hpend : s.pending with
  | cons e rest =>
    have hlen : s.pending.length = rest.length + 1 := by rw [hpend]; rfl
    cases e with
    | data =>
      obtain ⟨nxt, s2, ns, hw⟩ := wake_enabled (dataDeliver cfg { s with pending := rest })
      refine ⟨.deliver nxt, rfl, ?_⟩
      simp only [Good, next_deliver_data nxt hst hpend, hw]
      have c := dataDeliver_out cfg { s with pending := rest }
      have w := wake_out hw
      refine ⟨by rw [w.started, c.started]; exact hst, ?_⟩
      have hc := c.cost
      have hw' := w.cost
      rw [c.job] at hw'
      simp only [mu, w.pending, w.tree, w.lists, c.pending, c.tree, c.lists, hlen] at hc hw' ⊢
      rw [Nat.mul_add]
      omega
    | child tag =>
      obtain ⟨nxt, s2, ns, hw⟩ := wake_enabled (childDeliver cfg { s with pending := rest } tag)
      refine ⟨.deliver nxt, rfl, ?_⟩
      simp only [Good, next_deliver_child nxt hst hpend, hw]
      have c := childDeliver_out cfg { s with pending := rest } tag
      have w := wake_out hw
      refine ⟨by rw [w.started, c.started]; exact hst, ?_⟩
      have hc := c.cost
      have hw' := w.cost
      rw [c.job] at hw'
      simp only [mu, w.pending, w.tree, w.lists, c.pending, c.tree, c.lists, hlen] at hc hw' ⊢
      rw [Nat.mul_add]
      omega
  | nil =>
    cases hjob : s.job with
    | some j =>
      -- the worker's read moves on
      cases hcur : j.cur with
      | requested n =>
        refine ⟨.serve, rfl, ?_⟩
        simp only [Good, next, serveStep, hjob, hcur, Option.map_some]
        refine ⟨hst, ?_⟩
        simp only [mu, jobCost, hjob, hcur, rdCost]
        omega
      | served n found =>
        cases htodo : j.todo with
        | nil =>
          obtain ⟨nxt, w, hw⟩ := pumpB_enabled s.lists.isEmpty
            (finishJob s.members j.listing (if found then j.got ++ [n] else j.got)).1 s.queue
          refine ⟨.ret nxt, rfl, ?_⟩
          simp only [Good, next, retStep, hjob, hcur, htodo, List.isEmpty_nil, if_true, hw, Option.map_some]
          refine ⟨hst, ?_⟩
          have := pumpB_cost hw
          have hj : jobCost s.job = 1 := by
            rw [hjob]; simp only [jobCost, hcur, rdCost, htodo, List.length_nil]
          simp only [mu, hj]
          omega
        | cons m rest =>
          refine ⟨.ret (some m), rfl, ?_⟩
          have hc : (m :: rest).contains m = true := by simp
          simp only [Good, next, retStep, hjob, hcur, htodo, List.isEmpty_cons, Bool.false_eq_true,
            if_false, hc, if_true]
          refine ⟨hst, ?_⟩
          simp only [mu, jobCost, hjob, hcur, rdCost, htodo, List.erase_cons_head, List.length_cons]
          omega
    | none =>
      cases hlists : s.lists with
      | nil =>
        exfalso
        simp [St.quiet, hst, hpend, hjob, hlists] at hq
      | cons l ls =>
        -- the read of the first listing moves on
        have hfind : s.lists.find? (fun x => x.id = l.id) = some l := by
          rw [hlists]; simp
        cases hcur : l.cur with
        | requested n =>
          refine ⟨.lserve l.id, rfl, ?_⟩
          simp only [Good, next_lserve l.id hst, lserveStep, hfind, hcur, Option.map_some]
          refine ⟨hst, ?_⟩
          have := lCost_upd_lt (f := fun x => { x with cur := .served n (s.tree.kids.contains n) }) hfind
            (by simp only [hcur, rdCost]; omega)
          simp only [mu]
          omega
        | served n found =>
          cases htodo : l.todo with
          | nil =>
            obtain ⟨nxt, s2, ns, hw⟩ := wake_enabled
              { s with lists := Lst.drop l.id s.lists,
                       done := s.done ++ [(l.id, if found then l.got ++ [n] else l.got)] }
            refine ⟨.lret l.id nxt, rfl, ?_⟩
            simp only [Good, next_lret l.id nxt hst, lretStep, hfind, hcur, htodo, List.isEmpty_nil, if_true, hw]
            have w := wake_out hw
            refine ⟨by rw [w.started]; exact hst, ?_⟩
            have hw' := w.cost
            have := lCost_drop_lt hfind
            simp only [mu, w.pending, w.tree, w.lists] at hw' ⊢
            omega
          | cons m rest =>
            refine ⟨.lret l.id (some m), rfl, ?_⟩
            have hc : (m :: rest).contains m = true := by simp
            simp only [Good, next_lret l.id (some m) hst, lretStep, hfind, hcur, htodo, List.isEmpty_cons,
              Bool.false_eq_true, if_false, hc, if_true]
            refine ⟨hst, ?_⟩
            have := lCost_upd_lt
              (f := fun x => { x with todo := (m :: rest).erase m, cur := .requested m,
                                      got := if found then l.got ++ [n] else l.got }) hfind
              (by simp only [hcur, htodo, rdCost, List.erase_cons_head, List.length_cons]; omega)
            simp only [mu]
            omega

/-! ### settling -/

theorem settles_from (cfg : Cfg) : ∀ (k : Nat) (s : St), mu s ≤ k → s.started = true →
    ∃ sched : List Op, (∀ op ∈ sched, op.isSched = true) ∧ wfGo cfg s sched = true ∧
      (exec cfg s sched).1.quiet = true := by
  intro k
  induction k with
  | zero =>
    intro s hk hst
    cases hq : s.quiet with
    | true => exact ⟨[], by simp, rfl, by simpa [exec] using hq⟩
    | false =>
      obtain ⟨op, _, hg⟩ := progress cfg s hst hq
      unfold Good at hg
      split at hg
      · omega
      · exact hg.elim
  | succ k ih =>
    intro s hk hst
    cases hq : s.quiet with
    | true => exact ⟨[], by simp, rfl, by simpa [exec] using hq⟩
    | false =>
      obtain ⟨op, hop, hg⟩ := progress cfg s hst hq
      unfold Good at hg
      split at hg
      · rename_i s' ns hn
        obtain ⟨sched, h1, h2, h3⟩ := ih s' (by omega) hg.1
        refine ⟨op :: sched, ?_, ?_, ?_⟩
        · intro o ho
          rcases List.mem_cons.mp ho with h | h
          · rw [h]; exact hop
          · exact h1 o h
        · simp only [wfGo, hn]; exact h2
        · simp only [exec, hn]; exact h3
      · exact hg.elim

theorem wfGo_append' (cfg : Cfg) (a b : List Op) : ∀ (s : St), wfGo cfg s a = true →
    wfGo cfg (exec cfg s a).1 b = true → wfGo cfg s (a ++ b) = true := by
  induction a with
  | nil => intro s _ h; simpa [exec] using h
  | cons op a ih =>
    intro s h1 h2
    simp only [wfGo] at h1
    cases hn : next cfg s op with
    | none => rw [hn] at h1; cases h1
    | some p =>
      rw [hn] at h1
      simp only [exec, hn] at h2
      simp only [List.cons_append, wfGo, hn]
      exact ih p.1 h1 h2

theorem foldl_specTree_sched (sched : List Op) (h : ∀ op ∈ sched, op.isSched = true) :
    ∀ (t : Tree), sched.foldl specTree t = t := by
  induction sched with
  | nil => intro t; rfl
  | cons op ops ih =>
    intro t
    have hop := h op List.mem_cons_self
    simp only [List.foldl_cons]
    have : specTree t op = t := by
      cases op <;> first | rfl | (simp [Op.isSched] at hop)
    rw [this]
    exact ih (fun o ho => h o (List.mem_cons_of_mem _ ho)) t

end Scales.ServerSet
