/-
  Proofs/WatermarkLemmas.lean — helper lemmas for C07 (watermark pool).
-/
import ScalesModel.Adapter.Watermark
import Mathlib.Data.List.Nodup
import Mathlib.Data.List.Perm.Subperm
import Mathlib.Data.List.Range

set_option linter.unusedSimpArgs false
set_option linter.unusedVariables false
set_option linter.unusedTactic false
set_option linter.unreachableTactic false
set_option linter.unnecessarySeqFocus false

namespace Scales.Watermark

/-! ## index lists `(range n).filter p` -/

theorem mem_ids {n : Nat} {p : Nat → Bool} {x : Nat} :
    x ∈ (List.range n).filter p ↔ x < n ∧ p x = true := by
  simp [List.mem_filter]

theorem nodup_ids (n : Nat) (p : Nat → Bool) : ((List.range n).filter p).Nodup :=
  List.Nodup.filter _ List.nodup_range

theorem sorted_ids (n : Nat) (p : Nat → Bool) : ((List.range n).filter p).Pairwise (· < ·) :=
  List.Pairwise.filter _ List.pairwise_lt_range

theorem ids_congr {n : Nat} {p q : Nat → Bool} (h : ∀ i, i < n → p i = q i) :
    (List.range n).filter p = (List.range n).filter q :=
  List.filter_congr (fun x hx => h x (by simpa using hx))

theorem ids_succ (n : Nat) (p : Nat → Bool) :
    (List.range (n + 1)).filter p = (List.range n).filter p ++ (if p n then [n] else []) := by
  rw [List.range_succ, List.filter_append]
  by_cases h : p n <;> simp [h]

/-- changing the predicate from false to true at one index adds one element -/
theorem length_ids_set_true {n i : Nat} {p q : Nat → Bool} (hi : i < n) (hp : p i = false)
    (hq : q i = true) (hrest : ∀ j, j ≠ i → q j = p j) :
    ((List.range n).filter q).length = ((List.range n).filter p).length + 1 := by
  induction n with
  | zero => omega
  | succ n ih =>
    rw [ids_succ, ids_succ]
    by_cases hin : i = n
    · subst hin
      have : (List.range i).filter q = (List.range i).filter p :=
        ids_congr (fun j hj => hrest j (by omega))
      simp [this, hp, hq]
    · have hlt : i < n := by omega
      have := ih hlt
      simp only [List.length_append, this, hrest n (Ne.symm hin)]
      omega

theorem length_ids_le_of_imp {n : Nat} {p q : Nat → Bool} (h : ∀ i, i < n → p i = true → q i = true) :
    ((List.range n).filter p).length ≤ ((List.range n).filter q).length := by
  apply List.Subperm.length_le
  apply List.subperm_of_subset (nodup_ids n p)
  intro x hx
  rw [mem_ids] at hx ⊢
  exact ⟨hx.1, h x hx.1 hx.2⟩

theorem length_le_of_nodup_subset {l₁ l₂ : List Nat} (hd : l₁.Nodup) (hs : ∀ x ∈ l₁, x ∈ l₂) :
    l₁.length ≤ l₂.length :=
  List.Subperm.length_le (List.subperm_of_subset hd hs)

/-- the head of an index list is the least index satisfying the predicate -/
theorem head?_ids {n c : Nat} {p : Nat → Bool} (hc : c < n) (hp : p c = true)
    (hmin : ∀ j, j < c → p j = false) : ((List.range n).filter p).head? = some c := by
  rw [List.head?_filter, List.find?_range_eq_some]
  refine ⟨hp, by simpa using hc, ?_⟩
  intro j hj
  simp [hmin j hj]

/-! ## the view under events -/

@[simp] theorem view_emit (s : St) (ev : Ev) : (s.emit ev).view = s.view.apply ev := by
  simp [St.view, St.emit, List.foldl_append]

@[simp] theorem emit_cache (s : St) (ev : Ev) : (s.emit ev).cache = s.cache := rfl
@[simp] theorem emit_tasks (s : St) (ev : Ev) : (s.emit ev).tasks = s.tasks := rfl
@[simp] theorem emit_waiters (s : St) (ev : Ev) : (s.emit ev).waiters = s.waiters := rfl
@[simp] theorem emit_size (s : St) (ev : Ev) : (s.emit ev).size = s.size := rfl
@[simp] theorem emit_pstate (s : St) (ev : Ev) : (s.emit ev).pstate = s.pstate := rfl
@[simp] theorem emit_everClosed (s : St) (ev : Ev) : (s.emit ev).everClosed = s.everClosed := rfl
@[simp] theorem emit_base (s : St) (ev : Ev) : (s.emit ev).base = s.base := rfl
@[simp] theorem emit_evs (s : St) (ev : Ev) : (s.emit ev).evs = s.evs ++ [ev] := rfl

@[simp] theorem view_with (s : St) (c w : List Nat) (sz : Nat) (p : PState) (t : List Nat) (ec : Bool) :
    St.view { base := s.base, evs := s.evs, cache := c, waiters := w, size := sz, pstate := p,
              tasks := t, everClosed := ec } = s.view := rfl

theorem isAlive_eq (v : View) (sid : Nat) :
    isAlive v sid = (match v.sinks[sid]? with | some k => k.alive | none => false) := rfl

theorem St.alive_eq (s : St) (sid : Nat) : s.alive sid = isAlive s.view sid := rfl

section apply
variable (v : View)

@[simp] theorem calls_created (sid : Nat) (ok : Bool) : (v.apply (.created sid ok)).calls = v.calls := rfl
@[simp] theorem calls_closed (sid : Nat) : (v.apply (.closed sid)).calls = v.calls := rfl
@[simp] theorem calls_raised (w : String) : (v.apply (.raised w)) = v := rfl

@[simp] theorem sinks_len_created (sid : Nat) (ok : Bool) :
    (v.apply (.created sid ok)).sinks.length = v.sinks.length + 1 := by simp [View.apply]
@[simp] theorem sinks_len_closed (sid : Nat) : (v.apply (.closed sid)).sinks.length = v.sinks.length := by
  simp [View.apply]
@[simp] theorem sinks_len_sent (sid c : Nat) : (v.apply (.sent sid c)).sinks.length = v.sinks.length := by
  simp [View.apply]
@[simp] theorem sinks_len_connecting (sid c : Nat) :
    (v.apply (.connecting sid c)).sinks.length = v.sinks.length := by
  simp [View.apply]
@[simp] theorem calls_len_connecting (sid c : Nat) :
    (v.apply (.connecting sid c)).calls.length = v.calls.length := by
  simp [View.apply]
@[simp] theorem sinks_len_queued (c : Nat) : (v.apply (.queued c)).sinks.length = v.sinks.length := rfl
@[simp] theorem sinks_len_rel (sid : Nat) : (v.apply (.rel sid)).sinks.length = v.sinks.length := by
  simp [View.apply]
@[simp] theorem sinks_len_done (c : Nat) (o : Outcome) : (v.apply (.done c o)).sinks.length = v.sinks.length := rfl

@[simp] theorem calls_len_sent (sid c : Nat) : (v.apply (.sent sid c)).calls.length = v.calls.length := by
  simp [View.apply]
@[simp] theorem calls_len_queued (c : Nat) : (v.apply (.queued c)).calls.length = v.calls.length := by
  simp [View.apply]
@[simp] theorem calls_len_rel (sid : Nat) : (v.apply (.rel sid)).calls.length = v.calls.length := by
  simp only [View.apply]; split <;> simp
@[simp] theorem calls_len_done (c : Nat) (o : Outcome) : (v.apply (.done c o)).calls.length = v.calls.length := by
  simp [View.apply]

/-! isAlive -/
theorem isAlive_created (sid : Nat) (ok : Bool) (j : Nat) :
    isAlive (v.apply (.created sid ok)) j = if j = v.sinks.length then ok else isAlive v j := by
  simp only [isAlive, View.apply, List.getElem?_append]
  by_cases h : j < v.sinks.length
  · have : j ≠ v.sinks.length := by omega
    simp [h, this]
  · by_cases h2 : j = v.sinks.length
    · subst h2; simp
    · have : j - v.sinks.length ≠ 0 := by omega
      have h3 : v.sinks[j]? = none := by simp; omega
      simp [h, h2, h3]
      cases hh : j - v.sinks.length with
      | zero => omega
      | succ m => simp

theorem isAlive_closed (sid j : Nat) :
    isAlive (v.apply (.closed sid)) j = if j = sid then false else isAlive v j := by
  simp only [isAlive, View.apply, List.getElem?_modify]
  cases h : v.sinks[j]? with
  | none => simp
  | some k => by_cases hj : j = sid
              · subst hj; simp
              · have : ¬ sid = j := fun h => hj h.symm
                simp [hj, this]

theorem isAlive_sent (sid c j : Nat) : isAlive (v.apply (.sent sid c)) j = isAlive v j := by
  simp only [isAlive, View.apply, List.getElem?_modify]
  cases h : v.sinks[j]? with
  | none => simp
  | some k => by_cases hj : sid = j <;> simp [hj]

theorem isAlive_connecting (sid c j : Nat) : isAlive (v.apply (.connecting sid c)) j = isAlive v j := by
  simp only [isAlive, View.apply, List.getElem?_modify]
  cases h : v.sinks[j]? with
  | none => simp
  | some k => by_cases hj : sid = j <;> simp [hj]

@[simp] theorem isAlive_queued (c j : Nat) : isAlive (v.apply (.queued c)) j = isAlive v j := rfl

theorem isAlive_rel (sid j : Nat) : isAlive (v.apply (.rel sid)) j = isAlive v j := by
  simp only [isAlive, View.apply, List.getElem?_modify]
  cases h : v.sinks[j]? with
  | none => simp
  | some k => by_cases hj : sid = j <;> simp [hj]

@[simp] theorem isAlive_done (c : Nat) (o : Outcome) (j : Nat) : isAlive (v.apply (.done c o)) j = isAlive v j := rfl

/-! holderOf / isLent -/
theorem isLent_eq (j : Nat) : isLent v j = (holderOf v j).isSome := by
  simp only [isLent, holderOf]; cases v.sinks[j]? <;> rfl

theorem holderOf_created (sid : Nat) (ok : Bool) (j : Nat) :
    holderOf (v.apply (.created sid ok)) j = holderOf v j := by
  simp only [holderOf, View.apply, List.getElem?_append]
  by_cases h : j < v.sinks.length
  · simp [h]
  · have h3 : v.sinks[j]? = none := by simp; omega
    simp only [h, h3, if_false]
    cases hh : j - v.sinks.length with
    | zero => simp
    | succ m => simp

theorem holderOf_closed (sid j : Nat) : holderOf (v.apply (.closed sid)) j = holderOf v j := by
  simp only [holderOf, View.apply, List.getElem?_modify]
  cases h : v.sinks[j]? with
  | none => simp
  | some k => by_cases hj : sid = j <;> simp [hj]

theorem holderOf_sent (sid c j : Nat) :
    holderOf (v.apply (.sent sid c)) j =
      if j = sid ∧ sid < v.sinks.length then some c else holderOf v j := by
  simp only [holderOf, View.apply, List.getElem?_modify]
  cases h : v.sinks[j]? with
  | none =>
    have : ¬ j < v.sinks.length := by
      intro hlt; simp [List.getElem?_eq_getElem hlt] at h
    have : ¬ (j = sid ∧ sid < v.sinks.length) := by rintro ⟨rfl, h2⟩; exact this h2
    simp [this]
  | some k =>
    have hlt : j < v.sinks.length := by
      by_contra hc; simp at hc; simp [List.getElem?_eq_none hc] at h
    by_cases hj : sid = j
    · subst hj; simp [hlt]
    · have : ¬ (j = sid ∧ sid < v.sinks.length) := by rintro ⟨rfl, _⟩; exact hj rfl
      simp [hj, this]

theorem holderOf_connecting (sid c j : Nat) :
    holderOf (v.apply (.connecting sid c)) j =
      if j = sid ∧ sid < v.sinks.length then some c else holderOf v j := by
  simp only [holderOf, View.apply, List.getElem?_modify]
  cases h : v.sinks[j]? with
  | none =>
    have : ¬ j < v.sinks.length := by
      intro hlt; simp [List.getElem?_eq_getElem hlt] at h
    have : ¬ (j = sid ∧ sid < v.sinks.length) := by rintro ⟨rfl, h2⟩; exact this h2
    simp [this]
  | some k =>
    have hlt : j < v.sinks.length := by
      by_contra hc; simp at hc; simp [List.getElem?_eq_none hc] at h
    by_cases hj : sid = j
    · subst hj; simp [hlt]
    · have : ¬ (j = sid ∧ sid < v.sinks.length) := by rintro ⟨rfl, _⟩; exact hj rfl
      simp [hj, this]

@[simp] theorem holderOf_queued (c j : Nat) : holderOf (v.apply (.queued c)) j = holderOf v j := rfl

theorem holderOf_rel (sid j : Nat) :
    holderOf (v.apply (.rel sid)) j = if j = sid then none else holderOf v j := by
  simp only [holderOf, View.apply, List.getElem?_modify]
  cases h : v.sinks[j]? with
  | none => simp
  | some k =>
    by_cases hj : sid = j
    · subst hj; simp
    · have : ¬ j = sid := fun h => hj h.symm
      simp [hj, this]

@[simp] theorem holderOf_done (c : Nat) (o : Outcome) (j : Nat) :
    holderOf (v.apply (.done c o)) j = holderOf v j := rfl

/-! calls -/
theorem getElem?_set_self' {α : Type} (l : List α) (c j : Nat) (a : α) :
    (l.set c a)[j]? = if j = c ∧ c < l.length then some a else l[j]? := by
  simp only [List.getElem?_set]
  by_cases hj : c = j
  · subst hj
    by_cases hl : c < l.length
    · simp [hl]
    · have : l[c]? = none := by simp; omega
      simp [hl, this]
  · have : ¬ (j = c ∧ c < l.length) := by rintro ⟨rfl, _⟩; exact hj rfl
    simp [hj, this]

def sentStat (v : View) (sid c : Nat) : CStat :=
  match v.calls[c]? with
  | some (.orphan _) => .zombie sid
  | _ => .started sid

def doneStat (v : View) (c : Nat) : CStat :=
  match v.calls[c]? with
  | some (.connecting sid) => .orphan sid
  | _ => .done

def relStat (v : View) (c : Nat) : CStat :=
  match v.calls[c]? with
  | some (.zombie _) => .done
  | _ => .released

theorem calls_sent (sid c j : Nat) :
    (v.apply (.sent sid c)).calls[j]? =
      if j = c ∧ c < v.calls.length then some (sentStat v sid c) else v.calls[j]? := by
  simp only [View.apply, getElem?_set_self']; rfl

theorem calls_connecting (sid c j : Nat) :
    (v.apply (.connecting sid c)).calls[j]? =
      if j = c ∧ c < v.calls.length then some (.connecting sid) else v.calls[j]? := by
  simp only [View.apply, getElem?_set_self']

theorem calls_queued (c j : Nat) :
    (v.apply (.queued c)).calls[j]? =
      if j = c ∧ c < v.calls.length then some .pending else v.calls[j]? := by
  simp only [View.apply, getElem?_set_self']

theorem calls_done (c : Nat) (o : Outcome) (j : Nat) :
    (v.apply (.done c o)).calls[j]? =
      if j = c ∧ c < v.calls.length then some (doneStat v c) else v.calls[j]? := by
  simp only [View.apply, getElem?_set_self']; rfl

theorem calls_rel (sid j : Nat) :
    (v.apply (.rel sid)).calls[j]? =
      if holderOf v sid = some j ∧ j < v.calls.length then some (relStat v j) else v.calls[j]? := by
  simp only [View.apply]
  cases hh : holderOf v sid with
  | none => simp
  | some c =>
    simp only [getElem?_set_self']
    by_cases hj : j = c
    · subst hj; simp only [true_and]; rfl
    · have : ¬ (some c = some j ∧ j < v.calls.length) := by
        rintro ⟨h, _⟩; injection h with h; exact hj h.symm
      have h2 : ¬ (j = c ∧ c < v.calls.length) := fun h => hj h.1
      rw [if_neg h2, if_neg this]

/-! the `opening` flag -/
def openFlag (v : View) (sid : Nat) : Bool :=
  match v.sinks[sid]? with
  | some k => k.opening
  | none => false

theorem openFlag_created (sid : Nat) (ok : Bool) (j : Nat) :
    openFlag (v.apply (.created sid ok)) j = openFlag v j := by
  simp only [openFlag, View.apply, List.getElem?_append]
  by_cases h : j < v.sinks.length
  · simp [h]
  · have h3 : v.sinks[j]? = none := by simp; omega
    simp only [h, h3, if_false]
    cases hh : j - v.sinks.length with
    | zero => simp
    | succ m => simp

theorem openFlag_closed (sid j : Nat) : openFlag (v.apply (.closed sid)) j = openFlag v j := by
  simp only [openFlag, View.apply, List.getElem?_modify]
  cases h : v.sinks[j]? with
  | none => simp
  | some k => by_cases hj : sid = j <;> simp [hj]

theorem openFlag_sent (sid c j : Nat) :
    openFlag (v.apply (.sent sid c)) j = if j = sid then false else openFlag v j := by
  simp only [openFlag, View.apply, List.getElem?_modify]
  cases h : v.sinks[j]? with
  | none => simp
  | some k =>
    by_cases hj : sid = j
    · subst hj; simp
    · have : ¬ j = sid := fun h => hj h.symm
      simp [hj, this]

theorem openFlag_rel (sid j : Nat) :
    openFlag (v.apply (.rel sid)) j = if j = sid then false else openFlag v j := by
  simp only [openFlag, View.apply, List.getElem?_modify]
  cases h : v.sinks[j]? with
  | none => simp
  | some k =>
    by_cases hj : sid = j
    · subst hj; simp
    · have : ¬ j = sid := fun h => hj h.symm
      simp [hj, this]

theorem openFlag_connecting (sid c j : Nat) :
    openFlag (v.apply (.connecting sid c)) j =
      if j = sid ∧ sid < v.sinks.length then true else openFlag v j := by
  simp only [openFlag, View.apply, List.getElem?_modify]
  cases h : v.sinks[j]? with
  | none =>
    have : ¬ j < v.sinks.length := by
      intro hlt; simp [List.getElem?_eq_getElem hlt] at h
    have : ¬ (j = sid ∧ sid < v.sinks.length) := by rintro ⟨rfl, h2⟩; exact this h2
    simp [this]
  | some k =>
    have hlt : j < v.sinks.length := by
      by_contra hc; simp at hc; simp [List.getElem?_eq_none hc] at h
    by_cases hj : sid = j
    · subst hj; simp [hlt]
    · have : ¬ (j = sid ∧ sid < v.sinks.length) := by rintro ⟨rfl, _⟩; exact hj rfl
      simp [hj, this]

@[simp] theorem openFlag_queued (c j : Nat) : openFlag (v.apply (.queued c)) j = openFlag v j := rfl
@[simp] theorem openFlag_done (c : Nat) (o : Outcome) (j : Nat) :
    openFlag (v.apply (.done c o)) j = openFlag v j := rfl

end apply

/-! ## lent connections under events -/

theorem lentIds_def (v : View) : lentIds v = (List.range v.sinks.length).filter (fun j => (holderOf v j).isSome) := by
  unfold lentIds
  apply ids_congr
  intro i _
  exact isLent_eq v i

theorem lentIds_created (v : View) (sid : Nat) (ok : Bool) : lentIds (v.apply (.created sid ok)) = lentIds v := by
  rw [lentIds_def, lentIds_def, sinks_len_created, ids_succ]
  have h1 : holderOf (v.apply (.created sid ok)) v.sinks.length = none := by
    rw [holderOf_created]; simp [holderOf]
  simp only [h1, Option.isSome_none, Bool.false_eq_true, if_false, List.append_nil]
  apply ids_congr
  intro i _
  rw [holderOf_created]

theorem lentIds_closed (v : View) (sid : Nat) : lentIds (v.apply (.closed sid)) = lentIds v := by
  rw [lentIds_def, lentIds_def, sinks_len_closed]
  apply ids_congr; intro i _; rw [holderOf_closed]

theorem lentIds_queued (v : View) (c : Nat) : lentIds (v.apply (.queued c)) = lentIds v := rfl
theorem lentIds_done (v : View) (c : Nat) (o : Outcome) : lentIds (v.apply (.done c o)) = lentIds v := rfl

theorem lentIds_len_sent (v : View) (sid c : Nat) (hfree : holderOf v sid = none) (hlt : sid < v.sinks.length) :
    (lentIds (v.apply (.sent sid c))).length = (lentIds v).length + 1 := by
  rw [lentIds_def, lentIds_def, sinks_len_sent]
  apply length_ids_set_true hlt
  · simp [hfree]
  · rw [holderOf_sent]; simp [hlt]
  · intro j hj; rw [holderOf_sent]; simp [hj]

theorem lentIds_len_connecting (v : View) (sid c : Nat) (hfree : holderOf v sid = none) (hlt : sid < v.sinks.length) :
    (lentIds (v.apply (.connecting sid c))).length = (lentIds v).length + 1 := by
  rw [lentIds_def, lentIds_def, sinks_len_connecting]
  apply length_ids_set_true hlt
  · simp [hfree]
  · rw [holderOf_connecting]; simp [hlt]
  · intro j hj; rw [holderOf_connecting]; simp [hj]

theorem lentIds_len_rel_lent (v : View) (sid c : Nat) (h : holderOf v sid = some c) :
    (lentIds v).length = (lentIds (v.apply (.rel sid))).length + 1 := by
  have hlt : sid < v.sinks.length := by
    by_contra hc
    have : v.sinks[sid]? = none := by simp; omega
    simp [holderOf, this] at h
  rw [lentIds_def, lentIds_def, sinks_len_rel]
  apply length_ids_set_true hlt
  · rw [holderOf_rel]; simp
  · simp [h]
  · intro j hj; rw [holderOf_rel]; simp [hj]

theorem lentIds_rel_free (v : View) (sid : Nat) (h : holderOf v sid = none) :
    lentIds (v.apply (.rel sid)) = lentIds v := by
  rw [lentIds_def, lentIds_def, sinks_len_rel]
  apply ids_congr; intro i _; rw [holderOf_rel]
  by_cases hi : i = sid
  · subst hi; simp [h]
  · simp [hi]

theorem holderOf_lt {v : View} {sid c : Nat} (h : holderOf v sid = some c) : sid < v.sinks.length := by
  by_contra hc
  have : v.sinks[sid]? = none := by simp; omega
  simp [holderOf, this] at h

/-! ## the invariant -/

/-- connections the pool holds that are not lent: cached, being handed off, or in the hand of
    the code that is running (`h`) -/
def held (s : St) (h : Option Nat) : List Nat := s.cache ++ s.tasks ++ h.toList

structure Inv (cfg : Cfg) (h : Option Nat) (s : St) : Prop where
  size_eq : s.size = (lentIds s.view).length + (held s h).length
  size_le : s.size ≤ cfg.max
  nodup : (held s h).Nodup
  free : ∀ sid ∈ held s h, sid < s.view.sinks.length ∧ holderOf s.view sid = none
  aliveHeld : ∀ sid, isAlive s.view sid = true → (holderOf s.view sid).isSome = true ∨ sid ∈ held s h
  cacheW : s.waiters ≠ [] → s.cache = []
  cacheMin : s.cache.length ≤ cfg.min
  wq : s.waiters.length ≤ cfg.maxq
  wSorted : s.waiters.Pairwise (· < ·)
  wStat : ∀ c ∈ s.waiters, s.view.calls[c]? = some .pending ∨ s.view.calls[c]? = some .done
  pendW : ∀ c, s.view.calls[c]? = some .pending → c ∈ s.waiters
  lentCall : ∀ sid c, holderOf s.view sid = some c →
    ∃ st, s.view.calls[c]? = some st ∧ st.holds = some sid
  startedLent : ∀ sid c st, s.view.calls[c]? = some st → st.holds = some sid → holderOf s.view sid = some c
  openHeld : ∀ sid, openFlag s.view sid = true → (holderOf s.view sid).isSome = true
  openConn : ∀ sid c, openFlag s.view sid = true → holderOf s.view sid = some c →
    s.view.calls[c]? = some (.connecting sid) ∨ s.view.calls[c]? = some (.orphan sid)
  full : s.everClosed = false → s.waiters ≠ [] → cfg.max ≤ s.size
  closedFlag : s.pstate = .closed → s.everClosed = true

theorem inv_init (cfg : Cfg) : Inv cfg none St.init := by
  constructor <;> simp [St.init, held, St.view, lentIds, holderOf, isAlive, openFlag]

/-! ### moves of a connection between cache / hand-off queue / hand (no event) -/

theorem take_cache {cfg : Cfg} {s : St} {sid : Nat} {rest : List Nat} (h : Inv cfg none s)
    (hc : s.cache = sid :: rest) : Inv cfg (some sid) { s with cache := rest } := by
  have hmem : ∀ x, x ∈ held { s with cache := rest } (some sid) ↔ x ∈ held s none := by
    intro x; simp only [held, hc]; simp; tauto
  have hlen : (held { s with cache := rest } (some sid)).length = (held s none).length := by
    simp only [held, hc]; simp <;> omega
  refine { h with size_eq := ?_, nodup := ?_, free := ?_, aliveHeld := ?_, cacheW := ?_, cacheMin := ?_ }
  · rw [hlen]; exact h.size_eq
  · have := h.nodup
    simp only [held, hc] at this ⊢
    simp [List.nodup_append, List.nodup_cons] at this ⊢
    try grind
  · intro x hx; exact h.free x ((hmem x).1 hx)
  · intro x hx
    rcases h.aliveHeld x hx with h1 | h1
    · exact Or.inl h1
    · exact Or.inr ((hmem x).2 h1)
  · intro hw
    have := h.cacheW hw
    simp [hc] at this
  · have := h.cacheMin
    simp only [hc, List.length_cons] at this
    show rest.length ≤ cfg.min
    omega

theorem take_task {cfg : Cfg} {s : St} {sid : Nat} {rest : List Nat} (h : Inv cfg none s)
    (hc : s.tasks = sid :: rest) : Inv cfg (some sid) { s with tasks := rest } := by
  have hmem : ∀ x, x ∈ held { s with tasks := rest } (some sid) ↔ x ∈ held s none := by
    intro x; simp only [held, hc]; simp; tauto
  have hlen : (held { s with tasks := rest } (some sid)).length = (held s none).length := by
    simp only [held, hc]; simp <;> omega
  refine { h with size_eq := ?_, nodup := ?_, free := ?_, aliveHeld := ?_ }
  · rw [hlen]; exact h.size_eq
  · have := h.nodup
    simp only [held, hc] at this ⊢
    simp [List.nodup_append, List.nodup_cons] at this ⊢
    try grind
  · intro x hx; exact h.free x ((hmem x).1 hx)
  · intro x hx
    rcases h.aliveHeld x hx with h1 | h1
    · exact Or.inl h1
    · exact Or.inr ((hmem x).2 h1)

theorem put_task {cfg : Cfg} {s : St} {sid : Nat} (h : Inv cfg (some sid) s) :
    Inv cfg none { s with tasks := s.tasks ++ [sid] } := by
  have heq : held { s with tasks := s.tasks ++ [sid] } none = held s (some sid) := by
    simp [held]
  refine { h with size_eq := ?_, nodup := ?_, free := ?_, aliveHeld := ?_ }
  · rw [heq]; exact h.size_eq
  · rw [heq]; exact h.nodup
  · rw [heq]; exact h.free
  · rw [heq]; exact h.aliveHeld

theorem put_cache {cfg : Cfg} {s : St} {sid : Nat} (h : Inv cfg (some sid) s) (hw : s.waiters = [])
    (hmin : s.size ≤ cfg.min) : Inv cfg none { s with cache := s.cache ++ [sid] } := by
  have hmem : ∀ x, x ∈ held { s with cache := s.cache ++ [sid] } none ↔ x ∈ held s (some sid) := by
    intro x; simp only [held]; simp; tauto
  have hlen : (held { s with cache := s.cache ++ [sid] } none).length = (held s (some sid)).length := by
    simp only [held]; simp <;> omega
  refine { h with size_eq := ?_, nodup := ?_, free := ?_, aliveHeld := ?_, cacheW := ?_, cacheMin := ?_ }
  · rw [hlen]; exact h.size_eq
  · have := h.nodup
    simp only [held] at this ⊢
    simp [List.nodup_append, List.nodup_cons] at this ⊢
    try grind
  · intro x hx; exact h.free x ((hmem x).1 hx)
  · intro x hx
    rcases h.aliveHeld x hx with h1 | h1
    · exact Or.inl h1
    · exact Or.inr ((hmem x).2 h1)
  · intro hne; exact absurd hw hne
  · have h1 := h.size_eq
    simp only [held] at h1
    simp at h1
    show (s.cache ++ [sid]).length ≤ cfg.min
    simp; omega

/-- the connection in hand is dead (or has just been closed): forget it and give its slot back -/
theorem drop_hand {cfg : Cfg} {s : St} {sid : Nat} (h : Inv cfg (some sid) s)
    (hdead : isAlive s.view sid = false) (hf : s.everClosed = false → s.waiters = []) :
    Inv cfg none { s with size := s.size - 1 } := by
  have hsub : ∀ x, x ∈ held { s with size := s.size - 1 } none → x ∈ held s (some sid) := by
    intro x; simp only [held]; simp; tauto
  refine { h with size_eq := ?_, size_le := ?_, nodup := ?_, free := ?_, aliveHeld := ?_, full := ?_ }
  · have h1 := h.size_eq
    simp only [held, view_with] at h1 ⊢
    simp at h1 ⊢
    omega
  · have := h.size_le; show s.size - 1 ≤ cfg.max; omega
  · have := h.nodup
    simp only [held] at this ⊢
    simp [List.nodup_append] at this ⊢
    try grind
  · intro x hx; exact h.free x (hsub x hx)
  · intro x hx
    simp only [view_with] at hx ⊢
    rcases h.aliveHeld x hx with h1 | h1
    · exact Or.inl h1
    · right
      simp only [held] at h1 ⊢
      simp at h1 ⊢
      rcases h1 with h1 | h1 | h1
      · exact Or.inl h1
      · exact Or.inr h1
      · subst h1; rw [hdead] at hx; exact absurd hx (by simp)
  · intro he hw
    exact absurd (hf he) hw

theorem set_closed {cfg : Cfg} {s : St} {h : Option Nat} (hi : Inv cfg h s) :
    Inv cfg h { s with pstate := .closed, everClosed := true } := by
  refine { hi with full := ?_, closedFlag := ?_ }
  · intro he; simp at he
  · intro _; rfl

theorem set_opened {cfg : Cfg} {s : St} {h : Option Nat} (hi : Inv cfg h s) :
    Inv cfg h { s with pstate := .opened } := by
  refine { hi with closedFlag := ?_ }
  intro hc; simp at hc

theorem skip_waiter {cfg : Cfg} {s : St} {h : Option Nat} {c : Nat} {rest : List Nat} (hi : Inv cfg h s)
    (hw : s.waiters = c :: rest) (hc : s.view.calls[c]? ≠ some .pending) :
    Inv cfg h { s with waiters := rest } := by
  refine { hi with cacheW := ?_, wq := ?_, wSorted := ?_, wStat := ?_, pendW := ?_, full := ?_ }
  · intro _; exact hi.cacheW (by simp [hw])
  · have := hi.wq; simp only [hw, List.length_cons] at this; show rest.length ≤ _; omega
  · have := hi.wSorted; rw [hw] at this; exact (List.pairwise_cons.1 this).2
  · intro c' hc'; exact hi.wStat c' (by simp [hw, hc'])
  · intro c' hc'
    have := hi.pendW c' hc'
    rw [hw] at this
    rcases List.mem_cons.1 this with h1 | h1
    · subst h1; exact absurd hc' hc
    · exact h1
  · intro he _; exact hi.full he (by simp [hw])

/-! ### events -/

@[simp] theorem held_emit (s : St) (ev : Ev) (h : Option Nat) : held (s.emit ev) h = held s h := rfl

theorem emit_closed {cfg : Cfg} {s : St} {h : Option Nat} (hi : Inv cfg h s) (sid : Nat) :
    Inv cfg h (s.emit (.closed sid)) := by
  constructor
  · rw [view_emit, lentIds_closed]; exact hi.size_eq
  · exact hi.size_le
  · exact hi.nodup
  · intro x hx; rw [view_emit, holderOf_closed, sinks_len_closed]; exact hi.free x hx
  · intro x hx
    rw [view_emit, isAlive_closed] at hx
    rw [view_emit, holderOf_closed]
    split at hx
    · simp at hx
    · exact hi.aliveHeld x hx
  · exact hi.cacheW
  · exact hi.cacheMin
  · exact hi.wq
  · exact hi.wSorted
  · intro c hc; rw [view_emit, calls_closed]; exact hi.wStat c hc
  · intro c hc; rw [view_emit, calls_closed] at hc; exact hi.pendW c hc
  · intro x c hx; rw [view_emit, holderOf_closed] at hx; rw [view_emit, calls_closed]; exact hi.lentCall x c hx
  · intro x c st hx hh; rw [view_emit, calls_closed] at hx; rw [view_emit, holderOf_closed]
    exact hi.startedLent x c st hx hh
  · intro x hx; rw [view_emit, openFlag_closed] at hx; rw [view_emit, holderOf_closed]; exact hi.openHeld x hx
  · intro x c hx hh
    rw [view_emit, openFlag_closed] at hx; rw [view_emit, holderOf_closed] at hh
    rw [view_emit, calls_closed]; exact hi.openConn x c hx hh
  · exact hi.full
  · exact hi.closedFlag

theorem isAlive_after_closed (s : St) (sid : Nat) : isAlive (s.emit (.closed sid)).view sid = false := by
  rw [view_emit, isAlive_closed]; simp

/-- statuses whose caller has not been answered and that `done` may be applied to -/
def CStat.answerable : CStat → Bool
  | .arriving => true
  | .pending => true
  | .connecting _ => true
  | .released => true
  | _ => false

theorem doneStat_holds {v : View} {c : Nat} {st : CStat} (h : v.calls[c]? = some st)
    (ha : st.answerable = true) : (doneStat v c).holds = st.holds := by
  unfold doneStat; rw [h]
  cases st <;> simp_all [CStat.holds, CStat.answerable]

theorem doneStat_not_pending (v : View) (c : Nat) : doneStat v c ≠ .pending := by
  unfold doneStat; split <;> simp

/-- a response reaches the caller of `c` -/
theorem emit_done {cfg : Cfg} {s : St} {h : Option Nat} (hi : Inv cfg h s) (c : Nat) (out : Outcome)
    {st0 : CStat} (hc : s.view.calls[c]? = some st0) (ha : st0.answerable = true) :
    Inv cfg h (s.emit (.done c out)) := by
  have hholds := doneStat_holds hc ha
  constructor
  · rw [view_emit, lentIds_done]; exact hi.size_eq
  · exact hi.size_le
  · exact hi.nodup
  · intro x hx; rw [view_emit, holderOf_done, sinks_len_done]; exact hi.free x hx
  · intro x hx
    rw [view_emit, isAlive_done] at hx
    rw [view_emit, holderOf_done]
    exact hi.aliveHeld x hx
  · exact hi.cacheW
  · exact hi.cacheMin
  · exact hi.wq
  · exact hi.wSorted
  · intro c' hc'
    rw [view_emit, calls_done]
    split
    · rename_i h1
      right
      have h0 := hi.wStat c' hc'
      rw [h1.1] at h0
      unfold doneStat
      rcases h0 with h0 | h0 <;> rw [h0]
    · exact hi.wStat c' hc'
  · intro c' hc'
    rw [view_emit, calls_done] at hc'
    split at hc'
    · injection hc' with hc'; exact absurd hc' (doneStat_not_pending _ _)
    · exact hi.pendW c' hc'
  · intro x c' hx
    rw [view_emit, holderOf_done] at hx
    rw [view_emit, calls_done]
    obtain ⟨st, h1, h2⟩ := hi.lentCall x c' hx
    split
    · rename_i h3
      rw [h3.1, hc] at h1; injection h1 with h1; subst h1
      exact ⟨_, rfl, by rw [hholds]; exact h2⟩
    · exact ⟨st, h1, h2⟩
  · intro x c' st hx hh
    rw [view_emit, calls_done] at hx
    rw [view_emit, holderOf_done]
    split at hx
    · rename_i h3
      injection hx with hx; subst hx
      rw [hholds] at hh
      rw [h3.1]; exact hi.startedLent x c st0 hc hh
    · exact hi.startedLent x c' st hx hh
  · intro x hx; rw [view_emit, openFlag_done] at hx; rw [view_emit, holderOf_done]; exact hi.openHeld x hx
  · intro x c' hx hh
    rw [view_emit, openFlag_done] at hx; rw [view_emit, holderOf_done] at hh
    rw [view_emit, calls_done]
    have h0 := hi.openConn x c' hx hh
    split
    · rename_i h3
      rw [h3.1] at h0
      right
      rcases h0 with h0 | h0
      · unfold doneStat; rw [h0]
      · rw [hc] at h0; injection h0 with h0; subst h0; simp [CStat.answerable] at ha
    · exact h0
  · exact hi.full
  · exact hi.closedFlag

theorem relStat_holds (v : View) (c : Nat) : (relStat v c).holds = none := by
  unfold relStat; split <;> rfl

theorem relStat_not_pending (v : View) (c : Nat) : relStat v c ≠ .pending := by
  unfold relStat; split <;> simp

/-- `_Release` entered for a connection that was lent to call `c` -/
theorem emit_rel_lent {cfg : Cfg} {s : St} {sid c : Nat} (hi : Inv cfg none s)
    (hl : holderOf s.view sid = some c) : Inv cfg (some sid) (s.emit (.rel sid)) := by
  have hlt := holderOf_lt hl
  have hnot : sid ∉ held s none := by
    intro hm; have := (hi.free sid hm).2; rw [hl] at this; simp at this
  obtain ⟨st0, hcs, hholds⟩ := hi.lentCall sid c hl
  have hclt : c < s.view.calls.length := by
    by_contra hc; simp at hc; simp [List.getElem?_eq_none hc] at hcs
  -- no other connection is held by `c`
  have hother : ∀ x, holderOf s.view x = some c → x = sid := by
    intro x hx
    obtain ⟨st, h1, h2⟩ := hi.lentCall x c hx
    rw [hcs] at h1; injection h1 with h1; subst h1
    rw [hholds] at h2; injection h2 with h2; exact h2.symm
  constructor
  · rw [view_emit]
    have h1 := lentIds_len_rel_lent s.view sid c hl
    have h2 := hi.size_eq
    simp only [held, held_emit] at h2 ⊢
    simp at h2 ⊢
    omega
  · exact hi.size_le
  · have := hi.nodup
    simp only [held, held_emit] at this hnot ⊢
    simp [List.nodup_append] at this hnot ⊢
    try grind
  · intro x hx
    rw [view_emit, holderOf_rel, sinks_len_rel]
    simp only [held, held_emit] at hx
    simp at hx
    by_cases hxs : x = sid
    · subst hxs; simp [hlt]
    · have hx' : x ∈ held s none := by simp only [held]; simp; tauto
      simp [hxs]; exact hi.free x hx'
  · intro x hx
    rw [view_emit, isAlive_rel] at hx
    rw [view_emit, holderOf_rel]
    by_cases hxs : x = sid
    · right; simp [held, hxs]
    · simp only [hxs, if_false]
      rcases hi.aliveHeld x hx with h1 | h1
      · exact Or.inl h1
      · right; simp only [held] at h1 ⊢; simp at h1 ⊢; tauto
  · exact hi.cacheW
  · exact hi.cacheMin
  · exact hi.wq
  · exact hi.wSorted
  · intro c' hc'
    rw [view_emit, calls_rel]
    have h0 := hi.wStat c' hc'
    split
    · rename_i h1
      rw [hl] at h1
      have : c = c' := by injection h1.1
      subst this
      rw [hcs] at h0
      rcases h0 with h0 | h0 <;> (injection h0 with h0; subst h0; simp [CStat.holds] at hholds)
    · exact h0
  · intro c' hc'
    rw [view_emit, calls_rel] at hc'
    split at hc'
    · injection hc' with hc'; exact absurd hc' (relStat_not_pending _ _)
    · exact hi.pendW c' hc'
  · intro x c' hx
    rw [view_emit, holderOf_rel] at hx
    rw [view_emit, calls_rel]
    split at hx
    · simp at hx
    · rename_i hne
      obtain ⟨st, h1, h2⟩ := hi.lentCall x c' hx
      split
      · rename_i h3
        rw [hl] at h3
        have : c = c' := by injection h3.1
        subst this
        exact absurd (hother x hx) hne
      · exact ⟨st, h1, h2⟩
  · intro x c' st hx hh
    rw [view_emit, calls_rel] at hx
    rw [view_emit, holderOf_rel]
    split at hx
    · injection hx with hx; subst hx
      rw [relStat_holds] at hh; simp at hh
    · rename_i hne
      have h0 := hi.startedLent x c' st hx hh
      split
      · rename_i h2
        subst h2
        rw [hl] at h0
        injection h0 with h0
        subst h0
        exact absurd ⟨hl, hclt⟩ hne
      · exact h0
  · intro x hx
    rw [view_emit, openFlag_rel] at hx
    rw [view_emit, holderOf_rel]
    split at hx
    · simp at hx
    · rename_i hne; simp only [hne, if_false]; exact hi.openHeld x hx
  · intro x c' hx hh
    rw [view_emit, openFlag_rel] at hx
    rw [view_emit, holderOf_rel] at hh
    rw [view_emit, calls_rel]
    split at hx
    · simp at hx
    · rename_i hne
      simp only [hne, if_false] at hh
      have h0 := hi.openConn x c' hx hh
      split
      · rename_i h3
        rw [hl] at h3
        have : c = c' := by injection h3.1
        subst this
        exact absurd (hother x hh) hne
      · exact h0
  · exact hi.full
  · exact hi.closedFlag

/-- the invariant only depends on the pointwise picture of the view and on the lists -/
theorem inv_congr {cfg : Cfg} {s s' : St} {h : Option Nat} (hi : Inv cfg h s)
    (hl : lentIds s'.view = lentIds s.view) (hn : s'.view.sinks.length = s.view.sinks.length)
    (hh : ∀ j : Nat, holderOf s'.view j = holderOf s.view j)
    (ha : ∀ j : Nat, isAlive s'.view j = true → isAlive s.view j = true ∨ (holderOf s.view j).isSome = true)
    (ho : ∀ j : Nat, openFlag s'.view j = openFlag s.view j)
    (hc : ∀ j : Nat, s'.view.calls[j]? = s.view.calls[j]?)
    (h1 : s'.cache = s.cache) (h2 : s'.tasks = s.tasks) (h3 : s'.waiters = s.waiters)
    (h4 : s'.size = s.size) (h5 : s'.pstate = s.pstate) (h6 : s'.everClosed = s.everClosed) :
    Inv cfg h s' := by
  have hheld : held s' h = held s h := by simp [held, h1, h2]
  constructor
  · rw [hl, hheld, h4]; exact hi.size_eq
  · rw [h4]; exact hi.size_le
  · rw [hheld]; exact hi.nodup
  · intro x hx; rw [hheld] at hx; rw [hn, hh]; exact hi.free x hx
  · intro x hx
    rw [hh, hheld]
    rcases ha x hx with h7 | h7
    · exact hi.aliveHeld x h7
    · exact Or.inl h7
  · rw [h3, h1]; exact hi.cacheW
  · rw [h1]; exact hi.cacheMin
  · rw [h3]; exact hi.wq
  · rw [h3]; exact hi.wSorted
  · intro c hc'; rw [h3] at hc'; rw [hc]; exact hi.wStat c hc'
  · intro c hc'; rw [hc] at hc'; rw [h3]; exact hi.pendW c hc'
  · intro x c hx; rw [hh] at hx; rw [hc]; exact hi.lentCall x c hx
  · intro x c st hx hst; rw [hc] at hx; rw [hh]; exact hi.startedLent x c st hx hst
  · intro x hx; rw [ho] at hx; rw [hh]; exact hi.openHeld x hx
  · intro x c hx hx2; rw [ho] at hx; rw [hh] at hx2; rw [hc]; exact hi.openConn x c hx hx2
  · rw [h6, h3, h4]; exact hi.full
  · rw [h5, h6]; exact hi.closedFlag

theorem openFlag_false_of_free {cfg : Cfg} {s : St} {h : Option Nat} (hi : Inv cfg h s) {sid : Nat}
    (hf : holderOf s.view sid = none) : openFlag s.view sid = false := by
  by_contra hc
  have := hi.openHeld sid (by simpa using hc)
  rw [hf] at this; simp at this

/-- `_Release` entered for a connection that is in hand and not lent -/
theorem emit_rel_free {cfg : Cfg} {s : St} {sid : Nat} (hi : Inv cfg (some sid) s) :
    Inv cfg (some sid) (s.emit (.rel sid)) := by
  have hfree : holderOf s.view sid = none := (hi.free sid (by simp [held])).2
  apply inv_congr hi
  · rw [view_emit]; exact lentIds_rel_free _ _ hfree
  · rw [view_emit, sinks_len_rel]
  · intro j; rw [view_emit, holderOf_rel]; split
    · rename_i h; subst h; exact hfree.symm
    · rfl
  · intro j hj; rw [view_emit, isAlive_rel] at hj; exact Or.inl hj
  · intro j; rw [view_emit, openFlag_rel]; split
    · rename_i h; subst h; exact (openFlag_false_of_free hi hfree).symm
    · rfl
  · intro j; rw [view_emit, calls_rel]; simp [hfree]
  all_goals rfl

/-- the connection in hand is given to call `c`; `w'` is the waiters list without `c` -/
theorem emit_sent {cfg : Cfg} {s : St} {sid c : Nat} {w' : List Nat} (hi : Inv cfg (some sid) s)
    (hc : s.view.calls[c]? = some .arriving ∨ s.view.calls[c]? = some .pending)
    (hsub : ∀ x, x ∈ w' ↔ (x ∈ s.waiters ∧ x ≠ c)) (hsorted : w'.Pairwise (· < ·))
    (hlen : w'.length ≤ s.waiters.length) :
    Inv cfg none (({ s with waiters := w' }).emit (.sent sid c)) := by
  have hsentx : ∀ x, sentStat s.view x c = .started x := by
    intro x; unfold sentStat; rcases hc with hc | hc <;> rw [hc]
  have hsent := hsentx sid
  have hf := hi.free sid (by simp [held])
  have hclt : c < s.view.calls.length := by
    by_contra h; simp at h; simp [List.getElem?_eq_none h] at hc
  have hne_of : w' ≠ [] → s.waiters ≠ [] := by
    intro h1 h2
    cases w' with
    | nil => exact h1 rfl
    | cons x xs => have := (hsub x).1 (by simp); rw [h2] at this; simp at this
  have hnoholds : ∀ st, s.view.calls[c]? = some st → st.holds = none := by
    intro st hst
    rcases hc with hc | hc <;> (rw [hc] at hst; injection hst with hst; subst hst; rfl)
  -- `c` holds no connection yet
  have hcfree : ∀ x, holderOf s.view x ≠ some c := by
    intro x hx
    obtain ⟨st, h1, h2⟩ := hi.lentCall x c hx
    rw [hnoholds st h1] at h2; simp at h2
  constructor
  · simp only [view_emit, view_with]
    rw [lentIds_len_sent _ _ _ hf.2 hf.1]
    have := hi.size_eq
    simp only [held, emit_cache, emit_tasks] at this ⊢
    simp at this ⊢
    omega
  · exact hi.size_le
  · have := hi.nodup
    simp only [held, emit_cache, emit_tasks] at this ⊢
    simp [List.nodup_append] at this ⊢
    try grind
  · intro x hx
    have hx' : x ∈ held s (some sid) := by
      simp only [held, emit_cache, emit_tasks] at hx ⊢; simp at hx ⊢; tauto
    have hne : x ≠ sid := by
      intro he; subst he
      have := hi.nodup
      simp only [held, emit_cache, emit_tasks] at hx this
      simp [List.nodup_append] at hx this
      try grind
    simp only [view_emit, view_with, holderOf_sent, sinks_len_sent]
    simp [hne]; exact hi.free x hx'
  · intro x hx
    simp only [view_emit, view_with, isAlive_sent, holderOf_sent] at hx ⊢
    by_cases hxs : x = sid
    · left; simp [hxs, hf.1]
    · rcases hi.aliveHeld x hx with h1 | h1
      · left; simp [hxs, h1]
      · right; simp only [held, emit_cache, emit_tasks] at h1 ⊢; simp at h1 ⊢; tauto
  · intro hw; exact hi.cacheW (hne_of hw)
  · exact hi.cacheMin
  · have := hi.wq; show w'.length ≤ cfg.maxq; omega
  · exact hsorted
  · intro c' hc'
    have hc'' := (hsub c').1 hc'
    simp only [view_emit, view_with, calls_sent]
    simp [hc''.2]; exact hi.wStat c' hc''.1
  · intro c' hc'
    simp only [view_emit, view_with, calls_sent] at hc'
    show c' ∈ w'
    split at hc'
    · exfalso; revert hc'; rw [hsentx]; simp
    · rename_i hne
      have h1 := hi.pendW c' hc'
      refine (hsub c').2 ⟨h1, ?_⟩
      intro he; exact hne ⟨he, hclt⟩
  · intro x c' hx
    simp only [view_emit, view_with, holderOf_sent, calls_sent] at hx ⊢
    split at hx
    · rename_i h1
      injection hx with hx; subst hx
      rw [if_pos ⟨rfl, hclt⟩, h1.1]
      exact ⟨_, rfl, by rw [hsent]; rfl⟩
    · obtain ⟨st, h0, h2⟩ := hi.lentCall x c' hx
      split
      · rename_i h3; rw [h3.1] at hx; exact absurd hx (hcfree x)
      · exact ⟨st, h0, h2⟩
  · intro x c' st hx hh
    simp only [view_emit, view_with, holderOf_sent, calls_sent] at hx ⊢
    split at hx
    · rename_i h1
      injection hx with hx; subst hx
      have : x = sid := by
        have := (show (sentStat s.view sid c).holds = some sid from by rw [hsent]; rfl)
        rw [this] at hh; injection hh with hh; exact hh.symm
      subst this
      simp [hf.1, h1.1]
    · have h0 := hi.startedLent x c' st hx hh
      split
      · rename_i h2; rw [h2.1, hf.2] at h0; simp at h0
      · exact h0
  · intro x hx
    simp only [view_emit, view_with, openFlag_sent, holderOf_sent] at hx ⊢
    by_cases hxs : x = sid
    · simp [hxs, hf.1]
    · simp only [hxs, false_and, if_false] at hx ⊢
      exact hi.openHeld x hx
  · intro x c' hx hh
    simp only [view_emit, view_with, openFlag_sent, holderOf_sent, calls_sent] at hx hh ⊢
    by_cases hxs : x = sid
    · subst hxs; simp at hx
    · simp only [hxs, false_and, if_false] at hx hh
      have h0 := hi.openConn x c' hx hh
      have : ¬ (c' = c ∧ c < s.view.calls.length) := by
        rintro ⟨h1, _⟩; subst h1; exact hcfree x hh
      rw [if_neg this]; exact h0
  · intro he hw; exact hi.full he (hne_of hw)
  · exact hi.closedFlag

/-- the connection in hand is being opened for the arriving call `c`, whose greenlet blocks -/
theorem emit_connecting {cfg : Cfg} {s : St} {sid c : Nat} {w' : List Nat} (hi : Inv cfg (some sid) s)
    (hc : s.view.calls[c]? = some .arriving ∨ s.view.calls[c]? = some .pending)
    (hsub : ∀ x, x ∈ w' ↔ (x ∈ s.waiters ∧ x ≠ c)) (hsorted : w'.Pairwise (· < ·))
    (hlen : w'.length ≤ s.waiters.length) :
    Inv cfg none (({ s with waiters := w' }).emit (.connecting sid c)) := by
  have hf := hi.free sid (by simp [held])
  have hclt : c < s.view.calls.length := by
    by_contra h; simp at h; simp [List.getElem?_eq_none h] at hc
  have hne_of : w' ≠ [] → s.waiters ≠ [] := by
    intro h1 h2
    cases w' with
    | nil => exact h1 rfl
    | cons x xs => have := (hsub x).1 (by simp); rw [h2] at this; simp at this
  have hnoholds : ∀ st, s.view.calls[c]? = some st → st.holds = none := by
    intro st hst
    rcases hc with hc | hc <;> (rw [hc] at hst; injection hst with hst; subst hst; rfl)
  -- `c` holds no connection yet
  have hcfree : ∀ x, holderOf s.view x ≠ some c := by
    intro x hx
    obtain ⟨st, h1, h2⟩ := hi.lentCall x c hx
    rw [hnoholds st h1] at h2; simp at h2
  constructor
  · simp only [view_emit, view_with]
    rw [lentIds_len_connecting _ _ _ hf.2 hf.1]
    have := hi.size_eq
    simp only [held, emit_cache, emit_tasks] at this ⊢
    simp at this ⊢
    omega
  · exact hi.size_le
  · have := hi.nodup
    simp only [held, emit_cache, emit_tasks] at this ⊢
    simp [List.nodup_append] at this ⊢
    try grind
  · intro x hx
    have hx' : x ∈ held s (some sid) := by
      simp only [held, emit_cache, emit_tasks] at hx ⊢; simp at hx ⊢; tauto
    have hne : x ≠ sid := by
      intro he; subst he
      have := hi.nodup
      simp only [held, emit_cache, emit_tasks] at hx this
      simp [List.nodup_append] at hx this
      try grind
    simp only [view_emit, view_with, holderOf_connecting, sinks_len_connecting]
    simp [hne]; exact hi.free x hx'
  · intro x hx
    simp only [view_emit, view_with, isAlive_connecting, holderOf_connecting] at hx ⊢
    by_cases hxs : x = sid
    · left; simp [hxs, hf.1]
    · rcases hi.aliveHeld x hx with h1 | h1
      · left; simp [hxs, h1]
      · right; simp only [held, emit_cache, emit_tasks] at h1 ⊢; simp at h1 ⊢; tauto
  · intro hw; exact hi.cacheW (hne_of hw)
  · exact hi.cacheMin
  · have := hi.wq; show w'.length ≤ cfg.maxq; omega
  · exact hsorted
  · intro c' hc'
    have hc'' := (hsub c').1 hc'
    simp only [view_emit, view_with, calls_connecting]
    simp [hc''.2]; exact hi.wStat c' hc''.1
  · intro c' hc'
    simp only [view_emit, view_with, calls_connecting] at hc'
    show c' ∈ w'
    split at hc'
    · exfalso; revert hc'; simp
    · rename_i hne
      have h1 := hi.pendW c' hc'
      refine (hsub c').2 ⟨h1, ?_⟩
      intro he; exact hne ⟨he, hclt⟩
  · intro x c' hx
    simp only [view_emit, view_with, holderOf_connecting, calls_connecting] at hx ⊢
    split at hx
    · rename_i h1
      injection hx with hx; subst hx
      rw [if_pos ⟨rfl, hclt⟩, h1.1]
      exact ⟨_, rfl, rfl⟩
    · obtain ⟨st, h0, h2⟩ := hi.lentCall x c' hx
      split
      · rename_i h3; rw [h3.1] at hx; exact absurd hx (hcfree x)
      · exact ⟨st, h0, h2⟩
  · intro x c' st hx hh
    simp only [view_emit, view_with, holderOf_connecting, calls_connecting] at hx ⊢
    split at hx
    · rename_i h1
      injection hx with hx; subst hx
      have : x = sid := by
        have := (show (CStat.connecting sid).holds = some sid from rfl)
        rw [this] at hh; injection hh with hh; exact hh.symm
      subst this
      simp [hf.1, h1.1]
    · have h0 := hi.startedLent x c' st hx hh
      split
      · rename_i h2; rw [h2.1, hf.2] at h0; simp at h0
      · exact h0
  · intro x hx
    simp only [view_emit, view_with, openFlag_connecting, holderOf_connecting] at hx ⊢
    by_cases hxs : x = sid
    · simp [hxs, hf.1]
    · simp only [hxs, false_and, if_false] at hx ⊢
      exact hi.openHeld x hx
  · intro x c' hx hh
    simp only [view_emit, view_with, openFlag_connecting, holderOf_connecting, calls_connecting] at hx hh ⊢
    by_cases hxs : x = sid
    · subst hxs
      simp only [hf.1, and_self, if_true] at hh
      injection hh with hh; subst hh
      rw [if_pos ⟨rfl, hclt⟩]; left; rfl
    · simp only [hxs, false_and, if_false] at hx hh
      have h0 := hi.openConn x c' hx hh
      have : ¬ (c' = c ∧ c < s.view.calls.length) := by
        rintro ⟨h1, _⟩; subst h1; exact hcfree x hh
      rw [if_neg this]; exact h0
  · intro he hw; exact hi.full he (hne_of hw)
  · exact hi.closedFlag

/-- the arriving call is appended to the waiters -/
theorem emit_queued {cfg : Cfg} {s : St} {c : Nat} (hi : Inv cfg none s)
    (hc : s.view.calls[c]? = some .arriving) (hlast : c + 1 = s.view.calls.length)
    (hq : s.waiters.length + 1 ≤ cfg.maxq) (hcache : s.cache = []) (hfull : cfg.max ≤ s.size) :
    Inv cfg none (({ s with waiters := s.waiters ++ [c] }).emit (.queued c)) := by
  have hclt : c < s.view.calls.length := by omega
  constructor
  · simp only [view_emit, view_with, lentIds_queued]; exact hi.size_eq
  · exact hi.size_le
  · exact hi.nodup
  · intro x hx; simp only [view_emit, view_with, holderOf_queued, sinks_len_queued]; exact hi.free x hx
  · intro x hx
    simp only [view_emit, view_with, isAlive_queued, holderOf_queued] at hx ⊢
    exact hi.aliveHeld x hx
  · intro _; exact hcache
  · exact hi.cacheMin
  · show (s.waiters ++ [c]).length ≤ cfg.maxq
    simp; omega
  · show (s.waiters ++ [c]).Pairwise (· < ·)
    rw [List.pairwise_append]
    refine ⟨hi.wSorted, by simp, ?_⟩
    intro a ha b hb
    simp at hb; subst hb
    have h1 := hi.wStat a ha
    have halt : a < s.view.calls.length := by
      by_contra h; simp at h; simp [List.getElem?_eq_none h] at h1
    have hne : a ≠ b := by
      intro h; subst h; rw [hc] at h1; simp at h1
    omega
  · intro c' hc'
    simp only [view_emit, view_with, calls_queued]
    have hc'' : c' ∈ s.waiters ++ [c] := hc'
    simp at hc''
    split
    · left; rfl
    · rename_i hne
      rcases hc'' with h1 | h1
      · exact hi.wStat c' h1
      · exact absurd ⟨h1, hclt⟩ hne
  · intro c' hc'
    simp only [view_emit, view_with, calls_queued] at hc'
    show c' ∈ s.waiters ++ [c]
    split at hc'
    · rename_i h1; simp [h1.1]
    · simp; left; exact hi.pendW c' hc'
  · intro x c' hx
    simp only [view_emit, view_with, holderOf_queued, calls_queued] at hx ⊢
    obtain ⟨st, h0, h2⟩ := hi.lentCall x c' hx
    split
    · rename_i h1; rw [h1.1, hc] at h0; injection h0 with h0; subst h0; simp [CStat.holds] at h2
    · exact ⟨st, h0, h2⟩
  · intro x c' st hx hh
    simp only [view_emit, view_with, holderOf_queued, calls_queued] at hx ⊢
    split at hx
    · injection hx with hx; subst hx; simp [CStat.holds] at hh
    · exact hi.startedLent x c' st hx hh
  · intro x hx
    simp only [view_emit, view_with, holderOf_queued, openFlag_queued] at hx ⊢
    exact hi.openHeld x hx
  · intro x c' hx hh
    simp only [view_emit, view_with, holderOf_queued, openFlag_queued, calls_queued] at hx hh ⊢
    have h0 := hi.openConn x c' hx hh
    split
    · rename_i h1; rw [h1.1, hc] at h0; simp at h0
    · exact h0
  · intro _ _; exact hfull
  · exact hi.closedFlag

/-- `CreateSink` while `size < max` -/
theorem emit_created {cfg : Cfg} {s : St} (hi : Inv cfg none s) (hlt : s.size < cfg.max) (ok : Bool) :
    Inv cfg (some s.view.sinks.length)
      (({ s with size := s.size + 1 }).emit (.created s.view.sinks.length ok)) := by
  have hnot : s.view.sinks.length ∉ held s none := by
    intro hm; have := (hi.free _ hm).1; omega
  have hhn : holderOf s.view s.view.sinks.length = none := by simp [holderOf]
  constructor
  · simp only [view_emit, view_with, lentIds_created]
    have := hi.size_eq
    simp only [held, emit_cache, emit_tasks] at this ⊢
    simp at this ⊢
    omega
  · show s.size + 1 ≤ cfg.max; omega
  · have := hi.nodup
    simp only [held, emit_cache, emit_tasks] at this hnot ⊢
    simp [List.nodup_append] at this hnot ⊢
    try grind
  · intro x hx
    simp only [view_emit, view_with, holderOf_created, sinks_len_created]
    simp only [held, emit_cache, emit_tasks] at hx
    simp at hx
    rcases hx with hx | hx | hx
    · have := hi.free x (by simp [held, hx]); exact ⟨by omega, this.2⟩
    · have := hi.free x (by simp [held, hx]); exact ⟨by omega, this.2⟩
    · subst hx; exact ⟨by omega, hhn⟩
  · intro x hx
    simp only [view_emit, view_with, isAlive_created, holderOf_created] at hx ⊢
    split at hx
    · rename_i h1; right; simp [held, h1]
    · rcases hi.aliveHeld x hx with h1 | h1
      · exact Or.inl h1
      · right; simp only [held, emit_cache, emit_tasks] at h1 ⊢; simp at h1 ⊢; tauto
  · exact hi.cacheW
  · exact hi.cacheMin
  · exact hi.wq
  · exact hi.wSorted
  · intro c hc; simp only [view_emit, view_with, calls_created]; exact hi.wStat c hc
  · intro c hc; simp only [view_emit, view_with, calls_created] at hc; exact hi.pendW c hc
  · intro x c hx
    simp only [view_emit, view_with, holderOf_created, calls_created] at hx ⊢
    exact hi.lentCall x c hx
  · intro x c st hx hh
    simp only [view_emit, view_with, holderOf_created, calls_created] at hx ⊢
    exact hi.startedLent x c st hx hh
  · intro x hx
    simp only [view_emit, view_with, holderOf_created, openFlag_created] at hx ⊢
    exact hi.openHeld x hx
  · intro x c hx hh
    simp only [view_emit, view_with, holderOf_created, openFlag_created, calls_created] at hx hh ⊢
    exact hi.openConn x c hx hh
  · intro he hw; have := hi.full he hw; show cfg.max ≤ s.size + 1; omega
  · exact hi.closedFlag

theorem isAlive_after_created (s : St) (ok : Bool) (sz : Nat) :
    isAlive (({ s with size := sz }).emit (.created s.view.sinks.length ok)).view s.view.sinks.length = ok := by
  simp only [view_emit, view_with, isAlive_created]; simp

theorem inv_of_view_eq {cfg : Cfg} {s s' : St} {h : Option Nat} (hi : Inv cfg h s)
    (hv : s'.view = s.view)
    (h1 : s'.cache = s.cache) (h2 : s'.tasks = s.tasks) (h3 : s'.waiters = s.waiters)
    (h4 : s'.size = s.size) (h5 : s'.pstate = s.pstate) (h6 : s'.everClosed = s.everClosed) :
    Inv cfg h s' := by
  apply inv_congr hi <;> simp [hv, h1, h2, h3, h4, h5, h6]
  intro j hj; exact Or.inl hj

theorem view_of_nil {s : St} (h : s.evs = []) : s.view = s.base := by simp [St.view, h]

@[simp] theorem view_finish (s : St) : (finish s).view = s.view := rfl

theorem inv_finish {cfg : Cfg} {s : St} {h : Option Nat} (hi : Inv cfg h s) : Inv cfg h (finish s) :=
  inv_of_view_eq hi (view_finish s) rfl rfl rfl rfl rfl rfl

theorem preOp_die_eq (v : View) (sid : Nat) : preOp v (.die sid) = v.apply (.closed sid) := rfl

theorem inv_preOp_die {cfg : Cfg} {s : St} (hi : Inv cfg none s) (he : s.evs = []) (sid : Nat) :
    Inv cfg none { s with base := preOp s.base (.die sid) } := by
  apply inv_of_view_eq (emit_closed hi sid)
  · rw [view_emit, view_of_nil he, preOp_die_eq]
    exact view_of_nil (s := { s with base := s.base.apply (.closed sid) }) he
  all_goals rfl

theorem inv_preOp_request {cfg : Cfg} {s : St} (hi : Inv cfg none s) (he : s.evs = []) (ok lat : Bool) :
    Inv cfg none { s with base := preOp s.base (.request ok lat) } := by
  have hv : s.view = s.base := view_of_nil he
  have hv' : ({ s with base := preOp s.base (.request ok lat) } : St).view =
      { s.base with calls := s.base.calls ++ [.arriving] } := view_of_nil (s := { s with base := _ }) he
  have hcalls : ∀ j : Nat, j < s.base.calls.length →
      (s.base.calls ++ [CStat.arriving])[j]? = s.base.calls[j]? := by
    intro j hj; rw [List.getElem?_append_left hj]
  have hcalls2 : ∀ (j : Nat) (st : CStat), st ≠ .arriving → (s.base.calls ++ [CStat.arriving])[j]? = some st →
      s.base.calls[j]? = some st := by
    intro j st hne hj
    by_cases hlt : j < s.base.calls.length
    · rw [hcalls j hlt] at hj; exact hj
    · rw [List.getElem?_append_right (by omega)] at hj
      cases hjj : j - s.base.calls.length with
      | zero => simp [hjj] at hj; exact absurd hj.symm hne
      | succ m => simp [hjj] at hj
  have hlt_of : ∀ (j : Nat) (st : CStat), s.base.calls[j]? = some st → j < s.base.calls.length := by
    intro j st hj; by_contra h; simp at h; simp [List.getElem?_eq_none h] at hj
  obtain ⟨f1, f2, f3, f4, f5, f6, f7, f8, f9, f10, f11, f12, f13, g1, g2, f14, f15⟩ := hi
  simp only [hv] at f1 f4 f5 f10 f11 f12 f13 g1 g2
  constructor
  · rw [hv']; exact f1
  · exact f2
  · exact f3
  · intro x hx; rw [hv']; exact f4 x hx
  · intro x hx; rw [hv'] at hx ⊢; exact f5 x hx
  · exact f6
  · exact f7
  · exact f8
  · exact f9
  · intro c hc
    rw [hv']
    show (s.base.calls ++ [CStat.arriving])[c]? = _ ∨ (s.base.calls ++ [CStat.arriving])[c]? = _
    have h0 := f10 c hc
    have : c < s.base.calls.length := by rcases h0 with h0 | h0 <;> exact hlt_of _ _ h0
    rw [hcalls c this]; exact h0
  · intro c hc
    rw [hv'] at hc
    exact f11 c (hcalls2 c _ (by simp) hc)
  · intro x c hx
    rw [hv'] at hx ⊢
    obtain ⟨st, h0, h2⟩ := f12 x c hx
    refine ⟨st, ?_, h2⟩
    show (s.base.calls ++ [CStat.arriving])[c]? = _
    rw [hcalls c (hlt_of _ _ h0)]; exact h0
  · intro x c st hx hh
    rw [hv'] at hx ⊢
    exact f13 x c st (hcalls2 c _ (by intro h; subst h; simp [CStat.holds] at hh) hx) hh
  · intro x hx; rw [hv'] at hx ⊢; exact g1 x hx
  · intro x c hx hh
    rw [hv'] at hx hh ⊢
    have h0 := g2 x c hx hh
    have : c < s.base.calls.length := by rcases h0 with h0 | h0 <;> exact hlt_of _ _ h0
    show (s.base.calls ++ [CStat.arriving])[c]? = _ ∨ (s.base.calls ++ [CStat.arriving])[c]? = _
    rw [hcalls c this]; exact h0
  · exact f14
  · exact f15

/-- the pending `Open()` of `sid` completes: only the state of that connection changes -/
theorem inv_preOp_opened {cfg : Cfg} {s : St} (hi : Inv cfg none s) (he : s.evs = []) (sid : Nat) (ok : Bool) :
    Inv cfg none { s with base := preOp s.base (.opened sid ok) } := by
  have hv : s.view = s.base := view_of_nil he
  have hv' : ({ s with base := preOp s.base (.opened sid ok) } : St).view = preOp s.base (.opened sid ok) :=
    view_of_nil (s := { s with base := _ }) he
  have hsinks : ∀ j : Nat, (preOp s.base (.opened sid ok)).sinks[j]? =
      (fun a : SinkSt => if sid = j then (if a.opening then { a with alive := ok } else a) else a) <$> s.base.sinks[j]? := by
    intro j; simp only [preOp, List.getElem?_modify]
  have hholder : ∀ j : Nat, holderOf (preOp s.base (.opened sid ok)) j = holderOf s.base j := by
    intro j; simp only [holderOf, hsinks]
    cases s.base.sinks[j]? with
    | none => rfl
    | some k => by_cases h1 : sid = j <;> by_cases h2 : k.opening <;> simp [h1, h2]
  have hflag : ∀ j : Nat, openFlag (preOp s.base (.opened sid ok)) j = openFlag s.base j := by
    intro j; simp only [openFlag, hsinks]
    cases s.base.sinks[j]? with
    | none => rfl
    | some k => by_cases h1 : sid = j <;> by_cases h2 : k.opening <;> simp [h1, h2]
  have halive : ∀ j : Nat, isAlive (preOp s.base (.opened sid ok)) j = true →
      isAlive s.base j = true ∨ openFlag s.base j = true := by
    intro j; simp only [isAlive, openFlag, hsinks]
    cases s.base.sinks[j]? with
    | none => simp
    | some k => by_cases h1 : sid = j <;> by_cases h2 : k.opening <;> simp [h1, h2]
  apply inv_congr hi
  · rw [hv', hv, lentIds_def, lentIds_def]
    have : (preOp s.base (.opened sid ok)).sinks.length = s.base.sinks.length := by simp [preOp]
    rw [this]
    apply ids_congr; intro i _; rw [hholder]
  · rw [hv', hv]; simp [preOp]
  · intro j; rw [hv', hv]; exact hholder j
  · intro j hj
    rw [hv'] at hj; rw [hv]
    rcases halive j hj with h | h
    · exact Or.inl h
    · right; have := hi.openHeld j (by rw [hv]; exact h); rw [hv] at this; exact this
  · intro j; rw [hv', hv]; exact hflag j
  · intro j; rw [hv', hv]; rfl
  all_goals rfl

/-! ## consequences of the invariant -/

theorem mem_lentIds {v : View} {x : Nat} : x ∈ lentIds v ↔ (holderOf v x).isSome = true := by
  rw [lentIds_def, mem_ids]
  constructor
  · exact fun h => h.2
  · intro h
    refine ⟨?_, h⟩
    cases hh : holderOf v x with
    | none => simp [hh] at h
    | some c => exact holderOf_lt hh

theorem mem_openingIds {v : View} {x : Nat} : x ∈ openingIds v ↔ isOpening v x = true := by
  unfold openingIds
  rw [mem_ids]
  constructor
  · exact fun h => h.2
  · intro h
    refine ⟨?_, h⟩
    by_contra hc
    have : v.sinks[x]? = none := by simp; omega
    simp [isOpening, this] at h

theorem mem_aliveIds {v : View} {x : Nat} : x ∈ aliveIds v ↔ isAlive v x = true := by
  unfold aliveIds
  rw [mem_ids]
  constructor
  · exact fun h => h.2
  · intro h
    refine ⟨?_, h⟩
    by_contra hc
    have : v.sinks[x]? = none := by simp; omega
    simp [isAlive, this] at h

/-- live connections never exceed the counted size, hence never `max_watermark` -/
theorem aliveIds_le_size {cfg : Cfg} {s : St} {h : Option Nat} (hi : Inv cfg h s) :
    (aliveIds s.view).length ≤ s.size := by
  have h1 : (aliveIds s.view).length ≤ (lentIds s.view ++ held s h).length := by
    apply length_le_of_nodup_subset (nodup_ids _ _)
    intro x hx
    have hx := (mem_aliveIds (v := s.view)).1 hx
    rcases hi.aliveHeld x hx with h2 | h2
    · exact List.mem_append_left _ (mem_lentIds.2 h2)
    · exact List.mem_append_right _ h2
  rw [List.length_append] at h1
  have := hi.size_eq
  omega

theorem aliveIds_le_max {cfg : Cfg} {s : St} {h : Option Nat} (hi : Inv cfg h s) :
    (aliveIds s.view).length ≤ cfg.max :=
  Nat.le_trans (aliveIds_le_size hi) hi.size_le

theorem mem_pendingIds {v : View} {c : Nat} : c ∈ pendingIds v ↔ v.calls[c]? = some .pending := by
  unfold pendingIds
  rw [mem_ids]
  constructor
  · intro h; simpa [isPending] using h.2
  · intro h
    refine ⟨?_, by simpa [isPending] using h⟩
    by_contra hc
    simp at hc; simp [List.getElem?_eq_none hc] at h

theorem pendingIds_le_waiters {cfg : Cfg} {s : St} {h : Option Nat} (hi : Inv cfg h s) :
    (pendingIds s.view).length ≤ s.waiters.length := by
  apply length_le_of_nodup_subset (nodup_ids _ _)
  intro x hx
  exact hi.pendW x (mem_pendingIds.1 hx)

theorem pendingIds_nil_of_waiters_nil {cfg : Cfg} {s : St} {h : Option Nat} (hi : Inv cfg h s)
    (hw : s.waiters = []) : pendingIds s.view = [] := by
  have := pendingIds_le_waiters hi
  rw [hw] at this
  exact List.eq_nil_of_length_eq_zero (by simpa using this)

/-- with the waiters sorted and every pending call among them, the first pending waiter is the
    oldest pending call -/
theorem oldestPending_of_head {cfg : Cfg} {s : St} {h : Option Nat} {c : Nat} {rest : List Nat}
    (hi : Inv cfg h s) (hw : s.waiters = c :: rest) (hc : s.view.calls[c]? = some .pending) :
    oldestPending s.view = some c := by
  unfold oldestPending pendingIds
  have hclt : c < s.view.calls.length := by
    by_contra h; simp at h; simp [List.getElem?_eq_none h] at hc
  apply head?_ids hclt
  · simp [isPending, hc]
  · intro j hj
    by_contra hp
    have hp' : s.view.calls[j]? = some .pending := by simpa [isPending] using hp
    have hm := hi.pendW j hp'
    rw [hw] at hm
    have hs := hi.wSorted
    rw [hw] at hs
    rcases List.mem_cons.1 hm with h1 | h1
    · omega
    · have := (List.pairwise_cons.1 hs).1 j h1; omega

/-! ## the per-event clauses along an operation -/

theorem Verdict.and_ok_iff (a : Verdict) (f : Unit → Verdict) : a.and f = .ok ↔ a = .ok ∧ f () = .ok := by
  cases a <;> simp [Verdict.and]

theorem evsCheck_append (cfg : Cfg) (hf gate : Bool) (ev : Ev) :
    ∀ (l : List Ev) (v : View), evsCheck cfg hf gate v (l ++ [ev]) = .ok ↔
      (evsCheck cfg hf gate v l = .ok ∧ evCheck cfg hf gate (l.foldl View.apply v) ev = .ok) := by
  intro l
  induction l with
  | nil => intro v; simp [evsCheck, Verdict.and_ok_iff]
  | cons e l ih =>
    intro v
    simp only [List.cons_append, evsCheck, Verdict.and_ok_iff, List.foldl_cons, ih]
    tauto

def EvOk (cfg : Cfg) (hf gate : Bool) (s : St) : Prop := evsCheck cfg hf gate s.base s.evs = .ok

theorem evOk_emit {cfg : Cfg} {hf gate : Bool} {s : St} {ev : Ev} (h : EvOk cfg hf gate s)
    (hev : evCheck cfg hf gate s.view ev = .ok) : EvOk cfg hf gate (s.emit ev) := by
  unfold EvOk at h ⊢
  rw [emit_evs, emit_base, evsCheck_append]
  exact ⟨h, hev⟩

theorem evCheck_closed (cfg : Cfg) (hf gate : Bool) (v : View) (sid : Nat) :
    evCheck cfg hf gate v (.closed sid) = .ok := rfl
theorem evCheck_rel (cfg : Cfg) (hf gate : Bool) (v : View) (sid : Nat) :
    evCheck cfg hf gate v (.rel sid) = .ok := rfl

theorem evCheck_done {cfg : Cfg} {hf gate : Bool} {v : View} {c : Nat} {st : CStat} (out : Outcome)
    (h : v.calls[c]? = some st) (ha : st.answerable = true) : evCheck cfg hf gate v (.done c out) = .ok := by
  cases st <;> simp_all [evCheck, CStat.answerable]

theorem evCheck_queued {cfg : Cfg} {hf gate : Bool} {v : View} {c : Nat}
    (h : v.calls[c]? = some .arriving) : evCheck cfg hf gate v (.queued c) = .ok := by
  simp [evCheck, h]

theorem evCheck_sent {cfg : Cfg} {hf gate : Bool} {v : View} {sid c : Nat}
    (hlt : sid < v.sinks.length) (hfree : holderOf v sid = none)
    (hst : v.calls[c]? = some .arriving ∨ v.calls[c]? = some .pending)
    (h1 : hf = true → oldestPending v = some c)
    (h2 : hf = false → gate = true → pendingIds v = []) :
    evCheck cfg hf gate v (.sent sid c) = .ok := by
  have hk : ∃ k, v.sinks[sid]? = some k ∧ k.lent = none := by
    refine ⟨v.sinks[sid], by simp [hlt], ?_⟩
    simpa [holderOf, hlt] using hfree
  obtain ⟨k, hk1, hk2⟩ := hk
  have hstart : startable v c = true := by
    rcases hst with h | h <;> simp [startable, h]
  simp only [evCheck, hk1, hk2, hstart]
  revert h1 h2
  cases hf with
  | true => intro h1 _; simp [h1 rfl]
  | false =>
    cases gate with
    | true => intro _ h2; simp [h2 rfl rfl]
    | false => intro _ _; simp

theorem evCheck_connecting {cfg : Cfg} {hf gate : Bool} {v : View} {sid c : Nat}
    (hlt : sid < v.sinks.length) (hfree : holderOf v sid = none)
    (hst : v.calls[c]? = some .arriving)
    (h2 : hf = false → gate = true → pendingIds v = []) :
    evCheck cfg hf gate v (.connecting sid c) = .ok := by
  have hk : ∃ k, v.sinks[sid]? = some k ∧ k.lent = none := by
    refine ⟨v.sinks[sid], by simp [hlt], ?_⟩
    simpa [holderOf, hlt] using hfree
  obtain ⟨k, hk1, hk2⟩ := hk
  simp only [evCheck, hk1, hk2, hst]
  revert h2
  cases hf with
  | true => intro _; simp
  | false =>
    cases gate with
    | true => intro h2; simp [h2 rfl rfl]
    | false => intro _; simp

/-- the connect of `sid` for call `c` has ended: the request is forwarded -/
theorem evCheck_sent_opened {cfg : Cfg} {hf gate : Bool} {v : View} {sid c : Nat} {k : SinkSt}
    (hk : v.sinks[sid]? = some k) (ho : k.opening = true) (hl : k.lent = some c) :
    evCheck cfg hf gate v (.sent sid c) = .ok := by
  simp [evCheck, hk, ho, hl]

theorem evCheck_created {cfg : Cfg} {hf gate : Bool} {v : View} {ok : Bool}
    (h : (aliveIds (v.apply (.created v.sinks.length ok))).length ≤ cfg.max) :
    evCheck cfg hf gate v (.created v.sinks.length ok) = .ok := by
  simp only [evCheck, ne_eq, not_true_eq_false, if_false]
  simp [Nat.not_lt.2 h]

/-! ## the pool's procedures -/

structure MInv (cfg : Cfg) (hf gate : Bool) (h : Option Nat) (s : St) : Prop where
  inv : Inv cfg h s
  ev : EvOk cfg hf gate s

/-- `done` events for call `c` -/
def isDoneEv (c : Nat) : Ev → Bool
  | .done c' _ => c' == c
  | _ => false

def doneCount (c : Nat) (evs : List Ev) : Nat := evs.countP (isDoneEv c)

/-- responses already delivered to `c` in this operation, plus one if `c` is still waiting:
    never increases while the pool's procedures run -/
def pot (s : St) (c : Nat) : Nat :=
  doneCount c s.evs + (if s.view.calls[c]? = some .pending then 1 else 0)

theorem pot_emit_other (s : St) (ev : Ev) (c : Nat) (h1 : isDoneEv c ev = false)
    (h2 : (s.emit ev).view.calls[c]? = s.view.calls[c]?) : pot (s.emit ev) c = pot s c := by
  unfold pot doneCount
  rw [h2, emit_evs, List.countP_append]
  simp [h1]

/-- no exception event among the events -/
def NR (l : List Ev) : Prop := ∀ e ∈ l, isRaised e = false

theorem NR_nil : NR [] := by intro e he; simp at he

theorem NR_append {l : List Ev} {ev : Ev} (h : NR l) (hev : isRaised ev = false) : NR (l ++ [ev]) := by
  intro e he
  rcases List.mem_append.1 he with h1 | h1
  · exact h e h1
  · simp at h1; subst h1; exact hev

theorem NR_emit {s : St} {ev : Ev} (h : NR s.evs) (hev : isRaised ev = false) : NR (s.emit ev).evs :=
  NR_append h hev

theorem NR_of_nil {l : List Ev} (h : l = []) : NR l := by rw [h]; exact NR_nil

theorem filter_of_NR {l : List Ev} (h : NR l) : l.filter isRaised = [] := by
  rw [List.filter_eq_nil_iff]; intro e he; simp [h e he]

/-- what every procedure leaves alone -/
structure Frame (s s' : St) : Prop where
  evs : ∃ tail, s'.evs = s.evs ++ tail
  base : s'.base = s.base
  keep : ∀ (j : Nat) (st : CStat), s.view.calls[j]? = some st → st ≠ .pending → s'.view.calls[j]? = some st
  pclosed : s.pstate = .closed → s'.pstate = .closed
  flag : s'.everClosed = true → s.everClosed = true ∨ s'.pstate = .closed
  pot : ∀ c : Nat, pot s' c ≤ pot s c
  nr : NR s.evs → NR s'.evs

theorem Frame.refl (s : St) : Frame s s :=
  ⟨⟨[], by simp⟩, rfl, fun _ _ h _ => h, id, Or.inl, fun _ => Nat.le_refl _, id⟩

theorem Frame.trans {a b c : St} (h1 : Frame a b) (h2 : Frame b c) : Frame a c := by
  obtain ⟨t1, e1⟩ := h1.evs
  obtain ⟨t2, e2⟩ := h2.evs
  refine ⟨⟨t1 ++ t2, by rw [e2, e1, List.append_assoc]⟩, h2.base.trans h1.base, ?_, ?_, ?_,
    fun x => Nat.le_trans (h2.pot x) (h1.pot x), fun h => h2.nr (h1.nr h)⟩
  · intro j st hj hne; exact h2.keep j st (h1.keep j st hj hne) hne
  · intro h; exact h2.pclosed (h1.pclosed h)
  · intro h
    rcases h2.flag h with h3 | h3
    · rcases h1.flag h3 with h4 | h4
      · exact Or.inl h4
      · exact Or.inr (h2.pclosed h4)
    · exact Or.inr h3

theorem Frame.mem_evs {s s' : St} (h : Frame s s') {e : Ev} (he : e ∈ s.evs) : e ∈ s'.evs := by
  obtain ⟨t, ht⟩ := h.evs; rw [ht]; exact List.mem_append_left _ he

theorem frame_emit_closed (s : St) (sid : Nat) : Frame s (s.emit (.closed sid)) :=
  ⟨⟨[.closed sid], rfl⟩, rfl, fun j st h _ => by rw [view_emit, calls_closed]; exact h, id, Or.inl,
   fun c => Nat.le_of_eq (pot_emit_other s _ c rfl (by rw [view_emit, calls_closed])),
   fun h => NR_emit h rfl⟩

theorem frame_emit_created (s : St) (sid : Nat) (ok : Bool) : Frame s (s.emit (.created sid ok)) :=
  ⟨⟨[.created sid ok], rfl⟩, rfl, fun j st h _ => by rw [view_emit, calls_created]; exact h, id, Or.inl,
   fun c => Nat.le_of_eq (pot_emit_other s _ c rfl (by rw [view_emit, calls_created])),
   fun h => NR_emit h rfl⟩

theorem frame_emit_done_pending (s : St) (c : Nat) (out : Outcome) (hc : s.view.calls[c]? = some .pending) :
    Frame s (s.emit (.done c out)) := by
  refine ⟨⟨[.done c out], rfl⟩, rfl, ?_, id, Or.inl, ?_, fun h => NR_emit h rfl⟩
  · intro j st h hne
    rw [view_emit, calls_done]
    split
    · rename_i h1; rw [h1.1, hc] at h; injection h with h; exact absurd h.symm hne
    · exact h
  · intro c'
    by_cases hcc : c' = c
    · subst hcc
      have hclt : c' < s.view.calls.length := by
        by_contra h; simp at h; simp [List.getElem?_eq_none h] at hc
      have hds : doneStat s.view c' = .done := by unfold doneStat; rw [hc]
      unfold pot doneCount
      rw [emit_evs, List.countP_append, view_emit, calls_done, hc, hds]
      simp [isDoneEv, hclt]
    · apply Nat.le_of_eq
      apply pot_emit_other
      · simp [isDoneEv]; exact fun h => hcc h.symm
      · rw [view_emit, calls_done]; simp [hcc]

/-- a state that differs from `s` only in the pool's own lists, counters and flags -/
theorem frame_with (s : St) (c w : List Nat) (sz : Nat) (t : List Nat) :
    Frame s { s with cache := c, waiters := w, size := sz, tasks := t } :=
  ⟨⟨[], by simp⟩, rfl, fun _ _ h _ => h, id, Or.inl, fun _ => Nat.le_refl _, id⟩

theorem minv_with {cfg : Cfg} {hf gate : Bool} {s s' : St} {h : Option Nat}
    (hi : Inv cfg h s') (he : EvOk cfg hf gate s) (h1 : s'.base = s.base) (h2 : s'.evs = s.evs) :
    MInv cfg hf gate h s' :=
  ⟨hi, by unfold EvOk at he ⊢; rw [h1, h2]; exact he⟩

/-! ### `_FlushCache` -/

theorem flush_spec {cfg : Cfg} {hf gate : Bool} {h : Option Nat} (l : List Nat) :
    ∀ s : St, MInv cfg hf gate h s →
      MInv cfg hf gate h (l.foldl discard s) ∧ Frame s (l.foldl discard s) ∧
      (l.foldl discard s).cache = s.cache ∧ (l.foldl discard s).tasks = s.tasks ∧
      (l.foldl discard s).waiters = s.waiters ∧ (l.foldl discard s).size = s.size ∧
      (l.foldl discard s).pstate = s.pstate ∧ (l.foldl discard s).everClosed = s.everClosed ∧
      (∀ j : Nat, (l.foldl discard s).view.calls[j]? = s.view.calls[j]?) := by
  induction l with
  | nil => intro s hm; exact ⟨hm, Frame.refl s, rfl, rfl, rfl, rfl, rfl, rfl, fun _ => rfl⟩
  | cons x l ih =>
    intro s hm
    have h1 : MInv cfg hf gate h (discard s x) :=
      ⟨emit_closed hm.inv x, evOk_emit hm.ev (evCheck_closed _ _ _ _ _)⟩
    obtain ⟨a1, a2, a3, a4, a5, a6, a7, a8, a9⟩ := ih (discard s x) h1
    refine ⟨a1, Frame.trans (frame_emit_closed s x) a2, a3, a4, a5, a6, a7, a8, ?_⟩
    intro j; rw [List.foldl_cons, a9 j]; simp [discard]

/-! ### the loop at the end of `Close()` -/

theorem failWaiters_spec {cfg : Cfg} {hf gate : Bool} {h : Option Nat} (l : List Nat) :
    ∀ s : St, MInv cfg hf gate h s → l.Nodup →
      MInv cfg hf gate h (failWaiters s l) ∧ Frame s (failWaiters s l) ∧
      (failWaiters s l).cache = s.cache ∧ (failWaiters s l).tasks = s.tasks ∧
      (failWaiters s l).waiters = s.waiters ∧ (failWaiters s l).size = s.size ∧
      (failWaiters s l).pstate = s.pstate ∧ (failWaiters s l).everClosed = s.everClosed ∧
      (∀ c ∈ l, s.view.calls[c]? = some .pending → Ev.done c .serviceClosed ∈ (failWaiters s l).evs) := by
  induction l with
  | nil => intro s hm _; exact ⟨hm, Frame.refl s, rfl, rfl, rfl, rfl, rfl, rfl, by simp⟩
  | cons c l ih =>
    intro s hm hnd
    have hnd' := (List.nodup_cons.1 hnd)
    unfold failWaiters
    by_cases hp : s.stat c = some .pending
    · have hp' : s.view.calls[c]? = some .pending := hp
      simp only [hp, if_true]
      have h1 : MInv cfg hf gate h (s.emit (.done c .serviceClosed)) :=
        ⟨emit_done hm.inv c _ hp' rfl,
         evOk_emit hm.ev (evCheck_done _ hp' rfl)⟩
      obtain ⟨a1, a2, a3, a4, a5, a6, a7, a8, a9⟩ := ih _ h1 hnd'.2
      refine ⟨a1, Frame.trans (frame_emit_done_pending s c _ hp') a2, a3, a4, a5, a6, a7, a8, ?_⟩
      intro c' hc' hpc'
      rcases List.mem_cons.1 hc' with h2 | h2
      · subst h2; exact a2.mem_evs (by simp)
      · apply a9 c' h2
        rw [view_emit, calls_done]
        have : c' ≠ c := fun h => hnd'.1 (h ▸ h2)
        simp [this]; exact hpc'
    · simp only [hp, if_false]
      obtain ⟨a1, a2, a3, a4, a5, a6, a7, a8, a9⟩ := ih s hm hnd'.2
      refine ⟨a1, a2, a3, a4, a5, a6, a7, a8, ?_⟩
      intro c' hc' hpc'
      rcases List.mem_cons.1 hc' with h2 | h2
      · subst h2; exact absurd hpc' hp
      · exact a9 c' h2 hpc'

theorem nodup_of_sorted {l : List Nat} (h : l.Pairwise (· < ·)) : l.Nodup :=
  h.imp (fun hab => Nat.ne_of_lt hab)

/-! ### `Close()` -/

theorem closePool_spec {cfg : Cfg} {hf gate : Bool} {h : Option Nat} {s : St}
    (hinv : Inv cfg h { s with pstate := .closed, everClosed := true }) (hev : EvOk cfg hf gate s) :
    MInv cfg hf gate h (closePool s) ∧ Frame s (closePool s) ∧
    (closePool s).cache = s.cache ∧ (closePool s).tasks = s.tasks ∧
    (closePool s).waiters = s.waiters ∧ (closePool s).size = s.size ∧
    (closePool s).pstate = .closed ∧ (closePool s).everClosed = true ∧
    (∀ c : Nat, s.view.calls[c]? = some .pending → Ev.done c .serviceClosed ∈ (closePool s).evs) := by
  unfold closePool
  have h1 : MInv cfg hf gate h { s with pstate := .closed, everClosed := true } :=
    minv_with hinv hev rfl rfl
  have f1 : Frame s { s with pstate := .closed, everClosed := true } :=
    ⟨⟨[], by simp⟩, rfl, fun _ _ h _ => h, fun _ => rfl, fun _ => Or.inr rfl, fun _ => Nat.le_refl _, id⟩
  obtain ⟨b1, b2, b3, b4, b5, b6, b7, b8, b9⟩ := flush_spec (cfg := cfg) (hf := hf) (gate := gate) (h := h)
    ({ s with pstate := .closed, everClosed := true } : St).cache _ h1
  have hnd : (List.foldl discard { s with pstate := .closed, everClosed := true }
      ({ s with pstate := .closed, everClosed := true } : St).cache).waiters.Nodup := by
    rw [b5]; exact nodup_of_sorted hinv.wSorted
  obtain ⟨c1, c2, c3, c4, c5, c6, c7, c8, c9⟩ := failWaiters_spec _ _ b1 hnd
  refine ⟨c1, Frame.trans f1 (Frame.trans b2 c2), ?_, ?_, ?_, ?_, ?_, ?_, ?_⟩
  · rw [c3, b3]
  · rw [c4, b4]
  · rw [c5, b5]
  · rw [c6, b6]
  · rw [c7, b7]
  · rw [c8, b8]
  · intro c hc
    apply c9 c
    · rw [b5]; exact hinv.pendW c hc
    · rw [b9]; exact hc

/-! ### `_Release` -/

def releaseBody (cfg : Cfg) (s : St) (sid : Nat) : St :=
  if s.pstate = .closed then discard { s with size := s.size - 1 } sid
  else if s.alive sid = false then closePool { s with size := s.size - 1 }
  else if s.waiters.isEmpty = false then { s with tasks := s.tasks ++ [sid] }
  else if s.size ≤ cfg.min then { s with cache := s.cache ++ [sid] }
  else discard { s with size := s.size - 1 } sid

theorem release_eq (cfg : Cfg) (s : St) (sid : Nat) :
    release cfg s sid = releaseBody cfg (s.emit (.rel sid)) sid := rfl

theorem discard_hand {cfg : Cfg} {hf gate : Bool} {s : St} {sid : Nat} (hm : MInv cfg hf gate (some sid) s)
    (hfull : s.everClosed = false → s.waiters = []) :
    MInv cfg hf gate none (discard { s with size := s.size - 1 } sid) ∧
    Frame s (discard { s with size := s.size - 1 } sid) := by
  have h1 : Inv cfg (some sid) (s.emit (.closed sid)) := emit_closed hm.inv sid
  have h2 := drop_hand h1 (isAlive_after_closed s sid) hfull
  refine ⟨⟨h2, ?_⟩, ?_⟩
  · exact evOk_emit (s := { s with size := s.size - 1 }) hm.ev (evCheck_closed _ _ _ _ _)
  · exact Frame.trans (frame_with s s.cache s.waiters (s.size - 1) s.tasks)
      (frame_emit_closed _ sid)

theorem releaseBody_spec {cfg : Cfg} {hf gate : Bool} {s : St} {sid : Nat}
    (hm : MInv cfg hf gate (some sid) s) :
    MInv cfg hf gate none (releaseBody cfg s sid) ∧ Frame s (releaseBody cfg s sid) ∧
    (s.pstate ≠ .closed → isAlive s.view sid = false →
      (releaseBody cfg s sid).pstate = .closed ∧
      ∀ c : Nat, s.view.calls[c]? = some .pending → Ev.done c .serviceClosed ∈ (releaseBody cfg s sid).evs) ∧
    ((s.pstate = .closed ∨ isAlive s.view sid = true) →
      (releaseBody cfg s sid).everClosed = s.everClosed ∧ (releaseBody cfg s sid).pstate = s.pstate) := by
  unfold releaseBody
  by_cases hc : s.pstate = .closed
  · rw [if_pos hc]
    have := discard_hand hm (fun he => by rw [hm.inv.closedFlag hc] at he; simp at he)
    refine ⟨this.1, this.2, fun h => absurd hc h, fun _ => ⟨rfl, ?_⟩⟩
    rfl
  · rw [if_neg hc]
    by_cases hd : s.alive sid = false
    · rw [if_pos hd]
      have hdead : isAlive s.view sid = false := hd
      have h1 : Inv cfg (some sid) { s with pstate := .closed, everClosed := true } := set_closed hm.inv
      have h2 := drop_hand h1 hdead (fun he => by simp at he)
      obtain ⟨a1, a2, a3, a4, a5, a6, a7, a8, a9⟩ :=
        closePool_spec (cfg := cfg) (hf := hf) (gate := gate) (h := none) (s := { s with size := s.size - 1 }) h2 hm.ev
      refine ⟨a1, Frame.trans (frame_with s s.cache s.waiters (s.size - 1) s.tasks) a2, ?_, ?_⟩
      · intro _ _; exact ⟨a7, fun c hc => a9 c hc⟩
      · rintro (h | h)
        · exact absurd h hc
        · rw [hdead] at h; simp at h
    · rw [if_neg hd]
      have halive : isAlive s.view sid = true := by
        have : s.alive sid = true := by simpa using hd
        exact this
      by_cases hw : s.waiters.isEmpty = false
      · rw [if_pos hw]
        refine ⟨minv_with (put_task hm.inv) hm.ev rfl rfl, frame_with s s.cache s.waiters s.size _, ?_, fun _ => ⟨rfl, rfl⟩⟩
        intro _ h; rw [halive] at h; simp at h
      · rw [if_neg hw]
        have hw' : s.waiters = [] := by simpa using hw
        by_cases hmin : s.size ≤ cfg.min
        · rw [if_pos hmin]
          refine ⟨minv_with (put_cache hm.inv hw' hmin) hm.ev rfl rfl, frame_with s _ s.waiters s.size s.tasks, ?_, fun _ => ⟨rfl, rfl⟩⟩
          intro _ h; rw [halive] at h; simp at h
        · rw [if_neg hmin]
          have := discard_hand hm (fun _ => hw')
          refine ⟨this.1, this.2, ?_, fun _ => ⟨rfl, rfl⟩⟩
          intro _ h; rw [halive] at h; simp at h

/-! ### `_Dequeue` and `_Get` -/

/-- what `_Dequeue`/`_Get` leave alone -/
structure Same (s s' : St) : Prop where
  frame : Frame s s'
  waiters : s'.waiters = s.waiters
  tasks : s'.tasks = s.tasks
  pstate : s'.pstate = s.pstate
  everClosed : s'.everClosed = s.everClosed
  calls : ∀ j : Nat, s'.view.calls[j]? = s.view.calls[j]?

theorem Same.refl (s : St) : Same s s := ⟨Frame.refl s, rfl, rfl, rfl, rfl, fun _ => rfl⟩

theorem Same.trans {a b c : St} (h1 : Same a b) (h2 : Same b c) : Same a c :=
  ⟨h1.frame.trans h2.frame, h2.waiters.trans h1.waiters, h2.tasks.trans h1.tasks,
   h2.pstate.trans h1.pstate, h2.everClosed.trans h1.everClosed, fun j => (h2.calls j).trans (h1.calls j)⟩

theorem dequeue_spec {cfg : Cfg} {hf gate : Bool} (l : List Nat) :
    ∀ s : St, s.cache = l → MInv cfg hf gate none s →
      Same s (dequeue s l).1 ∧
      (match (dequeue s l).2 with
       | some sid => MInv cfg hf gate (some sid) (dequeue s l).1 ∧ isAlive (dequeue s l).1.view sid = true ∧
                     s.waiters = []
       | none => MInv cfg hf gate none (dequeue s l).1 ∧ (dequeue s l).1.cache = []) := by
  induction l with
  | nil => intro s hc hm; exact ⟨Same.refl s, hm, hc⟩
  | cons sid rest ih =>
    intro s hc hm
    have hw : s.waiters = [] := by
      by_contra hne
      have := hm.inv.cacheW hne
      rw [hc] at this; simp at this
    unfold dequeue
    by_cases ha : s.alive sid = true
    · rw [if_pos ha]
      refine ⟨⟨frame_with s rest s.waiters s.size s.tasks, rfl, rfl, rfl, rfl, fun _ => rfl⟩, ?_⟩
      exact ⟨minv_with (take_cache hm.inv hc) hm.ev rfl rfl, ha, hw⟩
    · rw [if_neg ha]
      have h1 : Inv cfg (some sid) { s with cache := rest } := take_cache hm.inv hc
      have h2 : Inv cfg (some sid) (({ s with cache := rest } : St).emit (.closed sid)) := emit_closed h1 sid
      have h3 := drop_hand h2 (isAlive_after_closed _ sid) (fun _ => hw)
      have hm1 : MInv cfg hf gate none (discard { s with cache := rest, size := s.size - 1 } sid) :=
        ⟨h3, evOk_emit (s := { s with cache := rest, size := s.size - 1 }) hm.ev (evCheck_closed _ _ _ _ _)⟩
      have hs1 : Same s (discard { s with cache := rest, size := s.size - 1 } sid) :=
        ⟨Frame.trans (frame_with s rest s.waiters (s.size - 1) s.tasks) (frame_emit_closed _ sid),
         rfl, rfl, rfl, rfl, fun j => by simp [discard]⟩
      obtain ⟨a1, a2⟩ := ih _ rfl hm1
      refine ⟨hs1.trans a1, ?_⟩
      revert a2
      cases (dequeue (discard { s with cache := rest, size := s.size - 1 } sid) rest).2 with
      | none => exact id
      | some x => intro a2; exact ⟨a2.1, a2.2.1, hw⟩

theorem get_spec {cfg : Cfg} {hf gate : Bool} {s : St} (ok : Bool) (hm : MInv cfg hf gate none s) :
    Same s (get cfg s ok).1 ∧
    (match (get cfg s ok).2 with
     | .sink sid _ => MInv cfg hf gate (some sid) (get cfg s ok).1 ∧
                    (ok = true → isAlive (get cfg s ok).1.view sid = true) ∧
                    ((get cfg s ok).1.everClosed = false → (get cfg s ok).1.waiters = [])
     | .queue => MInv cfg hf gate none (get cfg s ok).1 ∧ (get cfg s ok).1.waiters.length + 1 ≤ cfg.maxq ∧
                 (get cfg s ok).1.cache = [] ∧ cfg.max ≤ (get cfg s ok).1.size
     | .fail => MInv cfg hf gate none (get cfg s ok).1) := by
  obtain ⟨d1, d2⟩ := dequeue_spec (cfg := cfg) (hf := hf) (gate := gate) s.cache s rfl hm
  unfold get
  generalize hdq : dequeue s s.cache = r at d1 d2
  obtain ⟨s1, r1⟩ := r
  cases r1 with
  | some sid =>
    simp only at d1 d2 ⊢
    refine ⟨d1, d2.1, fun _ => d2.2.1, fun _ => ?_⟩
    rw [d1.waiters]; exact d2.2.2
  | none =>
    simp only at d1 d2 ⊢
    by_cases hlt : s1.size < cfg.max
    · rw [if_pos hlt]
      simp only
      have hi := emit_created d2.1.inv hlt ok
      refine ⟨d1.trans ⟨Frame.trans (frame_with s1 s1.cache s1.waiters (s1.size + 1) s1.tasks)
          (frame_emit_created _ _ _),
          rfl, rfl, rfl, rfl, fun j => by simp⟩, ⟨hi, ?_⟩, ?_, ?_⟩
      · apply evOk_emit (s := { s1 with size := s1.size + 1 }) d2.1.ev
        apply evCheck_created
        have := aliveIds_le_max hi
        simpa using this
      · intro hok; subst hok; exact isAlive_after_created s1 true _
      · intro he
        by_contra hne
        have := d2.1.inv.full he hne
        omega
    · rw [if_neg hlt]
      by_cases hq : s1.waiters.length + 1 > cfg.maxq
      · rw [if_pos hq]; exact ⟨d1, d2.1⟩
      · rw [if_neg hq]; exact ⟨d1, d2.1, by show s1.waiters.length + 1 ≤ cfg.maxq; omega, d2.2, by show cfg.max ≤ s1.size; omega⟩

/-! ### `_ProcessQueue` -/

theorem minv_rel_lent {cfg : Cfg} {hf gate : Bool} {s : St} {sid c : Nat} (hm : MInv cfg hf gate none s)
    (hl : holderOf s.view sid = some c) : MInv cfg hf gate (some sid) (s.emit (.rel sid)) :=
  ⟨emit_rel_lent hm.inv hl, evOk_emit hm.ev (evCheck_rel _ _ _ _ _)⟩

theorem minv_rel_free {cfg : Cfg} {hf gate : Bool} {s : St} {sid : Nat} (hm : MInv cfg hf gate (some sid) s) :
    MInv cfg hf gate (some sid) (s.emit (.rel sid)) :=
  ⟨emit_rel_free hm.inv, evOk_emit hm.ev (evCheck_rel _ _ _ _ _)⟩

theorem procQueue_spec {cfg : Cfg} {gate : Bool} {sid : Nat} (l : List Nat) :
    ∀ s : St, s.waiters = l → MInv cfg true gate (some sid) s →
      MInv cfg true gate none (procQueue cfg s sid l) ∧
      ((∃ c, oldestPending s.view = some c ∧ (procQueue cfg s sid l).evs = s.evs ++ [.sent sid c] ∧
          (procQueue cfg s sid l).pstate = s.pstate ∧ (procQueue cfg s sid l).everClosed = s.everClosed ∧
          (procQueue cfg s sid l).base = s.base ∧ (procQueue cfg s sid l).tasks = s.tasks) ∨
       (pendingIds s.view = [] ∧ ∃ s', s'.base = s.base ∧ s'.evs = s.evs ∧ s'.pstate = s.pstate ∧
          s'.everClosed = s.everClosed ∧ MInv cfg true gate (some sid) s' ∧
          procQueue cfg s sid l = release cfg s' sid)) := by
  induction l with
  | nil =>
    intro s hw hm
    unfold procQueue
    have hm1 := minv_rel_free hm
    refine ⟨(releaseBody_spec hm1).1, Or.inr ⟨pendingIds_nil_of_waiters_nil hm.inv hw, s, rfl, rfl, rfl, rfl, hm, rfl⟩⟩
  | cons c rest ih =>
    intro s hw hm
    unfold procQueue
    by_cases hp : s.stat c = some .pending
    · rw [if_pos hp]
      have hp' : s.view.calls[c]? = some .pending := hp
      have hsorted := hm.inv.wSorted
      rw [hw] at hsorted
      have hs2 := List.pairwise_cons.1 hsorted
      have hold := oldestPending_of_head hm.inv hw hp'
      have hf := hm.inv.free sid (by simp [held])
      refine ⟨⟨?_, ?_⟩, Or.inl ⟨c, hold, rfl, rfl, rfl, rfl, rfl⟩⟩
      · apply emit_sent hm.inv (Or.inr hp') _ hs2.2 (by rw [hw]; simp)
        intro x
        rw [hw]
        constructor
        · intro hx; exact ⟨List.mem_cons_of_mem _ hx, fun he => by have := hs2.1 x hx; omega⟩
        · rintro ⟨hx, hne⟩
          rcases List.mem_cons.1 hx with h | h
          · exact absurd h hne
          · exact h
      · apply evOk_emit (s := { s with waiters := rest }) hm.ev
        exact evCheck_sent hf.1 hf.2 (Or.inr hp') (fun _ => hold) (fun h => by simp at h)
    · rw [if_neg hp]
      have hm1 : MInv cfg true gate (some sid) { s with waiters := rest } :=
        minv_with (skip_waiter hm.inv hw hp) hm.ev rfl rfl
      obtain ⟨a1, a2⟩ := ih _ rfl hm1
      exact ⟨a1, a2⟩

/-! ## the clauses that follow from the invariant alone -/

theorem clQueueBound_ok {cfg : Cfg} {s : St} (hi : Inv cfg none s) : clQueueBound cfg s.view = .ok := by
  unfold clQueueBound
  have h1 := pendingIds_le_waiters hi
  have h2 := hi.wq
  rw [if_neg (by omega)]

theorem clSize_ok {cfg : Cfg} {s : St} (hi : Inv cfg none s) : clSize s.view (obsOf s) = .ok := by
  unfold clSize
  have := hi.size_eq
  simp only [held] at this
  simp at this
  have h2 : ¬ ((obsOf s).size ≠ (lentIds s.view).length + (obsOf s).cache.length + (obsOf s).tasks.length) := by
    simp only [obsOf]; omega
  rw [if_neg h2]

theorem clWork_ok {cfg : Cfg} {s : St} (hi : Inv cfg none s) : clWork s.view (obsOf s) = .ok := by
  unfold clWork
  rw [if_neg]
  intro hcond
  simp only [Bool.and_eq_true, Bool.not_eq_true', obsOf] at hcond
  obtain ⟨⟨ht, hp⟩, hidle⟩ := hcond
  have ht' : s.tasks = [] := by simpa using ht
  -- somebody is pending, so the cache is empty
  have hpne : pendingIds s.view ≠ [] := by intro h; rw [h] at hp; simp at hp
  obtain ⟨c, hc⟩ := List.exists_mem_of_ne_nil _ hpne
  have hcw := hi.pendW c (mem_pendingIds.1 hc)
  have hcache := hi.cacheW (List.ne_nil_of_mem hcw)
  have hine : idleIds s.view ≠ [] := by intro h; rw [h] at hidle; simp at hidle
  obtain ⟨x, hx⟩ := List.exists_mem_of_ne_nil _ hine
  unfold idleIds at hx
  rw [mem_ids] at hx
  have hx2 := hx.2
  simp only [Bool.and_eq_true, Bool.not_eq_true'] at hx2
  rcases hi.aliveHeld x hx2.1 with h1 | h1
  · rw [isLent_eq] at hx2; rw [h1] at hx2; simp at hx2
  · simp [held, hcache, ht'] at h1

theorem clIdle_ok {cfg : Cfg} {s : St} (hi : Inv cfg none s) : clIdle cfg s.view (obsOf s) = .ok := by
  unfold clIdle
  rw [if_neg]
  intro hcond
  simp only [Bool.and_eq_true, decide_eq_true_eq, obsOf] at hcond
  obtain ⟨⟨ht, hall⟩, hlt⟩ := hcond
  have ht' : s.tasks = [] := by simpa using ht
  have hnone : ∀ x, isAlive s.view x = true → x ∈ s.cache := by
    intro x hx
    rcases hi.aliveHeld x hx with h1 | h1
    · exfalso
      cases hh : holderOf s.view x with
      | none => rw [hh] at h1; simp at h1
      | some c =>
        obtain ⟨st, h2, h4⟩ := hi.lentCall x c hh
        have h3 := List.mem_of_getElem? h2
        unfold allDone at hall
        rw [List.all_eq_true] at hall
        have := hall _ h3
        have hst : st = .done := by simpa using this
        subst hst
        simp [CStat.holds] at h4
    · simpa [held, ht'] using h1
  have : (aliveIds s.view).length ≤ s.cache.length := by
    apply length_le_of_nodup_subset (nodup_ids _ _)
    intro x hx
    exact hnone x ((mem_aliveIds (v := s.view)).1 hx)
  have := hi.cacheMin
  omega

/-! ## one operation -/

theorem minv_start {cfg : Cfg} {hf gate : Bool} {s : St} (hi : Inv cfg none s) (he : s.evs = []) :
    MInv cfg hf gate none s :=
  ⟨hi, by unfold EvOk; rw [he]; rfl⟩

/-- `_Release` of a connection that call `c` holds (its pool frame has just been popped) -/
theorem release_lent {cfg : Cfg} {hf gate : Bool} {s0 : St} {c sid : Nat}
    (hm : MInv cfg hf gate none s0) (he : s0.evs = [])
    (hl : holderOf s0.view sid = some c) :
    MInv cfg hf gate none (release cfg s0 sid) ∧
    (release cfg s0 sid).base = s0.base ∧
    (∃ tail, (release cfg s0 sid).evs = .rel sid :: tail) ∧
    (s0.pstate ≠ .closed → isAlive s0.view sid = false →
      (release cfg s0 sid).pstate = .closed ∧
      ∀ c' : Nat, s0.view.calls[c']? = some .pending →
        Ev.done c' .serviceClosed ∈ (release cfg s0 sid).evs) ∧
    ((release cfg s0 sid).everClosed = true →
      s0.everClosed = true ∨ (release cfg s0 sid).pstate = .closed) ∧
    (∀ c' : Nat, c' ≠ c → pot (release cfg s0 sid) c' ≤ pot s0 c') ∧
    (release cfg s0 sid).view.calls[c]? = some (relStat s0.view c) ∧
    NR (release cfg s0 sid).evs := by
  obtain ⟨st0, hcs, hholds⟩ := hm.inv.lentCall sid c hl
  have hclt : c < s0.view.calls.length := by
    by_contra h; simp at h; simp [List.getElem?_eq_none h] at hcs
  have hm1 := minv_rel_lent hm hl
  obtain ⟨a1, a2, a3, a4⟩ := releaseBody_spec hm1
  rw [release_eq]
  have hrel : (s0.emit (.rel sid)).view.calls[c]? = some (relStat s0.view c) := by
    rw [view_emit, calls_rel]; simp [hl, hclt]
  have hc1 := a2.keep c _ hrel (relStat_not_pending _ _)
  obtain ⟨tail, htail⟩ := a2.evs
  have hnotp : ∀ c', s0.view.calls[c']? = some .pending →
      ¬ (holderOf s0.view sid = some c' ∧ c' < s0.view.calls.length) := by
    rintro c' hc' ⟨h, _⟩
    rw [hl] at h; injection h with h; subst h
    rw [hcs] at hc'; injection hc' with hc'; subst hc'; simp [CStat.holds] at hholds
  refine ⟨a1, ?_, ⟨tail, ?_⟩, ?_, ?_, ?_, hc1, a2.nr (NR_emit (NR_of_nil he) rfl)⟩
  · rw [a2.base]; rfl
  · rw [htail, emit_evs, he]; rfl
  · intro hp hd
    have := a3 (by simpa using hp) (by rw [view_emit, isAlive_rel]; exact hd)
    refine ⟨this.1, ?_⟩
    intro c' hc'
    apply this.2 c'
    rw [view_emit, calls_rel, if_neg (hnotp c' hc')]; exact hc'
  · intro h
    exact a2.flag h
  · intro c' hne
    have e2 : pot (s0.emit (.rel sid)) c' = pot s0 c' := by
      apply pot_emit_other _ _ _ rfl
      rw [view_emit, calls_rel]
      have : ¬ (holderOf s0.view sid = some c' ∧ c' < s0.view.calls.length) := by
        rintro ⟨h, _⟩; rw [hl] at h; injection h with h; exact hne h.symm
      simp [this]
    rw [← e2]
    exact a2.pot c'

/-- a response (or the time-out) drains the stack of a call that holds a connection -/
theorem drain_started {cfg : Cfg} {hf gate : Bool} {s0 : St} {c sid : Nat} (out : Outcome)
    (hm : MInv cfg hf gate none s0) (he : s0.evs = [])
    (hst : s0.view.calls[c]? = some (.started sid)) :
    MInv cfg hf gate none ((release cfg s0 sid).emit (.done c out)) ∧
    ((release cfg s0 sid).emit (.done c out)).base = s0.base ∧
    (∃ tail, ((release cfg s0 sid).emit (.done c out)).evs = .rel sid :: tail) ∧
    (s0.pstate ≠ .closed → isAlive s0.view sid = false →
      ((release cfg s0 sid).emit (.done c out)).pstate = .closed ∧
      ∀ c' : Nat, s0.view.calls[c']? = some .pending →
        Ev.done c' .serviceClosed ∈ ((release cfg s0 sid).emit (.done c out)).evs) ∧
    (((release cfg s0 sid).emit (.done c out)).everClosed = true →
      s0.everClosed = true ∨ ((release cfg s0 sid).emit (.done c out)).pstate = .closed) ∧
    (∀ c' : Nat, c' ≠ c → pot ((release cfg s0 sid).emit (.done c out)) c' ≤ pot s0 c') ∧
    NR ((release cfg s0 sid).emit (.done c out)).evs := by
  have hl : holderOf s0.view sid = some c := hm.inv.startedLent sid c _ hst rfl
  obtain ⟨a1, a2, ⟨tail, a3⟩, a4, a5, a6, a7, a8⟩ := release_lent (cfg := cfg) hm he hl
  have hrs : relStat s0.view c = .released := by unfold relStat; rw [hst]
  rw [hrs] at a7
  refine ⟨⟨emit_done a1.inv c out a7 rfl, evOk_emit a1.ev (evCheck_done out a7 rfl)⟩,
    by rw [emit_base, a2], ⟨tail ++ [.done c out], by rw [emit_evs, a3]; rfl⟩, ?_, a5, ?_, NR_emit a8 rfl⟩
  · intro hp hd
    obtain ⟨b1, b2⟩ := a4 hp hd
    exact ⟨b1, fun c' hc' => by rw [emit_evs]; exact List.mem_append_left _ (b2 c' hc')⟩
  · intro c' hne
    have e1 : pot ((release cfg s0 sid).emit (.done c out)) c' = pot (release cfg s0 sid) c' := by
      apply pot_emit_other
      · simp [isDoneEv]; exact fun h => hne h.symm
      · rw [view_emit, calls_done]; simp [hne]
    rw [e1]; exact a6 c' hne

theorem code_eq_four (p : PState) : p.code = 4 ↔ p = .closed := by
  cases p <;> simp [PState.code]

/-- the monitor of the specification and the model's state tell the same story -/
structure Coupled (s : St) (m : Mon) : Prop where
  view : m.view = s.base
  pstate : m.pstate = s.pstate.code
  tasks : m.tasks = s.tasks
  closed : m.closedSeen = false → s.everClosed = false
  evs : s.evs = []
  /-- every connection the picture shows as being opened is one whose `Open()` the specification
      knows to be pending -/
  conn : ∀ x, isOpening s.base x = true → x ∈ m.connects

structure StepOk (cfg : Cfg) (m : Mon) (s : St) (op : Op) (r : St) : Prop where
  minv : MInv cfg (isRun op) (!m.closedSeen) none r
  base : r.base = preOp s.base op
  surplus : clSurplus cfg m op (obsOf r) = .ok
  handoff : clHandoff m (preOp s.base op) op (obsOf r) = .ok
  close : clClose m (preOp s.base op) op (obsOf r) = .ok
  flag : r.everClosed = true → s.everClosed = true ∨ r.pstate = .closed
  raise : clRaise op (obsOf r) = .ok

theorem clRaise_of_NR (op : Op) {o : Obs} (h : NR o.evs) : clRaise op o = .ok := by
  unfold clRaise; rw [filter_of_NR h]

theorem clRaise_nil (op : Op) {o : Obs} (h : o.evs = []) : clRaise op o = .ok :=
  clRaise_of_NR op (by rw [h]; exact NR_nil)

theorem deadRelease_nil (m : Mon) (v0 : View) (op : Op) (o : Obs) (h : o.evs = []) :
    deadRelease m v0 op o = false := by
  simp [deadRelease, h]

theorem clClose_of_not_dead {m : Mon} {v0 : View} {op : Op} {o : Obs}
    (h1 : deadRelease m v0 op o = false) (h2 : op ≠ .close) : clClose m v0 op o = .ok := by
  unfold clClose
  have : (op == Op.close) = false := by simpa using h2
  simp [h1, this]

theorem clClose_of_closed {m : Mon} {v0 : View} {op : Op} {o : Obs} (hp : o.pstate = 4)
    (hall : ∀ c : Nat, v0.calls[c]? = some .pending → Ev.done c .serviceClosed ∈ o.evs) :
    clClose m v0 op o = .ok := by
  unfold clClose
  split
  · rw [if_neg (by simp [hp])]
    have : (pendingIds v0).find? (fun c => !doneWith o.evs c .serviceClosed) = none := by
      rw [List.find?_eq_none]
      intro c hc
      have := hall c (mem_pendingIds.1 hc)
      simp [doneWith, this]
    rw [this]
  · rfl

theorem stepOk_die {cfg : Cfg} {m : Mon} {s : St} (sid : Nat) (hi : Inv cfg none s) (hc : Coupled s m) :
    StepOk cfg m s (.die sid) (stepSt cfg s (.die sid)) := by
  have h0 : Inv cfg none { s with base := preOp s.base (.die sid) } := inv_preOp_die hi hc.evs sid
  refine ⟨minv_start h0 hc.evs, rfl, rfl, rfl, ?_, Or.inl, clRaise_nil _ hc.evs⟩
  exact clClose_of_not_dead (deadRelease_nil _ _ _ _ hc.evs) (by simp)

theorem stepOk_close {cfg : Cfg} {m : Mon} {s : St} (hi : Inv cfg none s) (hc : Coupled s m) :
    StepOk cfg m s .close (stepSt cfg s .close) := by
  have hm : MInv cfg false (!m.closedSeen) none s := minv_start hi hc.evs
  obtain ⟨a1, a2, a3, a4, a5, a6, a7, a8, a9⟩ := closePool_spec (set_closed hi) hm.ev
  have hv : s.view = s.base := view_of_nil hc.evs
  refine ⟨a1, a2.base, rfl, rfl, ?_, fun _ => Or.inr a7, clRaise_of_NR _ (a2.nr (NR_of_nil hc.evs))⟩
  apply clClose_of_closed
  · show (closePool s).pstate.code = 4
    rw [a7]; rfl
  · intro c hcp
    exact a9 c (by rw [hv]; exact hcp)

/-- the clause about dead connections, for an operation that begins with `_Release(sid)` -/
theorem clClose_of_rel {m : Mon} {s : St} {op : Op} {r : St} {sid : Nat} {tail : List Ev}
    (hc : Coupled s m) (hevs : r.evs = .rel sid :: tail) (hne : op ≠ .close)
    (hpost : s.pstate ≠ .closed → isAlive s.base sid = false →
      r.pstate = .closed ∧ ∀ c' : Nat, s.base.calls[c']? = some .pending → Ev.done c' .serviceClosed ∈ r.evs) :
    clClose m s.base op (obsOf r) = .ok := by
  by_cases hd : deadRelease m s.base op (obsOf r) = true
  · simp only [deadRelease, obsOf, hevs, Bool.and_eq_true, bne_iff_ne, ne_eq, Bool.not_eq_true'] at hd
    have hp : s.pstate ≠ .closed := by
      intro h; apply hd.2; rw [hc.pstate, h]; rfl
    have := hpost hp hd.1.2
    apply clClose_of_closed
    · show r.pstate.code = 4; rw [this.1]; rfl
    · exact this.2
  · exact clClose_of_not_dead (by simpa using hd) hne

theorem stepOk_drain {cfg : Cfg} {m : Mon} {s : St} (op : Op) (c : Nat) (out : Outcome)
    (hop : op = .respond c ∨ op = .timeout c)
    (hi : Inv cfg none s) (hc : Coupled s m) :
    StepOk cfg m s op (drainCall cfg s c out) := by
  have hpre : preOp s.base op = s.base := by rcases hop with h | h <;> subst h <;> rfl
  have hrun : isRun op = false := by rcases hop with h | h <;> subst h <;> rfl
  have hne : op ≠ .close := by rcases hop with h | h <;> subst h <;> simp
  have hsur : ∀ o, clSurplus cfg m op o = .ok := by rcases hop with h | h <;> subst h <;> intro o <;> rfl
  have hhand : ∀ v o, clHandoff m v op o = .ok := by
    rcases hop with h | h <;> subst h <;> intro v o <;> rfl
  have hm : MInv cfg (isRun op) (!m.closedSeen) none s := minv_start hi hc.evs
  have hv : s.view = s.base := view_of_nil hc.evs
  unfold drainCall
  cases hst : s.stat c with
  | none =>
    simp only
    refine ⟨hm, hpre.symm, hsur _, hhand _ _, ?_, Or.inl, clRaise_nil _ hc.evs⟩
    rw [hpre]; exact clClose_of_not_dead (deadRelease_nil _ _ _ _ hc.evs) hne
  | some st =>
    have hst' : s.view.calls[c]? = some st := hst
    cases st with
    | pending =>
      simp only
      refine ⟨⟨emit_done hi c out hst' rfl,
        evOk_emit hm.ev (evCheck_done out hst' rfl)⟩, hpre.symm, hsur _, hhand _ _, ?_, Or.inl,
        clRaise_of_NR _ (NR_emit (NR_of_nil hc.evs) rfl)⟩
      rw [hpre]
      apply clClose_of_not_dead _ hne
      simp [deadRelease, obsOf, hc.evs]
    | connecting sid =>
      simp only
      refine ⟨⟨emit_done hi c out hst' rfl,
        evOk_emit hm.ev (evCheck_done out hst' rfl)⟩, hpre.symm, hsur _, hhand _ _, ?_, Or.inl,
        clRaise_of_NR _ (NR_emit (NR_of_nil hc.evs) rfl)⟩
      rw [hpre]
      apply clClose_of_not_dead _ hne
      simp [deadRelease, obsOf, hc.evs]
    | orphan sid =>
      simp only
      refine ⟨hm, hpre.symm, hsur _, hhand _ _, ?_, Or.inl, clRaise_nil _ hc.evs⟩
      rw [hpre]; exact clClose_of_not_dead (deadRelease_nil _ _ _ _ hc.evs) hne
    | zombie sid =>
      simp only
      refine ⟨hm, hpre.symm, hsur _, hhand _ _, ?_, Or.inl, clRaise_nil _ hc.evs⟩
      rw [hpre]; exact clClose_of_not_dead (deadRelease_nil _ _ _ _ hc.evs) hne
    | started sid =>
      simp only
      obtain ⟨a1, a2, ⟨tail, a3⟩, a4, a5, _, a7⟩ := drain_started (cfg := cfg) out hm hc.evs hst'
      refine ⟨a1, by rw [a2, hpre], hsur _, hhand _ _, ?_, a5, clRaise_of_NR _ a7⟩
      rw [hpre]
      apply clClose_of_rel hc a3 hne
      intro hp hd
      have := a4 hp (by rw [hv]; exact hd)
      exact ⟨this.1, fun c' hc' => this.2 c' (by rw [hv]; exact hc')⟩
    | arriving =>
      simp only
      refine ⟨hm, hpre.symm, hsur _, hhand _ _, ?_, Or.inl, clRaise_nil _ hc.evs⟩
      rw [hpre]; exact clClose_of_not_dead (deadRelease_nil _ _ _ _ hc.evs) hne
    | released =>
      simp only
      refine ⟨hm, hpre.symm, hsur _, hhand _ _, ?_, Or.inl, clRaise_nil _ hc.evs⟩
      rw [hpre]; exact clClose_of_not_dead (deadRelease_nil _ _ _ _ hc.evs) hne
    | done =>
      simp only
      refine ⟨hm, hpre.symm, hsur _, hhand _ _, ?_, Or.inl, clRaise_nil _ hc.evs⟩
      rw [hpre]; exact clClose_of_not_dead (deadRelease_nil _ _ _ _ hc.evs) hne

theorem stepOk_timeout {cfg : Cfg} {m : Mon} {s : St} (c : Nat) (hi : Inv cfg none s) (hc : Coupled s m) :
    StepOk cfg m s (.timeout c) (stepSt cfg s (.timeout c)) :=
  stepOk_drain (.timeout c) c .timeout (Or.inr rfl) hi hc

theorem stepOk_respond {cfg : Cfg} {m : Mon} {s : St} (c : Nat) (hi : Inv cfg none s) (hc : Coupled s m) :
    StepOk cfg m s (.respond c) (stepSt cfg s (.respond c)) := by
  show StepOk cfg m s (.respond c)
    (match s.stat c with
     | some (.started _) => drainCall cfg s c .reply
     | some (.zombie sid) => release cfg s sid
     | _ => s)
  have hm : MInv cfg false (!m.closedSeen) none s := minv_start hi hc.evs
  have hv : s.view = s.base := view_of_nil hc.evs
  have hnoop : StepOk cfg m s (.respond c) s :=
    ⟨hm, rfl, rfl, rfl, clClose_of_not_dead (deadRelease_nil _ _ _ _ hc.evs) (by simp), Or.inl,
     clRaise_nil _ hc.evs⟩
  cases hst : s.stat c with
  | none => exact hnoop
  | some st =>
    cases st with
    | started sid => exact stepOk_drain (.respond c) c .reply (Or.inl rfl) hi hc
    | zombie sid =>
      -- the caller was answered long ago: the connection's answer only releases the connection
      simp only
      have hst' : s.view.calls[c]? = some (.zombie sid) := hst
      have hl : holderOf s.view sid = some c := hi.startedLent sid c _ hst' rfl
      obtain ⟨a1, a2, ⟨tail, a3⟩, a4, a5, _, _, a8⟩ := release_lent (cfg := cfg) hm hc.evs hl
      refine ⟨a1, a2, rfl, rfl, ?_, a5, clRaise_of_NR _ a8⟩
      apply clClose_of_rel (op := .respond c) hc a3 (by simp)
      intro hp hd
      have := a4 hp (by rw [hv]; exact hd)
      exact ⟨this.1, fun c' hc' => this.2 c' (by rw [hv]; exact hc')⟩
    | _ => exact hnoop

theorem stepOk_run {cfg : Cfg} {m : Mon} {s : St} (hi : Inv cfg none s) (hc : Coupled s m) :
    StepOk cfg m s .run (stepSt cfg s .run) := by
  show StepOk cfg m s .run
    (match s.tasks with
     | [] => s
     | sid :: rest => procQueue cfg { s with tasks := rest } sid s.waiters)
  have hm : MInv cfg true (!m.closedSeen) none s := minv_start hi hc.evs
  have hv : s.view = s.base := view_of_nil hc.evs
  cases ht : s.tasks with
  | nil =>
    refine ⟨hm, rfl, rfl, ?_, clClose_of_not_dead (deadRelease_nil _ _ _ _ hc.evs) (by simp), Or.inl,
      clRaise_nil _ hc.evs⟩
    simp [clHandoff, hc.tasks, ht]
  | cons sid rest =>
    simp only
    have hm1 : MInv cfg true (!m.closedSeen) (some sid) { s with tasks := rest } :=
      minv_with (take_task hi ht) hm.ev rfl rfl
    obtain ⟨a1, a2⟩ := procQueue_spec (cfg := cfg) s.waiters { s with tasks := rest } rfl hm1
    rcases a2 with ⟨c, b1, b2, b3, b4, b5, _⟩ | ⟨b1, s', b2, b3, b4, b5, b6, b7⟩
    · -- hand-off to the oldest waiting call
      have hevs : (procQueue cfg { s with tasks := rest } sid s.waiters).evs = [.sent sid c] := by
        rw [b2]; show s.evs ++ _ = _; rw [hc.evs]; rfl
      refine ⟨a1, b5, rfl, ?_, ?_, ?_, clRaise_of_NR _ (by
        show NR (procQueue cfg { s with tasks := rest } sid s.waiters).evs
        rw [hevs]; intro e he; simp at he; subst he; rfl)⟩
      · simp only [clHandoff, hc.tasks, ht, preOp]
        have : oldestPending s.base = some c := by rw [← hv]; exact b1
        simp [this, obsOf, hevs]
      · apply clClose_of_not_dead _ (by simp)
        simp [deadRelease, obsOf, hevs]
      · intro h; rw [b4] at h; exact Or.inl h
    · -- nobody is waiting any more: the connection goes back through `_Release`
      rw [b7, release_eq]
      have hm2 := minv_rel_free b6
      obtain ⟨c1, c2, c3, c4⟩ := releaseBody_spec (cfg := cfg) hm2
      obtain ⟨tail, htail⟩ := c2.evs
      have hevs : (releaseBody cfg (s'.emit (.rel sid)) sid).evs = .rel sid :: tail := by
        rw [htail, emit_evs, b3]; show (s.evs ++ _) ++ _ = _; rw [hc.evs]; rfl
      have hnop : pendingIds s.base = [] := by rw [← hv]; exact b1
      refine ⟨c1, by rw [c2.base, emit_base, b2]; rfl, rfl, ?_, ?_, ?_,
        clRaise_of_NR _ (c2.nr (NR_emit (by rw [b3]; exact NR_of_nil hc.evs) rfl))⟩
      · simp only [clHandoff, hc.tasks, ht, preOp]
        simp [oldestPending, hnop]
      · apply clClose_of_rel hc hevs (by simp)
        intro hp hd
        have hv' : (s'.emit (.rel sid)).view = s.base.apply (.rel sid) := by
          rw [view_emit]
          have : s'.view = s.base := by
            unfold St.view; rw [b3, b2]; show s.evs.foldl _ _ = _; rw [hc.evs]; rfl
          rw [this]
        have := c3 (by rw [emit_pstate, b4]; exact hp) (by rw [hv', isAlive_rel]; exact hd)
        refine ⟨this.1, ?_⟩
        intro c' hc'
        have : c' ∈ pendingIds s.base := mem_pendingIds.2 hc'
        rw [hnop] at this; simp at this
      · intro h
        rcases c2.flag h with h1 | h1
        · left; rw [emit_everClosed, b5] at h1; exact h1
        · exact Or.inr h1

theorem clSurplus_request_of (cfg : Cfg) (m : Mon) (ok lat : Bool) (o : Obs)
    (h : (pendingIds m.view).length < cfg.maxq ∨
         (∃ sid, Ev.sent sid m.view.calls.length ∈ o.evs) ∨
         (∃ sid, Ev.connecting sid m.view.calls.length ∈ o.evs) ∨
         Ev.done m.view.calls.length .maxWaiters ∈ o.evs) :
    clSurplus cfg m (.request ok lat) o = .ok := by
  unfold clSurplus
  simp only
  rw [if_neg]
  intro hcond
  simp only [Bool.and_eq_true, decide_eq_true_eq, Bool.not_eq_true', List.any_eq_false] at hcond
  obtain ⟨⟨h1, h2⟩, h3⟩ := hcond
  rcases h with h | ⟨sid, h⟩ | ⟨sid, h⟩ | h
  · omega
  · have := h2 _ h; simp at this
  · have := h2 _ h; simp at this
  · simp [doneWith, h] at h3

theorem stepOk_request {cfg : Cfg} {m : Mon} {s : St} (ok lat : Bool) (hi : Inv cfg none s)
    (hc : Coupled s m) :
    StepOk cfg m s (.request ok lat) (stepSt cfg s (.request ok lat)) := by
  have h0 : Inv cfg none { s with base := preOp s.base (.request ok lat) } := inv_preOp_request hi hc.evs ok lat
  have hm0 : MInv cfg false (!m.closedSeen) none { s with base := preOp s.base (.request ok lat) } :=
    minv_start h0 hc.evs
  have hv : s.view = s.base := view_of_nil hc.evs
  have hv0 : ({ s with base := preOp s.base (.request ok lat) } : St).view =
      { s.base with calls := s.base.calls ++ [.arriving] } := view_of_nil (s := { s with base := _ }) hc.evs
  have hcarr : ({ s with base := preOp s.base (.request ok lat) } : St).view.calls[s.base.calls.length]? =
      some .arriving := by rw [hv0]; simp
  have hcnone : ({ s with base := preOp s.base (.request ok lat) } : St).view.calls[s.base.calls.length + 1]? =
      none := by rw [hv0]; simp
  have hmc : m.view.calls.length = s.base.calls.length := by rw [hc.view]
  have hpend : (pendingIds m.view).length ≤ s.waiters.length := by
    rw [hc.view, ← hv]; exact pendingIds_le_waiters hi
  obtain ⟨g1, g2⟩ := get_spec (cfg := cfg) (lat || ok) hm0
  show StepOk cfg m s (.request ok lat)
    (match get cfg { s with base := preOp s.base (.request ok lat) } (lat || ok) with
     | (s1, .sink sid fresh) =>
       if fresh && lat then s1.emit (.connecting sid s.base.calls.length)
       else s1.emit (.sent sid s.base.calls.length)
     | (s1, .queue) => ({ s1 with waiters := s1.waiters ++ [s.base.calls.length] }).emit (.queued s.base.calls.length)
     | (s1, .fail) => s1.emit (.done s.base.calls.length .maxWaiters))
  generalize hget : get cfg { s with base := preOp s.base (.request ok lat) } (lat || ok) = r at g1 g2
  obtain ⟨s1, res⟩ := r
  simp only at g1 g2
  have hcarr1 : s1.view.calls[s.base.calls.length]? = some .arriving := by rw [g1.calls]; exact hcarr
  have hlen1 : s.base.calls.length + 1 = s1.view.calls.length := by
    have h1 : s1.view.calls[s.base.calls.length + 1]? = none := by rw [g1.calls]; exact hcnone
    have h2 : s.base.calls.length < s1.view.calls.length := by
      by_contra h; simp at h; simp [List.getElem?_eq_none h] at hcarr1
    rw [List.getElem?_eq_none_iff] at h1
    omega
  have hbase1 : s1.base = preOp s.base (.request ok lat) := g1.frame.base
  have hflag : s1.everClosed = s.everClosed := g1.everClosed
  have hnoclose : ∀ r' : St, clClose m (preOp s.base (.request ok lat)) (.request ok lat) (obsOf r') = .ok := by
    intro r'; exact clClose_of_not_dead (by simp [deadRelease]) (by simp)
  have hnr1 : NR s1.evs := g1.frame.nr (NR_of_nil hc.evs)
  cases res with
  | sink sid fresh =>
    simp only at g2 ⊢
    obtain ⟨k1, k2, k3⟩ := g2
    have hnotw : s.base.calls.length ∉ s1.waiters := by
      intro hmem
      rcases k1.inv.wStat _ hmem with h | h <;> rw [hcarr1] at h <;> simp at h
    have hf := k1.inv.free sid (by simp [held])
    have hsub : ∀ x, x ∈ s1.waiters ↔ (x ∈ s1.waiters ∧ x ≠ s.base.calls.length) :=
      fun x => ⟨fun hx => ⟨hx, fun he => hnotw (he ▸ hx)⟩, fun hx => hx.1⟩
    have hgate : false = false → (!m.closedSeen) = true → pendingIds s1.view = [] := by
      intro _ hg
      have hcs : m.closedSeen = false := by simpa using hg
      have := k3 (by rw [hflag]; exact hc.closed hcs)
      exact pendingIds_nil_of_waiters_nil k1.inv this
    by_cases hfl : (fresh && lat) = true
    · rw [if_pos hfl]
      refine ⟨⟨?_, ?_⟩, hbase1, ?_, rfl, hnoclose _, ?_, clRaise_of_NR _ (NR_emit hnr1 rfl)⟩
      · exact emit_connecting (w' := s1.waiters) k1.inv (Or.inl hcarr1) hsub k1.inv.wSorted (Nat.le_refl _)
      · exact evOk_emit k1.ev (evCheck_connecting hf.1 hf.2 hcarr1 hgate)
      · apply clSurplus_request_of
        right; right; left
        exact ⟨sid, by rw [hmc]; simp [obsOf]⟩
      · intro h; left; rw [← hflag]; exact h
    · rw [if_neg hfl]
      refine ⟨⟨?_, ?_⟩, hbase1, ?_, rfl, hnoclose _, ?_, clRaise_of_NR _ (NR_emit hnr1 rfl)⟩
      · exact emit_sent (w' := s1.waiters) k1.inv (Or.inl hcarr1) hsub k1.inv.wSorted (Nat.le_refl _)
      · exact evOk_emit k1.ev (evCheck_sent (hf := false) hf.1 hf.2 (Or.inl hcarr1) (fun h => Bool.noConfusion h) hgate)
      · apply clSurplus_request_of
        right; left
        exact ⟨sid, by rw [hmc]; simp [obsOf]⟩
      · intro h; left; rw [← hflag]; exact h
  | queue =>
    simp only at g2 ⊢
    obtain ⟨k1, k2, k3, k4⟩ := g2
    refine ⟨⟨emit_queued k1.inv hcarr1 hlen1 k2 k3 k4, ?_⟩, hbase1, ?_, rfl, hnoclose _, ?_,
      clRaise_of_NR _ (NR_emit (s := { s1 with waiters := s1.waiters ++ [s.base.calls.length] }) hnr1 rfl)⟩
    · exact evOk_emit (s := { s1 with waiters := s1.waiters ++ [s.base.calls.length] }) k1.ev
        (evCheck_queued hcarr1)
    · apply clSurplus_request_of
      left
      have : s1.waiters = s.waiters := g1.waiters
      rw [this] at k2
      omega
    · intro h; left; rw [← hflag]; exact h
  | fail =>
    simp only at g2 ⊢
    refine ⟨⟨emit_done g2.inv _ _ hcarr1 rfl, ?_⟩, hbase1, ?_, rfl, hnoclose _, ?_,
      clRaise_of_NR _ (NR_emit hnr1 rfl)⟩
    · exact evOk_emit g2.ev (evCheck_done _ hcarr1 rfl)
    · apply clSurplus_request_of
      right; right; right
      rw [hmc]; simp [obsOf]
    · intro h; left; rw [← hflag]; exact h

theorem emit_raised {cfg : Cfg} {s : St} {h : Option Nat} (hi : Inv cfg h s) (w : String) :
    Inv cfg h (s.emit (.raised w)) :=
  inv_of_view_eq hi (by rw [view_emit, calls_raised]) rfl rfl rfl rfl rfl rfl

/-- the end of `_OpenImpl` -/
theorem openEnd_ok {cfg : Cfg} {m : Mon} {s s2 : St} (ok : Bool)
    (hm : MInv cfg false (!m.closedSeen) none s2) (hb : s2.base = s.base) (hnr : NR s2.evs)
    (hflag : s2.everClosed = true → s.everClosed = true ∨ s2.pstate = .closed) :
    StepOk cfg m s (.openPool ok) (openEnd s2) := by
  have hnoclose : ∀ r' : St, clClose m (preOp s.base (.openPool ok)) (.openPool ok) (obsOf r') = .ok := by
    intro r'; exact clClose_of_not_dead (by simp [deadRelease]) (by simp)
  unfold openEnd
  by_cases hp : s2.pstate = .closed
  · rw [if_pos hp]
    refine ⟨⟨emit_raised hm.inv _, evOk_emit hm.ev rfl⟩, hb, rfl, rfl, hnoclose _, fun _ => Or.inr hp, ?_⟩
    unfold clRaise
    have : (obsOf (s2.emit (.raised "ServiceClosedError"))).evs.filter isRaised =
        [.raised "ServiceClosedError"] := by
      show (s2.evs ++ [_]).filter isRaised = _
      rw [List.filter_append, filter_of_NR hnr]; rfl
    rw [this]
    have hp4 : (obsOf (s2.emit (.raised "ServiceClosedError"))).pstate = 4 := by
      show s2.pstate.code = 4; rw [hp]; rfl
    simp [isOpenPool, hp4]
  · rw [if_neg hp]
    refine ⟨minv_with (set_opened hm.inv) hm.ev rfl rfl, hb, rfl, rfl, hnoclose _, ?_, clRaise_of_NR _ hnr⟩
    intro h
    rcases hflag h with h1 | h1
    · exact Or.inl h1
    · exact absurd h1 hp

theorem stepOk_openPool {cfg : Cfg} {m : Mon} {s : St} (ok : Bool) (hi : Inv cfg none s) (hc : Coupled s m) :
    StepOk cfg m s (.openPool ok) (stepSt cfg s (.openPool ok)) := by
  have hm0 : MInv cfg false (!m.closedSeen) none s := minv_start hi hc.evs
  obtain ⟨g1, g2⟩ := get_spec (cfg := cfg) ok hm0
  show StepOk cfg m s (.openPool ok)
    (openEnd (match get cfg s ok with
     | (s1, .sink sid _) => release cfg s1 sid
     | (s1, _) => s1))
  generalize hget : get cfg s ok = r at g1 g2
  obtain ⟨s1, res⟩ := r
  simp only at g1 g2
  have hnr1 : NR s1.evs := g1.frame.nr (NR_of_nil hc.evs)
  have hfl1 : s1.everClosed = true → s.everClosed = true ∨ s1.pstate = .closed := by
    intro h; left; rw [← g1.everClosed]; exact h
  cases res with
  | sink sid fresh =>
    simp only at g2 ⊢
    have hm2 := minv_rel_free g2.1
    obtain ⟨c1, c2, c3, c4⟩ := releaseBody_spec (cfg := cfg) hm2
    rw [release_eq]
    apply openEnd_ok ok c1
    · rw [c2.base, emit_base, g1.frame.base]
    · exact c2.nr (NR_emit hnr1 rfl)
    · intro h
      rcases c2.flag h with h1 | h1
      · left; rw [emit_everClosed, g1.everClosed] at h1; exact h1
      · exact Or.inr h1
  | queue => exact openEnd_ok ok g2.1 g1.frame.base hnr1 hfl1
  | fail => exact openEnd_ok ok g2 g1.frame.base hnr1 hfl1

theorem lentIds_sent_same (v : View) (sid c : Nat) (h : holderOf v sid = some c) :
    lentIds (v.apply (.sent sid c)) = lentIds v := by
  rw [lentIds_def, lentIds_def, sinks_len_sent]
  apply ids_congr; intro i _; rw [holderOf_sent]
  split
  · rename_i h1; rw [h1.1, h]
  · rfl

/-- the connect of `sid`, which call `c`'s greenlet was blocked on, has ended -/
theorem emit_sent_opened {cfg : Cfg} {s : St} {sid c : Nat} (hi : Inv cfg none s)
    (ho : openFlag s.view sid = true) (hl : holderOf s.view sid = some c) :
    Inv cfg none (s.emit (.sent sid c)) := by
  have hlt := holderOf_lt hl
  have hconn := hi.openConn sid c ho hl
  have hclt : c < s.view.calls.length := by
    by_contra h; simp at h; rcases hconn with h1 | h1 <;> simp [List.getElem?_eq_none h] at h1
  have hholds : (sentStat s.view sid c).holds = some sid := by
    unfold sentStat; rcases hconn with h1 | h1 <;> rw [h1] <;> rfl
  have hnp : sentStat s.view sid c ≠ .pending := by unfold sentStat; split <;> simp
  have hother : ∀ x, holderOf s.view x = some c → x = sid := by
    intro x hx
    obtain ⟨st, h1, h2⟩ := hi.lentCall x c hx
    rcases hconn with h3 | h3 <;> (rw [h3] at h1; injection h1 with h1; subst h1; injection h2 with h2; exact h2.symm)
  have hholder : ∀ j, holderOf (s.view.apply (.sent sid c)) j = holderOf s.view j := by
    intro j; rw [holderOf_sent]; split
    · rename_i h1; rw [h1.1, hl]
    · rfl
  constructor
  · rw [view_emit, lentIds_sent_same _ _ _ hl]; exact hi.size_eq
  · exact hi.size_le
  · exact hi.nodup
  · intro x hx; rw [view_emit, hholder, sinks_len_sent]; exact hi.free x hx
  · intro x hx; rw [view_emit, isAlive_sent] at hx; rw [view_emit, hholder]; exact hi.aliveHeld x hx
  · exact hi.cacheW
  · exact hi.cacheMin
  · exact hi.wq
  · exact hi.wSorted
  · intro c' hc'
    rw [view_emit, calls_sent]
    have h0 := hi.wStat c' hc'
    split
    · rename_i h1; rw [h1.1] at h0
      rcases hconn with h3 | h3 <;> rcases h0 with h0 | h0 <;> rw [h3] at h0 <;> simp at h0
    · exact h0
  · intro c' hc'
    rw [view_emit, calls_sent] at hc'
    split at hc'
    · injection hc' with hc'; exact absurd hc' hnp
    · exact hi.pendW c' hc'
  · intro x c' hx
    rw [view_emit, hholder] at hx
    rw [view_emit, calls_sent]
    obtain ⟨st, h1, h2⟩ := hi.lentCall x c' hx
    split
    · rename_i h3
      rw [h3.1] at hx
      have := hother x hx; subst this
      exact ⟨_, rfl, hholds⟩
    · exact ⟨st, h1, h2⟩
  · intro x c' st hx hh
    rw [view_emit, calls_sent] at hx
    rw [view_emit, hholder]
    split at hx
    · rename_i h3
      injection hx with hx; subst hx
      rw [hholds] at hh; injection hh with hh; subst hh
      rw [h3.1]; exact hl
    · exact hi.startedLent x c' st hx hh
  · intro x hx
    rw [view_emit, openFlag_sent] at hx
    rw [view_emit, hholder]
    split at hx
    · simp at hx
    · exact hi.openHeld x hx
  · intro x c' hx hh
    rw [view_emit, openFlag_sent] at hx
    rw [view_emit, hholder] at hh
    rw [view_emit, calls_sent]
    split at hx
    · simp at hx
    · rename_i hne
      have h0 := hi.openConn x c' hx hh
      split
      · rename_i h3; rw [h3.1] at hh; exact absurd (hother x hh) hne
      · exact h0
  · exact hi.full
  · exact hi.closedFlag

theorem stepOk_opened {cfg : Cfg} {m : Mon} {s : St} (sid : Nat) (ok : Bool) (hi : Inv cfg none s)
    (hc : Coupled s m) : StepOk cfg m s (.opened sid ok) (stepSt cfg s (.opened sid ok)) := by
  have h0 : Inv cfg none { s with base := preOp s.base (.opened sid ok) } := inv_preOp_opened hi hc.evs sid ok
  have hm0 : MInv cfg false (!m.closedSeen) none { s with base := preOp s.base (.opened sid ok) } :=
    minv_start h0 hc.evs
  have hnoclose : ∀ r' : St, clClose m (preOp s.base (.opened sid ok)) (.opened sid ok) (obsOf r') = .ok := by
    intro r'; exact clClose_of_not_dead (by simp [deadRelease]) (by simp)
  have hnoop : StepOk cfg m s (.opened sid ok) { s with base := preOp s.base (.opened sid ok) } :=
    ⟨hm0, rfl, rfl, rfl, hnoclose _, Or.inl, clRaise_nil _ hc.evs⟩
  show StepOk cfg m s (.opened sid ok) (openedSt { s with base := preOp s.base (.opened sid ok) } sid)
  unfold openedSt
  cases hk : ({ s with base := preOp s.base (.opened sid ok) } : St).view.sinks[sid]? with
  | none => exact hnoop
  | some k =>
    simp only
    by_cases hop : k.opening = true
    · rw [if_pos hop]
      cases hl : k.lent with
      | none => exact hnoop
      | some c =>
        simp only
        have hflag : openFlag ({ s with base := preOp s.base (.opened sid ok) } : St).view sid = true := by
          simp [openFlag, hk, hop]
        have hhold : holderOf ({ s with base := preOp s.base (.opened sid ok) } : St).view sid = some c := by
          simp [holderOf, hk, hl]
        exact ⟨⟨emit_sent_opened h0 hflag hhold, evOk_emit hm0.ev (evCheck_sent_opened hk hop hl)⟩,
          rfl, rfl, rfl, hnoclose _, Or.inl, clRaise_of_NR _ (NR_emit (NR_of_nil hc.evs) rfl)⟩
    · rw [if_neg hop]; exact hnoop

theorem stepSt_ok {cfg : Cfg} {m : Mon} {s : St} (op : Op) (hi : Inv cfg none s) (hc : Coupled s m)
    (hop : opOk op = true) : StepOk cfg m s op (stepSt cfg s op) := by
  cases op with
  | request ok lat => exact stepOk_request ok lat hi hc
  | opened sid ok => exact stepOk_opened sid ok hi hc
  | respond c => exact stepOk_respond c hi hc
  | timeout c => exact stepOk_timeout c hi hc
  | die sid => exact stepOk_die sid hi hc
  | run => exact stepOk_run hi hc
  | close => exact stepOk_close hi hc
  | openPool ok => exact stepOk_openPool ok hi hc

theorem Verdict.all_ok (l : List Verdict) (h : ∀ v ∈ l, v = .ok) : Verdict.all l = .ok := by
  induction l with
  | nil => rfl
  | cons v l ih =>
    have hv := h v (by simp)
    subst hv
    simp only [Verdict.all]
    exact ih (fun v hv => h v (List.mem_cons_of_mem _ hv))

/-! ## connects in flight: the picture of calls agrees with the environment -/

theorem isOpening_eq (v : View) (sid : Nat) :
    isOpening v sid = (openFlag v sid && (holderOf v sid).isSome) := by
  simp only [isOpening, openFlag, holderOf]; cases v.sinks[sid]? <;> rfl

theorem isBusy_eq (v : View) (sid : Nat) :
    isBusy v sid = ((holderOf v sid).isSome && !openFlag v sid) := by
  simp only [isBusy, openFlag, holderOf]; cases v.sinks[sid]? <;> rfl

/-- only a `connecting` event makes a connection "being opened" -/
theorem isOpening_apply {v : View} {ev : Ev} {x : Nat} (h : isOpening (v.apply ev) x = true) :
    isOpening v x = true ∨ ∃ c, ev = .connecting x c := by
  rw [isOpening_eq] at h ⊢
  cases ev with
  | created sid ok => rw [openFlag_created, holderOf_created] at h; exact Or.inl h
  | closed sid => rw [openFlag_closed, holderOf_closed] at h; exact Or.inl h
  | sent sid c =>
    rw [openFlag_sent, holderOf_sent] at h
    by_cases hx : x = sid
    · simp [hx] at h
    · left; simpa [hx] using h
  | connecting sid c =>
    by_cases hx : x = sid
    · subst hx; exact Or.inr ⟨c, rfl⟩
    · rw [openFlag_connecting, holderOf_connecting] at h; left; simpa [hx] using h
  | queued c => exact Or.inl h
  | rel sid =>
    rw [openFlag_rel, holderOf_rel] at h
    by_cases hx : x = sid
    · simp [hx] at h
    · left; simpa [hx] using h
  | done c o => exact Or.inl h
  | raised w => exact Or.inl h

theorem isOpening_foldl {evs : List Ev} {v : View} {x : Nat}
    (h : isOpening (evs.foldl View.apply v) x = true) :
    isOpening v x = true ∨ ∃ c, Ev.connecting x c ∈ evs := by
  induction evs generalizing v with
  | nil => exact Or.inl h
  | cons ev rest ih =>
    rcases ih h with h1 | ⟨c, hc⟩
    · rcases isOpening_apply h1 with h2 | ⟨c, rfl⟩
      · exact Or.inl h2
      · exact Or.inr ⟨c, by simp⟩
    · exact Or.inr ⟨c, List.mem_cons_of_mem _ hc⟩

theorem mem_foldl_addConn {evs : List Ev} {l : List Nat} {x : Nat} :
    x ∈ evs.foldl addConn l ↔ x ∈ l ∨ ∃ c, Ev.connecting x c ∈ evs := by
  induction evs generalizing l with
  | nil => simp
  | cons ev rest ih =>
    rw [List.foldl_cons, ih]
    cases ev <;> simp [addConn]
    rename_i sid c
    constructor
    · rintro ((h | h) | ⟨c', h⟩)
      · exact Or.inl h
      · exact Or.inr ⟨c, Or.inl ⟨h, rfl⟩⟩
      · exact Or.inr ⟨c', Or.inr h⟩
    · rintro (h | ⟨c', (⟨h, _⟩ | h)⟩)
      · exact Or.inl (Or.inl h)
      · exact Or.inl (Or.inr h)
      · exact Or.inr ⟨c', h⟩

/-- what happens to sinks and calls before the pool's code runs does not touch who holds what -/
theorem isOpening_preOp (v : View) (op : Op) (x : Nat) : isOpening (preOp v op) x = isOpening v x := by
  cases op with
  | die sid =>
    rw [preOp_die_eq, isOpening_eq, isOpening_eq, openFlag_closed, holderOf_closed]
  | opened sid ok =>
    simp only [isOpening, preOp, List.getElem?_modify]
    cases v.sinks[x]? with
    | none => rfl
    | some k => by_cases h1 : sid = x <;> by_cases h2 : k.opening <;> simp [h1, h2]
  | _ => rfl

/-- the end of a connect: the connection is no longer "being opened" — the blocked greenlet has
    pushed the pool's frame and handed the request to it -/
theorem opened_clears (cfg : Cfg) (s : St) (sid : Nat) (ok : Bool) :
    isOpening (stepSt cfg s (.opened sid ok)).view sid = false := by
  show isOpening (openedSt { s with base := preOp s.base (.opened sid ok) } sid).view sid = false
  generalize ({ s with base := preOp s.base (.opened sid ok) } : St) = s'
  unfold openedSt
  cases hk : s'.view.sinks[sid]? with
  | none => simp [isOpening, hk]
  | some k =>
    simp only
    by_cases hop : k.opening = true
    · rw [if_pos hop]
      cases hl : k.lent with
      | none => simp [isOpening, hk, hl]
      | some c =>
        simp only
        rw [view_emit, isOpening_eq, openFlag_sent]; simp
    · rw [if_neg hop]; simp [isOpening, hk, hop]

/-- after one operation of the model, every connection still shown as being opened is in the
    specification's list of pending connects -/
theorem conn_step {cfg : Cfg} {conn : List Nat} {s : St} (op : Op)
    (hconn : ∀ x, isOpening s.base x = true → x ∈ conn)
    (hbase : (stepSt cfg s op).base = preOp s.base op) :
    ∀ x, isOpening (stepSt cfg s op).view x = true → x ∈ connAfter conn op (stepSt cfg s op).evs := by
  intro x hx
  have hx0 := hx
  unfold St.view at hx
  rw [hbase] at hx
  unfold connAfter
  rw [mem_foldl_addConn]
  rcases isOpening_foldl hx with h1 | h1
  · left
    rw [isOpening_preOp] at h1
    have hm := hconn x h1
    cases op with
    | opened sid ok =>
      have hne : x ≠ sid := by
        intro he; subst he
        rw [opened_clears] at hx0; cases hx0
      simp [rmConn, List.mem_filter, hm, hne]
    | _ => exact hm
  · exact Or.inr h1

theorem clLeak_ok {cfg : Cfg} {s : St} {conn : List Nat} (hi : Inv cfg none s)
    (hconn : ∀ x, isOpening s.view x = true → x ∈ conn) : clLeak s.view conn (obsOf s) = .ok := by
  unfold clLeak
  have h1 : (openingIds s.view).filter (fun sid => !conn.contains sid) = [] := by
    rw [List.filter_eq_nil_iff]
    intro a ha
    unfold openingIds at ha
    rw [mem_ids] at ha
    simp [hconn a ha.2]
  have h2 : (aliveIds s.view).filter
      (fun sid => !(isLent s.view sid || (obsOf s).cache.contains sid || (obsOf s).tasks.contains sid)) = [] := by
    rw [List.filter_eq_nil_iff]
    intro a ha
    have hal := (mem_aliveIds (v := s.view)).1 ha
    rcases hi.aliveHeld a hal with h | h
    · rw [← isLent_eq] at h; simp [h]
    · simp only [held, Option.toList, List.append_nil, List.mem_append] at h
      rcases h with h | h <;> simp [obsOf, h]
  rw [h1]; simp only; rw [h2]

/-- the server's answer on a connection that a call holds (started, or zombie) begins with
    `_Release` of that connection -/
theorem answer_rel {cfg : Cfg} {s : St} {c sid : Nat} (hi : Inv cfg none s) (he : s.evs = [])
    (hst : s.base.calls[c]? = some (.started sid) ∨ s.base.calls[c]? = some (.zombie sid)) :
    ∃ tail, (stepSt cfg s (.respond c)).evs = .rel sid :: tail := by
  have hv : s.view = s.base := view_of_nil he
  have hm : MInv cfg false true none s := minv_start hi he
  rcases hst with hst | hst
  · have hst' : s.view.calls[c]? = some (.started sid) := by rw [hv]; exact hst
    have hstat : s.stat c = some (.started sid) := hst'
    have hstep : stepSt cfg s (.respond c) = (release cfg s sid).emit (.done c .reply) := by
      show (match s.stat c with
       | some (.started _) => drainCall cfg s c .reply
       | some (.zombie sid) => release cfg s sid
       | _ => s) = _
      rw [hstat]; simp only [drainCall, hstat]
    obtain ⟨_, _, ⟨tail, a3⟩, _⟩ := drain_started (cfg := cfg) .reply hm he hst'
    exact ⟨tail, by rw [hstep]; exact a3⟩
  · have hst' : s.view.calls[c]? = some (.zombie sid) := by rw [hv]; exact hst
    have hstat : s.stat c = some (.zombie sid) := hst'
    have hstep : stepSt cfg s (.respond c) = release cfg s sid := by
      show (match s.stat c with
       | some (.started _) => drainCall cfg s c .reply
       | some (.zombie sid) => release cfg s sid
       | _ => s) = _
      rw [hstat]
    have hl : holderOf s.view sid = some c := hi.startedLent sid c _ hst' rfl
    obtain ⟨_, _, ⟨tail, a3⟩, _⟩ := release_lent (cfg := cfg) hm he hl
    exact ⟨tail, by rw [hstep]; exact a3⟩

theorem clAnswer_ok {cfg : Cfg} {s : St} (op : Op) (hi : Inv cfg none s) (he : s.evs = []) :
    clAnswer (preOp s.base op) op (obsOf (stepSt cfg s op)) = .ok := by
  cases op with
  | respond c =>
    show clAnswer s.base (.respond c) _ = .ok
    unfold clAnswer
    simp only
    cases hst : s.base.calls[c]? with
    | none => rfl
    | some st =>
      cases st with
      | started sid =>
        obtain ⟨tail, h⟩ := answer_rel (cfg := cfg) hi he (Or.inl hst)
        simp [obsOf, h]
      | zombie sid =>
        obtain ⟨tail, h⟩ := answer_rel (cfg := cfg) hi he (Or.inr hst)
        simp [obsOf, h]
      | _ => rfl
  | _ => rfl

theorem coupled_init : Coupled St.init {} :=
  ⟨rfl, rfl, rfl, fun _ => rfl, rfl, fun x h => by simp [isOpening, St.init] at h⟩

/-- one operation of the model: the invariant is kept, the specification's monitor stays in
    step with the model, and every clause of the specification accepts the observation -/
theorem step_ok {cfg : Cfg} {m : Mon} {s : St} (op : Op) (hi : Inv cfg none s) (hc : Coupled s m)
    (hop : opOk op = true) :
    Inv cfg none (step cfg s op).1 ∧ Coupled (step cfg s op).1 (m.next op (step cfg s op).2) ∧
    m.check cfg op (step cfg s op).2 = .ok := by
  have h := stepSt_ok (cfg := cfg) op hi hc hop
  have hview : (obsOf (stepSt cfg s op)).evs.foldl View.apply (preOp m.view op) = (stepSt cfg s op).view := by
    unfold St.view; rw [hc.view, h.base]; rfl
  have hconn := conn_step (cfg := cfg) op hc.conn h.base
  refine ⟨inv_finish h.minv.inv, ⟨?_, rfl, rfl, ?_, rfl, hconn⟩, ?_⟩
  · show (obsOf (stepSt cfg s op)).evs.foldl View.apply (preOp m.view op) = (stepSt cfg s op).view
    exact hview
  · intro hcs
    have hcs' : (m.closedSeen || (obsOf (stepSt cfg s op)).pstate == 4) = false := hcs
    simp only [Bool.or_eq_false_iff, beq_eq_false_iff_ne, ne_eq] at hcs'
    show (stepSt cfg s op).everClosed = false
    by_contra hne
    have hne' : (stepSt cfg s op).everClosed = true := by simpa using hne
    rcases h.flag hne' with h1 | h1
    · rw [hc.closed hcs'.1] at h1; simp at h1
    · apply hcs'.2; show (stepSt cfg s op).pstate.code = 4; rw [h1]; rfl
  · show Mon.check cfg m op (obsOf (stepSt cfg s op)) = .ok
    unfold Mon.check
    rw [Verdict.and_ok_iff]
    constructor
    · have := h.minv.ev
      unfold EvOk at this
      rw [h.base, ← hc.view] at this
      exact this
    · rw [hview]
      unfold postCheck
      apply Verdict.all_ok
      intro v hv
      simp only [List.mem_cons, List.mem_nil_iff, or_false] at hv
      rcases hv with rfl | rfl | rfl | rfl | rfl | rfl | rfl | rfl | rfl | rfl
      · exact h.surplus
      · exact clQueueBound_ok h.minv.inv
      · rw [hc.view]; exact h.handoff
      · rw [hc.view]; exact h.close
      · exact clSize_ok h.minv.inv
      · exact clLeak_ok h.minv.inv hconn
      · rw [hc.view]; exact clAnswer_ok op hi hc.evs
      · exact clWork_ok h.minv.inv
      · exact clIdle_ok h.minv.inv
      · exact h.raise

/-- the model's state after a list of operations -/
def runOps (cfg : Cfg) (s : St) (ops : List Op) : St := ops.foldl (fun s op => (step cfg s op).1) s

theorem spec_trace {cfg : Cfg} : ∀ (ops : List Op) (s : St) (m : Mon), Inv cfg none s → Coupled s m →
    ops.all opOk = true → specGo cfg m (comp.trace cfg s ops) = .ok ∧
      Inv cfg none (runOps cfg s ops) ∧ (runOps cfg s ops).evs = [] := by
  intro ops
  induction ops with
  | nil => intro s m hi hc _; exact ⟨rfl, hi, hc.evs⟩
  | cons op ops ih =>
    intro s m hi hc hall
    simp only [List.all_cons, Bool.and_eq_true] at hall
    obtain ⟨a1, a2, a3⟩ := step_ok (cfg := cfg) op hi hc hall.1
    obtain ⟨b1, b2, b3⟩ := ih _ _ a1 a2 hall.2
    refine ⟨?_, b2, b3⟩
    show specGo cfg m ((op, (step cfg s op).2) :: comp.trace cfg (step cfg s op).1 ops) = .ok
    simp only [specGo]
    rw [Verdict.and_ok_iff]
    exact ⟨a3, b1⟩

/-- the specification's monitor, run over the model's own history, stays coupled with the model -/
theorem coupled_trace {cfg : Cfg} : ∀ (ops : List Op) (s : St) (m : Mon), Inv cfg none s → Coupled s m →
    Coupled (runOps cfg s ops) (monRun m (comp.trace cfg s ops)) := by
  intro ops
  induction ops with
  | nil => intro s m _ hc; exact hc
  | cons op ops ih =>
    intro s m hi hc
    obtain ⟨a1, a2, _⟩ := step_ok (cfg := cfg) op hi hc rfl
    exact ih _ _ a1 a2

/-- the lent connections are the busy ones (request handed over, not yet released) and the ones
    being opened -/
theorem lentIds_split (v : View) :
    (lentIds v).length = (busyIds v).length + (openingIds v).length := by
  unfold lentIds busyIds openingIds
  rw [List.length_eq_length_filter_add (isBusy v) (l := List.filter (isLent v) (List.range v.sinks.length)),
    List.filter_filter, List.filter_filter]
  have e1 : (List.range v.sinks.length).filter (fun a => isBusy v a && isLent v a) =
      (List.range v.sinks.length).filter (isBusy v) := by
    apply ids_congr; intro i _
    simp only [isBusy, isLent]; cases v.sinks[i]? with
    | none => rfl
    | some k => rcases k with ⟨al, lent, opn⟩; cases lent <;> cases opn <;> rfl
  have e2 : (List.range v.sinks.length).filter (fun a => (!isBusy v a) && isLent v a) =
      (List.range v.sinks.length).filter (isOpening v) := by
    apply ids_congr; intro i _
    simp only [isBusy, isLent, isOpening]; cases v.sinks[i]? with
    | none => rfl
    | some k => rcases k with ⟨al, lent, opn⟩; cases lent <;> cases opn <;> rfl
  rw [e1, e2]

theorem mem_busyIds {v : View} {x : Nat} : x ∈ busyIds v ↔ isBusy v x = true := by
  unfold busyIds
  rw [mem_ids]
  constructor
  · exact fun h => h.2
  · intro h
    refine ⟨?_, h⟩
    by_contra hc
    have : v.sinks[x]? = none := by simp; omega
    simp [isBusy, this] at h

/-- a lent connection is busy or being opened -/
theorem busy_or_opening {v : View} {x : Nat} (h : (holderOf v x).isSome = true) :
    isBusy v x = true ∨ isOpening v x = true := by
  rw [isBusy_eq, isOpening_eq, h]
  cases openFlag v x <;> simp

/-- every call complete: nothing is lent -/
theorem lent_nil_of_allDone {cfg : Cfg} {s : St} {h : Option Nat} (hi : Inv cfg h s)
    (hd : allDone s.view = true) : ∀ x, holderOf s.view x = none := by
  intro x
  cases hh : holderOf s.view x with
  | none => rfl
  | some c =>
    exfalso
    obtain ⟨st, h2, h4⟩ := hi.lentCall x c hh
    have h3 := List.mem_of_getElem? h2
    unfold allDone at hd
    rw [List.all_eq_true] at hd
    have := hd _ h3
    have hst : st = .done := by simpa using this
    subst hst
    simp [CStat.holds] at h4

/-- the end of a connect, seen from a state where `sid` is shown as being opened -/
theorem opened_hands_over {cfg : Cfg} {s : St} {sid : Nat} {ok : Bool} (hi : Inv cfg none s) (he : s.evs = [])
    (ho : sid ∈ openingIds s.base) :
    ∃ c, (step cfg s (.opened sid ok)).2.evs = [.sent sid c] ∧
      ((s.base.calls[c]? = some (.connecting sid) ∧
        (step cfg s (.opened sid ok)).1.base.calls[c]? = some (.started sid)) ∨
       (s.base.calls[c]? = some (.orphan sid) ∧
        (step cfg s (.opened sid ok)).1.base.calls[c]? = some (.zombie sid))) ∧
      sid ∉ openingIds (step cfg s (.opened sid ok)).1.base ∧
      sid ∈ busyIds (step cfg s (.opened sid ok)).1.base ∧
      (step cfg s (.opened sid ok)).1.size = s.size := by
  have hv : s.view = s.base := view_of_nil he
  have hop := mem_openingIds.1 ho
  -- the same facts after `preOp`
  let s' : St := { s with base := preOp s.base (.opened sid ok) }
  have hv' : s'.view = preOp s.base (.opened sid ok) := view_of_nil (s := s') he
  have hop' : isOpening s'.view sid = true := by rw [hv', isOpening_preOp]; exact hop
  have hcalls : s'.view.calls = s.base.calls := by rw [hv']; rfl
  have hstep : stepSt cfg s (.opened sid ok) = openedSt s' sid := rfl
  cases hk : s'.view.sinks[sid]? with
  | none => simp [isOpening, hk] at hop'
  | some k =>
    have hko : k.opening = true ∧ k.lent.isSome = true := by simpa [isOpening, hk] using hop'
    cases hl : k.lent with
    | none => rw [hl] at hko; simp at hko
    | some c =>
      have hres : openedSt s' sid = s'.emit (.sent sid c) := by
        unfold openedSt; rw [hk]; simp only; rw [if_pos hko.1, hl]
      have hflag : openFlag s.view sid = true := by
        rw [hv]; rw [isOpening_eq] at hop; simp only [Bool.and_eq_true] at hop; exact hop.1
      have hhold : holderOf s.view sid = some c := by
        have h1 : holderOf s'.view sid = some c := by simp [holderOf, hk, hl]
        rw [hv'] at h1
        have h2 : holderOf (preOp s.base (.opened sid ok)) sid = holderOf s.base sid := by
          simp only [holderOf, preOp, List.getElem?_modify]
          cases s.base.sinks[sid]? with
          | none => rfl
          | some k' => by_cases h2 : k'.opening <;> simp [h2]
        rw [hv, ← h2]; exact h1
      have hconn := hi.openConn sid c hflag hhold
      rw [hv] at hconn
      refine ⟨c, ?_, ?_, ?_, ?_, ?_⟩
      · show (stepSt cfg s (.opened sid ok)).evs = _
        rw [hstep, hres, emit_evs]; show s.evs ++ _ = _; rw [he]; rfl
      · have hafter : (step cfg s (.opened sid ok)).1.base.calls[c]? =
            (s'.view.apply (.sent sid c)).calls[c]? := by
          show (stepSt cfg s (.opened sid ok)).view.calls[c]? = _
          rw [hstep, hres, view_emit]
        have hclt : c < s.base.calls.length := by
          by_contra h; simp at h; rcases hconn with h1 | h1 <;> simp [List.getElem?_eq_none h] at h1
        rw [hafter, calls_sent, if_pos ⟨rfl, by rw [hcalls]; exact hclt⟩]
        unfold sentStat
        rw [hcalls]
        rcases hconn with h1 | h1
        · left; exact ⟨h1, by rw [h1]⟩
        · right; exact ⟨h1, by rw [h1]⟩
      · intro hm
        have h1 := mem_openingIds.1 hm
        have h2 := opened_clears cfg s sid ok
        have : (step cfg s (.opened sid ok)).1.base = (stepSt cfg s (.opened sid ok)).view := rfl
        rw [this, h2] at h1; cases h1
      · apply mem_busyIds.2
        show isBusy (stepSt cfg s (.opened sid ok)).view sid = true
        rw [hstep, hres, view_emit, isBusy_eq, openFlag_sent, holderOf_sent]
        have hlt : sid < s'.view.sinks.length := by
          by_contra h; simp at h; simp [List.getElem?_eq_none h] at hk
        simp [hlt]
      · show (stepSt cfg s (.opened sid ok)).size = s.size
        rw [hstep, hres]; rfl

/-- the server's answer on a connection held by a zombie call -/
theorem zombie_answer {cfg : Cfg} {s : St} {c sid : Nat} (hi : Inv cfg none s) (he : s.evs = [])
    (hz : s.base.calls[c]? = some (.zombie sid)) :
    (∃ tail, (step cfg s (.respond c)).2.evs = .rel sid :: tail) ∧
    (step cfg s (.respond c)).1.base.calls[c]? = some .done := by
  have hv : s.view = s.base := view_of_nil he
  have hst : s.stat c = some (.zombie sid) := by show s.view.calls[c]? = _; rw [hv]; exact hz
  have hstep : stepSt cfg s (.respond c) = release cfg s sid := by
    show (match s.stat c with
     | some (.started _) => drainCall cfg s c .reply
     | some (.zombie sid) => release cfg s sid
     | _ => s) = _
    rw [hst]
  have hm : MInv cfg false true none s := minv_start hi he
  have hl : holderOf s.view sid = some c := hi.startedLent sid c _ hst rfl
  obtain ⟨a1, a2, ⟨tail, a3⟩, a4, a5, a6, a7, a8⟩ := release_lent (cfg := cfg) hm he hl
  refine ⟨⟨tail, by show (stepSt cfg s (.respond c)).evs = _; rw [hstep]; exact a3⟩, ?_⟩
  show (stepSt cfg s (.respond c)).view.calls[c]? = _
  rw [hstep, a7]
  unfold relStat
  have : s.view.calls[c]? = some (.zombie sid) := hst
  rw [this]

/-- the invariant needs no hypothesis on the operations -/
theorem inv_step {cfg : Cfg} {s : St} (op : Op) (hi : Inv cfg none s) (he : s.evs = []) :
    Inv cfg none (step cfg s op).1 ∧ (step cfg s op).1.evs = [] := by
  refine ⟨?_, rfl⟩
  show Inv cfg none (finish (stepSt cfg s op))
  apply inv_finish
  exact (stepSt_ok (m := ⟨s.base, s.pstate.code, s.tasks, true, openingIds s.base⟩) op hi
    ⟨rfl, rfl, rfl, fun h => by simp at h, he, fun x hx => mem_openingIds.2 hx⟩ rfl).minv.inv

theorem inv_runOps {cfg : Cfg} (ops : List Op) : ∀ s : St, Inv cfg none s → s.evs = [] →
    Inv cfg none (runOps cfg s ops) ∧ (runOps cfg s ops).evs = [] := by
  induction ops with
  | nil => intro s hi he; exact ⟨hi, he⟩
  | cons op ops ih =>
    intro s hi he
    obtain ⟨a1, a2⟩ := inv_step (cfg := cfg) op hi he
    exact ih _ a1 a2

/-! ## statements used by Props/C07.lean -/

/-- a deferred hand-off with somebody waiting starts exactly the oldest waiting call -/
theorem run_handoff {cfg : Cfg} {s : St} {sid c : Nat} {rest : List Nat} (hi : Inv cfg none s)
    (he : s.evs = []) (ht : s.tasks = sid :: rest) (hold : oldestPending s.base = some c) :
    (step cfg s .run).2.evs = [.sent sid c] ∧ (step cfg s .run).1.tasks = rest ∧
    (step cfg s .run).1.base.calls[c]? = some (.started sid) := by
  have hv : s.view = s.base := view_of_nil he
  have hm : MInv cfg true false none s := minv_start hi he
  have hm1 : MInv cfg true false (some sid) { s with tasks := rest } :=
    minv_with (take_task hi ht) hm.ev rfl rfl
  obtain ⟨a1, a2⟩ := procQueue_spec (cfg := cfg) s.waiters { s with tasks := rest } rfl hm1
  have hstep : stepSt cfg s .run = procQueue cfg { s with tasks := rest } sid s.waiters := by
    show (match s.tasks with
      | [] => s
      | sid :: rest => procQueue cfg { s with tasks := rest } sid s.waiters) = _
    rw [ht]
  have hcp : s.base.calls[c]? = some .pending := by
    have : c ∈ pendingIds s.base := by
      unfold oldestPending at hold; exact List.mem_of_mem_head? hold
    exact mem_pendingIds.1 this
  have hclt : c < s.base.calls.length := by
    by_contra h; simp at h; simp [List.getElem?_eq_none h] at hcp
  rcases a2 with ⟨c', b1, b2, b3, b4, b5, b6⟩ | ⟨b1, _⟩
  · have hcc : c' = c := by
      have : oldestPending s.base = some c' := by rw [← hv]; exact b1
      rw [hold] at this; injection this with this; exact this.symm
    subst hcc
    have hevs : (stepSt cfg s .run).evs = [.sent sid c'] := by
      rw [hstep, b2]; show s.evs ++ _ = _; rw [he]; rfl
    refine ⟨hevs, ?_, ?_⟩
    · show (stepSt cfg s .run).tasks = rest
      rw [hstep, b6]
    · show (stepSt cfg s .run).view.calls[c']? = _
      unfold St.view
      rw [hevs, hstep, b5]
      show ((s.base).apply (.sent sid c')).calls[c']? = _
      rw [calls_sent, if_pos ⟨rfl, hclt⟩]; unfold sentStat; rw [hcp]
  · have : c ∈ pendingIds s.base := mem_pendingIds.2 hcp
    have b1' : pendingIds s.view = [] := b1
    rw [← hv, b1'] at this; simp at this

/-- a fresh request is only started at once (given a connection, or allowed to open one) on a
    never-closed pool when nobody is waiting -/
theorem request_no_overtake {cfg : Cfg} {s : St} (ok lat : Bool) {sid : Nat} {st : CStat}
    (hi : Inv cfg none s) (he : s.evs = []) (hnc : s.everClosed = false)
    (hstarted : (step cfg s (.request ok lat)).1.base.calls[s.base.calls.length]? = some st)
    (hholds : st.holds = some sid) :
    pendingIds s.base = [] := by
  have h0 : Inv cfg none { s with base := preOp s.base (.request ok lat) } := inv_preOp_request hi he ok lat
  have hm0 : MInv cfg false false none { s with base := preOp s.base (.request ok lat) } := minv_start h0 he
  have hv : s.view = s.base := view_of_nil he
  have hv0 : ({ s with base := preOp s.base (.request ok lat) } : St).view =
      { s.base with calls := s.base.calls ++ [.arriving] } := view_of_nil (s := { s with base := _ }) he
  have hcarr : ({ s with base := preOp s.base (.request ok lat) } : St).view.calls[s.base.calls.length]? =
      some .arriving := by rw [hv0]; simp
  obtain ⟨g1, g2⟩ := get_spec (cfg := cfg) (lat || ok) hm0
  have hstarted' : (stepSt cfg s (.request ok lat)).view.calls[s.base.calls.length]? = some st :=
    hstarted
  have hstep : stepSt cfg s (.request ok lat) =
    (match get cfg { s with base := preOp s.base (.request ok lat) } (lat || ok) with
     | (s1, .sink sid fresh) =>
       if fresh && lat then s1.emit (.connecting sid s.base.calls.length)
       else s1.emit (.sent sid s.base.calls.length)
     | (s1, .queue) => ({ s1 with waiters := s1.waiters ++ [s.base.calls.length] }).emit (.queued s.base.calls.length)
     | (s1, .fail) => s1.emit (.done s.base.calls.length .maxWaiters)) := rfl
  rw [hstep] at hstarted'
  generalize hget : get cfg { s with base := preOp s.base (.request ok lat) } (lat || ok) = r at g1 g2 hstarted'
  obtain ⟨s1, res⟩ := r
  simp only at g1 g2 hstarted'
  have hcarr1 : s1.view.calls[s.base.calls.length]? = some .arriving := by rw [g1.calls]; exact hcarr
  have hclt : s.base.calls.length < s1.view.calls.length := by
    by_contra h; simp at h; simp [List.getElem?_eq_none h] at hcarr1
  cases res with
  | sink sid' fresh =>
    simp only at g2
    have hw : s1.waiters = [] := g2.2.2 (by rw [g1.everClosed]; exact hnc)
    have hw' : s.waiters = [] := by rw [← hw, g1.waiters]
    rw [← hv]; exact pendingIds_nil_of_waiters_nil hi hw'
  | queue =>
    simp only at hstarted'
    rw [view_emit, view_with, calls_queued, if_pos ⟨rfl, hclt⟩] at hstarted'
    injection hstarted' with hstarted'
    subst hstarted'; simp [CStat.holds] at hholds
  | fail =>
    simp only at hstarted'
    rw [view_emit, calls_done, if_pos ⟨rfl, hclt⟩] at hstarted'
    have hds : doneStat s1.view s.base.calls.length = .done := by unfold doneStat; rw [hcarr1]
    rw [hds] at hstarted'
    injection hstarted' with hstarted'
    subst hstarted'; simp [CStat.holds] at hholds

/-- a release with somebody waiting defers a hand-off of that connection -/
theorem release_defers_handoff {cfg : Cfg} {s : St} {c sid : Nat} (hi : Inv cfg none s) (he : s.evs = [])
    (hst : s.base.calls[c]? = some (.started sid)) (hp : s.pstate ≠ .closed)
    (halive : isAlive s.base sid = true) (hwait : pendingIds s.base ≠ []) :
    (step cfg s (.respond c)).1.tasks = s.tasks ++ [sid] := by
  have hv : s.view = s.base := view_of_nil he
  have hst' : s.stat c = some (.started sid) := by unfold St.stat; rw [hv]; exact hst
  obtain ⟨c', hc'⟩ := List.exists_mem_of_ne_nil _ hwait
  have hw : s.waiters ≠ [] := by
    have := hi.pendW c' (by rw [hv]; exact mem_pendingIds.1 hc')
    exact List.ne_nil_of_mem this
  show (stepSt cfg s (.respond c)).tasks = _
  have h1 : stepSt cfg s (.respond c) = (release cfg s sid).emit (.done c .reply) := by
    show (match s.stat c with
      | some (.started _) => drainCall cfg s c .reply
      | some (.zombie sid) => release cfg s sid
      | _ => s) = _
    rw [hst']
    simp only [drainCall, hst']
  rw [h1, emit_tasks, release_eq]
  unfold releaseBody
  have e1 : (s.emit (.rel sid)).pstate = s.pstate := rfl
  have e2 : (s.emit (.rel sid)).alive sid = true := by
    show isAlive (s.emit (.rel sid)).view sid = true
    rw [view_emit, isAlive_rel, hv]; exact halive
  have e3 : (s.emit (.rel sid)).waiters.isEmpty = false := by
    show s.waiters.isEmpty = false
    cases hws : s.waiters with
    | nil => exact absurd hws hw
    | cons x xs => rfl
  rw [if_neg (by rw [e1]; exact hp), if_neg (by rw [e2]; simp), if_pos e3]
  rfl

/-- `_ProcessQueue` over waiters whose first entries have already been completed -/
theorem procQueue_skip (cfg : Cfg) (sid c : Nat) (w2 : List Nat) :
    ∀ (w1 : List Nat) (s : St), (∀ x ∈ w1, s.stat x ≠ some .pending) → s.stat c = some .pending →
      procQueue cfg s sid (w1 ++ c :: w2) = ({ s with waiters := w2 }).emit (.sent sid c) := by
  intro w1
  induction w1 with
  | nil =>
    intro s _ hc
    simp only [List.nil_append]
    unfold procQueue
    rw [if_pos hc]
  | cons x w1 ih =>
    intro s hx hc
    simp only [List.cons_append]
    unfold procQueue
    rw [if_neg (hx x (by simp))]
    rw [ih { s with waiters := w1 ++ c :: w2 } (fun y hy => hx y (List.mem_cons_of_mem _ hy)) hc]

theorem procQueue_skip_all (cfg : Cfg) (sid : Nat) :
    ∀ (w1 : List Nat) (s : St), s.waiters = w1 → (∀ x ∈ w1, s.stat x ≠ some .pending) →
      ∃ s', s'.base = s.base ∧ s'.evs = s.evs ∧ s'.waiters = [] ∧ s'.cache = s.cache ∧ s'.tasks = s.tasks ∧
        s'.size = s.size ∧ s'.pstate = s.pstate ∧
        procQueue cfg s sid w1 = release cfg s' sid := by
  intro w1
  induction w1 with
  | nil =>
    intro s hw _
    exact ⟨s, rfl, rfl, hw, rfl, rfl, rfl, rfl, rfl⟩
  | cons x w1 ih =>
    intro s hw hx
    unfold procQueue
    rw [if_neg (hx x (by simp))]
    obtain ⟨s', a1, a2, a3, a4, a5, a6, a7, a8⟩ :=
      ih { s with waiters := w1 } rfl (fun y hy => hx y (List.mem_cons_of_mem _ hy))
    exact ⟨s', a1, a2, a3, a4, a5, a6, a7, a8⟩

/-- quiescent and somebody waiting: no live connection sits idle -/
theorem work_quiescent {cfg : Cfg} {s : St} (hi : Inv cfg none s) (ht : s.tasks = [])
    (hp : pendingIds s.view ≠ []) : idleIds s.view = [] := by
  have h := clWork_ok hi
  unfold clWork at h
  by_contra hne
  rw [if_pos] at h
  · cases h
  · simp only [obsOf, Bool.and_eq_true, Bool.not_eq_true', List.isEmpty_eq_false_iff]
    exact ⟨⟨by simp [ht], hp⟩, hne⟩

/-- traffic stopped: at most `min_watermark` connections are alive -/
theorem idle_retains {cfg : Cfg} {s : St} (hi : Inv cfg none s) (ht : s.tasks = [])
    (hd : allDone s.view = true) : (aliveIds s.view).length ≤ cfg.min := by
  have h := clIdle_ok hi
  unfold clIdle at h
  by_contra hne
  rw [if_pos] at h
  · cases h
  · simp only [obsOf, Bool.and_eq_true, decide_eq_true_eq]
    exact ⟨⟨by simp [ht], hd⟩, by omega⟩

theorem doneCount_pos_of_mem {c : Nat} {out : Outcome} {evs : List Ev} (h : Ev.done c out ∈ evs) :
    1 ≤ doneCount c evs := by
  unfold doneCount
  apply List.countP_pos_iff.2
  exact ⟨_, h, by simp [isDoneEv]⟩

/-- `Close()`: every waiting call receives exactly one response, ServiceClosed -/
theorem close_once {cfg : Cfg} {s : St} (hi : Inv cfg none s) (he : s.evs = []) {c : Nat}
    (hc : s.base.calls[c]? = some .pending) :
    (step cfg s .close).1.pstate = .closed ∧
    Ev.done c .serviceClosed ∈ (step cfg s .close).2.evs ∧
    doneCount c (step cfg s .close).2.evs = 1 ∧
    (step cfg s .close).1.base.calls[c]? = some .done := by
  have hv : s.view = s.base := view_of_nil he
  have hm : MInv cfg false false none s := minv_start hi he
  obtain ⟨a1, a2, a3, a4, a5, a6, a7, a8, a9⟩ := closePool_spec (set_closed hi) hm.ev
  have hmem := a9 c (by rw [hv]; exact hc)
  have hpot := a2.pot c
  have hpot0 : pot s c = 1 := by
    unfold pot doneCount; rw [he, hv, hc]; simp
  have hge := doneCount_pos_of_mem hmem
  have hcnt : doneCount c (closePool s).evs = 1 ∧ (closePool s).view.calls[c]? ≠ some .pending := by
    rw [hpot0] at hpot
    unfold pot at hpot
    by_cases hp : (closePool s).view.calls[c]? = some .pending
    · rw [if_pos hp] at hpot; omega
    · rw [if_neg hp] at hpot; exact ⟨by omega, hp⟩
  refine ⟨a7, hmem, hcnt.1, ?_⟩
  show (closePool s).view.calls[c]? = some .done
  have hw : c ∈ (closePool s).waiters := by rw [a5]; exact hi.pendW c (by rw [hv]; exact hc)
  rcases a1.inv.wStat c hw with h | h
  · exact absurd h hcnt.2
  · exact h

/-- a dead connection found on release closes the pool; every waiting call receives exactly
    one response, ServiceClosed -/
theorem dead_release_once {cfg : Cfg} {s : St} (hi : Inv cfg none s) (he : s.evs = []) {c0 sid c : Nat}
    (hst : s.base.calls[c0]? = some (.started sid)) (hp : s.pstate ≠ .closed)
    (hdead : isAlive s.base sid = false) (hc : s.base.calls[c]? = some .pending) :
    (step cfg s (.respond c0)).1.pstate = .closed ∧
    Ev.done c .serviceClosed ∈ (step cfg s (.respond c0)).2.evs ∧
    doneCount c (step cfg s (.respond c0)).2.evs = 1 := by
  have hv : s.view = s.base := view_of_nil he
  have hst' : s.view.calls[c0]? = some (.started sid) := by rw [hv]; exact hst
  have hst'' : s.stat c0 = some (.started sid) := hst'
  have hm : MInv cfg false false none s := minv_start hi he
  obtain ⟨a1, a2, a3, a4, a5, a6, _⟩ := drain_started (cfg := cfg) .reply hm he hst'
  have h1 : stepSt cfg s (.respond c0) = (release cfg s sid).emit (.done c0 .reply) := by
    show (match s.stat c0 with
      | some (.started _) => drainCall cfg s c0 .reply
      | some (.zombie sid) => release cfg s sid
      | _ => s) = _
    rw [hst'']
    simp only [drainCall, hst'']
  have hne : c ≠ c0 := by
    intro h; subst h; rw [hst] at hc; simp at hc
  obtain ⟨b1, b2⟩ := a4 hp (by rw [hv]; exact hdead)
  have hmem := b2 c (by rw [hv]; exact hc)
  have hpot := a6 c hne
  have hpot0 : pot s c = 1 := by
    unfold pot doneCount; rw [he, hv, hc]; simp
  have hge := doneCount_pos_of_mem hmem
  show (stepSt cfg s (.respond c0)).pstate = .closed ∧ _ ∈ (stepSt cfg s (.respond c0)).evs ∧
    doneCount c (stepSt cfg s (.respond c0)).evs = 1
  rw [h1]
  refine ⟨b1, hmem, ?_⟩
  rw [hpot0] at hpot
  unfold pot at hpot
  split at hpot <;> omega

end Scales.Watermark
