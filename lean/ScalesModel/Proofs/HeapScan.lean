import ScalesModel.Proofs.HeapBook
import Mathlib.Data.List.Sublists

/-! The down-list scan of `__Get`: it keeps everything but the down conjuncts of `Inv`, drops
    discarded and resurrected nodes, and leaves only non-Open heap nodes listed. -/
namespace Scales.Heap

/-- `Inv` without the down list -/
structure Core (s : HS) : Prop where
  wf : WF s
  ord : Ord (L s) s.size
  book : Book s
  srv : SrvOk s

theorem Inv.core {s : HS} (h : Inv s) : Core s := ⟨h.wf, h.ord, h.book, h.srv⟩

/-- what `__Get` leaves alone: everything but the loads and positions of heap nodes, and the down list -/
structure GFrame (s s' : HS) : Prop where
  size : s'.size = s.size
  len : s'.nodes.length = s.nodes.length
  reqs : s'.reqs = s.reqs
  servers : s'.servers = s.servers
  fields : ∀ id, (s'.node id).ep = (s.node id).ep ∧ (s'.node id).chan = (s.node id).chan ∧
    (s'.node id).closed = (s.node id).closed
  inHeap : ∀ id, InHeap s' id ↔ InHeap s id
  offLoad : ∀ id, ¬ InHeap s id → (s'.node id).load = (s.node id).load

theorem GFrame.refl (s : HS) : GFrame s s :=
  ⟨rfl, rfl, rfl, rfl, fun _ => ⟨rfl, rfl, rfl⟩, fun _ => Iff.rfl, fun _ _ => rfl⟩

theorem GFrame.trans {a b c : HS} (h1 : GFrame a b) (h2 : GFrame b c) : GFrame a c := by
  refine ⟨h2.size.trans h1.size, h2.len.trans h1.len, h2.reqs.trans h1.reqs, h2.servers.trans h1.servers, ?_,
    fun id => (h2.inHeap id).trans (h1.inHeap id), ?_⟩
  · intro id
    obtain ⟨a1, a2, a3⟩ := h1.fields id
    obtain ⟨b1, b2, b3⟩ := h2.fields id
    exact ⟨b1.trans a1, b2.trans a2, b3.trans a3⟩
  · intro id hn
    rw [h2.offLoad id (fun h => hn ((h1.inHeap id).mp h)), h1.offLoad id hn]

theorem Frame.toG {s s' : HS} (f : Frame s s') : GFrame s s' :=
  ⟨f.size, f.len, f.reqs, f.servers, fun id => ⟨(f.fields id).2.1, (f.fields id).2.2.1, (f.fields id).2.2.2⟩,
    f.inHeap, fun id _ => (f.fields id).1⟩

theorem GFrame.ofSetLoad (s : HS) (id : Nat) (v : Int) (h : InHeap s id) : GFrame s (s.setLoad id v) := by
  refine ⟨rfl, by simp, rfl, rfl, ?_, by simp, ?_⟩
  · intro id'
    obtain ⟨_, a, b, c, _⟩ := setLoad_node s id id' v
    exact ⟨a, b, c⟩
  · intro id' hn
    rw [(setLoad_node s id id' v).1]
    have : ¬ id' = id := fun e => hn (e ▸ h)
    simp [this]

theorem GFrame.ofSameStore {s t : HS} (e : SameStore s t) (hr : t.reqs = s.reqs) (hs : t.servers = s.servers) :
    GFrame s t :=
  ⟨e.size, e.len, hr, hs, fun id => by rw [e.node]; exact ⟨rfl, rfl, rfl⟩, e.inHeap, fun id _ => by rw [e.node]⟩

theorem GFrame.outOf {s s' : HS} (f : GFrame s s') (id : Nat) : outOf s' id = outOf s id := by
  unfold Scales.Heap.outOf; rw [f.reqs]

theorem Core.sameStore {s t : HS} (c : Core s) (e : SameStore s t) (hr : t.reqs = s.reqs)
    (hs : t.servers = s.servers) : Core t := by
  refine ⟨e.wf c.wf, by rw [e.L_eq, e.size]; exact c.ord, c.book.sameStore e hr, ?_⟩
  exact c.srv.update e.inHeap (fun id => by rw [e.node]) hs

/-! ### one resurrection -/

theorem Idle_Penalty (x : Int) : x - Penalty = Idle + x := by unfold Idle Penalty; omega

theorem resurrect_spec (s : HS) (c : Core s) (nid : Nat) (hin : InHeap s nid) (hpen : (s.node nid).load ≥ 0) :
    Core ((s.setLoad nid ((s.node nid).load - Penalty)).fixUp (pos s nid)) ∧
    GFrame s ((s.setLoad nid ((s.node nid).load - Penalty)).fixUp (pos s nid)) ∧
    ((s.setLoad nid ((s.node nid).load - Penalty)).fixUp (pos s nid)).down = s.down ∧
    (∀ id, (((s.setLoad nid ((s.node nid).load - Penalty)).fixUp (pos s nid)).node id).load =
      if id = nid then (s.node nid).load - Penalty else (s.node id).load) ∧
    (s.node nid).load - Penalty < 0 := by
  have hl := inHeap_lt s c.wf nid hin
  obtain ⟨a1, a2, a3, a4⟩ := c.book.pen_iff nid hl
  have hv : (s.node nid).load - Penalty ≤ (s.node nid).load := by unfold Penalty; omega
  obtain ⟨w, f, o⟩ := shrink_spec s c.wf c.ord nid hin _ hv
  have hf1 := setLoad_node s nid
  have hb1 : Book (s.setLoad nid ((s.node nid).load - Penalty)) := by
    apply c.book.update nid (by simp) (by simp) (fun id => (hf1 id _).2.1)
    · intro id hne
      refine ⟨?_, (hf1 id _).2.2.2.1, rfl⟩
      rw [(hf1 id _).1]; simp [hne]
    · right
      rw [(hf1 nid _).1]
      simp only [hl, and_self, if_true]
      have : outOf (s.setLoad nid ((s.node nid).load - Penalty)) nid = outOf s nid := rfl
      rw [this, Idle_Penalty, a1.mp hpen]
    · exact c.book.bound
    · exact c.book.reqsOk
    · intro _; rw [(hf1 nid _).2.2.2.1]; exact c.book.closedIn nid hin
    · intro hn; exact absurd hin hn
  have hs1 : SrvOk (s.setLoad nid ((s.node nid).load - Penalty)) :=
    c.srv.update (by simp) (fun id => (hf1 id _).2.1) rfl
  refine ⟨⟨w, by rw [f.size, setLoad_size]; exact o, hb1.frame f, hs1.frame f⟩,
    (GFrame.ofSetLoad s nid _ hin).trans f.toG, by rw [f.down]; rfl, ?_, by omega⟩
  intro id
  rw [(f.fields id).1, (hf1 id _).1]
  simp [hl]

/-! ### the scan -/

theorem scan_cons (s : HS) (nid : Nat) (rest : List Nat) : s.scan (nid :: rest) =
    if (s.node nid).index < 0 then s.scan rest
    else if (s.node nid).chan = chOpen then
      ((s.setLoad nid ((s.node nid).load - Penalty)).fixUp (pos s nid)).scan rest
    else ((s.scan rest).1, nid :: (s.scan rest).2) := by
  rw [HS.scan]
  split
  · rfl
  · split
    · have : pos s nid = ((s.setNode nid { s.node nid with load := (s.node nid).load - Penalty }).node nid).index.toNat := by
        have := setLoad_pos s nid nid ((s.node nid).load - Penalty)
        exact this.symm
      rw [this]; rfl
    · rfl

theorem scan_spec (d : List Nat) : ∀ (s : HS), Core s →
    (∀ id ∈ d, id < s.nodes.length ∧ (s.node id).load ≥ 0) → d.Nodup →
    Core (s.scan d).1 ∧ GFrame s (s.scan d).1 ∧ (s.scan d).1.down = s.down ∧
    (s.scan d).2.Sublist d ∧
    (∀ id, id ∉ d → ((s.scan d).1.node id).load = (s.node id).load) ∧
    (∀ id ∈ (s.scan d).2, ((s.scan d).1.node id).load = (s.node id).load ∧ InHeap s id ∧
      (s.node id).chan ≠ chOpen) ∧
    (∀ id ∈ d, id ∉ (s.scan d).2 → InHeap s id →
      ((s.scan d).1.node id).load < 0 ∧ (s.node id).chan = chOpen) := by
  induction d with
  | nil =>
    intro s c _ _
    refine ⟨c, GFrame.refl s, rfl, List.Sublist.refl _, fun _ _ => rfl, ?_, ?_⟩
    · intro id h; simp [HS.scan] at h
    · intro id h; simp at h
  | cons nid rest ih =>
    intro s c hp hnd
    have hnd' : rest.Nodup := (List.nodup_cons.mp hnd).2
    have hnotin : nid ∉ rest := (List.nodup_cons.mp hnd).1
    obtain ⟨hl, hpen⟩ := hp nid (by simp)
    rw [scan_cons]
    by_cases h1 : (s.node nid).index < 0
    · rw [if_pos h1]
      obtain ⟨r1, r2, r3, r4, r5, r6, r7⟩ := ih s c (fun id h => hp id (by simp [h])) hnd'
      refine ⟨r1, r2, r3, r4.cons _, fun id h => r5 id (by simp at h; exact h.2), r6, ?_⟩
      intro id hid hnk hin
      rcases List.mem_cons.mp hid with e | e
      · subst e
        have := index_of_inHeap s c.wf id hin
        omega
      · exact r7 id e hnk hin
    · rw [if_neg h1]
      have hin : InHeap s nid := inHeap_of_index s c.wf nid hl (by omega)
      by_cases h2 : (s.node nid).chan = chOpen
      · rw [if_pos h2]
        obtain ⟨c2, g2, d2, l2, hneg⟩ := resurrect_spec s c nid hin hpen
        generalize (s.setLoad nid ((s.node nid).load - Penalty)).fixUp (pos s nid) = s2 at *
        have hp2 : ∀ id ∈ rest, id < s2.nodes.length ∧ (s2.node id).load ≥ 0 := by
          intro id h
          obtain ⟨x1, x2⟩ := hp id (by simp [h])
          have : ¬ id = nid := fun e => hnotin (e ▸ h)
          rw [l2, g2.len]
          simp only [this, if_false]
          exact ⟨x1, x2⟩
        obtain ⟨r1, r2, r3, r4, r5, r6, r7⟩ := ih s2 c2 hp2 hnd'
        refine ⟨r1, g2.trans r2, r3.trans d2, r4.cons _, ?_, ?_, ?_⟩
        · intro id h
          simp only [List.mem_cons, not_or] at h
          rw [r5 id h.2, l2]
          simp [h.1]
        · intro id h
          obtain ⟨x1, x2, x3⟩ := r6 id h
          have hne : ¬ id = nid := fun e => hnotin (e ▸ r4.subset h)
          rw [l2] at x1
          simp only [hne, if_false] at x1
          exact ⟨x1, (g2.inHeap id).mp x2, by rw [← (g2.fields id).2.1]; exact x3⟩
        · intro id hid hnk hin'
          rcases List.mem_cons.mp hid with e | e
          · subst e
            rw [r5 id hnotin, l2]
            simp only [if_true]
            exact ⟨hneg, h2⟩
          · obtain ⟨x1, x2⟩ := r7 id e hnk ((g2.inHeap id).mpr hin')
            exact ⟨x1, by rw [← (g2.fields id).2.1]; exact x2⟩
      · rw [if_neg h2]
        obtain ⟨r1, r2, r3, r4, r5, r6, r7⟩ := ih s c (fun id h => hp id (by simp [h])) hnd'
        refine ⟨r1, r2, r3, r4.cons₂ _, fun id h => r5 id (by simp at h; exact h.2), ?_, ?_⟩
        · intro id h
          rcases List.mem_cons.mp h with e | e
          · subst e
            exact ⟨r5 id hnotin, hin, h2⟩
          · exact r6 id e
        · intro id hid hnk hin'
          simp only [List.mem_cons, not_or] at hnk
          rcases List.mem_cons.mp hid with e | e
          · exact absurd e hnk.1
          · exact r7 id e hnk.2 hin'

end Scales.Heap
