/-
  Proofs/ResMuxSpec.lean — the executable specification of C09 for the ThriftMux chain
  (Adapter/ResMux.lean) accepts the history of the chain model: coupling between the model state
  and the state of the specification's automaton, kept by every operation.
-/
import ScalesModel.Proofs.ResMuxInv
set_option linter.unusedSimpArgs false
set_option linter.unusedVariables false
namespace Scales.ResMux
open Scales.Transport
open Scales.MuxT
open Scales.Res (Par nextWait Grows)

/-- the specification's automaton and the model agree (before `Close()`) -/
structure Cpl (p : P) (s : St) (a : MS) : Prop where
  now : a.now = s.now
  reach : a.reach = s.reach
  ncl : a.closed = false
  nbl : a.blind = false
  down : a.down = s.down
  conn : a.conn = connOf s.tr
  body : a.conn ≠ .none → a.atBody = isBody s.tr.rl
  alive : connOf s.tr ≠ .none → s.sub = true ∨ ∃ w, s.rg = .opening w
  slp : ∀ wk w, s.rg = .sleep wk w →
    wk = a.lastEnd + w ∧ ∀ q, a.lastDelay = some q → w = nextWait p.r q ∧ q ≤ p.r.maxW
  opg : ∀ w, s.rg = .opening w → a.lastDelay = some w

theorem isBody_rlOf (b : Bool) : isBody (rlOf b) = b := by cases b <;> rfl

/-- what a step of the transport means for the specification's automaton: the connection it
    ends with, and where its receive loop stands -/
def specAfter (a : MS) (c' : CP) (ab' : Bool) : MS :=
  if c' = .none then (if a.conn = .none then a else lost a)
  else if a.conn = .hs ∧ c' = .up then { a with atBody := ab', conn := .up, down := false, lastDelay := none }
  else { a with atBody := ab' }

theorem specAfter_same (a : MS) (c' : CP) (ab' : Bool) (h1 : c' = a.conn) (h2 : a.conn ≠ .none → ab' = a.atBody) :
    specAfter a c' ab' = a := by
  unfold specAfter
  by_cases hn : a.conn = .none
  · simp [h1, hn]
  · have hne : c' ≠ .none := by rw [h1]; exact hn
    rw [if_neg hne]
    have hnu : ¬(a.conn = .hs ∧ c' = .up) := by
      intro hx; rw [h1, hx.1] at hx; cases hx.2
    rw [if_neg hnu, h2 hn]

theorem liveStep_eq (a : MS) (t : MuxT.St) (ht : TInv t) (h : a.conn = connOf t) : liveStep a (live t) = a := by
  unfold liveStep
  rw [live_eq ht]
  by_cases hn : connOf t = .none
  · simp [h, hn]
  · simp [hn]

/-- the coupling through `absorb` -/
theorem absorb_cpl (p : P) (hp : PH p) (b : Bool) (s : St) (t' : MuxT.St) (o : MuxT.Out) (a : MS)
    (hc : CInv p b s) (h : Cpl p s a) (hs : TStep s.tr t' o)
    (hclf : s.tr.cstate ≠ .closed → t'.cstate = .closed → 0 < o.eff.faults) :
    Cpl p (absorb p s t' o).1 (specAfter a (connOf t') (isBody t'.rl)) := by
  obtain ⟨f1, f2, f3, f4, f5, f6, f7, f8, f9, f10, f11, f12, f13⟩ := settle_facts p s t' hs.inv
  have fc : connOf (settle p s t').1.tr = connOf t' := connOf_congr f2 f3
  have hnow := h.now
  unfold absorb
  simp only
  generalize (settle p s t').1 = x at *
  rcases tstep_conn hc.tr hs with e | ⟨e1, e2⟩ | ⟨e1, e2⟩ | ⟨e1, e2⟩
  · -- the connection is as it was
    by_cases hn : connOf s.tr = .none
    · -- there is none: nothing is subscribed, nothing is being opened
      have hsub : s.sub = false := by
        cases hx : s.sub with
        | false => rfl
        | true => exact absurd hn (hc.sb hx).2
      have hnopen : ∀ w, s.rg ≠ .opening w := by
        intro w hx; exact absurd (connOf_opening hc.tr (hc.og w hx).1) (by rw [hn]; simp)
      have hr : react p x o.eff.faults = x := by simp [react, f10, hsub]
      have hrs : resume p x t'.openRes = x := by
        unfold resume; rw [f12]
        cases hrg : s.rg with
        | opening w => exact absurd hrg (hnopen w)
        | none => rfl
        | sleep wk w => rfl
      rw [hr, hrs]
      have hsa : specAfter a (connOf t') (isBody t'.rl) = a := by
        apply specAfter_same
        · rw [e, h.conn]
        · intro hx; rw [h.conn] at hx; exact absurd hn hx
      rw [hsa]
      refine ⟨by rw [f6]; exact h.now, by rw [f7]; exact h.reach, h.ncl, h.nbl, by rw [f11]; exact h.down,
        by rw [fc, e]; exact h.conn, ?_, ?_, ?_, ?_⟩
      · intro hx; rw [h.conn] at hx; exact absurd hn hx
      · intro hx; rw [fc, e] at hx; exact absurd hn hx
      · intro wk w hx; rw [f12] at hx; exact h.slp wk w hx
      · intro w hx; rw [f12] at hx; exact h.opg w hx
    · -- there is one, and it lives on: no fault signal, no open result
      have hncl : t'.cstate ≠ .closed := by
        intro hx; apply hn; rw [← e]; exact connOf_closed hs.inv hx
      have hf : ¬(0 < o.eff.faults) := fun hx => hncl (hs.fcl hx).1
      have hr : react p x o.eff.faults = x := by simp [react, hf]
      have hrs : resume p x t'.openRes = x := by
        unfold resume; rw [f12]
        cases hrg : s.rg with
        | none => rfl
        | sleep wk w => rfl
        | opening w =>
          have ho := (hc.og w hrg).1
          have hcs := (hc.tr.core.opg ho).1
          have ho' : t'.opening = true := by
            have : connOf t' = .hs := by rw [e]; exact connOf_opening hc.tr ho
            exact connOf_hs this
          have := (hs.inv.core.opg ho').2.1
          simp [this]
      rw [hr, hrs]
      have hsa : specAfter a (connOf t') (isBody t'.rl) = { a with atBody := isBody t'.rl } := by
        unfold specAfter
        have h1 : connOf t' ≠ .none := by rw [e]; exact hn
        have h2 : ¬(a.conn = .hs ∧ connOf t' = .up) := by
          intro hx; rw [e, ← h.conn, hx.1] at hx; cases hx.2
        rw [if_neg h1, if_neg h2]
      rw [hsa]
      refine ⟨by rw [f6]; exact h.now, by rw [f7]; exact h.reach, h.ncl, h.nbl, by rw [f11]; exact h.down,
        by rw [fc, e]; exact h.conn, ?_, ?_, ?_, ?_⟩
      · intro _; show isBody t'.rl = isBody x.tr.rl; rw [f4]
      · intro _; rw [f10, f12]; exact h.alive hn
      · intro wk w hx; rw [f12] at hx; exact h.slp wk w hx
      · intro w hx; rw [f12] at hx; exact h.opg w hx
  · -- the handshake was answered
    have ho := connOf_hs e1
    have hop := connOf_up e2
    have hf : ¬(0 < o.eff.faults) := fun hx => by have := (hs.fcl hx).1; rw [hop] at this; cases this
    have hr : react p x o.eff.faults = x := by simp [react, hf]
    rw [hr]
    have hsa : specAfter a (connOf t') (isBody t'.rl) =
        { a with atBody := isBody t'.rl, conn := .up, down := false, lastDelay := none } := by
      unfold specAfter
      rw [e2]
      simp [h.conn, e1]
    rw [hsa]
    have hok : t'.openRes = .ok := (hs.inv.core.opn hop).2.1
    rcases h.alive (by rw [e1]; simp) with hsub | ⟨w, hrg⟩
    · -- the first open: the transport is installed already
      have hdn : s.down = false := by
        cases hd : s.down with
        | false => rfl
        | true => have := (hc.dn hd).2.1; rw [hsub] at this; cases this
      have hrg : s.rg = .none := hc.up hdn
      have hrs : resume p x t'.openRes = x := by unfold resume; rw [f12, hrg]
      rw [hrs]
      refine ⟨by rw [f6]; exact h.now, by rw [f7]; exact h.reach, h.ncl, h.nbl, by rw [f11, hdn],
        by rw [fc, e2], ?_, ?_, ?_, ?_⟩
      · intro _; show isBody t'.rl = isBody x.tr.rl; rw [f4]
      · intro _; left; rw [f10]; exact hsub
      · intro wk w hx; rw [f12, hrg] at hx; cases hx
      · intro w hx; rw [f12, hrg] at hx; cases hx
    · -- a reconnection: install
      have hdn : s.down = true := by
        cases hd : s.down with
        | true => rfl
        | false => have := hc.up hd; rw [hrg] at this; cases this
      have hrs : resume p x t'.openRes = { x with inst := true, sub := true, down := false, rg := .none } := by
        unfold resume; rw [f12, hrg]; simp [hok, resSuccess, f11, hdn]
      rw [hrs]
      refine ⟨by show a.now = x.now; rw [f6]; exact h.now, by show a.reach = x.reach; rw [f7]; exact h.reach,
        h.ncl, h.nbl, rfl, by show CP.up = connOf x.tr; rw [fc, e2], ?_, ?_, ?_, ?_⟩
      · intro _; show isBody t'.rl = isBody x.tr.rl; rw [f4]
      · intro _; left; rfl
      · intro wk w hx; cases hx
      · intro w hx; cases hx
  · -- the connection ended
    have hcl : t'.cstate = .closed := by
      rcases hs.st with e | ⟨_, e⟩ | ⟨_, e⟩
      · exfalso
        -- same state and no connection any more: it was idle and opening, and would still be
        obtain ⟨h1, h2⟩ := connOf_none e2
        cases hcs : s.tr.cstate with
        | closed => exact e1 (connOf_closed hc.tr hcs)
        | opened => exact h1 (by rw [e, hcs])
        | idle =>
          have ho : s.tr.opening = true := by
            cases hx : s.tr.opening with
            | true => rfl
            | false => exfalso; apply e1; simp [connOf, hcs, hx]
          have := hs.keep ho (by rw [e, hcs])
          rw [h2] at this; cases this
      · rw [connOf_opened e] at e2; cases e2
      · exact e
    have hne : s.tr.cstate ≠ .closed := fun hx => e1 (connOf_closed hc.tr hx)
    have hf : 0 < o.eff.faults := hclf hne hcl
    have hsa : specAfter a (connOf t') (isBody t'.rl) = lost a := by
      unfold specAfter
      rw [e2]
      simp [h.conn, e1]
    rw [hsa]
    rcases h.alive e1 with hsub | ⟨w, hrg⟩
    · -- it was the installed one: fail-fast mode
      have hdn : s.down = false := by
        cases hd : s.down with
        | false => rfl
        | true => have := (hc.dn hd).2.1; rw [hsub] at this; cases this
      have hr : react p x o.eff.faults =
          { x with down := true, inst := false, sub := false,
                   rg := .sleep (x.now + p.r.init) p.r.init, ups := x.ups + 1 } := by
        simp [react, hf, f10, hsub, onFault, f11, hdn]
      rw [hr]
      simp only [resume]
      refine ⟨by show a.now = x.now; rw [f6]; exact h.now, by show a.reach = x.reach; rw [f7]; exact h.reach,
        h.ncl, h.nbl, rfl, by show CP.none = connOf x.tr; rw [fc, e2], ?_, ?_, ?_, ?_⟩
      · intro hx; simp [lost] at hx
      · intro hx; exfalso; apply hx; show connOf x.tr = CP.none; rw [fc, e2]
      · intro wk w hx
        change RG.sleep _ _ = RG.sleep wk w at hx
        injection hx with h1 h2
        subst h1; subst h2
        refine ⟨by show x.now + p.r.init = a.now + p.r.init; rw [f6, h.now], ?_⟩
        intro q hq
        simp [lost, h.down, hdn] at hq
      · intro w hx; cases hx
    · -- it was a reconnection's: back off
      obtain ⟨o1, o2, o3⟩ := hc.og w hrg
      have hdn : s.down = true := by
        cases hd : s.down with
        | true => rfl
        | false => have := hc.up hd; rw [hrg] at this; cases this
      obtain ⟨hin, hsub, _⟩ := hc.dn hdn
      have hr : react p x o.eff.faults = x := by simp [react, f10, hsub]
      have hfl : t'.openRes = .failed := hs.fail o1 hcl
      have hrs : resume p x t'.openRes =
          { x with rg := .sleep (x.now + nextWait p.r w) (nextWait p.r w) } := by
        unfold resume; rw [f12, hrg]; simp [hfl, resFailure]
      rw [hr, hrs]
      refine ⟨by show a.now = x.now; rw [f6]; exact h.now, by show a.reach = x.reach; rw [f7]; exact h.reach,
        h.ncl, h.nbl, by show true = x.down; rw [f11, hdn], by show CP.none = connOf x.tr; rw [fc, e2],
        ?_, ?_, ?_, ?_⟩
      · intro hx; simp [lost] at hx
      · intro hx; exfalso; apply hx; show connOf x.tr = CP.none; rw [fc, e2]
      · intro wk' w' hx
        change RG.sleep _ _ = RG.sleep wk' w' at hx
        injection hx with h1 h2
        subst h1; subst h2
        refine ⟨by show x.now + nextWait p.r w = a.now + nextWait p.r w; rw [f6, h.now], ?_⟩
        intro q hq
        have : a.lastDelay = some q := by simpa [lost, h.down, hdn] using hq
        rw [h.opg w hrg] at this
        injection this with this
        subst this
        exact ⟨rfl, o3⟩
      · intro w' hx; cases hx
  · -- there was none and there is none
    have hsub : s.sub = false := by
      cases hx : s.sub with
      | false => rfl
      | true => exact absurd e1 (hc.sb hx).2
    have hnopen : ∀ w, s.rg ≠ .opening w := by
      intro w hx; exact absurd (connOf_opening hc.tr (hc.og w hx).1) (by rw [e1]; simp)
    have hr : react p x o.eff.faults = x := by simp [react, f10, hsub]
    have hrs : resume p x t'.openRes = x := by
      unfold resume; rw [f12]
      cases hrg : s.rg with
      | opening w => exact absurd hrg (hnopen w)
      | none => rfl
      | sleep wk w => rfl
    rw [hr, hrs]
    have hsa : specAfter a (connOf t') (isBody t'.rl) = a := by
      unfold specAfter; rw [e2]; simp [h.conn, e1]
    rw [hsa]
    refine ⟨by rw [f6]; exact h.now, by rw [f7]; exact h.reach, h.ncl, h.nbl, by rw [f11]; exact h.down,
      by rw [fc, e2, h.conn, e1], ?_, ?_, ?_, ?_⟩
    · intro hx; rw [h.conn, e1] at hx; exact absurd rfl hx
    · intro hx; rw [fc, e2] at hx; exact absurd rfl hx
    · intro wk w hx; rw [f12] at hx; exact h.slp wk w hx
    · intro w hx; rw [f12] at hx; exact h.opg w hx

/-! ### the specification's step on a model observation -/

theorem specStep_run (c : Cfg) (a : MS) (idx : Nat) (op : Op) (o : Obs) (a2 : MS) (h1 : a.closed = false)
    (h2 : a.blind = false) (hr : opReq c a idx op o = .ok)
    (hc : connStep c (envStep a op) idx o.conns = (.ok, a2)) :
    specStep c a idx op o = (.ok, opEnd (liveStep a2 o.live) op) := by
  simp [specStep, h1, h2, hr, hc]

theorem connStep_zero (c : Cfg) (a : MS) (idx : Nat) : connStep c a idx 0 = (.ok, a) := by
  simp [connStep]

theorem absorb_tr (p : P) (s : St) (t' : MuxT.St) (o : MuxT.Out) :
    (absorb p s t' o).1.tr = (settle p s t').1.tr := by
  simp only [absorb, react, resume, onFault, resSuccess, resFailure]
  split <;> (try split) <;> (try split) <;> (try split) <;> (try split) <;> rfl

theorem absorb_live (p : P) (s : St) (t' : MuxT.St) (o : MuxT.Out) (ht : TInv t') :
    live (absorb p s t' o).1.tr = if connOf t' = .none then 0 else 1 := by
  obtain ⟨f1, f2, f3, _⟩ := settle_facts p s t' ht
  rw [absorb_tr, live_eq f1, connOf_congr f2 f3]

theorem absorb_conns (p : P) (s : St) (t' : MuxT.St) (o : MuxT.Out) :
    (absorb p s t' o).2.conns = o.eff.conns := rfl

theorem env_same (a : MS) (c' : CP) (ab' : Bool) (hc : c' = a.conn) (hb : a.conn ≠ .none → ab' = a.atBody) :
    liveStep a (if c' = .none then 0 else 1) = specAfter a c' ab' := by
  rw [specAfter_same a c' ab' hc hb]
  unfold liveStep
  by_cases hn : a.conn = .none
  · simp [hn]
  · have : c' ≠ .none := by rw [hc]; exact hn
    simp [this]

theorem env_lost (a : MS) (ab' : Bool) (hn : a.conn ≠ .none) :
    liveStep (lost a) (if CP.none = CP.none then 0 else 1) = specAfter a .none ab' := by
  simp [liveStep, lost, specAfter, hn]

theorem env_body (a : MS) (c' : CP) (ab' : Bool) (hc : c' = a.conn) (hn : a.conn ≠ .none) :
    liveStep { a with atBody := ab' } (if c' = .none then 0 else 1) = specAfter a c' ab' := by
  have h1 : c' ≠ .none := by rw [hc]; exact hn
  have h2 : ¬(a.conn = .hs ∧ c' = .up) := by intro hx; rw [hc, hx.1] at hx; cases hx.2
  simp [liveStep, specAfter, h1, h2]

theorem env_up (a : MS) (ab' : Bool) (hc : a.conn = .hs) :
    liveStep { a with atBody := ab', conn := .up, down := false, lastDelay := none }
      (if CP.up = CP.none then 0 else 1) = specAfter a .up ab' := by
  simp [liveStep, specAfter, hc]

theorem readsGo_race (b : Bool) (f : Frame) (o : IOOut) (ho : o ≠ .ok) :
    (readsGo b [(IOOut.ok, f), (o, Frame.junk)] []).2.2 = true := by
  cases b <;> simp [readsGo, ho]

theorem toReads_all_ok (rs : List (IOOut × Fr)) :
    (∃ r ∈ toReads rs, r.1 ≠ IOOut.ok) ∨ (∀ r ∈ toReads rs, r.1 = IOOut.ok) := by
  by_cases hex : ∃ r ∈ toReads rs, r.1 ≠ IOOut.ok
  · exact Or.inl hex
  · exact Or.inr (fun r hr => Decidable.byContradiction (fun hne => hex ⟨r, hr, hne⟩))

/-- forgetting the delay before the last attempt keeps the coupling, unless a retry greenlet is
    just opening a transport -/
theorem cpl_forget {p : P} {s : St} {a : MS} (h : Cpl p s a) (hno : ∀ w, s.rg ≠ .opening w) :
    Cpl p s { a with lastDelay := none } := by
  refine ⟨h.now, h.reach, h.ncl, h.nbl, h.down, h.conn, h.body, h.alive, ?_, ?_⟩
  · intro wk w hx
    exact ⟨(h.slp wk w hx).1, by intro q hq; cases hq⟩
  · intro w hx; exact absurd hx (hno w)

/-- reads: what the specification's automaton concludes is what the transport did (up to the
    freedom it leaves when an answered handshake and the loss of the connection come together) -/
theorem reads_env (a : MS) (t : MuxT.St) (ht : TInv t) (hrl : t.rl ≠ .dead) (hconn : a.conn = connOf t)
    (hbody : a.conn ≠ .none → a.atBody = isBody t.rl) (rs : List (IOOut × Frame)) :
    (liveStep (readsEffect a rs) (if connOf (t.burst rs).1 = .none then 0 else 1) =
        specAfter a (connOf (t.burst rs).1) (isBody (t.burst rs).1.rl) ∨
     ((t.burst rs).1.cstate = .closed ∧
      liveStep (readsEffect a rs) (if connOf (t.burst rs).1 = .none then 0 else 1) =
        { specAfter a (connOf (t.burst rs).1) (isBody (t.burst rs).1.rl) with lastDelay := none })) ∧
    TStep t (t.burst rs).1 (t.burst rs).2 ∧
    (t.cstate ≠ .closed → (t.burst rs).1.cstate = .closed → 0 < (t.burst rs).2.eff.faults) := by
  have hcn : a.conn ≠ .none := by rw [hconn]; exact conn_of_rl ht hrl
  have hab : a.atBody = isBody t.rl := hbody hcn
  by_cases hex : ∃ r ∈ rs, r.1 ≠ IOOut.ok
  · obtain ⟨ts, tc, tf⟩ := tstep_burst_fail ht hrl rs hex
    have hfl : (readsGo a.atBody rs []).2.2 = true := (readsGo_failed rs _ _).mpr hex
    refine ⟨?_, ts, fun _ _ => by omega⟩
    rw [connOf_closed ts.inv tc]
    simp only [readsEffect, hcn, if_false, hfl, if_true]
    by_cases hfree : a.conn = .hs ∧ (readsGo a.atBody rs []).1.contains Frame.rping = true
    · right
      rw [if_pos hfree]
      refine ⟨tc, ?_⟩
      simp [liveStep, lost, specAfter, hcn]
    · left
      rw [if_neg hfree]
      exact env_lost a _ hcn
  · have hall : ∀ r ∈ rs, r.1 = IOOut.ok :=
      fun r hr => Decidable.byContradiction (fun hne => hex ⟨r, hr, hne⟩)
    obtain ⟨ts, tf, trl, tc⟩ := tstep_burst_ok ht hrl rs hall
    have hfl : (readsGo a.atBody rs []).2.2 = false := by
      cases hx : (readsGo a.atBody rs []).2.2 with
      | false => rfl
      | true => exact absurd ((readsGo_failed rs _ _).mp hx) hex
    refine ⟨Or.inl ?_, ts, ?_⟩
    · simp only [readsEffect, hcn, if_false, hfl]
      rw [trl, isBody_rlOf, ← hab]
      rw [← hab] at tc
      by_cases hc : t.opening = true ∧ Frame.rping ∈ (readsGo a.atBody rs []).1
      · rw [if_pos hc] at tc
        have hhs : a.conn = .hs := by rw [hconn]; exact connOf_opening ht hc.1
        have : (a.conn = .hs ∧ (readsGo a.atBody rs []).1.contains Frame.rping = true) := ⟨hhs, by simpa using hc.2⟩
        simp only [Bool.false_eq_true, if_false]
        rw [if_pos this, connOf_opened tc]
        exact env_up a _ hhs
      · rw [if_neg hc] at tc
        have hcc : connOf (t.burst rs).1 = a.conn := by rw [hconn]; exact connOf_congr tc.1 tc.2
        have : ¬(a.conn = .hs ∧ (readsGo a.atBody rs []).1.contains Frame.rping = true) := by
          intro hx
          apply hc
          refine ⟨?_, by simpa using hx.2⟩
          rw [hconn] at hx
          exact connOf_hs hx.1
        simp only [Bool.false_eq_true, if_false]
        rw [if_neg this]
        exact env_body a _ _ hcc hcn
    · intro hne hcl
      split at tc
      · rw [tc] at hcl; cases hcl
      · rw [tc.1] at hcl; exact absurd hcl hne

/-! ### explicit results of a connect -/

theorem doOpen_up (p : P) (s : St) (hpre : Pre s) (hr : s.reach = true) :
    doOpen p s = ({ s with tr := tOk, made := s.made + 1, inst := true, sub := true, waiters := [],
                           pingDl := some (s.now + pingTimeout), pingDue := none }, { conns := 1 }) := by
  simp only [doOpen, hpre.inst, connect_up s hr, absorb, settle, react, resume, hpre.rg]
  simp [MuxT.St.init, tOk, cvtDels]

theorem doOpen_down (p : P) (s : St) (hpre : Pre s) (hr : s.reach = false) :
    doOpen p s = ({ s with tr := tRef, made := s.made + 1, inst := false, sub := false, down := true,
                           rg := .sleep (s.now + p.r.init) p.r.init, waiters := [], pingDl := none,
                           pingDue := none, ups := s.ups + 1 }, { conns := 1 }) := by
  simp only [doOpen, hpre.inst, connect_down s hr, absorb, settle, react, resume, onFault, hpre.down, hpre.rg]
  simp [MuxT.St.init, tRef, cvtDels]

theorem resWake_up (p : P) (s : St) (w : Nat) (hr : s.reach = true) :
    resWake p s w = ({ s with tr := tOk, made := s.made + 1, rg := .opening w,
                              pingDl := some (s.now + pingTimeout), pingDue := none }, { conns := 1 }) := by
  simp only [resWake, connect_up s hr, absorb, settle, react, resume]
  simp [MuxT.St.init, tOk, cvtDels]

theorem resWake_down (p : P) (s : St) (w : Nat) (hr : s.reach = false) (hsub : s.sub = false) :
    resWake p s w = ({ s with tr := tRef, made := s.made + 1,
                              rg := .sleep (s.now + nextWait p.r w) (nextWait p.r w),
                              pingDl := none, pingDue := none }, { conns := 1 }) := by
  simp only [resWake, connect_down s hr, absorb, settle, react, resume, hsub, resFailure]
  simp [MuxT.St.init, tRef, cvtDels]

theorem connOf_tOk : connOf tOk = .hs := by simp [connOf, tOk]
theorem connOf_tRef : connOf tRef = .none := by simp [connOf, tRef]
theorem connOf_init : connOf MuxT.St.init = .none := by simp [connOf, MuxT.St.init]

/-! ### the operations -/

/-- an operation that is one step of the newest transport; `a'` is what the specification's
    automaton makes of it -/
theorem trans_cpl' (c : Cfg) (s : St) (a a' : MS) (idx : Nat) (op : Op) (t' : MuxT.St)
    (o : MuxT.Out) (h : Cpl c.par s a) (hs : TStep s.tr t' o)
    (hreq : opReq c a idx op (obsOf (absorb c.par s t' o).1 (absorb c.par s t' o).2) = .ok)
    (henv : liveStep (envStep a op) (if connOf t' = .none then 0 else 1) = a')
    (hend : ∀ x, opEnd x op = x) :
    specStep c a idx op (obsOf (absorb c.par s t' o).1 (absorb c.par s t' o).2) = (.ok, a') := by
  have hcn : (obsOf (absorb c.par s t' o).1 (absorb c.par s t' o).2).conns = 0 := by
    show (absorb c.par s t' o).2.conns = 0
    rw [absorb_conns]; exact hs.conns
  have hlv : (obsOf (absorb c.par s t' o).1 (absorb c.par s t' o).2).live =
      if connOf t' = .none then 0 else 1 := by
    show live (absorb c.par s t' o).1.tr = _
    exact absorb_live c.par s t' o hs.inv
  rw [specStep_run c a idx op _ (envStep a op) h.ncl h.nbl hreq (by rw [hcn]; exact connStep_zero c _ idx)]
  rw [hlv, henv, hend]

theorem trans_cpl (c : Cfg) (hp : PH c.par) (s : St) (a : MS) (idx : Nat) (op : Op) (t' : MuxT.St)
    (o : MuxT.Out) (hc : CInv c.par true s) (h : Cpl c.par s a) (hs : TStep s.tr t' o)
    (hclf : s.tr.cstate ≠ .closed → t'.cstate = .closed → 0 < o.eff.faults)
    (hreq : opReq c a idx op (obsOf (absorb c.par s t' o).1 (absorb c.par s t' o).2) = .ok)
    (henv : liveStep (envStep a op) (if connOf t' = .none then 0 else 1) =
      specAfter a (connOf t') (isBody t'.rl))
    (hend : ∀ x, opEnd x op = x) :
    specStep c a idx op (obsOf (absorb c.par s t' o).1 (absorb c.par s t' o).2) =
      (.ok, specAfter a (connOf t') (isBody t'.rl)) ∧
    Cpl c.par (absorb c.par s t' o).1 (specAfter a (connOf t') (isBody t'.rl)) :=
  ⟨trans_cpl' c s a _ idx op t' o h hs hreq henv hend, absorb_cpl c.par hp true s t' o a hc h hs hclf⟩

/-- the same when the operation may have ended an answered handshake together with its connection -/
theorem trans_cpl_free (c : Cfg) (hp : PH c.par) (s : St) (a : MS) (idx : Nat) (op : Op) (t' : MuxT.St)
    (o : MuxT.Out) (hc : CInv c.par true s) (h : Cpl c.par s a) (hs : TStep s.tr t' o)
    (hclf : s.tr.cstate ≠ .closed → t'.cstate = .closed → 0 < o.eff.faults)
    (hreq : opReq c a idx op (obsOf (absorb c.par s t' o).1 (absorb c.par s t' o).2) = .ok)
    (henv : liveStep (envStep a op) (if connOf t' = .none then 0 else 1) =
        specAfter a (connOf t') (isBody t'.rl) ∨
      (t'.cstate = .closed ∧ liveStep (envStep a op) (if connOf t' = .none then 0 else 1) =
        { specAfter a (connOf t') (isBody t'.rl) with lastDelay := none }))
    (hend : ∀ x, opEnd x op = x) :
    ∃ a', specStep c a idx op (obsOf (absorb c.par s t' o).1 (absorb c.par s t' o).2) = (.ok, a') ∧
      Cpl c.par (absorb c.par s t' o).1 a' := by
  have hcpl := absorb_cpl c.par hp true s t' o a hc h hs hclf
  rcases henv with e | ⟨hcl, e⟩
  · exact ⟨_, trans_cpl' c s a _ idx op t' o h hs hreq e hend, hcpl⟩
  · refine ⟨_, trans_cpl' c s a _ idx op t' o h hs hreq e hend, cpl_forget hcpl ?_⟩
    -- the transport is closed: no retry greenlet is opening it
    obtain ⟨ci, _, _⟩ := absorb_inv c.par hp true s t' o hc hs (fun _ => hclf)
    obtain ⟨f1, f2, _⟩ := settle_facts c.par s t' hs.inv
    intro w hx
    have ho := (ci.og w hx).1
    rw [absorb_tr] at ho
    have := (f1.core.cls (by rw [f2]; exact hcl)).1
    rw [this] at ho; cases ho

theorem cpl_congr {p : P} {s s' : St} {a : MS} (h : Cpl p s a) (e1 : s'.tr = s.tr) (e2 : s'.down = s.down)
    (e4 : s'.sub = s.sub) (e5 : s'.rg = s.rg) (e6 : s'.now = s.now) (e7 : s'.reach = s.reach) : Cpl p s' a := by
  refine ⟨by rw [e6]; exact h.now, by rw [e7]; exact h.reach, h.ncl, h.nbl, by rw [e2]; exact h.down,
    by rw [e1]; exact h.conn, by rw [e1]; exact h.body, by rw [e1, e4, e5]; exact h.alive,
    by rw [e5]; exact h.slp, by rw [e5]; exact h.opg⟩

theorem wr_cpl (c : Cfg) (hp : PH c.par) (s : St) (a : MS) (idx : Nat) (o : IOOut)
    (hc : CInv c.par true s) (h : Cpl c.par s a) (hen : isWriting s.tr.sl = true) :
    ∃ a', specStep c a idx (.wr o) (step c s (.wr o)).2 = (.ok, a') ∧ Cpl c.par (stepSt c.par s (.wr o)).1 a' := by
  cases hsl : s.tr.sl with
  | dead => rw [hsl] at hen; cases hen
  | waitQ => rw [hsl] at hen; cases hen
  | writing it =>
    have hcn : a.conn ≠ .none := by rw [h.conn]; exact conn_of_sl hc.tr it hsl
    by_cases ho : o = .ok
    · subst ho
      obtain ⟨ts, tc, to, trl, tf⟩ := tstep_wr_ok hc.tr it hsl
      have hcc : connOf (s.tr.wr .ok).1 = a.conn := by rw [h.conn]; exact connOf_congr tc to
      refine ⟨_, (trans_cpl c hp s a idx (.wr .ok) _ _ hc h ts
        (by intro hne hcl; rw [tc] at hcl; exact absurd hcl hne) rfl ?_ (fun _ => rfl))⟩
      simp only [envStep]
      rw [if_neg (by simp)]
      exact env_same a _ _ hcc (by intro hx; rw [trl]; exact (h.body hx).symm)
    · obtain ⟨ts, tc, tf⟩ := tstep_wr_fail hc.tr it hsl o ho
      refine ⟨_, (trans_cpl c hp s a idx (.wr o) _ _ hc h ts (by intro _ _; omega) rfl ?_ (fun _ => rfl))⟩
      simp only [envStep]
      rw [if_pos ⟨ho, hcn⟩, connOf_closed ts.inv tc]
      exact env_lost a _ hcn

theorem burst_cpl (c : Cfg) (hp : PH c.par) (s : St) (a : MS) (idx : Nat) (op : Op) (rs : List (IOOut × Frame))
    (hc : CInv c.par true s) (h : Cpl c.par s a) (hen : s.tr.rl ≠ .dead)
    (hop : stepSt c.par s op = doBurst c.par s rs) (henv : envStep a op = readsEffect a rs)
    (hreq : ∀ o, opReq c a idx op o = .ok) (hend : ∀ x, opEnd x op = x) :
    ∃ a', specStep c a idx op (step c s op).2 = (.ok, a') ∧ Cpl c.par (stepSt c.par s op).1 a' := by
  obtain ⟨e1, ts, hclf⟩ := reads_env a s.tr hc.tr hen h.conn h.body rs
  have := trans_cpl_free c hp s a idx op _ _ hc h ts hclf (hreq _) (by rw [henv]; exact e1) hend
  simp only [step, hop, doBurst]
  exact this

theorem race_cpl (c : Cfg) (hp : PH c.par) (s : St) (a : MS) (idx : Nat) (f : Fr) (o : IOOut)
    (hc : CInv c.par true s) (h : Cpl c.par s a) (hen : s.tr.rl = .body) (ho : o ≠ .ok) :
    ∃ a', specStep c a idx (.race f o) (step c s (.race f o)).2 = (.ok, a') ∧
      Cpl c.par (stepSt c.par s (.race f o)).1 a' := by
  have hrl : s.tr.rl ≠ .dead := by rw [hen]; simp
  have hcn : a.conn ≠ .none := by rw [h.conn]; exact conn_of_rl hc.tr hrl
  obtain ⟨ts, tc, tf⟩ := tstep_race hc.tr hen f.toFrame o ho
  refine trans_cpl_free c hp s a idx (.race f o) _ _ hc h ts (by intro _ _; exact tf) rfl ?_ (fun _ => rfl)
  simp only [envStep, readsEffect, hcn, if_false, readsGo_race _ _ _ ho, if_true]
  rw [connOf_closed ts.inv tc]
  by_cases hfree : a.conn = .hs ∧
      (readsGo a.atBody [(IOOut.ok, f.toFrame), (o, Frame.junk)] []).1.contains Frame.rping = true
  · right
    rw [if_pos hfree]
    refine ⟨tc, ?_⟩
    simp [liveStep, lost, specAfter, hcn]
  · left
    rw [if_neg hfree]
    exact env_lost a _ hcn

theorem reach_cpl (c : Cfg) (s : St) (a : MS) (idx : Nat) (up : Bool)
    (hc : CInv c.par true s) (h : Cpl c.par s a) :
    ∃ a', specStep c a idx (.reach up) (step c s (.reach up)).2 = (.ok, a') ∧
      Cpl c.par (stepSt c.par s (.reach up)).1 a' := by
  refine ⟨{ a with reach := up, reachSince := a.now }, ?_, ?_⟩
  · rw [specStep_run c a idx (.reach up) _ a h.ncl h.nbl rfl (connStep_zero c _ idx)]
    show (Verdict.ok, opEnd (liveStep a (live s.tr)) (.reach up)) = _
    rw [liveStep_eq a s.tr hc.tr h.conn]
    rfl
  · exact ⟨h.now, rfl, h.ncl, h.nbl, h.down, h.conn, h.body, h.alive, h.slp, h.opg⟩

theorem settle_dels_nopend (p : P) (s : St) (t' : MuxT.St) (h : s.tr.openRes ≠ .pending) :
    (settle p s t').2 = [] := by
  unfold settle
  simp [h]

/-- a request -/
theorem req_cpl (c : Cfg) (hp : PH c.par) (s : St) (a : MS) (idx id : Nat)
    (hc : CInv c.par true s) (h : Cpl c.par s a) :
    ∃ a', specStep c a idx (.req id) (step c s (.req id)).2 = (.ok, a') ∧
      Cpl c.par (stepSt c.par s (.req id)).1 a' := by
  simp only [step, stepSt, doReq]
  by_cases hin : s.inst = false
  · -- fail-fast mode (or never opened): answered on the spot, nothing else happens
    rw [if_pos hin]
    refine ⟨a, ?_, h⟩
    have hreq : opReq c a idx (.req id) (obsOf s { dels := [(id, RK.ff)] }) = .ok := by
      simp only [opReq, reqStep]
      by_cases hd : a.down = true ∧ a.conn = .none
      · rw [if_pos hd]
        have h1 : (obsOf s { dels := [(id, RK.ff)] }).dels.contains (id, RK.ff) = true := by
          show [(id, RK.ff)].contains (id, RK.ff) = true
          simp
        have h2 : (obsOf s { dels := [(id, RK.ff)] }).conns = 0 := rfl
        simp only [h1, h2, Bool.not_true, Bool.false_or, decide_eq_true_eq, Nat.lt_irrefl, if_false]
        -- the retry greenlet is asleep and will wake within one maximum interval of the last failure
        have hsd : s.down = true := by rw [← h.down]; exact hd.1
        have hrg : ∃ wk w, s.rg = .sleep wk w := by
          cases hr : s.rg with
          | none => exact absurd hr (hc.dn hsd).2.2
          | sleep wk w => exact ⟨wk, w, rfl⟩
          | opening w =>
            exfalso
            have := connOf_opening hc.tr (hc.og w hr).1
            rw [← h.conn, hd.2] at this; cases this
        obtain ⟨wk, w, hr⟩ := hrg
        obtain ⟨_, s1, _, _, s4, _⟩ := hc.sl wk w hr
        obtain ⟨k1, _⟩ := h.slp wk w hr
        have hlt := s1 rfl
        rw [if_neg]
        intro hx
        have hmax : c.par.r.maxW = c.maxW := rfl
        have := hx.2
        rw [h.now] at this
        have : a.lastEnd ≤ max a.reachSince a.lastEnd := Nat.le_max_right _ _
        omega
      · rw [if_neg hd]
        have hnu : a.conn ≠ .up := by
          intro hx
          rw [h.conn] at hx
          have hop := connOf_up hx
          rcases h.alive (by rw [hx]; simp) with hs | ⟨w, hr⟩
          · have := (hc.sb hs).1; rw [hin] at this; cases this
          · have := (hc.og w hr).1
            have := (hc.tr.core.opn hop).1
            simp_all
        rw [if_neg hnu]
    rw [specStep_run c a idx (.req id) _ a h.ncl h.nbl hreq (connStep_zero c _ idx)]
    show (Verdict.ok, opEnd (liveStep a (live s.tr)) (.req id)) = _
    rw [liveStep_eq a s.tr hc.tr h.conn]
    rfl
  · rw [if_neg hin]
    have hin' : s.inst = true := by simpa using hin
    have hnd : s.down = false := by
      cases hd : s.down with
      | false => rfl
      | true => have := (hc.dn hd).1; rw [hin'] at this; cases this
    by_cases ho : s.tr.opening = true
    · -- blocked on the open result
      rw [if_pos ho]
      refine ⟨a, ?_, cpl_congr h rfl rfl rfl rfl rfl rfl⟩
      have hcs : a.conn = .hs := by rw [h.conn]; exact connOf_opening hc.tr ho
      have hreq : opReq c a idx (.req id) (obsOf { s with waiters := s.waiters ++ [id] } {}) = .ok := by
        simp only [opReq, reqStep]
        rw [if_neg (by intro hx; rw [hcs] at hx; cases hx.2), if_neg (by rw [hcs]; simp)]
      rw [specStep_run c a idx (.req id) _ a h.ncl h.nbl hreq (connStep_zero c _ idx)]
      show (Verdict.ok, opEnd (liveStep a (live s.tr)) (.req id)) = _
      rw [liveStep_eq a s.tr hc.tr h.conn]
      rfl
    · -- forwarded to the transport
      rw [if_neg ho]
      have ho' : s.tr.opening = false := by simpa using ho
      obtain ⟨ts, tc, to, trl, tf, td⟩ := tstep_request hc.tr ho' id (tagOf id)
      have hcc : connOf (s.tr.request id (tagOf id)).1 = a.conn := by rw [h.conn]; exact connOf_congr tc to
      have hnp : s.tr.openRes ≠ .pending := fun hx => by have := hc.tr.core.orp hx; rw [ho'] at this; cases this
      refine ⟨_, (trans_cpl c hp s a idx (.req id) _ _ hc h ts
        (by intro hne hcl; rw [tc] at hcl; exact absurd hcl hne) ?_ ?_ (fun _ => rfl))⟩
      · simp only [opReq, reqStep]
        rw [if_neg (by intro hx; rw [h.down, hnd] at hx; cases hx.1)]
        by_cases hu : a.conn = .up
        · rw [if_pos hu]
          have hop : s.tr.cstate = .opened := by rw [h.conn] at hu; exact connOf_up hu
          have hd : (obsOf (absorb c.par s (s.tr.request id (tagOf id)).1 (s.tr.request id (tagOf id)).2).1
              (absorb c.par s (s.tr.request id (tagOf id)).1 (s.tr.request id (tagOf id)).2).2).dels = [] := by
            show cvtDels ((s.tr.request id (tagOf id)).2.eff.dels ++ (settle c.par s (s.tr.request id (tagOf id)).1).2) = []
            rw [td hop, settle_dels_nopend c.par s _ hnp]
            rfl
          rw [hd]; rfl
        · rw [if_neg hu]
      · simp only [envStep]
        exact env_same a _ _ hcc (by intro hx; rw [trl]; exact (h.body hx).symm)

/-- `Open()` -/
theorem opn_cpl (c : Cfg) (hp : PH c.par) (s : St) (a : MS) (idx : Nat)
    (hc : CInv c.par true s) (h : Cpl c.par s a) (hpre : Pre s) :
    ∃ a', specStep c a idx .opn (step c s .opn).2 = (.ok, a') ∧ Cpl c.par (stepSt c.par s .opn).1 a' := by
  have hcn : a.conn = .none := by rw [h.conn, hpre.tr]; exact connOf_init
  have hdn : a.down = false := by rw [h.down]; exact hpre.down
  simp only [step, stepSt]
  cases hr : s.reach with
  | true =>
    rw [doOpen_up c.par s hpre hr]
    refine ⟨{ a with conn := .hs, atBody := false }, ?_, ?_⟩
    · have hcs : connStep c (envStep a .opn) idx 1 = (.ok, { a with conn := .hs, atBody := false }) := by
        simp [connStep, envStep, hcn, hdn, h.reach, hr]
      rw [specStep_run c a idx .opn _ _ h.ncl h.nbl rfl hcs]
      simp [liveStep, live, tOk, opEnd, obsOf]
    · refine ⟨h.now, by rw [h.reach, hr], h.ncl, h.nbl, by rw [hdn]; exact hpre.down.symm, connOf_tOk.symm, ?_, ?_, ?_, ?_⟩
      · intro _; rfl
      · intro _; left; rfl
      · intro wk w hx; simp [hpre.rg] at hx
      · intro w hx; simp [hpre.rg] at hx
  | false =>
    rw [doOpen_down c.par s hpre hr]
    refine ⟨{ a with down := true, lastEnd := a.now, lastDelay := none }, ?_, ?_⟩
    · have hcs : connStep c (envStep a .opn) idx 1 =
          (.ok, { a with down := true, lastEnd := a.now, lastDelay := none }) := by
        simp [connStep, envStep, hcn, hdn, h.reach, hr]
      rw [specStep_run c a idx .opn _ _ h.ncl h.nbl rfl hcs]
      simp [liveStep, hcn, opEnd]
    · refine ⟨h.now, by rw [h.reach, hr], h.ncl, h.nbl, rfl, by rw [connOf_tRef]; exact hcn, ?_, ?_, ?_, ?_⟩
      · intro hx; exact absurd hcn hx
      · intro hx; rw [connOf_tRef] at hx; exact absurd rfl hx
      · intro wk w hx
        change RG.sleep _ _ = RG.sleep wk w at hx
        injection hx with h1 h2
        subst h1; subst h2
        exact ⟨by show s.now + c.par.r.init = a.now + c.par.r.init; rw [h.now], by intro q hq; cases hq⟩
      · intro w hx; cases hx

/-- `Close()` -/
theorem close_cpl (c : Cfg) (hp : PH c.par) (s : St) (a : MS) (idx : Nat)
    (hc : CInv c.par true s) (h : Cpl c.par s a) :
    ∃ a', specStep c a idx .close (step c s .close).2 = (.ok, a') ∧ a'.closed = true := by
  have hconns : (step c s .close).2.conns = 0 := by
    simp only [step, stepSt, doClose]
    by_cases hin : s.inst = true
    · simp only [hin, if_true]
      rw [obsOf]
      show (absorb c.par ({ s with rg := .none, down := false, sub := false } : St) s.tr.close.1 s.tr.close.2).2.conns = 0
      rw [absorb_conns]
      exact (tstep_close hc.tr).1.conns
    · simp only [hin]; rfl
  refine ⟨_, specStep_run c a idx .close _ (envStep a .close) h.ncl h.nbl rfl
    (by rw [hconns]; exact connStep_zero c _ idx), ?_⟩
  rfl

/-! ### the clock -/

theorem tickPing_cpl (p : P) (hp : PH p) (s : St) (a : MS) (hc : CInv p false s) (h : Cpl p s a) :
    Cpl p (tickPing p s).1 (liveStep a (live (tickPing p s).1.tr)) ∧ (tickPing p s).2.conns = 0 := by
  unfold tickPing
  by_cases hd : due s.pingDl s.now = true
  · rw [if_pos hd]
    obtain ⟨ts, tk⟩ := tstep_pingSilence hc.tr
    have hclf : s.tr.cstate ≠ .closed → s.tr.pingSilence.1.cstate = .closed → 0 < s.tr.pingSilence.2.eff.faults := by
      intro hne hcl
      rcases tk with ⟨_, f, _⟩ | ⟨e, _⟩
      · omega
      · rw [e] at hcl; exact absurd hcl hne
    have hcpl := absorb_cpl p hp false s _ _ a hc h ts hclf
    refine ⟨?_, by rw [absorb_conns]; exact ts.conns⟩
    rw [absorb_live p s _ _ ts.inv]
    have : liveStep a (if connOf s.tr.pingSilence.1 = .none then 0 else 1) =
        specAfter a (connOf s.tr.pingSilence.1) (isBody s.tr.pingSilence.1.rl) := by
      rcases tk with ⟨hcl, _, _⟩ | ⟨e, _⟩
      · rw [connOf_closed ts.inv hcl]
        simp only [liveStep, specAfter, if_true]
        by_cases hn : a.conn = .none <;> simp [hn]
      · rw [e]
        exact env_same a _ _ h.conn.symm (fun hx => (h.body hx).symm)
    rw [this]
    exact hcpl
  · rw [if_neg hd]
    exact ⟨by rw [liveStep_eq a s.tr hc.tr h.conn]; exact h, rfl⟩

theorem tickLoop_cpl (p : P) (hp : PH p) (s : St) (a : MS) (hc : CInv p false s) (h : Cpl p s a) :
    Cpl p (tickLoop p s).1 a ∧ (tickLoop p s).2.conns = 0 ∧ live (tickLoop p s).1.tr = live s.tr := by
  unfold tickLoop
  by_cases hd : due s.pingDue s.now = true
  · rw [if_pos hd]
    obtain ⟨ts, tc, to, trl, tf⟩ := tstep_pingDue hc.tr
    have hcc : connOf s.tr.pingDue.1 = a.conn := by rw [h.conn]; exact connOf_congr tc to
    have hcpl := absorb_cpl p hp false s _ _ a hc h ts
      (by intro hne hcl; rw [tc] at hcl; exact absurd hcl hne)
    rw [specAfter_same a _ _ hcc (by intro hx; rw [trl]; exact (h.body hx).symm)] at hcpl
    refine ⟨cpl_congr hcpl rfl rfl rfl rfl rfl rfl, by show (absorb p s _ _).2.conns = 0; rw [absorb_conns]; exact ts.conns, ?_⟩
    show live (absorb p s _ _).1.tr = live s.tr
    rw [absorb_live p s _ _ ts.inv, live_eq hc.tr, connOf_congr tc to]
  · rw [if_neg hd]
    exact ⟨h, rfl, rfl⟩

theorem backoff_ok (p : P) (hp : PH p) (w q : Nat) (hq : q ≤ p.r.maxW) (hw : w = nextWait p.r q) :
    (decide (w < q) || (decide (w = q) && decide (q < p.r.maxW))) = false := by
  have h1 := Res.le_nextWait p.r hp.grows q hq
  have h2 := Res.nextWait_strict p.r hp.grows q hq
  rw [← hw] at h1 h2
  simp only [Bool.or_eq_false_iff, decide_eq_false_iff_not, Bool.and_eq_false_iff, Nat.not_lt]
  refine ⟨h1, ?_⟩
  by_cases e : w = q
  · right
    rcases h2 with h2 | h2
    · omega
    · omega
  · left; exact e

theorem tick_cpl (c : Cfg) (hp : PH c.par) (s : St) (a : MS) (idx d : Nat)
    (hc : CInv c.par true s) (h : Cpl c.par s a) (hw : ∀ wk w, s.rg = .sleep wk w → s.now + d ≤ wk) :
    ∃ a', specStep c a idx (.tick d) (step c s (.tick d)).2 = (.ok, a') ∧
      Cpl c.par (stepSt c.par s (.tick d)).1 a' := by
  -- the clock has moved
  have hc0 : CInv c.par false ({ s with now := s.now + d } : St) := by
    refine ⟨hc.tr, hc.dn, hc.up, hc.sb, ?_, hc.og⟩
    intro wk w hx
    obtain ⟨x1, x2, x3, x4⟩ := hc.sl wk w hx
    have := hw wk w hx
    exact ⟨this, (fun hf => by cases hf), (by show wk ≤ s.now + d + c.par.r.maxW; omega), x4⟩
  have h0 : Cpl c.par ({ s with now := s.now + d } : St) { a with now := a.now + d } :=
    ⟨by show a.now + d = s.now + d; rw [h.now], h.reach, h.ncl, h.nbl, h.down, h.conn, h.body, h.alive, h.slp, h.opg⟩
  generalize hs0 : ({ s with now := s.now + d } : St) = s0 at hc0 h0
  generalize ha0 : ({ a with now := a.now + d } : MS) = a0 at h0
  have henv : envStep a (.tick d) = a0 := by rw [← ha0]; rfl
  obtain ⟨c1, n1, q1⟩ := tickPing_inv c.par hp s0 hc0
  obtain ⟨k1, z1⟩ := tickPing_cpl c.par hp s0 a0 hc0 h0
  obtain ⟨c2, n2, q2⟩ := tickLoop_inv c.par hp _ c1
  obtain ⟨k2, z2, l2⟩ := tickLoop_cpl c.par hp _ _ c1 k1
  have hstep : stepSt c.par s (.tick d) =
      ((tickWake c.par (tickLoop c.par (tickPing c.par s0).1).1).1,
       ((tickPing c.par s0).2.app (tickLoop c.par (tickPing c.par s0).1).2).app
         (tickWake c.par (tickLoop c.par (tickPing c.par s0).1).1).2) := by
    rw [← hs0]; rfl
  simp only [step, hstep]
  generalize (tickPing c.par s0) = r1 at *
  generalize (tickLoop c.par r1.1) = r2 at *
  have hnow2 : r2.1.now = s.now + d := by rw [n2, n1, ← hs0]
  have ha0now : a0.now = s.now + d := by rw [← ha0]; show a.now + d = _; rw [h.now]
  unfold tickWake
  cases hrg : r2.1.rg with
  | none =>
    refine ⟨_, ?_, k2⟩
    have hcn : (obsOf r2.1 ((r1.2.app r2.2).app ({} : Out))).conns = 0 := by
      show r1.2.conns + r2.2.conns + 0 = 0; omega
    rw [specStep_run c a idx (.tick d) _ a0 h.ncl h.nbl rfl (by rw [henv, hcn]; exact connStep_zero c _ idx)]
    show (Verdict.ok, liveStep a0 (live r2.1.tr)) = _
    rw [l2]
  | opening w =>
    refine ⟨_, ?_, k2⟩
    have hcn : (obsOf r2.1 ((r1.2.app r2.2).app ({} : Out))).conns = 0 := by
      show r1.2.conns + r2.2.conns + 0 = 0; omega
    rw [specStep_run c a idx (.tick d) _ a0 h.ncl h.nbl rfl (by rw [henv, hcn]; exact connStep_zero c _ idx)]
    show (Verdict.ok, liveStep a0 (live r2.1.tr)) = _
    rw [l2]
  | sleep wk w =>
    simp only []
    by_cases hdue : wk ≤ r2.1.now
    · rw [if_pos hdue]
      -- the retry greenlet wakes: nothing else happened to the (closed) transport in this tick
      obtain ⟨y0, _, y2, y3, y4, y5⟩ := c2.sl wk w hrg
      have hwk : wk = s.now + d := by omega
      have hcl2 : connOf r2.1.tr = .none := connOf_closed c2.tr y5
      have hl2 : live r2.1.tr = 0 := by rw [live_eq c2.tr, hcl2]; rfl
      have hl1 : live r1.1.tr = 0 := by rw [← l2]; exact hl2
      have ha0c : a0.conn = .none := by
        cases hx : a0.conn with
        | none => rfl
        | hs =>
          exfalso
          have hls : liveStep a0 (live r1.1.tr) = lost a0 := by simp [liveStep, hl1, hx]
          rw [hls] at k2
          have := (k2.slp wk w hrg).1
          simp only [lost] at this
          omega
        | up =>
          exfalso
          have hls : liveStep a0 (live r1.1.tr) = lost a0 := by simp [liveStep, hl1, hx]
          rw [hls] at k2
          have := (k2.slp wk w hrg).1
          simp only [lost] at this
          omega
      have hls : liveStep a0 (live r1.1.tr) = a0 := by simp [liveStep, ha0c]
      rw [hls] at k2
      have hdn2 : r2.1.down = true := by
        cases hd : r2.1.down with
        | true => rfl
        | false => have := c2.up hd; rw [hrg] at this; cases this
      obtain ⟨hin2, hsub2, _⟩ := c2.dn hdn2
      have ha0d : a0.down = true := by rw [k2.down]; exact hdn2
      obtain ⟨e1, e2⟩ := k2.slp wk w hrg
      have hdelay : a0.now - a0.lastEnd = w := by omega
      have hmaxW : c.par.r.maxW = c.maxW := rfl
      have hbk : (match a0.lastDelay with
             | some q => decide (w < q) || (decide (w = q) && decide (q < c.maxW))
             | none => false) = false := by
        cases hq : a0.lastDelay with
        | none => rfl
        | some q =>
          obtain ⟨g1, g2⟩ := e2 q hq
          exact backoff_ok c.par hp w q g2 g1
      cases hr : r2.1.reach with
      | true =>
        rw [resWake_up c.par r2.1 w hr]
        refine ⟨{ a0 with conn := .hs, atBody := false, lastDelay := some w }, ?_, ?_⟩
        · have hcn : ∀ x : St, (obsOf x ((r1.2.app r2.2).app ({ conns := 1 } : Out))).conns = 1 := by
            intro x; show r1.2.conns + r2.2.conns + 1 = 1; omega
          have hcs : connStep c (envStep a (.tick d)) idx 1 =
              (.ok, { a0 with conn := .hs, atBody := false, lastDelay := some w }) := by
            rw [henv]
            simp only [connStep, ha0c, ha0d, hdelay]
            have hreach : a0.reach = true := by rw [k2.reach]; exact hr
            have hnlt : ¬(c.maxW < w) := by omega
            simp [hreach, hnlt]
            exact hbk
          rw [specStep_run c a idx (.tick d) _ _ h.ncl h.nbl rfl (by rw [hcn]; exact hcs)]
          simp [liveStep, live, tOk, opEnd, obsOf]
        · refine ⟨k2.now, k2.reach, k2.ncl, k2.nbl, k2.down, connOf_tOk.symm, ?_, ?_, ?_, ?_⟩
          · intro _; rfl
          · intro _; right; exact ⟨w, rfl⟩
          · intro wk' w' hx; cases hx
          · intro w' hx
            change RG.opening _ = RG.opening w' at hx
            injection hx with hx
            subst hx; rfl
      | false =>
        rw [resWake_down c.par r2.1 w hr hsub2]
        refine ⟨{ a0 with lastEnd := a0.now, lastDelay := some w }, ?_, ?_⟩
        · have hcn : ∀ x : St, (obsOf x ((r1.2.app r2.2).app ({ conns := 1 } : Out))).conns = 1 := by
            intro x; show r1.2.conns + r2.2.conns + 1 = 1; omega
          have hcs : connStep c (envStep a (.tick d)) idx 1 =
              (.ok, { a0 with lastEnd := a0.now, lastDelay := some w }) := by
            rw [henv]
            simp only [connStep, ha0c, ha0d, hdelay]
            have hreach : a0.reach = false := by rw [k2.reach]; exact hr
            have hnlt : ¬(c.maxW < w) := by omega
            simp [hreach, hnlt]
            exact hbk
          rw [specStep_run c a idx (.tick d) _ _ h.ncl h.nbl rfl (by rw [hcn]; exact hcs)]
          simp [liveStep, ha0c, opEnd]
        · refine ⟨k2.now, k2.reach, k2.ncl, k2.nbl, k2.down, by rw [connOf_tRef]; exact ha0c, ?_, ?_, ?_, ?_⟩
          · intro hx; exact absurd ha0c hx
          · intro hx; rw [connOf_tRef] at hx; exact absurd rfl hx
          · intro wk' w' hx
            change RG.sleep _ _ = RG.sleep wk' w' at hx
            injection hx with h1 h2
            subst h1; subst h2
            refine ⟨by show r2.1.now + _ = a0.now + _; rw [hnow2, ha0now], ?_⟩
            intro q hq
            injection hq with hq
            subst hq
            exact ⟨rfl, y4⟩
          · intro w' hx; cases hx
    · rw [if_neg hdue]
      refine ⟨_, ?_, k2⟩
      have hcn : (obsOf r2.1 ((r1.2.app r2.2).app ({} : Out))).conns = 0 := by
        show r1.2.conns + r2.2.conns + 0 = 0; omega
      rw [specStep_run c a idx (.tick d) _ a0 h.ncl h.nbl rfl (by rw [henv, hcn]; exact connStep_zero c _ idx)]
      show (Verdict.ok, liveStep a0 (live r2.1.tr)) = _
      rw [l2]

/-! ### histories -/

theorem step_cpl (c : Cfg) (hp : PH c.par) (s : St) (a : MS) (opened : Bool) (seen : List Nat) (idx : Nat)
    (op : Op) (hg : GInv c.par s opened false) (h : Cpl c.par s a)
    (hok : opOk s opened false seen op = true) :
    ∃ a', specStep c a idx op (step c s op).2 = (.ok, a') ∧
      (isClose op = false → Cpl c.par (stepSt c.par s op).1 a') ∧ (isClose op = true → a'.closed = true) := by
  have hc := hg.inv
  cases op with
  | opn =>
    simp only [opOk, Bool.and_eq_true, Bool.not_eq_true'] at hok
    obtain ⟨a', e1, e2⟩ := opn_cpl c hp s a idx hc h (hg.pre hok.1)
    exact ⟨a', e1, fun _ => e2, fun hx => by cases hx⟩
  | req id =>
    obtain ⟨a', e1, e2⟩ := req_cpl c hp s a idx id hc h
    exact ⟨a', e1, fun _ => e2, fun hx => by cases hx⟩
  | wr o =>
    simp only [opOk, Bool.and_eq_true, decide_eq_true_eq] at hok
    obtain ⟨a', e1, e2⟩ := wr_cpl c hp s a idx o hc h hok.1
    exact ⟨a', e1, fun _ => e2, fun hx => by cases hx⟩
  | rd o f =>
    simp only [opOk, decide_eq_true_eq] at hok
    obtain ⟨a', e1, e2⟩ := burst_cpl c hp s a idx (.rd o f) [(o, f.toFrame)] hc h hok rfl rfl (fun _ => rfl)
      (fun _ => rfl)
    exact ⟨a', e1, fun _ => e2, fun hx => by cases hx⟩
  | burst rs =>
    simp only [opOk, decide_eq_true_eq] at hok
    obtain ⟨a', e1, e2⟩ := burst_cpl c hp s a idx (.burst rs) (toReads rs) hc h hok rfl rfl (fun _ => rfl)
      (fun _ => rfl)
    exact ⟨a', e1, fun _ => e2, fun hx => by cases hx⟩
  | race f o =>
    simp only [opOk, Bool.and_eq_true, decide_eq_true_eq] at hok
    obtain ⟨a', e1, e2⟩ := race_cpl c hp s a idx f o hc h hok.1 hok.2
    exact ⟨a', e1, fun _ => e2, fun hx => by cases hx⟩
  | tick d =>
    simp only [opOk, Bool.and_eq_true, decide_eq_true_eq] at hok
    have hw : ∀ wk w, s.rg = .sleep wk w → s.now + d ≤ wk := by
      intro wk w hx
      obtain ⟨m, hm, hle⟩ := nextTimer_sleep s wk w hx
      have := hok.2
      rw [hm] at this
      simp at this
      omega
    obtain ⟨a', e1, e2⟩ := tick_cpl c hp s a idx d hc h hw
    exact ⟨a', e1, fun _ => e2, fun hx => by cases hx⟩
  | reach up =>
    obtain ⟨a', e1, e2⟩ := reach_cpl c s a idx up hc h
    exact ⟨a', e1, fun _ => e2, fun hx => by cases hx⟩
  | close =>
    obtain ⟨a', e1, e2⟩ := close_cpl c hp s a idx hc h
    exact ⟨a', e1, (fun hx => by cases hx), fun _ => e2⟩

/-- after `Close()` no operation connects -/
theorem step_conns_closed (p : P) (hp : PH p) (s : St) (opened : Bool) (seen : List Nat) (op : Op)
    (hg : GInv p s opened true) (hok : opOk s opened true seen op = true) :
    (stepSt p s op).2.conns = 0 := by
  obtain ⟨q1, q2, q3⟩ := hg.post rfl
  have hc := hg.inv
  cases op with
  | opn => simp [opOk] at hok
  | close => simp [opOk] at hok
  | reach up => rfl
  | req id =>
    simp only [stepSt, doReq]
    by_cases hin : s.inst = false
    · rw [if_pos hin]
    · rw [if_neg hin]
      by_cases ho : s.tr.opening = true
      · rw [if_pos ho]
      · rw [if_neg ho, absorb_conns]
        exact (tstep_request hc.tr (by simpa using ho) id (tagOf id)).1.conns
  | wr o =>
    simp only [opOk, Bool.and_eq_true, decide_eq_true_eq] at hok
    simp only [stepSt, doWr, absorb_conns]
    cases hsl : s.tr.sl with
    | dead => rw [hsl] at hok; simp [isWriting] at hok
    | waitQ => rw [hsl] at hok; simp [isWriting] at hok
    | writing it =>
      by_cases ho : o = .ok
      · subst ho; exact (tstep_wr_ok hc.tr it hsl).1.conns
      · exact (tstep_wr_fail hc.tr it hsl o ho).1.conns
  | rd o f =>
    simp only [opOk, decide_eq_true_eq] at hok
    simp only [stepSt, doBurst, absorb_conns]
    by_cases hex : ∃ r ∈ [(o, f.toFrame)], r.1 ≠ IOOut.ok
    · exact (tstep_burst_fail hc.tr hok _ hex).1.conns
    · exact (tstep_burst_ok hc.tr hok _
        (fun r hr => Decidable.byContradiction (fun hne => hex ⟨r, hr, hne⟩))).1.conns
  | burst rs =>
    simp only [opOk, decide_eq_true_eq] at hok
    simp only [stepSt, doBurst, absorb_conns]
    by_cases hex : ∃ r ∈ toReads rs, r.1 ≠ IOOut.ok
    · exact (tstep_burst_fail hc.tr hok _ hex).1.conns
    · exact (tstep_burst_ok hc.tr hok _
        (fun r hr => Decidable.byContradiction (fun hne => hex ⟨r, hr, hne⟩))).1.conns
  | race f o =>
    simp only [opOk, Bool.and_eq_true, decide_eq_true_eq] at hok
    simp only [stepSt, doRace, absorb_conns]
    exact (tstep_race hc.tr hok.1 f.toFrame o hok.2).1.conns
  | tick d =>
    simp only [stepSt, doTick]
    -- the ping helper
    have p1 : (tickPing p { s with now := s.now + d }).1.rg = .none ∧
        (tickPing p { s with now := s.now + d }).1.sub = false ∧
        (tickPing p { s with now := s.now + d }).1.down = false ∧
        TInv (tickPing p { s with now := s.now + d }).1.tr ∧
        (tickPing p { s with now := s.now + d }).2.conns = 0 := by
      unfold tickPing
      by_cases hd : due ({ s with now := s.now + d } : St).pingDl ({ s with now := s.now + d } : St).now = true
      · rw [if_pos hd]
        obtain ⟨ts, _⟩ := tstep_pingSilence hc.tr
        obtain ⟨r1, r2, r3, r4, r5⟩ := absorb_post p ({ s with now := s.now + d } : St) _
          s.tr.pingSilence.2 ts.inv ⟨q1, q2, q3⟩
        exact ⟨r1, r2, r3, r5, by rw [r4]; exact ts.conns⟩
      · rw [if_neg hd]; exact ⟨q1, q2, q3, hc.tr, rfl⟩
    generalize (tickPing p { s with now := s.now + d }) = r1 at p1
    have p2 : (tickLoop p r1.1).1.rg = .none ∧ (tickLoop p r1.1).2.conns = 0 := by
      unfold tickLoop
      by_cases hd : due r1.1.pingDue r1.1.now = true
      · rw [if_pos hd]
        obtain ⟨ts, _⟩ := tstep_pingDue p1.2.2.2.1
        obtain ⟨r1', _, _, r4, _⟩ := absorb_post p r1.1 _ r1.1.tr.pingDue.2 ts.inv ⟨p1.1, p1.2.1, p1.2.2.1⟩
        exact ⟨r1', by show (absorb p r1.1 _ _).2.conns = 0; rw [r4]; exact ts.conns⟩
      · rw [if_neg hd]; exact ⟨p1.1, rfl⟩
    generalize (tickLoop p r1.1) = r2 at p2
    rw [tickWake_none p r2.1 p2.1]
    show r1.2.conns + r2.2.conns + 0 = 0
    rw [p1.2.2.2.2, p2.2]

/-- the state of the specification's automaton after a history -/
theorem spec_trace (c : Cfg) (hp : PH c.par) : ∀ (ops : List Op) (s : St) (a : MS) (opened closed : Bool)
    (seen : List Nat) (idx : Nat),
    GInv c.par s opened closed → (closed = false → Cpl c.par s a) → (closed = true → a.closed = true) →
    wfGo c.par s opened closed seen ops = true →
    specGo c a idx (comp.trace c s ops) = .ok := by
  intro ops
  induction ops with
  | nil => intros; rfl
  | cons op rest ih =>
    intro s a opened closed seen idx hg h1 h2 hw
    simp only [wfGo, Bool.and_eq_true] at hw
    obtain ⟨hok, hrest⟩ := hw
    have hg' := step_ginv c.par hp s opened closed seen op hg hok
    simp only [TComp.trace, comp, specGo]
    cases hcl : closed with
    | false =>
      subst hcl
      obtain ⟨a', e1, e2, e3⟩ := step_cpl c hp s a opened seen idx op hg (h1 rfl) hok
      rw [e1]
      apply ih _ a' _ _ _ _ hg' ?_ ?_ hrest
      · intro hx
        have : isClose op = false := by simpa using hx
        exact e2 this
      · intro hx
        have : isClose op = true := by simpa using hx
        exact e3 this
    | true =>
      subst hcl
      have hac := h2 rfl
      have hcn := step_conns_closed c.par hp s opened seen op hg hok
      have e1 : specStep c a idx op (step c s op).2 = (.ok, a) := by
        have : (step c s op).2.conns = 0 := hcn
        simp [specStep, hac, this]
      rw [e1]
      apply ih _ a _ _ _ _ hg' ?_ ?_ hrest
      · intro hx; simp at hx
      · intro _; exact hac

end Scales.ResMux
