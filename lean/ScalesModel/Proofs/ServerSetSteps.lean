/-
  Proofs/ServerSetSteps.lean — every enabled operation preserves the invariant of
  Proofs/ServerSetLemmas.lean and emits notifications that fit the consumer's view.
-/
import ScalesModel.Proofs.ServerSetLemmas
namespace Scales.ServerSet

theorem EnvEq.rfl' (s : St) (m : List Nat) (q : List (List Nat)) (j : Option Job) :
    EnvEq s { s with members := m, queue := q, job := j } :=
  ⟨rfl, rfl, rfl, rfl, rfl, rfl, rfl, rfl, rfl⟩

/-! ### listings by the consumer: the steps touch nothing but the listings -/

/-- a step that touched only the listings (`lists`, `lgen`, `done`) -/
structure ListsOnly (s s1 : St) : Prop where
  env : EnvEq s s1
  members : s1.members = s.members
  queue : s1.queue = s.queue
  job : s1.job = s.job

theorem ListsOnly.of (s : St) (g : Nat) (ls : List Lst) (d : List (Nat × List Nat)) :
    ListsOnly s { s with lgen := g, lists := ls, done := d } :=
  ⟨⟨rfl, rfl, rfl, rfl, rfl, rfl, rfl, rfl, rfl⟩, rfl, rfl, rfl⟩

theorem upd_isEmpty (i : Nat) (f : Lst → Lst) (ls : List Lst) :
    (Lst.upd i f ls).isEmpty = ls.isEmpty := by
  cases ls with
  | nil => rfl
  | cons x xs => simp only [Lst.upd]; split <;> rfl

theorem listStep_shape {cfg : Cfg} {s s1 : St} {nxt : Option Nat} (h : listStep cfg s nxt = some s1) :
    ListsOnly s s1 ∧ (s1.lists.isEmpty = true → s.lists.isEmpty = true) := by
  unfold listStep at h
  cases nxt with
  | none =>
    simp only at h
    split at h
    · injection h with h; subst h
      exact ⟨ListsOnly.of s _ _ _, fun h => h⟩
    · cases h
  | some n =>
    simp only at h
    split at h
    · injection h with h; subst h
      refine ⟨ListsOnly.of s _ _ _, ?_⟩
      intro h; simp at h
    · cases h

theorem lserveStep_shape {s s1 : St} {i : Nat} (h : lserveStep s i = some s1) :
    ListsOnly s s1 ∧ (s1.lists.isEmpty = true → s.lists.isEmpty = true) := by
  unfold lserveStep at h
  split at h
  · split at h
    · injection h with h; subst h
      refine ⟨ListsOnly.of s _ _ _, ?_⟩
      simp only [upd_isEmpty]; exact fun h => h
    · cases h
  · cases h

/-- the answer reaches a listing: either it reads on (nothing but the listings changes, no
    notification), or it returns — then the worker is woken in a state that differs from the old
    one in the listings only -/
theorem lretStep_cases {s s' : St} {i : Nat} {nxt : Option Nat} {ns : List Note}
    (h : lretStep s i nxt = some (s', ns)) :
    (ListsOnly s s' ∧ (s'.lists.isEmpty = true → s.lists.isEmpty = true) ∧ ns = []) ∨
    (∃ s1, ListsOnly s s1 ∧ wake s1 nxt = some (s', ns)) := by
  unfold lretStep at h
  split at h
  · rename_i l _
    split at h
    · simp only at h
      split at h
      · exact Or.inr ⟨_, ListsOnly.of s _ _ _, h⟩
      · cases nxt with
        | none => cases h
        | some m =>
          simp only at h
          split at h
          · simp only [Option.some.injEq, Prod.mk.injEq] at h
            obtain ⟨h1, h2⟩ := h
            subst h1; subst h2
            refine Or.inl ⟨ListsOnly.of s _ _ _, ?_, rfl⟩
            simp only [upd_isEmpty]; exact fun h => h
          · cases h
    · cases h
  · cases h

theorem synced_of_EnvEq {s s' : St} (h : EnvEq s s') (hs : synced s') : synced s := by
  unfold synced at *
  rw [h.cw, h.watched] at hs
  exact hs

/-- a step that touched only the listings — and did not end the last one — keeps the invariant -/
theorem lists_only_inv {cfg : Cfg} {s s' : St} (hi : Inv cfg s) (hst : s.started = true)
    (lo : ListsOnly s s') (hl : s'.lists.isEmpty = true → s.lists.isEmpty = true) : Inv cfg s' := by
  refine ⟨⟨?_, ?_, ⟨?_, ?_, ?_, ?_⟩⟩, ?_, fun _ => EnvInv_eq lo.env (hi.env hst), fun _ => ?_⟩
  · rw [lo.env.tree]; exact hi.i0.knd
  · rw [lo.env.tree]; exact hi.i0.pgen
  · rw [lo.members]; exact hi.i0.wok.mnd
  · rw [lo.queue]; exact hi.i0.wok.qnd
  · intro hj hf
    rw [lo.queue]
    exact hi.i0.wok.idle (lo.job ▸ hj) (hl hf)
  · rw [lo.members, lo.job]; exact hi.i0.wok.jok
  · intro h; rw [lo.env.started, hst] at h; cases h
  · exact LastS_mono lo.queue lo.job lo.members lo.env.nodes (synced_of_EnvEq lo.env) (hi.last hst)

theorem ListsOnly.callbackOut {cfg : Cfg} {s s1 : St} (lo : ListsOnly s s1) (he : EnvInv cfg s) :
    CallbackOut cfg s s1 :=
  ⟨EnvInv_eq lo.env he, lo.members, lo.job, lo.env.tree,
    Or.inr ⟨lo.queue, lo.env.nodes, synced_of_EnvEq lo.env⟩⟩

/-! ### serve -/

theorem serve_inv {cfg : Cfg} {s s' : St} (hi : Inv cfg s) (hn : serveStep s = some s') :
    Inv cfg s' ∧ s'.members = s.members ∧ s'.tree = s.tree := by
  unfold serveStep at hn
  cases hjob : s.job with
  | none => rw [hjob] at hn; cases hn
  | some j =>
    rw [hjob] at hn
    simp only at hn
    cases hcur : j.cur with
    | served n f => rw [hcur] at hn; cases hn
    | requested n =>
      rw [hcur] at hn
      simp only [Option.some.injEq] at hn
      subst hn
      have hjk := hi.i0.wok.jok j hjob
      have hname : j.cur.name = n := by rw [hcur]; rfl
      have hnopre : s.started = false → False := fun hs => by
        have := (hi.pre hs).job; rw [hjob] at this; cases this
      refine ⟨⟨⟨hi.i0.knd, hi.i0.pgen, ⟨hi.i0.wok.mnd, hi.i0.wok.qnd, by simp, ?_⟩⟩, fun hs => (hnopre hs).elim, ?_, ?_⟩,
        rfl, rfl⟩
      · intro j' hj'
        simp only [Option.some.injEq] at hj'
        subst hj'
        exact ⟨hjk.lnd, hjk.gnd, hjk.tnd, hname ▸ hjk.cur_todo, hname ▸ hjk.cur_got, hname ▸ hjk.cur_mem,
          hname ▸ hjk.cur_lst, hjk.todo_mem, hjk.todo_got, hjk.todo_lst, hjk.got_mem, hjk.got_lst⟩
      · intro hs
        exact EnvInv_eq (EnvEq.rfl' s s.members s.queue _) (hi.env hs)
      · intro hs
        have he := hi.env hs
        rcases hi.last hs with h | ⟨h1, j0, h2, h3, h4⟩ | ⟨_, h2, _⟩
        · exact Or.inl h
        · rw [hjob] at h2
          injection h2 with h2
          subst h2
          refine Or.inr (Or.inl ⟨h1, _, rfl, h3, ?_⟩)
          intro hsy
          have hsy' : synced s := hsy
          obtain ⟨hf, _⟩ := h4 hsy'
          refine ⟨?_, ?_⟩
          · intro x hx
            have := hf x hx
            simp only [Rd.name]
            rw [hname] at this
            exact this
          · intro m hm
            simp only [Rd.served.injEq] at hm
            have hin : n ∈ s.nodes := by rw [← h3, ← hname]; exact hjk.cur_lst
            have := synced_found he hsy' hin
            rw [← List.contains_iff_mem] at this
            rw [this] at hm
            cases hm.2
        · rw [hjob] at h2; cases h2

/-! ### ret -/

theorem got_ok {members : List Nat} {j : Job} (hjk : JobOk members j) (found : Bool) :
    (if found then j.got ++ [j.cur.name] else j.got).Nodup ∧
    (∀ x ∈ (if found then j.got ++ [j.cur.name] else j.got), x ∉ members) ∧
    (∀ x ∈ (if found then j.got ++ [j.cur.name] else j.got), x ∈ j.listing) ∧
    (∀ x ∈ (if found then j.got ++ [j.cur.name] else j.got), x ∈ j.got ∨ x = j.cur.name) ∧
    (found = true → j.cur.name ∈ (if found then j.got ++ [j.cur.name] else j.got)) ∧
    (∀ x ∈ j.got, x ∈ (if found then j.got ++ [j.cur.name] else j.got)) := by
  cases found with
  | false =>
    simp only [Bool.false_eq_true, if_false]
    exact ⟨hjk.gnd, hjk.got_mem, hjk.got_lst, fun x hx => Or.inl hx, by simp, fun x hx => hx⟩
  | true =>
    simp only [if_true]
    refine ⟨?_, ?_, ?_, ?_, by simp, fun x hx => List.mem_append_left _ hx⟩
    · rw [List.nodup_append]
      refine ⟨hjk.gnd, List.nodup_singleton _, ?_⟩
      intro a ha b hb hab
      simp only [List.mem_singleton] at hb
      subst hb; subst hab
      exact hjk.cur_got ha
    · intro x hx
      rcases List.mem_append.mp hx with h | h
      · exact hjk.got_mem x h
      · simp only [List.mem_singleton] at h; subst h; exact hjk.cur_mem
    · intro x hx
      rcases List.mem_append.mp hx with h | h
      · exact hjk.got_lst x h
      · simp only [List.mem_singleton] at h; subst h; exact hjk.cur_lst
    · intro x hx
      rcases List.mem_append.mp hx with h | h
      · exact Or.inl h
      · simp only [List.mem_singleton] at h; exact Or.inr h

theorem ret_inv {cfg : Cfg} {s s' : St} {nxt : Option Nat} {ns : List Note} (hi : Inv cfg s)
    (hn : retStep s nxt = some (s', ns)) :
    Inv cfg s' ∧ altOk s.members ns = true ∧ viewOf s.members ns = s'.members ∧ s'.tree = s.tree := by
  unfold retStep at hn
  cases hjob : s.job with
  | none => rw [hjob] at hn; cases hn
  | some j =>
    rw [hjob] at hn
    simp only at hn
    cases hcur : j.cur with
    | requested n => rw [hcur] at hn; cases hn
    | served n found =>
      rw [hcur] at hn
      simp only at hn
      have hjk := hi.i0.wok.jok j hjob
      have hname : j.cur.name = n := by rw [hcur]; rfl
      obtain ⟨g1, g2, g3, g4, g5, g6⟩ := got_ok hjk found
      rw [hname] at g1 g2 g3 g4 g5 g6
      have hnopre : s.started = false → False := fun hs => by
        have := (hi.pre hs).job; rw [hjob] at this; cases this
      split at hn
      · -- last read of the update: notifications go out, the worker takes what is queued
        rename_i hte
        have hte' : j.todo = [] := List.isEmpty_iff.mp hte
        obtain ⟨f1, f2, f3⟩ := finishJob_spec s.members j.listing _ hi.i0.wok.mnd g1 g2
        cases hp : pumpB s.lists.isEmpty (finishJob s.members j.listing (if found then j.got ++ [n] else j.got)).1 s.queue nxt with
        | none => rw [hp] at hn; cases hn
        | some w =>
          rw [hp] at hn
          simp only [Option.map_some, Option.some.injEq, Prod.mk.injEq] at hn
          obtain ⟨hn1, hn2⟩ := hn
          subst hn1; subst hn2
          obtain ⟨hok, ha, hv, hl, he0⟩ := pumpB_spec _ s.queue _ nxt w f1 hi.i0.wok.qnd hp
          refine ⟨⟨⟨hi.i0.knd, hi.i0.pgen, hok⟩, fun hs => (hnopre hs).elim, ?_, ?_⟩, ?_, ?_, rfl⟩
          · intro hs
            exact EnvInv_eq (EnvEq.rfl' s _ _ _) (hi.env hs)
          · intro hs
            have he := hi.env hs
            rcases hi.last hs with h | ⟨h1, j0, h2, h3, h4⟩ | ⟨_, h2, _⟩
            · exact LastOk_LastS (hl _ h)
            · rw [hjob] at h2
              injection h2 with h2
              subst h2
              obtain ⟨e1, e2, e3, _⟩ := he0 h1
              refine Or.inr (Or.inr ⟨e2, e3, ?_⟩)
              intro hsy
              have hsy' : synced s := hsy
              obtain ⟨hf, hnm⟩ := h4 hsy'
              simp only [e1]
              rw [← h3]
              apply finishJob_complete _ _ _ g3
              intro x hx
              rcases hf x hx with h | h | h | h
              · exact Or.inl h
              · exact Or.inr (g6 x h)
              · rw [hte'] at h; cases h
              · right
                rw [hname] at h
                subst h
                apply g5
                cases found with
                | true => rfl
                | false => exact absurd hcur (hnm x)
            · rw [hjob] at h2; cases h2
          · rw [altOk_append, f2, f3, ha]; rfl
          · rw [viewOf_append, f3, hv]
      · -- more to read
        rename_i hte
        cases nxt with
        | none => cases hn
        | some m =>
          simp only at hn
          split at hn
          · rename_i hm
            simp only [Option.some.injEq, Prod.mk.injEq] at hn
            obtain ⟨hn1, hn2⟩ := hn
            subst hn1; subst hn2
            have hmt : m ∈ j.todo := by simpa using hm
            have hnt : n ∉ j.todo := by rw [← hname]; exact hjk.cur_todo
            refine ⟨⟨⟨hi.i0.knd, hi.i0.pgen, ⟨hi.i0.wok.mnd, hi.i0.wok.qnd, by simp, ?_⟩⟩, fun hs => (hnopre hs).elim, ?_, ?_⟩,
              by simp [altOk], by simp [viewOf], rfl⟩
            · intro j' hj'
              simp only [Option.some.injEq] at hj'
              subst hj'
              refine ⟨hjk.lnd, g1, hjk.tnd.erase _, ?_, ?_, hjk.todo_mem m hmt, hjk.todo_lst m hmt,
                ?_, ?_, ?_, g2, g3⟩
              · simp only [Rd.name]
                intro h
                exact ((List.Nodup.mem_erase_iff hjk.tnd).mp h).1 rfl
              · simp only [Rd.name]
                intro h
                rcases g4 m h with h' | h'
                · exact hjk.todo_got m hmt h'
                · exact hnt (h' ▸ hmt)
              · intro x hx; exact hjk.todo_mem x (List.mem_of_mem_erase hx)
              · intro x hx h
                have hxt := List.mem_of_mem_erase hx
                rcases g4 x h with h' | h'
                · exact hjk.todo_got x hxt h'
                · exact hnt (h' ▸ hxt)
              · intro x hx; exact hjk.todo_lst x (List.mem_of_mem_erase hx)
            · intro hs
              exact EnvInv_eq (EnvEq.rfl' s s.members s.queue _) (hi.env hs)
            · intro hs
              rcases hi.last hs with h | ⟨h1, j0, h2, h3, h4⟩ | ⟨_, h2, _⟩
              · exact Or.inl h
              · rw [hjob] at h2
                injection h2 with h2
                subst h2
                refine Or.inr (Or.inl ⟨h1, _, rfl, h3, ?_⟩)
                intro hsy
                have hsy' : synced s := hsy
                obtain ⟨hf, hnm⟩ := h4 hsy'
                refine ⟨?_, by intro x hx; cases hx⟩
                intro x hx
                simp only [Rd.name]
                rcases hf x hx with h | h | h | h
                · exact Or.inl h
                · exact Or.inr (Or.inl (g6 x h))
                · by_cases hxm : x = m
                  · exact Or.inr (Or.inr (Or.inr hxm))
                  · exact Or.inr (Or.inr (Or.inl ((List.mem_erase_of_ne hxm).mpr h)))
                · right; left
                  rw [hname] at h
                  subst h
                  apply g5
                  cases found with
                  | true => rfl
                  | false => exact absurd hcur (hnm x)
              · rw [hjob] at h2; cases h2
          · cases hn


/-! ### an event is delivered / the ServerSet is constructed -/

/-- common tail: a recipe callback ran (state `s1`), then the worker woke up -/
theorem after_callback {cfg : Cfg} {s s1 s2 : St} {nxt : Option Nat} {ns : List Note} (hi0 : Inv0 s)
    (hl : LastS s) (hco : CallbackOut cfg s s1) (hst : s1.started = true)
    (hw : wake s1 nxt = some (s2, ns)) :
    Inv cfg s2 ∧ altOk s.members ns = true ∧ viewOf s.members ns = s2.members ∧ s2.tree = s.tree := by
  obtain ⟨he1, hm, hj, ht, hq⟩ := hco
  have hqnd : ∀ l ∈ s1.queue, l.Nodup := by
    rcases hq with ⟨_, l, h, hl⟩ | ⟨h, _⟩
    · rw [h]
      intro x hx
      rcases List.mem_append.mp hx with hx | hx
      · exact hi0.wok.qnd x hx
      · simp only [List.mem_singleton] at hx; subst hx; exact hl hi0.knd
    · rw [h]; exact hi0.wok.qnd
  obtain ⟨hok, ha, hv, heq, hL⟩ := wake_spec (s1 := s1) (by rw [hm]; exact hi0.wok.mnd) hqnd
    (by rw [hm, hj]; exact hi0.wok.jok) hw
  rw [hm] at ha hv
  refine ⟨⟨⟨?_, ?_, hok⟩, ?_, fun _ => EnvInv_eq heq he1, fun _ => ?_⟩, ha, hv, by rw [heq.tree, ht]⟩
  · rw [heq.tree, ht]; exact hi0.knd
  · rw [heq.tree, ht]; exact hi0.pgen
  · intro h; rw [heq.started, hst] at h; cases h
  · rcases hq with ⟨h, _⟩ | ⟨h1, h2, h3⟩
    · exact hL (Or.inl h)
    · exact hL (LastS_mono h1 hj hm h2 h3 hl)

/-! ### every enabled operation -/

theorem next_inv {cfg : Cfg} {s s' : St} {op : Op} {ns : List Note} (hi : Inv cfg s)
    (hn : next cfg s op = some (s', ns)) :
    Inv cfg s' ∧ altOk s.members ns = true ∧ viewOf s.members ns = s'.members ∧
    s'.tree = specTree s.tree op := by
  cases op with
  | tree o =>
    simp only [next] at hn
    split at hn
    · rename_i hl
      simp only [Option.some.injEq, Prod.mk.injEq] at hn
      obtain ⟨h1, h2⟩ := hn
      subst h1; subst h2
      have hinv := treeStep_inv o hi hl
      obtain ⟨hmem, _, _, _, _, htre, _⟩ := treeStep_fields s o
      exact ⟨hinv, by simp [altOk], by simp [viewOf, hmem], by simp [specTree, hl, htre]⟩
    · cases hn
  | start nxt =>
    simp only [next] at hn
    split at hn
    · cases hn
    · rename_i hns
      have hns' : s.started = false := by simpa using hns
      have hp := hi.pre hns'
      have hl : LastS s := Or.inr (Or.inr ⟨hp.queue, hp.job, fun _ n => by rw [hp.members, hp.nodes]⟩)
      exact after_callback hi.i0 hl (dataDeliver_start hi.i0 hp)
        (by
          obtain ⟨hm, hj, ht, hq⟩ := (dataDeliver_start (cfg := cfg) hi.i0 hp)
          rcases dataDeliver_cases cfg { s with started := true } (by show s.watched = s.seen; rw [hp.watched, hp.seen])
            with ⟨_, h⟩ | ⟨_, _, h⟩ | ⟨_, g, _, h⟩ <;> rw [h])
        hn
  | deliver nxt =>
    simp only [next] at hn
    split at hn
    · rename_i hs
      have he := hi.env hs
      split at hn
      · cases hn
      · rename_i rest hp
        refine after_callback hi.i0 (hi.last hs) (dataDeliver_env hi.i0 he hp) ?_ hn
        rcases dataDeliver_cases cfg { s with pending := rest } he.e4
          with ⟨_, h⟩ | ⟨_, _, h⟩ | ⟨_, g, _, h⟩ <;> rw [h] <;> exact hs
      · rename_i tag rest hp
        refine after_callback hi.i0 (hi.last hs) (childDeliver_env he hp) ?_ hn
        cases tag with
        | none => exact hs
        | some g =>
          simp only [childDeliver]
          split
          · simp only [listChildren]; split <;> exact hs
          · exact hs
    · cases hn
  | serve =>
    simp only [next] at hn
    cases hsv : serveStep s with
    | none => rw [hsv] at hn; cases hn
    | some s1 =>
      rw [hsv] at hn
      simp only [Option.map_some, Option.some.injEq, Prod.mk.injEq] at hn
      obtain ⟨h1, h2⟩ := hn
      subst h1; subst h2
      obtain ⟨hinv, hm, ht⟩ := serve_inv hi hsv
      exact ⟨hinv, by simp [altOk], by simp [viewOf, hm], ht⟩
  | ret nxt =>
    simp only [next] at hn
    exact ret_inv hi hn
  | list nxt =>
    simp only [next] at hn
    split at hn
    · rename_i hs
      cases hl : listStep cfg s nxt with
      | none => rw [hl] at hn; cases hn
      | some s1 =>
        rw [hl] at hn
        simp only [Option.map_some, Option.some.injEq, Prod.mk.injEq] at hn
        obtain ⟨h1, h2⟩ := hn
        subst h1; subst h2
        obtain ⟨lo, hle⟩ := listStep_shape hl
        exact ⟨lists_only_inv hi hs lo hle, by simp [altOk], by simp [viewOf, lo.members],
          by rw [lo.env.tree]; rfl⟩
    · cases hn
  | lserve i =>
    simp only [next] at hn
    split at hn
    · rename_i hs
      cases hl : lserveStep s i with
      | none => rw [hl] at hn; cases hn
      | some s1 =>
        rw [hl] at hn
        simp only [Option.map_some, Option.some.injEq, Prod.mk.injEq] at hn
        obtain ⟨h1, h2⟩ := hn
        subst h1; subst h2
        obtain ⟨lo, hle⟩ := lserveStep_shape hl
        exact ⟨lists_only_inv hi hs lo hle, by simp [altOk], by simp [viewOf, lo.members],
          by rw [lo.env.tree]; rfl⟩
    · cases hn
  | lret i nxt =>
    simp only [next] at hn
    split at hn
    · rename_i hs
      rcases lretStep_cases hn with ⟨lo, hle, hns⟩ | ⟨s1, lo, hw⟩
      · subst hns
        exact ⟨lists_only_inv hi hs lo hle, by simp [altOk], by simp [viewOf, lo.members],
          by rw [lo.env.tree]; rfl⟩
      · exact after_callback hi.i0 (hi.last hs) (lo.callbackOut (hi.env hs))
          (by rw [lo.env.started]; exact hs) hw
    · cases hn

theorem Inv_init (cfg : Cfg) : Inv cfg St.init := by
  refine ⟨⟨List.nodup_nil, ?_, ⟨List.nodup_nil, ?_, fun _ _ => rfl, ?_⟩⟩,
    fun _ => ⟨rfl, rfl, rfl, rfl, rfl, rfl, rfl, rfl, rfl, rfl⟩, ?_, ?_⟩
  · intro g hg; simp [St.init, Tree.init] at hg
  · intro l hl; simp [St.init] at hl
  · intro j hj; simp [St.init] at hj
  · intro h; simp [St.init] at h
  · intro h; simp [St.init] at h

end Scales.ServerSet
