import ScalesModel.Proofs.HeapSimStep

/-! Induction over the operation list: `Inv` and the simulation hold along every legal history,
    hence both executable specifications answer `ok` on the model's history. -/
namespace Scales.Heap

/-- legality of a single operation, as `opsOk` checks it -/
def opOk (s : HS) (op : Op) : Bool :=
  match op with
  | .put r j =>
    (match s.reqs[r]? with
     | some (nid, false) => if s.putDraws nid then decide (1 ≤ j ∧ j ≤ s.size) else j == 0
     | some (_, true) => true
     | none => false)
  | .chan nid st => decide (nid < s.nodes.length) && decide (1 ≤ st ∧ st ≤ 4)
  | _ => true

theorem opsOk_cons (s : HS) (op : Op) (ops : List Op) :
    opsOk s (op :: ops) = (opOk s op && opsOk (step () s op).1 ops) := rfl

theorem opOk_put (s : HS) (r j : Nat) (h : opOk s (.put r j) = true) :
    ∀ nid, s.reqs[r]? = some (nid, false) → s.putDraws nid = true → 1 ≤ j ∧ j ≤ s.size := by
  intro nid hr hd
  unfold opOk at h
  simp only [hr, hd, if_true, decide_eq_true_eq] at h
  exact h

/-- dispatches an operation adds -/
def opGets : Op → Nat
  | .get => 1
  | _ => 0

theorem getCount_cons (op : Op) (ops : List Op) : getCount (op :: ops) = getCount ops + opGets op := by
  cases op <;> rfl

theorem put_reqs_len (s : HS) (h : Inv s) (r j : Nat)
    (hj : ∀ nid, s.reqs[r]? = some (nid, false) → s.putDraws nid = true → 1 ≤ j ∧ j ≤ s.size) :
    (s.put r j).reqs.length = s.reqs.length := by
  unfold HS.put
  split
  · rfl
  · rfl
  · rename_i nid hreq
    rw [(putNode_spec s h r nid j hreq (hj nid hreq)).2.reqs, List.length_set]

theorem step_spec (s : HS) (op : Op) (h : Inv s) (hok : opOk s op = true)
    (hb : s.reqs.length + opGets op < maxReqs) :
    Inv (step () s op).1 ∧ (step () s op).1.reqs.length ≤ s.reqs.length + opGets op := by
  cases op with
  | join ep =>
    refine ⟨Inv_join s h ep, ?_⟩
    show (s.join ep).reqs.length ≤ _
    by_cases hin : ep ∈ s.servers
    · rw [join_old s ep hin]; omega
    · rw [(join_facts s h ep hin).2.1]; omega
  | leave ep =>
    refine ⟨Inv_leave s h ep, ?_⟩
    show (s.leave ep).reqs.length ≤ _
    cases hf : s.findByEp ep with
    | none => rw [(leave_none s ep hf).2]; omega
    | some nid => rw [(leave_some s h ep nid hf).2.2.2.1]; omega
  | get =>
    refine ⟨Inv_get s h hb, ?_⟩
    show (s.get noHook).1.reqs.length ≤ _
    by_cases hsz : s.size = 0
    · rw [get_empty s hsz]; show s.reqs.length ≤ _; omega
    · obtain ⟨nid, _, _, f1, _⟩ := get_facts s h hsz
      rw [f1, List.length_append]; exact Nat.le_refl _
  | put r j =>
    refine ⟨Inv_put s h r j (opOk_put s r j hok), ?_⟩
    show (s.put r j).reqs.length ≤ _
    rw [put_reqs_len s h r j (opOk_put s r j hok)]; omega
  | chan nid st =>
    refine ⟨Inv_setChan s h nid st, ?_⟩
    show (s.setChan nid st).reqs.length ≤ _
    rw [(setChan_facts s nid st).2.1]; omega

/-- the state after an operation list -/
def runOps (s : HS) : List Op → HS
  | [] => s
  | op :: ops => runOps (step () s op).1 ops

theorem Inv_run (ops : List Op) : ∀ (s : HS), Inv s → opsOk s ops = true →
    s.reqs.length + getCount ops < maxReqs → Inv (runOps s ops) := by
  induction ops with
  | nil => intro s h _ _; exact h
  | cons op ops ih =>
    intro s h hok hb
    rw [opsOk_cons, Bool.and_eq_true] at hok
    rw [getCount_cons] at hb
    obtain ⟨i1, l1⟩ := step_spec s op h hok.1 (by omega)
    exact ih _ i1 hok.2 (by omega)

theorem sim_step (a : A0) (s : HS) (op : Op) (h : Inv s) (hs : Sim0 a s) (hp : PrevOk a s)
    (hok : opOk s op = true) :
    Sim0 (a.after op (step () s op).2) (step () s op).1 ∧ PrevOk (a.after op (step () s op).2) (step () s op).1 := by
  cases op with
  | join ep =>
    rw [after_join]
    exact ⟨(sim_join a s ep h hs).setPrev _, PrevOk_obsOf _ _ _⟩
  | leave ep =>
    rw [after_leave]
    exact ⟨(sim_leave a s ep h hs hp).setPrev _, PrevOk_obsOf _ _ _⟩
  | get =>
    rw [after_get]
    exact ⟨(sim_get a s h hs).setPrev _, PrevOk_obsOf _ _ _⟩
  | put r j =>
    rw [after_put]
    exact ⟨(sim_put a s r j h hs (opOk_put s r j hok)).setPrev _, PrevOk_obsOf _ _ _⟩
  | chan nid st =>
    rw [after_chan]
    exact ⟨(sim_chan a s nid st hs).setPrev _, PrevOk_obsOf _ _ _⟩

theorem trace_cons (which : Nat) (s : HS) (op : Op) (ops : List Op) :
    (comp which).trace () s (op :: ops) =
      (op, (step () s op).2) :: (comp which).trace () (step () s op).1 ops := rfl

theorem step_obs (s : HS) (op : Op) : ∃ res, (step () s op).2 = obsOf (step () s op).1 res := by
  cases op <;> exact ⟨_, rfl⟩

theorem and_ok (v : Verdict) (f : Unit → Verdict) (h1 : v = .ok) (h2 : f () = .ok) : v.and f = .ok := by
  subst h1; exact h2

theorem spec_ok (which : Nat) (ops : List Op) : ∀ (s : HS) (a : A0) (idx : Nat), Inv s → Sim0 a s → PrevOk a s →
    opsOk s ops = true → s.reqs.length + getCount ops < maxReqs →
    specGo which a idx ((comp which).trace () s ops) = .ok := by
  induction ops with
  | nil => intro s a idx _ _ _ _ _; rfl
  | cons op ops ih =>
    intro s a idx h hs hp hok hb
    rw [opsOk_cons, Bool.and_eq_true] at hok
    rw [getCount_cons] at hb
    obtain ⟨i1, l1⟩ := step_spec s op h hok.1 (by omega)
    obtain ⟨s1, p1⟩ := sim_step a s op h hs hp hok.1
    rw [trace_cons]
    unfold specGo
    apply and_ok
    · by_cases hw : which = 3
      · rw [if_pos hw]
        cases op with
        | get => exact c03_ok a s h hs idx
        | _ => rfl
      · rw [if_neg hw]
    · apply and_ok
      · by_cases hw : which = 4
        · rw [if_pos hw]
          obtain ⟨res, hres⟩ := step_obs s op
          rw [hres] at s1 ⊢
          exact c04_ok _ _ i1 s1 idx res
        · rw [if_neg hw]
      · exact ih _ _ (idx + 1) i1 s1 p1 hok.2 (by omega)

theorem Sim0_init : Sim0 {} HS.init := by
  refine ⟨rfl, rfl, rfl, rfl, ?_, ?_, ?_, rfl, ?_⟩
  · intro id ep
    constructor
    · intro h; simp at h
    · rintro ⟨⟨p, h1, h2, _⟩, _⟩
      have : HS.init.size = 0 := rfl
      omega
  · intro id hl; have : HS.init.nodes.length = 0 := rfl; omega
  · intro id hl; have : HS.init.nodes.length = 0 := rfl; omega
  · intro id hl; have : HS.init.nodes.length = 0 := rfl; omega

theorem PrevOk_init : PrevOk {} HS.init := by
  intro id hl; have : HS.init.nodes.length = 0 := rfl; omega

end Scales.Heap
