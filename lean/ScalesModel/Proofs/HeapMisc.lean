import ScalesModel.Proofs.HeapSpec

/-! Further consequences used by Props/C04.lean: a completion is idempotent; a node that left
    the heap never returns. -/
namespace Scales.Heap

theorem fixUp_reqs (s : HS) (i : Nat) : (s.fixUp i).reqs = s.reqs := by
  fun_induction HS.fixUp s i with
  | case1 s i hc ih => rw [ih]; rfl
  | case2 s i hc => rfl
theorem fixDown_reqs (s : HS) (i j : Nat) : (s.fixDown i j).reqs = s.reqs := by
  fun_induction HS.fixDown s i j with
  | case1 s i hc m hlt ih => rw [ih]; rfl
  | case2 s i hc m hlt => rfl
  | case3 s i hc => rfl
theorem delAt_reqs (s : HS) (i : Nat) : (s.delAt i).reqs = s.reqs := by
  unfold HS.delAt
  dsimp only
  split
  · rw [fixUp_reqs, fixDown_reqs]; rfl
  · rw [fixDown_reqs]; rfl
theorem putNode_reqs (s : HS) (nid j : Nat) : (s.putNode nid j).reqs = s.reqs := by
  rw [putNode_eq]
  generalize (if (s.node nid).load - 1 < Idle then Idle else (s.node nid).load - 1) = v
  split
  · rfl
  · split
    · rfl
    · split
      · rw [fixUp_reqs, fixUp_reqs, swap_reqs, delAt_reqs]; rfl
      · rw [fixUp_reqs]; rfl
theorem put_idem (s : HS) (r j j' : Nat) : (s.put r j).put r j' = s.put r j := by
  unfold HS.put
  cases hreq : s.reqs[r]? with
  | none => simp only [hreq]
  | some x =>
    obtain ⟨nid, b⟩ := x
    cases b with
    | true => simp only [hreq]
    | false =>
      dsimp only
      have : (({ s with reqs := s.reqs.set r (nid, true) } : HS).putNode nid j).reqs[r]? = some (nid, true) := by
        rw [putNode_reqs]
        show (s.reqs.set r (nid, true))[r]? = _
        have hr : r < s.reqs.length := by
          by_contra hc
          rw [List.getElem?_eq_none (by omega)] at hreq
          exact absurd hreq (by simp)
        rw [List.getElem?_set_self hr]
      rw [this]

/-- a node that is no longer in the heap stays out of it -/
theorem step_removed (s : HS) (op : Op) (h : Inv s) (hok : opOk s op = true) (id : Nat)
    (hl : id < s.nodes.length) (hn : ¬ InHeap s id) :
    id < (step () s op).1.nodes.length ∧ ¬ InHeap (step () s op).1 id := by
  cases op with
  | join ep =>
    show id < (s.join ep).nodes.length ∧ ¬ InHeap (s.join ep) id
    by_cases hin : ep ∈ s.servers
    · rw [join_old s ep hin]; exact ⟨hl, hn⟩
    · obtain ⟨f1, _, f3, _⟩ := join_facts s h ep hin
      rw [f1, f3]
      exact ⟨by omega, by rintro (x | x); exact hn x; omega⟩
  | leave ep =>
    show id < (s.leave ep).nodes.length ∧ ¬ InHeap (s.leave ep) id
    cases hf : s.findByEp ep with
    | none =>
      obtain ⟨e, _⟩ := leave_none s ep hf
      rw [e.len, e.inHeap]; exact ⟨hl, hn⟩
    | some nid =>
      obtain ⟨_, _, f1, _, f3, _⟩ := leave_some s h ep nid hf
      rw [f1, f3]; exact ⟨hl, fun x => hn x.1⟩
  | get =>
    show id < (s.get noHook).1.nodes.length ∧ ¬ InHeap (s.get noHook).1 id
    by_cases hsz : s.size = 0
    · rw [get_empty s hsz]; exact ⟨hl, hn⟩
    · obtain ⟨nid, _, _, _, f2, f3, _⟩ := get_facts s h hsz
      rw [f2, f3]; exact ⟨hl, hn⟩
  | put r j =>
    show id < (s.put r j).nodes.length ∧ ¬ InHeap (s.put r j) id
    unfold HS.put
    split
    · exact ⟨hl, hn⟩
    · exact ⟨hl, hn⟩
    · rename_i nid hreq
      obtain ⟨_, pe⟩ := putNode_spec s h r nid j hreq (opOk_put s r j hok nid hreq)
      rw [pe.len, pe.inHeap]; exact ⟨hl, hn⟩
  | chan nid st =>
    show id < (s.setChan nid st).nodes.length ∧ ¬ InHeap (s.setChan nid st) id
    obtain ⟨f1, _, f3, _⟩ := setChan_facts s nid st
    rw [f1, f3]; exact ⟨hl, hn⟩

theorem run_removed (ops : List Op) : ∀ (s : HS), Inv s → opsOk s ops = true →
    s.reqs.length + getCount ops < maxReqs → ∀ id, id < s.nodes.length → ¬ InHeap s id →
    Inv (runOps s ops) ∧ id < (runOps s ops).nodes.length ∧ ¬ InHeap (runOps s ops) id := by
  induction ops with
  | nil => intro s h _ _ id hl hn; exact ⟨h, hl, hn⟩
  | cons op ops ih =>
    intro s h hok hb id hl hn
    rw [opsOk_cons, Bool.and_eq_true] at hok
    rw [getCount_cons] at hb
    obtain ⟨i1, l1⟩ := step_spec s op h hok.1 (by omega)
    obtain ⟨r1, r2⟩ := step_removed s op h hok.1 id hl hn
    exact ih _ i1 hok.2 (by omega) id r1 r2

end Scales.Heap
