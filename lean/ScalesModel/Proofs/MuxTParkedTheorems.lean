/-
  Proofs/MuxTParkedTheorems.lean — proofs of the C08 property theorems of the ThriftMux transport
  with the callers blocked on its open result (component `muxt` = `pcomp`), in the namespace of
  the model; Props/C08.lean restates them.
-/
import ScalesModel.Proofs.MuxTParkedSpec
set_option linter.unusedSimpArgs false
set_option linter.unusedVariables false
namespace Scales.MuxT
open Scales.Transport

/-! ### specification level -/

theorem traceP_cons (ps : PSt) (op : POp) (ops : List POp) :
    pcomp.trace () ps (op :: ops) =
      (op, obsOfP (stepOutP ps op).1 (stepOutP ps op).2) :: pcomp.trace () (stepOutP ps op).1 ops := rfl

theorem spec_of_relP : ∀ (ops : List POp) (ps : PSt) (a : Acc) (seen : List Nat), RelP ps a seen →
    opsOkP ps seen ops = true → specGo a (viewH (pcomp.trace () ps ops)) = .ok := by
  intro ops
  induction ops with
  | nil => intros; rfl
  | cons op ops ih =>
    intro ps a seen hrel hok
    simp only [opsOkP, Bool.and_eq_true] at hok
    obtain ⟨hen, hrest⟩ := hok
    obtain ⟨hv, hrel'⟩ := step_okP ps a seen op hrel hen
    rw [traceP_cons]
    simp only [viewH, List.map_cons, specGo]
    exact and_ok hv (ih _ _ _ hrel' hrest)

/-- **C08, ThriftMux transport with blocked callers, specification level.** -/
theorem model_satisfies_specP (ops : List POp) (h : pcomp.wf () ops = true) :
    pcomp.spec () (pcomp.modelTrace () ops) = .ok :=
  spec_of_relP ops PSt.init {} [] relP_init h

theorem responsesTo_view (id : Nat) (h : List (POp × Obs)) :
    responsesTo id (viewH h) = responsesToP id h := by
  simp [responsesTo, responsesToP, viewH, List.map_map, Function.comp_def]

theorem issued_leP (id : Nat) : ∀ (ops : List POp) (ps : PSt) (seen : List Nat),
    opsOkP ps seen ops = true →
    issued id (viewH (pcomp.trace () ps ops)) ≤ (if id ∈ seen then 0 else 1) := by
  intro ops
  induction ops with
  | nil => intros; simp [TComp.trace, issued, viewH]
  | cons op ops ih =>
    intro ps seen hok
    simp only [opsOkP, Bool.and_eq_true] at hok
    obtain ⟨hen, hrest⟩ := hok
    have ih' := ih _ _ hrest
    rw [traceP_cons]
    simp only [viewH, List.map_cons, issued, List.countP_cons] at ih' ⊢
    cases hr : isReq op.view with
    | none => simpa [hr] using ih'
    | some i =>
      have hfresh : i ∉ seen := by
        cases op with
        | tr op =>
          cases op <;> simp [POp.view, isReq] at hr
          subst hr
          simp only [enabledP, enabled, Bool.and_eq_true, Bool.not_eq_true'] at hen
          simpa using hen.1.1.1
        | openStart => simp [POp.view, isReq] at hr
        | connected r rs => cases r <;> simp [POp.view, isReq] at hr
        | park j tag =>
          simp [POp.view, isReq] at hr
          subst hr
          simp only [enabledP, Bool.and_eq_true, Bool.not_eq_true'] at hen
          simpa using hen.1.1.1
      simp only [hr] at ih'
      by_cases e : i = id
      · subst e; simp [hfresh] at ih' ⊢; exact ih'
      · have : id ∈ i :: seen ↔ id ∈ seen := by simp [Ne.symm e]
        simp only [this] at ih'
        simpa [e] using ih'

/-- over a whole history no request — issued on an open transport, or while the open was
    pending — is ever handed more than one response -/
theorem responses_at_most_onceP (ops : List POp) (h : pcomp.wf () ops = true) (id : Nat) :
    responsesToP id (pcomp.modelTrace () ops) ≤ 1 := by
  have h1 := spec_count id _ {} (model_satisfies_specP ops h)
  have h2 := issued_leP id ops PSt.init [] h
  rw [responsesTo_view] at h1
  simp at h1 h2
  exact Nat.le_trans h1 h2

/-! ### the end of a drain: what becomes of the blocked callers -/

/-- **the blocked callers at the end of a drain.**  An operation of the transport takes it to `t'`.
    * If the open is still pending, everybody stays blocked and nobody is answered.
    * If the transport is Open (and `_OpenImpl` is not waiting any more), the callers go on in the
      order in which they arrived: each is entered in the tag map under the tag the pool hands it
      and its frame is queued behind what was queued, in that order; none of them is answered.
    * Otherwise — the open failed, or `Close()` was called — each of them is handed the 'Sink not
      open.' error, once, in that order, after the responses of the operation itself; the
      transport is exactly as the operation left it: nothing of them is in the tag map or queued.
    In the last two cases nobody is blocked any more. -/
theorem parked_resume (ps : PSt) (op : Op) :
    ((stepOutP ps (.tr op)).1.waiting = true →
      (stepOutP ps (.tr op)).1.parked = ps.parked ∧ (stepOutP ps (.tr op)).1.t = (stepOut ps.t op).1 ∧
      (stepOutP ps (.tr op)).2 = (stepOut ps.t op).2) ∧
    ((stepOutP ps (.tr op)).1.waiting = false → (stepOut ps.t op).1.cstate = .opened →
      (stepOutP ps (.tr op)).1.parked = [] ∧
      (stepOutP ps (.tr op)).1.t.tagMap =
        (stepOut ps.t op).1.tagMap ++ ps.parked.map (fun p => (p.2, p.1)) ∧
      qItems (stepOutP ps (.tr op)).1.t =
        qItems (stepOut ps.t op).1 ++ ps.parked.map (fun p => Item.req p.2 p.1) ∧
      (stepOutP ps (.tr op)).1.t.cstate = .opened ∧
      (stepOutP ps (.tr op)).2.eff.dels = (stepOut ps.t op).2.eff.dels) ∧
    ((stepOutP ps (.tr op)).1.waiting = false → (stepOut ps.t op).1.cstate ≠ .opened →
      (stepOutP ps (.tr op)).1.parked = [] ∧ (stepOutP ps (.tr op)).1.t = (stepOut ps.t op).1 ∧
      (stepOutP ps (.tr op)).2.eff.dels =
        (stepOut ps.t op).2.eff.dels ++ ps.parked.map (fun p => (p.1, Resp.other))) := by
  by_cases hw : ({ t := (stepOut ps.t op).1, connecting := ps.connecting, parked := ps.parked } : PSt).waiting = true
  · have hfin : stepOutP ps (.tr op) =
        ({ t := (stepOut ps.t op).1, connecting := ps.connecting, parked := ps.parked }, (stepOut ps.t op).2) := by
      simp [stepOutP, PSt.finish, hw]
    rw [hfin]
    refine ⟨fun _ => ⟨rfl, rfl, rfl⟩, fun h => ?_, fun h => ?_⟩
    · have h' : ({ t := (stepOut ps.t op).1, connecting := ps.connecting, parked := ps.parked } : PSt).waiting = false := h
      rw [hw] at h'; cases h'
    · have h' : ({ t := (stepOut ps.t op).1, connecting := ps.connecting, parked := ps.parked } : PSt).waiting = false := h
      rw [hw] at h'; cases h'
  · have hop' := not_waiting_opening _ _ _ hw
    have hfin : stepOutP ps (.tr op) =
        ({ t := (parkedGo ps.parked (stepOut ps.t op).1).1, connecting := ps.connecting, parked := [] },
         { (stepOut ps.t op).2 with eff := { (stepOut ps.t op).2.eff with
             dels := (stepOut ps.t op).2.eff.dels ++ (parkedGo ps.parked (stepOut ps.t op).1).2 } }) := by
      simp [stepOutP, PSt.finish, hw]
    rw [hfin]
    have hw2 : ∀ (u : St), u.opening = false → u.cstate = (stepOut ps.t op).1.cstate →
        ({ t := u, connecting := ps.connecting, parked := [] } : PSt).waiting = false := by
      intro u hu hc
      simp only [PSt.waiting, Bool.or_eq_true, Bool.and_eq_true, decide_eq_true_eq, not_or] at hw
      simp only [PSt.waiting, hu, Bool.false_or, hc]
      cases hcn : ps.connecting with
      | false => rfl
      | true =>
        have := hw.2
        simp only [hcn, true_and] at this
        simp [this]
    dsimp only
    refine ⟨fun h => ?_, fun _ hopn => ?_, fun _ hopn => ?_⟩
    · exfalso
      by_cases hopn : (stepOut ps.t op).1.cstate = .opened
      · obtain ⟨_, _, _, g4, g5, _⟩ := parkedGo_accepts ps.parked _ hopn hop'
        rw [hw2 _ g5 (by rw [g4, hopn])] at h; cases h
      · rw [parkedGo_rejects ps.parked _ hopn hop'] at h
        rw [hw2 _ hop' rfl] at h; cases h
    · obtain ⟨g1, g2, g3, g4, _⟩ := parkedGo_accepts ps.parked _ hopn hop'
      exact ⟨rfl, g2, g3, g4, by simp [g1]⟩
    · rw [parkedGo_rejects ps.parked _ hopn hop']
      exact ⟨rfl, rfl, rfl⟩

/-- a closed transport at the end of a drain: every blocked caller gets the 'not open' error -/
theorem finish_closed (ps : PSt) (t' : St) (c' : Bool) (o : Out) (hc : t'.cstate = .closed) (hO : InvO t') :
    ps.finish t' c' o =
      ({ t := t', connecting := c', parked := [] },
       { o with eff := { o.eff with dels := o.eff.dels ++ ps.parked.map (fun p => (p.1, Resp.other)) } }) := by
  have hop : t'.opening = false := by
    cases h : t'.opening with
    | false => rfl
    | true => have := (hO h).2.1; rw [hc] at this; cases this
  have hw : ({ t := t', connecting := c', parked := ps.parked } : PSt).waiting = false := by
    simp [PSt.waiting, hop, hc]
  simp only [PSt.finish, hw, Bool.false_eq_true, if_false]
  rw [parkedGo_rejects ps.parked t' (by rw [hc]; simp) hop]

/-! ### connection failures -/

/-- **on a connection failure every request the transport has accepted is failed exactly once**,
    with an error, in that very operation: the requests in the tag map get `ClientError`, in
    tag-map order, then the callers blocked on the open result get the 'Sink not open.' error, in
    the order in which they arrived; nothing else is handed out; the fault signal is raised once,
    the transport reports `closed`, the tag map and the send queue are empty, nobody is blocked
    any more and an open that was pending has failed. -/
theorem failure_fails_allP (ps : PSt) (op : POp) (h : InvP ps) (hf : connFailureP ps op = true) :
    (stepOutP ps op).2.eff.dels =
      ps.t.tagMap.map (fun p => (p.2, Resp.cerr)) ++ ps.parked.map (fun p => (p.1, Resp.other)) ∧
    (stepOutP ps op).2.eff.faults = 1 ∧
    (stepOutP ps op).1.t.cstate = .closed ∧ (stepOutP ps op).1.t.tagMap = [] ∧
    (stepOutP ps op).1.t.sendQ = [] ∧ (stepOutP ps op).1.parked = [] ∧
    (stepOutP ps op).1.t.openRes ≠ .pending := by
  have key : ∀ (t0 : St) (cop : Op) (c' : Bool), Inv t0 → InvO t0 → connFailure t0 cop = true →
      (ps.finish (stepOut t0 cop).1 c' (stepOut t0 cop).2).2.eff.dels =
        t0.tagMap.map (fun p => (p.2, Resp.cerr)) ++ ps.parked.map (fun p => (p.1, Resp.other)) ∧
      (ps.finish (stepOut t0 cop).1 c' (stepOut t0 cop).2).2.eff.faults = 1 ∧
      (ps.finish (stepOut t0 cop).1 c' (stepOut t0 cop).2).1.t.cstate = .closed ∧
      (ps.finish (stepOut t0 cop).1 c' (stepOut t0 cop).2).1.t.tagMap = [] ∧
      (ps.finish (stepOut t0 cop).1 c' (stepOut t0 cop).2).1.t.sendQ = [] ∧
      (ps.finish (stepOut t0 cop).1 c' (stepOut t0 cop).2).1.parked = [] ∧
      (ps.finish (stepOut t0 cop).1 c' (stepOut t0 cop).2).1.t.openRes ≠ .pending := by
    intro t0 cop c' hi hO hcf
    obtain ⟨d1, d2, d3⟩ := shutdown_fails_all_once t0 cop hi hcf
    obtain ⟨c1, c2, _, _, _, _, c7⟩ := closed_and_signalled t0 cop hi hcf
    rw [finish_closed ps _ c' _ c1 (invO_step t0 cop hO)]
    exact ⟨by simp [d1], c2, c1, d2, d3, rfl, c7⟩
  cases op with
  | tr cop => exact key ps.t cop ps.connecting h.inv h.invO hf
  | openStart => simp [connFailureP] at hf
  | park id tag => simp [connFailureP] at hf
  | connected r rs =>
    have hcn : ps.connecting = true := by
      cases r <;> simp only [connFailureP, Bool.and_eq_true] at hf
      · exact hf.1.1
      · exact hf.1
    have hnc : ps.t.cstate ≠ .closed := by
      cases r <;> simp only [connFailureP, Bool.and_eq_true, decide_eq_true_eq] at hf
      · simpa using hf.1.2
      · simpa using hf.2
    have ht : ps.t = St.connecting0 := by
      rcases h.conn hcn with e | e
      · exact e
      · exfalso; apply hnc; rw [e, connecting0x_eq]
    have htm : ps.t.tagMap = St.init.tagMap := by rw [ht]; rfl
    rw [htm]
    cases r with
    | refuse =>
      have hstep : stepOutP ps (.connected .refuse rs) =
          ps.finish (stepOut St.init (.openT .refuse)).1 false (stepOut St.init (.openT .refuse)).2 := by
        simp [stepOutP, PSt.connected, hcn, hnc, stepOut]
      rw [hstep]
      exact key St.init (.openT .refuse) false inv_init invO_init rfl
    | ok =>
      have hstep : stepOutP ps (.connected .ok rs) =
          ps.finish (stepOut St.init (.openBurst rs)).1 false (stepOut St.init (.openBurst rs)).2 := by
        simp [stepOutP, PSt.connected, hcn, hnc, stepOut]
      rw [hstep]
      have hany : rs.any (fun r => r.1 ≠ .ok) = true := by
        simp only [connFailureP, Bool.and_eq_true] at hf; exact hf.2
      exact key St.init (.openBurst rs) false inv_init invO_init (by
        simp only [connFailure, Bool.and_eq_true]; exact ⟨⟨rfl, rfl⟩, hany⟩)

/-! ### whole histories -/

theorem runOpsP_append (ps : PSt) (pre post : List POp) :
    runOpsP ps (pre ++ post) = runOpsP (runOpsP ps pre) post := by
  simp [runOpsP, List.foldl_append]

theorem traceP_append : ∀ (pre : List POp) (ps : PSt) (post : List POp),
    pcomp.trace () ps (pre ++ post) = pcomp.trace () ps pre ++ pcomp.trace () (runOpsP ps pre) post := by
  intro pre
  induction pre with
  | nil => intro ps post; rfl
  | cons op pre ih =>
    intro ps post
    simp only [List.cons_append, traceP_cons]
    rw [ih (stepOutP ps op).1 post]
    rfl

theorem responsesToP_append (id : Nat) (h1 h2 : List (POp × Obs)) :
    responsesToP id (h1 ++ h2) = responsesToP id h1 + responsesToP id h2 := by
  simp [responsesToP]

/-- a response handed out in the operation after `pre` counts in the whole history -/
theorem responsesToP_ge_of_mem (pre : List POp) (op : POp) (post : List POp) (id : Nat) (r : Resp)
    (hmem : (id, r) ∈ (stepOutP (runOpsP PSt.init pre) op).2.eff.dels) :
    1 ≤ responsesToP id (pcomp.modelTrace () (pre ++ op :: post)) := by
  have hpos : 0 < (stepOutP (runOpsP PSt.init pre) op).2.eff.dels.countP (fun d => d.1 == id) :=
    List.countP_pos_iff.mpr ⟨_, hmem, by simp⟩
  have htr : pcomp.modelTrace () (pre ++ op :: post) =
      pcomp.trace () PSt.init pre ++ pcomp.trace () (runOpsP PSt.init pre) (op :: post) :=
    traceP_append pre PSt.init (op :: post)
  rw [htr, responsesToP_append, traceP_cons]
  have : responsesToP id ((op, obsOfP (stepOutP (runOpsP PSt.init pre) op).1 (stepOutP (runOpsP PSt.init pre) op).2) ::
      pcomp.trace () (stepOutP (runOpsP PSt.init pre) op).1 post) =
      (stepOutP (runOpsP PSt.init pre) op).2.eff.dels.countP (fun d => d.1 == id) +
        responsesToP id (pcomp.trace () (stepOutP (runOpsP PSt.init pre) op).1 post) := by
    simp [responsesToP, obsOfP, obsOf]
  omega

/-- **every accepted request is failed exactly once when the connection fails, over whole
    histories.**  Whatever happened before and whatever happens afterwards: a request the
    transport has accepted and not answered — it is in the tag map, or its caller is blocked on
    the open result — when the connection fails (refused connect, also one that was in progress;
    write error, read error or end-of-stream, alone or in a burst or a race; ping silence) is
    handed an error in that very operation, and that is the only response it is handed in the
    whole history. -/
theorem inflight_failed_exactly_onceP (pre : List POp) (op : POp) (post : List POp)
    (h : pcomp.wf () (pre ++ op :: post) = true)
    (hf : connFailureP (runOpsP PSt.init pre) op = true) (id : Nat)
    (hin : id ∈ (runOpsP PSt.init pre).inflight) :
    (∃ r, r.isError = true ∧ (id, r) ∈ (stepOutP (runOpsP PSt.init pre) op).2.eff.dels) ∧
    responsesToP id (pcomp.modelTrace () (pre ++ op :: post)) = 1 := by
  have hd := (failure_fails_allP _ op (invP_reachable pre) hf).1
  have hex : ∃ r, r.isError = true ∧ (id, r) ∈ (stepOutP (runOpsP PSt.init pre) op).2.eff.dels := by
    rw [hd]
    simp only [PSt.inflight, List.mem_append, List.mem_map] at hin
    rcases hin with ⟨p, hp, he⟩ | ⟨p, hp, he⟩
    · exact ⟨Resp.cerr, rfl, List.mem_append_left _ (List.mem_map.mpr ⟨p, hp, by rw [← he]⟩)⟩
    · exact ⟨Resp.other, rfl, List.mem_append_right _ (List.mem_map.mpr ⟨p, hp, by rw [← he]⟩)⟩
  refine ⟨hex, ?_⟩
  obtain ⟨r, _, hmem⟩ := hex
  have hle := responses_at_most_onceP _ h id
  have hge := responsesToP_ge_of_mem pre op post id r hmem
  omega

/-- **a request handed to the transport while its open was pending, whose open does not succeed, is
    answered exactly once, and nothing of it stays behind.**  Whatever happened before and whatever
    happens afterwards: if a caller is blocked on the open result and an operation of the transport
    — any: a fault of the handshake, ping silence, a race, a `Close()` — ends with the open no
    longer pending and the transport not Open, that caller is handed the 'Sink not open.' error in
    that very operation, it is the only response it is handed in the whole history, and neither a
    tag-map entry nor a queued frame of it exists afterwards. -/
theorem parked_failed_exactly_once (pre : List POp) (op : Op) (post : List POp)
    (h : pcomp.wf () (pre ++ .tr op :: post) = true) (id tag : Nat)
    (hin : (id, tag) ∈ (runOpsP PSt.init pre).parked)
    (hw : (stepOutP (runOpsP PSt.init pre) (.tr op)).1.waiting = false)
    (hno : (stepOut (runOpsP PSt.init pre).t op).1.cstate ≠ .opened) :
    (id, Resp.other) ∈ (stepOutP (runOpsP PSt.init pre) (.tr op)).2.eff.dels ∧
    responsesToP id (pcomp.modelTrace () (pre ++ .tr op :: post)) = 1 ∧
    (stepOutP (runOpsP PSt.init pre) (.tr op)).1.parked = [] ∧
    (stepOutP (runOpsP PSt.init pre) (.tr op)).1.t = (stepOut (runOpsP PSt.init pre).t op).1 := by
  obtain ⟨p1, p2, p3⟩ := (parked_resume (runOpsP PSt.init pre) op).2.2 hw hno
  have hmem : (id, Resp.other) ∈ (stepOutP (runOpsP PSt.init pre) (.tr op)).2.eff.dels := by
    rw [p3]
    exact List.mem_append_right _ (List.mem_map.mpr ⟨(id, tag), hin, rfl⟩)
  have hle := responses_at_most_onceP _ h id
  have hge := responsesToP_ge_of_mem pre (.tr op) post id _ hmem
  exact ⟨hmem, by omega, p1, p2⟩


/-! ### reachable states, and the races of C08 with blocked callers -/

/-- the transport's invariant holds in every state the combined model can reach -/
theorem inv_reachableP (ops : List POp) : Inv (runOpsP PSt.init ops).t := (invP_reachable ops).inv

/-- while `_OpenImpl` waits for the handshake's Rping the open result is pending, the transport
    reports `idle` and the ping is outstanding — in every reachable state -/
theorem opening_means_pendingP (ops : List POp) (hop : (runOpsP PSt.init ops).t.opening = true) :
    (runOpsP PSt.init ops).t.openRes = .pending ∧ (runOpsP PSt.init ops).t.cstate = .idle ∧
    (runOpsP PSt.init ops).t.pingWait = true := (invP_reachable ops).invO hop

/-- callers are blocked only while the open is pending — in every reachable state -/
theorem parked_only_while_pending (ops : List POp) (h : (runOpsP PSt.init ops).parked ≠ []) :
    (runOpsP PSt.init ops).waiting = true ∧ (runOpsP PSt.init ops).t.cstate = .idle ∧
    (runOpsP PSt.init ops).t.tagMap = [] := by
  have hi := invP_reachable ops
  have hw := hi.wait h
  exact ⟨hw, waiting_idle _ hi.invO hw, waiting_tagMap _ hi.inv hi.invO hw⟩

/-- F16 at the level of the transport, for a state satisfying the invariants -/
theorem race_during_handshake_st (s : St) (rs : List (IOOut × Frame)) (pos : Pos) (x : Hit)
    (hinv : Inv s) (hOs : InvO s) (hop : s.opening = true) (hrl : s.rl ≠ .dead)
    (hok : hitOk s rs pos x = true) :
    (stepOut s (.race rs pos x)).1.cstate = .closed ∧
    (stepOut s (.race rs pos x)).1.openRes = .failed ∧
    (stepOut s (.race rs pos x)).2.eff.faults = (if raceFails rs pos x then 1 else 0) ∧
    (stepOut s (.race rs pos x)).2.eff.dels = [] ∧
    (stepOut s (.race rs pos x)).1.opening = false := by
  have hO := hOs hop
  obtain ⟨c1, c2, _, _, _, _, c7, _, _, _, _, c12⟩ :=
    race_closed_and_signalled _ rs pos x hinv hrl hok
  refine ⟨c1, by rw [c12, hO.1]; rfl, c2, ?_, c7⟩
  obtain ⟨s1, d, heq, _, _, _, _, hF, _, _⟩ := race_shape _ rs pos x hinv.1 hrl hok
  have hidle : s.cstate ≠ .opened := by rw [hO.2.1]; simp
  have htm := hinv.1.2 hidle
  have F := hF (by rw [htm]; simp) (by rw [htm]; simp)
  have hs1 : s1.tagMap = [] := by
    have := F.tmSub; rw [htm] at this; exact List.sublist_nil.mp this
  have hd : d = [] := by
    cases d with
    | nil => rfl
    | cons p rest =>
      have := F.settle []
      rw [htm] at this
      obtain ⟨i, r⟩ := p
      simp [settle] at this
  show (St.race _ rs pos x).2.eff.dels = []
  rw [heq, hd, hs1]
  rfl

/-- **F16 with callers blocked on the open result.**  In every reachable state in which `_OpenImpl`
    waits for the handshake's Rping: whatever the receive loop reads in a drain and wherever in that
    drain a failing read, a failing write or a `Close()` lands — in particular after the Rping was
    dispatched and before `_OpenImpl` resumes —, the transport ends up `closed`, `Open()` has
    failed, the fault signal was raised once (not for a lone `Close()`), every caller blocked on
    the open result is handed the 'Sink not open.' error — that and nothing else is handed out —,
    nobody stays blocked, and the next request is rejected on the spot. -/
theorem race_during_handshake_fails_openP (ops : List POp) (rs : List (IOOut × Frame)) (pos : Pos)
    (x : Hit) (hop : (runOpsP PSt.init ops).t.opening = true)
    (hrl : (runOpsP PSt.init ops).t.rl ≠ .dead)
    (hok : hitOk (runOpsP PSt.init ops).t rs pos x = true) :
    (stepOutP (runOpsP PSt.init ops) (.tr (.race rs pos x))).1.t.cstate = .closed ∧
    (stepOutP (runOpsP PSt.init ops) (.tr (.race rs pos x))).1.t.openRes = .failed ∧
    (stepOutP (runOpsP PSt.init ops) (.tr (.race rs pos x))).2.eff.faults =
      (if raceFails rs pos x then 1 else 0) ∧
    (stepOutP (runOpsP PSt.init ops) (.tr (.race rs pos x))).2.eff.dels =
      (runOpsP PSt.init ops).parked.map (fun p => (p.1, Resp.other)) ∧
    (stepOutP (runOpsP PSt.init ops) (.tr (.race rs pos x))).1.parked = [] ∧
    ∀ id tag, (stepOutP (runOpsP PSt.init ops) (.tr (.race rs pos x))).1.t.request id tag =
      ((stepOutP (runOpsP PSt.init ops) (.tr (.race rs pos x))).1.t, { eff := { dels := [(id, .other)] } }) := by
  have hi := invP_reachable ops
  obtain ⟨c1, c2, c3, c4, c5⟩ := race_during_handshake_st _ rs pos x hi.inv hi.invO hop hrl hok
  have hfin := finish_closed (runOpsP PSt.init ops) _ (runOpsP PSt.init ops).connecting
    (stepOut (runOpsP PSt.init ops).t (.race rs pos x)).2 c1 (invO_step _ _ hi.invO)
  simp only [stepOutP]
  rw [hfin]
  exact ⟨c1, c2, c3, by simp [c4], rfl, fun id tag => closed_rejects _ c1 c5 id tag⟩

/-- the simulation relation holds after every prefix of an admissible operation list -/
theorem relP_split : ∀ (pre post : List POp) (ps : PSt) (a : Acc) (seen : List Nat), RelP ps a seen →
    opsOkP ps seen (pre ++ post) = true →
    ∃ a' seen', RelP (runOpsP ps pre) a' seen' ∧ opsOkP (runOpsP ps pre) seen' post = true := by
  intro pre
  induction pre with
  | nil => intro post ps a seen hrel hok; exact ⟨a, seen, hrel, hok⟩
  | cons op pre ih =>
    intro post ps a seen hrel hok
    simp only [List.cons_append, opsOkP, Bool.and_eq_true] at hok
    obtain ⟨hen, hrest⟩ := hok
    obtain ⟨_, hrel'⟩ := step_okP ps a seen op hrel hen
    exact ih post _ _ _ hrel' hrest

/-- what an operation of the transport hands out is handed out, whatever the blocked callers do -/
theorem finish_dels_sub (ps : PSt) (t' : St) (c' : Bool) (o : Out) :
    ∀ d ∈ o.eff.dels, d ∈ (ps.finish t' c' o).2.eff.dels := by
  intro d hd
  simp only [PSt.finish]
  split
  · exact hd
  · exact List.mem_append_left _ hd

/-- **each in-flight request is completed exactly once by a race, over whole histories** (of the
    transport with blocked callers). -/
theorem race_inflight_answered_exactly_onceP (pre : List POp) (rs : List (IOOut × Frame)) (pos : Pos)
    (x : Hit) (post : List POp) (h : pcomp.wf () (pre ++ .tr (.race rs pos x) :: post) = true)
    (tag id : Nat) (hin : (tag, id) ∈ (runOpsP PSt.init pre).t.tagMap) :
    (∃ r, (id, r) ∈ (stepOutP (runOpsP PSt.init pre) (.tr (.race rs pos x))).2.eff.dels ∧
        (r = Resp.stream ∨ r = Resp.cerr)) ∧
    responsesToP id (pcomp.modelTrace () (pre ++ .tr (.race rs pos x) :: post)) = 1 := by
  obtain ⟨a, seen, hrel, hok⟩ := relP_split pre (.tr (.race rs pos x) :: post) PSt.init {} [] relP_init h
  simp only [opsOkP, Bool.and_eq_true] at hok
  have hen := hok.1
  simp only [enabledP, enabled, Bool.and_eq_true, decide_eq_true_eq] at hen
  obtain ⟨⟨hrl, hitok⟩, _⟩ := hen
  have hrl : (runOpsP PSt.init pre).t.rl ≠ .dead := by simpa using hrl
  obtain ⟨s1, d, heq, _, _, _, _, hF, _, hS⟩ := race_shape _ rs pos x hrel.core.inv hrl hitok
  have F := hF hrel.core.tags hrel.core.ids
  have hid : id ∈ (runOpsP PSt.init pre).t.tagMap.map (·.2) := List.mem_map.mpr ⟨(tag, id), hin, rfl⟩
  have hex0 : ∃ r, (id, r) ∈ (stepOut (runOpsP PSt.init pre).t (.race rs pos x)).2.eff.dels ∧
      (r = Resp.stream ∨ r = Resp.cerr) := by
    show ∃ r, (id, r) ∈ (St.race _ rs pos x).2.eff.dels ∧ _
    rw [heq]
    rcases settle_covers d _ _ _ _ (F.settle []) id hid with h1 | h1
    · obtain ⟨p, hp, he⟩ := List.mem_map.mp h1
      refine ⟨Resp.cerr, List.mem_append_right _ (List.mem_map.mpr ⟨p, hp, ?_⟩), Or.inr rfl⟩
      rw [he]
    · obtain ⟨p, hp, he⟩ := List.any_eq_true.mp h1
      have he' : p.1 = id := by simpa using he
      refine ⟨p.2, List.mem_append_left _ ?_, Or.inl (hS p hp)⟩
      rw [← he']; exact hp
  have hex : ∃ r, (id, r) ∈ (stepOutP (runOpsP PSt.init pre) (.tr (.race rs pos x))).2.eff.dels ∧
      (r = Resp.stream ∨ r = Resp.cerr) := by
    obtain ⟨r, hm, hr⟩ := hex0
    exact ⟨r, finish_dels_sub _ _ _ _ _ hm, hr⟩
  refine ⟨hex, ?_⟩
  obtain ⟨r, hmem, _⟩ := hex
  have hle := responses_at_most_onceP _ h id
  have hge := responsesToP_ge_of_mem pre (.tr (.race rs pos x)) post id r hmem
  omega

/-- **during the opening handshake the position of the event does not matter** (after repair F16),
    also with callers blocked on the open result -/
theorem race_handshake_position_irrelevantP (ops : List POp) (rs : List (IOOut × Frame)) (x : Hit)
    (hop : (runOpsP PSt.init ops).t.opening = true) (hrl : (runOpsP PSt.init ops).t.rl ≠ .dead)
    (hok : hitOk (runOpsP PSt.init ops).t rs .mid x = true) :
    stepOutP (runOpsP PSt.init ops) (.tr (.race rs .mid x)) =
      stepOutP (runOpsP PSt.init ops) (.tr (.race rs .pre x)) := by
  have hi := invP_reachable ops
  have := race_handshake_position_irrelevant _ rs x hi.inv hi.invO hop hrl hok
  simp only [stepOutP, stepOut]
  rw [this]

/-- without blocked callers the combined model is the transport: its operations do what they do
    to the transport alone, and nothing else -/
theorem tr_without_parked (ps : PSt) (op : Op) (h : ps.parked = []) :
    (stepOutP ps (.tr op)).1.t = (stepOut ps.t op).1 ∧ (stepOutP ps (.tr op)).2 = (stepOut ps.t op).2 ∧
    (stepOutP ps (.tr op)).1.parked = [] := by
  simp only [stepOutP]
  rw [finish_nil ps _ _ _ h]
  exact ⟨rfl, rfl, rfl⟩


end Scales.MuxT
