import ScalesModel.Adapter.Shared

namespace Scales.Shared

/-! ### list helpers -/

theorem upd_length (l : List USink) (k : Nat) (f : USink → USink) : (upd l k f).length = l.length := by
  induction l generalizing k with
  | nil => rfl
  | cons x xs ih => cases k <;> simp [upd, ih]

theorem getElem?_upd (l : List USink) (k i : Nat) (f : USink → USink) :
    (upd l k f)[i]? = if i = k then (l[i]?).map f else l[i]? := by
  induction l generalizing k i with
  | nil => simp [upd]
  | cons x xs ih =>
    cases k with
    | zero => cases i <;> simp [upd]
    | succ k => cases i <;> simp [upd, ih]

def view (s : USink) : SinkView := (s.st, s.opens, s.closes)

theorem snap_eq (p : Pool) : snap p = p.sinks.map view := rfl

theorem othersClosed_iff (l : List SinkView) (k : Nat) :
    othersClosed l k = true ↔ ∀ i x, l[i]? = some x → i ≠ k → x.1 = .closed := by
  induction l generalizing k with
  | nil => simp [othersClosed]
  | cons y ys ih =>
    cases k with
    | zero =>
      simp only [othersClosed, List.all_eq_true, beq_iff_eq]
      constructor
      · intro h i x hx hi
        cases i with
        | zero => exact absurd rfl hi
        | succ i => exact h x (List.mem_of_getElem? (by simpa using hx))
      · intro h x hx
        obtain ⟨i, hi⟩ := List.mem_iff_getElem?.1 hx
        exact h (i + 1) x (by simpa using hi) (by omega)
    | succ k =>
      simp only [othersClosed, Bool.and_eq_true, beq_iff_eq, ih]
      constructor
      · rintro ⟨h0, h⟩ i x hx hi
        cases i with
        | zero => simp at hx; subst hx; exact h0
        | succ i => exact h i x (by simpa using hx) (by omega)
      · intro h
        exact ⟨h 0 y (by simp) (by omega), fun i x hx hi => h (i + 1) x (by simpa using hx) (by omega)⟩

theorem liveN_le_one (l : List SinkView) (k : Nat)
    (h : ∀ i x, l[i]? = some x → i ≠ k → x.1 = .closed) : liveN l ≤ 1 := by
  induction l generalizing k with
  | nil => simp [liveN]
  | cons y ys ih =>
    cases k with
    | zero =>
      have : liveN ys = 0 := by
        unfold liveN
        rw [List.countP_eq_zero]
        intro x hx
        obtain ⟨i, hi⟩ := List.mem_iff_getElem?.1 hx
        simp [h (i + 1) x (by simpa using hi) (by omega)]
      unfold liveN at this ⊢
      rw [List.countP_cons]
      split <;> omega
    | succ k =>
      have h0 : y.1 = .closed := h 0 y (by simp) (by omega)
      have := ih k (fun i x hx hi => h (i + 1) x (by simpa using hx) (by omega))
      unfold liveN at this ⊢
      rw [List.countP_cons]
      simp [h0]
      exact this

theorem liveN_eq_zero_iff (l : List SinkView) : liveN l = 0 ↔ ∀ x ∈ l, x.1 = .closed := by
  unfold liveN
  rw [List.countP_eq_zero]
  simp

theorem liveN_snap (p : Pool) : liveN (snap p) = liveCount p.sinks := by
  unfold liveN liveCount snap
  rw [List.countP_map]
  rfl

/-! ### the invariant of the singleton pool -/

structure PInv (p : Pool) : Prop where
  nextLt : ∀ k, p.next = some k → k < p.sinks.length
  others : ∀ (i : Nat) (s : USink), p.sinks[i]? = some s → p.next ≠ some i → s.st = .closed
  pend : ∀ (i : Nat) (s : USink), p.sinks[i]? = some s → (s.res = .pending ↔ s.st = .idle)
  wait : ∀ w ∈ p.waiters, p.next = some w.on ∧ isPending p w.on = true

theorem PInv.init : PInv {} := by
  constructor <;> simp

theorem isPending_iff (p : Pool) (k : Nat) :
    isPending p k = true ↔ ∃ s, p.sinks[k]? = some s ∧ s.res = .pending := by
  unfold isPending
  cases h : p.sinks[k]? <;> simp

/-- a pending sink is the pool's current sink -/
theorem PInv.pending_is_next {p : Pool} (hi : PInv p) {k : Nat} (hp : isPending p k = true) :
    p.next = some k := by
  obtain ⟨s, hs, hr⟩ := (isPending_iff p k).1 hp
  by_cases hne : p.next = some k
  · exact hne
  exfalso
  have := hi.others k s hs hne
  have := (hi.pend k s hs).1 hr
  simp_all

def allClosed (l : List USink) : Prop := ∀ s ∈ l, s.st = .closed

theorem allClosed_iff (l : List USink) : allClosed l ↔ ∀ (i : Nat) (s : USink), l[i]? = some s → s.st = .closed := by
  constructor
  · intro h i s hs; exact h s (List.mem_of_getElem? hs)
  · intro h s hs
    obtain ⟨i, hi⟩ := List.mem_iff_getElem?.1 hs
    exact h i s hi

/-- no live sink ⇔ the pool has no current sink or the current sink is closed -/
theorem PInv.allClosed_of {p : Pool} (hi : PInv p)
    (h : p.next = none ∨ ∃ k s, p.next = some k ∧ p.sinks[k]? = some s ∧ s.st = .closed) :
    allClosed p.sinks := by
  rw [allClosed_iff]
  intro i s hs
  rcases h with h | ⟨k, s0, hk, hs0, hc⟩
  · exact hi.others i s hs (by simp [h])
  · by_cases hik : i = k
    · subst hik; rw [hs] at hs0; cases hs0; exact hc
    · exact hi.others i s hs (by simp [hk]; omega)

theorem liveCount_eq_zero_iff (l : List USink) : liveCount l = 0 ↔ allClosed l := by
  unfold liveCount allClosed
  rw [List.countP_eq_zero]
  simp [USink.live]

theorem PInv.create {p : Pool} (hi : PInv p) (hc : allClosed p.sinks) (who : Who) :
    PInv (p.create who) := by
  rw [allClosed_iff] at hc
  constructor
  · intro k hk
    simp [Pool.create] at hk ⊢
    omega
  · intro i s hs hne
    simp only [Pool.create] at hs hne
    by_cases hlt : i < p.sinks.length
    · rw [List.getElem?_append_left hlt] at hs; exact hc i s hs
    · by_cases hieq : i = p.sinks.length
      · subst hieq; simp at hne
      · rw [List.getElem?_eq_none (by simp; omega)] at hs; cases hs
  · intro i s hs
    simp only [Pool.create] at hs
    by_cases hlt : i < p.sinks.length
    · rw [List.getElem?_append_left hlt] at hs; exact hi.pend i s hs
    · by_cases hieq : i = p.sinks.length
      · subst hieq; simp at hs; subst hs; simp
      · rw [List.getElem?_eq_none (by simp; omega)] at hs; cases hs
  · intro w hw
    simp only [Pool.create, List.mem_append, List.mem_singleton] at hw
    rcases hw with hw | hw
    · exfalso
      obtain ⟨_, hp⟩ := hi.wait w hw
      obtain ⟨s, hs, hr⟩ := (isPending_iff p w.on).1 hp
      have h1 := hc _ s hs
      have h2 := (hi.pend _ s hs).1 hr
      rw [h1] at h2; cases h2
    · subst hw
      simp [Pool.create, isPending]

/-- sink `k` settles (open completed, failed, faulted or closed): its waiters leave -/
theorem PInv.settle {p : Pool} (hi : PInv p) (k : Nat) (f : USink → USink) (nx : Option Nat)
    (hf : ∀ s, (f s).res ≠ .pending ∧ (f s).st ≠ .idle)
    (hnx : nx = p.next ∨ (nx = none ∧ p.next = some k ∧ ∀ s, (f s).st = .closed))
    (hcl : p.next ≠ some k → ∀ s, (f s).st = .closed) :
    PInv { p with sinks := upd p.sinks k f, next := nx,
                  waiters := p.waiters.filter (fun w => w.on != k) } := by
  constructor
  · intro j hj
    simp only [upd_length]
    rcases hnx with h | ⟨h, _, _⟩
    · exact hi.nextLt j (by simpa [h] using hj)
    · simp [h] at hj
  · intro i s hs hne
    simp only [getElem?_upd] at hs
    simp only at hne
    split at hs
    · rename_i hik
      subst hik
      cases ho : p.sinks[i]? with
      | none => simp [ho] at hs
      | some s0 =>
        simp [ho] at hs; subst hs
        rcases hnx with h | ⟨_, _, h⟩
        · exact hcl (by rw [← h]; exact hne) s0
        · exact h s0
    · rename_i hik
      rcases hnx with h | ⟨_, h, _⟩
      · exact hi.others i s hs (by rw [← h]; exact hne)
      · exact hi.others i s hs (by rw [h]; simp; omega)
  · intro i s hs
    simp only [getElem?_upd] at hs
    split at hs
    · cases ho : p.sinks[i]? with
      | none => simp [ho] at hs
      | some s0 =>
        simp [ho] at hs; subst hs
        have := hf s0
        constructor
        · intro h; exact absurd h this.1
        · intro h; exact absurd h this.2
    · exact hi.pend i s hs
  · intro w hw
    simp only [List.mem_filter, bne_iff_ne, ne_eq] at hw
    obtain ⟨hw, hne⟩ := hw
    obtain ⟨h1, h2⟩ := hi.wait w hw
    constructor
    · rcases hnx with h | ⟨_, h, _⟩
      · simp only; rw [h]; exact h1
      · rw [h] at h1; simp at h1; exact absurd h1.symm hne
    · unfold isPending at h2 ⊢
      simp only [getElem?_upd, hne, if_false]
      exact h2

theorem filter_waiters_of_not_pending {p : Pool} (hi : PInv p) (k : Nat) (h : isPending p k = false) :
    p.waiters.filter (fun w => w.on != k) = p.waiters := by
  rw [List.filter_eq_self]
  intro w hw
  have := (hi.wait w hw).2
  simp only [bne_iff_ne, ne_eq]
  intro heq; rw [heq] at this; rw [this] at h; cases h

theorem filter_waiters_of_pending {p : Pool} (hi : PInv p) (k : Nat) (h : isPending p k = true) :
    p.waiters.filter (fun w => w.on != k) = [] ∧ p.waiters.filter (fun w => w.on == k) = p.waiters := by
  have hn := hi.pending_is_next h
  constructor
  · rw [List.filter_eq_nil_iff]
    intro w hw
    have := (hi.wait w hw).1
    rw [hn] at this; simp at this; simp [this]
  · rw [List.filter_eq_self]
    intro w hw
    have := (hi.wait w hw).1
    rw [hn] at this; simp at this; simp [this]

/-- every greenlet blocked in `_Get` waits on the pool's current sink -/
theorem waiters_on_next {p : Pool} (hi : PInv p) {k : Nat} (hn : p.next = some k) :
    p.waiters.filter (fun w => w.on != k) = [] ∧ p.waiters.filter (fun w => w.on == k) = p.waiters := by
  constructor
  · rw [List.filter_eq_nil_iff]
    intro w hw
    have := (hi.wait w hw).1
    rw [hn] at this; simp at this; simp [this]
  · rw [List.filter_eq_self]
    intro w hw
    have := (hi.wait w hw).1
    rw [hn] at this; simp at this; simp [this]

/-- the second branch of `_Get`: the current sink is still opening; call Open() again and wait -/
theorem PInv.reopen {p : Pool} (hi : PInv p) (k : Nat) (s : USink) (hk : p.next = some k)
    (hs : p.sinks[k]? = some s) (hst : s.st = .idle) (who : Who) :
    PInv { p with sinks := upd p.sinks k (fun _ => s.callOpen), waiters := p.waiters ++ [⟨who, k⟩] } := by
  have hres : s.res = .pending := (hi.pend k s hs).2 hst
  have hco : s.callOpen.res = .pending ∧ s.callOpen.st = .idle := by simp [USink.callOpen, hres, hst]
  constructor
  · intro j hj; simp only [upd_length]; exact hi.nextLt j hj
  · intro i s' hs' hne
    simp only [getElem?_upd] at hs'
    simp only at hne
    split at hs'
    · rename_i h; subst h; exact absurd hk hne
    · exact hi.others i s' hs' hne
  · intro i s' hs'
    simp only [getElem?_upd] at hs'
    split at hs'
    · rename_i h; subst h; simp [hs] at hs'; subst hs'; simp [hco]
    · exact hi.pend i s' hs'
  · intro w hw
    have hpk : isPending ({ p with sinks := upd p.sinks k (fun _ => s.callOpen), waiters := p.waiters ++ [⟨who, k⟩] } : Pool) k = true := by
      simp [isPending, getElem?_upd, hs, hco]
    simp only [List.mem_append, List.mem_singleton] at hw
    rcases hw with hw | hw
    · obtain ⟨h1, h2⟩ := hi.wait w hw
      refine ⟨h1, ?_⟩
      have : w.on = k := by rw [hk] at h1; simp at h1; exact h1.symm
      rw [this]; exact hpk
    · subst hw; exact ⟨hk, hpk⟩

theorem PInv.setRc {p : Pool} (hi : PInv p) (r : Int) : PInv { p with rc := r } :=
  ⟨hi.nextLt, hi.others, hi.pend, hi.wait⟩

/-! ### what one operation does, in the terms the specification needs -/

def opReq : SOp → List Nat
  | .req r => [r]
  | .pcloseR r => [r]
  | .cresumeR _ r => [r]
  | _ => []

theorem fwdOf_eq (who : Who) (k : Option Nat) : fwdOf who k = (reqOf who).map (fun r => (r, k)) := by
  cases who <;> rfl

theorem flatMap_fwdOf (ws : List Waiter) (k : Option Nat) :
    ws.flatMap (fun w => fwdOf w.who k) = (reqsOf ws).map (fun r => (r, k)) := by
  induction ws with
  | nil => rfl
  | cons w ws ih => simp [reqsOf, List.flatMap_cons, fwdOf_eq] at ih ⊢; exact ih

structure StepOK (p : Pool) (rq : List Nat) (g cl : Bool) (p' : Pool) (f : List Fwd) : Prop where
  inv : PInv p'
  len : p'.sinks.length = p.sinks.length ∨
        (p'.sinks.length = p.sinks.length + 1 ∧ allClosed p.sinks ∧
          ∃ s, p'.sinks.getLast? = some s ∧ 1 ≤ s.opens)
  grow : g = true → allClosed p.sinks → p'.sinks.length = p.sinks.length + 1
  fw : (f = [] ∧ reqsOf p'.waiters = reqsOf p.waiters ++ rq) ∨
       (∃ k, p.next = some k ∧ k < p'.sinks.length ∧ (∀ i, i ≠ k → p'.sinks[i]? = p.sinks[i]?) ∧
          p'.waiters = [] ∧ f = (reqsOf p.waiters ++ rq).map (fun r => (r, p'.next)) ∧
          (p'.next = some k ∨ (p'.next = none ∧ cl = true ∧ allClosed p'.sinks)))
  live : g = true → p'.sinks.length = p.sinks.length → ¬ allClosed p'.sinks

theorem create_ok {p : Pool} (hi : PInv p) (hc : allClosed p.sinks) (who : Who) (g cl : Bool) :
    StepOK p (reqOf who) g cl (p.create who) [] := by
  refine ⟨hi.create hc who, Or.inr ⟨by simp [Pool.create], hc, ⟨.idle, .pending, 1, 0⟩, by simp [Pool.create], by simp⟩,
    fun _ _ => by simp [Pool.create], Or.inl ⟨rfl, ?_⟩, fun _ h => by simp [Pool.create] at h⟩
  simp [Pool.create, reqsOf]

theorem no_waiters_of_opened {p : Pool} (hi : PInv p) (k : Nat) (s : USink) (hk : p.next = some k)
    (hs : p.sinks[k]? = some s) (hst : s.st ≠ .idle) : p.waiters = [] := by
  rw [List.eq_nil_iff_forall_not_mem]
  intro w hw
  obtain ⟨h1, h2⟩ := hi.wait w hw
  rw [hk] at h1; simp at h1; subst h1
  obtain ⟨s', hs', hr⟩ := (isPending_iff p _).1 h2
  rw [hs] at hs'; cases hs'
  exact hst ((hi.pend _ s hs).1 hr)

theorem get_none {p : Pool} (who : Who) (hn : p.next = none) : p.get who = (p.create who, []) := by
  simp [Pool.get, hn]

theorem get_closed {p : Pool} (who : Who) {k : Nat} {s : USink} (hn : p.next = some k)
    (hs : p.sinks[k]? = some s) (hst : s.st = .closed) : p.get who = (p.create who, []) := by
  simp only [Pool.get, hn, hs, hst]
  rfl

theorem get_opened {p : Pool} (who : Who) {k : Nat} {s : USink} (hn : p.next = some k)
    (hs : p.sinks[k]? = some s) (hst : s.st = .opened) : p.get who = (p, fwdOf who (some k)) := by
  simp only [Pool.get, hn, hs, hst]

theorem get_idle {p : Pool} (who : Who) {k : Nat} {s : USink} (hn : p.next = some k)
    (hs : p.sinks[k]? = some s) (hst : s.st = .idle) (hres : s.res = .pending) :
    p.get who = (({ p with sinks := upd p.sinks k (fun _ => s.callOpen), waiters := p.waiters ++ [⟨who, k⟩] } : Pool), []) := by
  have hco : s.callOpen.res = .pending := by simp [USink.callOpen, hres]
  simp only [Pool.get, hn, hs, hst, hco, if_true]

theorem get_ok {p : Pool} (hi : PInv p) (who : Who) (g cl : Bool) :
    StepOK p (reqOf who) g cl (p.get who).1 (p.get who).2 := by
  rcases Option.eq_none_or_eq_some p.next with hn | ⟨k, hn⟩
  · rw [get_none who hn]
    exact create_ok hi (hi.allClosed_of (Or.inl hn)) who g cl
  · have hlt := hi.nextLt k hn
    have hs : p.sinks[k]? = some p.sinks[k] := List.getElem?_eq_getElem hlt
    generalize p.sinks[k] = s at hs
    cases hst : s.st with
    | idle =>
      have hres : s.res = .pending := (hi.pend k s hs).2 hst
      rw [get_idle who hn hs hst hres]
      refine ⟨hi.reopen k s hn hs hst who, Or.inl (by simp [upd_length]), ?_, Or.inl ⟨rfl, by simp [reqsOf]⟩, ?_⟩
      · intro _ hc
        exfalso
        have := hc s (List.mem_of_getElem? hs)
        rw [hst] at this; cases this
      · intro _ _ hc
        rw [allClosed_iff] at hc
        have := hc k s.callOpen (by simp [getElem?_upd, hs])
        simp [USink.callOpen, hst] at this
    | closed =>
      rw [get_closed who hn hs hst]
      exact create_ok hi (hi.allClosed_of (Or.inr ⟨k, s, hn, hs, hst⟩)) who g cl
    | opened =>
      rw [get_opened who hn hs hst]
      have hw := no_waiters_of_opened hi k s hn hs (by rw [hst]; simp)
      refine ⟨hi, Or.inl rfl, ?_, Or.inr ⟨k, hn, hlt, fun _ _ => rfl, hw, ?_, Or.inl hn⟩, ?_⟩
      · intro _ hc
        exfalso
        have := hc s (List.mem_of_getElem? hs)
        rw [hst] at this; cases this
      · simp [hw, reqsOf, fwdOf_eq, hn]
      · intro _ _ hc
        have := hc s (List.mem_of_getElem? hs)
        rw [hst] at this; cases this

/-- a pending sink `k` settles by `f` and its waiters are released -/
theorem release_ok {p : Pool} (hi : PInv p) (k : Nat) (f : USink → USink) (nx : Option Nat) (rc : Int)
    (cl : Bool) (hp : isPending p k = true)
    (hf : ∀ s, (f s).res ≠ .pending ∧ (f s).st ≠ .idle)
    (hnx : nx = p.next ∨ (nx = none ∧ cl = true ∧ ∀ s, (f s).st = .closed)) :
    StepOK p [] false cl (({ p with sinks := upd p.sinks k f, next := nx, rc := rc } : Pool).release k).1
      (({ p with sinks := upd p.sinks k f, next := nx, rc := rc } : Pool).release k).2 := by
  have hn := hi.pending_is_next hp
  obtain ⟨hw1, hw2⟩ := filter_waiters_of_pending hi k hp
  have hinv := (hi.settle k f nx (hf) (by
      rcases hnx with h | ⟨h, _, h2⟩
      · exact Or.inl h
      · exact Or.inr ⟨h, hn, h2⟩) (fun h => absurd hn h)).setRc rc
  refine ⟨hinv, Or.inl (by simp [Pool.release, upd_length]), fun h => (Bool.false_ne_true h).elim,
    Or.inr ⟨k, hn, ?_, ?_, ?_, ?_, ?_⟩, fun h => (Bool.false_ne_true h).elim⟩
  · simp only [Pool.release, upd_length]; exact hi.nextLt k hn
  · intro i hik; simp [Pool.release, getElem?_upd, hik]
  · simp only [Pool.release]; exact hw1
  · simp only [Pool.release, hw2, flatMap_fwdOf, List.append_nil]
  · rcases hnx with h | ⟨h, hcl, h2⟩
    · left; simp only [Pool.release]; rw [h]; exact hn
    · right
      refine ⟨by simp only [Pool.release]; exact h, hcl, ?_⟩
      simp only [Pool.release]
      rw [allClosed_iff]
      intro i s hs
      rw [getElem?_upd] at hs
      split at hs
      · cases ho : p.sinks[i]? with
        | none => simp [ho] at hs
        | some s0 => simp [ho] at hs; subst hs; exact h2 s0
      · rename_i hik
        exact hi.others i s hs (by rw [hn]; simpa using fun h => hik h.symm)

/-- nothing is pending on `k`: changing sink `k` wakes nobody -/
theorem quiet_ok {p : Pool} (hi : PInv p) (k : Nat) (f : USink → USink) (nx : Option Nat) (rc : Int)
    (hp : isPending p k = false)
    (hf : ∀ s, (f s).res ≠ .pending ∧ (f s).st ≠ .idle)
    (hnx : nx = p.next ∨ (nx = none ∧ p.next = some k ∧ ∀ s, (f s).st = .closed))
    (hcl : p.next ≠ some k → ∀ s, (f s).st = .closed) (cl : Bool) :
    StepOK p [] false cl ({ p with sinks := upd p.sinks k f, next := nx, rc := rc } : Pool) [] := by
  have hinv := (hi.settle k f nx hf hnx hcl).setRc rc
  rw [filter_waiters_of_not_pending hi k hp] at hinv
  exact ⟨hinv, Or.inl (by simp [upd_length]), fun h => (Bool.false_ne_true h).elim, Or.inl ⟨rfl, by simp⟩,
    fun h => (Bool.false_ne_true h).elim⟩

theorem shut_settled (s : USink) : s.shut.res ≠ .pending ∧ s.shut.st ≠ .idle := by
  unfold USink.shut; constructor
  · simp only; split <;> simp_all
  · simp
theorem callClose_settled (s : USink) : s.callClose.res ≠ .pending ∧ s.callClose.st ≠ .idle := by
  have := shut_settled s
  simpa [USink.callClose] using this
theorem openOk_settled (s : USink) : s.openOk.res ≠ .pending ∧ s.openOk.st ≠ .idle := by
  simp [USink.openOk]

theorem pclose_none {p : Pool} (hn : p.next = none) :
    p.close = ({ p with rc := p.rc - 1 }, []) := by
  simp [Pool.close, hn]

theorem pclose_some {p : Pool} {k : Nat} (hn : p.next = some k) :
    p.close =
      if p.rc - 1 ≤ 0 then
        if isPending p k = true then
          ({ p with sinks := upd p.sinks k USink.callClose, next := none, rc := p.rc - 1 } : Pool).release k
        else (({ p with sinks := upd p.sinks k USink.callClose, next := none, rc := p.rc - 1 } : Pool), [])
      else ({ p with rc := p.rc - 1 }, []) := by
  simp only [Pool.close, hn]
  rfl

/-- `pool.Close()` over an underlying `Close()` that does not call back -/
theorem close_ok {p : Pool} (hi : PInv p) : StepOK p [] false true p.close.1 p.close.2 := by
  cases hn : p.next with
  | none =>
    rw [pclose_none hn]
    exact ⟨hi.setRc _, Or.inl rfl, fun h => (Bool.false_ne_true h).elim, Or.inl ⟨rfl, by simp⟩,
      fun h => (Bool.false_ne_true h).elim⟩
  | some k =>
    rw [pclose_some hn]
    split
    · cases hp : isPending p k with
      | true =>
        simp only [if_true]
        exact release_ok hi k USink.callClose none (p.rc - 1) true hp callClose_settled
          (Or.inr ⟨rfl, rfl, fun s => by simp [USink.callClose, USink.shut]⟩)
      | false =>
        simp only [Bool.false_eq_true, if_false]
        exact quiet_ok hi k USink.callClose none (p.rc - 1) hp callClose_settled
          (Or.inr ⟨rfl, hn, fun s => by simp [USink.callClose, USink.shut]⟩)
          (fun h => absurd hn h) true
    · exact ⟨hi.setRc _, Or.inl rfl, fun h => (Bool.false_ne_true h).elim, Or.inl ⟨rfl, by simp⟩,
        fun h => (Bool.false_ne_true h).elim⟩

/-! ### a request from inside the underlying `Close()` -/

/-- the sink a re-entrant request creates -/
def freshSink : USink := ⟨.idle, .pending, 1, 0⟩

/-- what `pool.Close()` with a re-entrant request `r` leaves behind when it does close the sink `k`:
    `k` closed and out of the slot, a fresh sink in the slot, the request waiting for its open; the
    greenlets that were waiting for `k`'s open handed to the fresh sink -/
def ReClose (p : Pool) (op : SOp) (p' : Pool) (f : List Fwd) : Prop :=
  ∃ k r, op = .pcloseR r ∧ p.next = some k ∧ p.rc - 1 ≤ 0 ∧
    p' = ⟨upd p.sinks k USink.callClose ++ [freshSink], some p.sinks.length, p.rc - 1,
          [⟨.req r, p.sinks.length⟩]⟩ ∧
    f = (reqsOf p.waiters).map (fun q => (q, some p.sinks.length))

theorem closeR_main {p : Pool} (hi : PInv p) {k : Nat} (r : Nat) (hn : p.next = some k)
    (hrc : p.rc - 1 ≤ 0) :
    p.closeR r =
      (⟨upd p.sinks k USink.callClose ++ [freshSink], some p.sinks.length, p.rc - 1,
        [⟨.req r, p.sinks.length⟩]⟩,
       (reqsOf p.waiters).map (fun q => (q, some p.sinks.length))) := by
  obtain ⟨hw1, hw2⟩ := waiters_on_next hi hn
  have hlt := hi.nextLt k hn
  have hne : (p.sinks.length != k) = true := by simp; omega
  have hne' : ¬ ((p.sinks.length == k) = true) := by simp; omega
  simp only [Pool.closeR, hn, hrc, if_true, Pool.create, Pool.release, upd_length, List.filter_append,
    hw1, hw2, flatMap_fwdOf, List.filter_cons, List.filter_nil, hne, hne', List.nil_append, freshSink]
  simp

theorem closeR_other {p : Pool} (r : Nat) (hm : ¬ ∃ k, p.next = some k ∧ p.rc - 1 ≤ 0) :
    p.closeR r = ({ p with rc := p.rc - 1 } : Pool).get (.req r) := by
  unfold Pool.closeR
  cases hn : p.next with
  | none => simp
  | some k =>
    have : ¬ (p.rc - 1 ≤ 0) := fun h => hm ⟨k, hn, h⟩
    simp [this]

theorem close_main {p : Pool} {k : Nat} (hn : p.next = some k) (hrc : p.rc - 1 ≤ 0) :
    p.close.1.next = none ∧ p.close.1.sinks = upd p.sinks k USink.callClose := by
  rw [pclose_some hn]
  simp only [hrc, if_true]
  split <;> simp [Pool.release]

theorem allClosed_upd_next {p : Pool} (hi : PInv p) {k : Nat} (hn : p.next = some k) (f : USink → USink)
    (hf : ∀ s, (f s).st = .closed) : allClosed (upd p.sinks k f) := by
  rw [allClosed_iff]
  intro i s hs
  rw [getElem?_upd] at hs
  split at hs
  · cases ho : p.sinks[i]? with
    | none => simp [ho] at hs
    | some s0 => simp [ho] at hs; subst hs; exact hf s0
  · rename_i hik
    exact hi.others i s hs (by rw [hn]; simpa using fun h => hik h.symm)

theorem reclose_inv {p : Pool} (hi : PInv p) {k : Nat} (r : Nat) (hn : p.next = some k) :
    PInv ⟨upd p.sinks k USink.callClose ++ [freshSink], some p.sinks.length, p.rc - 1,
          [⟨.req r, p.sinks.length⟩]⟩ := by
  obtain ⟨hw1, _⟩ := waiters_on_next hi hn
  have h1 := hi.settle k USink.callClose none callClose_settled
    (Or.inr ⟨rfl, hn, fun s => by simp [USink.callClose, USink.shut]⟩) (fun h => absurd hn h)
  have hc := h1.allClosed_of (Or.inl rfl)
  have h2 := (h1.create hc (.req r)).setRc (p.rc - 1)
  simpa [Pool.create, upd_length, hw1, freshSink] using h2

theorem step_ok {p : Pool} (hi : PInv p) (op : SOp) :
    StepOK p (opReq op) (isReq op) (isClose op) (p.step op).1 (p.step op).2 ∨
    ReClose p op (p.step op).1 (p.step op).2 := by
  cases op with
  | req r => exact Or.inl (get_ok hi (.req r) true false)
  | popen =>
    left
    simp only [Pool.step, opReq, isReq, isClose]
    split
    · exact ⟨hi.setRc _, Or.inl rfl, fun h => (Bool.false_ne_true h).elim, Or.inl ⟨rfl, by simp⟩,
        fun h => (Bool.false_ne_true h).elim⟩
    · have h := get_ok (hi.setRc (p.rc + 1)) .tryget false false
      exact ⟨h.inv, h.len, fun h => (Bool.false_ne_true h).elim, h.fw, fun h => (Bool.false_ne_true h).elim⟩
  | pclose => exact Or.inl (close_ok hi)
  | pcloseY => exact Or.inl (close_ok hi)
  | pcloseR r =>
    by_cases hm : ∃ k, p.next = some k ∧ p.rc - 1 ≤ 0
    · obtain ⟨k, hn, hrc⟩ := hm
      right
      refine ⟨k, r, rfl, hn, hrc, ?_, ?_⟩
      · show (p.closeR r).1 = _
        rw [closeR_main hi r hn hrc]
      · show (p.closeR r).2 = _
        rw [closeR_main hi r hn hrc]
    · left
      show StepOK p [r] true false (p.closeR r).1 (p.closeR r).2
      rw [closeR_other r hm]
      have h := get_ok (hi.setRc (p.rc - 1)) (.req r) true false
      exact ⟨h.inv, h.len, h.grow, h.fw, h.live⟩
  | cresume k =>
    exact Or.inl ⟨hi, Or.inl rfl, fun h => (Bool.false_ne_true h).elim, Or.inl ⟨rfl, by simp [Pool.step, opReq]⟩,
      fun h => (Bool.false_ne_true h).elim⟩
  | cresumeR k r => exact Or.inl (get_ok hi (.req r) true false)
  | ok k =>
    left
    simp only [Pool.step, opReq, isReq, isClose]
    split
    · rename_i hp
      exact release_ok hi k USink.openOk p.next p.rc false hp openOk_settled (Or.inl rfl)
    · exact ⟨hi, Or.inl rfl, fun h => (Bool.false_ne_true h).elim, Or.inl ⟨rfl, by simp⟩,
        fun h => (Bool.false_ne_true h).elim⟩
  | fail k =>
    left
    simp only [Pool.step, opReq, isReq, isClose]
    split
    · rename_i hp
      exact release_ok hi k USink.shut p.next p.rc false hp shut_settled (Or.inl rfl)
    · exact ⟨hi, Or.inl rfl, fun h => (Bool.false_ne_true h).elim, Or.inl ⟨rfl, by simp⟩,
        fun h => (Bool.false_ne_true h).elim⟩
  | fault k =>
    left
    simp only [Pool.step, opReq, isReq, isClose]
    split
    · rename_i hp
      exact release_ok hi k USink.shut p.next p.rc false hp shut_settled (Or.inl rfl)
    · rename_i hp
      exact quiet_ok hi k USink.shut p.next p.rc (by simpa using hp) shut_settled (Or.inl rfl)
        (fun _ s => by simp [USink.shut]) false

theorem step_inv {p : Pool} (hi : PInv p) (op : SOp) : PInv (p.step op).1 := by
  rcases step_ok hi op with h | ⟨k, r, _, hn, _, hp', _⟩
  · exact h.inv
  · rw [hp']; exact reclose_inv hi r hn

theorem run_inv (ops : List SOp) : ∀ {p : Pool}, PInv p → PInv (p.run ops) := by
  induction ops with
  | nil => intro p h; exact h
  | cons op ops ih => intro p h; exact ih (step_inv h op)

/-! ### the model's observations satisfy the singleton specification -/

theorem minus_append_self (l m : List Nat) : minus (l ++ m) l = m := by
  induction l with
  | nil => rfl
  | cons x xs ih => simp [minus, ih]

theorem minus_self (l : List Nat) : minus l l = [] := by
  simpa using minus_append_self l []

theorem specSObs_ok (a : SAcc) (idx : Nat) (op : SOp) (o : SObs)
    (h1 : liveN o.sinks ≤ 1)
    (h2 : a.prev.length < o.sinks.length →
      liveN a.prev = 0 ∨ (isReClose op = true ∧ liveN (o.sinks.take a.prev.length) = 0))
    (h3 : isReq op = true →
      (if isReClose op = true then liveN (o.sinks.take a.prev.length) = 0 else liveN a.prev = 0) →
      o.sinks.length = a.prev.length + 1 ∧ lastOpened o.sinks = true)
    (h4 : ∀ x ∈ o.fwd, fwdOk op (pendAfter a op) o.sinks x = true)
    (h5 : anyIdle o.sinks = false → minus (pendAfter a op) (o.fwd.map (·.1)) = []) :
    specSObs a idx op o = .ok := by
  unfold specSObs
  simp only []
  split
  · rename_i h; omega
  split
  · rename_i h
    simp only [Bool.and_eq_true, Bool.or_eq_true, decide_eq_true_eq, Bool.not_eq_true'] at h
    obtain ⟨⟨hlt, hpos⟩, hor⟩ := h
    rcases h2 hlt with e | ⟨e1, e2⟩
    · omega
    · rcases hor with x | x
      · rw [e1] at x; cases x
      · omega
  have c3 : ∀ (c : Bool), (c = true → (if isReClose op = true then liveN (o.sinks.take a.prev.length) = 0
        else liveN a.prev = 0)) →
      ¬ ((isReq op && c && !(o.sinks.length == a.prev.length + 1 && lastOpened o.sinks)) = true) := by
    intro c hcc h
    simp only [Bool.and_eq_true, Bool.not_eq_true', Bool.and_eq_false_iff] at h
    obtain ⟨⟨hr, hc⟩, hn⟩ := h
    obtain ⟨e1, e2⟩ := h3 hr (hcc hc)
    rcases hn with hn | hn
    · simp [e1] at hn
    · rw [e2] at hn; cases hn
  rw [if_neg (c3 _ (by
    intro hc
    by_cases hR : isReClose op = true
    · simp only [hR, if_true] at hc ⊢; simpa using hc
    · simp only [hR] at hc ⊢; simpa using hc))]
  have c4 : o.fwd.find? (fun f => !fwdOk op (pendAfter a op) o.sinks f) = none := by
    rw [List.find?_eq_none]
    intro x hx
    simp [h4 x hx]
  simp only [c4]
  cases hidle : anyIdle o.sinks with
  | true => simp
  | false => simp [h5 hidle]

def SRel (a : SAcc) (p : Pool) : Prop := a.prev = snap p ∧ a.pend = reqsOf p.waiters

theorem pendAfter_eq (a : SAcc) (op : SOp) : pendAfter a op = a.pend ++ opReq op := by
  cases op <;> simp [pendAfter, opReq]

theorem snap_getElem? (p : Pool) (i : Nat) : (snap p)[i]? = (p.sinks[i]?).map view := by
  simp [snap]; rfl

theorem snap_length (p : Pool) : (snap p).length = p.sinks.length := by simp [snap]

theorem PInv.others_view {p : Pool} (hi : PInv p) (k : Nat) (hk : p.next = some k ∨ p.next = none) :
    ∀ i x, (snap p)[i]? = some x → i ≠ k → x.1 = .closed := by
  intro i x hx hik
  rw [snap_getElem?] at hx
  cases hs : p.sinks[i]? with
  | none => simp [hs] at hx
  | some s =>
    simp [hs] at hx; subst hx
    refine hi.others i s hs ?_
    rcases hk with h | h <;> simp [h]
    omega

theorem PInv.live_le_one {p : Pool} (hi : PInv p) : liveN (snap p) ≤ 1 := by
  rcases Option.eq_none_or_eq_some p.next with hn | ⟨k, hn⟩
  · exact liveN_le_one _ 0 (hi.others_view 0 (Or.inr hn))
  · exact liveN_le_one _ k (hi.others_view k (Or.inl hn))

theorem PInv.no_idle_no_waiters {p : Pool} (hi : PInv p) (h : anyIdle (snap p) = false) :
    p.waiters = [] := by
  rw [List.eq_nil_iff_forall_not_mem]
  intro w hw
  obtain ⟨s, hs, hr⟩ := (isPending_iff p _).1 (hi.wait w hw).2
  have hst := (hi.pend _ s hs).1 hr
  have : anyIdle (snap p) = true := by
    unfold anyIdle
    rw [List.any_eq_true]
    exact ⟨view s, by rw [snap_eq]; exact List.mem_map_of_mem (List.mem_of_getElem? hs), by simp [view, hst]⟩
  rw [h] at this; cases this

theorem liveN_map_view (l : List USink) : liveN (l.map view) = liveCount l := by
  unfold liveN liveCount
  rw [List.countP_map]
  rfl

theorem fwd_ids (l : List Nat) (k : Option Nat) :
    ((l.map (fun r => (r, k))).map (fun x => (x.1, encTgt x.2))).map (·.1) = l := by
  simp [List.map_map, Function.comp_def]

theorem spec_step_singleton {p : Pool} {a : SAcc} (hi : PInv p) (hr : SRel a p) (idx : Nat) (op : SOp) :
    specSObs a idx op (sobs (p.step op).1 (p.step op).2) = .ok ∧
    SRel (a.after op (sobs (p.step op).1 (p.step op).2)) (p.step op).1 := by
  have hso := step_ok hi op
  have hinv := step_inv hi op
  obtain ⟨hprev, hpend⟩ := hr
  generalize (p.step op).1 = p' at hso hinv ⊢
  generalize (p.step op).2 = f at hso ⊢
  have hpa : pendAfter a op = reqsOf p.waiters ++ opReq op := by rw [pendAfter_eq, hpend]
  rcases hso with h | ⟨k, r, hop, hn, hrc, hp', hf⟩
  · -- an operation that does not close the sink under a re-entrant request
    have hp2 : minus (pendAfter a op) ((sobs p' f).fwd.map (·.1)) = reqsOf p'.waiters := by
      rcases h.fw with ⟨hf, hw⟩ | ⟨k, _, _, _, hw, hf, _⟩
      · subst hf
        simp [sobs, hpa, hw, minus]
      · rw [hw, hpa, hf]; simp only [sobs]
        rw [fwd_ids, minus_self]; rfl
    refine ⟨specSObs_ok a idx op _ ?_ ?_ ?_ ?_ ?_, ⟨rfl, ?_⟩⟩
    · exact h.inv.live_le_one
    · intro hlt
      left
      simp only [sobs, hprev, snap_length] at hlt
      rcases h.len with e | ⟨_, hc, _⟩
      · omega
      · rw [hprev, liveN_snap, liveCount_eq_zero_iff]; exact hc
    · intro hreq hcond
      rcases h.len with e | ⟨e, hc, s, hs, ho⟩
      · exfalso
        have hl0 : liveN a.prev = 0 := by
          split at hcond
          · have ht : (sobs p' f).sinks.take a.prev.length = (sobs p' f).sinks := by
              apply List.take_of_length_le
              simp [sobs, hprev, snap_length, e]
            rw [ht] at hcond
            exfalso
            simp only [sobs] at hcond
            rw [liveN_snap, liveCount_eq_zero_iff] at hcond
            exact h.live hreq e hcond
          · exact hcond
        rw [hprev, liveN_snap, liveCount_eq_zero_iff] at hl0
        have hg := h.grow hreq hl0
        omega
      · refine ⟨by simp [sobs, hprev, snap_length, e], ?_⟩
        simp only [sobs, lastOpened, snap_eq, List.getLast?_map, hs, Option.map_some]
        simp only [view]; exact decide_eq_true ho
    · intro x hx
      rcases h.fw with ⟨hf, _⟩ | ⟨k, hk, hlt, hsame, _, hf, htgt⟩
      · subst hf; simp [sobs] at hx
      · simp only [sobs, hf, List.map_map, List.mem_map, Function.comp] at hx
        obtain ⟨r, hr, rfl⟩ := hx
        unfold fwdOk
        simp only [Bool.and_eq_true, List.contains_eq_mem, decide_eq_true_eq]
        refine ⟨by rw [hpa]; simpa using hr, ?_⟩
        rcases htgt with hnx | ⟨hnx, hcl, hac⟩
        · simp only [hnx, encTgt, Nat.add_one_ne_zero, if_false, Bool.and_eq_true, decide_eq_true_eq,
            Nat.add_sub_cancel]
          refine ⟨by simp [sobs, snap_length]; omega, ?_⟩
          rw [othersClosed_iff]
          intro i x hx hik
          simp only [sobs, snap_getElem?] at hx
          rw [hsame i (by simpa using hik)] at hx
          rw [← snap_getElem?] at hx
          exact hi.others_view k (Or.inl hk) i x hx (by simpa using hik)
        · simp only [hnx, encTgt, if_true, Bool.and_eq_true, beq_iff_eq]
          refine ⟨hcl, ?_⟩
          simp only [sobs]
          rw [liveN_snap, liveCount_eq_zero_iff]; exact hac
    · intro hidle
      rw [hp2, h.inv.no_idle_no_waiters hidle]; rfl
    · simp only [SAcc.after]; exact hp2
  · -- pool.Close() closes sink k, request r arrives from inside the underlying Close()
    subst hop
    have hlen : p'.sinks.length = p.sinks.length + 1 := by rw [hp']; simp [upd_length]
    have hnx : p'.next = some p.sinks.length := by rw [hp']
    have hw' : p'.waiters = [⟨.req r, p.sinks.length⟩] := by rw [hp']
    have hsn : snap p' = (upd p.sinks k USink.callClose).map view ++ [view freshSink] := by
      rw [hp']; simp [snap_eq]
    have hold : liveN ((snap p').take (snap p).length) = 0 := by
      rw [hsn, snap_length]
      rw [List.take_left' (by simp [upd_length])]
      rw [liveN_map_view, liveCount_eq_zero_iff]
      exact allClosed_upd_next hi hn _ (fun s => by simp [USink.callClose, USink.shut])
    have hfw : (sobs p' f).fwd.map (·.1) = reqsOf p.waiters := by
      simp only [sobs, hf]; exact fwd_ids _ _
    have hp2 : minus (pendAfter a (.pcloseR r)) ((sobs p' f).fwd.map (·.1)) = reqsOf p'.waiters := by
      rw [hfw, hpa, hw']
      simp [opReq, minus_append_self, reqsOf, reqOf]
    have hidle : anyIdle (snap p') = true := by
      rw [hsn]; simp [anyIdle, view, freshSink]
    refine ⟨specSObs_ok a idx _ _ ?_ ?_ ?_ ?_ ?_, ⟨rfl, ?_⟩⟩
    · exact hinv.live_le_one
    · intro _
      right
      exact ⟨rfl, by simp only [sobs, hprev]; exact hold⟩
    · intro _ _
      refine ⟨by simp [sobs, hprev, snap_length, hlen], ?_⟩
      simp only [sobs, lastOpened, hsn]
      simp [view, freshSink]
    · intro x hx
      simp only [sobs, hf, List.map_map, List.mem_map, Function.comp] at hx
      obtain ⟨q, hq, rfl⟩ := hx
      unfold fwdOk
      simp only [Bool.and_eq_true, List.contains_eq_mem, decide_eq_true_eq]
      refine ⟨by rw [hpa]; simp [hq], ?_⟩
      simp only [encTgt, Nat.add_one_ne_zero, if_false, Bool.and_eq_true, Nat.add_sub_cancel]
      refine ⟨by simp [sobs, snap_length, hlen], ?_⟩
      rw [othersClosed_iff]
      exact hinv.others_view _ (Or.inl hnx)
    · intro h; simp only [sobs] at h; rw [hidle] at h; cases h
    · simp only [SAcc.after]; exact hp2

theorem spec_singleton_go (ops : List SOp) :
    ∀ (p : Pool) (a : SAcc) (idx : Nat), PInv p → SRel a p →
      specSGo a idx (singletonCore.trace () p ops) = .ok := by
  induction ops with
  | nil => intros; rfl
  | cons op ops ih =>
    intro p a idx hi hr
    obtain ⟨h1, h2⟩ := spec_step_singleton hi hr idx op
    simp only [TComp.trace, singletonCore, sstep, specSGo]
    rw [h1]
    exact ih _ _ _ (step_inv hi op) h2


/-! ### RefCountedSink -/

/-- the model's counter is the number of holders; the underlying sink is open iff somebody holds -/
structure RInv (s : RC) : Prop where
  bal : s.opens = s.closes + (if 0 < s.count then 1 else 0)
  ar : 0 < s.count → s.ar = s.opens

theorem RInv.init : RInv {} := ⟨rfl, fun h => absurd h (by decide)⟩

theorem RInv.step {s : RC} (hi : RInv s) (op : ROp) : RInv (s.step op).1 := by
  obtain ⟨hb, ha⟩ := hi
  cases op with
  | ropen h =>
    simp only [RC.step]
    split
    · rename_i hc
      have : s.count = 0 := by omega
      constructor <;> simp_all
    · rename_i hc
      have : 0 < s.count := by omega
      constructor <;> simp_all
  | rclose h =>
    simp only [RC.step]
    split
    · exact ⟨hb, ha⟩
    · split
      · rename_i h0 h1
        have : s.count = 1 := by omega
        constructor
        · simp_all
        · intro h; simp at h; omega
      · rename_i h0 h1
        have : 0 < s.count - 1 := by omega
        have h2 : 0 < s.count := by omega
        constructor
        · simp_all
        · intro _; exact ha h2
  | rfault => exact ⟨hb, ha⟩

theorem RC.run_inv (ops : List ROp) : ∀ {s : RC}, RInv s → RInv (s.run ops) := by
  induction ops with
  | nil => intro s h; exact h
  | cons op ops ih => intro s h; exact ih (h.step op)

theorem RC.step_count (s : RC) (op : ROp) :
    (s.step op).1.count = (match op with | .ropen _ => s.count + 1 | .rclose _ => s.count - 1 | .rfault => s.count) := by
  cases op with
  | ropen h => simp only [RC.step]; split <;> rfl
  | rclose h =>
    simp only [RC.step]
    split
    · rename_i h0; simp [h0]
    · split <;> rfl
  | rfault => rfl

theorem RC.run_count (ops : List ROp) : ∀ (s : RC), (s.run ops).count = holders s.count ops := by
  induction ops with
  | nil => intro s; rfl
  | cons op ops ih =>
    intro s
    simp only [RC.run]
    rw [ih, RC.step_count]
    cases op <;> rfl

def RRel (a : RAcc) (s : RC) : Prop := a.n = s.count ∧ a.po = s.opens ∧ a.pc = s.closes

theorem spec_step_refcount {s : RC} {a : RAcc} (hi : RInv s) (hr : RRel a s) (y : Bool) (idx : Nat) (op : ROp) :
    specRObs a idx op (rstep y s op).2 = .ok ∧ RRel (a.after op (rstep y s op).2) (s.step op).1 := by
  obtain ⟨hn, hpo, hpc⟩ := hr
  have hi' := hi.step op
  have hcnt := RC.step_count s op
  obtain ⟨hb', ha'⟩ := hi'
  obtain ⟨hb, ha⟩ := hi
  cases op with
  | ropen h =>
    simp only at hcnt
    have hbal : (s.step (.ropen h)).1.opens = (s.step (.ropen h)).1.closes + 1 := by
      rw [hb']; simp [hcnt]
    have hret : (s.step (.ropen h)).2 = (s.step (.ropen h)).1.opens := by
      simp only [RC.step]
      split
      · rfl
      · rename_i hc
        simp only
        exact ha (by omega)
    have hoc : (s.step (.ropen h)).1.closes = s.closes ∧
        (s.step (.ropen h)).1.opens = s.opens + (if s.count = 0 then 1 else 0) := by
      simp only [RC.step]
      split
      · rename_i hc; have : s.count = 0 := by omega
        simp [this]
      · rename_i hc; have : s.count ≠ 0 := by omega
        simp [this]
    refine ⟨?_, ⟨by simp [RAcc.after, rstep, hcnt, hn], rfl, rfl⟩⟩
    simp only [specRObs, rstep, RAcc.after, hn, hpo, hpc, hret, hoc.1, hoc.2]
    by_cases h0 : s.count = 0
    · simp [h0, Verdict.and]
      have := hoc.2; simp [h0] at this
      have := hoc.1
      omega
    · have hb1 : s.opens = s.closes + 1 := by rw [hb]; simp [Nat.pos_of_ne_zero h0]
      simp [h0, Verdict.and, hb1]
  | rclose h =>
    simp only at hcnt
    have hoc : (s.step (.rclose h)).1.opens = s.opens ∧
        (s.step (.rclose h)).1.closes = s.closes + (if s.count = 1 then 1 else 0) := by
      simp only [RC.step]
      split
      · rename_i h0; simp [h0]
      · split
        · rename_i h0 h1; have : s.count = 1 := by omega
          simp [this]
        · rename_i h0 h1; have : s.count ≠ 1 := by omega
          simp [this]
    refine ⟨?_, ⟨by simp [RAcc.after, rstep, hcnt, hn], rfl, rfl⟩⟩
    simp only [specRObs, rstep, RAcc.after, hn, hpo, hpc, hoc.1, hoc.2]
    by_cases h0 : s.count = 0
    · simp [h0, Verdict.and]; rw [hb]; simp [h0]
    · by_cases h1 : s.count = 1
      · simp [h1, Verdict.and]; rw [hb]; simp [h1]
      · have h2 : 1 < s.count := by omega
        have h3 : 0 < s.count - 1 := by omega
        simp [h0, h1, h2, h3, Verdict.and]
        rw [hb]; simp [Nat.pos_of_ne_zero h0]
  | rfault =>
    refine ⟨?_, ⟨by simp [RAcc.after, rstep, RC.step, hn], rfl, rfl⟩⟩
    simp only [specRObs, rstep, RC.step, RAcc.after, hn, hpo, hpc]
    simp [Verdict.and]
    exact hb

theorem spec_refcount_go (y : Bool) (ops : List ROp) :
    ∀ (s : RC) (a : RAcc) (idx : Nat), RInv s → RRel a s →
      specRGo a idx (refcountCore.trace y s ops) = .ok := by
  induction ops with
  | nil => intros; rfl
  | cons op ops ih =>
    intro s a idx hi hr
    obtain ⟨h1, h2⟩ := spec_step_refcount hi hr y idx op
    simp only [TComp.trace, refcountCore, specRGo]
    rw [h1]
    exact ih _ _ _ (hi.step op) h2

end Scales.Shared
