import ScalesModel.Proofs.HeapStore
import ScalesModel.Adapter.Heap

/-! The system invariant of the heap balancer model.  (Preservation by every operation:
    HeapOps.lean, HeapPut.lean, HeapGet.lean; what is derived from it: Props/C03.lean, Props/C04.lean.) -/
namespace Scales.Heap

/-- number of dispatch records for node `id` that have not completed -/
def outL (reqs : List (Nat × Bool)) (id : Nat) : Nat :=
  (reqs.filter (fun r => decide (r.1 = id) && !r.2)).length

/-- dispatches to node `id` that have not completed -/
def outOf (s : HS) (id : Nat) : Nat := outL s.reqs id

/-- fewer than 2^31−1 dispatches: a load ≥ 0 then always means "marked down" -/
def maxReqs : Nat := 2147483647

/-- the bookkeeping part of the invariant; it does not depend on how the heap is arranged nor on
    the down list -/
structure Book (s : HS) : Prop where
  /-- load = outstanding, measured from Idle (healthy) or from 0 (marked down) -/
  acct : ∀ id, id < s.nodes.length →
    (s.node id).load = (outOf s id : Int) ∨ (s.node id).load = Idle + (outOf s id : Int)
  bound : s.reqs.length < maxReqs
  reqsOk : ∀ r ∈ s.reqs, r.1 < s.nodes.length
  closedIn : ∀ id, InHeap s id → (s.node id).closed = 0
  closedOff : ∀ id, id < s.nodes.length → ¬ InHeap s id →
    (s.node id).closed = (if outOf s id = 0 ∨ (s.node id).load ≥ 0 then 1 else 0)
  /-- the heap holds each endpoint once -/
  epsInj : ∀ a b, InHeap s a → InHeap s b → (s.node a).ep = (s.node b).ep → a = b

/-- membership (base.py `_servers`) and the heap hold the same endpoints -/
def SrvOk (s : HS) : Prop := ∀ ep, ep ∈ s.servers ↔ ∃ id, InHeap s id ∧ (s.node id).ep = ep

/-- the down list `d` is exactly right for state `s` -/
structure DownOk (s : HS) (d : List Nat) : Prop where
  pen : ∀ id ∈ d, id < s.nodes.length ∧ (s.node id).load ≥ 0
  all : ∀ id, InHeap s id → (s.node id).load ≥ 0 → id ∈ d
  nodup : d.Nodup

structure Inv (s : HS) : Prop where
  wf : WF s
  ord : Ord (L s) s.size
  book : Book s
  down : DownOk s s.down
  srv : SrvOk s

theorem Inv.acct {s : HS} (h : Inv s) : ∀ id, id < s.nodes.length →
    (s.node id).load = (outOf s id : Int) ∨ (s.node id).load = Idle + (outOf s id : Int) := h.book.acct

/-! ### counting outstanding dispatches -/

theorem outL_le (reqs : List (Nat × Bool)) (id : Nat) : outL reqs id ≤ reqs.length :=
  List.length_filter_le _ _

theorem outL_append (reqs : List (Nat × Bool)) (nid id : Nat) :
    outL (reqs ++ [(nid, false)]) id = outL reqs id + (if nid = id then 1 else 0) := by
  unfold outL
  rw [List.filter_append, List.length_append]
  by_cases h : nid = id <;> simp [h]

theorem outL_set (reqs : List (Nat × Bool)) (r nid id : Nat) (h : reqs[r]? = some (nid, false)) :
    outL (reqs.set r (nid, true)) id + (if nid = id then 1 else 0) = outL reqs id := by
  unfold outL
  induction reqs generalizing r with
  | nil => simp at h
  | cons x xs ih =>
    cases r with
    | zero =>
      simp only [List.getElem?_cons_zero, Option.some.injEq] at h
      subst h
      by_cases e : nid = id <;> simp [e, List.filter_cons]
    | succ r =>
      simp only [List.getElem?_cons_succ] at h
      have := ih r h
      simp only [List.set_cons_succ, List.filter_cons]
      split <;> (try simp only [List.length_cons]) <;> omega

theorem outL_set_done (reqs : List (Nat × Bool)) (r nid id : Nat) (h : reqs[r]? = some (nid, true)) :
    outL (reqs.set r (nid, true)) id = outL reqs id := by
  have : reqs.set r (nid, true) = reqs := by
    apply List.ext_getElem?
    intro k
    rw [List.getElem?_set]
    split
    · rename_i e; subst e
      split
      · exact h.symm
      · rename_i hl; rw [List.getElem?_eq_none (by omega)]
    · rfl
  rw [this]

/-! ### the consequences of the bound -/

theorem Book.out_lt {s : HS} (b : Book s) (id : Nat) : (outOf s id : Int) < 2147483647 := by
  have := outL_le s.reqs id
  have := b.bound
  unfold maxReqs at this
  unfold outOf
  omega

/-- under the bound, "load ≥ 0" is exactly "accounted from 0" -/
theorem Book.pen_iff {s : HS} (b : Book s) (id : Nat) (hl : id < s.nodes.length) :
    ((s.node id).load ≥ 0 ↔ (s.node id).load = (outOf s id : Int)) ∧
    ((s.node id).load < 0 ↔ (s.node id).load = Idle + (outOf s id : Int)) ∧
    Idle ≤ (s.node id).load ∧ (s.node id).load < Penalty := by
  have h1 := b.out_lt id
  have h2 := b.acct id hl
  unfold Idle Penalty at *
  omega

/-! ### transfer along a frame -/

/-- what the bookkeeping needs from a frame (channel states are irrelevant to it) -/
structure FrameW (s s' : HS) : Prop where
  size : s'.size = s.size
  len : s'.nodes.length = s.nodes.length
  fields : ∀ id, (s'.node id).load = (s.node id).load ∧ (s'.node id).ep = (s.node id).ep ∧
    (s'.node id).closed = (s.node id).closed
  inHeap : ∀ id, InHeap s' id ↔ InHeap s id
  down : s'.down = s.down
  reqs : s'.reqs = s.reqs
  servers : s'.servers = s.servers

theorem Frame.toW {s s' : HS} (f : Frame s s') : FrameW s s' :=
  ⟨f.size, f.len, fun id => ⟨(f.fields id).1, (f.fields id).2.1, (f.fields id).2.2.2⟩, f.inHeap, f.down, f.reqs,
    f.servers⟩

theorem FrameW.outOf {s s' : HS} (f : FrameW s s') (id : Nat) : outOf s' id = outOf s id := by
  unfold Scales.Heap.outOf; rw [f.reqs]

theorem Frame.outOf {s s' : HS} (f : Frame s s') (id : Nat) : outOf s' id = outOf s id := f.toW.outOf id

theorem Book.frameW {s s' : HS} (b : Book s) (f : FrameW s s') : Book s' := by
  constructor
  · intro id hl
    rw [(f.fields id).1, f.outOf]
    exact b.acct id (by rw [← f.len]; exact hl)
  · rw [f.reqs]; exact b.bound
  · intro r hr
    rw [f.reqs] at hr; rw [f.len]; exact b.reqsOk r hr
  · intro id h
    rw [(f.fields id).2.2]
    exact b.closedIn id ((f.inHeap id).mp h)
  · intro id hl hn
    rw [(f.fields id).2.2, (f.fields id).1, f.outOf]
    exact b.closedOff id (by rw [← f.len]; exact hl) (fun h => hn ((f.inHeap id).mpr h))
  · intro a c ha hc he
    rw [(f.fields a).2.1, (f.fields c).2.1] at he
    exact b.epsInj a c ((f.inHeap a).mp ha) ((f.inHeap c).mp hc) he

theorem SrvOk.frameW {s s' : HS} (b : SrvOk s) (f : FrameW s s') : SrvOk s' := by
  intro ep
  rw [f.servers, b ep]
  constructor
  · rintro ⟨id, h1, h2⟩
    exact ⟨id, (f.inHeap id).mpr h1, by rw [(f.fields id).2.1]; exact h2⟩
  · rintro ⟨id, h1, h2⟩
    exact ⟨id, (f.inHeap id).mp h1, by rw [← (f.fields id).2.1]; exact h2⟩

theorem DownOk.frameW {s s' : HS} {d : List Nat} (b : DownOk s d) (f : FrameW s s') : DownOk s' d := by
  constructor
  · intro id hd
    rw [(f.fields id).1, f.len]
    exact b.pen id hd
  · intro id h hl
    rw [(f.fields id).1] at hl
    exact b.all id ((f.inHeap id).mp h) hl
  · exact b.nodup

theorem Book.frame {s s' : HS} (b : Book s) (f : Frame s s') : Book s' := b.frameW f.toW
theorem SrvOk.frame {s s' : HS} (b : SrvOk s) (f : Frame s s') : SrvOk s' := b.frameW f.toW
theorem DownOk.frame {s s' : HS} {d : List Nat} (b : DownOk s d) (f : Frame s s') : DownOk s' d := b.frameW f.toW

/-- a rearrangement of the heap that restores the order keeps the invariant -/
theorem Inv.frameW {s s' : HS} (h : Inv s) (f : FrameW s s') (hw : WF s') (ho : Ord (L s') s'.size) : Inv s' :=
  ⟨hw, ho, h.book.frameW f, by rw [f.down]; exact h.down.frameW f, h.srv.frameW f⟩

theorem Inv.frame {s s' : HS} (h : Inv s) (f : Frame s s') (hw : WF s') (ho : Ord (L s') s'.size) : Inv s' :=
  h.frameW f.toW hw ho

end Scales.Heap
