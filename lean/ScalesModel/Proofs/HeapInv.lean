import ScalesModel.Proofs.HeapFix
import ScalesModel.Adapter.Heap

/-! The system invariant of the heap balancer model and its preservation by every operation.
    (Statements first; see Props/C03.lean and Props/C04.lean for what is derived from it.) -/
namespace Scales.Heap

/-- dispatches to node `id` that have not completed -/
def outOf (s : HS) (id : Nat) : Nat :=
  (s.reqs.filter (fun r => decide (r.1 = id) && !r.2)).length

structure Inv (s : HS) : Prop where
  wf : WF s
  ord : Ord (L s) s.size
  /-- load = outstanding, measured from Idle (healthy) or from 0 (marked down) -/
  acct : ∀ id, id < s.nodes.length →
    (s.node id).load = (outOf s id : Int) ∨ (s.node id).load = Idle + (outOf s id : Int)
  downPen : ∀ id ∈ s.down, id < s.nodes.length ∧ (s.node id).load ≥ 0
  downAll : ∀ id, InHeap s id → (s.node id).load ≥ 0 → id ∈ s.down
  downNodup : s.down.Nodup
  reqsOk : ∀ r ∈ s.reqs, r.1 < s.nodes.length
  closedIn : ∀ id, InHeap s id → (s.node id).closed = 0
  closedOff : ∀ id, id < s.nodes.length → ¬ InHeap s id →
    (s.node id).closed = (if outOf s id = 0 ∨ (s.node id).load ≥ 0 then 1 else 0)
  /-- membership (base.py `_servers`) and the heap hold the same endpoints, once each -/
  epsInj : ∀ a b, InHeap s a → InHeap s b → (s.node a).ep = (s.node b).ep → a = b
  epsServers : ∀ ep, ep ∈ s.servers ↔ ∃ id, InHeap s id ∧ (s.node id).ep = ep

end Scales.Heap
